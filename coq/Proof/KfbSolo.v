(** C16 for kirsch_bounded_kfifo_queue: try_push and pop finish within (2k+12)*(segs+2) solo steps from every
    reachable state, for every sequence of random start offsets.  Phase A: from any program point the thread
    reaches the top of its retry loop (or returns) within 2k+9 steps; phase B: from the loop top every local
    value is up to date and a measure (remaining loop restarts, steps left in the iteration) decreases.
    No axioms, no admits. *)
From Coq Require Import NArith List Bool Lia PeanoNat Arith Wf_nat.
From XV Require Import Base.Word Conc.Lts Conc.Ev Conc.Solo Model.KfbDefs.
From XV Require Import Proof.KfbArith Proof.KfbWf Proof.KfbOwn Proof.KfbRing Proof.KfbRegion Proof.KfbMono Proof.KfbCons.
Import ListNotations.
Local Open Scope N_scope.

Definition idle (s : state) (t : nat) : bool := match th s t with Idle => true | _ => false end.

Lemma iw_eqb_refl w : iw_eqb w w = true.
Proof. destruct (iw_eqb_spec w w); congruence. Qed.
Lemma sw_eqb_refl w : sw_eqb w w = true.
Proof. exact (iw_eqb_refl w). Qed.

Set Default Proof Using "All".
Section SoloGen.
  Variables k segs : N.
  Notation step := (step k segs).
  Variable t : nat.

  (** [orun orc n s s']: t takes n consecutive steps from s to s', the i-th with oracle value [orc i],
      each of them enabled and taken while t is not idle *)
  Fixpoint orun (orc : nat -> N) (n : nat) (s s' : state) : Prop :=
    match n with
    | O => s' = s
    | S m => idle s t = false /\ exists s1 es, step s (Step t (orc O)) = Some (s1, es) /\ orun (fun i => orc (S i)) m s1 s'
    end.

  Lemma orun_app orc n m s s1 s2 : orun orc n s s1 -> orun (fun i => orc (n + i)%nat) m s1 s2 -> orun orc (n + m) s s2.
  Proof.
    revert orc s. induction n as [|n IH]; intros orc s; cbn [orun Nat.add].
    - intros ->. exact (fun x => x).
    - intros (Hi & sa & es & Hst & Hr) H2. split; [exact Hi|]. exists sa, es. split; [exact Hst|]. apply IH; assumption.
  Qed.

  (** constant oracle: the solo runs of Conc/Solo.v *)
  Lemma orun_solo r n s s' : orun (fun _ => r) n s s' -> solo_steps step (fun u => Step u r) idle t n s s'.
  Proof.
    revert s. induction n as [|n IH]; intros s; cbn [orun].
    - intros ->. constructor.
    - intros (Hi & sa & es & Hst & Hr). eapply solo_S; eauto.
  Qed.

  (** measure rule with a target predicate and arbitrary oracle values *)
  Lemma by_measure (P : state -> Prop) (Q : state -> bool) (mu : state -> nat) :
    (forall s, P s -> Q s = false -> idle s t = false /\
       forall r, exists s' es, step s (Step t r) = Some (s', es) /\ P s' /\ (mu s' < mu s)%nat) ->
    forall s, P s -> forall orc, exists n s', (n <= mu s)%nat /\ orun orc n s s' /\ P s' /\ Q s' = true.
  Proof.
    intros Hstep s. remember (mu s) as m eqn:Hm. revert s Hm.
    induction m as [m IH] using lt_wf_ind. intros s Hm HP orc.
    destruct (Q s) eqn:HQ.
    - exists O, s. repeat split; [lia|exact HP|exact HQ].
    - destruct (Hstep s HP HQ) as [Hi Hr]. destruct (Hr (orc O)) as (s1 & es & Hst & HP1 & Hlt).
      destruct (IH (mu s1) ltac:(lia) s1 eq_refl HP1 (fun i => orc (S i))) as (n & s' & Hn & Hrun & HP' & HQ').
      exists (S n), s'. split; [lia|]. split; [|split; assumption]. cbn [orun]. split; [exact Hi|]. exists s1, es. auto.
  Qed.
End SoloGen.

Section SoloA.
  Variables k segs : N.
  Hypothesis Hk : 1 <= k.
  Hypothesis Hs : 1 <= segs.
  Notation step := (step k segs).
  Variable t : nat.
  Notation K := (N.to_nat k).

  (** * Phase A: from anywhere to the top of the retry loop (or to the end of the call) *)
  Definition topb (s : state) : bool := match th s t with Idle | P1 _ | D1 => true | _ => false end.

  Definition leftA (s : state) : nat :=
    match th s t with
    | Idle | P1 _ | D1 => 0
    | Begin _ => 1
    | P2 _ _ => 2 * K + 9
    | PF _ _ _ _ i => N.to_nat (k - i) + K + 8
    | P3 _ _ _ _ => 8
    | P4 _ _ _ _ => 7
    | C1 _ _ _ _ => 6
    | C2 _ _ _ _ => 5
    | C3 _ _ _ _ hc => if iw_eqb (head s) hc then 4 else 6
    | C4 _ _ _ _ hc _ => if iw_eqb (head s) hc then 3 else 5
    | C5 _ _ _ _ _ => 2
    | C6 _ _ _ => 1
    | P3n _ _ _ => K + 4
    | PQ _ _ _ => K + 3
    | PS _ _ _ i => N.to_nat (k - i) + 2
    | PHC _ _ _ => 2
    | PH _ _ _ => 1
    | PT _ _ => 1
    | D2 _ => K + 4
    | DF _ _ _ i => N.to_nat (k - i) + 3
    | D3 _ _ _ _ _ | D3n _ _ => 3
    | DT _ _ _ _ _ | DE _ _ => 2
    | D4 _ _ _ _ | DH _ => 1
    end%nat.

  Lemma leftA_le s : (leftA s <= 2 * K + 9)%nat.
  Proof. unfold leftA. destruct (th s t); try lia; try (destruct (iw_eqb _ _); lia). Qed.


  Lemma stepA s : reach init step s -> topb s = false ->
    idle s t = false /\ forall r, exists s' es, step s (Step t r) = Some (s', es) /\ reach init step s' /\ (leftA s' < leftA s)%nat.
  Proof.
    intros Hr Htop.
    destruct (Inv1_reach k segs Hk Hs s Hr) as (_ & _ & _ & Hall). pose proof (Hall t) as Hme.
    split; [unfold idle, topb in *; destruct (th s t); try discriminate; reflexivity|].
    intros r.
    assert (Hgoal : exists s' es, step s (Step t r) = Some (s', es) /\ (leftA s' < leftA s)%nat).
    { unfold topb in Htop. unfold leftA at 2. unfold KfbDefs.step.
      destruct (th s t) as [|[v|]|b|b tl|b tl hd ri i|b tl j otag|b tl hd|b tl j otag|b tl hd|b tl hd i|b tl hd|b tl hd|b tl
                            |b tl j tg|b tl j tg|b tl j tg hc|b tl j tg hc tc|b tl j tg hc|b j tg
                            | |hd|hd tl ri i|hd tl j p tg|hd tl|hd tl j p tg|hd j p tg|hd tl|hd] eqn:E;
        try discriminate; cbn [KfbWf.T1] in Hme;
        repeat match goal with
        | |- context [if iw_eqb ?a ?b then _ else _] => destruct (iw_eqb_spec a b)
        | |- context [if sw_eqb ?a ?b then _ else _] => destruct (sw_eqb_spec a b)
        | |- context [if negb (?a =? ?b) then _ else _] => destruct (N.eqb_spec a b); cbn [negb]
        | |- context [if ?a =? ?b then _ else _] => destruct (N.eqb_spec a b)
        | |- context [if ?a <? ?b then _ else _] => destruct (N.ltb_spec a b)
        | |- context [if in_valid_region ?a ?b ?c then _ else _] => destruct (in_valid_region a b c)
        | |- context [if not_in_valid_region ?a ?b ?c then _ else _] => destruct (not_in_valid_region a b c)
        end;
        eexists _, _; (split; [reflexivity|]); unfold leftA; sim; rewrite upd_same; rewrite ?iw_eqb_refl;
        try lia; try (destruct (iw_eqb _ _); lia); try (subst; rewrite ?iw_eqb_refl; lia). }
    destruct Hgoal as (s' & es & Hst & Hlt). exists s', es. split; [exact Hst|]. split; [eapply reach_step; eauto|exact Hlt].
  Qed.
End SoloA.

Lemma nrange_succ i : nrange (i + 1) = nrange i ++ [i].
Proof.
  unfold nrange. replace (N.to_nat (i + 1)) with (S (N.to_nat i)) by lia.
  rewrite seq_S, map_app. cbn [map Nat.add]. rewrite N2Nat.id. reflexivity.
Qed.

Section SoloB.
  Variables k segs : N.
  Hypothesis Hk : 1 <= k.
  Hypothesis Hs : 1 <= segs.
  Notation step := (step k segs).
  Notation qsize := (qsize k segs).
  Notation dist := (dist segs).
  Notation hs := (hs k).
  Notation ts := (ts k).
  Notation fidx := (fidx k segs).
  Notation sidx := (sidx k segs).
  Variable t : nat.
  Notation K := (N.to_nat k).
  Notation SS := (N.to_nat segs).

  (** * Phase B: from the top of the retry loop, with every local value up to date *)
  Definition nullb (s : state) (j : N) : bool := fst (slot s j) =? 0.
  Definition segnull (s : state) (x : N) : bool := existsb (fun m => nullb s (fidx x 0 m)) (nrange k).
  Definition foundb (s : state) : bool := segnull s (fst (tail s)).
  Definition nextfound (s : state) : bool := segnull s ((fst (tail s) + k) mod qsize).
  Definition scanned_full (s : state) (x ri i : N) : bool := forallb (fun m => negb (nullb s (fidx x ri m))) (nrange i).
  Definition scanned_null (s : state) (x i : N) : bool := forallb (fun m => nullb s (sidx x m)) (nrange i).
  Definition dn (s : state) : nat := N.to_nat (dist (hs s) (ts s)).
  Definition Phi (s : state) : nat := (SS - 1 - dn s)%nat.
  Definition r1 (s : state) : nat := if foundb s then 0%nat else (Phi s + 1)%nat.
  Definition IT : nat := (2 * K + 12)%nat.

  Definition freshB (s : state) : bool :=
    match th s t with
    | Idle | Begin _ | P1 _ | D1 => true
    | P2 _ tl => iw_eqb tl (tail s)
    | PF _ tl hd ri i => iw_eqb tl (tail s) && iw_eqb hd (head s) && scanned_full s (fst tl) ri i
    | P3 _ tl j otag | P4 _ tl j otag => iw_eqb tl (tail s) && sw_eqb (slot s j) (0, otag)
    | C1 b tl j tg | C2 b tl j tg => iw_eqb tl (tail s) && sw_eqb (slot s j) (b, tg)
    | C3 b tl j tg hc => iw_eqb tl (tail s) && sw_eqb (slot s j) (b, tg) && iw_eqb hc (head s)
    | C4 b tl j tg hc tc => iw_eqb tl (tail s) && sw_eqb (slot s j) (b, tg) && iw_eqb hc (head s) && iw_eqb tc (tail s)
    | C5 b tl j tg hc => iw_eqb hc (head s)
    | C6 _ _ _ => false
    | P3n _ tl hd => iw_eqb tl (tail s) && iw_eqb hd (head s) && negb (foundb s)
    | PQ _ tl hd => iw_eqb tl (tail s) && iw_eqb hd (head s) && ((fst tl + k) mod qsize =? fst hd)
    | PS _ tl hd i => iw_eqb tl (tail s) && iw_eqb hd (head s) && ((fst tl + k) mod qsize =? fst hd) && scanned_null s (fst hd) i
    | PHC _ tl hd => iw_eqb tl (tail s) && iw_eqb hd (head s) && ((fst tl + k) mod qsize =? fst hd) && scanned_null s (fst hd) k
    | PH _ tl hd => iw_eqb hd (head s)
    | PT _ tl => iw_eqb tl (tail s) && (nextfound s || (dist (hs s) (ts s) + 1 <? segs))
    | D2 hd => iw_eqb hd (head s)
    | DF hd tl ri i => iw_eqb hd (head s) && iw_eqb tl (tail s)
    | D3 hd tl j p tg => iw_eqb hd (head s) && sw_eqb (slot s j) (p, tg)
    | D3n hd tl | DE hd tl => iw_eqb hd (head s) && iw_eqb tl (tail s)
    | DT _ _ j p tg | D4 _ j p tg => sw_eqb (slot s j) (p, tg)
    | DH hd => iw_eqb hd (head s) && (1 <=? dist (hs s) (ts s))
    end.

  Definition rrB (s : state) : nat :=
    match th s t with
    | Begin (OPush _) | P1 _ | P2 _ _ | PF _ _ _ _ _ => r1 s
    | P3n _ _ _ => (Phi s + 1)%nat
    | PQ _ _ _ | PS _ _ _ _ | PHC _ _ _ | PH _ _ _ => 1%nat
    | PT _ _ => if nextfound s then 1%nat else (Phi s + 1)%nat
    | Begin OPop | D1 | D2 _ | DF _ _ _ _ | D3n _ _ | DE _ _ | DH _ => dn s
    | _ => 0%nat
    end.

  Definition leftB (s : state) : nat :=
    match th s t with
    | Idle => 0
    | Begin (OPush _) => 2 * K + 11
    | P1 _ => 2 * K + 10
    | P2 _ _ => 2 * K + 9
    | PF _ _ _ _ i => N.to_nat (k - i) + K + 8
    | P3 _ _ _ _ => 8
    | P4 _ _ _ _ => 7
    | C1 _ _ _ _ => 6
    | C2 _ _ _ _ => 5
    | C3 _ _ _ _ _ => 4
    | C4 _ _ _ _ _ _ => 3
    | C5 _ _ _ _ _ => 2
    | C6 _ _ _ => 1
    | P3n _ _ _ => K + 4
    | PQ _ _ _ => K + 3
    | PS _ _ _ i => N.to_nat (k - i) + 2
    | PHC _ _ _ => 2
    | PH _ _ _ => 1
    | PT _ _ => 1
    | Begin OPop => K + 6
    | D1 => K + 5
    | D2 _ => K + 4
    | DF _ _ _ i => N.to_nat (k - i) + 3
    | D3 _ _ _ _ _ | D3n _ _ => 3
    | DT _ _ _ _ _ | DE _ _ => 2
    | D4 _ _ _ _ | DH _ => 1
    end%nat.

  Definition muB (s : state) : nat := (IT * rrB s + leftB s)%nat.

  Lemma mu_lt (r' r l' l : nat) : (r' <= r)%nat -> (l' < l)%nat -> (IT * r' + l' < IT * r + l)%nat.
  Proof. intros. nia. Qed.
  Lemma mu_restart (r' r l' l : nat) : (r' < r)%nat -> (l' < IT)%nat -> (IT * r' + l' < IT * r + l)%nat.
  Proof. intros. nia. Qed.

  Ltac bools :=
    repeat match goal with
    | H : _ && _ = true |- _ => apply andb_prop in H; destruct H
    | H : iw_eqb ?a ?b = true |- _ => destruct (iw_eqb_spec a b); [clear H|discriminate H]
    | H : sw_eqb ?a ?b = true |- _ => destruct (sw_eqb_spec a b); [clear H|discriminate H]
    end.

  Lemma forallb_nrange_succ (f : N -> bool) i : forallb f (nrange (i + 1)) = forallb f (nrange i) && f i.
  Proof. rewrite nrange_succ, forallb_app. cbn [forallb]. rewrite andb_true_r. reflexivity. Qed.

  (** a scan of find_index that saw k occupied slots: the segment has no empty slot *)
  Lemma full_not_found s x ri : wfi k segs x ->
    forallb (fun m => negb (fst (slot s (fidx x ri m)) =? 0)) (nrange k) = true ->
    existsb (fun m => fst (slot s (fidx x 0 m)) =? 0) (nrange k) = false.
  Proof.
    intros Hw Hall. destruct (existsb _ _) eqn:Ex; [|reflexivity]. exfalso.
    apply existsb_exists in Ex. destruct Ex as (m0 & Hm0 & Hz). apply nrange_in in Hm0.
    destruct (fidx_in k segs Hk Hs x 0 m0 Hw) as (_ & A & B).
    destruct (fidx_cover k segs Hk Hs x ri _ Hw A B) as (m & Hm & Em).
    rewrite forallb_forall in Hall. specialize (Hall m ltac:(apply nrange_in; exact Hm)).
    rewrite Em, Hz in Hall. discriminate.
  Qed.

  (** in_valid_region / not_in_valid_region for an insertion into the current tail segment *)
  Lemma valid_tail_segment x h : in_valid_region x x h = false -> not_in_valid_region x x h = true -> False.
  Proof.
    unfold in_valid_region, not_in_valid_region.
    destruct (N.ltb_spec x h); destruct (N.ltb_spec h x); destruct (N.leb_spec x x); destruct (N.ltb_spec x x); cbn; try discriminate; lia.
  Qed.

  Lemma stepB s : reach init step s -> freshB s = true -> idle s t = false ->
    forall r, exists s' es, step s (Step t r) = Some (s', es) /\ reach init step s' /\ freshB s' = true /\ (muB s' < muB s)%nat.
  Proof.
    intros Hr Hf Hi r.
    destruct (Inv_reach k segs Hk Hs s Hr) as ((Hh & Ht & Hsl & Hall) & I2 & H3 & I4). pose proof (Hall t) as Hme. pose proof (H3 t) as Hme3.
    assert (Hgoal : exists s' es, step s (Step t r) = Some (s', es) /\ freshB s' = true /\ (muB s' < muB s)%nat).
    { unfold idle in Hi. unfold freshB in Hf. unfold muB at 2. unfold rrB, leftB. unfold KfbDefs.step.
      destruct (th s t) as [|[v|]|b|b tl|b tl hd ri i|b tl j otag|b tl hd|b tl j otag|b tl hd|b tl hd i|b tl hd|b tl hd|b tl
                            |b tl j tg|b tl j tg|b tl j tg hc|b tl j tg hc tc|b tl j tg hc|b j tg
                            | |hd|hd tl ri i|hd tl j p tg|hd tl|hd tl j p tg|hd j p tg|hd tl|hd] eqn:E;
        try discriminate; cbn [KfbWf.T1 KfbRing.T3] in Hme, Hme3; bools;
        repeat match goal with
        | |- context [if iw_eqb ?a ?b then _ else _] => destruct (iw_eqb_spec a b)
        | |- context [if sw_eqb ?a ?b then _ else _] => destruct (sw_eqb_spec a b)
        | |- context [if negb (?a =? ?b) then _ else _] => destruct (N.eqb_spec a b); cbn [negb]
        | |- context [if ?a =? ?b then _ else _] => destruct (N.eqb_spec a b)
        | |- context [if ?a <? ?b then _ else _] => destruct (N.ltb_spec a b)
        | |- context [if in_valid_region ?a ?b ?c then _ else _] => destruct (in_valid_region a b c) eqn:?
        | |- context [if not_in_valid_region ?a ?b ?c then _ else _] => destruct (not_in_valid_region a b c) eqn:?
        end; try congruence;
        eexists _, _; (split; [reflexivity|]); unfold muB, freshB, rrB, leftB; sim; rewrite upd_same.
      all: try subst tl; try subst hd; try subst hc; try subst tc.
      all: unfold r1, Phi, dn, foundb, nextfound, segnull, scanned_full, scanned_null, nullb, KfbRing.hs, KfbRing.ts, KfbRing.sgw in *; sim.
      all: rewrite ?iw_eqb_refl, ?setf_same; cbn [andb].
      all: repeat match goal with e : slot _ ?j = (_, _) |- _ => rewrite e end; rewrite ?sw_eqb_refl; cbn [andb].
      all: repeat match goal with H : ?x = true |- context [?x] => rewrite H end; cbn [andb].
      all: try solve [split; [reflexivity|]; first [lia | apply mu_lt; lia]].
      + (* PF -> P3 *) destruct Hme as (_ & _ & _ & Hi').
        destruct (slot s (fidx (fst (tail s)) ri i)) as [p0 tg0]. cbn [fst snd] in *. subst p0. rewrite sw_eqb_refl.
        split; [reflexivity|apply mu_lt; lia].
      + (* PF -> PF *) destruct Hme as (_ & _ & _ & Hi').
        apply N.eqb_neq in n. split; [rewrite forallb_nrange_succ; apply andb_true_intro; split; [exact H0|rewrite n; reflexivity]|apply mu_lt; lia].
      + (* PF -> P3n *) destruct Hme as ([Hwt _] & _ & _ & Hi').
        assert (Hik : i + 1 = k) by lia.
        assert (Hfull : forallb (fun m => negb (fst (slot s (fidx (fst (tail s)) ri m)) =? 0)) (nrange (i + 1)) = true).
        { apply N.eqb_neq in n. rewrite forallb_nrange_succ. apply andb_true_intro; split; [exact H0|rewrite n; reflexivity]. }
        rewrite Hik in Hfull.
        rewrite (full_not_found s _ ri Hwt Hfull). split; [reflexivity|apply mu_lt; lia].
      + (* P3n -> PQ *) rewrite e1, N.eqb_refl. split; [reflexivity|apply mu_lt; lia].
      + (* P3n -> PT *) destruct Hme as ([Hwt _] & [Hwh _]).
        assert (Hd : dist (sg k (fst (head s))) (sg k (fst (tail s))) + 1 < segs).
        { pose proof (wfw_lt k segs Hk Hs _ Hwt) as X1. pose proof (wfw_lt k segs Hk Hs _ Hwh) as X2. unfold KfbRing.sgw in *.
          pose proof (dist_lt k segs Hk Hs _ _ X2 X1).
          pose proof (dist_full k segs Hk Hs _ _ X2 X1) as [F _].
          assert (dist (sg k (fst (head s))) (sg k (fst (tail s))) <> segs - 1).
          { intros Q. apply n. apply (wfi_inj k segs Hk Hs); [apply (adv_wf k segs Hk Hs); exact Hwt|exact Hwh|].
            destruct (adv_wf k segs Hk Hs _ Hwt) as [_ ->]. apply F. exact Q. }
          lia. }
        apply N.ltb_lt in Hd. rewrite Hd, orb_true_r. split; [reflexivity|].
        match goal with |- context [if ?c then _ else _] => destruct c end; apply mu_lt; lia.
      + (* PS -> PS *) destruct Hme as (_ & _ & Hi').
        split; [rewrite forallb_nrange_succ; apply andb_true_intro; split; [assumption|apply N.eqb_eq; exact e1]|apply mu_lt; lia].
      + (* PS -> PHC *) destruct Hme as (_ & _ & Hi'). assert (Hik : i + 1 = k) by lia.
        assert (Hfull : forallb (fun m => fst (slot s (sidx (fst (head s)) m)) =? 0) (nrange (i + 1)) = true).
        { rewrite forallb_nrange_succ; apply andb_true_intro; split; [assumption|apply N.eqb_eq; exact e1]. }
        rewrite Hik in Hfull. split; [exact Hfull|apply mu_lt; lia].
      + (* PHC success -> PT *)
        assert (Hnf : existsb (fun m : N => fst (slot s (fidx ((fst (tail s) + k) mod qsize) 0 m)) =? 0) (nrange k) = true).
        { apply existsb_exists. exists 0. split; [apply nrange_in; lia|].
          apply N.eqb_eq in H1. rewrite H1. rewrite forallb_forall in H0. specialize (H0 0 ltac:(apply nrange_in; lia)).
          unfold KfbDefs.fidx, KfbDefs.sidx in *. cbn [N.add]. rewrite N.mod_0_l by lia. exact H0. }
        rewrite Hnf. cbn [orb]. split; [reflexivity|apply mu_lt; lia].
      + (* PT success -> P1 *) split; [reflexivity|]. unfold adv in *. cbn [fst] in *.
        destruct (existsb _ (nrange k)) eqn:Enf; cbn [orb] in H0; [apply mu_restart; unfold IT; lia|].
        apply N.ltb_lt in H0. destruct (adv_wf k segs Hk Hs _ Ht) as [_ ->].
        pose proof (wfw_lt k segs Hk Hs _ Hh) as X3. pose proof (wfw_lt k segs Hk Hs _ Ht) as X1. unfold KfbRing.sgw in *.
        rewrite (dist_succ_r k segs Hk Hs _ _ X3 X1 H0). apply mu_restart; unfold IT; lia.
      + (* C4 -> C6: impossible *) exfalso. eapply valid_tail_segment; eauto.
      + (* DF -> D3 *) destruct Hme as (_ & _ & _ & Hi').
        destruct (slot s (fidx (fst (head s)) ri i)) as [p0 tg0]. cbn [fst snd] in *. rewrite sw_eqb_refl.
        split; [reflexivity|apply mu_lt; lia].
      + (* D3n -> DH *) destruct Hme as ([Hwh _] & [Hwt _]).
        pose proof (wfw_lt k segs Hk Hs _ Hwh) as X3. pose proof (wfw_lt k segs Hk Hs _ Hwt) as X1. unfold KfbRing.sgw in *.
        assert (dist (sg k (fst (head s))) (sg k (fst (tail s))) <> 0).
        { intros Q. apply n. apply (wfi_inj k segs Hk Hs); [exact Hwh|exact Hwt|]. apply (dist_0 k segs Hk Hs _ _ X3 X1 Q). }
        split; [apply N.leb_le; lia|apply mu_lt; lia].
      + (* DH success -> D1 *) split; [reflexivity|]. apply N.leb_le in H0.
        change (sg k (fst (adv k segs (head s)))) with (sgw k (adv k segs (head s))). rewrite (hs_adv k segs Hk Hs) by exact Hh.
        pose proof (wfw_lt k segs Hk Hs _ Hh) as X3. pose proof (wfw_lt k segs Hk Hs _ Ht) as X1. unfold KfbRing.hs, KfbRing.sgw in *.
        assert (Hne : sg k (fst (tail s)) <> sg k (fst (head s))) by (intros Q; rewrite Q, (dist_refl k segs Hk Hs) in H0; lia).
        destruct (dist_succ_l k segs Hk Hs _ _ X3 X1 Hne) as [-> _]. apply mu_restart; unfold IT; lia. }
    destruct Hgoal as (s' & es & Hst & Hfr & Hlt). exists s', es. split; [exact Hst|]. split; [eapply reach_step; eauto|]. split; assumption.
  Qed.
End SoloB.

Section SoloMain.
  Variables k segs : N.
  Hypothesis Hk : 1 <= k.
  Hypothesis Hs : 1 <= segs.
  Notation step := (step k segs).
  Notation K := (N.to_nat k).
  Notation SS := (N.to_nat segs).

  (** the explicit bound: (2k+12) * (segs+2) atomic steps *)
  Definition kfb_bound : nat := ((2 * K + 12) * (SS + 2))%nat.

  Lemma kfb_bound_value : kfb_bound = ((2 * K + 12) * (SS + 2))%nat.
  Proof using. reflexivity. Qed.

  Lemma muB_top t s : reach init step s -> topb t s = true -> freshB k segs t s = true /\ (muB k segs t s <= (2 * K + 12) * SS + 2 * K + 10)%nat.
  Proof.
    intros Hr Htop. destruct (Inv_reach k segs Hk Hs s Hr) as ((Hh & Ht & _) & _).
    pose proof (dist_lt k segs Hk Hs _ _ (wfw_lt k segs Hk Hs _ Hh) (wfw_lt k segs Hk Hs _ Ht)) as Hd.
    unfold topb in Htop. unfold freshB, muB, rrB, leftB, IT, r1, Phi, dn, KfbRing.hs, KfbRing.ts.
    destruct (th s t); try discriminate; (split; [reflexivity|]).
    - lia.
    - destruct (foundb k segs s); nia.
    - nia.
  Qed.

  (** C16: from EVERY reachable state (the other threads stopped anywhere), a thread running alone
      finishes its try_push / pop within [kfb_bound] of its own steps, whatever values the random
      start offsets take *)
  Theorem kfb_solo_any t s orc : reach init step s ->
    exists n s', (n <= kfb_bound)%nat /\ orun k segs t orc n s s' /\ idle s' t = true.
  Proof.
    intros Hr.
    destruct (by_measure k segs t (reach init step) (topb t) (leftA k t)) with (s := s) (orc := orc) as (n1 & s1 & Hn1 & Hrun1 & Hr1 & Htop).
    { intros s0 Hr0 Hq. apply (stepA k segs Hk Hs t s0 Hr0 Hq). }
    { exact Hr. }
    destruct (muB_top t s1 Hr1 Htop) as [Hf1 Hmu1].
    destruct (by_measure k segs t (fun x => reach init step x /\ freshB k segs t x = true) (fun x => idle x t) (muB k segs t))
      with (s := s1) (orc := fun i => orc (n1 + i)%nat) as (n2 & s2 & Hn2 & Hrun2 & _ & Hidle).
    { intros s0 [Hr0 Hf0] Hq. split; [exact Hq|]. intros r.
      destruct (stepB k segs Hk Hs t s0 Hr0 Hf0 Hq r) as (s' & es & A & B & C & D). exists s', es. auto. }
    { split; assumption. }
    exists (n1 + n2)%nat, s2. split; [|split; [eapply orun_app; eauto|exact Hidle]].
    pose proof (leftA_le k segs Hk Hs t s). unfold kfb_bound. nia.
  Qed.

  Corollary kfb_solo t s r : reach init step s ->
    finishes_within step (fun u => Step u r) idle t kfb_bound s.
  Proof.
    intros Hr. destruct (kfb_solo_any t s (fun _ => r) Hr) as (n & s' & Hn & Hrun & Hid).
    exists n, s'. split; [exact Hn|]. split; [apply (orun_solo k segs t r n s s' Hrun)|exact Hid].
  Qed.

  Corollary kfb_never_stuck t s r : reach init step s -> never_stuck step (fun u => Step u r) idle t s.
  Proof. intros Hr. eapply finishes_never_stuck. apply kfb_solo. exact Hr. Qed.
End SoloMain.

(** * Example: the solo run of T1 from the state of the premature-'full' schedule (its insertion is
    taken back, head and tail are advanced around the ring, the value is committed): 22 steps <= 56 *)
From XV Require Proof.KfbInv.
Definition solo_len (o : outcome state) : option nat := match o with Done _ n => Some n | _ => None end.
Example ex_solo_takeback :
  solo_len (solo_run (step 1 2) (fun u => Step u 0) idle 1%nat 100 0 (KfbInv.st_of 1 2 KfbInv.ex_full)) = Some 22%nat /\
  kfb_bound 1 2 = 56%nat.
Proof. vm_compute. split; reflexivity. Qed.
