(** Invariants of the hazard eras model (Model/HeDefs.v): properties C01 and C02 for
    xenium::reclamation::hazard_eras<> with the static allocation strategy.
    Layers: Proof/HeBase.v (ownership of the control blocks), Proof/HeGuards.v (guards, slots, reference counts, the
    last_hazard_era cache), Proof/HeNodes.v (life cycle of the nodes, where the retired nodes are), Proof/HeEras.v
    (era_clock, construction / retirement eras), this file: the safety argument and the theorems.
    The argument: a guard whose acquire has completed on node n holds a slot that publishes an era e with
    construction_era(n) <= e, and e <= retirement_era(n) once n is retired ([prot]): when acquire completes, the era
    just read equals the published era, so era_clock has not moved since the slot was written, in particular n (read
    from the cell in between) has not been retired yet - a retirement increments era_clock; later retirements stamp
    the node with the current era_clock >= e.  A scan that has n among its candidates started after n was retired,
    hence after the acquire completed: it reads the guard's slot while it still publishes e ([covered]), and e lies in
    [construction_era(n), retirement_era(n)], so reclaim_nodes keeps n.
    All theorems hold for every reachable state: any number of threads, any program, any schedule.  No axioms. *)
From Coq Require Import NArith List Bool Arith Lia PeanoNat.
From XV Require Import Conc.Lts Conc.Ev Model.HeDefs Proof.HeBase Proof.HeGuards Proof.HeNodes Proof.HeEras.
Import ListNotations.
Set Warnings "-cannot-remove-as-expected".

(** guard [g] of thread [t] protects node [n]: this->ptr = n and acquire has completed *)
Definition validated (st : state) (t g n : nat) : Prop :=
  ptr (gd (tl st t) g) = Some n /\ gv (gd (tl st t) g) = true.

(** the guard's slot publishes an era inside the life time of [n] *)
Definition prot (st : state) (t g n : nat) : Prop :=
  exists b i e, rcd (tl st t) = Some b /\ he (gd (tl st t) g) = Some i /\ hz st b i = VEra e /\
                ce st n <= e /\ forall u, g_life st n = LRet u -> e <= re st n.

(** the scan at program point [p] has seen era [e], or will still read slot [i] of control block [b] (publishing [e]) *)
Definition covered (p : pc) (b i e : nat) : Prop :=
  match p with
  | S5 s r rest => In e (s_prot s) \/ In b (r :: rest)
  | S6 s r rest i' => In e (s_prot s) \/ (b = r /\ i' <= i) \/ In b rest
  | S7 s => In e (s_prot s)
  | _ => True
  end.

Record InvP (st : state) : Prop := mkP {
  p_life : forall t g n, validated st t g n -> good (g_life st n);
  p_prot : forall t g n, validated st t g n -> prot st t g n;
  p_cover : forall t g n b i e s, validated st t g n -> rcd (tl st t) = Some b -> he (gd (tl st t) g) = Some i ->
            hz st b i = VEra e -> In n (rl (tl st s) ++ ad_of (th st s)) -> covered (th st s) b i e;
  p_nf : forall t g n, validated st t g n -> g_where st n <> PFreed;
  p_uaf : g_uaf st = false }.

(** a node in a retire list or adopted by a scan is retired *)
Lemma listed_ret st s n : InvN st -> In n (rl (tl st s) ++ ad_of (th st s)) -> exists u, g_life st n = LRet u.
Proof.
  intros HN Hin. assert (Hw : g_where st n <> PNone).
  { apply in_app_iff in Hin. destruct Hin as [H|H]; [apply (n_list st HN) in H|apply (n_flight st HN) in H]; congruence. }
  destruct (g_life st n) eqn:E; try (exfalso; apply Hw; apply (n_none st HN); intros u; congruence). exists t. reflexivity.
Qed.

Section P.
Variable nslots : nat.

(** the general preservation lemma: every step except the end of a scan *)
Lemma InvP_gen st st' :
  InvN st -> InvG nslots st -> InvP st ->
  (forall t g n, validated st' t g n ->
     (validated st t g n /\ rcd (tl st' t) = rcd (tl st t) /\ he (gd (tl st' t) g) = he (gd (tl st t) g) /\
      (forall b i, rcd (tl st t) = Some b -> he (gd (tl st t) g) = Some i -> hz st' b i = hz st b i)) \/
     ((forall u, g_life st n <> LRet u) /\ good (g_life st n) /\ prot st' t g n)) ->
  (forall n, good (g_life st n) -> good (g_life st' n)) ->
  (forall n, good (g_life st n) -> ce st' n = ce st n) ->
  (forall n u, g_life st' n = LRet u ->
     (g_life st n = LRet u /\ re st' n = re st n) \/ ((forall v, g_life st n <> LRet v) /\ clock st <= re st' n)) ->
  (forall n, g_where st n <> PFreed -> g_where st' n <> PFreed) ->
  (g_uaf st = false -> g_uaf st' = false) ->
  (forall s n, In n (rl (tl st' s) ++ ad_of (th st' s)) ->
     (forall b i e, covered (th st' s) b i e) \/
     (In n (rl (tl st s) ++ ad_of (th st s)) /\
      forall t g b i e, validated st t g n -> rcd (tl st t) = Some b -> he (gd (tl st t) g) = Some i -> hz st b i = VEra e ->
                        covered (th st s) b i e -> covered (th st' s) b i e)) ->
  InvP st'.
Proof.
  intros HN HG [I1 I2 I3 I4 I5] Hv Hl Hce Hre Hw Hu Hc.
  assert (Hnr : forall n, (forall u, g_life st n <> LRet u) -> g_where st n <> PFreed).
  { intros n H. assert (Hn : g_where st n = PNone) by (apply (n_none st HN); exact H). congruence. }
  constructor.
  - intros t g n H. apply Hl. destruct (Hv t g n H) as [(H1 & _)|(_ & H2 & _)]; [apply (I1 t g n H1)|exact H2].
  - intros t g n H. destruct (Hv t g n H) as [(H1 & H2 & H3 & H4)|(_ & _ & H3)]; [|exact H3].
    destruct (I2 t g n H1) as (b & i & e & Hb & Hi & Hz & Hce' & Hre'). exists b, i, e.
    rewrite H2, H3, (H4 b i Hb Hi), (Hce n (I1 t g n H1)). repeat split; try assumption.
    intros u Hn. destruct (Hre n u Hn) as [[Hn1 ->]|[_ Hn2]]; [apply (Hre' u Hn1)|].
    pose proof (g_le nslots st t (g_s nslots st t (HG t)) b i e Hb Hz). lia.
  - intros t g n b i e s H Hb Hi Hz Hin. destruct (Hc s n Hin) as [Hcv|[Hin' Htr]]; [apply Hcv|].
    destruct (Hv t g n H) as [(H1 & H2 & H3 & H4)|(Hnr' & _)].
    + rewrite H2 in Hb. rewrite H3 in Hi. rewrite (H4 b i Hb Hi) in Hz. apply (Htr t g b i e H1 Hb Hi Hz). apply (I3 t g n b i e s H1 Hb Hi Hz Hin').
    + exfalso. destruct (listed_ret st s n HN Hin') as [u Hu']. apply (Hnr' u Hu').
  - intros t g n H. apply Hw. destruct (Hv t g n H) as [(H1 & _)|(H2 & _)]; [apply (I4 t g n H1)|apply (Hnr n H2)].
  - apply Hu. exact I5.
Qed.

(** a protected node is alive *)
Lemma valid_alive st t g n : InvN st -> InvP st -> validated st t g n -> dead st n = false.
Proof.
  intros HN HP Hv. unfold dead. rewrite (n_free st HN). unfold gone.
  pose proof (p_nf st HP t g n Hv) as H1. destruct (p_life st HP t g n Hv) as (_ & _ & H2).
  destruct (g_where st n); try contradiction; destruct (g_life st n); try contradiction; reflexivity.
Qed.

(** a dereferenced node is alive: it is held by a guard at rest, or it was just read from a cell *)
Lemma uaf_guard st t g n :
  InvN st -> InvV nslots st -> InvP st -> ptr (gd (tl st t) g) = Some n -> ~ in_acq nslots (th st t) g -> dead st n = false.
Proof.
  intros HN HV HP Hp Hna. apply (valid_alive st t g n HN HP). split; [exact Hp|].
  destruct (gv (gd (tl st t) g)) eqn:E; [reflexivity|]. exfalso. apply Hna. apply (HV t g E).
Qed.

Lemma alive_notret st n : InvN st -> good (g_life st n) -> (forall u, g_life st n <> LRet u) -> dead st n = false.
Proof.
  intros HN (H1 & H2 & H3) Hr. unfold dead. rewrite (n_free st HN). unfold gone.
  assert (Hw : g_where st n = PNone) by (apply (n_none st HN); exact Hr). rewrite Hw.
  destruct (g_life st n); try reflexivity. contradiction.
Qed.

Lemma uaf_pub st c n : InvN st -> cells st c = Some n -> dead st n = false.
Proof.
  intros HN Hc. apply alive_notret; [exact HN| |]; rewrite (n_cell st HN c n Hc); [apply good_pub|intros u; discriminate].
Qed.

Lemma is_prot_In prot c r e : In e prot -> c <= e -> e <= r -> is_prot prot c r = true.
Proof.
  intros H H1 H2. unfold is_prot. apply existsb_exists. exists e. split; [exact H|].
  apply andb_true_iff. split; apply Nat.leb_le; assumption.
Qed.

(** the end of a scan: the nodes of the retire list and of the adopted list for which no gathered era lies between
    construction and retirement era are freed *)
Lemma InvP_reclaim st st' t s :
  InvG nslots st -> InvN st -> InvP st -> th st t = S7 s ->
  (forall u g, gd (tl st' u) g = gd (tl st u) g) -> (forall u, rcd (tl st' u) = rcd (tl st u)) ->
  (forall n, g_life st' n = g_life st n) -> (forall n, ce st' n = ce st n) -> (forall n, re st' n = re st n) ->
  (forall b i, hz st' b i = hz st b i) ->
  (forall n, g_where st' n = PFreed -> g_where st n = PFreed \/
     (In n (rl (tl st t) ++ s_ad s) /\ is_prot (s_prot s) (ce st n) (re st n) = false)) ->
  g_uaf st' = g_uaf st -> (forall b i e, covered (th st' t) b i e) ->
  (forall u, u <> t -> rl (tl st' u) = rl (tl st u) /\ th st' u = th st u) ->
  InvP st'.
Proof.
  intros HG HN [I1 I2 I3 I4 I5] Hth Hgd Hr Hl Hce Hre Hhz Hw Hu Hcv Ho.
  assert (Hval : forall u g n, validated st' u g n -> validated st u g n).
  { intros u g n [H1 H2]. rewrite Hgd in H1, H2. split; assumption. }
  constructor.
  - intros u g n H. rewrite Hl. apply (I1 u g n (Hval u g n H)).
  - intros u g n H. destruct (I2 u g n (Hval u g n H)) as (b & i & e & Hb & Hi & Hz & H1 & H2). exists b, i, e.
    rewrite Hr, Hgd, Hhz, Hce. repeat split; try assumption. intros v. rewrite Hl, Hre. apply H2.
  - intros u g n b i e s0 H Hb Hi Hz Hin. destruct (Nat.eq_dec s0 t) as [->|Hne]; [apply Hcv|].
    destruct (Ho s0 Hne) as [H1 H2]. rewrite H1, H2 in Hin. rewrite H2. rewrite Hr in Hb. rewrite Hgd in Hi. rewrite Hhz in Hz.
    apply (I3 u g n b i e s0 (Hval u g n H) Hb Hi Hz Hin).
  - intros u g n H Hc. pose proof (Hval u g n H) as Hv. destruct (Hw n Hc) as [Hc'|[Hin Hnp]]; [apply (I4 u g n Hv Hc')|].
    destruct (I2 u g n Hv) as (b & i & e & Hb & Hi & Hz & H1 & H2).
    assert (Hcov : covered (th st t) b i e).
    { apply (I3 u g n b i e t Hv Hb Hi Hz). rewrite Hth. cbn [ad_of]. exact Hin. }
    rewrite Hth in Hcov. cbn [covered] in Hcov.
    assert (Hret : exists v, g_life st n = LRet v) by (apply (listed_ret st t n HN); rewrite Hth; exact Hin).
    destruct Hret as [v Hv']. rewrite (is_prot_In _ _ _ e Hcov H1 (H2 v Hv')) in Hnp. discriminate.
  - rewrite Hu. exact I5.
Qed.


Ltac sim := unfold reset_guard, unshare, set_gd, g0; repeat (progress (prj; upds)).
Ltac simh H := unfold reset_guard, unshare, set_gd, g0 in H; repeat (progress (prjh H; upds_in H)).

Lemma InvP_ush st st1 t : ush t st st1 -> InvP st -> InvP st1.
Proof.
  intros Hu [I1 I2 I3 I4 I5]. pose proof (ush_same _ _ _ Hu) as HS.
  assert (Htl : forall u, rl (tl st1 u) = rl (tl st u)).
  { intros u. destruct (Nat.eq_dec u t) as [->|Hne]; [apply (sb_rl _ _ _ HS)|rewrite (sb_tl _ _ _ HS u Hne); reflexivity]. }
  assert (Hrc : forall u, rcd (tl st1 u) = rcd (tl st u)).
  { intros u. destruct (Nat.eq_dec u t) as [->|Hne]; [apply (sb_rcd _ _ _ HS)|rewrite (sb_tl _ _ _ HS u Hne); reflexivity]. }
  assert (Hv : forall u g n, validated st1 u g n -> validated st u g n /\ gd (tl st1 u) g = gd (tl st u) g).
  { intros u g n [H1 H2]. destruct (Nat.eq_dec u t) as [->|Hne].
    - destruct (sb_gd _ _ _ HS g) as [E|[E _]]; [|rewrite E in H1; discriminate H1]. rewrite E in *. split; [split; assumption|reflexivity].
    - rewrite (sb_tl _ _ _ HS u Hne) in *. split; [split; assumption|reflexivity]. }
  constructor.
  - intros u g n H. rewrite (sb_life _ _ _ HS). apply (I1 u g n (proj1 (Hv u g n H))).
  - intros u g n H. destruct (Hv u g n H) as [H1 H2]. destruct (I2 u g n H1) as (b & i & e & Hb & Hi & Hz & Hc & Hr).
    exists b, i, e. rewrite Hrc, H2, (sb_hz _ _ _ HS), (sb_ce _ _ _ HS), (sb_life _ _ _ HS), (sb_re _ _ _ HS). repeat split; assumption.
  - intros u g n b i e s H Hb Hi Hz Hin. destruct (Hv u g n H) as [H1 H2].
    rewrite Hrc in Hb. rewrite H2 in Hi. rewrite (sb_hz _ _ _ HS) in Hz. rewrite Htl, (sb_th _ _ _ HS) in Hin. rewrite (sb_th _ _ _ HS).
    apply (I3 u g n b i e s H1 Hb Hi Hz Hin).
  - intros u g n H. rewrite (sb_where _ _ _ HS). apply (I4 u g n (proj1 (Hv u g n H))).
  - rewrite (sb_uaf _ _ _ HS). exact I5.
Qed.

(** the program point of thread t changes to one outside a scan *)
Lemma InvP_pc st t p : InvP st -> ad_of p = [] -> (forall b i e, covered p b i e) -> ad_of (th st t) = [] -> InvP (set_pc t p st).
Proof.
  intros [I1 I2 I3 I4 I5] Ha Hc Ha'. constructor; prj; try assumption.
  intros u g n b i e s H Hb Hi Hz Hin. destruct (Nat.eq_dec s t) as [->|Hne]; upds; [apply Hc|].
  upds_in Hin. apply (I3 u g n b i e s H Hb Hi Hz Hin).
Qed.

Ltac clean_hyps :=
  repeat match goal with
  | E : _ = _ |- _ => progress (unfold set_gd, unshare, reset_guard, g0 in E; prjh E; upds_in E; prjh E)
  end.

Ltac eqs := repeat (unfold upd; match goal with |- context [Nat.eqb ?a ?b] => destruct (Nat.eqb_spec a b); subst end).

(** validated guards of the new state were validated before (same control block, same slot, same era) *)
Ltac vold t :=
  let t' := fresh "t'" in let g' := fresh "g'" in let n' := fresh "n'" in let Hv := fresh "Hv" in
  intros t' g' n' Hv; unfold validated in *; destruct (Nat.eq_dec t' t) as [->|?];
  [ simh Hv; sim;
    try (match type of Hv with context [upd _ ?g _ ?x] =>
           destruct (Nat.eq_dec x g) as [->|?]; [upds_in Hv; prjh Hv; upds; prj|upds_in Hv; upds] end);
    first [ (left; split; [exact Hv|split; [reflexivity|split; [reflexivity|intros; reflexivity]]]) | (destruct Hv; discriminate) | idtac ]
  | simh Hv; sim; left; split; [exact Hv|split; [reflexivity|split; [reflexivity|intros; reflexivity]]] ].

Ltac lifeg := let n := fresh "n" in let Hg := fresh "Hg" in
  intros n Hg; sim; first [exact Hg | (revert Hg; eqs; intros Hg; first [exact Hg | (repeat split; intros; discriminate)])].
Ltac lifeg2 st HN := let n := fresh "n" in let Hg := fresh "Hg" in
  intros n Hg; sim; revert Hg; eqs; intros Hg;
  first [ exact Hg | (repeat split; intros; discriminate)
        | (exfalso; destruct Hg as (Hg1 & Hg2 & Hg3); first [ (apply Hg1; apply (n_lt st HN); lia) | (eapply Hg2; eassumption) ]) ].
Ltac ceg := let n := fresh "n" in let Hg := fresh "Hg" in intros n Hg; sim; reflexivity.
Ltac reg := let n := fresh "n" in let u := fresh "u" in let Hn := fresh "Hn" in
  intros n u Hn; sim; revert Hn; sim; eqs; intros Hn; first [ (left; split; [exact Hn|reflexivity]) | discriminate ].
Ltac whereg := let n := fresh "n" in let Hn := fresh "Hn" in
  intros n Hn; sim;
  first [ exact Hn
        | (revert Hn; eqs; intros Hn; first [exact Hn | discriminate])
        | (match goal with |- context [mem ?x ?l] => destruct (mem x l); [discriminate|exact Hn] end) ].
Ltac cov t Hth :=
  let s := fresh "s" in let n := fresh "n" in let Hin := fresh "Hin" in
  intros s n Hin; destruct (Nat.eq_dec s t) as [->|?];
  [ simh Hin; sim; rewrite ?Hth in *; cbn [ad_of covered s_ad s_prot] in *;
    first [ (left; intros; exact I) | (right; split; [exact Hin|intros; tauto]) | idtac ]
  | simh Hin; sim; right; split; [exact Hin|intros; assumption] ].

(** a store to slot (b, i) of thread t's block, referenced by no guard or by guard [gx] only, does not touch the slot
    of any other guard *)
Lemma hz_keep st t b i gx v :
  InvO st -> GS nslots st t -> rcd (tl st t) = Some b ->
  (cnt st b i = 0 \/ (he (gd (tl st t) gx) = Some i /\ cnt st b i = 1)) ->
  forall u g' b' i', (u <> t \/ g' <> gx) -> rcd (tl st u) = Some b' -> he (gd (tl st u) g') = Some i' ->
  upd2 (hz st) b i v b' i' = hz st b' i'.
Proof.
  intros HO HS Hb Hc u g' b' i' Hne Hb' Hi'. destruct (Nat.eq_dec u t) as [->|Hnu].
  - rewrite Hb in Hb'. injection Hb' as <-. apply upd2_other_slot. intros ->.
    destruct Hc as [Hc|[Hg Hc]].
    + pose proof (on_cnt nslots st t b g' i HS Hb Hi'). lia.
    + destruct Hne as [Hne|Hne]; [congruence|]. apply Hne. apply (sole_inj nslots st t b gx g' i HS Hb Hg Hc Hi').
  - apply upd2_other_block. intros ->. apply Hnu. apply (own_inj st u t b HO Hb' Hb).
Qed.

(** guard [gx] of thread t is replaced by a guard that is not validated, the other guards and threads keep their
    guards, control blocks and slots: every validated guard was validated before *)
Lemma Hv_upd st st' t gx :
  (forall u, u <> t -> tl st' u = tl st u) -> rcd (tl st' t) = rcd (tl st t) ->
  (forall g', g' <> gx -> gd (tl st' t) g' = gd (tl st t) g') ->
  (ptr (gd (tl st' t) gx) = None \/ gv (gd (tl st' t) gx) = false) ->
  (forall u g' b' i', (u <> t \/ g' <> gx) -> rcd (tl st u) = Some b' -> he (gd (tl st u) g') = Some i' -> hz st' b' i' = hz st b' i') ->
  forall u g' n, validated st' u g' n ->
    (validated st u g' n /\ rcd (tl st' u) = rcd (tl st u) /\ he (gd (tl st' u) g') = he (gd (tl st u) g') /\
     (forall b i, rcd (tl st u) = Some b -> he (gd (tl st u) g') = Some i -> hz st' b i = hz st b i)) \/
    ((forall v, g_life st n <> LRet v) /\ good (g_life st n) /\ prot st' u g' n).
Proof.
  intros Ho Hr Hg Hx Hz u g' n [H1 H2]. left. destruct (Nat.eq_dec u t) as [->|Hnu].
  - destruct (Nat.eq_dec g' gx) as [->|Hng]; [destruct Hx; congruence|].
    rewrite (Hg g' Hng) in *. split; [split; assumption|]. split; [exact Hr|]. split; [reflexivity|].
    intros b i Hb Hi. apply (Hz t g' b i (or_intror Hng) Hb Hi).
  - rewrite (Ho u Hnu) in *. split; [split; assumption|]. split; [reflexivity|]. split; [reflexivity|].
    intros b i Hb Hi. apply (Hz u g' b i (or_introl Hnu) Hb Hi).
Qed.

(** the same when guard [gx] becomes validated for a node that is not retired *)
Lemma Hv_new st st' t gx p :
  (forall u, u <> t -> tl st' u = tl st u) -> rcd (tl st' t) = rcd (tl st t) ->
  (forall g', g' <> gx -> gd (tl st' t) g' = gd (tl st t) g') ->
  ptr (gd (tl st' t) gx) = Some p -> (forall v, g_life st p <> LRet v) -> good (g_life st p) -> prot st' t gx p ->
  (forall b i, hz st' b i = hz st b i) ->
  forall u g' n, validated st' u g' n ->
    (validated st u g' n /\ rcd (tl st' u) = rcd (tl st u) /\ he (gd (tl st' u) g') = he (gd (tl st u) g') /\
     (forall b i, rcd (tl st u) = Some b -> he (gd (tl st u) g') = Some i -> hz st' b i = hz st b i)) \/
    ((forall v, g_life st n <> LRet v) /\ good (g_life st n) /\ prot st' u g' n).
Proof.
  intros Ho Hr Hg Hp Hnr Hgood Hprot Hz u g' n [H1 H2]. destruct (Nat.eq_dec u t) as [->|Hnu].
  - destruct (Nat.eq_dec g' gx) as [->|Hng].
    + right. rewrite Hp in H1. injection H1 as <-. tauto.
    + left. rewrite (Hg g' Hng) in *. split; [split; assumption|]. split; [exact Hr|]. split; [reflexivity|]. intros; apply Hz.
  - left. rewrite (Ho u Hnu) in *. split; [split; assumption|]. split; [reflexivity|]. split; [reflexivity|]. intros; apply Hz.
Qed.

(** acquire completes: era_clock still has the value the guard's slot publishes *)
Lemma q2_done st t k prev p :
  InvG nslots st -> InvN st -> InvE st -> th st t = Q2 k prev p -> clock st = prev ->
  (forall u, g_life st p <> LRet u) /\ good (g_life st p) /\ dead st p = false /\
  exists b i, rcd (tl st t) = Some b /\ he (gd (tl st t) (guard_of nslots k)) = Some i /\ hz st b i = VEra prev /\ ce st p <= prev.
Proof.
  intros HG HN HE Hth Hc. pose proof (e_pc st HE t) as Hp. rewrite Hth in Hp. cbn [pcE] in Hp. destruct Hp as [Hg Hr].
  assert (Hnr : forall u, g_life st p <> LRet u).
  { intros u Hu. pose proof (Hr u Hu). pose proof (e_re st HE p u Hu). lia. }
  split; [exact Hnr|]. split; [exact Hg|]. split; [apply alive_notret; assumption|].
  pose proof (g_pc nslots st t (HG t)) as Hpc. rewrite Hth in Hpc. cbn [pcG] in Hpc. destruct Hpc as (_ & _ & Hz & H0).
  pose proof (g_clk nslots st t (g_s nslots st t (HG t))) as Hk.
  destruct (he (gd (tl st t) (guard_of nslots k))) as [i|] eqn:Ei; [|specialize (H0 eq_refl); lia].
  destruct (g_lt nslots st t (g_s nslots st t (HG t)) _ i Ei) as [_ Hrc].
  destruct (rcd (tl st t)) as [b|] eqn:Eb; [|contradiction]. exists b, i.
  split; [reflexivity|]. split; [reflexivity|]. split; [apply (Hz b i eq_refl eq_refl)|]. pose proof (e_ce st HE p). lia.
Qed.

(** the slot of the last guard on it goes back to the free list *)
Lemma InvP_reset st t b i g :
  InvO st -> InvN st -> InvG nslots st -> InvP st -> rcd (tl st t) = Some b -> he (gd (tl st t) g) = Some i -> cnt st b i = 1 ->
  InvP (reset_guard st t b i g).
Proof.
  intros HO HN HG HP Hb Hg Hc. apply (InvP_gen st); try assumption.
  - apply (Hv_upd st _ t g); unfold reset_guard; repeat (progress (prj; upds)).
    + intros u Hu. upds. reflexivity.
    + reflexivity.
    + intros g' Hg'. upds. reflexivity.
    + left. reflexivity.
    + intros u g' b' i' Hne Hb' Hi'. apply (hz_keep st t b i g _ HO (g_s nslots st t (HG t)) Hb (or_intror (conj Hg Hc)) u g' b' i' Hne Hb' Hi').
  - intros n H. exact H.
  - intros n _. reflexivity.
  - intros n u H. left. split; [exact H|reflexivity].
  - intros n H. exact H.
  - unfold reset_guard. prj. tauto.
  - intros s n Hin. right. unfold reset_guard in *. prj. split.
    + destruct (Nat.eq_dec s t) as [->|Hne]; upds_in Hin; prjh Hin; upds_in Hin; prjh Hin; exact Hin.
    + intros; assumption.
Qed.

(** the scan reads slot [i'] of block [r] *)
Lemma cov_S6 st t g b i e s r rest i' :
  rcd (tl st t) = Some b -> he (gd (tl st t) g) = Some i -> hz st b i = VEra e ->
  covered (S6 s r rest i') b i e ->
  In e (match hz st r i' with VEra x => s_prot s ++ [x] | VLink _ => s_prot s end) \/ (b = r /\ S i' <= i) \/ In b rest.
Proof.
  intros Hb Hi Hz Hc. cbn [covered] in Hc. destruct Hc as [Hc|[[-> Hle]|Hc]].
  - left. destruct (hz st r i'); [exact Hc|apply in_app_iff; left; exact Hc].
  - destruct (Nat.eq_dec i' i) as [->|Hne]; [|right; left; split; [reflexivity|lia]].
    left. rewrite Hz. apply in_app_iff. right. left. reflexivity.
  - right. right. exact Hc.
Qed.

(** the scanning thread moves inside the walk: what has to be shown for its own lists *)
Ltac covS t Hth :=
  let s0 := fresh "s0" in let n' := fresh "n'" in let Hin := fresh "Hin" in
  intros s0 n' Hin; destruct (Nat.eq_dec s0 t) as [->|?]; [|simh Hin; sim; right; split; [exact Hin|intros; assumption]];
  simh Hin; sim; rewrite Hth in *; cbn [ad_of s_ad] in *; right; split; [exact Hin|];
  let t0 := fresh "t0" in let g0 := fresh "g0" in let b0 := fresh "b0" in let i0 := fresh "i0" in let e0 := fresh "e0" in
  intros t0 g0 b0 i0 e0 Hv0 Hb0 Hi0 Hz0 Hcov.

Lemma InvP_step st a st' es :
  InvO st -> InvG nslots st -> InvN st -> InvV nslots st -> InvE st -> InvP st -> step nslots st a = Some (st', es) -> InvP st'.
Proof.
  intros HO HG HN HV HE HP Hs. destruct a as [t o|t]; cbn [step] in Hs.
  - destruct (th st t) eqn:Hth; try discriminate Hs. destruct (legal nslots o); [|discriminate Hs].
    injection Hs as <- <-. apply (InvP_gen st); [exact HN|exact HG|exact HP|vold t|lifeg|ceg|reg|whereg|sim; tauto|cov t Hth].
  - pose proof (HG t) as HGt. pose proof (g_pc nslots st t HGt) as Hpc. pose proof (n_pc st HN t) as Hpn.
    destruct (th st t) eqn:Hth; try discriminate Hs.
    all: leaves Hs.
    all: clean_hyps; try discriminate.
    all: cbn [pcG ctx_ok guard_of] in Hpc; destruct Hpn as [Hpn _]; cbn [pcn] in Hpn.
    all: try (apply (InvP_gen st); [exact HN|exact HG|exact HP|vold t|lifeg|ceg|reg|whereg|sim; tauto|cov t Hth]; fail).
    (* thread_end *)
    all: try (match goal with Hu : ush _ ?s0 ?st1 |- InvP (set_pc _ _ ?st1) =>
           assert (HP0 : InvP s0) by
             (first [ exact HP
                    | (apply (InvP_gen st); [exact HN|exact HG|exact HP|vold t|lifeg|ceg|reg|whereg|sim; tauto|cov t Hth]) ]);
           pose proof (InvP_ush _ _ _ Hu HP0) as HP1; pose proof (ush_same _ _ _ Hu) as HSb;
           apply InvP_pc; [exact HP1|reflexivity|intros; exact I|rewrite (sb_th _ _ _ HSb); unfold reset_guard; prj; rewrite Hth; reflexivity] end; fail).
    (* the end of a scan *)
    all: try (match goal with Hth : th _ _ = S7 ?s |- _ =>
      apply (InvP_reclaim st _ t s HG HN HP Hth);
        [ intros u g; sim; destruct (Nat.eq_dec u t) as [->|?]; upds; reflexivity
        | intros u; sim; destruct (Nat.eq_dec u t) as [->|?]; upds; reflexivity
        | intros; sim; reflexivity | intros; sim; reflexivity | intros; sim; reflexivity | intros; sim; reflexivity
        | let nq := fresh "nq" in intros nq; sim;
          match goal with |- context [mem nq ?k] => destruct (mem nq k); [discriminate|] end;
          match goal with |- context [mem nq ?f] => destruct (mem nq f) eqn:Ef; [|intros Hw; left; exact Hw] end;
          intros _; right; apply mem_In, filter_In in Ef; destruct Ef as [Ef1 Ef2]; apply negb_true_iff in Ef2; split; assumption
        | sim; reflexivity
        | intros; sim; cbn [covered]; exact I
        | intros u Hu; sim; upds; split; reflexivity ] end; fail).
    (* the walk of a scan *)
    all: try (match goal with Hth : th _ _ = S4 _ |- _ => idtac | Hth : th _ _ = S5 _ _ _ |- _ => idtac end;
      apply (InvP_gen st); [exact HN|exact HG|exact HP|vold t|lifeg|ceg|reg|whereg|sim; tauto|];
      covS t Hth;
      pose proof (O_rcd st HO t0 b0 Hb0) as (Ho1 & Ho2 & Ho3);
      pose proof (guard_active nslots st t0 b0 g0 i0 HO (HG t0) Hb0 Hi0) as Hact;
      cbn [covered s_prot In] in *;
      repeat match goal with E : blist _ = _ |- _ => rewrite E in Ho2; cbn [In] in Ho2 end;
      repeat match goal with E : (est _ _ =? 2) = false |- _ => apply Nat.eqb_neq in E end;
      first [ tauto | (intuition (subst; try lia; try congruence)) ]; fail).
    all: try (match goal with Hth : th _ _ = S6 ?s ?r ?rest ?i |- _ =>
      apply (InvP_gen st); [exact HN|exact HG|exact HP|vold t|lifeg|ceg|reg|whereg|sim; tauto|];
      covS t Hth;
      pose proof (cov_S6 st t0 g0 b0 i0 e0 s r rest i Hb0 Hi0 Hz0 Hcov) as H6;
      pose proof (g_lt nslots st t0 (g_s nslots st t0 (HG t0)) g0 i0 Hi0) as [Hlt _];
      match goal with E : hz _ r i = _ |- _ => rewrite E in H6 end;
      cbn [covered s_prot In] in *;
      repeat match goal with E : (_ <? 2) = false |- _ => apply Nat.ltb_ge in E end;
      first [ exact H6 | tauto | (intuition (subst; try lia; try congruence)) ] end; fail).
    (* only a guard of t (not validated afterwards) and possibly its slot change *)
    all: try (
      let gx := match goal with
                | |- context [reset_guard _ _ _ _ ?g] => g
                | |- context [unshare _ _ _ _ ?g] => g
                | |- context [set_gd _ ?g _ _] => g
                | Hth : th _ _ = E1 ?k _ _ |- _ => constr:(guard_of nslots k)
                | Hth : th _ _ = I1 ?k _ _ |- _ => constr:(guard_of nslots k)
                end in
      dg; apply (InvP_gen st); [exact HN|exact HG|exact HP
        | apply (Hv_upd st _ t gx);
          [ intros uu Hu; sim; reflexivity | sim; reflexivity | intros gg Hgg; sim; reflexivity
          | sim; first [ (left; reflexivity) | (right; reflexivity) | (left; tauto)
                       | (left; destruct (ptr (gd (tl st t) gx)) eqn:Ep; [|reflexivity]; exfalso;
                          apply (g_ptr nslots st t (g_s nslots st t HGt) _ _ Ep); first [assumption|tauto]) ]
          | intros uu gg bb ii Hne Hbb Hii; sim;
            first [ reflexivity
                  | (eapply (hz_keep st t); [exact HO|exact (g_s nslots st t HGt)|eassumption| |exact Hne|exact Hbb|exact Hii];
                     first [ (left; tauto) | (right; split; [eassumption|]; first [assumption | (apply Nat.eqb_eq; assumption) | (destruct Hpc as (_ & _ & Hso & _); eapply Hso; eassumption) | (destruct Hpc as (_ & Hso); eapply Hso; eassumption) | (destruct Hpc as (_ & _ & Hso); eapply Hso; eassumption) | (destruct Hpc as (_ & _ & _ & Hso & _); eapply Hso; eassumption)])
                           | (left; destruct (none_cnt nslots st t _ (g_s nslots st t HGt) ltac:(eassumption) ltac:(tauto)) as [Hc0 _]; apply Hc0; lia)
                           | (left; destruct Hpc as (_ & _ & _ & _ & _ & _ & Hc0 & _); apply Hc0; assumption) ]) ] ]
        | lifeg|ceg|reg|whereg|sim; tauto|cov t Hth]; fail).
    (* the same, simplified first *)
    all: try (
      let gx := match goal with
                | |- context [reset_guard _ _ _ _ ?g] => g
                | |- context [unshare _ _ _ _ ?g] => g
                | |- context [set_gd _ ?g _ _] => g
                | Hth : th _ _ = E1 ?k _ _ |- _ => constr:(guard_of nslots k)
                | Hth : th _ _ = I1 ?k _ _ |- _ => constr:(guard_of nslots k)
                end in
      sim; dg; apply (InvP_gen st); [exact HN|exact HG|exact HP
        | apply (Hv_upd st _ t gx);
          [ intros uu Hu; sim; reflexivity | sim; reflexivity | intros gg Hgg; sim; reflexivity
          | sim; first [ (left; reflexivity) | (right; reflexivity) | (left; tauto)
                       | (left; destruct (ptr (gd (tl st t) gx)) eqn:Ep; [|reflexivity]; exfalso;
                          apply (g_ptr nslots st t (g_s nslots st t HGt) _ _ Ep); first [assumption|tauto]) ]
          | intros uu gg bb ii Hne Hbb Hii; sim;
            first [ reflexivity
                  | (eapply (hz_keep st t); [exact HO|exact (g_s nslots st t HGt)|eassumption| |exact Hne|exact Hbb|exact Hii];
                     first [ (left; tauto) | (right; split; [eassumption|]; first [assumption | (apply Nat.eqb_eq; assumption) | (destruct Hpc as (_ & _ & Hso & _); eapply Hso; eassumption) | (destruct Hpc as (_ & Hso); eapply Hso; eassumption) | (destruct Hpc as (_ & _ & Hso); eapply Hso; eassumption) | (destruct Hpc as (_ & _ & _ & Hso & _); eapply Hso; eassumption)])
                           | (left; destruct (none_cnt nslots st t _ (g_s nslots st t HGt) ltac:(eassumption) ltac:(tauto)) as [Hc0 _]; apply Hc0; lia)
                           | (left; destruct Hpc as (_ & _ & _ & _ & _ & _ & Hc0 & _); apply Hc0; assumption) ]) ] ]
        | lifeg2 st HN|ceg|reg|whereg
        | intros Hu; sim; try unfold dead; sim; rewrite ?Hu; cbn [orb]; first [ reflexivity | exact Hu | tauto ]
        | cov t Hth]; fail).
    (* Q2: acquire completes, the temporary guard is released at once (its slot is shared) *)
    all: try (match goal with Hth : th _ _ = Q2 ?k ?prev ?p, Ec : (clock _ =? _) = true |- context [unshare] =>
      apply Nat.eqb_eq in Ec;
      destruct (q2_done st t k prev p HG HN HE Hth Ec) as (Hnr & Hgood & Halive & bq & iq & Hbq & Hiq & Hzq & Hceq);
      cbn [guard_of] in *; sim; dg;
      apply (InvP_gen st); [exact HN|exact HG|exact HP
        | apply (Hv_upd st _ t nslots);
          [ intros uu Hu; sim; reflexivity | sim; reflexivity | intros gg Hgg; sim; reflexivity | sim; left; reflexivity
          | intros; sim; reflexivity ]
        | lifeg2 st HN|ceg|reg|whereg
        | intros Hu; sim; try unfold dead; sim; rewrite ?Hu; cbn [orb]; first [ reflexivity | exact Hu | exact Halive ]
        | cov t Hth] end; fail).
    (* Q2: acquire completes *)
    all: try (match goal with Hth : th _ _ = Q2 ?k ?prev ?p, Ec : (clock _ =? _) = true |- _ =>
      apply Nat.eqb_eq in Ec;
      destruct (q2_done st t k prev p HG HN HE Hth Ec) as (Hnr & Hgood & Halive & bq & iq & Hbq & Hiq & Hzq & Hceq);
      let gx := eval cbn [guard_of] in (guard_of nslots k) in
      cbn [guard_of] in *; sim; dg;
      apply (InvP_gen st); [exact HN|exact HG|exact HP
        | apply (Hv_new st _ t gx p);
            [ intros uu Hu; sim; reflexivity | sim; reflexivity | intros gg Hgg; sim; reflexivity | sim; reflexivity
            | exact Hnr | exact Hgood
            | exists bq, iq, prev; sim; repeat split; try assumption; intros v; eqs; intros Hv; first [discriminate | (exfalso; apply (Hnr v Hv))]
            | intros; sim; reflexivity ]
        | lifeg2 st HN|ceg|reg|whereg
        | intros Hu; sim; try unfold dead; sim; rewrite ?Hu; cbn [orb]; first [ reflexivity | exact Hu | exact Halive ]
        | cov t Hth] end; fail).
    (* X0: the guard's slot is released, then the following guards that share their slots *)
    all: try (match goal with Hu : ush _ (reset_guard _ _ ?b ?i ?g) ?st1 |- InvP (set_pc _ _ ?st1) =>
           assert (HP0 : InvP (reset_guard st t b i g)) by
             (apply InvP_reset; try assumption; destruct Hpc as (_ & _ & Hso & _); apply Hso; assumption);
           pose proof (InvP_ush _ _ _ Hu HP0) as HP1; pose proof (ush_same _ _ _ Hu) as HSb;
           apply InvP_pc; [exact HP1|reflexivity|intros; exact I|rewrite (sb_th _ _ _ HSb); unfold reset_guard; prj; rewrite Hth; reflexivity] end; fail).
    (* thread t has no guard with a hazard era: its control block changes *)
    all: try (match goal with Hn : forall g, he (gd (tl _ _) g) = None |- _ => idtac
                         | Hpc : _ /\ _ /\ (forall g, he (gd (tl _ _) g) = None) |- _ => destruct Hpc as (? & ? & Hn)
                         | Hpc : _ /\ _ /\ (forall g, he (gd (tl _ _) g) = None) /\ _ |- _ => destruct Hpc as (? & ? & Hn & ?) end;
      apply (InvP_gen st); [exact HN|exact HG|exact HP
        | intros uu gg nn Hvv; unfold validated in *; destruct (Nat.eq_dec uu t) as [->|?];
          [ exfalso; simh Hvv; destruct Hvv as [Hp _]; apply (g_ptr nslots st t (g_s nslots st t HGt) gg nn Hp);
            match goal with Hn : forall g, he _ = None |- _ => apply Hn end
          | simh Hvv; sim; left; split; [exact Hvv|split; [reflexivity|split; [reflexivity|]]];
            intros bb ii Hbb Hii; sim; first [ reflexivity
              | (apply upd2_other_block; intros ->; match goal with Hr : rcd (tl _ _) = Some _ |- _ => apply (own_inj st _ _ _ HO Hbb) in Hr; congruence end) ] ]
        | lifeg|ceg|reg|whereg|sim; tauto|cov t Hth]; fail).
    (* I2: the cache of a block without guards is empty *)
    all: try (match goal with Hth : th _ _ = I2 _ _, El : lhe _ _ = Some _ |- _ =>
           exfalso; destruct Hpc as (_ & _ & Hn);
           match goal with Hb : rcd (tl _ _) = Some ?b |- _ => destruct (none_cnt nslots st t b (g_s nslots st t HGt) Hb Hn) as [_ Hl]; congruence end end; fail).
    (* the nodes' life cycle, dereferences *)
    all: try (match goal with Ec : oeqb (cells _ _) _ = true |- _ => apply oeqb_eq in Ec end).
    all: try (sim; dg; (apply (InvP_gen st); [exact HN|exact HG|exact HP|vold t|lifeg2 st HN
        | intros nn Hg; sim; eqs; first [ reflexivity | (exfalso; destruct Hg as (_ & Hg2 & _); eapply Hg2; eassumption) ]
        | intros nn uu Hn; sim; revert Hn; sim; eqs; intros Hn;
          first [ (left; split; [exact Hn|reflexivity]) | discriminate
                | (right; split; [intros vv; rewrite Hpn; discriminate|lia]) ]
        | whereg
        | intros Hu; sim; try unfold dead; sim; rewrite ?Hu; cbn [orb];
          first [ reflexivity | exact Hu
                | (eapply (uaf_guard st t); [exact HN|exact HV|exact HP|eassumption|rewrite Hth; unfold in_acq; cbn [acq_of]; tauto])
                | (eapply (uaf_pub st); [exact HN|etransitivity; eassumption]) ]
        | cov t Hth]); fail).
Qed.
End P.

(** * The invariant holds in every reachable state *)
Section Main.
Variables (ncells nslots : nat).

Record Inv (st : state) : Prop := mkInv {
  inv_O : InvO st; inv_G : InvG nslots st; inv_F : InvF st; inv_N : InvN st; inv_V : InvV nslots st; inv_E : InvE st;
  inv_P : InvP st }.

Theorem he_inv st : reach (init ncells) (step nslots) st -> Inv st.
Proof.
  apply inv_rule.
  - constructor; [apply InvO_init|apply InvG_init|apply InvF_init|apply InvN_init|apply InvV_init|apply InvE_init|].
    constructor; unfold validated; cbn; intros; try reflexivity; destruct H; discriminate.
  - intros s a s' es [HO HG HF HN HV HE HP] Hs. constructor.
    + apply (InvO_step nslots s a s' es HO Hs).
    + apply (InvG_step nslots s a s' es HO HG HF Hs).
    + apply (InvF_step nslots s a s' es HO HG HF Hs).
    + apply (InvN_step nslots s a s' es HN Hs).
    + apply (InvV_step nslots s a s' es HG HV Hs).
    + apply (InvE_step nslots s a s' es HG HN HE Hs).
    + apply (InvP_step nslots s a s' es HO HG HN HV HE HP Hs).
Qed.

(** * C01: no object is destroyed while a guard_ptr protects it.
    For every reachable state (any number of threads, any programs of the client operations, any schedule):
    a node n held by a guard whose acquire has completed (the guard's this->ptr, until the guard is reset or
    re-acquired) has not been freed; the guard refers to a slot of the thread's control block, the block is linked
    and active (every scan visits it), and the slot publishes an era e with construction_era(n) <= e, and
    e <= retirement_era(n) as soon as n is retired - so reclaim_nodes of any scan that gathers e keeps n
    (he_scan_keeps: every scan that has n among its candidates does gather e);
    no dereference ever hit a destroyed node ([g_uaf] records every dereference the client makes: read, hold, deref
    and the [g->id] of repl/clear). *)
Theorem he_safe st :
  reach (init ncells) (step nslots) st ->
  (forall t g n, validated st t g n ->
     g_nfree st n = 0 /\ g_where st n <> PFreed /\
     exists b i e, rcd (tl st t) = Some b /\ he (gd (tl st t) g) = Some i /\ In b (blist st) /\ est st b = 2 /\
                   hz st b i = VEra e /\ ce st n <= e /\ e <= clock st /\ (forall u, g_life st n = LRet u -> e <= re st n))
  /\ g_uaf st = false.
Proof.
  intros Hr. destruct (he_inv st Hr) as [HO HG HF HN HV HE HP]. split; [|apply (p_uaf st HP)].
  intros t g n Hv. split.
  - pose proof (valid_alive st t g n HN HP Hv) as Hd. unfold dead in Hd. apply negb_false_iff, Nat.eqb_eq in Hd. exact Hd.
  - split; [apply (p_nf st HP t g n Hv)|]. destruct (p_prot st HP t g n Hv) as (b & i & e & Hb & Hi & Hz & H1 & H2).
    exists b, i, e. destruct (O_rcd st HO t b Hb) as (_ & Hin & _).
    repeat split; try assumption.
    + apply (guard_active nslots st t b g i HO (HG t) Hb Hi).
    + apply (g_le nslots st t (g_s nslots st t (HG t)) b i e Hb Hz).
Qed.

(** the end of every scan keeps the nodes that a completed guard holds *)
Theorem he_scan_keeps st :
  reach (init ncells) (step nslots) st ->
  forall s sc t g n, th st s = S7 sc -> In n (rl (tl st s) ++ s_ad sc) -> validated st t g n ->
  is_prot (s_prot sc) (ce st n) (re st n) = true.
Proof.
  intros Hr s sc t g n Hth Hin Hv. destruct (he_inv st Hr) as [HO HG HF HN HV HE HP].
  destruct (p_prot st HP t g n Hv) as (b & i & e & Hb & Hi & Hz & H1 & H2).
  assert (Hc : covered (th st s) b i e) by (apply (p_cover st HP t g n b i e s Hv Hb Hi Hz); rewrite Hth; exact Hin).
  rewrite Hth in Hc. cbn [covered] in Hc.
  destruct (listed_ret st s n HN) as [u Hu]; [rewrite Hth; exact Hin|].
  apply (is_prot_In _ _ _ e Hc H1 (H2 u Hu)).
Qed.

(** * C02: a retired node is in exactly one place, and it is freed at most once and only after it was retired *)
Definition retired (st : state) (n : nat) : Prop := exists u, g_life st n = LRet u.

(** node [n] is at place [p] *)
Definition at_place (st : state) (n : nat) (p : place) : Prop :=
  match p with
  | PList t => In n (rl (tl st t))               (* the retire list of thread t *)
  | PAband => In n (aband st)                    (* abandoned_retired_nodes *)
  | PFlight t => In n (ad_of (th st t))          (* adopted by the scan thread t is running *)
  | PFreed => g_nfree st n = 1                   (* destroyed *)
  | PNone => False
  end.

Theorem he_exactly_once st :
  reach (init ncells) (step nslots) st ->
  forall n,
    g_nfree st n <= 1 /\
    (g_nfree st n = 1 -> retired st n \/ g_life st n = LDropped) /\
    (g_life st n = LDropped -> ~ retired st n /\ forall p, ~ at_place st n p \/ p = PFreed) /\
    (retired st n -> at_place st n (g_where st n) /\ forall p, at_place st n p -> p = g_where st n) /\
    (forall t, NoDup (rl (tl st t))) /\ NoDup (aband st) /\ (forall t, NoDup (ad_of (th st t))).
Proof.
  intros Hr n. destruct (he_inv st Hr) as [HO HG HF HN HV HE HP].
  pose proof (n_free st HN n) as Hf. unfold gone in Hf.
  assert (Hnone : ~ retired st n -> g_where st n = PNone).
  { intros H. apply (n_none st HN). intros u Hu. apply H. exists u. exact Hu. }
  assert (Hat : forall p, p <> PFreed -> at_place st n p -> g_where st n = p).
  { intros [|t| |t|] Hp H; cbn [at_place] in H; try contradiction.
    - apply (n_list st HN). exact H.
    - apply (n_aband st HN). exact H.
    - apply (n_flight st HN). exact H. }
  split; [destruct (g_where st n), (g_life st n); lia|].
  split.
  { intros H1. destruct (g_life st n) eqn:El; try (right; reflexivity); try (left; exists t; exact El);
      exfalso; (assert (Hw : g_where st n = PNone) by (apply Hnone; intros [u Hu]; rewrite El in Hu; discriminate Hu)); rewrite Hw in Hf; lia. }
  split.
  { intros Hd. split; [intros [u Hu]; congruence|]. intros p. destruct p; try (right; reflexivity); left; intros H;
      (assert (Hw : g_where st n = PNone) by (apply Hnone; intros [u Hu]; congruence));
      try (apply Hat in H; [congruence|discriminate]). exact H. }
  split.
  { intros [u Hu]. assert (Hw : g_where st n <> PNone) by (intros Hc; apply (proj1 (n_none st HN n) Hc u); exact Hu).
    split.
    - destruct (g_where st n) eqn:Ew; cbn [at_place]; try congruence.
      + apply (n_list st HN). exact Ew.
      + apply (n_aband st HN). exact Ew.
      + apply (n_flight st HN). exact Ew.
    - intros p H. destruct p; cbn [at_place] in H; try contradiction;
        try (symmetry; apply Hat; [discriminate|exact H]).
      rewrite Hu in Hf. destruct (g_where st n); try reflexivity; lia. }
  split; [apply (n_list_nd st HN)|]. split; [apply (n_aband_nd st HN)|apply (n_flight_nd st HN)].
Qed.

(** the eras of the nodes: construction eras never exceed era_clock, a retired node was retired at an era below
    era_clock and not before its construction *)
Theorem he_eras st :
  reach (init ncells) (step nslots) st ->
  1 <= clock st /\ forall n, ce st n <= clock st /\ forall u, g_life st n = LRet u -> re st n < clock st.
Proof.
  intros Hr. destruct (he_inv st Hr) as [HO HG HF HN HV HE HP]. split; [apply (g_clk nslots st 0 (g_s nslots st 0 (HG 0)))|].
  intros n. split; [apply (e_ce st HE)|apply (e_re st HE)].
Qed.

(** * Slot accounting (the invariant of the sequential model Model/HeSlotsDefs.v / Proof/HeSlots.v, restated on the
    step-level model): a guard at rest has a hazard era iff its pointer is non-null; guard_cnt of a slot is the number
    of guards that refer to it; a slot on the free list is a link and is not referenced; a referenced slot publishes
    an era <= era_clock; last_hazard_era points to a referenced slot whose era is not older than last_era; a control
    block that no thread uses has no references and an empty cache. *)
Lemma chain_In f l i : chain f l -> In i l -> exists nx, f i = VLink nx.
Proof.
  induction l as [|a l IH]; intros Hc Hin; [destruct Hin|]. destruct Hc as [H1 H2].
  destruct Hin as [<-|Hin]; [eexists; exact H1|apply IH; assumption].
Qed.

Theorem he_slots st :
  reach (init ncells) (step nslots) st ->
  (forall t g, ~ in_acq nslots (th st t) g -> (he (gd (tl st t) g) = None <-> ptr (gd (tl st t) g) = None)) /\
  (forall t g i, he (gd (tl st t) g) = Some i -> i < 3 /\ g <= nslots /\ exists b, rcd (tl st t) = Some b /\ est st b = 2) /\
  (forall t b, rcd (tl st t) = Some b ->
     (forall i, i < 3 -> cnt st b i = ng nslots (tl st t) i) /\
     (forall i, In i (fl (tl st t)) -> i < 3 /\ cnt st b i = 0 /\ exists nx, hz st b i = VLink nx) /\
     (forall i, i < 3 -> 1 <= cnt st b i -> exists e, hz st b i = VEra e /\ e <= clock st) /\
     (forall l, lhe st b = Some l -> l < 3 /\ 1 <= cnt st b l /\ lera st b <= era_of (hz st b l))) /\
  (forall b, (forall u, rcd (tl st u) <> Some b) -> (forall i, i < 3 -> cnt st b i = 0) /\ lhe st b = None).
Proof.
  intros Hr. destruct (he_inv st Hr) as [HO HG HF HN HV HE HP]. split; [|split; [|split]].
  - intros t g Hna. pose proof (HG t) as HGt. split.
    + intros Hh. destruct (ptr (gd (tl st t) g)) eqn:Ep; [|reflexivity]. exfalso. apply (g_ptr nslots st t (g_s nslots st t HGt) g n Ep Hh).
    + intros Hp. destruct (he (gd (tl st t) g)) eqn:Eh; [|reflexivity]. exfalso.
      apply (g_rest nslots st t HGt g Hna); [rewrite Eh; discriminate|exact Hp].
  - intros t g i Hi. pose proof (g_s nslots st t (HG t)) as HS. destruct (g_lt nslots st t HS g i Hi) as [H1 H2].
    split; [exact H1|]. split; [apply (he_le nslots st t g i HS Hi)|]. destruct (rcd (tl st t)) as [b|] eqn:Eb; [|contradiction].
    exists b. split; [reflexivity|]. apply (guard_active nslots st t b g i HO (HG t) Eb Hi).
  - intros t b Hb. pose proof (g_s nslots st t (HG t)) as HS. split; [|split; [|split]].
    + intros i Hi. apply (g_cnt nslots st t HS b i Hb Hi).
    + intros i Hi. split; [apply (proj2 (g_fl nslots st t HS) i Hi)|]. split; [apply (g_flc nslots st t HS b i Hb Hi)|].
      apply (chain_In (hz st b) (fl (tl st t)) i (g_chain nslots st t HS b Hb) Hi).
    + intros i Hi Hc. destruct (g_era nslots st t HS b i Hb Hi Hc) as [e Hz]. exists e. split; [exact Hz|apply (g_le nslots st t HS b i e Hb Hz)].
    + intros l Hl. apply (g_last nslots st t HS b l Hb Hl).
  - intros b Hb. destruct (HF b Hb) as (H1 & H2 & _). split; assumption.
Qed.
End Main.

(** * Examples (cells = 2, slots = 3; heap blocks: 0, 1 the initial nodes (construction era 1), 2 the control block of
      thread 1, ...) *)
Definition ops (t : nat) (o : op) (k : nat) : list action := Start t o :: repeat (Step t) k.
Definition final (acts : list action) : state := fst (fst (run (step 3) (init 2) acts)).

Lemma final_reach acts : reach (init 2) (step 3) (final acts).
Proof. apply run_reach. Qed.

(** two guards of one thread acquire at the same era: they share slot 0 of control block 2 (guard_cnt = 2, the second
    acquire hits the last_hazard_era cache) *)
Definition ex_a1 := ops 1 (OHold 0 0) 40 ++ ops 1 (OHold 0 1) 40.
Example ex_shared_slot :
  let st := final ex_a1 in
  th st 1 = Idle /\ validated st 1 0 0 /\ validated st 1 1 0 /\ he (gd (tl st 1) 0) = Some 0 /\ he (gd (tl st 1) 1) = Some 0 /\
  hz st 2 0 = VEra 1 /\ cnt st 2 0 = 2 /\ lhe st 2 = Some 0 /\ lera st 2 = 1 /\ fl (tl st 1) = [1; 2] /\ clock st = 1.
Proof. vm_compute. repeat split; reflexivity. Qed.

(** thread 2 replaces the node of cell 1: node 1 is retired at era 1 (era_clock becomes 2); era 1, published for the
    guards on node 0, also lies in [construction_era, retirement_era] = [1, 1] of node 1: the scan keeps node 1 *)
Definition ex_a2 := ex_a1 ++ ops 2 (ORepl 1) 60.
Example ex_era_keeps_more :
  let st := final ex_a2 in
  th st 2 = Idle /\ clock st = 2 /\ ce st 1 = 1 /\ re st 1 = 1 /\ rl (tl st 2) = [1] /\ g_where st 1 = PList 2 /\ g_nfree st 1 = 0 /\
  cells st 1 = Some 4 /\ ce st 4 = 1.
Proof. vm_compute. repeat split; reflexivity. Qed.

(** guard 0 is re-targeted to cell 1 after the era advanced; its slot is shared with guard 1: it drops its reference
    (no atomic access) and takes slot 1 for era 2 *)
Definition ex_a3 := ex_a2 ++ ops 1 (OHold 1 0) 40.
Example ex_retarget_shared :
  let st := final ex_a3 in
  th st 1 = Idle /\ validated st 1 0 4 /\ validated st 1 1 0 /\ he (gd (tl st 1) 0) = Some 1 /\ he (gd (tl st 1) 1) = Some 0 /\
  hz st 2 0 = VEra 1 /\ hz st 2 1 = VEra 2 /\ cnt st 2 0 = 1 /\ cnt st 2 1 = 1 /\ lhe st 2 = Some 1 /\ lera st 2 = 2.
Proof. vm_compute. repeat split; reflexivity. Qed.

(** guard 1 is re-targeted after the era advanced and is the only guard on slot 0: set_era on the same slot *)
Definition ex_a4 := ex_a3 ++ ops 1 (OHold 1 1) 40.
Example ex_retarget_own_slot :
  let st := final ex_a4 in
  th st 1 = Idle /\ validated st 1 0 4 /\ validated st 1 1 4 /\ he (gd (tl st 1) 1) = Some 0 /\
  hz st 2 0 = VEra 2 /\ hz st 2 1 = VEra 2 /\ cnt st 2 0 = 1 /\ cnt st 2 1 = 1 /\ fl (tl st 1) = [2].
Proof. vm_compute. repeat split; reflexivity. Qed.

(** he_safe and he_slots apply to this state *)
Example ex_safe_instance :
  g_nfree (final ex_a4) 4 = 0 /\ cnt (final ex_a4) 2 1 = ng 3 (tl (final ex_a4) 1) 1.
Proof.
  destruct (he_safe 2 3 (final ex_a4) (final_reach ex_a4)) as [H _].
  assert (Hv : validated (final ex_a4) 1 0 4) by (vm_compute; split; reflexivity).
  destruct (H 1 0 4 Hv) as (H1 & _). split; [exact H1|].
  destruct (he_slots 2 3 (final ex_a4) (final_reach ex_a4)) as (_ & _ & Hs & _).
  destruct (Hs 1 2 eq_refl) as (Hc & _). apply Hc. lia.
Qed.

(** an acquire races with a retirement: thread 1 has loaded node 0 from cell 0 (it is about to read era_clock) when
    thread 2 replaces the node, retires node 0 at era 1 and its scan - no era is published - frees it ... *)
Definition ex_c1 := Start 1 (OHold 0 0) :: repeat (Step 1) 2 ++ ops 2 (ORepl 0) 60.
Example ex_race_freed :
  let st := final ex_c1 in
  th st 1 = Q2 (KHold 0 0) 0 0 /\ th st 2 = Idle /\ clock st = 2 /\ g_where st 0 = PFreed /\ g_nfree st 0 = 1 /\ cells st 0 = Some 3.
Proof. vm_compute. repeat split; reflexivity. Qed.

(** ... thread 1 reads era 2 <> 0 = prev_era: it publishes era 2 and loads the cell again: the guard ends up with the
    new node 3, the freed node is never dereferenced *)
Definition ex_c2 := ex_c1 ++ repeat (Step 1) 40.
Example ex_race_retry :
  let st := final ex_c2 in
  th st 1 = Idle /\ validated st 1 0 3 /\ ptr (gd (tl st 1) 0) = Some 3 /\ g_nfree st 3 = 0 /\ g_uaf st = false.
Proof. vm_compute. repeat split; reflexivity. Qed.

(** a scan races with a guard: thread 1 holds node 0 (era 1 in slot 0 of block 2); thread 2 replaces the node, retires
    node 0 (retirement era 1) and is inside its scan, about to read the state of control block 2 *)
Definition ex_d1 := ops 1 (OHold 0 0) 40 ++ Start 2 (ORepl 0) :: repeat (Step 2) 27.
Example ex_scan_running :
  let st := final ex_d1 in
  validated st 1 0 0 /\ rl (tl st 2) = [0] /\ cells st 0 = Some 4 /\ re st 0 = 1 /\ clock st = 2 /\
  th st 2 = S5 (mkScan SRepl 6 (Some 5) [] []) 3 [2].
Proof. vm_compute. repeat split; reflexivity. Qed.

(** the scan gathers era 1: node 0 survives in the retire list of thread 2; thread 1 dereferences it *)
Definition ex_d2 := ex_d1 ++ ops 1 (ODeref 0) 1 ++ repeat (Step 2) 40.
Example ex_node_survives :
  let st := final ex_d2 in
  validated st 1 0 0 /\ th st 1 = Idle /\ th st 2 = Idle /\
  g_nfree st 0 = 0 /\ g_where st 0 = PList 2 /\ rl (tl st 2) = [0] /\ g_uaf st = false.
Proof. vm_compute. repeat split; reflexivity. Qed.

(** after the drop the next scan of thread 2 frees node 0 (and node 4, which it retires now): each exactly once *)
Definition ex_d3 := ex_d2 ++ ops 1 (ODrop 0) 40 ++ ops 2 (ORepl 0) 60.
Example ex_freed_after_drop :
  let st := final ex_d3 in
  th st 1 = Idle /\ th st 2 = Idle /\ ptr (gd (tl st 1) 0) = None /\ he (gd (tl st 1) 0) = None /\
  g_nfree st 0 = 1 /\ g_where st 0 = PFreed /\ g_nfree st 4 = 1 /\ rl (tl st 2) = [] /\ g_uaf st = false.
Proof. vm_compute. repeat split; reflexivity. Qed.

(** thread exit: thread 2 exits while node 0 (in its retire list) is still protected by thread 1: the node is handed
    over to abandoned_retired_nodes and the control block 3 is released *)
Definition ex_b1 := ops 1 (OHold 0 0) 40 ++ ops 2 (ORepl 0) 60 ++ ops 2 OExit 60.
Example ex_abandoned :
  let st := final ex_b1 in
  th st 2 = Done /\ g_where st 0 = PAband /\ aband st = [0] /\ rl (tl st 2) = [] /\ est st 3 = 0 /\ g_nfree st 0 = 0 /\ nact st = 3.
Proof. vm_compute. repeat split; reflexivity. Qed.

(** thread 3 adopts control block 3, retires node 1 and is about to adopt the abandoned node 0 in its scan ... *)
Definition ex_b2 := ex_b1 ++ Start 3 (ORepl 1) :: repeat (Step 3) 25.
Example ex_adopted :
  let st := final ex_b2 in
  rcd (tl st 3) = Some 3 /\ g_where st 0 = PFlight 3 /\ aband st = [] /\ ad_of (th st 3) = [0] /\ rl (tl st 3) = [1].
Proof. vm_compute. repeat split; reflexivity. Qed.

(** ... node 0 is still protected by thread 1 (and era 1 also covers node 1): both stay in the retire list of thread 3 *)
Definition ex_b3 := ex_b2 ++ repeat (Step 3) 40.
Example ex_adopted_kept :
  let st := final ex_b3 in
  th st 3 = Idle /\ g_where st 0 = PList 3 /\ rl (tl st 3) = [0; 1] /\ g_nfree st 0 = 0 /\ g_nfree st 1 = 0.
Proof. vm_compute. repeat split; reflexivity. Qed.

(** after the drop the next scan of thread 3 destroys node 0: exactly once, by another thread than the retiring one *)
Definition ex_b4 := ex_b3 ++ ops 1 (ODrop 0) 40 ++ ops 3 (ORepl 1) 60.
Example ex_handed_over_freed :
  let st := final ex_b4 in
  th st 3 = Idle /\ g_where st 0 = PFreed /\ g_nfree st 0 = 1 /\ g_life st 0 = LRet 2 /\ g_nfree st 1 = 1 /\ rl (tl st 3) = [] /\ g_uaf st = false.
Proof. vm_compute. repeat split; reflexivity. Qed.
