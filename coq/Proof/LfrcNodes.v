(** Node-level invariants of the lock-free reference counting model (Model/LfrcDefs.v): one step preserves
    [I_alloc] (allocated = has a life cycle state), [I_new] / [I_ne] (which states have references), [I_j1] / [I_j2]
    (a cell or a validated client guard refers to a published node only), [I_q1] (a validated guard of free_list::pop
    keeps its node away from the claimed state), [I_alive] (object alive / destroyed flag per state), [I_cnt]
    (constructor / destructor / push / pop counters) and [I_uaf] (no dereference of a destroyed object).  No axioms. *)
From Coq Require Import NArith List Bool Arith Lia PeanoNat.
From XV Require Import Conc.Lts Conc.Ev Model.LfrcDefs Proof.LfrcBase Proof.LfrcRefs.
Import ListNotations.

Lemma one_ref (L : list ref) a b : NoDup L -> length L = 1 -> In a L -> In b L -> a = b.
Proof.
  destruct L as [|x [|y L]]; cbn; intros ND HL Ha Hb; try discriminate.
  destruct Ha as [<-|[]], Hb as [<-|[]]. reflexivity.
Qed.

(** the decrement that moves the count to zero releases the only reference *)
Lemma claim_facts ns s n r0 : Inv ns s -> rc s n = 2 -> holds s r0 n ->
  g_refs s n = [r0] /\ cbit (g_ns s n) = 0 /\ forall r, holds s r n -> r = r0.
Proof.
  intros HI Hrc Hh. destruct (I_refs _ _ HI n) as (ND & IN & RC).
  apply IN in Hh. pose proof (cbit_01 (g_ns s n)) as Hc.
  assert (HL : length (g_refs s n) = 1).
  { destruct (g_refs s n) as [|x [|y L]]; cbn [length] in *; [destruct Hh|reflexivity|lia]. }
  split; [|split; [lia|]].
  - destruct (g_refs s n) as [|x [|y L]]; cbn [length] in HL; try discriminate. destruct Hh as [->|[]]. reflexivity.
  - intros r Hr. apply IN in Hr. eapply one_ref; eauto.
Qed.
Lemma noclaim_facts ns s n r0 : Inv ns s -> rc s n <> 2 -> holds s r0 n ->
  cbit (g_ns s n) = 1 \/ 2 <= length (g_refs s n).
Proof.
  intros HI Hrc Hh. destruct (I_refs _ _ HI n) as (ND & IN & RC).
  apply IN in Hh. pose proof (cbit_01 (g_ns s n)) as Hc.
  destruct (g_refs s n) as [|x [|y L]]; cbn [length] in *; [destruct Hh| |right; lia]. left. lia.
Qed.
Lemma held_not_new ns s n r0 : Inv ns s -> holds s r0 n -> ~ is_new (g_ns s n).
Proof.
  intros HI Hh Hn. apply (I_new _ _ HI) in Hn. apply (I_refs _ _ HI n) in Hh. rewrite Hn in Hh. destruct Hh.
Qed.

Ltac prep :=
  repeat match goal with H : _ /\ _ |- _ => destruct H end; subst; prj_hyps; rewrite ?upd_same in *; prj_hyps;
  cbn [guard_of src] in *; try discriminate.

Ltac node_facts HI :=
  try match goal with Hx : fhead _ = Some _ |- _ => pose proof (fhead_free _ _ _ HI Hx) end;
  try match goal with E : th ?s ?t = D2 ?w ?n _ _ |- _ =>
        let X := fresh "Hcl" in
        assert (X : holds s (who_ref t w) n) by (cbn [who_ref holds]; rewrite ?E; on; first [assumption | reflexivity | intuition congruence]);
        pose proof (held_not_new _ _ _ _ HI X);
        try match goal with E1 : rc s n = 2 |- _ => pose proof (claim_facts _ _ _ _ HI E1 X) end;
        try match goal with E1 : rc s n <> 2 |- _ => pose proof (noclaim_facts _ _ _ _ HI E1 X) end
      end.

Ltac new_contra := 
  match goal with Hn : ~ is_new (g_ns ?s ?n), Hx : g_ns ?s ?n = NNone |- _ => exfalso; apply Hn; rewrite Hx; exact I end.

Lemma P_alloc_step ns s t s' es : Inv ns s -> step ns s (Step t) = Some (s', es) ->
  forall n, nalloc s' <= n <-> g_ns s' n = NNone.
Proof.
  intros HI H. leaves HI H t.
  all: assert (Hna : g_ns s (nalloc s) = NNone) by (apply (I_alloc _ _ HI); lia).
  all: prep; node_facts HI.
  all: intros m; destruct (I_alloc _ _ HI m) as [IA1 IA2]; prj.
  all: try solve [split; assumption].
  all: upd_split; subst; try solve [split; assumption].
  all: (split; [intros Hle | intros Hx]); try discriminate; try lia.
  all: try solve [apply IA1; lia].
  all: try solve [pose proof (IA2 Hx); lia].
  all: try solve [exfalso; assert (Hz := IA1 ltac:(lia)); first [congruence | new_contra]].
Qed.

Ltac ns_rw := repeat match goal with Hx : g_ns _ _ = _ |- _ => rewrite Hx in * end.

Lemma P_new_step ns s t s' es : Inv ns s -> step ns s (Step t) = Some (s', es) ->
  forall n, is_new (g_ns s' n) -> g_refs s' n = [].
Proof.
  intros HI H. leaves HI H t.
  all: assert (Hna : g_ns s (nalloc s) = NNone) by (apply (I_alloc _ _ HI); lia).
  all: prep; node_facts HI.
  all: intros m Hn; pose proof (I_new _ _ HI m) as IN0; prj; prj_in Hn.
  all: try solve [exact (IN0 Hn)].
  all: upd_split; subst; on_in Hn; try contradiction.
  all: try solve [exact (IN0 Hn)].
  all: try solve [apply IN0; rewrite Hna; exact I].
  all: try solve [exfalso; ns_rw; on_in Hn; tauto].
  all: solve [rewrite (IN0 Hn); reflexivity].
Qed.

Lemma delr_nonempty r0 r1 L : In r1 L -> r1 <> r0 -> delr r0 L <> [].
Proof. intros HI Hn E. assert (X : In r1 (delr r0 L)) by (apply delr_in; split; assumption). rewrite E in X. destruct X. Qed.
Lemma delr_nonempty2 r0 L : NoDup L -> In r0 L -> 2 <= length L -> delr r0 L <> [].
Proof. intros ND HI HL E. pose proof (delr_len r0 L ND HI) as X. rewrite E in X. cbn in X. lia. Qed.
Lemma repr_nonempty r0 r1 L : L <> [] -> repr r0 r1 L <> [].
Proof. destruct L; [congruence|]. intros _. discriminate. Qed.

Lemma held_nonempty ns s n r0 : Inv ns s -> holds s r0 n -> g_refs s n <> [].
Proof. intros HI Hh E. apply (I_refs _ _ HI n) in Hh. rewrite E in Hh. destruct Hh. Qed.
Lemma has_ref_cbit x : has_ref x -> cbit x = 0.
Proof. destruct x; cbn; intros; try contradiction; reflexivity. Qed.

Ltac holds_now E := cbn [holds who_ref]; rewrite ?E; on;
  repeat match goal with Hx : gd _ _ = _ |- _ => rewrite Hx end; cbn [gnode];
  first [assumption | reflexivity | intuition congruence].

Lemma P_ne_step ns s t s' es : Inv ns s -> step ns s (Step t) = Some (s', es) ->
  forall n, has_ref (g_ns s' n) -> g_refs s' n <> [].
Proof.
  intros HI H. leaves HI H t.
  all: assert (Hna : g_ns s (nalloc s) = NNone) by (apply (I_alloc _ _ HI); lia).
  all: prep; node_facts HI.
  all: intros m Hn; pose proof (I_ne _ _ HI m) as IN0; prj; prj_in Hn.
  all: try solve [exact (IN0 Hn)].
  all: upd_split; subst; on_in Hn; try contradiction.
  all: try solve [exact (IN0 Hn)].
  all: try solve [discriminate].
  all: try solve [apply IN0; ns_rw; exact I].
  all: change (filter (fun x => negb (ref_eqb x ?r0)) ?L) with (delr r0 L);
       change (map (fun x => if ref_eqb x ?r0 then ?r1 else x) ?L) with (repr r0 r1 L).
  (* a release that does not claim leaves a reference behind *)
  all: try solve [match goal with Hcl : holds _ ?r0 ?n, Hc : cbit _ = 1 \/ _ |- delr ?r0 _ <> [] =>
         apply delr_nonempty2; [apply (I_refs _ _ HI) | apply (I_refs _ _ HI); exact Hcl
         | destruct Hc as [Hc|Hc]; [rewrite (has_ref_cbit _ Hn) in Hc; discriminate | exact Hc]] end].
  all: try solve [apply repr_nonempty; first [exact (IN0 Hn) | apply IN0; ns_rw; exact I | eapply held_nonempty; [exact HI|]; holds_now E]].
  all: try solve [eapply held_nonempty; [exact HI|]; holds_now E].
  all: try solve [match goal with Hx : gd (tl ?s ?t) ?g = GV ?p |- g_refs ?s ?p <> [] =>
         apply (held_nonempty _ _ _ (RG t g) HI); cbn [holds]; rewrite Hx; reflexivity end].
  all: try solve [match goal with E0 : cells _ _ = Some _ |- _ => pose proof (I_j1 _ _ HI _ _ E0); congruence end].
  all: try solve [match goal with Hx : gd (tl ?s ?t) ?g = GV ?p |- delr _ (g_refs ?s ?p) <> [] =>
         apply (delr_nonempty _ (RG t g)); [apply (I_refs _ _ HI); cbn [holds]; rewrite Hx; reflexivity | discriminate] end].
Qed.

(* the only reference of a claimed node was the released one *)
Ltac claim_contra E :=
  match goal with Hcf : _ /\ _ /\ (forall r, holds ?s r ?n -> r = _) |- _ =>
    destruct Hcf as (_ & _ & Hcf);
    match goal with
    | Hx : cells s ?c = Some n |- _ => specialize (Hcf (RCell c) Hx); discriminate Hcf
    | Hx : gd (tl s ?u) ?g = GV n |- _ =>
      let X := fresh in assert (X : holds s (RG u g) n) by (cbn [holds]; rewrite Hx; reflexivity);
      specialize (Hcf _ X); cbn [who_ref] in Hcf; congruence
    end
  end.

Lemma P_j1_step ns s t s' es : Inv ns s -> step ns s (Step t) = Some (s', es) ->
  forall c n, cells s' c = Some n -> g_ns s' n = NPub.
Proof.
  intros HI H. leaves HI H t.
  all: assert (Hna : g_ns s (nalloc s) = NNone) by (apply (I_alloc _ _ HI); lia).
  all: prep; node_facts HI.
  all: intros c0 m Hc; pose proof (I_j1 _ _ HI c0 m) as J; prj; prj_in Hc.
  all: try solve [exact (J Hc)].
  all: upd_split; subst; try discriminate.
  all: try solve [exact (J Hc)].
  all: try solve [specialize (J Hc); congruence].
  all: try solve [exfalso; claim_contra E].
  all: solve [reflexivity | congruence].
Qed.

Lemma P_j2_step ns s t s' es : Inv ns s -> step ns s (Step t) = Some (s', es) ->
  forall u g n, gd (tl s' u) g = GV n -> g <= ns -> g_ns s' n = NPub.
Proof.
  intros HI H. leaves HI H t.
  all: assert (Hna : g_ns s (nalloc s) = NNone) by (apply (I_alloc _ _ HI); lia).
  all: prep; node_facts HI.
  all: intros u g1 m Hc Hle; pose proof (I_j2 _ _ HI u g1 m) as J; prj; prj_in Hc.
  all: try solve [exact (J Hc Hle)].
  all: try (destruct (Nat.eq_dec u t) as [->|Hut]; [rewrite ?upd_same in Hc | rewrite ?upd_other in Hc by exact Hut]; cbn [gd] in Hc).
  all: try solve [exact (J Hc Hle)].
  all: upd_split; subst; try discriminate; try (injection Hc as ->).
  all: try solve [exact (J Hc Hle)].
  all: try solve [specialize (J Hc Hle); congruence].
  all: try solve [exfalso; claim_contra E].
  (* validation against a cell: the cell holds a reference / against the free list head: not a client guard *)
  all: try solve [cbn [src] in E0; exact (I_j1 _ _ HI _ _ E0)].
  all: try solve [exfalso; match goal with Hpg : popg _ _ |- _ => destruct Hpg; subst; lia end].
Qed.

Lemma P_q1_step ns s t s' es : Inv ns s -> step ns s (Step t) = Some (s', es) ->
  forall u g n, gd (tl s' u) g = GV n -> ns < g -> ~ bad_q (g_ns s' n).
Proof.
  intros HI H. leaves HI H t.
  all: assert (Hna : g_ns s (nalloc s) = NNone) by (apply (I_alloc _ _ HI); lia).
  all: prep; node_facts HI.
  all: intros u g1 m Hc Hle; pose proof (I_q1 _ _ HI u g1 m) as J; prj; prj_in Hc.
  all: try solve [exact (J Hc Hle)].
  all: try (destruct (Nat.eq_dec u t) as [->|Hut]; [rewrite ?upd_same in Hc | rewrite ?upd_other in Hc by exact Hut]; cbn [gd] in Hc).
  all: try solve [exact (J Hc Hle)].
  all: upd_split; subst; try discriminate; try (injection Hc as ->).
  all: try solve [exact (J Hc Hle)].
  all: try solve [on; tauto].
  all: try solve [specialize (J Hc Hle); ns_rw; on_in J; tauto].
  all: try solve [exfalso; claim_contra E].
  all: try solve [ns_rw; on; tauto].
  all: try solve [exfalso; lia].
Qed.

(** only a constructed node can be claimed *)
Lemma claim_state ns s t w n old k : Inv ns s -> th s t = D2 w n old k -> rc s n = 2 ->
  (exists u, g_ns s n = NFresh u) \/ g_ns s n = NPub \/ g_ns s n = NDel.
Proof.
  intros HI E Hrc.
  assert (Hh : holds s (who_ref t w) n).
  { pose proof (I_sh _ _ HI t) as (Hs & _). rewrite E in Hs. destruct w; cbn [who_ref holds tshape] in *; [tauto|rewrite E; reflexivity]. }
  destruct (claim_facts _ _ _ _ HI Hrc Hh) as (_ & Hc & Hall).
  pose proof (held_not_new _ _ _ _ HI Hh) as Hnn.
  pose proof (I_ownr _ _ HI n) as Hr.
  destruct (g_ns s n) eqn:En; cbn in Hc, Hnn, Hr; try discriminate; try tauto; try (left; eexists; reflexivity).
  exfalso. destruct Hr as [(c & g & Eu)|(c & i & Eu)].
  - pose proof (I_sh _ _ HI t0) as (Hs & _). rewrite Eu in Hs. cbn in Hs. destruct Hs as (_ & Hs & _).
    assert (X : holds s (RG t0 g) n) by (cbn; rewrite Hs; reflexivity).
    apply Hall in X. destruct w; cbn in X; [|discriminate]. injection X as -> ->. congruence.
  - assert (X : holds s (ROwn t0) n) by (cbn; rewrite Eu; reflexivity).
    apply Hall in X. destruct w; cbn in X; [discriminate|]. injection X as ->. congruence.
Qed.

Lemma P_alive_step ns s t s' es : Inv ns s -> step ns s (Step t) = Some (s', es) ->
  forall n, alive_ok (g_ns s' n) (g_alive s' n) (dst s' n).
Proof.
  intros HI H. leaves HI H t.
  all: assert (Hna : g_ns s (nalloc s) = NNone) by (apply (I_alloc _ _ HI); lia).
  all: prep; node_facts HI.
  all: try match goal with E : th _ _ = D2 _ _ _ _, E1 : rc _ _ = 2 |- _ => pose proof (claim_state _ _ _ _ _ _ _ HI E E1) as Hcs end.
  all: intros m; pose proof (I_alive _ _ HI m) as IA; prj.
  all: try solve [exact IA].
  all: upd_split; subst; try solve [exact IA].
  all: try solve [ns_rw; on_in IA; on; intuition congruence].
  all: try solve [destruct Hcs as [[? Hcs]|[Hcs|Hcs]]; rewrite Hcs in IA; on_in IA; on; destruct IA as [-> ->]; reflexivity].
Qed.

Lemma P_cnt_step ns s t s' es : Inv ns s -> step ns s (Step t) = Some (s', es) ->
  forall n, g_nd s' n + b2n (g_alive s' n) = g_inc s' n /\
            g_npush s' n + live4 (g_ns s' n) = g_inc s' n /\
            g_npop s' n + live4 (g_ns s' n) + isfree (g_ns s' n) = g_inc s' n.
Proof.
  intros HI H. leaves HI H t.
  all: assert (Hna : g_ns s (nalloc s) = NNone) by (apply (I_alloc _ _ HI); lia).
  all: prep; node_facts HI.
  all: try match goal with E : th _ _ = D2 _ _ _ _, E1 : rc _ _ = 2 |- _ => pose proof (claim_state _ _ _ _ _ _ _ HI E E1) as Hcs end.
  all: intros m; pose proof (I_cnt _ _ HI m) as IC; pose proof (I_alive _ _ HI m) as IA; prj.
  all: try solve [exact IC].
  all: upd_split; subst; try solve [exact IC].
  all: try solve [congruence].
  all: try solve [ns_rw; on_in IA; on_in IC; on; repeat match goal with Hx : g_alive _ _ = _ |- _ => rewrite Hx in * end;
                  repeat match goal with Hx : _ /\ _ |- _ => destruct Hx end;
                  repeat match goal with Hx : g_alive _ _ = _ |- _ => rewrite Hx in * end; cbn [b2n] in *; lia].
  all: try solve [destruct Hcs as [[? Hcs]|[Hcs|Hcs]]; rewrite Hcs in *; on_in IC; on; lia].
Qed.

Lemma pub_alive ns s n : Inv ns s -> g_ns s n = NPub -> g_alive s n = true.
Proof. intros HI H. pose proof (I_alive _ _ HI n) as IA. rewrite H in IA. cbn in IA. tauto. Qed.

Lemma P_uaf_step ns s t s' es : Inv ns s -> step ns s (Step t) = Some (s', es) -> g_uaf s' = false.
Proof.
  intros HI H. leaves HI H t.
  all: prep.
  all: prj; try exact (I_uaf _ _ HI).
  all: rewrite (I_uaf _ _ HI); cbn [orb].
  all: rewrite ?upd_same in *; bool_eqs.
  all: try solve [repeat match goal with Hx : gd _ _ = _ |- _ => rewrite Hx in * end; cbn [gnode] in *; discriminate].
  (* the dereferenced node is in a cell *)
  all: try solve [cbn [gnode] in *; match goal with E0 : cells _ _ = Some _ |- _ =>
                    pose proof (I_j1 _ _ HI _ _ E0) as Hpub; erewrite pub_alive by (first [exact HI | congruence]); reflexivity end].
  (* a persistent guard *)
  all: try solve [match goal with E1 : gnode (gd (tl ?s ?t) ?g) = Some ?n |- _ =>
         destruct (gd (tl s t) g) eqn:Eg; cbn [gnode] in E1; [discriminate | apply Hg in Eg; destruct Eg |];
         injection E1 as ->; erewrite pub_alive; [reflexivity | exact HI | eapply (I_j2 _ _ HI); [exact Eg | lia]] end].
Qed.

(** a Start action changes the program counter of its thread only *)
Lemma start_eq ns s t o s' es : step ns s (Start t o) = Some (s', es) -> exists p, s' = set_pc t p s /\ th s t = Idle /\ owned p = None.
Proof. intros H. unfold step in H. step_split H; eexists; split; try reflexivity; split; try assumption; reflexivity. Qed.
