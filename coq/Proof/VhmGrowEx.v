(** vyukov_hash_map with several buckets and grow: examples (run + vm_compute) on reachable states that exercise the
    hypotheses of the C10 theorems: a grow in its migration phase, a reader and an eraser that finish on a replaced
    block, retired blocks. *)
From Coq Require Import NArith List Bool Lia PeanoNat.
From XV Require Import Base.Word Conc.Lts Conc.Ev gen.BucketStateGen Model.VhmGrowDefs
  Proof.VhmGrowBase Proof.VhmGrowAbs Proof.VhmGrowInv Proof.VhmGrowThm.
Import ListNotations.
Local Open Scope N_scope.

(** a version counter is incremented only by a removal that returns at the same step: [Bnd] follows from the number of
    completed calls *)
Lemma nver_hist hash st a st' es : step hash st a = Some (st', es) ->
  (forall b j, g_nver st b j <= N.of_nat (length (g_hist st))) -> forall b j, g_nver st' b j <= N.of_nat (length (g_hist st')).
Proof.
  intros H HB b j. pose proof (HB b j) as Hb. step_inv H; st_simpl; rewrite ?app_length; cbn [length]; try lia.
  - unfold clr2. destruct (b =? nalloc st); lia.
  - unfold setf2. destruct ((b =? b0) && (j =? j0)) eqn:E; [|lia]. apply andb_true_iff in E. destruct E as [E1 E2].
    apply N.eqb_eq in E1, E2. subst. pose proof (HB b0 j0). lia.
  - unfold setf2. destruct ((b =? b0) && (j =? j0)) eqn:E; [|lia]. apply andb_true_iff in E. destruct E as [E1 E2].
    apply N.eqb_eq in E1, E2. subst. pose proof (HB b0 j0). lia.
Qed.

Lemma Bnd_of_hist hash cap st : reach (init cap) (step hash) st -> N.of_nat (length (g_hist st)) < 2 ^ 27 -> Bnd st.
Proof.
  intros Hr Hl b j _. enough (H : forall b j, g_nver st b j <= N.of_nat (length (g_hist st))) by (pose proof (H b j); lia).
  clear -Hr. induction Hr as [|s a s' es Hr IH Hs]; [intros; cbn; lia | exact (nver_hist _ _ _ _ _ Hs IH)].
Qed.

(** run with the list of visited states (most recent first) *)
Fixpoint runh (hash : N -> N) (s : state) (h : list state) (acts : list action) : state * list state :=
  match acts with
  | [] => (s, h)
  | a :: rest => match step hash s a with
                 | Some (s', _) => runh hash s' (s :: h) rest
                 | None => runh hash s h rest
                 end
  end.
Lemma exec_runh hash cap acts : forall s h, exec hash cap s h -> exec hash cap (fst (runh hash s h acts)) (snd (runh hash s h acts)).
Proof.
  induction acts as [|a rest IH]; intros s h He; cbn [runh]; [exact He|].
  destruct (step hash s a) as [[s' es]|] eqn:Hs; [|apply IH; exact He]. apply IH. eapply exec_step; eauto.
Qed.

Module VhmGrowExamples.
  Definition hid (k : N) : N := k.
  Definition steps (t : nat) (n : nat) : list action := repeat (Step t) n.
  Definition ins0 (k : N) : list action := Start 0%nat (OIns k (10 * k)) :: steps 0 12.
  Definition stof (cap : N) (acts : list action) : state := fst (fst (run (step hid) (init cap) acts)).
  Lemma stof_reach cap acts : reach (init cap) (step hid) (stof cap acts).
  Proof. apply run_reach. Qed.

  (** capacity 1: thread 0 inserts 1, 2, 3 (the only bucket is full) *)
  Definition setup : list action := ins0 1 ++ ins0 2 ++ ins0 3.
  Example ex_full_bucket :
    (db (stof 1 setup), bcnt (stof 1 setup) 1, bst (stof 1 setup) 1 0, g_map (stof 1 setup)) = (1, 1, 6, [(3, 30); (2, 20); (1, 10)]).
  Proof. vm_compute. reflexivity. Qed.

  (** thread 0 inserts 4: the bucket is full, it grows the table; stopped in the migration phase after it has moved
      (1,10) into bucket 1 of the new block (2 buckets): it holds the lock of every bucket of the old block *)
  Definition g1 := setup ++ [Start 0%nat (OIns 4 40)] ++ steps 0 20.
  Example ex_migration :
    (th (stof 1 g1) 0%nat, db (stof 1 g1), rlock (stof 1 g1), bcnt (stof 1 g1) 2, bst (stof 1 g1) 1 0, bst (stof 1 g1) 2 1,
     akey (stof 1 g1) 2 1 0, g_own (stof 1 g1) 1 0, g_map (stof 1 g1)) =
    (DMK (mkIC false 4 40) 1 2 1 0 3 1, 1, 1, 2, 7, 2, 1, Some 0%nat, [(3, 30); (2, 20); (1, 10)]).
  Proof. vm_compute. reflexivity. Qed.
  (** ... so the hypotheses of [vhmg_grow_excludes_writers] hold there *)
  Example ex_migration_hyps :
    pc_blocks (th (stof 1 g1) 0%nat) = Some (1, 2, 1) /\ forall j, j < 1 -> holds (th (stof 1 g1) 0%nat) 1 j.
  Proof. split; [vm_compute; reflexivity|]. intros j Hj. assert (j = 0) by lia. subst j. vm_compute. split; reflexivity. Qed.

  (** a reader that started on the old block: thread 1 calls try_get_value(5) and has loaded data_block (block 1) and the
      state of its bucket; then thread 0 finishes the grow (block 2 published, block 1 retired), completes its insertion
      and also inserts 5 through the new block *)
  Definition r1 := setup ++ [Start 1%nat (OGet 5)] ++ steps 1 3.
  Definition r2 := r1 ++ [Start 0%nat (OIns 4 40)] ++ steps 0 60 ++ ins0 5.
  Example ex_reader_on_replaced_block :
    (th (stof 1 r2) 1%nat, db (stof 1 r2), g_frozen (stof 1 r2) 1, g_retired (stof 1 r2), bcnt (stof 1 r2) 2,
     g_map (stof 1 r2), g_obs (stof 1 r2) 1%nat) =
    (GK 5 1 0 6 0, 2, true, [1], 2, [(5, 50); (4, 40); (3, 30); (2, 20); (1, 10)], [None; None; None]).
  Proof. vm_compute. reflexivity. Qed.
  (** the reader scans the frozen bucket (1, 2, 3), validates the unchanged version and answers 'absent' although 5 is in
      the map by now: 5 was absent when the new block was published, an instant inside the call *)
  Definition r3 := r2 ++ steps 1 5.
  Example ex_reader_answers_from_replaced_block :
    (th (stof 1 r3) 1%nat, map (fun h => (h_t h, h_op h, h_res h)) (filter (fun h => Nat.eqb (h_t h) 1) (g_hist (stof 1 r3)))) =
    (Idle, [(1%nat, OGet 5, [4; 0])]).
  Proof. vm_compute. reflexivity. Qed.
  Example ex_Bnd : Bnd (stof 1 r3).
  Proof. apply (Bnd_of_hist hid 1); [apply stof_reach | vm_compute; reflexivity]. Qed.
  (** the hypotheses of [vhmg_try_get_value_linearizable] for the returning step of that call *)
  Definition r3' := r2 ++ steps 1 4.
  Example ex_main_theorem_hyps :
    let sh := runh hid (init 1) [] r3' in
    exec hid 1 (fst sh) (snd sh) /\ get_key (th (fst sh) 1%nat) = Some 5 /\
    exists s' es, step hid (fst sh) (Step 1%nat) = Some (s', es) /\ In (ERet 1%nat [4; 0]) es /\ Bnd s'.
  Proof.
    cbv zeta. set (s := fst (runh hid (init 1) [] r3')).
    assert (He : exec hid 1 s (snd (runh hid (init 1) [] r3'))) by (apply exec_runh; apply exec_init).
    split; [exact He|]. split; [vm_compute; reflexivity|].
    exists (fst (fst (run (step hid) s [Step 1%nat]))), (snd (fst (run (step hid) s [Step 1%nat]))).
    assert (Hs : step hid s (Step 1%nat) = Some (fst (fst (run (step hid) s [Step 1%nat])), snd (fst (run (step hid) s [Step 1%nat])))).
    { destruct (step hid s (Step 1%nat)) as [[s1 e1]|] eqn:E; [cbn [run]; rewrite E; cbn; rewrite app_nil_r; reflexivity|].
      exfalso. vm_compute in E. discriminate E. }
    split; [exact Hs|]. split; [vm_compute; auto|].
    apply (Bnd_of_hist hid 1); [eapply reach_step; [exact (exec_reach hid 1 _ _ He) | exact Hs] | vm_compute; reflexivity].
  Qed.

  (** a reader that finds its key in the replaced block starts over on the new block *)
  Definition q1 := setup ++ [Start 1%nat (OGet 2)] ++ steps 1 3.
  Definition q2 := q1 ++ [Start 0%nat (OIns 4 40)] ++ steps 0 60 ++ steps 1 4.
  Example ex_reader_restarts : (th (stof 1 q2) 1%nat, db (stof 1 q2)) = (G1 2, 2).
  Proof. vm_compute. reflexivity. Qed.
  Example ex_reader_restarted_result :
    map (fun h => (h_op h, h_res h)) (filter (fun h => Nat.eqb (h_t h) 1) (g_hist (stof 1 (q2 ++ steps 1 10)))) = [(OGet 2, [4; 1; 20])].
  Proof. vm_compute. reflexivity. Qed.

  (** capacity 2: 1, 3, 5 fill bucket 1, bucket 0 is empty.  Thread 1 calls erase(2) and loads data_block (block 1); thread
      0 inserts 7 (grow to 4 buckets) and then 2; thread 1 reads item_count = 0 in bucket 0 of the replaced block and
      answers 'no' without locking: 2 was absent at the publication *)
  Definition e1 := ins0 1 ++ ins0 3 ++ ins0 5 ++ [Start 1%nat (ODel 2)] ++ steps 1 2.
  Definition e2 := e1 ++ [Start 0%nat (OIns 7 70)] ++ steps 0 80 ++ ins0 2.
  Example ex_eraser_on_replaced_block :
    (th (stof 2 e2) 1%nat, db (stof 2 e2), bcnt (stof 2 e2) 2, g_frozen (stof 2 e2) 1, g_map (stof 2 e2), bst (stof 2 e2) 1 0) =
    (X2 false 2 1 0, 2, 4, true, [(2, 20); (7, 70); (5, 50); (3, 30); (1, 10)], 1).
  Proof. vm_compute. reflexivity. Qed.
  Example ex_eraser_answers_from_replaced_block :
    map (fun h => (h_op h, h_res h, h_wit h, existsb (fun o => match o with None => true | _ => false end) (h_obs h)))
        (filter (fun h => Nat.eqb (h_t h) 1) (g_hist (stof 2 (e2 ++ steps 1 1)))) = [(ODel 2, [2; 0], None, true)].
  Proof. vm_compute. reflexivity. Qed.

  (** three successive grows: 1 -> 2 -> 4 -> 8 buckets; every replaced block is retired exactly once *)
  Definition m1 := ins0 0 ++ ins0 4 ++ ins0 8 ++ [Start 0%nat (OIns 12 120)] ++ steps 0 200.
  Example ex_three_grows :
    (th (stof 1 m1) 0%nat, db (stof 1 m1), bcnt (stof 1 m1) 4, g_retired (stof 1 m1), map (g_frozen (stof 1 m1)) [1; 2; 3; 4],
     g_map (stof 1 m1), bst (stof 1 m1) 4 0) =
    (Idle, 4, 8, [1; 2; 3], [true; true; true; false], [(12, 120); (8, 80); (4, 40); (0, 0)], 4).
  Proof. vm_compute. reflexivity. Qed.
End VhmGrowExamples.
