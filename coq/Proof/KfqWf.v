(** kirsch_kfifo_queue (C06, unbounded), invariant layer 1 (the segment chain): the linked segments form a
    strictly increasing chain through [next] ending in a segment whose next is null; head_ and tail_ point
    into the chain, head_ not after tail_, tail_ at the last or the last but one segment; local
    copies of head_ / tail_ are not newer than the shared words (which never take a value twice); [next]
    is written once; a segment is marked deleted only after tail_ has left it; the tail-helping CAS (9) of
    advance_head is dead code.  Also the step-inversion tactic [brk].  No axioms, no admits. *)
From Coq Require Import NArith List Bool Lia PeanoNat ZifyBool ZifyNat ZifyN.
From XV Require Import Base.Word Conc.Lts Conc.Ev Model.KfqDefs.
Import ListNotations.
Local Open Scope N_scope.

Ltac sim := cbn [set_th set_head set_tail set_next set_del set_slot set_in set_out set_ok retire release draw
                 alloc alloc_seg bump kpc
                 head tail nxt del slot bval nalloc th g_in g_out g_ok g_segs g_retired g_freed g_nch fst snd] in *.

Lemma iw_eqb_spec a b : reflect (a = b) (iw_eqb a b).
Proof.
  destruct a as [a1 a2], b as [b1 b2]. unfold iw_eqb. cbn [fst snd].
  destruct (N.eqb_spec a1 b1); destruct (N.eqb_spec a2 b2); cbn; constructor; congruence.
Qed.
Lemma sw_eqb_spec a b : reflect (a = b) (sw_eqb a b).
Proof. exact (iw_eqb_spec a b). Qed.

Lemma setf_same {X} (f : N -> X) i v : setf f i v i = v.
Proof. unfold setf. rewrite N.eqb_refl. reflexivity. Qed.
Lemma setf_other {X} (f : N -> X) i v j : j <> i -> setf f i v j = f j.
Proof. unfold setf. intros H. destruct (N.eqb_spec j i); [contradiction|reflexivity]. Qed.
Lemma setf2_same {X} (f : N -> N -> X) s i v : setf2 f s i v s i = v.
Proof. unfold setf2. rewrite N.eqb_refl. apply setf_same. Qed.
Lemma setf2_other {X} (f : N -> N -> X) s i v s' j : (s', j) <> (s, i) -> setf2 f s i v s' j = f s' j.
Proof.
  unfold setf2, setf. intros H. destruct (N.eqb_spec s' s) as [->|]; [|reflexivity].
  destruct (N.eqb_spec j i) as [->|]; [congruence|reflexivity].
Qed.

(** destruct the conditions of a step *)
Ltac brk H :=
  repeat match type of H with
  | context [if iw_eqb ?a ?b then _ else _] => destruct (iw_eqb_spec a b)
  | context [if sw_eqb ?a ?b then _ else _] => destruct (sw_eqb_spec a b)
  | context [if negb (?a =? ?b) then _ else _] => destruct (N.eqb_spec a b); cbn [negb] in H
  | context [if ?a =? ?b then _ else _] => destruct (N.eqb_spec a b)
  | context [if ?a <? ?b then _ else _] => destruct (N.ltb_spec a b)
  | context [if del ?s ?x then _ else _] => destruct (del s x) eqn:?
  end.

(** the segment allocated by a thread and not yet linked or released *)
Definition aseg (p : pc) : option N := match p with A4 _ _ _ n => Some n | _ => None end.

Definition glast (st : state) : N := last (g_segs st) 1.
Definition linked (st : state) (s : N) : Prop := In s (g_segs st).
(** a copy of tail_ / head_ is not newer than the shared word *)
Definition tle (st : state) (w : iw) : Prop := w = tail st \/ fst w < fst (tail st).
Definition hle (st : state) (w : iw) : Prop := fst w < fst (head st) \/ (fst w = fst (head st) /\ snd w <= snd (head st)).

Set Default Proof Using "All".
Section L1.
  Variable k : N.
  Hypothesis Hk : 1 <= k.
  Notation step := (step k).

  Definition TD (st : state) (hd : iw) (j p : N) : Prop := linked st (fst hd) /\ hle st hd /\ j < k /\ p <> 0.
  Definition TK (st : state) (c : cont) : Prop :=
    match c with KPush _ => True | KPop hd j p _ => TD st hd j p end.
  Definition TT (st : state) (tl : iw) : Prop := linked st (fst tl) /\ tle st tl.
  Definition TH (st : state) (hd hn : iw) : Prop :=
    linked st (fst hd) /\ hle st hd /\ fst hd < fst (tail st) /\ hn = nxt st (fst hd) /\ fst hn <> 0.

  Definition TA (st : state) (p : pc) : Prop :=
    match p with
    | Idle | Begin _ | P1 _ | D1 => True
    | PF b tl ri i => TT st tl /\ ri < k /\ i < k
    | P2 b tl j _ | P3 b tl j _ => TT st tl /\ j < k
    | P2n b tl => TT st tl
    | C1 b tl j _ | C2 b tl j _ | C3 b tl j _ | C4 b tl j _ | C7 b tl j _ | C9 b tl j _ => TT st tl /\ j < k
    | C5 b tl j _ hc => TT st tl /\ j < k /\ hle st hc /\ fst hc = fst tl
    | A1 c tl => TT st tl /\ TK st c
    | A2 c tl nx => TT st tl /\ TK st c /\ (nx = (0, 0) \/ (nx = nxt st (fst tl) /\ fst nx <> 0))
    | A3 c tl nx => TT st tl /\ TK st c /\ nx = nxt st (fst tl) /\ fst nx <> 0
    | A4 c tl nx n => TT st tl /\ TK st c /\ nx = (0, 0) /\ fst tl < n /\ n < nalloc st
    | A5 c tl n => TT st tl /\ TK st c /\ nxt st (fst tl) = (n, 1) /\ n <> 0
    | D1f hd | D2n hd | D3n hd => linked st (fst hd) /\ hle st hd
    | DF hd ri i => linked st (fst hd) /\ hle st hd /\ ri < k /\ i < k
    | D2 hd j p _ | D3 hd j p _ | D4 hd j p _ => TD st hd j p
    | DE hd tl => linked st (fst hd) /\ hle st hd /\ TT st tl /\ fst tl = fst hd
    | H1 hd tl => linked st (fst hd) /\ hle st hd /\ fst hd < fst (tail st)
    | H2 hd tl hn => TH st hd hn
    | H3 hd tl hn => TH st hd hn /\ fst tl = fst hd
    | H4 hd tl hn tn => TH st hd hn /\ fst tl = fst hd
    | H5 _ _ _ _ => False
    | H6 hd hn => TH st hd hn
    | H7 hd hn => TH st hd hn /\ del st (fst hd) = true
    end.

  Record InvA (st : state) : Prop := {
    a_nalloc : 2 <= nalloc st;
    a_lt : forall s, linked st s -> 1 <= s < nalloc st;
    a_last : linked st (glast st);
    a_max : forall s, linked st s -> s <= glast st;
    a_lnull : nxt st (glast st) = (0, 0);
    a_unull : forall s, ~ linked st s -> nxt st s = (0, 0);
    a_succ : forall s, linked st s -> s <> glast st ->
             exists n, nxt st s = (n, 1) /\ linked st n /\ s < n /\ forall s', linked st s' -> s < s' -> n <= s';
    a_head : linked st (fst (head st));
    a_tail : linked st (fst (tail st));
    a_ht : fst (head st) <= fst (tail st);
    a_tlast : fst (tail st) = glast st \/ fst (nxt st (fst (tail st))) = glast st;
    a_del : forall s, del st s = true -> linked st s /\ s < fst (tail st);
    a_th : forall t, TA st (th st t);
    a_own : forall t t' n, aseg (th st t) = Some n -> aseg (th st t') = Some n -> t = t';
    a_fresh : forall t n, aseg (th st t) = Some n -> ~ linked st n }.

  (** what steps do to the shared part *)
  Definition mono (st st' : state) : Prop :=
    (forall s, linked st s -> linked st' s) /\
    (tail st' = tail st \/ fst (tail st) < fst (tail st')) /\
    hle st' (head st) /\
    (forall s, fst (nxt st s) <> 0 -> nxt st' s = nxt st s) /\
    nalloc st <= nalloc st' /\
    (forall s, del st s = true -> del st' s = true).

  Lemma mono_refl st : mono st st.
  Proof. unfold mono. split; [auto|]. split; [left; reflexivity|]. split; [unfold hle; right; lia|]. split; [auto|]. split; [lia|auto]. Qed.

  Lemma tle_mono st st' w : mono st st' -> tle st w -> tle st' w.
  Proof. intros (_ & [E|E] & _) [A|A]; unfold tle; [left; congruence|right; rewrite E; exact A|right; subst w; exact E|right; lia]. Qed.
  Lemma hle_mono st st' w : mono st st' -> hle st w -> hle st' w.
  Proof. intros (_ & _ & E & _) A. unfold hle in *. lia. Qed.
  Lemma TT_mono st st' w : mono st st' -> TT st w -> TT st' w.
  Proof. intros M [A B]. split; [apply M; exact A|eapply tle_mono; eauto]. Qed.
  Lemma TD_mono st st' hd j p : mono st st' -> TD st hd j p -> TD st' hd j p.
  Proof. intros M (A & B & C & D). repeat split; try assumption; [apply M; exact A|eapply hle_mono; eauto]. Qed.
  Lemma TK_mono st st' c : mono st st' -> TK st c -> TK st' c.
  Proof. intros M. destruct c; cbn [TK]; [auto|apply TD_mono; exact M]. Qed.
  Lemma tail_mono st st' x : mono st st' -> x < fst (tail st) -> x < fst (tail st').
  Proof. intros (_ & [E|E] & _) A; [rewrite E; exact A|lia]. Qed.
  Lemma TH_mono st st' hd hn : mono st st' -> TH st hd hn -> TH st' hd hn.
  Proof.
    intros M (A & B & C & D & E). pose proof M as (M1 & M2 & M3 & M4 & M5 & M6).
    repeat split; try assumption; [apply M1; exact A|eapply hle_mono; eauto|eapply tail_mono; eauto|].
    rewrite M4; [exact D|]. rewrite <- D. exact E.
  Qed.

  Lemma TA_stable st st' p : mono st st' -> TA st p -> TA st' p.
  Proof.
    intros M. pose proof M as (M1 & M2 & M3 & M4 & M5 & M6).
    pose proof (fun w => TT_mono st st' w M) as HT. pose proof (fun a b c => TD_mono st st' a b c M) as HD.
    pose proof (fun c => TK_mono st st' c M) as HK. pose proof (fun a b => TH_mono st st' a b M) as HH.
    pose proof (fun w => hle_mono st st' w M) as Hh.
    destruct p; cbn [TA]; try exact (fun x => x); try tauto.
    all: try (intuition; fail).
    - (* A2 *) intros (A & B & [C|[C D]]); (split; [auto|split; [auto|]]); [left; exact C|right]. split; [|exact D].
      rewrite M4; [exact C|]. rewrite <- C. exact D.
    - (* A3 *) intros (A & B & C & D). split; [auto|]. split; [auto|]. split; [|exact D]. rewrite M4; [exact C|]. rewrite <- C. exact D.
    - (* A4 *) intros (A & B & C & D & E). split; [auto|]. split; [auto|]. split; [exact C|]. lia.
    - (* A5 *) intros (A & B & C & D). split; [auto|]. split; [auto|]. split; [|exact D]. rewrite M4; [exact C|]. rewrite C. exact D.
    - (* H1 *) intros (A & B & C). split; [apply M1; exact A|]. split; [auto|]. eapply tail_mono; eauto.
  Qed.

  (** consequences of the chain invariant *)
  Lemma nxt_cases st x : InvA st -> nxt st x = (0, 0) \/ (linked st x /\ x <> glast st /\ fst (nxt st x) <> 0 /\ x < fst (nxt st x)).
  Proof.
    intros I. destruct (in_dec N.eq_dec x (g_segs st)) as [Hin|Hni]; [|left; apply (a_unull st I); exact Hni].
    destruct (N.eq_dec x (glast st)) as [->|Hne]; [left; apply (a_lnull st I)|right].
    destruct (a_succ st I x Hin Hne) as (n & E & L & Hlt & _). rewrite E. cbn [fst]. repeat split; try assumption. lia.
  Qed.
  Lemma nxt_null st x : InvA st -> fst (nxt st x) = 0 -> nxt st x = (0, 0).
  Proof. intros I H. destruct (nxt_cases st x I) as [A|(_ & _ & A & _)]; [exact A|contradiction]. Qed.
  Lemma tail_le_last st : InvA st -> fst (tail st) <= glast st.
  Proof. intros I. apply (a_max st I). apply (a_tail st I). Qed.
  Lemma nxt_nonnull st x : InvA st -> linked st x -> x < fst (tail st) -> fst (nxt st x) <> 0.
  Proof.
    intros I L H. pose proof (tail_le_last st I).
    destruct (a_succ st I x L ltac:(lia)) as (n & E & _ & Hlt & _). rewrite E. cbn. lia.
  Qed.
  Lemma hle_refl st : hle st (head st). Proof. right. lia. Qed.
  Lemma tle_refl st : tle st (tail st). Proof. left. reflexivity. Qed.
  Lemma TT_tail st : InvA st -> TT st (tail st).
  Proof. intros I. split; [apply (a_tail st I)|apply tle_refl]. Qed.
  Lemma TA_kpc st c : TK st c -> TA st (kpc c).
  Proof. destruct c; cbn [kpc TA TK]; auto. Qed.
  Lemma fidx_lt ri i : fidx k ri i < k.
  Proof. unfold fidx. apply N.mod_lt. lia. Qed.
  Lemma hle_tail st hd : InvA st -> hle st hd -> fst hd <= fst (tail st).
  Proof. intros I H. pose proof (a_ht st I). unfold hle in H. lia. Qed.
  Lemma tle_le st tl : tle st tl -> fst tl <= fst (tail st).
  Proof. intros [->|H]; lia. Qed.
  Lemma tle_ne st tl : tle st tl -> tl <> tail st -> fst tl < fst (tail st).
  Proof. intros [->|H] Hne; [congruence|exact H]. Qed.

  Definition same (s s' : state) : Prop :=
    head s' = head s /\ tail s' = tail s /\ nxt s' = nxt s /\ del s' = del s /\ nalloc s' = nalloc s /\ g_segs s' = g_segs s.

  Lemma same_mono s s' : same s s' -> mono s s'.
  Proof.
    intros (E1 & E2 & E3 & E4 & E5 & E6). unfold mono, linked, hle. rewrite E1, E2, E3, E4, E5, E6.
    split; [auto|]. split; [left; reflexivity|]. split; [right; lia|]. split; [auto|]. split; [lia|auto].
  Qed.

  (** a step that changes only the program counter of t (and fields the layer does not look at) *)
  Lemma InvA_local s s' t p' :
    InvA s -> same s s' -> th s' = upd (th s) t p' -> TA s p' -> (aseg p' = None \/ aseg p' = aseg (th s t)) -> InvA s'.
  Proof.
    intros I Hs Et Hp Ha. pose proof (same_mono s s' Hs) as M. destruct Hs as (E1 & E2 & E3 & E4 & E5 & E6).
    assert (Hl : forall x, linked s' x <-> linked s x) by (intros x; unfold linked; rewrite E6; tauto).
    assert (Hg : glast s' = glast s) by (unfold glast; rewrite E6; reflexivity).
    assert (Has : forall t0 n, aseg (th s' t0) = Some n -> aseg (th s t0) = Some n).
    { intros t0 n. rewrite Et. unfold upd. destruct (Nat.eqb_spec t0 t) as [->|]; [|auto].
      destruct Ha as [Ha|Ha]; rewrite Ha; [discriminate|auto]. }
    destruct I. constructor; rewrite ?E1, ?E2, ?E3, ?E4, ?E5, ?Hg; try setoid_rewrite Hl; try assumption.
    - intros t0. rewrite Et. unfold upd. destruct (Nat.eqb_spec t0 t) as [->|]; eapply TA_stable; eauto.
    - intros t0 t1 n A B. eapply a_own0; eauto.
    - intros t0 n A. eapply a_fresh0; eauto.
  Qed.

  Lemma mono_intro s s' :
    g_segs s' = g_segs s -> nxt s' = nxt s -> (tail s' = tail s \/ fst (tail s) < fst (tail s')) -> hle s' (head s) ->
    nalloc s <= nalloc s' -> (forall x, del s x = true -> del s' x = true) -> mono s s'.
  Proof.
    intros E6 E3 Ht Hh Hn Hd. unfold mono, linked. rewrite E6, E3. split; [auto|]. split; [exact Ht|]. split; [exact Hh|].
    split; [auto|]. split; [exact Hn|exact Hd].
  Qed.

  (** a step that changes head_ / tail_ / deleted / the allocation counter, not the chain *)
  Lemma InvA_upd s s' t p' :
    InvA s -> mono s s' -> g_segs s' = g_segs s -> nxt s' = nxt s -> th s' = upd (th s) t p' -> TA s' p' ->
    (aseg p' = None \/ aseg p' = aseg (th s t) \/ aseg p' = Some (nalloc s)) ->
    linked s (fst (head s')) -> linked s (fst (tail s')) -> fst (head s') <= fst (tail s') ->
    (fst (tail s') = glast s \/ fst (nxt s (fst (tail s'))) = glast s) ->
    (forall x, del s' x = true -> linked s x /\ x < fst (tail s')) -> InvA s'.
  Proof.
    intros I M E6 E3 Et Hp Ha Hh Htl Hht Hlast Hdel. pose proof M as (M1 & M2 & M3 & M4 & M5 & M6).
    assert (Hl : forall x, linked s' x <-> linked s x) by (intros x; unfold linked; rewrite E6; tauto).
    assert (Hg : glast s' = glast s) by (unfold glast; rewrite E6; reflexivity).
    assert (Has : forall t0 n, aseg (th s' t0) = Some n -> aseg (th s t0) = Some n \/ (t0 = t /\ n = nalloc s)).
    { intros t0 n. rewrite Et. unfold upd. destruct (Nat.eqb_spec t0 t) as [->|]; [|auto].
      destruct Ha as [Ha|[Ha|Ha]]; rewrite Ha; [discriminate|auto|]. intros Q; inversion Q. auto. }
    assert (Hfr : forall t0, aseg (th s t0) <> Some (nalloc s)).
    { intros t0 Q. pose proof (a_th s I t0) as T. destruct (th s t0); try discriminate. cbn in Q. inversion Q; subst. cbn [TA] in T. lia. }
    pose proof (a_lt s I) as Hlt.
    destruct I. constructor; rewrite ?E3, ?Hg; try setoid_rewrite Hl; try assumption.
    - lia.
    - intros x Hx. specialize (Hlt x Hx). lia.
    - intros t0. rewrite Et. unfold upd. destruct (Nat.eqb_spec t0 t) as [->|]; [exact Hp|]. eapply TA_stable; eauto.
    - intros t0 t1 n A B. destruct (Has _ _ A) as [A'|[-> ->]]; destruct (Has _ _ B) as [B'|[-> Hn]]; try reflexivity.
      + eapply a_own0; eauto.
      + subst n. exfalso. eapply Hfr; eauto.
      + exfalso. eapply Hfr; eauto.
    - intros t0 n A. destruct (Has _ _ A) as [A'|[-> ->]]; [eapply a_fresh0; eauto|].
      intros Q. specialize (Hlt _ Q). lia.
  Qed.

  Lemma aseg_kpc c : aseg (kpc c) = None.
  Proof. destruct c; reflexivity. Qed.

  Ltac local_step I t E :=
    eapply (InvA_local _ _ t); [exact I | unfold same; sim; repeat split; reflexivity | reflexivity | sim
                               | rewrite E; cbn [aseg]; rewrite ?aseg_kpc; auto; fail ].

  Lemma InvA_step s a s' es : InvA s -> step s a = Some (s', es) -> InvA s'.
  Proof.
    intros I Hst. unfold KfqDefs.step in Hst. destruct a as [t o|t r].
    - destruct (th s t) eqn:E; try discriminate. inversion Hst; subst; clear Hst.
      local_step I t E. exact Logic.I.
    - pose proof (a_th s I t) as Hme.
      destruct (th s t) eqn:E; try discriminate; try (match goal with o : op |- _ => destruct o end);
        cbn [TA] in Hme; brk Hst; inversion Hst; subst; clear Hst.
      all: try (local_step I t E).
      all: try (apply TA_kpc; tauto).
      all: try (cbn [TA TK]; unfold TH, TD, TT in *;
                repeat match goal with H : _ /\ _ |- _ => destruct H end;
                repeat match goal with |- _ /\ _ => split end;
                try exact Logic.I; try assumption; try apply hle_refl; try apply tle_refl;
                try apply (a_tail _ I); try apply (a_head _ I); try apply fidx_lt; try (apply N.mod_lt; lia); try lia; fail).
      + (* Begin push: token allocation *)
        eapply (InvA_upd _ _ t); [exact I|apply mono_intro; unfold hle; sim; [reflexivity|reflexivity|left; reflexivity|right; lia|lia|auto]
                                 |reflexivity|reflexivity|reflexivity|exact Logic.I|rewrite E; cbn; auto|sim..]; try apply I.
      + (* C5: head tag bump *)
        eapply (InvA_upd _ _ t); [exact I|apply mono_intro; unfold hle; sim; [reflexivity|reflexivity|left; reflexivity|right; lia|lia|auto]
                                 |reflexivity|reflexivity|reflexivity|exact Logic.I|rewrite E; cbn; auto|sim..]; apply I.
      + (* A1 *) destruct Hme as (A & B). cbn [TA]. split; [exact A|split; [exact B|]].
        destruct (nxt_cases s (fst tl) I) as [Q|(_ & _ & Q & _)]; [left; exact Q|right; split; [reflexivity|exact Q]].
      + (* A2: segment allocation *)
        destruct Hme as (A & B & C).
        assert (M : mono s (set_th (alloc_seg s) t (A4 c (tail s) nx (nalloc s))))
          by (apply mono_intro; unfold hle; sim; [reflexivity|reflexivity|left; reflexivity|right; lia|lia|auto]).
        eapply (InvA_upd _ _ t); [exact I|exact M|reflexivity|reflexivity|reflexivity| |rewrite E; cbn; auto|sim..]; try apply I.
        cbn [TA]. split; [eapply TT_mono; eauto|]. split; [eapply TK_mono; eauto|]. sim.
        split; [destruct C as [C|[_ C]]; [exact C|contradiction]|]. pose proof (a_lt s I _ (a_tail s I)). lia.
      + (* A2 -> A3 *) destruct Hme as (A & B & [C|[C D]]); [subst nx; cbn in *; congruence|]. cbn [TA]. auto.
      + (* A3: tail_ swings to the linked successor *)
        destruct Hme as (A & B & C & D).
        destruct (nxt_cases s (fst (tail s)) I) as [Q|(L & Hng & Q & Hlt)]; [rewrite <- C in Q; rewrite Q in D; cbn in D; congruence|].
        rewrite <- C in Hlt. pose proof (a_tlast s I) as [Hl|Hl]; [contradiction|]. rewrite <- C in Hl.
        assert (M : mono s (set_th (set_tail s (bump nx)) t (kpc c)))
          by (apply mono_intro; unfold hle; sim; [reflexivity|reflexivity|right; exact Hlt|right; lia|lia|auto]).
        eapply (InvA_upd _ _ t); [exact I|exact M|reflexivity|reflexivity|reflexivity| |rewrite E; cbn; rewrite aseg_kpc; auto|sim..].
        * apply TA_kpc. eapply TK_mono; eauto.
        * apply I.
        * rewrite Hl. apply I.
        * pose proof (a_ht s I). lia.
        * left. exact Hl.
        * intros x Hx. destruct (a_del s I x Hx). split; [assumption|lia].
      + (* A4: link *)
        destruct Hme as ((Lx & Tl) & B & C & D & F). rewrite C. cbn [snd]. replace (0 + 1) with 1 by lia.
        set (x := fst tl) in *.
        assert (Hx : x = glast s).
        { destruct (N.eq_dec x (glast s)) as [Q|Q]; [exact Q|]. destruct (a_succ s I x Lx Q) as (n0 & Q1 & _). rewrite C in Q1. inversion Q1. }
        assert (Htl : tl = tail s).
        { destruct Tl as [Q|Q]; [exact Q|]. pose proof (tail_le_last s I). fold x in Q. lia. }
        assert (Hnl : ~ linked s n) by (apply (a_fresh s I t); rewrite E; reflexivity).
        set (s' := set_th (set_next s x (n, 1)) t (A5 c tl n)).
        assert (Hl : forall y, linked s' y <-> linked s y \/ y = n).
        { intros y. unfold linked, s'. sim. rewrite in_app_iff. cbn. intuition. }
        assert (Hg : glast s' = n) by (unfold glast, s'; sim; apply last_last).
        assert (Hn' : forall y, y <> x -> nxt s' y = nxt s y) by (intros y Hy; unfold s'; sim; apply setf_other; exact Hy).
        assert (Hnx : nxt s' x = (n, 1)) by (unfold s'; sim; apply setf_same).
        assert (Hnx' : n <> x) by (intros ->; contradiction).
        assert (M : mono s s').
        { unfold mono. split; [intros y Hy; apply Hl; left; exact Hy|]. split; [left; reflexivity|]. split; [unfold hle, s'; sim; right; lia|].
          split; [|split; [unfold s'; sim; lia|auto]]. intros y Hy. apply Hn'. intros ->. rewrite C in Hy. apply Hy. reflexivity. }
        pose proof (a_max s I) as Hmax. pose proof (a_lt s I) as Hlt.
        constructor; rewrite ?Hg.
        * apply (a_nalloc s I).
        * intros y Hy. apply Hl in Hy. destruct Hy as [Hy| ->]; [apply (Hlt y Hy)|]. specialize (Hlt x Lx). unfold s'; sim. lia.
        * apply Hl. right. reflexivity.
        * intros y Hy. apply Hl in Hy. destruct Hy as [Hy| ->]; [specialize (Hmax y Hy)|]; lia.
        * rewrite Hn' by exact Hnx'. apply (a_unull s I). exact Hnl.
        * intros y Hy. assert (y <> x) by (intros ->; apply Hy; apply Hl; left; exact Lx).
          rewrite Hn' by assumption. apply (a_unull s I). intros Q. apply Hy. apply Hl. left. exact Q.
        * intros y Hy Hyn. apply Hl in Hy. destruct Hy as [Hy|Hy]; [|contradiction].
          destruct (N.eq_dec y x) as [->|Hyx].
          -- exists n. split; [exact Hnx|]. split; [apply Hl; right; reflexivity|]. split; [lia|].
             intros z Hz Hxz. apply Hl in Hz. destruct Hz as [Hz| ->]; [specialize (Hmax z Hz); lia|lia].
          -- destruct (a_succ s I y Hy ltac:(lia)) as (n0 & Q1 & Q2 & Q3 & Q4). exists n0. rewrite Hn' by exact Hyx.
             split; [exact Q1|]. split; [apply Hl; left; exact Q2|]. split; [exact Q3|].
             intros z Hz Hyz. apply Hl in Hz. destruct Hz as [Hz| ->]; [apply Q4; assumption|]. specialize (Hmax n0 Q2). lia.
        * apply Hl. left. apply (a_head s I).
        * apply Hl. left. apply (a_tail s I).
        * apply (a_ht s I).
        * right. change (fst (nxt s' (fst (tail s))) = n). rewrite <- Htl. fold x. rewrite Hnx. reflexivity.
        * intros y Hy. destruct (a_del s I y Hy) as [Q1 Q2]. split; [apply Hl; left; exact Q1|exact Q2].
        * intros t0. unfold s' at 2. sim. unfold upd. destruct (Nat.eqb_spec t0 t) as [->|Hne]; [|eapply TA_stable; [exact M|apply (a_th s I)]].
          cbn [TA]. split; [eapply TT_mono; [exact M|split; assumption]|]. split; [eapply TK_mono; eauto|]. split; [exact Hnx|].
          specialize (Hlt x Lx). lia.
        * intros t0 t1 n0. unfold s'. sim. unfold upd.
          destruct (Nat.eqb_spec t0 t) as [->|H0]; [cbn; discriminate|]. destruct (Nat.eqb_spec t1 t) as [->|H1]; [cbn; discriminate|].
          apply (a_own s I).
        * intros t0 n0. unfold s' at 1. sim. unfold upd. destruct (Nat.eqb_spec t0 t) as [->|H0]; [cbn; discriminate|].
          intros Q Q'. apply Hl in Q'. destruct Q' as [Q'| ->]; [eapply (a_fresh s I); eauto|].
          apply H0. apply (a_own s I t0 t n Q). rewrite E. reflexivity.
      + (* A5: tail_ swings to the segment just linked *)
        destruct Hme as (A & B & C & D).
        destruct (nxt_cases s (fst (tail s)) I) as [Q|(L & Hng & Q & Hlt)]; [rewrite C in Q; inversion Q; congruence|].
        rewrite C in Hlt. cbn [fst] in Hlt. pose proof (a_tlast s I) as [Hl|Hl]; [contradiction|]. rewrite C in Hl. cbn [fst] in Hl.
        assert (M : mono s (set_th (set_tail s (n, snd (tail s) + 1)) t (kpc c)))
          by (apply mono_intro; unfold hle; sim; [reflexivity|reflexivity|right; exact Hlt|right; lia|lia|auto]).
        eapply (InvA_upd _ _ t); [exact I|exact M|reflexivity|reflexivity|reflexivity| |rewrite E; cbn; rewrite aseg_kpc; auto|sim..].
        * apply TA_kpc. eapply TK_mono; eauto.
        * apply I.
        * rewrite Hl. apply I.
        * pose proof (a_ht s I). lia.
        * left. exact Hl.
        * intros x Hx. destruct (a_del s I x Hx). split; [assumption|lia].
      + (* D3n -> H1 *) destruct Hme as (A & B). cbn [TA]. split; [exact A|split; [exact B|]]. pose proof (hle_tail s hd I B). lia.
      + (* DE -> H1 *) destruct Hme as (A & B & (C1 & C2) & D). cbn [TA]. split; [exact A|split; [exact B|]].
        pose proof (tle_ne s tl C2 ltac:(assumption)). lia.
      + (* H1 -> H2 *) destruct Hme as (A & B & C). cbn [TA]. unfold TH. repeat (split; [assumption|]). split; [reflexivity|].
        apply nxt_nonnull; assumption.
      + (* H6: deleted := true *)
        assert (M : mono s (set_th (set_del s (fst hd)) t (H7 hd hn))).
        { apply mono_intro; unfold hle; sim; [reflexivity|reflexivity|left; reflexivity|right; lia|lia|].
          intros x Hx. unfold setf. destruct (x =? fst hd); auto. }
        pose proof Hme as (A & B & C & D).
        eapply (InvA_upd _ _ t); [exact I|exact M|reflexivity|reflexivity|reflexivity| |rewrite E; cbn; auto|sim..]; try apply I.
        * cbn [TA]. split; [eapply TH_mono; eauto|]. sim. apply setf_same.
        * intros x. unfold setf. destruct (N.eqb_spec x (fst hd)) as [->|]; [intros _; split; assumption|apply (a_del s I)].
      + (* H7: head_ moves to the successor *)
        destruct Hme as ((A & B & C & D & D') & F).
        pose proof (tail_le_last s I) as Htl.
        destruct (a_succ s I (fst (head s)) A ltac:(lia)) as (n & Q & Ln & Hlt & Hmin).
        rewrite Q in D. subst hn. sim.
        assert (M : mono s (set_th (retire (set_head s (n, snd (head s) + 1)) (fst (head s))) t D1))
          by (apply mono_intro; unfold hle; sim; [reflexivity|reflexivity|left; reflexivity|left; exact Hlt|lia|auto]).
        eapply (InvA_upd _ _ t); [exact I|exact M|reflexivity|reflexivity|reflexivity|exact Logic.I|rewrite E; cbn; auto|sim..].
        * exact Ln.
        * apply (a_tail s I).
        * apply Hmin; [apply (a_tail s I)|exact C].
        * apply (a_tlast s I).
        * apply (a_del s I).
  Qed.

  Lemma InvA_init : InvA init.
  Proof.
    constructor; unfold init, glast, linked; cbn [g_segs nalloc nxt head tail del th last fst snd In].
    - lia.
    - intros s [<-|[]]. lia.
    - left. reflexivity.
    - intros s [<-|[]]. lia.
    - reflexivity.
    - reflexivity.
    - intros s [<-|[]] H. congruence.
    - left. reflexivity.
    - left. reflexivity.
    - lia.
    - left. reflexivity.
    - intros s H. discriminate.
    - intros t. exact Logic.I.
    - intros t t' n H. discriminate.
    - intros t n H. discriminate.
  Qed.

  Theorem InvA_reach st : reach init step st -> InvA st.
  Proof. apply inv_rule; [exact InvA_init|]. intros s a s' es. apply InvA_step. Qed.

  (** the program counter of u changes only by u's own actions *)
  Lemma step_th_other u s a s' es : step s a = Some (s', es) ->
    (forall o, a <> Start u o) -> (forall r, a <> Step u r) -> th s' u = th s u.
  Proof.
    intros Hst Hn1 Hn2. unfold KfqDefs.step in Hst. destruct a as [t o|t r].
    - assert (u <> t) by (intros ->; apply (Hn1 o); reflexivity).
      destruct (th s t); try discriminate. inversion Hst; subst. sim. apply upd_other. assumption.
    - assert (u <> t) by (intros ->; apply (Hn2 r); reflexivity).
      destruct (th s t) eqn:E; try discriminate; try (match goal with o : op |- _ => destruct o end);
        brk Hst; inversion Hst; subst; clear Hst; sim; apply upd_other; assumption.
  Qed.

  (** head_ keeps its value or takes a strictly larger one (segment, then tag) *)
  Definition hlt (a b : iw) : Prop := fst a < fst b \/ (fst a = fst b /\ snd a < snd b).
  Lemma step_head s a s' es : InvA s -> step s a = Some (s', es) -> head s' = head s \/ hlt (head s) (head s').
  Proof.
    intros I Hst. unfold KfqDefs.step in Hst. destruct a as [t o|t r].
    - destruct (th s t); try discriminate. inversion Hst; subst. left. reflexivity.
    - pose proof (a_th s I t) as Hme.
      destruct (th s t) eqn:E; try discriminate; try (match goal with o : op |- _ => destruct o end);
        cbn [TA] in Hme; brk Hst; inversion Hst; subst; clear Hst; sim; try (left; reflexivity).
      + right. right. cbn. lia.
      + right. left. cbn [fst]. destruct Hme as ((A & B & C & D & D') & F).
        pose proof (tail_le_last s I). destruct (a_succ s I (fst (head s)) A ltac:(lia)) as (n & Q & _ & Hlt & _).
        rewrite D, Q. cbn. exact Hlt.
  Qed.
  Lemma hle_hlt_ne st hd w : hle st hd -> hlt (head st) w -> hd <> w.
  Proof. unfold hle, hlt. intros A B ->. lia. Qed.
End L1.
