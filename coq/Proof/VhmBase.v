(** vyukov_hash_map bucket model (Model/VhmDefs.v): generic lemmas, step inversion, lock discipline. *)
From Coq Require Import NArith List Bool Lia PeanoNat.
From XV Require Import Base.Word Conc.Lts Conc.Ev gen.BucketStateGen Proof.BucketState Model.VhmDefs.
Import ListNotations.
Local Open Scope N_scope.

Lemma setf_same {X} (f : N -> X) i v : setf f i v i = v.
Proof. unfold setf. rewrite N.eqb_refl. reflexivity. Qed.
Lemma setf_other {X} (f : N -> X) i v j : j <> i -> setf f i v j = f j.
Proof. unfold setf. intros H. destruct (N.eqb_spec j i); [contradiction|reflexivity]. Qed.

(** * the state word as a tuple of fields *)
Definition W (w : N) (l : bool) (c d v : N) : Prop :=
  w < 2 ^ 32 /\ bs_is_locked w = l /\ bs_item_count w = c /\ bs_delete_marker w = d /\ bs_version w = v.

Lemma W_ex w : w < 2 ^ 32 -> W w (bs_is_locked w) (bs_item_count w) (bs_delete_marker w) (bs_version w).
Proof. intros H. repeat split. exact H. Qed.
Lemma W_locked w l c d v : W w l c d v -> W (bs_locked w) true c d v.
Proof.
  intros (H & <- & <- & <- & <-). destruct (bs_locked_spec w H) as (H1 & H2 & H3 & H4 & H5).
  repeat split; assumption.
Qed.
Lemma W_clear w c d v : W w true c d v -> W (bs_clear_lock w) false c d v.
Proof.
  intros (H & Hl & <- & <- & <-). destruct (bs_clear_lock_spec w Hl) as (H2 & H3 & H4 & H5).
  repeat split; try assumption. apply bs_clear_lock_lt; assumption.
Qed.
Lemma W_nv w l c d v : W w l c d v -> W (bs_new_version w) l c d ((v + 1) mod 2 ^ 27).
Proof.
  intros (H & <- & <- & <- & <-). destruct (bs_new_version_spec w H) as (H1 & H2 & H3 & H4 & H5 & _).
  repeat split; assumption.
Qed.
Lemma W_inc w l c d v : W w l c d v -> c < 3 -> W (bs_inc_item_count w) l (c + 1) d v.
Proof.
  intros (H & <- & <- & <- & <-) Hc. destruct (bs_inc_item_count_spec w H Hc) as (H1 & H2 & H3 & H4 & H5).
  repeat split; assumption.
Qed.
Lemma W_dec w l c d v : W w l c d v -> 0 < c -> W (bs_dec_item_count w) l (c - 1) d v.
Proof.
  intros (H & <- & <- & <- & <-) Hc. destruct (bs_dec_item_count_spec w H Hc) as (H1 & H2 & H3 & H4 & H5).
  repeat split; assumption.
Qed.
Lemma W_mark w l c v m : W w l c 0 v -> m < 4 -> W (bs_set_delete_marker w m) l c m v.
Proof.
  intros (H & <- & <- & Hd & <-) Hm. destruct (bs_set_delete_marker_spec w m H Hd Hm) as (H1 & H2 & H3 & H4 & H5).
  repeat split; assumption.
Qed.
Lemma W_fun w l c d v l' c' d' v' : W w l c d v -> W w l' c' d' v' -> l = l' /\ c = c' /\ d = d' /\ v = v'.
Proof. intros (_ & <- & <- & <- & <-) (_ & <- & <- & <- & <-). repeat split. Qed.
Lemma W_eq w w' l c d v : W w l c d v -> W w' l c d v -> w = w'.
Proof.
  intros (H & H1 & H2 & H3 & H4) (H' & H1' & H2' & H3' & H4'). apply bs_eq_fields; try assumption.
  repeat split; congruence.
Qed.

(** * lists: [lookup], [rem], [remx], [from] *)
Lemma lookup_cons k k' v m : lookup k ((k', v) :: m) = if k' =? k then Some v else lookup k m.
Proof. reflexivity. Qed.
Lemma lookup_rem k k' m : lookup k (rem k' m) = if k =? k' then None else lookup k m.
Proof.
  unfold rem. induction m as [|[a b] m IH]; cbn [filter lookup fst].
  - destruct (k =? k'); reflexivity.
  - destruct (N.eqb_spec a k') as [->|Hne]; cbn [negb].
    + rewrite IH. destruct (N.eqb_spec k k') as [->|Hne']; [reflexivity|].
      destruct (N.eqb_spec k' k); [congruence|reflexivity].
    + cbn [lookup]. rewrite IH. destruct (N.eqb_spec a k) as [->|Hne2]; [|reflexivity].
      destruct (N.eqb_spec k k'); [congruence|reflexivity].
Qed.

Lemma in_remx x y l : In y (remx x l) <-> In y l /\ y <> x.
Proof.
  unfold remx. rewrite filter_In. split; intros [H1 H2]; (split; [exact H1|]).
  - intros ->. rewrite N.eqb_refl in H2. discriminate.
  - destruct (N.eqb_spec y x); [contradiction|reflexivity].
Qed.
Lemma remx_notin x l : ~ In x l -> remx x l = l.
Proof.
  induction l as [|a l IH]; intros H; [reflexivity|]. cbn [remx filter].
  destruct (N.eqb_spec a x) as [->|Hne]; [exfalso; apply H; left; reflexivity|].
  cbn [negb]. f_equal. apply IH. intros Hc. apply H. right. exact Hc.
Qed.
Lemma NoDup_remx x l : NoDup l -> NoDup (remx x l).
Proof. intros H. apply NoDup_filter. exact H. Qed.

(** the suffix of [l] that starts at [x] *)
Fixpoint from (x : N) (l : list N) : list N :=
  match l with
  | [] => []
  | y :: r => if y =? x then l else from x r
  end.

Lemma from_sub x l y : In y (from x l) -> In y l.
Proof.
  induction l as [|a l IH]; cbn [from]; [tauto|]. destruct (a =? x); [tauto|]. intros H. right. apply IH. exact H.
Qed.
Lemma from_notin x l : ~ In x l -> from x l = [].
Proof.
  induction l as [|a l IH]; intros H; [reflexivity|]. cbn [from].
  destruct (N.eqb_spec a x) as [->|Hne]; [exfalso; apply H; left; reflexivity|]. apply IH. intros Hc. apply H. right. exact Hc.
Qed.
Lemma from_in x l : In x l -> exists r, from x l = x :: r.
Proof.
  induction l as [|a l IH]; intros H; [destruct H|]. cbn [from].
  destruct (N.eqb_spec a x) as [->|Hne]; [eexists; reflexivity|]. destruct H as [H|H]; [contradiction|]. apply IH. exact H.
Qed.
Lemma from_hd x l : from x (x :: l) = x :: l.
Proof. cbn [from]. rewrite N.eqb_refl. reflexivity. Qed.
Lemma from_cons_ne x y l : y <> x -> from x (y :: l) = from x l.
Proof. intros H. cbn [from]. destruct (N.eqb_spec y x); [contradiction|reflexivity]. Qed.
Lemma from_filter (P : N -> bool) x l : P x = true -> from x (filter P l) = filter P (from x l).
Proof.
  intros HP. induction l as [|a l IH]; [reflexivity|]. cbn [filter from].
  destruct (P a) eqn:Ea.
  - cbn [from]. destruct (N.eqb_spec a x) as [->|Hne]; [cbn [filter]; rewrite Ea; reflexivity | exact IH].
  - destruct (N.eqb_spec a x) as [->|Hne]; [congruence | exact IH].
Qed.
Lemma from_remx x u l : x <> u -> from x (remx u l) = remx u (from x l).
Proof. intros H. apply from_filter. destruct (N.eqb_spec x u); [contradiction|reflexivity]. Qed.

(** [linksto nx c b]: consecutive elements of [c] are linked by [nx], the last one links to [b] *)
Fixpoint linksto (nx : N -> N) (c : list N) (b : N) : Prop :=
  match c with
  | [] => True
  | a :: r => nx a = hd b r /\ linksto nx r b
  end.
Lemma linksto_ext nx nx' c b : (forall x, In x c -> nx' x = nx x) -> linksto nx c b -> linksto nx' c b.
Proof.
  induction c as [|a c IH]; intros He H; cbn [linksto] in *; [exact I|].
  destruct H as [H1 H2]. split.
  - rewrite He; [exact H1 | left; reflexivity].
  - apply IH; [|exact H2]. intros x Hx. apply He. right. exact Hx.
Qed.
(** in a linked duplicate-free list without 0, the successor link of [x] starts the tail of [from x] *)
Lemma from_next nx l x : NoDup l -> ~ In 0 l -> linksto nx l 0 -> In x l -> from (nx x) l = tl (from x l).
Proof.
  induction l as [|a l IH]; intros Hnd H0 HL Hx; [destruct Hx|].
  cbn [linksto] in HL. destruct HL as [Ha HL]. inversion Hnd as [|a' l' Hna Hnd']; subst.
  assert (H0' : ~ In 0 l) by (intros Hc; apply H0; right; exact Hc).
  destruct (N.eq_dec a x) as [->|Hne].
  - rewrite from_hd. cbn [tl]. rewrite Ha. destruct l as [|b l]; cbn [hd].
    + cbn [from]. destruct (N.eqb_spec x 0) as [->|_]; [exfalso; apply H0; left; reflexivity|reflexivity].
    + rewrite from_cons_ne; [apply from_hd|]. intros ->. apply Hna. left. reflexivity.
  - destruct Hx as [Hx|Hx]; [contradiction|]. rewrite (from_cons_ne x a) by exact Hne.
    rewrite from_cons_ne; [apply IH; assumption|].
    intros E. (* nx x = a: impossible, a is not in l, but nx x is in l or 0 *)
    clear IH. revert Hx HL. clear -Hna H0 E. induction l as [|b l IH]; intros Hx HL; [destruct Hx|].
    cbn [linksto] in HL. destruct HL as [Hb HL]. destruct Hx as [->|Hx].
    + rewrite <- E in Hb. destruct l as [|c l]; cbn [hd] in Hb.
      * apply H0. left. exact Hb.
      * apply Hna. right. left. symmetry. exact Hb.
    + apply IH; try assumption.
      * intros Hc. apply H0. destruct Hc as [Hc|Hc]; [left; exact Hc|right; right; exact Hc].
      * intros Hc. apply Hna. right. exact Hc.
Qed.

(** * Lock discipline *)
Definition mark (s i : N) : N := bs_set_delete_marker (bs_locked s) (i + 1).
Definition wf_s (s : N) : Prop :=
  s < 2 ^ 32 /\ bs_is_locked s = false /\ bs_delete_marker s = 0 /\ bs_item_count s <= 3.

(** the word [bucket.state] holds while a thread that owns the bucket lock is at [p] *)
Definition pc_bst (p : pc) : option N :=
  match p with
  | IK _ _ _ s _ | IV _ _ _ s _ | IUold _ _ _ s _ | ISK _ _ _ s | ISV _ _ _ s | IUnew _ _ _ s | IH _ _ _ s
  | IXK _ _ _ s _ | IXV _ _ _ s _ | IXN _ _ _ s _ | Grow s
  | A1 _ _ _ s _ | A2 _ _ _ s _ | A3 _ _ _ s _ | A4 _ _ _ s _ | A4u _ _ _ s _ | A5 _ _ _ s _ | A6 _ _ _ s _ _ | A7 _ _ _ s _
  | IXSK _ _ _ s _ | IXSV _ _ _ s _ | IXH _ _ _ s _ | IXSN _ _ _ s _ _ | IXSH _ _ _ s _ | IUnew2 _ _ _ s
  | XK _ _ s _ | XV _ _ s _ | XH _ _ s _ _ | XA1 _ _ s _ _ _ | XB1 _ _ s _ _ | XHH _ _ s
  | XXK _ _ s _ _ | XXV _ _ s _ _ | XXN _ _ s _ _ _ | XXP _ _ s _ _ _ _ | XXU _ _ s _ _ | XXM _ _ s _ | XU _ _ s =>
    Some (bs_locked s)
  | XA2 _ _ s i _ _ | XA3 _ _ s i _ _ _ | XA4 _ _ s i _ _ _ _ | XA5 _ _ s i _ _ _ | XA6 _ _ s i _ _
  | XB2 _ _ s i _ | XB3 _ _ s i _ _ | XB4 _ _ s i _ _ _ | XB5 _ _ s i _ _ => Some (mark s i)
  | XB6 _ _ s i _ => Some (if i =? bs_item_count s - 1 then bs_locked s else mark s i)
  | XA7 _ _ s _ _ _ | XA8 _ _ s _ _ _ _ | XA9 _ _ s _ _ => Some (bs_new_version (bs_locked s))
  | _ => None
  end.

(** local facts about the state word [s] a thread has read, and its array index *)
Definition pc_wf (p : pc) : Prop :=
  match p with
  | L3 _ _ _ s => bs_is_locked s = false
  | X3 _ _ s => bs_is_locked s = false /\ bs_item_count s <> 0
  | IK _ _ _ s i | IV _ _ _ s i => wf_s s /\ i < bs_item_count s
  | IUold _ _ _ s _ => wf_s s
  | ISK _ _ _ s | ISV _ _ _ s | IUnew _ _ _ s => wf_s s /\ bs_item_count s < 3
  | IH _ _ _ s | IXK _ _ _ s _ | IXV _ _ _ s _ | IXN _ _ _ s _ | Grow s
  | A1 _ _ _ s _ | A2 _ _ _ s _ | A3 _ _ _ s _ | A4 _ _ _ s _ | A4u _ _ _ s _ | A5 _ _ _ s _ | A6 _ _ _ s _ _ | A7 _ _ _ s _
  | IXSK _ _ _ s _ | IXSV _ _ _ s _ | IXH _ _ _ s _ | IXSN _ _ _ s _ _ | IXSH _ _ _ s _ | IUnew2 _ _ _ s =>
    wf_s s /\ bs_item_count s = 3
  | XK _ _ s i | XV _ _ s i | XH _ _ s i _ | XA1 _ _ s i _ _ | XA2 _ _ s i _ _ | XA3 _ _ s i _ _ _ | XA4 _ _ s i _ _ _ _
  | XA5 _ _ s i _ _ _ | XA6 _ _ s i _ _ | XA7 _ _ s i _ _ | XA8 _ _ s i _ _ _ | XB6 _ _ s i _ =>
    wf_s s /\ i < bs_item_count s
  | XB1 _ _ s i _ | XB2 _ _ s i _ | XB3 _ _ s i _ _ | XB4 _ _ s i _ _ _ | XB5 _ _ s i _ _ =>
    wf_s s /\ i < bs_item_count s /\ i <> bs_item_count s - 1
  | XA9 _ _ s _ _ | XHH _ _ s | XXK _ _ s _ _ | XXV _ _ s _ _ | XXN _ _ s _ _ _ | XXP _ _ s _ _ _ _ | XXU _ _ s _ _
  | XXM _ _ s _ | XU _ _ s => wf_s s /\ bs_item_count s <> 0
  | _ => True
  end.

Definition xlocked_pc (p : pc) : bool :=
  match p with
  | A4 _ _ _ _ _ | A4u _ _ _ _ _ | A5 _ _ _ _ _ | A6 _ _ _ _ _ _ | A7 _ _ _ _ _
  | F3 _ _ _ _ | F4 _ _ _ _ _ | F5 _ _ _ _ | F6 _ _ _ _ => true
  | _ => false
  end.

Record Lk (st : state) : Prop := mkLk {
  Lk_lt : bst st < 2 ^ 32;
  Lk_ic : bs_item_count (bst st) <= 3;
  Lk_ver : bs_version (bst st) = g_nver st mod 2 ^ 27;
  Lk_bit : bs_is_locked (bst st) = match g_owner st with Some _ => true | None => false end;
  Lk_mk : g_owner st = None -> bs_delete_marker (bst st) = 0;
  Lk_own : forall t, pc_bst (th st t) <> None -> g_owner st = Some t;
  Lk_pc : forall t, g_owner st = Some t -> pc_bst (th st t) = Some (bst st);
  Lk_wf : forall t, pc_wf (th st t);
  Lk_xbit : xlock st = match g_xowner st with Some _ => 1 | None => 0 end;
  Lk_xown : forall t, xlocked_pc (th st t) = true -> g_xowner st = Some t;
  Lk_xpc : forall t, g_xowner st = Some t -> xlocked_pc (th st t) = true
}.

(** * Step inversion *)
Ltac step_inv H :=
  match type of H with
  | step _ ?st ?a = Some _ =>
    destruct a as [?t ?o | ?t]; cbn [step] in H; unfold g_next_slot in H;
    match type of H with
    | context [th st ?t] => destruct (th st t) eqn:?Epc; try discriminate H
    end;
    repeat match type of H with
    | (if ?c then _ else _) = Some _ => destruct c eqn:?Ec
    | (match ?o with _ => _ end) = Some _ => destruct o
    end;
    repeat match type of H with
    | context [if ?c then _ else _] => destruct c eqn:?Ei
    end;
    inversion H; subst; clear H
  end.

Ltac st_simpl :=
  cbn [bst bhead akey aval xkey xval xnext xlock xhead th g_map g_owner g_xowner g_nver g_chain g_free g_dup g_limbo
       g_lp g_rv g_obs g_hist
       s_bst s_bhead s_akey s_aval s_xkey s_xval s_xnext s_xlock s_xhead s_th s_g_map s_g_owner s_g_xowner s_g_nver
       s_g_chain s_g_free s_g_dup s_g_limbo s_g_lp s_g_rv s_g_obs s_g_hist go obs lp ret bump] in *.

Lemma wf_W s : wf_s s -> W s false (bs_item_count s) 0 (bs_version s).
Proof. intros (H1 & H2 & H3 & H4). repeat split; assumption. Qed.

Lemma upd_cases {X} (f : nat -> X) t p t' : (t' = t /\ upd f t p t' = p) \/ (t' <> t /\ upd f t p t' = f t').
Proof.
  destruct (Nat.eq_dec t' t) as [->|Hne]; [left; split; [reflexivity|apply upd_same] | right; split; [exact Hne|apply upd_other; exact Hne]].
Qed.

Lemma mod27_succ a : (a mod 2 ^ 27 + 1) mod 2 ^ 27 = (a + 1) mod 2 ^ 27.
Proof. rewrite N.add_mod_idemp_l; [reflexivity|]. rewrite pow2_27. discriminate. Qed.

(** pose the field tuples of all the words the code builds from [s] *)
Ltac Wall :=
  match goal with Hs : W _ false _ 0 _ |- _ =>
  let HWl := fresh "HWl" in let HWn := fresh "HWn" in let HWnn := fresh "HWnn" in let HWc := fresh "HWc" in
  let HWv := fresh "HWv" in
  pose proof (W_locked _ _ _ _ _ Hs) as HWl;
  pose proof (W_nv _ _ _ _ _ HWl) as HWn;
  pose proof (W_nv _ _ _ _ _ HWn) as HWnn;
  pose proof (W_clear _ _ _ _ HWnn) as HWc;
  pose proof (W_nv _ _ _ _ _ Hs) as HWv;
  try (let HWd := fresh "HWd" in assert (HWd := W_dec _ _ _ _ _ HWv ltac:(lia)));
  try (let HWi := fresh "HWi" in assert (HWi := W_inc _ _ _ _ _ Hs ltac:(lia))) end.

Ltac b2p :=
  repeat match goal with
  | H : (_ =? _) = true |- _ => apply N.eqb_eq in H
  | H : (_ =? _) = false |- _ => apply N.eqb_neq in H
  | H : (_ <? _) = true |- _ => apply N.ltb_lt in H
  | H : (_ <? _) = false |- _ => apply N.ltb_ge in H
  | H : negb _ = true |- _ => apply negb_true_iff in H
  | H : negb _ = false |- _ => apply negb_false_iff in H
  end.

Lemma C_bic : C_bucket_item_count = 3.
Proof. reflexivity. Qed.

Ltac st_simpl_goal :=
  cbn [bst bhead akey aval xkey xval xnext xlock xhead th g_map g_owner g_xowner g_nver g_chain g_free g_dup g_limbo
       g_lp g_rv g_obs g_hist
       s_bst s_bhead s_akey s_aval s_xkey s_xval s_xnext s_xlock s_xhead s_th s_g_map s_g_owner s_g_xowner s_g_nver
       s_g_chain s_g_free s_g_dup s_g_limbo s_g_lp s_g_rv s_g_obs s_g_hist go obs lp ret bump].

Section VhmBase.
  Variable xoff : N.
  Notation step := (step xoff).

  Lemma Lk_init : Lk init.
  Proof.
    constructor; cbn; try (intros; discriminate); try reflexivity; try lia; try (intros; congruence).
  Qed.

  Ltac prep HI t Epc :=
    pose proof (Lk_wf _ HI t) as Hwf; rewrite Epc in Hwf; cbn [pc_wf] in Hwf;
    try (assert (Hown : g_owner _ = Some t) by (apply (Lk_own _ HI); rewrite Epc; discriminate);
         pose proof (Lk_pc _ HI t Hown) as Hbst; rewrite Epc in Hbst; cbn [pc_bst] in Hbst; injection Hbst as Hbst).

  Lemma Lk_step_word st a st' es : Lk st -> step st a = Some (st', es) ->
    bst st' < 2 ^ 32 /\ bs_item_count (bst st') <= 3 /\ bs_version (bst st') = g_nver st' mod 2 ^ 27 /\
    bs_is_locked (bst st') = match g_owner st' with Some _ => true | None => false end /\
    (g_owner st' = None -> bs_delete_marker (bst st') = 0).
  Proof.
    intros HI H. step_inv H; st_simpl.
    all: try (split; [exact (Lk_lt _ HI)| split; [exact (Lk_ic _ HI)| split; [exact (Lk_ver _ HI) | split; [exact (Lk_bit _ HI) | exact (Lk_mk _ HI)]]]]).
    all: prep HI t Epc.
    all: pose proof (Lk_lt _ HI) as Hlt; pose proof (Lk_ic _ HI) as Hic; pose proof (Lk_ver _ HI) as Hver;
         pose proof (Lk_bit _ HI) as Hbit; pose proof (Lk_mk _ HI) as Hmk.
    all: try (apply N.eqb_eq in Ec; subst s;
              assert (Ho : g_owner st = None) by (destruct (g_owner st); [intuition congruence|reflexivity]); specialize (Hmk Ho);
              assert (Hs : W (bst st) false (bs_item_count (bst st)) 0 (bs_version (bst st))) by (unfold W; intuition)).
    all: try (rewrite Hown in *; clear Hmk).
    all: try (assert (Hs : W s false (bs_item_count s) 0 (bs_version s)) by (apply wf_W; tauto)).
    all: Wall.
    all: unfold wf_s in *; repeat match goal with H : _ /\ _ |- _ => destruct H end.
    all: try match goal with Hi : ?i < bs_item_count ?s |- _ =>
           assert (HWm := W_mark _ _ _ _ (i + 1) HWl ltac:(unfold wf_s in *; lia)) end.
    all: try (unfold mark in Hbst; repeat match goal with E : ?c = _ |- _ => match type of Hbst with context [if c then _ else _] => rewrite E in Hbst end end; rewrite <- Hbst in * ).
    all: unfold wf_s in *.
    all: repeat match goal with H : W _ _ _ _ _ |- _ => destruct H as (? & ? & ? & ? & ?) end.
    all: try rewrite <- mod27_succ.
    all: repeat split; intros; try congruence; try lia.
  Qed.

  Lemma Lk_step_wf st a st' es : Lk st -> step st a = Some (st', es) -> forall t', pc_wf (th st' t').
  Proof.
    intros HI H. step_inv H; st_simpl.
    all: intros t'; match goal with |- pc_wf (upd ?f ?t ?p t') => destruct (upd_cases f t p t') as [[-> E]|[Hne E]]; rewrite E; clear E end.
    all: try exact (Lk_wf _ HI t').
    all: try exact I.
    all: prep HI t Epc.
    all: pose proof (Lk_lt _ HI) as Hlt; pose proof (Lk_ic _ HI) as Hic; pose proof (Lk_bit _ HI) as Hbit; pose proof (Lk_mk _ HI) as Hmk.
    all: b2p; rewrite ?C_bic in *.
    all: cbn [pc_wf]; unfold wf_s in *.
    all: try (subst s; assert (Ho : g_owner st = None) by (destruct (g_owner st); [intuition congruence|reflexivity]); specialize (Hmk Ho)).
    all: try (intuition lia).
  Qed.

  Ltac split_t' t' :=
    intros t'; match goal with |- context [upd ?f ?t ?p t'] => destruct (upd_cases f t p t') as [[-> E]|[Hne E]]; rewrite E; clear E end.

  Lemma Lk_step_own st a st' es : Lk st -> step st a = Some (st', es) ->
    forall t', pc_bst (th st' t') <> None -> g_owner st' = Some t'.
  Proof.
    intros HI H. step_inv H; st_simpl.
    all: split_t' t'.
    all: try exact (Lk_own _ HI t').
    all: cbn [pc_bst]; try (intros Hc; exfalso; apply Hc; reflexivity).
    all: try (intros _; reflexivity).
    all: try (intros _; apply (Lk_own _ HI); rewrite Epc; discriminate).
    all: intros Hc; pose proof (Lk_own _ HI t' Hc) as Ho'.
    all: prep HI t Epc; try congruence.
    all: pose proof (Lk_bit _ HI) as Hbit; rewrite Ho' in Hbit; b2p; subst; try intuition congruence.
  Qed.

  Lemma Lk_step_pc st a st' es : Lk st -> step st a = Some (st', es) ->
    forall t', g_owner st' = Some t' -> pc_bst (th st' t') = Some (bst st').
  Proof.
    intros HI H. step_inv H; st_simpl.
    all: split_t' t'.
    all: try exact (Lk_pc _ HI t').
    all: try discriminate.
    all: try (intros _; reflexivity).
    all: try (intros Ho; injection Ho as Ho; congruence).
    all: try (intros Ho; pose proof (Lk_pc _ HI t Ho) as Hb; rewrite Epc in Hb; cbn [pc_bst] in *; first [discriminate Hb | exact Hb]).
    all: prep HI t Epc.
    all: try (intros Ho; congruence).
    all: intros _; cbn [pc_bst]; unfold mark in *; b2p.
    all: try (rewrite <- Hbst; destruct (N.eqb_spec i (bs_item_count s - 1)); [reflexivity|tauto]).
    all: try (rewrite <- Hbst; destruct (N.eqb_spec i (bs_item_count s - 1)); [tauto|reflexivity]).
  Qed.

  Lemma Lk_step_x st a st' es : Lk st -> step st a = Some (st', es) ->
    xlock st' = match g_xowner st' with Some _ => 1 | None => 0 end /\
    (forall t', xlocked_pc (th st' t') = true -> g_xowner st' = Some t') /\
    (forall t', g_xowner st' = Some t' -> xlocked_pc (th st' t') = true).
  Proof.
    intros HI H. step_inv H; st_simpl.
    all: (split; [first [exact (Lk_xbit _ HI) | reflexivity] | split]); split_t' t'.
    all: try exact (Lk_xown _ HI t'); try exact (Lk_xpc _ HI t').
    all: cbn [xlocked_pc]; try discriminate; try (intros _; reflexivity).
    all: try (intros Ho; injection Ho as Ho; congruence).
    all: try (intros _; apply (Lk_xown _ HI); rewrite Epc; reflexivity).
    all: try (intros Ho; pose proof (Lk_xpc _ HI t Ho) as Hb; rewrite Epc in Hb; cbn [xlocked_pc] in Hb; discriminate Hb).
    all: try (intros Hc; pose proof (Lk_xown _ HI t' Hc) as Ho'; pose proof (Lk_xbit _ HI) as Hb; rewrite Ho' in Hb; b2p; congruence).
    all: try (intros Hc; pose proof (Lk_xown _ HI t' Hc) as Ho';
              assert (Hx : g_xowner st = Some t) by (apply (Lk_xown _ HI); rewrite Epc; reflexivity); congruence).
    all: try (intros Ho; assert (Hx : g_xowner st = Some t) by (apply (Lk_xown _ HI); rewrite Epc; reflexivity); congruence).
  Qed.

  Lemma Lk_step st a st' es : Lk st -> step st a = Some (st', es) -> Lk st'.
  Proof.
    intros HI H. destruct (Lk_step_word _ _ _ _ HI H) as (H1 & H2 & H3 & H4 & H5).
    destruct (Lk_step_x _ _ _ _ HI H) as (H6 & H7 & H8).
    constructor; try assumption.
    - exact (Lk_step_own _ _ _ _ HI H).
    - exact (Lk_step_pc _ _ _ _ HI H).
    - exact (Lk_step_wf _ _ _ _ HI H).
  Qed.

  Theorem Lk_reach st : reach init step st -> Lk st.
  Proof. apply inv_rule; [exact Lk_init | intros s a s' es; apply Lk_step]. Qed.

  (** at most one thread is at a program point between the lock acquisition and the unlocking store *)
  Theorem vhm_mutex st t t' : reach init step st ->
    pc_bst (th st t) <> None -> pc_bst (th st t') <> None -> t = t'.
  Proof.
    intros Hr H1 H2. pose proof (Lk_reach _ Hr) as HI.
    pose proof (Lk_own _ HI t H1). pose proof (Lk_own _ HI t' H2). congruence.
  Qed.
End VhmBase.
