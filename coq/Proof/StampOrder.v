(** The order of the stamps in the stamp_it model (Model/StampDefs.v):  [Q0]  head->prev is never marked and every update
    of it advances its version tag, so a push whose compare-and-swap on head->prev succeeds has seen head->prev
    unchanged since it read it; therefore blocks are linked behind head in strictly increasing order of their stamps
    ([g_max] = the stamp of the block linked last, [link_order]), the stamp of every linked block is at most [g_max] and
    below head->stamp, and different linked blocks have different stamps.  Holds in every reachable state ([Q0_reach]).
    No axioms. *)
From Coq Require Import NArith List Bool Arith Lia PeanoNat ZArith ZifyBool ZifyNat ZifyN.
From XV Require Import Conc.Lts Conc.Ev Model.StampDefs Proof.StampBase Proof.StampStamps.
Import ListNotations.
Local Open Scope N_scope.

Definition hp_of (p : pc) : option mp :=
  match p with P4 _ hp | P5 _ hp | P6 _ hp _ | P7 _ hp _ | P8 _ hp _ | P9 _ hp _ _ | P10 _ hp _ _ => Some hp | _ => None end.
Definition pend_of (p : pc) : option (mp * N) :=
  match p with P6 _ hp s | P7 _ hp s | P8 _ hp s | P9 _ hp s _ | P10 _ hp s _ => Some (hp, s) | _ => None end.

Record Q0 (s : state) : Prop := {
  q_hm : marked (qprev s THead) = false;
  q_tag : forall u hp, hp_of (th s u) = Some hp -> snd hp <= snd (qprev s THead) /\ (snd hp = snd (qprev s THead) -> hp = qprev s THead);
  q_gm : g_max s mod 4 = 0 /\ g_max s + 4 <= qstamp s THead;
  q_vp : forall u hp v, pend_of (th s u) = Some (hp, v) -> hp = qprev s THead -> g_max s < v;
  q_lk : forall b, g_lk s b = true -> cst (qstamp s (TB b)) <= g_max s /\ b < nalloc s;
  q_dist : forall b b', b <> b' -> g_lk s b = true -> g_lk s b' = true -> cst (qstamp s (TB b)) <> cst (qstamp s (TB b')) }.

Lemma Q0_init nc : Q0 (init nc).
Proof. constructor; cbn; intros; try discriminate; try reflexivity. split; [reflexivity|unfold StampInc; lia]. Qed.

Lemma marked_false_even (a : mp) : marked a = false -> N.odd (snd a) = false.
Proof. intros H. exact H. Qed.

(** what one step does to head->prev and to the linking ghosts *)
Lemma step_owrites ns s t s' es : step ns s (Step t) = Some (s', es) ->
  (marked (qprev s' THead) = marked (qprev s THead) /\
   (qprev s' THead = qprev s THead \/ snd (qprev s THead) < snd (qprev s' THead))) /\
  ((g_max s' = g_max s /\ g_lk s' = g_lk s /\ (forall k hp v, th s t <> P6 k hp v) /\
      (qprev s' THead = qprev s THead \/ forall k hp v my, th s t <> P10 k hp v my)) \/
   (exists k hp v b, th s t = P6 k hp v /\ cb (tl s t) = Some b /\ g_max s' = g_max s /\ g_lk s' = updN (g_lk s) b false /\
      qprev s' THead = qprev s THead) \/
   (exists k hp v my b, th s t = P10 k hp v my /\ cb (tl s t) = Some b /\ qprev s THead = hp /\ g_max s' = v /\
      g_lk s' = updN (g_lk s) b true /\ snd (qprev s THead) < snd (qprev s' THead) /\ qstamp s' = qstamp s)).
Proof.
  intros H. unfold_step H. cbv zeta in H. step_split H.
  all: bool_eqs; mp_eqs; prj.
  all: split; [|try solve [left; split; [reflexivity|split; [reflexivity|split; [intros; discriminate|first [left; reflexivity | right; intros; discriminate]]]]]].
  all: try solve [split; [reflexivity|left; reflexivity]].
  all: try solve [match goal with |- context [updT ?f ?i ?v THead] => destruct (updT_cases f i v THead) as [[Hx ->]|[Hx ->]] end;
                  [|split; [reflexivity|left; reflexivity]];
                  try discriminate Hx; subst;
                  split; [rewrite marked_mk; congruence|right; unfold mk_marked; cbn [snd]; match goal with E : qprev _ THead = _ |- _ => rewrite E end; lia]].
  (* head->prev itself *)
  all: try solve [rewrite updT_same; split; [rewrite marked_mk; congruence|right; unfold mk_marked; cbn [snd]; match goal with E : qprev _ THead = _ |- _ => rewrite E end; lia]].
  (* P6 *)
  all: try solve [right; left; do 4 eexists; split; [reflexivity|]; split; [first [eassumption|reflexivity]|]; repeat split; reflexivity].
  (* P10 *)
  all: try solve [right; right; do 5 eexists; split; [reflexivity|]; split; [first [eassumption|reflexivity]|]; split; [first [assumption|congruence]|]; split; [reflexivity|]; split; [reflexivity|]; split; [|reflexivity];
    rewrite updT_same; unfold mk_marked; cbn [snd]; match goal with E : qprev _ THead = _ |- _ => rewrite E end; lia].
Qed.

(** the pusher itself *)
Lemma Q0_self ns s t s' es : Q0 s -> step ns s (Step t) = Some (s', es) ->
  (forall hp, hp_of (th s' t) = Some hp -> snd hp <= snd (qprev s' THead) /\ (snd hp = snd (qprev s' THead) -> hp = qprev s' THead)) /\
  (forall hp v, pend_of (th s' t) = Some (hp, v) -> hp = qprev s' THead -> g_max s' < v).
Proof.
  intros I H. pose proof (q_tag s I t) as Tg. pose proof (q_vp s I t) as Vp. destruct (q_gm s I) as [_ Gm].
  unfold_step H. cbv zeta in H. step_split H.
  all: bool_eqs; mp_eqs; prj; rewrite ?upd_same.
  all: try match goal with E : th _ _ = _ |- _ => rewrite E in Tg, Vp end; cbn [hp_of pend_of] in Tg, Vp.
  all: rmn; cbn [hp_of pend_of].
  all: split; [intros hp0 Hh|intros hp0 v0 Hh Hv]; try discriminate Hh.
  all: try (inversion Hh; subst; clear Hh).
  all: try solve [split; [lia|reflexivity]].
  all: try solve [apply (Tg _ eq_refl)].
  all: try solve [eapply Vp; [reflexivity|assumption]].
  all: try solve [eapply Vp; reflexivity].
  all: try solve [unfold StampInc in *; lia].
Qed.

Lemma head_stamp_mono ns s t s' es : tshape ns (th s t) (tl s t) -> S0 s -> step ns s (Step t) = Some (s', es) ->
  qstamp s THead <= qstamp s' THead.
Proof.
  intros T I H. destruct (step_qwrites ns s t s' es T H) as (WA & _).
  pose proof (s_pc s I t) as Ipct. destruct (s_h s I) as [Ih1 _].
  destruct (WA THead) as [E|[[(b & _ & X) _]|[[X _]|[(_ & E & _)|[(f & Ef & E1 & E2)|(X & _)]]]]]; try discriminate X.
  - rewrite E. lia.
  - rewrite E. lia.
  - exfalso. rewrite Ef in Ipct. sfn_in Ipct. rewrite E1 in Ih1. eapply pending_not_m4; eauto.
Qed.

(** the stamp of a linked block keeps its value *)
Lemma cst_keep ns s t s' es b : T0 ns s -> O0 s -> S0 s -> Q0 s -> step ns s (Step t) = Some (s', es) ->
  g_lk s b = true -> g_lk s' b = true -> cst (qstamp s' (TB b)) = cst (qstamp s (TB b)).
Proof.
  intros T O S Q H Hl Hl'.
  destruct (step_qwrites ns s t s' es (T t) H) as (WA & _).
  destruct (step_owrites _ _ _ _ _ H) as (_ & OW).
  destruct (WA (TB b)) as [E|[[(b0 & Hb0 & X) Hk]|[[X E]|[(X & _)|[(f & Ef & E1 & E2)|(X & _)]]]]]; try discriminate X.
  - rewrite E. reflexivity.
  - injection X as <-.
    destruct Hk as [(k & hp & v & Ef & E)|[(k & v & my & Ef & E)|(f & Ef & E)]].
    + exfalso. destruct OW as [(_ & _ & N6 & _)|[(k' & hp' & v' & b' & Ef' & Hb' & _ & El & _)|(k' & hp' & v' & my' & b' & Ef' & _)]].
      * eapply N6; eauto.
      * rewrite El in Hl'. assert (b' = b) by congruence. subst b'. rewrite updN_same in Hl'. discriminate.
      * congruence.
    + destruct (s_own s S t b Hb0) as (F1 & _). rewrite Ef in F1. sfn_in F1.
      pose proof (s_pc s S t) as P. rewrite Ef in P. sfn_in P. destruct P as (P1 & _). rewrite E, F1. apply (cst_m4 v P1).
    + destruct (s_own s S t b Hb0) as (F1 & _). rewrite Ef in F1. sfn_in F1. destruct F1 as [F1 F1'].
      rewrite E, <- F1. destruct (cst_m4 _ F1') as (C0 & C1 & _). rewrite C1, C0. reflexivity.
  - exfalso. unfold fresh_blk in X. injection X as ->. destruct (q_lk s Q _ Hl) as [_ L]. lia.
  - pose proof (s_pc s S t) as P. rewrite Ef in P. sfn_in P. rewrite E2, <- E1. apply cst_pending. rewrite E1. exact P.
Qed.

Lemma Q0_step ns s t s' es : T0 ns s -> O0 s -> S0 s -> Q0 s -> step ns s (Step t) = Some (s', es) -> Q0 s'.
Proof.
  intros T O S Q H.
  destruct (Q0_self _ _ _ _ _ Q H) as (St & Sv).
  destruct (step_owrites _ _ _ _ _ H) as ((Hm & Htg) & OW).
  destruct (step_frame _ _ _ _ _ H) as (Fth & _ & _ & Hna).
  pose proof (head_stamp_mono _ _ _ _ _ (T t) S H) as HH.
  destruct (q_gm s Q) as [Gm1 Gm2].
  assert (Htag : forall u hp, u <> t -> hp_of (th s u) = Some hp ->
            snd hp <= snd (qprev s' THead) /\ (snd hp = snd (qprev s' THead) -> hp = qprev s' THead /\ qprev s' THead = qprev s THead)).
  { intros u hp Hne Hh. destruct (q_tag s Q u hp Hh) as [A B]. destruct Htg as [E|E].
    - rewrite E. split; [exact A|]. intros X. split; [apply B; exact X|reflexivity].
    - split; [lia|]. intros X. lia. }
  assert (Hcase : (g_max s' = g_max s /\ (forall b, g_lk s' b = true -> g_lk s b = true)) \/
                  (exists k hp v my b, th s t = P10 k hp v my /\ cb (tl s t) = Some b /\ qprev s THead = hp /\ g_max s' = v /\
                     g_lk s' = updN (g_lk s) b true /\ snd (qprev s THead) < snd (qprev s' THead) /\ qstamp s' = qstamp s)).
  { destruct OW as [(E1 & E2 & _)|[(k & hp & v & b & _ & _ & E1 & E2 & _)|X]]; [left|left|right; exact X].
    - split; [exact E1|]. intros b Hb. rewrite E2 in Hb. exact Hb.
    - split; [exact E1|]. intros b0 Hb. rewrite E2 in Hb. destruct (updN_cases (g_lk s) b false b0) as [[-> X]|[_ X]]; rewrite X in Hb; [discriminate|exact Hb]. }
  (* in the linking step: the new stamp is above everything linked so far *)
  assert (Hlink : forall k hp v my b, th s t = P10 k hp v my -> cb (tl s t) = Some b -> qprev s THead = hp ->
            g_max s < v /\ cst (qstamp s (TB b)) = v /\ b < nalloc s).
  { intros k hp v my b Ef Hcb Ehp. split; [|split].
    - eapply (q_vp s Q t); [rewrite Ef; reflexivity|congruence].
    - destruct (s_own s S t b Hcb) as (F1 & _). rewrite Ef in F1. exact F1.
    - destruct (o_own s O t b Hcb) as [X _]. apply (o_rev s O) in X. apply X. }
  constructor.
  - rewrite Hm. apply (q_hm s Q).
  - intros u hp Hh. destruct (Nat.eq_dec u t) as [->|Hne]; [apply St; exact Hh|].
    destruct (Fth u Hne) as [Eth _]. rewrite Eth in Hh. destruct (Htag u hp Hne Hh) as [A B]. split; [exact A|]. intros X. apply B. exact X.
  - destruct Hcase as [[E _]|(k & hp & v & my & b & Ef & _ & _ & E & _)].
    + rewrite E. split; [exact Gm1|lia].
    + pose proof (s_pc s S t) as P. rewrite Ef in P. sfn_in P. rewrite E. split; [apply P|lia].
  - intros u hp v Hp Hv. destruct (Nat.eq_dec u t) as [->|Hne]; [eapply Sv; eauto|].
    destruct (Fth u Hne) as [Eth _]. rewrite Eth in Hp.
    assert (Hh : hp_of (th s u) = Some hp) by (destruct (th s u); cbn in *; try discriminate; inversion Hp; reflexivity).
    destruct (Htag u hp Hne Hh) as [_ B]. rewrite Hv in B. destruct (B eq_refl) as [_ Eq].
    assert (Hv0 : hp = qprev s THead) by congruence.
    pose proof (q_vp s Q u hp v Hp Hv0) as L.
    destruct Hcase as [[E _]|(k & hp' & v' & my & b & _ & _ & _ & _ & _ & Lt & _)]; [rewrite E; exact L|].
    rewrite Eq in Lt. lia.
  - intros b Hb. destruct Hcase as [[E Hl]|(k & hp & v & my & b0 & Ef & Hcb & Ehp & E & El & _ & Eq)].
    + pose proof (Hl b Hb) as Hb0. destruct (q_lk s Q b Hb0) as [A B].
      rewrite (cst_keep _ _ _ _ _ b T O S Q H Hb0 Hb), E. split; [exact A|lia].
    + destruct (Hlink _ _ _ _ _ Ef Hcb Ehp) as (L1 & L2 & L3). rewrite El in Hb. rewrite E, Eq.
      destruct (updN_cases (g_lk s) b0 true b) as [[-> X]|[_ X]]; rewrite X in Hb.
      * rewrite L2. split; lia.
      * destruct (q_lk s Q b Hb) as [A B]. split; lia.
  - intros b b' Hne Hb Hb'. destruct Hcase as [[E Hl]|(k & hp & v & my & b0 & Ef & Hcb & Ehp & E & El & _ & Eq)].
    + pose proof (Hl b Hb) as Hb0. pose proof (Hl b' Hb') as Hb0'.
      rewrite (cst_keep _ _ _ _ _ b T O S Q H Hb0 Hb), (cst_keep _ _ _ _ _ b' T O S Q H Hb0' Hb'). apply (q_dist s Q); assumption.
    + destruct (Hlink _ _ _ _ _ Ef Hcb Ehp) as (L1 & L2 & L3). rewrite El in Hb, Hb'. rewrite Eq.
      destruct (updN_cases (g_lk s) b0 true b) as [[-> X]|[N1 X]]; rewrite X in Hb;
      destruct (updN_cases (g_lk s) b0 true b') as [[-> X']|[N2 X']]; rewrite X' in Hb'.
      * congruence.
      * destruct (q_lk s Q b' Hb') as [A _]. lia.
      * destruct (q_lk s Q b Hb) as [A _]. lia.
      * apply (q_dist s Q); assumption.
Qed.

Lemma Q0_start ns s t o s' es : Q0 s -> step ns s (Start t o) = Some (s', es) -> Q0 s'.
Proof.
  intros I H. destruct (start_effect _ _ _ _ _ _ H) as (Eid & Es & Ep & Er & Fo & Ecb & Hc).
  assert (Eg : g_max s' = g_max s /\ g_lk s' = g_lk s /\ nalloc s' = nalloc s).
  { unfold step, step_gen in H. step_split H; prj; repeat split; reflexivity. }
  destruct Eg as (Eg1 & Eg2 & Eg3).
  assert (Hnp : hp_of (th s' t) = None /\ pend_of (th s' t) = None).
  { destruct Hc as [[-> _]|[[-> _]|(fr & -> & _)]]; split; reflexivity. }
  destruct I as [Ihm Itag Igm Ivp Ilk Idist].
  constructor; rewrite ?Es, ?Ep, ?Eg1, ?Eg2, ?Eg3; try assumption.
  - intros u hp Hh. destruct (Nat.eq_dec u t) as [->|Hne]; [destruct Hnp; congruence|].
    destruct (Fo u Hne) as [E _]. rewrite E in Hh. apply (Itag u); exact Hh.
  - intros u hp v Hp. destruct (Nat.eq_dec u t) as [->|Hne]; [destruct Hnp; congruence|].
    destruct (Fo u Hne) as [E _]. rewrite E in Hp. apply (Ivp u); exact Hp.
Qed.

Section ReachQ.
Variables (ns : nat) (nc : N).
Lemma Q0_reach s : reachable ns nc s -> Q0 s.
Proof.
  apply (inv_rule_aux _ _ _ _ _ (fun s => T0 ns s /\ O0 s /\ S0 s) Q0).
  - intros s0 Hr. split; [apply (T0_reach ns nc); exact Hr|split; [apply (O0_reach ns nc); exact Hr|apply (S0_reach ns nc); exact Hr]].
  - apply Q0_init.
  - intros s0 a s1 es (J1 & J2 & J3) _ I H. destruct a as [t o|t]; [eapply Q0_start; eauto|eapply Q0_step; eauto].
Qed.

(** blocks are linked behind head in strictly increasing order of their stamps: the compare-and-swap of push that
    links block b gives it the stamp v = the new [g_max], larger than the old one and than the stamp of every other
    linked block *)
Theorem link_order s t k hp v my b s' es : reachable ns nc s -> th s t = P10 k hp v my -> cb (tl s t) = Some b ->
  qprev s THead = hp -> step ns s (Step t) = Some (s', es) ->
  g_max s < v /\ g_max s' = v /\ cst (qstamp s' (TB b)) = v /\ g_lk s' b = true /\
  (forall b', b' <> b -> g_lk s' b' = true -> cst (qstamp s' (TB b')) < v).
Proof.
  intros Hr Ef Hcb Ehp H.
  pose proof (Q0_reach s Hr) as Q. pose proof (S0_reach ns nc s Hr) as S. pose proof (O0_reach ns nc s Hr) as O.
  assert (L1 : g_max s < v) by (eapply (q_vp s Q t); [rewrite Ef; reflexivity|congruence]).
  unfold step, step_gen in H. rewrite Ef, Hcb in H. cbv zeta in H.
  assert (Hm : mp_eqb (qprev s THead) hp = true) by (apply mp_eqb_eq; exact Ehp). rewrite Hm in H. injection H as <- _.
  prj. destruct (s_own s S t b Hcb) as (F1 & _). rewrite Ef in F1. sfn_in F1.
  split; [exact L1|]. split; [reflexivity|]. split; [exact F1|]. split; [apply updN_same|].
  intros b0 Hne Hb0. rewrite updN_other in Hb0 by exact Hne. destruct (q_lk s Q b0 Hb0) as [A _]. lia.
Qed.
End ReachQ.
