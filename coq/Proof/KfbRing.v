(** kirsch_bounded_kfifo_queue (C06), invariant layer 3 (ring and scans): the conditional facts every thread holds
    about its local head / tail copies ("if head is still what I read, then ..."): slots it found empty in
    the head segment hold no committed value, the tail may / may not be advanced, the ring is full.
    Stability lemmas for the three kinds of shared changes.  No axioms, no admits. *)
From Coq Require Import NArith List Bool Lia PeanoNat.
From XV Require Import Base.Word Conc.Lts Conc.Ev Model.KfbDefs.
From XV Require Import Proof.KfbArith Proof.KfbWf Proof.KfbOwn.
Import ListNotations.
Local Open Scope N_scope.

Set Default Proof Using "All".
Section L3.
  Variables k segs : N.
  Hypothesis Hk : 1 <= k.
  Hypothesis Hs : 1 <= segs.
  Notation step := (step k segs).
  Notation sg := (sg k).
  Notation wfi := (wfi k segs).
  Notation qsize := (qsize k segs).
  Notation dist := (dist segs).
  Notation succs := (succs segs).
  Notation wfw := (wfw k segs).
  Notation hle := (hle k segs).
  Notation tle := (tle k segs).
  Notation T1 := (T1 k segs).
  Notation Inv1 := (Inv1 k segs).
  Notation fidx := (fidx k segs).
  Notation sidx := (sidx k segs).

  Definition sgw (w : iw) : N := sg (fst w).
  Definition hs (st : state) : N := sgw (head st).
  Definition ts (st : state) : N := sgw (tail st).
  Definition nocommit (st : state) (j : N) : Prop := ~ In (fst (slot st j)) (g_in st).
  Definition segfree (st : state) (a : N) : Prop := forall j, j < qsize -> sg j = a -> nocommit st j.
  Definition hsafe (st : state) : Prop := segs = 1 \/ 1 <= dist (hs st) (ts st).
  Definition tsafe (st : state) : Prop := segs = 1 \/ dist (hs st) (ts st) + 1 < segs.
  Definition RD (st : state) (tl : iw) : Prop :=
    dist (hs st) (sgw tl) <= dist (hs st) (ts st) /\ (tail st = tl \/ segs = 1 \/ dist (hs st) (sgw tl) < dist (hs st) (ts st)).

  Definition T3 (st : state) (p : pc) : Prop :=
    match p with
    | PF b tl hd ri i => tail st = tl -> dist (hs st) (sgw tl) <= dist (sgw hd) (sgw tl)
    | P3n b tl hd => tail st = tl -> dist (hs st) (sgw tl) <= dist (sgw hd) (sgw tl)
    | PQ b tl hd => succs (sgw tl) = sgw hd /\ (tail st = tl -> dist (hs st) (sgw tl) <= dist (sgw hd) (sgw tl)) /\
                    (head st = hd -> dist (hs st) (ts st) = segs - 1)
    | PS b tl hd i => head st = hd -> dist (hs st) (ts st) = segs - 1 /\ forall m, m < i -> nocommit st (sidx (fst hd) m)
    | PHC b tl hd => head st = hd -> dist (hs st) (ts st) = segs - 1 /\ segfree st (hs st)
    | PH b tl hd => head st = hd -> dist (hs st) (ts st) = segs - 1
    | PT b tl => tail st = tl -> tsafe st
    | C4 b tl j tg hc tc => head st = hc -> dist (hs st) (sgw tc) <= dist (hs st) (ts st)
    | C5 b tl j tg hc => sgw tl = sgw hc
    | DF hd tl ri i => head st = hd -> RD st tl /\ forall m, m < i -> nocommit st (fidx (fst hd) ri m)
    | DT hd tl j p tg => tail st = tl -> dist (hs st) (ts st) = 0
    | D3n hd tl => head st = hd -> RD st tl /\ segfree st (hs st)
    | DE hd tl => sgw hd = sgw tl /\ (head st = hd -> (tail st = tl \/ hsafe st) /\ segfree st (hs st))
    | DH hd => head st = hd -> hsafe st /\ segfree st (hs st)
    | _ => True
    end.

  Definition Inv3 (st : state) : Prop := forall t, T3 st (th st t).

  Lemma wfw_lt w : wfw w -> sgw w < segs. Proof. intros [_ H]. exact H. Qed.

  (** a stale copy differs from a word with a larger tag *)
  Lemma mono_ne (w cur new : iw) : iw_mono w cur -> snd cur < snd new -> new <> w.
  Proof. intros [->|H] Hlt E; subst; lia. Qed.

  (** slots change, or values are committed outside the head segment; head and tail stay *)
  Lemma T3_stable_slots st st' p :
    head st' = head st -> tail st' = tail st ->
    (forall j, j < qsize -> sg j = hs st -> nocommit st j -> nocommit st' j) ->
    T1 st p -> T3 st p -> T3 st' p.
  Proof.
    intros Eh Et Hnc H1 H3.
    assert (Ehs : hs st' = hs st) by (unfold hs; rewrite Eh; reflexivity).
    assert (Ets : ts st' = ts st) by (unfold ts; rewrite Et; reflexivity).
    destruct p; cbn [T3 T1] in *; unfold RD, hsafe, tsafe, segfree in *; rewrite ?Eh, ?Et, ?Ehs, ?Ets; try exact H3.
    - (* PS *) intros E. destruct (H3 E) as [A B]. split; [exact A|]. intros m Hm.
      destruct H1 as (_ & [Hw _] & Hi).
      destruct (sidx_in k segs Hk Hs (fst hd) m Hw ltac:(lia)) as (_ & X & Y).
      apply Hnc; [exact X| |apply B; exact Hm]. rewrite Y. unfold hs, sgw. rewrite E. reflexivity.
    - (* PHC *) intros E. destruct (H3 E) as [A B]. split; [exact A|]. intros j0 X Y. apply Hnc; auto.
    - (* DF *) intros E. destruct (H3 E) as [A B]. split; [exact A|]. intros m Hm.
      destruct H1 as ([Hw _] & _).
      destruct (fidx_in k segs Hk Hs (fst hd) ri m Hw) as (_ & X & Y).
      apply Hnc; [exact X| |apply B; exact Hm]. rewrite Y. unfold hs, sgw. rewrite E. reflexivity.
    - (* D3n *) intros E. destruct (H3 E) as [A B]. split; [exact A|]. intros j0 X Y. apply Hnc; auto.
    - (* DE *) destruct H3 as [A0 H3]. split; [exact A0|]. intros E. destruct (H3 E) as [A B]. split; [exact A|]. intros j0 X Y. apply Hnc; auto.
    - (* DH *) intros E. destruct (H3 E) as [A B]. split; [exact A|]. intros j0 X Y. apply Hnc; auto.
  Qed.

  (** the head word changes (tag bump or advance): what is needed of the new state for the tail-conditional clauses *)
  Lemma T3_stable_head st st' p :
    snd (head st) < snd (head st') -> tail st' = tail st ->
    wfw (head st) -> wfw (tail st) -> sgw (head st') < segs ->
    (* the distance to every segment can only shrink, and to the tail it shrinks as head moves *)
    (hs st' = hs st \/ (hs st' = succs (hs st) /\ hsafe st)) ->
    T1 st p -> T3 st p -> T3 st' p.
  Proof.
    intros Hlt Et Hwh Hwt Hn Hmv H1 H3.
    assert (Ets : ts st' = ts st) by (unfold ts; rewrite Et; reflexivity).
    assert (Hne : forall w, hle st w -> head st' <> w) by (intros w [_ Hm]; eapply mono_ne; eauto).
    pose proof (wfw_lt _ Hwh) as Hhs. pose proof (wfw_lt _ Hwt) as Hts. fold (hs st) in Hhs. fold (ts st) in Hts.
    assert (Hd : forall x, x < segs -> x = ts st -> dist (hs st') x <= dist (hs st) x).
    { intros x Hx ->. destruct Hmv as [->|[-> [H1s|Hge]]]; [lia| |].
      - rewrite !(dist_one k segs Hk Hs) by (try assumption; try (apply (succs_lt k segs Hk Hs); assumption)). lia.
      - assert (ts st <> hs st) by (intros E; rewrite E, (dist_refl k segs Hk Hs) in Hge; lia).
        destruct (dist_succ_l k segs Hk Hs (hs st) (ts st) Hhs Hts H) as [-> _]. lia. }
    destruct p; cbn [T3 T1] in *; rewrite ?Et, ?Ets; try exact H3;
      try (intros E; exfalso; eapply Hne; [|exact E]; intuition; fail).
    - (* PF *) intros E. specialize (H3 E). destruct H1 as ([Hw _] & _).
      pose proof (Hd (sgw tl) (wfw_lt _ Hw) ltac:(unfold ts; rewrite E; reflexivity)). lia.
    - (* P3n *) intros E. specialize (H3 E). destruct H1 as ([Hw _] & _).
      pose proof (Hd (sgw tl) (wfw_lt _ Hw) ltac:(unfold ts; rewrite E; reflexivity)). lia.
    - (* PQ *) destruct H3 as (A & B & C). split; [exact A|]. split.
      + intros E. specialize (B E). destruct H1 as ([Hw _] & _).
        pose proof (Hd (sgw tl) (wfw_lt _ Hw) ltac:(unfold ts; rewrite E; reflexivity)). lia.
      + intros E; exfalso; eapply Hne; [|exact E]; intuition.
    - (* PT *) intros E. specialize (H3 E). unfold tsafe in *. rewrite ?Ets. destruct H3 as [A|A]; [left; exact A|right].
      pose proof (Hd (ts st) Hts eq_refl). lia.
    - (* DT *) intros E. specialize (H3 E). pose proof (Hd (ts st) Hts eq_refl). lia.
    - (* DE *) destruct H3 as [A _]. split; [exact A|]. intros E; exfalso; eapply Hne; [|exact E]; intuition.
  Qed.

  (** the tail advances (safely) *)
  Lemma T3_stable_tail st st' p :
    head st' = head st -> snd (tail st) < snd (tail st') -> slot st' = slot st -> g_in st' = g_in st ->
    wfw (head st) -> wfw (tail st) -> ts st' = succs (ts st) -> tsafe st ->
    T1 st p -> T3 st p -> T3 st' p.
  Proof.
    intros Eh Hlt Es Eg Hwh Hwt Hmv Hsafe H1 H3.
    assert (Ehs : hs st' = hs st) by (unfold hs; rewrite Eh; reflexivity).
    assert (Hne : forall w, tle st w -> tail st' <> w) by (intros w [_ Hm]; eapply mono_ne; eauto).
    pose proof (wfw_lt _ Hwh) as Hhs. pose proof (wfw_lt _ Hwt) as Hts. fold (hs st) in Hhs. fold (ts st) in Hts.
    assert (Hnc : forall j, nocommit st' j <-> nocommit st j) by (intros j; unfold nocommit; rewrite Es, Eg; reflexivity).
    assert (Hsf : forall a, segfree st a -> segfree st' a) by (intros a H j X Y; apply Hnc; apply H; assumption).
    assert (Hd : segs = 1 \/ (dist (hs st) (ts st) + 1 < segs /\ dist (hs st) (ts st') = dist (hs st) (ts st) + 1)).
    { destruct Hsafe as [A|A]; [left; exact A|right]. split; [exact A|]. rewrite Hmv. apply (dist_succ_r k segs Hk Hs); assumption. }
    assert (Hone : segs = 1 -> forall a b, a < segs -> b < segs -> dist a b = 0) by (intros; apply (dist_one k segs Hk Hs); assumption).
    assert (Hts' : ts st' < segs) by (rewrite Hmv; apply (succs_lt k segs Hk Hs); assumption).
    destruct p; cbn [T3 T1] in *; unfold RD, hsafe, segfree in *; rewrite ?Eh, ?Ehs; try exact H3;
      try (intros E; exfalso; eapply Hne; [|exact E]; intuition; fail).
    - (* PQ *) destruct H3 as (A & B & C). split; [exact A|]. split; [intros E; exfalso; eapply Hne; [|exact E]; intuition|].
      intros E. specialize (C E). destruct Hd as [Hd|Hd]; [rewrite (Hone Hd) by assumption; lia|].
      lia.
    - (* PS *) intros E. destruct (H3 E) as [A B]. split; [|intros m Hm; apply Hnc; apply B; exact Hm].
      destruct Hd as [Hd|Hd]; [rewrite (Hone Hd) by assumption; lia|]. lia.
    - (* PHC *) intros E. destruct (H3 E) as [A B]. split; [|apply Hsf; exact B].
      destruct Hd as [Hd|Hd]; [rewrite (Hone Hd) by assumption; lia|]. lia.
    - (* PH *) intros E. specialize (H3 E).
      destruct Hd as [Hd|Hd]; [rewrite (Hone Hd) by assumption; lia|]. lia.
    - (* C4 *) intros E. specialize (H3 E). destruct H1 as (_ & _ & _ & [Hw _]).
      destruct Hd as [Hd|Hd]; [rewrite !(Hone Hd) by (try assumption; apply wfw_lt; assumption); lia|lia].
    - (* DF *) intros E. destruct (H3 E) as [[A B] C]. destruct H1 as (_ & [Hw _] & _). pose proof (wfw_lt _ Hw).
      split; [|intros m Hm; apply Hnc; apply C; exact Hm]. split.
      + destruct Hd as [Hd|Hd]; [rewrite !(Hone Hd) by assumption; lia|lia].
      + destruct Hd as [Hd|Hd]; [right; left; exact Hd|right; right; lia].
    - (* D3n *) intros E. destruct (H3 E) as [[A B] C]. destruct H1 as (_ & [Hw _]). pose proof (wfw_lt _ Hw).
      split; [|apply Hsf; exact C]. split.
      + destruct Hd as [Hd|Hd]; [rewrite !(Hone Hd) by assumption; lia|lia].
      + destruct Hd as [Hd|Hd]; [right; left; exact Hd|right; right; lia].
    - (* DE *) destruct H3 as [A0 H3]. split; [exact A0|]. intros E. destruct (H3 E) as [A B]. split; [|apply Hsf; exact B].
      right. destruct Hd as [Hd|Hd]; [left; exact Hd|right; lia].
    - (* DH *) intros E. destruct (H3 E) as [A B]. split; [|apply Hsf; exact B].
      destruct Hd as [Hd|Hd]; [left; exact Hd|right; lia].
  Qed.

  Lemma wfi_inj x y : wfi x -> wfi y -> sg x = sg y -> x = y.
  Proof. intros [A _] [B _] E. rewrite A, B, E. reflexivity. Qed.

  Lemma zero_notin st : Inv2 st -> ~ In 0 (g_in st).
  Proof. intros Iv H. pose proof (i_in_lt st Iv 0 H). lia. Qed.

  Lemma hs_adv st : wfw (head st) -> sgw (adv k segs (head st)) = succs (hs st).
  Proof. intros H. unfold sgw, adv, hs. cbn [fst]. apply (adv_wf k segs Hk Hs). exact H. Qed.

  Lemma ts_adv st : wfw (tail st) -> sgw (adv k segs (tail st)) = succs (ts st).
  Proof. intros H. unfold sgw, adv, ts. cbn [fst]. apply (adv_wf k segs Hk Hs). exact H. Qed.

  Ltac sim3 := unfold hsafe, tsafe, RD, segfree, nocommit in *; unfold hs, ts in *; sim.

  Lemma Inv3_step s a s' es : Inv1 s -> Inv2 s -> Inv3 s -> step s a = Some (s', es) -> Inv3 s'.
  Proof.
    intros (Hh & Ht & Hsl & Hall) Iv H3 Hst. unfold KfbDefs.step in Hst.
    destruct a as [t o|t r].
    - destruct (th s t) eqn:E; try discriminate. inversion Hst; subst; clear Hst.
      intros t'. sim. destruct (Nat.eq_dec t' t) as [->|Hne]; [rewrite upd_same; exact I|rewrite upd_other by exact Hne].
      apply (T3_stable_slots s); sim; auto.
    - pose proof (Hall t) as Hme. pose proof (H3 t) as Hme3. pose proof (i_th s Iv t) as Hme2.
      destruct (th s t) as [|[v|]|b|b tl|b tl hd ri i|b tl j otag|b tl hd|b tl j otag|b tl hd|b tl hd i|b tl hd|b tl hd|b tl
                            |b tl j tg|b tl j tg|b tl j tg hc|b tl j tg hc tc|b tl j tg hc|b j tg
                            | |hd|hd tl ri i|hd tl j p tg|hd tl|hd tl j p tg|hd j p tg|hd tl|hd] eqn:E;
        try discriminate; cbn [T1 T3] in Hme, Hme3; brk Hst; inversion Hst; subst; clear Hst.
      all: intros t'; sim; (destruct (Nat.eq_dec t' t) as [->|Hne]; [rewrite upd_same|rewrite upd_other by exact Hne]).
      all: try (apply (T3_stable_slots s); sim; auto; fail).
      all: try exact I.
      + (* P2 -> PF *) cbn [T3]. sim3. intros _. lia.
      + (* PF -> PF *) cbn [T3]. sim3. exact Hme3.
      + (* PF -> P3n *) cbn [T3]. sim3. exact Hme3.
      + (* P3n -> PQ *) cbn [T3]. sim3. destruct Hme as ([Hwt _] & [Hwh _]).
        assert (A : succs (sgw (tail s)) = sgw hd).
        { unfold sgw. rewrite <- e0. symmetry. apply (adv_wf k segs Hk Hs). exact Hwt. }
        split; [exact A|]. split; [exact Hme3|]. intros ->. 
        apply (dist_full k segs Hk Hs); [apply wfw_lt; assumption|apply wfw_lt; assumption|exact A].
      + (* P3n -> PT *) cbn [T3]. sim3. intros _. specialize (Hme3 eq_refl). destruct Hme as ([Hwt _] & [Hwh _]).
        right. 
        assert (A : succs (sgw (tail s)) <> sgw hd).
        { intros A. apply n. apply wfi_inj; [apply (adv_wf k segs Hk Hs); exact Hwt|exact Hwh|].
          destruct (adv_wf k segs Hk Hs _ Hwt) as [_ ->]. exact A. }
        pose proof (wfw_lt _ Hwt) as X1. pose proof (wfw_lt _ Hwh) as X2. 
        pose proof (dist_full k segs Hk Hs (sgw hd) (sgw (tail s)) X2 X1) as [F _].
        pose proof (dist_lt k segs Hk Hs (sgw hd) (sgw (tail s)) X2 X1). 
        assert (dist (sgw hd) (sgw (tail s)) <> segs - 1) by (intros Q; apply A; apply F; exact Q). lia.
      + (* P4 ins, others *)
        apply (T3_stable_slots s); [reflexivity|reflexivity| |apply Hall|apply H3].
        intros j0 _ _ Hn. unfold nocommit in *. sim. unfold setf. destruct (N.eqb_spec j0 j); [cbn [fst]; apply Hme2|exact Hn].
      + (* PQ -> PS *) cbn [T3]. sim3. destruct Hme3 as (_ & _ & C). intros Eh. split; [apply C; exact Eh|intros m Hm; lia].
      + (* PQ -> PT *) cbn [T3]. sim3. destruct Hme3 as (A & B & _). destruct Hme as ([Hwt _] & [Hwh Hmh]).
        intros Et. specialize (B Et). subst tl. right.
        pose proof (wfw_lt _ Hwt) as X1. pose proof (wfw_lt _ Hwh) as X2. pose proof (wfw_lt _ Hh) as X3.
        pose proof (dist_full k segs Hk Hs (sgw hd) (sgw (tail s)) X2 X1) as [_ F]. specialize (F A).
        pose proof (dist_full k segs Hk Hs (sgw (head s)) (sgw (tail s)) X3 X1) as [G _].
        pose proof (dist_lt k segs Hk Hs (sgw (head s)) (sgw (tail s)) X3 X1).
        assert (dist (sgw (head s)) (sgw (tail s)) <> segs - 1).
        { intros Q. apply n. symmetry. apply wfi_inj; [exact Hh|exact Hwh|]. specialize (G Q). unfold sgw in *. congruence. }
        lia.
      + (* PS -> PS *) cbn [T3]. sim3. intros Eh. destruct (Hme3 Eh) as [A B]. split; [exact A|].
        intros m Hm. destruct (N.eq_dec m i) as [->|Hn]; [|apply B; lia]. rewrite e. apply (zero_notin s Iv).
      + (* PS -> PHC *) cbn [T3]. sim3. intros Eh. destruct (Hme3 Eh) as [A B]. split; [exact A|].
        intros j0 Hj0 Hsg. destruct Hme as (_ & [Hwh _] & Hi).
        destruct (sidx_cover k segs Hk Hs (fst hd) j0 Hwh Hj0) as (m & Hm & <-); [rewrite Hsg, <- Eh; reflexivity|].
        destruct (N.eq_dec m i) as [->|Hn]; [rewrite e; apply (zero_notin s Iv)|apply B; lia].
      + (* PS -> PH *) cbn [T3]. sim3. intros Eh. apply (Hme3 Eh).
      + (* PHC success, self: PT *) cbn [T3]. sim3. intros _. destruct (Hme3 eq_refl) as [A _].
        pose proof (wfw_lt _ Hh) as X3. pose proof (wfw_lt _ Ht) as X1.
        destruct (N.eq_dec segs 1) as [S1|S1]; [left; exact S1|right].
        change (sg (fst (adv k segs (head s)))) with (sgw (adv k segs (head s))). rewrite hs_adv by exact Hh. unfold hs.
        assert (sgw (tail s) <> sgw (head s)) by (intros Q; rewrite Q, (dist_refl k segs Hk Hs) in A; lia).
        destruct (dist_succ_l k segs Hk Hs (sgw (head s)) (sgw (tail s)) X3 X1 H) as [-> _]. lia.
      + (* PHC success, others *)
        destruct (Hme3 eq_refl) as [A _].
        apply (T3_stable_head s); [unfold adv; sim; lia|reflexivity|exact Hh|exact Ht|apply wfw_lt; apply adv_wfw; assumption| |apply Hall|apply H3].
        right. split; [apply hs_adv; exact Hh|]. unfold hsafe. destruct (N.eq_dec segs 1); [left; assumption|right; lia].
      + (* PT success, others *)
        apply (T3_stable_tail s); [reflexivity|unfold adv; sim; lia|reflexivity|reflexivity|exact Hh|exact Ht|apply ts_adv; exact Ht|apply Hme3; reflexivity|apply Hall|apply H3].
      + (* C3 -> C4 *) cbn [T3]. sim3. intros _. lia.
      + (* C4 commit, others *)
        apply (T3_stable_slots s); [reflexivity|reflexivity| |apply Hall|apply H3].
        intros j0 Hj0 Hsg Hn. unfold nocommit in *. sim. rewrite commit_in. intros [Q|Q]; [contradiction|].
        unfold T2, T2' in Hme2. cbn [cinfo] in Hme2. destruct Hme2 as [[A B]|[A _]]; [|rewrite Q in Hn; contradiction].
        pose proof (i_own_lt s Iv t b ltac:(rewrite E; reflexivity)) as Hb2.
        assert (j0 = j) by (apply (i_uniq s Iv); [rewrite A; exact Q|rewrite Q; lia]). subst j0.
        destruct Hme as ([Etl Ltl] & [_ Sj] & [[Ehc Lhc] _] & [[Etc Ltc] _]).
        rewrite Etl, Etc, Ehc in Heqb0.
        destruct (ivr_spec k segs Hk Hs _ _ _ Ltl Ltc Lhc Heqb0) as [X _].
        unfold hs, sgw in Hsg. rewrite Sj in Hsg. rewrite Hsg, (dist_refl k segs Hk Hs) in X. lia.
      + (* C4 -> C5 *) cbn [T3]. sim3.
        destruct Hme as ([Etl Ltl] & _ & [[Ehc Lhc] _] & [[Etc Ltc] _]).
        rewrite Etl, Etc, Ehc in Heqb0, Heqb1. unfold sgw.
        apply (nvr_spec k segs Hk Hs _ _ _ Ltl Ltc Lhc Heqb0 Heqb1).
      + (* C5 success, others *)
        apply (T3_stable_head s); [unfold bump; sim; lia|reflexivity|exact Hh|exact Ht|apply wfw_lt; exact Hh| |apply Hall|apply H3].
        left. reflexivity.
      + (* C6 back, others *)
        apply (T3_stable_slots s); [reflexivity|reflexivity| |apply Hall|apply H3].
        intros j0 _ _ Hn. unfold nocommit in *. sim. unfold setf. destruct (N.eqb_spec j0 j); [cbn [fst]; apply (zero_notin s Iv)|exact Hn].
      + (* D2 -> DF *) cbn [T3]. sim3. intros _. split; [split; [lia|left; reflexivity]|intros m Hm; lia].
      + (* DF -> DF *) cbn [T3]. sim3. intros Eh. destruct (Hme3 Eh) as [A B]. split; [exact A|].
        intros m Hm. destruct (N.eq_dec m i) as [->|Hn]; [|apply B; lia]. rewrite e. apply (zero_notin s Iv).
      + (* DF -> D3n *) cbn [T3]. sim3. intros Eh. destruct (Hme3 Eh) as [A B]. split; [exact A|].
        intros j0 Hj0 Hsg. destruct Hme as ([Hwh _] & _).
        destruct (fidx_cover k segs Hk Hs (fst hd) ri j0 Hwh Hj0) as (m & Hm & <-); [rewrite Hsg, <- Eh; reflexivity|].
        destruct (N.eq_dec m i) as [->|Hn]; [rewrite e; apply (zero_notin s Iv)|apply B; lia].
      + (* D3 -> DT *) cbn [T3]. sim3. intros <-. unfold sgw. rewrite e0. apply (dist_refl k segs Hk Hs).
      + (* D3n -> DE *) cbn [T3]. sim3. split; [unfold sgw; rewrite e0; reflexivity|]. intros _.
        destruct (Hme3 eq_refl) as [[A B] C]. split; [|exact C].
        destruct B as [B|[B|B]]; [left; exact B|right; left; exact B|right; right].
        replace (sgw tl) with (sgw (head s)) in B by (unfold sgw; rewrite e0; reflexivity).
        rewrite (dist_refl k segs Hk Hs) in B. lia.
      + (* D3n -> DH *) cbn [T3]. sim3. intros _. destruct (Hme3 eq_refl) as [[A B] C]. split; [|exact C].
        right. destruct Hme as (_ & [Hwt _]). pose proof (wfw_lt _ Hh) as X3. pose proof (wfw_lt _ Hwt) as X1.
        assert (dist (sgw (head s)) (sgw tl) <> 0).
        { intros Q. apply n. apply wfi_inj; [exact Hh|exact Hwt|]. apply (dist_0 k segs Hk Hs _ _ X3 X1 Q). }
        lia.
      + (* DT success, others *)
        apply (T3_stable_tail s); [reflexivity|unfold adv; sim; lia|reflexivity|reflexivity|exact Hh|exact Ht|apply ts_adv; exact Ht| |apply Hall|apply H3].
        specialize (Hme3 eq_refl). unfold tsafe. destruct (N.eq_dec segs 1); [left; assumption|right; lia].
      + (* D4 take, others *)
        apply (T3_stable_slots s); [reflexivity|reflexivity| |apply Hall|apply H3].
        intros j0 _ _ Hn. unfold nocommit in *. sim. unfold setf. rewrite commit_in.
        destruct Hme as (_ & _ & Hp).
        destruct (N.eqb_spec j0 j) as [->|Hne0]; cbn [fst].
        * intros [Q|Q]; [apply (zero_notin s Iv Q)|congruence].
        * intros [Q|Q]; [contradiction|]. apply Hne0. apply (i_uniq s Iv); [rewrite e; exact Q|rewrite Q; exact Hp].
      + (* DE -> DH *) cbn [T3]. sim3. destruct Hme3 as [_ B]. intros Eh. destruct (B Eh) as [[Q|Q] C]; [congruence|]. split; assumption.
      + (* DH success, others *)
        destruct (Hme3 eq_refl) as [A _].
        apply (T3_stable_head s); [unfold adv; sim; lia|reflexivity|exact Hh|exact Ht|apply wfw_lt; apply adv_wfw; assumption| |apply Hall|apply H3].
        right. split; [apply hs_adv; exact Hh|exact A].
  Qed.

  Lemma Inv3_init : Inv3 init.
  Proof. intros t. exact I. Qed.
End L3.
