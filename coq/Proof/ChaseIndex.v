(** Index arithmetic of xenium::detail::growing_circular_array (generated [get_entry] / [grow]):
    closed form of [get_entry], injectivity, sharing of the lower half between capacities, and
    preservation of the live window by [grow]. *)
From Coq Require Import NArith ZArith List Bool Lia.
From XV Require Import Base.Word gen.GrowingArrayGen Model.ChaseDefs.
Import ListNotations.
Local Open Scope N_scope.

(** * 1. [(1 << bucket) >> 1] on C++ [int] *)

Definition low_mask (b : N) : N := sext 32 64 (sshr 32 (wshl 32 1 b) 1).

Definition low_mask_check (n : nat) : bool :=
  low_mask (N.of_nat n) =? (if (n =? 0)%nat then 0 else 2 ^ (N.of_nat n - 1)).

Lemma low_mask_sweep : forallb low_mask_check (seq 0 31) = true.
Proof. vm_compute. reflexivity. Qed.

Lemma low_mask_all b : b <= 30 -> low_mask b = if b =? 0 then 0 else 2 ^ (b - 1).
Proof.
  intros Hb.
  assert (H := low_mask_sweep). rewrite forallb_forall in H.
  specialize (H (N.to_nat b)).
  assert (Hin : In (N.to_nat b) (seq 0 31)) by (apply in_seq; lia).
  specialize (H Hin). unfold low_mask_check in H.
  rewrite N2Nat.id in H. apply N.eqb_eq in H. rewrite H.
  destruct (Nat.eqb_spec (N.to_nat b) 0) as [E|E]; destruct (N.eqb_spec b 0) as [F|F];
    try reflexivity; lia.
Qed.

Lemma low_mask_val b : 1 <= b <= 30 -> sext 32 64 (sshr 32 (wshl 32 1 b) 1) = 2 ^ (b - 1).
Proof.
  intros Hb. fold (low_mask b). rewrite low_mask_all by lia.
  destruct (N.eqb_spec b 0); [lia|reflexivity].
Qed.

Lemma low_mask_val0 : sext 32 64 (sshr 32 (wshl 32 1 0) 1) = 0.
Proof. vm_compute. reflexivity. Qed.

(** * 2. Closed form of [get_entry] *)

Lemma pow2_le_mono a b : a <= b -> 2 ^ a <= 2 ^ b.
Proof. intros. apply N.pow_le_mono_r; lia. Qed.

Lemma pow2_lt_mono a b : a < b -> 2 ^ a < 2 ^ b.
Proof. intros. apply N.pow_lt_mono_r; lia. Qed.

Lemma pow2_64 : 2 ^ 64 = 18446744073709551616.
Proof. reflexivity. Qed.

Lemma cap_bound k : k <= 30 -> 2 ^ k <= 2 ^ 30.
Proof. apply pow2_le_mono. Qed.

Lemma pow2_30 : 2 ^ 30 = 1073741824.
Proof. reflexivity. Qed.

Lemma land_mask k idx : k <= 30 -> N.land idx (wsub 64 (2 ^ k) 1) = idx mod 2 ^ k.
Proof.
  intros Hk. assert (Hp := pow2_pos k). assert (Hc := cap_bound k Hk).
  rewrite pow2_30 in Hc.
  rewrite wsub_small by (rewrite ?pow2_64; lia).
  replace (2 ^ k - 1) with (N.ones k) by (rewrite N.ones_equiv; apply N.pred_sub).
  apply N.land_ones.
Qed.

Lemma lxor_top j : j <> 0 -> N.lxor j (2 ^ N.log2 j) = j - 2 ^ N.log2 j.
Proof.
  intros Hj. destruct (N.log2_spec j) as [Hlo Hhi]; [lia|].
  rewrite N.pow_succ_r' in Hhi.
  set (l := N.log2 j) in *. set (r := j - 2 ^ l).
  assert (Hr : r < 2 ^ l) by (unfold r; lia).
  assert (Hland : N.land r (2 ^ l) = 0).
  { apply N.bits_inj. intros n. rewrite N.land_spec, N.bits_0, N.pow2_bits_eqb.
    destruct (N.eqb_spec l n) as [<-|Hne]; [|apply andb_false_r].
    rewrite <- (N.mod_small r (2 ^ l)) by exact Hr.
    rewrite N.mod_pow2_bits_high by lia. reflexivity. }
  assert (Hj2 : j = N.lxor r (2 ^ l)).
  { rewrite <- N.add_nocarry_lxor by exact Hland. unfold r. lia. }
  rewrite Hj2 at 1. rewrite N.lxor_assoc, N.lxor_nilpotent, N.lxor_0_r. reflexivity.
Qed.

Lemma size_le_pow2 j k : j < 2 ^ k -> N.size j <= k.
Proof.
  intros H. destruct (N.eq_dec j 0) as [->|Hz]; [cbn; lia|].
  rewrite N.size_log2 by exact Hz.
  assert (N.log2 j < k) by (apply N.log2_lt_pow2; lia). lia.
Qed.

Definition entry_of (j : N) : N * N := (N.size j, if j =? 0 then 0 else j - 2 ^ N.log2 j).

Lemma slot_of_entry j : j < 2 ^ 30 -> slot_of j = entry_of j.
Proof.
  intros Hj. unfold slot_of, entry_of, flbs. fold (low_mask (N.size j)).
  assert (Hs := size_le_pow2 j 30 Hj).
  rewrite low_mask_all by exact Hs.
  destruct (N.eqb_spec j 0) as [->|Hz]; [reflexivity|].
  rewrite N.size_log2 by exact Hz.
  destruct (N.eqb_spec (N.succ (N.log2 j)) 0); [lia|].
  replace (N.succ (N.log2 j) - 1) with (N.log2 j) by lia.
  rewrite lxor_top by exact Hz. reflexivity.
Qed.

Lemma get_entry_slot_of idx cap : get_entry idx cap = slot_of (N.land idx (wsub 64 cap 1)).
Proof. reflexivity. Qed.

Lemma mod_cap_lt30 k idx : k <= 30 -> idx mod 2 ^ k < 2 ^ 30.
Proof.
  intros Hk. assert (Hp := pow2_pos k). assert (Hc := cap_bound k Hk).
  assert (idx mod 2 ^ k < 2 ^ k) by (apply N.mod_lt; lia). lia.
Qed.

Lemma get_entry_entry_of k idx : k <= 30 -> get_entry idx (2 ^ k) = entry_of (idx mod 2 ^ k).
Proof.
  intros Hk. rewrite get_entry_slot_of, land_mask by exact Hk.
  apply slot_of_entry. apply mod_cap_lt30. exact Hk.
Qed.

Theorem get_entry_spec k cap idx :
  1 <= k <= 30 -> cap = 2 ^ k -> idx < 2 ^ 64 ->
  let j := idx mod cap in
  get_entry idx cap = (N.size j, if j =? 0 then 0 else j - 2 ^ N.log2 j).
Proof.
  intros Hk -> _ j. unfold j. rewrite get_entry_entry_of by lia. reflexivity.
Qed.

(** * 3. Injectivity and bounds *)

Lemma entry_of_inj j1 j2 : entry_of j1 = entry_of j2 -> j1 = j2.
Proof.
  unfold entry_of. intros H. injection H as Hs Hr.
  destruct (N.eqb_spec j1 0) as [->|H1]; destruct (N.eqb_spec j2 0) as [->|H2]; try reflexivity.
  - rewrite (N.size_log2 j2) in Hs by exact H2. cbn in Hs. lia.
  - rewrite (N.size_log2 j1) in Hs by exact H1. cbn in Hs. lia.
  - rewrite !N.size_log2 in Hs by assumption.
    assert (Hl : N.log2 j1 = N.log2 j2) by lia. rewrite Hl in Hr.
    destruct (N.log2_spec j1) as [A _]; [lia|]. destruct (N.log2_spec j2) as [B _]; [lia|].
    rewrite Hl in A. lia.
Qed.

Theorem get_entry_inj k cap i1 i2 :
  1 <= k <= 30 -> cap = 2 ^ k -> i1 < 2 ^ 64 -> i2 < 2 ^ 64 ->
  get_entry i1 cap = get_entry i2 cap <-> i1 mod cap = i2 mod cap.
Proof.
  intros Hk -> _ _. rewrite !get_entry_entry_of by lia. split.
  - apply entry_of_inj.
  - intros ->. reflexivity.
Qed.

Lemma entry_of_bounds j k : j < 2 ^ k ->
  fst (entry_of j) <= k /\
  (0 < fst (entry_of j) -> snd (entry_of j) < 2 ^ (fst (entry_of j) - 1)) /\
  (fst (entry_of j) = 0 -> snd (entry_of j) = 0).
Proof.
  intros Hj. unfold entry_of. cbn [fst snd]. split; [apply size_le_pow2; exact Hj|].
  destruct (N.eqb_spec j 0) as [->|Hz].
  - split; [cbn; lia|reflexivity].
  - rewrite N.size_log2 by exact Hz. split; [|lia]. intros _.
    replace (N.succ (N.log2 j) - 1) with (N.log2 j) by lia.
    destruct (N.log2_spec j) as [A B]; [lia|]. rewrite N.pow_succ_r' in B. lia.
Qed.

Theorem get_entry_bounds k cap idx :
  1 <= k <= 30 -> cap = 2 ^ k -> idx < 2 ^ 64 ->
  fst (get_entry idx cap) <= k /\
  (0 < fst (get_entry idx cap) -> snd (get_entry idx cap) < 2 ^ (fst (get_entry idx cap) - 1)) /\
  (fst (get_entry idx cap) = 0 -> snd (get_entry idx cap) = 0).
Proof.
  intros Hk -> _. rewrite get_entry_entry_of by lia.
  apply entry_of_bounds. apply N.mod_lt. apply N.pow_nonzero. discriminate.
Qed.

(** * 4. The lower half of the storage is shared between capacity [cap] and [2*cap] *)

Lemma two_cap k : 2 * 2 ^ k = 2 ^ (k + 1).
Proof. rewrite N.add_1_r, N.pow_succ_r'. reflexivity. Qed.

Lemma mod2_cases x c : c <> 0 -> x mod (2 * c) = x mod c \/ x mod (2 * c) = x mod c + c.
Proof.
  intros Hc.
  assert (Hx := N.div_mod x c Hc).
  assert (Hq := N.div_mod (x / c) 2 ltac:(lia)).
  assert (Hr : x mod c < c) by (apply N.mod_lt; exact Hc).
  assert (Hb : (x / c) mod 2 < 2) by (apply N.mod_lt; lia).
  set (q := x / c / 2) in *. set (b := (x / c) mod 2) in *. set (r := x mod c) in *.
  assert (Hb' : b = 0 \/ b = 1) by lia.
  destruct Hb' as [Hb0|Hb1]; [left|right]; symmetry; apply (N.mod_unique x (2 * c) q).
  - lia.
  - rewrite Hx at 1. rewrite Hq, Hb0. ring.
  - lia.
  - rewrite Hx at 1. rewrite Hq, Hb1. ring.
Qed.

Lemma mod2_lower x c : c <> 0 -> x mod (2 * c) < c -> x mod (2 * c) = x mod c.
Proof.
  intros Hc H. destruct (mod2_cases x c Hc) as [E|E]; [exact E|].
  revert H E. generalize (x mod (2 * c)) (x mod c). intros; lia.
Qed.

Theorem get_entry_lower_half k cap idx :
  1 <= k <= 29 -> cap = 2 ^ k ->
  idx mod (2 * cap) < cap -> get_entry idx (2 * cap) = get_entry idx cap.
Proof.
  intros Hk -> H. assert (Hp := pow2_pos k).
  rewrite (two_cap k). rewrite !get_entry_entry_of by lia. rewrite <- two_cap.
  rewrite mod2_lower; [reflexivity|lia|exact H].
Qed.

(** * 5. [grow] preserves the live window *)

Lemma mget_mset_same m b x v : mget (mset m b x v) b x = v.
Proof. unfold mget, mset. rewrite !N.eqb_refl. reflexivity. Qed.

Lemma mget_mset_other_b m b x v b' x' : b' <> b -> mget (mset m b x v) b' x' = mget m b' x'.
Proof.
  intros H. unfold mget, mset. destruct (N.eqb_spec b' b); [contradiction|reflexivity].
Qed.

Lemma mget_mset_other m b x v b' x' : (b', x') <> (b, x) -> mget (mset m b x v) b' x' = mget m b' x'.
Proof.
  intros H. unfold mget, mset.
  destruct (N.eqb_spec b' b) as [->|]; [|reflexivity].
  destruct (N.eqb_spec x' x) as [->|]; [contradiction H; reflexivity|reflexivity].
Qed.

Lemma win_mod2 c q i : c <> 0 -> 2 * c * q <= i < 2 * c * (q + 1) -> i mod (2 * c) = i - 2 * c * q.
Proof.
  intros Hc Hi. symmetry. apply (N.mod_unique i (2 * c) q); lia.
Qed.

Lemma win_mod1 c q i : c <> 0 -> 2 * c * q + c <= i < 2 * c * (q + 1) -> i mod c = i - 2 * c * q - c.
Proof.
  intros Hc Hi. symmetry. apply (N.mod_unique i c (2 * q + 1)); lia.
Qed.

Lemma entry_upper_bucket k j : 2 ^ k <= j < 2 * 2 ^ k -> fst (entry_of j) = k + 1.
Proof.
  intros Hj. unfold entry_of. cbn [fst]. assert (Hp := pow2_pos k).
  rewrite N.size_log2 by lia.
  rewrite (N.log2_unique j k); [lia|lia|]. rewrite N.pow_succ_r'. exact Hj.
Qed.

Lemma land_mask2 k idx : k <= 29 -> N.land idx (wsub 64 (2 * 2 ^ k) 1) = idx mod (2 * 2 ^ k).
Proof. intros Hk. rewrite two_cap. apply land_mask. lia. Qed.

Lemma get_entry_entry_of2 k idx : k <= 29 -> get_entry idx (2 * 2 ^ k) = entry_of (idx mod (2 * 2 ^ k)).
Proof. intros Hk. rewrite two_cap. apply get_entry_entry_of. lia. Qed.

(** new slots of the upper window live in bucket [k+1] *)
Lemma new_bucket k q i : k <= 29 ->
  2 * 2 ^ k * q + 2 ^ k <= i < 2 * 2 ^ k * (q + 1) -> fst (get_entry i (2 * 2 ^ k)) = k + 1.
Proof.
  intros Hk Hi. assert (Hp := pow2_pos k).
  rewrite get_entry_entry_of2 by exact Hk.
  apply entry_upper_bucket. rewrite (win_mod2 (2 ^ k) q i) by lia. lia.
Qed.

Lemma old_bucket k i : k <= 30 -> fst (get_entry i (2 ^ k)) <= k.
Proof.
  intros Hk. rewrite get_entry_entry_of by exact Hk.
  apply entry_of_bounds. apply N.mod_lt. apply N.pow_nonzero. discriminate.
Qed.

Lemma new_slot_inj k q i0 i1 : k <= 29 ->
  2 * 2 ^ k * q <= i0 < 2 * 2 ^ k * (q + 1) ->
  2 * 2 ^ k * q <= i1 < 2 * 2 ^ k * (q + 1) ->
  get_entry i0 (2 * 2 ^ k) = get_entry i1 (2 * 2 ^ k) -> i0 = i1.
Proof.
  intros Hk H0 H1 E. assert (Hp := pow2_pos k).
  rewrite !get_entry_entry_of2 in E by exact Hk. apply entry_of_inj in E.
  rewrite (win_mod2 (2 ^ k) q i0), (win_mod2 (2 ^ k) q i1) in E by lia. lia.
Qed.

Lemma grow_loop_S fuel bottom tp bk fc cc m ncap nm st sm mem i :
  grow_loop (S fuel) bottom tp bk fc cc m ncap nm st sm mem i =
  if i <? bottom then
    if negb (N.land i m =? N.land i nm) then
      grow_loop fuel bottom tp bk fc cc m ncap nm st sm
        (mset mem (fst (slot_of (N.land i nm))) (snd (slot_of (N.land i nm)))
              (mget mem (fst (slot_of (N.land i m))) (snd (slot_of (N.land i m)))))
        (wadd 64 i 1)
    else Some (mem, i)
  else Some (mem, i).
Proof. reflexivity. Qed.

Definition rde (m : mem_t) (i c : N) : N := mget m (fst (get_entry i c)) (snd (get_entry i c)).

Lemma grow_loop_spec k c q bottom tp bk fc cc ncap st sm :
  1 <= k <= 29 -> c = 2 ^ k -> 2 * c * (q + 1) < 2 ^ 64 ->
  forall fuel mem i,
  2 * c * q + c <= i <= 2 * c * (q + 1) ->
  (N.to_nat (2 * c * (q + 1) - i) < fuel)%nat ->
  exists mem' i',
    grow_loop fuel bottom tp bk fc cc (wsub 64 c 1) ncap (wsub 64 (2 * c) 1) st sm mem i = Some (mem', i') /\
    (forall b x, b <= k -> mget mem' b x = mget mem b x) /\
    (forall i0, i <= i0 -> i0 < 2 * c * (q + 1) -> i0 < bottom -> rde mem' i0 (2 * c) = rde mem i0 c) /\
    (forall i0, 2 * c * q + c <= i0 < i -> rde mem' i0 (2 * c) = rde mem i0 (2 * c)).
Proof.
  intros Hk -> HE. assert (Hp := pow2_pos k).
  induction fuel as [|f IH]; intros mem i Hi Hf; [lia|].
  rewrite grow_loop_S. rewrite <- !get_entry_slot_of.
  rewrite land_mask, land_mask2 by lia.
  destruct (N.ltb_spec i bottom) as [Hib|Hib].
  2:{ exists mem, i. split; [reflexivity|]. split; [reflexivity|]. split; [intros; lia|reflexivity]. }
  destruct (N.eq_dec i (2 * 2 ^ k * (q + 1))) as [HiE|HiE].
  { (* break *)
    assert (E1 : i mod 2 ^ k = 0).
    { symmetry. apply (N.mod_unique i (2 ^ k) (2 * (q + 1))); lia. }
    assert (E2 : i mod (2 * 2 ^ k) = 0).
    { symmetry. apply (N.mod_unique i (2 * 2 ^ k) (q + 1)); lia. }
    rewrite E1, E2. cbn [N.eqb negb].
    exists mem, i. split; [reflexivity|]. split; [reflexivity|]. split; [intros; lia|reflexivity]. }
  assert (Hiw : 2 * 2 ^ k * q + 2 ^ k <= i < 2 * 2 ^ k * (q + 1)) by lia.
  rewrite (win_mod1 (2 ^ k) q i), (win_mod2 (2 ^ k) q i) by lia.
  destruct (N.eqb_spec (i - 2 * 2 ^ k * q - 2 ^ k) (i - 2 * 2 ^ k * q)) as [Habs|_]; [lia|].
  cbn [negb].
  rewrite wadd_small by lia.
  destruct (IH (mset mem (fst (get_entry i (2 * 2 ^ k))) (snd (get_entry i (2 * 2 ^ k)))
                     (mget mem (fst (get_entry i (2 ^ k))) (snd (get_entry i (2 ^ k))))) (i + 1))
    as (mem' & i' & Hrun & Ha & Hb & Hc); [lia|lia|].
  exists mem', i'. split; [exact Hrun|].
  assert (Hnb := new_bucket k q i ltac:(lia) Hiw).
  split; [|split].
  - intros b x Hbk. rewrite Ha by exact Hbk. apply mget_mset_other_b. lia.
  - intros i0 H0 H1 H2. destruct (N.eq_dec i0 i) as [->|Hne].
    + rewrite Hc by lia. unfold rde. apply mget_mset_same.
    + rewrite Hb by lia. unfold rde. apply mget_mset_other_b.
      assert (Hob := old_bucket k i0 ltac:(lia)). lia.
  - intros i0 H0. rewrite Hc by lia. unfold rde. apply mget_mset_other.
    intros Heq. rewrite <- !surjective_pairing in Heq.
    apply (new_slot_inj k q) in Heq; lia.
Qed.

Lemma pow2_29 : 2 ^ 29 = 536870912.
Proof. reflexivity. Qed.

Lemma pow2_63 : 2 ^ 63 = 9223372036854775808.
Proof. reflexivity. Qed.

Lemma cap_bound29 k : k <= 29 -> 2 ^ k <= 536870912.
Proof. intros H. rewrite <- pow2_29. apply pow2_le_mono. exact H. Qed.

Lemma wmul_cap k : k <= 29 -> wmul 64 (2 ^ k) 2 = 2 * 2 ^ k.
Proof.
  intros Hk. assert (Hc := cap_bound29 k Hk). unfold wmul.
  rewrite N.mod_small by (rewrite pow2_64; lia). lia.
Qed.

(** the adjusted loop start of [grow] *)
Lemma start_props k top :
  k <= 29 -> top < 2 ^ 63 ->
  let c := 2 ^ k in
  let s := if top mod c =? top mod (2 * c) then wadd 64 top (wsub 64 c (top mod c)) else top in
  exists q, 2 * c * q <= top < 2 * c * (q + 1) /\
            ((s = top /\ 2 * c * q + c <= top) \/ (s = 2 * c * q + c /\ top < 2 * c * q + c)).
Proof.
  intros Hk Ht c s. assert (Hp : 0 < c) by apply pow2_pos.
  assert (Hc : c <= 536870912) by (apply cap_bound29; exact Hk).
  rewrite pow2_63 in Ht.
  exists (top / (2 * c)).
  assert (Hdm := N.div_mod top (2 * c) ltac:(lia)).
  assert (Hr2 : top mod (2 * c) < 2 * c) by (apply N.mod_lt; lia).
  assert (Hr1 : top mod c < c) by (apply N.mod_lt; lia).
  assert (Hcases := mod2_cases top c ltac:(lia)).
  unfold s. clear s.
  revert Hdm Hr2 Hr1 Hcases.
  generalize (top mod (2 * c)) (top mod c) (top / (2 * c)). intros r2 r1 q Hdm Hr2 Hr1 Hcases.
  split; [lia|].
  destruct (N.eqb_spec r1 r2) as [E|E].
  - right. rewrite wsub_small by (rewrite ?pow2_64; lia).
    rewrite wadd_small by (rewrite ?pow2_64; lia). lia.
  - left. lia.
Qed.

Lemma grow_spec k cap fuel bk mem bottom top :
  1 <= k <= 29 -> cap = 2 ^ k -> top <= bottom -> bottom - top <= cap -> bottom < 2 ^ 63 ->
  (N.to_nat cap < fuel)%nat ->
  exists mem',
    grow fuel bk cap mem bottom top = Some (mem', wadd 64 bk 1, 2 * cap) /\
    (forall b x, b <= k -> mget mem' b x = mget mem b x) /\
    forall i, top <= i < bottom -> rde mem' i (2 * cap) = rde mem i cap.
Proof.
  intros Hk -> Htb Hsz Hb Hf. assert (Hp := pow2_pos k).
  assert (Hc := cap_bound29 k ltac:(lia)).
  assert (Ht : top < 2 ^ 63) by lia.
  unfold grow. cbv zeta. rewrite wmul_cap by lia.
  rewrite (land_mask k top), (land_mask2 k top) by lia.
  destruct (start_props k top ltac:(lia) Ht) as (q & Hq & Hs). cbv zeta in Hs.
  set (s := if top mod 2 ^ k =? top mod (2 * 2 ^ k) then _ else top) in *.
  rewrite pow2_63 in *.
  assert (HE : 2 * 2 ^ k * (q + 1) < 2 ^ 64) by (rewrite pow2_64; lia).
  destruct (grow_loop_spec k (2 ^ k) q bottom top (wadd 64 bk 1) (2 ^ k) (2 ^ k) (2 * 2 ^ k) s (top mod 2 ^ k)
              ltac:(lia) eq_refl HE fuel mem s) as (mem' & i' & Hrun & Ha & Hbb & _); [lia|lia|].
  rewrite Hrun. exists mem'. split; [reflexivity|]. split; [exact Ha|].
  intros i Hi.
  assert (Hlow : i mod (2 * 2 ^ k) < 2 ^ k -> rde mem' i (2 * 2 ^ k) = rde mem i (2 ^ k)).
  { intros Hl. unfold rde. rewrite (get_entry_lower_half k (2 ^ k) i) by (try exact Hl; lia || reflexivity).
    apply Ha. apply old_bucket. lia. }
  destruct (N.lt_ge_cases i s) as [His|His].
  - apply Hlow. rewrite (win_mod2 (2 ^ k) q i) by lia. lia.
  - destruct (N.lt_ge_cases i (2 * 2 ^ k * (q + 1))) as [HiE|HiE].
    + apply Hbb; lia.
    + apply Hlow. rewrite (win_mod2 (2 ^ k) (q + 1) i) by lia. lia.
Qed.

Theorem grow_total k cap fuel bk mem bottom top :
  1 <= k <= 29 -> cap = 2 ^ k -> top <= bottom -> bottom - top <= cap -> bottom < 2 ^ 63 ->
  (N.to_nat cap < fuel)%nat ->
  grow fuel bk cap mem bottom top <> None.
Proof.
  intros Hk Hcap Htb Hsz Hb Hf.
  destruct (grow_spec k cap fuel bk mem bottom top Hk Hcap Htb Hsz Hb Hf) as (mem' & E & _).
  rewrite E. discriminate.
Qed.

Theorem grow_preserves k cap fuel bk mem bottom top mem' bk' cap' :
  1 <= k <= 29 -> cap = 2 ^ k -> top <= bottom -> bottom - top <= cap -> bottom < 2 ^ 63 ->
  (N.to_nat cap < fuel)%nat ->
  grow fuel bk cap mem bottom top = Some (mem', bk', cap') ->
  cap' = 2 * cap /\ bk' = wadd 64 bk 1 /\
  forall i, top <= i < bottom ->
    mget mem' (fst (get_entry i cap')) (snd (get_entry i cap')) =
    mget mem (fst (get_entry i cap)) (snd (get_entry i cap)).
Proof.
  intros Hk Hcap Htb Hsz Hb Hf Hg.
  destruct (grow_spec k cap fuel bk mem bottom top Hk Hcap Htb Hsz Hb Hf) as (m & E & _ & Hpres).
  rewrite E in Hg. injection Hg as <- <- <-.
  split; [reflexivity|]. split; [reflexivity|]. exact Hpres.
Qed.

(** * 6. [ChaseDefs.grow_moves] lists exactly the copies performed by the generated [grow] *)

Definition apply_move (m : mem_t) (p : (N * N) * (N * N)) : mem_t :=
  mset m (fst (snd p)) (snd (snd p)) (mget m (fst (fst p)) (snd (fst p))).

Lemma grow_loop_moves bot tp bk fc cc m ncap nm st sm :
  forall fuel mem i mem' i',
  grow_loop fuel bot tp bk fc cc m ncap nm st sm mem i = Some (mem', i') ->
  fold_left apply_move (grow_moves_from fuel i bot m nm) mem = mem'.
Proof.
  induction fuel as [|f IH]; intros mem i mem' i' H; [discriminate|].
  rewrite grow_loop_S in H. cbn [grow_moves_from].
  destruct (i <? bot).
  - destruct (negb (N.land i m =? N.land i nm)).
    + cbn [fold_left]. apply IH in H. exact H.
    + injection H as <- _. reflexivity.
  - injection H as <- _. reflexivity.
Qed.

Lemma grow_loop_fuel_S bot tp bk fc cc m ncap nm st sm :
  forall fuel mem i r,
  grow_loop fuel bot tp bk fc cc m ncap nm st sm mem i = Some r ->
  grow_loop (S fuel) bot tp bk fc cc m ncap nm st sm mem i = Some r.
Proof.
  induction fuel as [|f IH]; intros mem i r H; [discriminate|].
  rewrite grow_loop_S in H. rewrite grow_loop_S.
  destruct (i <? bot); [|exact H].
  destruct (negb (N.land i m =? N.land i nm)); [|exact H].
  apply IH. exact H.
Qed.

Lemma grow_loop_fuel_mono bot tp bk fc cc m ncap nm st sm fuel fuel' mem i r :
  (fuel <= fuel')%nat ->
  grow_loop fuel bot tp bk fc cc m ncap nm st sm mem i = Some r ->
  grow_loop fuel' bot tp bk fc cc m ncap nm st sm mem i = Some r.
Proof.
  intros Hle H. induction Hle; [exact H|]. apply grow_loop_fuel_S. exact IHHle.
Qed.

Lemma grow_loop_det bot tp bk fc cc m ncap nm st sm f1 f2 mem i r1 r2 :
  grow_loop f1 bot tp bk fc cc m ncap nm st sm mem i = Some r1 ->
  grow_loop f2 bot tp bk fc cc m ncap nm st sm mem i = Some r2 -> r1 = r2.
Proof.
  intros H1 H2. destruct (Nat.le_ge_cases f1 f2) as [L|L].
  - apply (grow_loop_fuel_mono _ _ _ _ _ _ _ _ _ _ _ _ _ _ _ L) in H1. congruence.
  - apply (grow_loop_fuel_mono _ _ _ _ _ _ _ _ _ _ _ _ _ _ _ L) in H2. congruence.
Qed.

Lemma grow_unfold fuel bk cap mem bottom top :
  grow fuel bk cap mem bottom top =
  match grow_loop fuel bottom top (wadd 64 bk 1) cap cap (wsub 64 cap 1) (wmul 64 cap 2)
          (wsub 64 (wmul 64 cap 2) 1) (grow_start cap top) (N.land top (wsub 64 cap 1)) mem
          (grow_start cap top) with
  | None => None
  | Some (m2, _) => Some (m2, wadd 64 bk 1, wmul 64 cap 2)
  end.
Proof. reflexivity. Qed.

Theorem grow_moves_gen_eq k cap fuel bk mem bottom top mem' bk' cap' :
  1 <= k <= 29 -> cap = 2 ^ k -> top <= bottom -> bottom - top <= cap -> bottom < 2 ^ 63 ->
  (N.to_nat cap < fuel)%nat ->
  grow fuel bk cap mem bottom top = Some (mem', bk', cap') ->
  fold_left (fun m (p : (N * N) * (N * N)) =>
               mset m (fst (snd p)) (snd (snd p)) (mget m (fst (fst p)) (snd (fst p))))
            (grow_moves cap bottom top) mem = mem'.
Proof.
  intros Hk Hcap Htb Hsz Hb Hf Hg.
  change (fold_left apply_move (grow_moves cap bottom top) mem = mem').
  rewrite grow_unfold in Hg.
  destruct (grow_loop fuel _ _ _ _ _ _ _ _ _ _ _ _) as [[m2 i2]|] eqn:E1; [|discriminate].
  injection Hg as <- _ _.
  assert (Ht := grow_total k cap (S (N.to_nat cap)) bk mem bottom top Hk Hcap Htb Hsz Hb ltac:(lia)).
  rewrite grow_unfold in Ht.
  destruct (grow_loop (S (N.to_nat cap)) _ _ _ _ _ _ _ _ _ _ _ _) as [[m0 i0]|] eqn:E0; [|contradiction].
  unfold grow_moves. rewrite (grow_loop_moves _ _ _ _ _ _ _ _ _ _ _ _ _ _ _ E0).
  assert (D := grow_loop_det _ _ _ _ _ _ _ _ _ _ _ _ _ _ _ _ E0 E1). congruence.
Qed.

Theorem grow_moves_gen k cap fuel bk mem bottom top mem' bk' cap' :
  1 <= k <= 29 -> cap = 2 ^ k -> top <= bottom -> bottom - top <= cap -> bottom < 2 ^ 63 ->
  (N.to_nat cap < fuel)%nat ->
  grow fuel bk cap mem bottom top = Some (mem', bk', cap') ->
  forall b i,
  mget (fold_left (fun m (p : (N * N) * (N * N)) =>
                     mset m (fst (snd p)) (snd (snd p)) (mget m (fst (fst p)) (snd (fst p))))
                  (grow_moves cap bottom top) mem) b i = mget mem' b i.
Proof.
  intros Hk Hcap Htb Hsz Hb Hf Hg b i.
  rewrite (grow_moves_gen_eq k cap fuel bk mem bottom top mem' bk' cap' Hk Hcap Htb Hsz Hb Hf Hg).
  reflexivity.
Qed.
