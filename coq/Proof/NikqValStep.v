(** nikolaev_queue model, value layer: the value invariant [VI] (Proof/NikqVal.v) holds in every good state. *)
From Coq Require Import NArith List Bool Lia PeanoNat.
From XV Require Import Base.Word Conc.Lts Conc.Ev gen.ScqGen Model.NikbDefs Model.NikqDefs.
From XV Require Import Proof.NikbArith Proof.NikbBase Proof.NikbWf Proof.NikbOwn Proof.NikbVal Proof.NikbSafe Proof.NikbCons.
From XV Require Import Proof.NikqBase Proof.NikqRing Proof.NikqChain Proof.NikqVal.
Import ListNotations.
Local Open Scope N_scope.

Lemma in_snoc3 (x y : N * N * N) l : In x (l ++ [y]) -> In x l \/ x = y.
Proof. intros H. apply in_app_or in H. destruct H as [H|[H|[]]]; [left; exact H|right; symmetry; exact H]. Qed.

Lemma nodup_snoc_key (l : list (N * N * N)) a v : NoDup (map fst l) -> (forall w, ~ In (a, w) l) -> NoDup (map fst (l ++ [(a, v)])).
Proof.
  intros Hnd Hni. rewrite map_app. cbn [map fst].
  induction l as [|[b w] l IH]; cbn [map fst app] in *; [constructor; [intros []|constructor]|].
  inversion Hnd as [|? ? Hx Hy]; subst. constructor.
  - intros Hi. apply in_app_or in Hi. destruct Hi as [Hi|[Hi|[]]]; [contradiction|]. subst b. apply (Hni w). left. reflexivity.
  - apply IH; [exact Hy|]. intros w' Hw. apply (Hni w'). right. exact Hw.
Qed.

Lemma key_unique (l : list (N * N * N)) a v w : NoDup (map fst l) -> In (a, v) l -> In (a, w) l -> v = w.
Proof.
  induction l as [|[b u] l IH]; cbn [map fst]; intros Hnd H1 H2; [destruct H1|].
  inversion Hnd as [|? ? Hx Hy]; subst.
  destruct H1 as [H1|H1], H2 as [H2|H2].
  - congruence.
  - inversion H1; subst. exfalso. apply Hx. apply (in_map fst) in H2. exact H2.
  - inversion H2; subst. exfalso. apply Hx. apply (in_map fst) in H1. exact H1.
  - apply IH; assumption.
Qed.

Set Default Proof Using "All".
Section ValStep.
  Variable k R : N.
  Hypothesis Hk : k <= 40.
  Notation cap := (2 ^ k).
  Notation step := (NikbDefs.step cap R).
  Notation qstep := (NikqDefs.qstep cap R).
  Notation RingInv := (RingInv k).
  Notation VI := (VI k).
  Notation T3q := (T3q).
  Notation good := (good k R).

  (** two threads never hold the same cell of a node *)
  Lemma cell_excl sg t u q q' i : Inv2 k sg -> u <> t -> hidx (th sg t) = Some (q, i) -> hidx (th sg u) = Some (q', i) -> False.
  Proof.
    intros I2 Hne H1 H2. destruct (held_cell k R Hk sg t q i I2 H1) as [A _]. destruct (held_cell k R Hk sg u q' i I2 H2) as [B _].
    rewrite A in B. apply held_inj in B. destruct B as [_ B]. congruence.
  Qed.

  (** the facts about the other threads after a step of t *)
  Lemma T3q_others s s' t :
    CI cap s -> (forall u, u <> t -> oth s' u = oth s u) ->
    (forall u n, u <> t -> n <> nalloc s -> th (nd s' n) u = th (nd s n) u) ->
    (forall x, In x (q_in s) -> In x (q_in s')) -> (forall x, In x (q_out s) -> In x (q_out s')) ->
    (forall u n T, u <> t -> q_ebusy s n T = Some u -> q_ebusy s' n T = Some u) ->
    (forall u n H, u <> t -> q_dbusy s n H = Some u -> q_dbusy s' n H = Some u) ->
    (forall u n q i, u <> t -> In n (q_nodes s) -> hidx (th (nd s n) u) = Some (q, i) -> store (nd s' n) i = store (nd s n) i) ->
    (forall u, T3q s u) -> forall u, u <> t -> T3q s' u.
  Proof.
    intros Hc Ho Hth Hi Hq Hb1 Hb2 Hs HT u Hne.
    apply (T3q_other k R Hk s s' u); [apply Ho; exact Hne| |exact Hi|exact Hq|intros; eapply Hb1; eauto|intros; eapply Hb2; eauto| |apply HT].
    - intros n Hn. apply Hth; [exact Hne|]. pose proof (c_lt cap s Hc n (c_refs cap s Hc u n Hn)). lia.
    - intros n q i Hn Hh. apply (Hs u n q i Hne); [apply (c_refs cap s Hc u n Hn)|exact Hh].
  Qed.

  Lemma vsame_enter sg t p : vsame sg (enter sg t p).
  Proof. unfold enter. repeat split. Qed.
  Lemma vsame_thr sg t p x : vsame sg (enter (w_rg sg RA (r_thr (ra sg) x)) t p).
  Proof. unfold enter. repeat split. Qed.

  Lemma VI_step_simple s a s' es : good s -> VI s -> qstep s a = Some (s', es) ->
    match a with
    | Start _ _ => True
    | Step t => match oth s t with PIn _ _ | PRe _ _ | QIn1 _ _ | QIn2 _ _ | PLink _ _ _ | PSw _ _ _ => False | _ => True end
    end -> VI s'.
  Proof.
    intros Hg HV Hst Hk0. destruct (good_inv k R Hk s Hg) as (Hh & Hc & HR).
    destruct (qstep_eff cap R s a s' es Hh Hst) as [Ho _].
    assert (Hthu : forall u n, u <> tid a -> In n (q_nodes s) -> th (nd s' n) u = th (nd s n) u).
    { intros u n Hne Hn. apply (qstep_th_other k R Hk s a s' es n u Hh Hst); [|exact Hne]. pose proof (c_lt cap s Hc n Hn). lia. }
    assert (Hou : forall u, u <> tid a -> oth s' u = oth s u /\ forall n, In n (q_nodes s) -> th (nd s' n) u = th (nd s n) u)
      by (intros u Hne; split; [apply Ho; exact Hne|intros n Hn; apply Hthu; assumption]).
    assert (Hrf : forall u n, In n (refs (oth s u)) -> In n (q_nodes s)) by (apply (c_refs cap s Hc)).
    clear Ho Hthu. unfold NikqDefs.qstep in Hst. destruct a as [t o|t]; cbn [tid] in *.
    - destruct (oth s t); try discriminate. inversion Hst; subst; clear Hst.
      eapply (VI_same k R Hk s _ t HV); qsimg; try reflexivity; try assumption; [intros; apply (vsame_refl k R Hk)|unfold T3q; qsimg; rewrite upd_same; exact I].
    - pose proof (c_refs cap s Hc t) as Hrt. pose proof (c_priv cap s Hc t) as Hpv.
      destruct (oth s t) as [|[v|tp]| |v|v n|v n|v n nx|v n|v n|v n|v n m0 i|v n m0 i|v n m0|v n m0|v m0 lb|v m0 lb| |n lb|n|n|n lb|n|n nx] eqn:Eo;
        try discriminate; try contradiction; cbn [refs] in Hrt; cbn [priv] in Hpv.
      all: try (break Hst; inversion Hst; subst; clear Hst;
                (eapply (VI_same k R Hk s _ t HV); qsimg; try reflexivity; try assumption;
                 [intros; apply (vsame_refl k R Hk)|unfold T3q; qsimg; rewrite upd_same; exact I])).
      + (* P2 *) destruct (nxt s n =? 0); inversion Hst; subst; clear Hst;
        (eapply (VI_same k R Hk s _ t HV); qsimg; try reflexivity; try assumption).
        * intros m Hm. unfold setf. destruct (N.eqb_spec m n) as [->|]; [apply vsame_enter|apply (vsame_refl k R Hk)].
        * unfold T3q; qsimg; rewrite upd_same, setf_same. unfold enter. sim. rewrite upd_same. exact I.
        * intros; apply (vsame_refl k R Hk).
        * unfold T3q; qsimg; rewrite upd_same; exact I.
      + (* PFin *) unfold new_node in Hst. inversion Hst; subst; clear Hst.
        eapply (VI_same k R Hk s _ t HV); qsimg; try reflexivity; try assumption; [|unfold T3q; qsimg; rewrite upd_same; exact I].
        intros m Hm. rewrite setf_other; [apply (vsame_refl k R Hk)|]. pose proof (c_lt cap s Hc m Hm). lia.
      + (* PSt *) destruct (Hpv m0 eq_refl) as (V1 & _).
        destruct (steal_spec k R Hk _ _ _ _ _ _ _ Hst) as (sg' & es0 & lb' & Hs & [[Hni ->]|[Hi [[x ->]| ->]]]);
        (eapply (VI_same k R Hk s _ t HV); qsimg; try reflexivity; try assumption;
         [intros m Hm; rewrite setf_other; [apply (vsame_refl k R Hk)|intros ->; contradiction]|unfold T3q; qsimg; rewrite upd_same; exact I]).
      + (* PDel *) destruct (Hpv m0 eq_refl) as (V1 & _).
        destruct (del_spec k R Hk _ _ _ _ _ _ _ Hst) as (sg' & es0 & lb' & Hs & [[Hi ->]|[[Hi ->]|(Hni & Hn1 & ->)]]);
        (eapply (VI_same k R Hk s _ t HV); qsimg; try reflexivity; try assumption;
         [intros m Hm; rewrite setf_other; [apply (vsame_refl k R Hk)|intros ->; contradiction]|unfold T3q; qsimg; rewrite upd_same; exact I]).
      + (* Q1 *) inversion Hst; subst; clear Hst.
        eapply (VI_same k R Hk s _ t HV); qsimg; try reflexivity; try assumption.
        * intros m Hm. unfold setf. destruct (N.eqb_spec m (qhead s)) as [->|]; [apply vsame_enter|apply (vsame_refl k R Hk)].
        * unfold T3q; qsimg; rewrite upd_same, setf_same. unfold enter. sim. rewrite upd_same. exact I.
      + (* Q3 *) inversion Hst; subst; clear Hst.
        eapply (VI_same k R Hk s _ t HV); qsimg; try reflexivity; try assumption.
        * intros m Hm. unfold setf. destruct (N.eqb_spec m n) as [->|]; [apply vsame_thr|apply (vsame_refl k R Hk)].
        * unfold T3q; qsimg; rewrite upd_same, setf_same. unfold enter. sim. rewrite upd_same. exact I.
  Qed.

  (** * the steps that change the ghost lists *)
  Definition keyb (n T n' T' : N) : bool := (n' =? n) && (T' =? T).
  Lemma keyb_spec n T n' T' : reflect (n' = n /\ T' = T) (keyb n T n' T').
  Proof. unfold keyb. destruct (N.eqb_spec n' n), (N.eqb_spec T' T); constructor; tauto. Qed.

  Lemma vle_old s s' (Hv : forall m, In m (q_nodes s) -> vle (nd s m) (nd s' m)) (HV : VI s) :
    (forall n i T, In n (q_nodes s) -> i < cap -> g_own (nd s' n) i = OFull T -> In (n, T, store (nd s' n) i) (q_in s)) /\
    (forall n T v, In (n, T, v) (q_in s) -> In n (q_nodes s) /\ exists i, g_eq (ra (nd s' n)) T = EPub i) /\
    (forall n H v, In (n, H, v) (q_out s) -> In (n, H, v) (q_in s) /\ exists i, g_dq (ra (nd s' n)) H = DTaken i) /\
    (forall n H i, In n (q_nodes s) -> g_dq (ra (nd s' n)) H = DTaken i -> exists v, In (n, H, v) (q_out s)).
  Proof.
    destruct HV as [a1 a2 a2n a3 a3n a4 aok aokn aret aretn ab1 ab2 at_]. ssplit.
    - intros n i T Hn Hi Hx. destruct (Hv n Hn) as (A & _). destruct (A i T Hx) as [B ->]. apply a1; assumption.
    - intros n T v Hx. destruct (a2 n T v Hx) as [Hn [i Hy]]. split; [exact Hn|]. exists i. destruct (Hv n Hn) as (_ & C & _). apply C. exact Hy.
    - intros n H v Hx. destruct (a3 n H v Hx) as [Hy [i Hz]]. split; [exact Hy|]. exists i.
      destruct (a2 n H v Hy) as [Hn _]. destruct (Hv n Hn) as (_ & _ & D). apply D. exact Hz.
    - intros n H i Hn Hx. apply (a4 n H i Hn). destruct (Hv n Hn) as (_ & _ & D). apply D. exact Hx.
  Qed.

  Lemma VI_ret_push s s' t n gk x :
    VI s -> q_nodes s' = q_nodes s -> q_in s' = q_in s -> q_out s' = q_out s -> q_ret s' = q_ret s -> q_dbusy s' = q_dbusy s ->
    q_ok s' = q_ok s ++ [(n, gk, x)] ->
    (forall n' T', q_ebusy s' n' T' = if keyb n gk n' T' then None else q_ebusy s n' T') ->
    In (n, gk, x) (q_in s) -> q_ebusy s n gk = Some t ->
    (forall m, In m (q_nodes s) -> vle (nd s m) (nd s' m)) -> (forall u, T3q s' u) -> VI s'.
  Proof.
    intros HV En Ei Eo Er Edb Eok Eeb Hin Hb Hv Ht. destruct (vle_old s s' Hv HV) as (b1 & b2 & b3 & b4).
    destruct HV as [a1 a2 a2n a3 a3n a4 aok aokn aret aretn ab1 ab2 at_].
    constructor; rewrite ?En, ?Ei, ?Eo, ?Er, ?Edb, ?Eok; try assumption.
    - intros n' T v Hx. rewrite Eeb. apply in_snoc3 in Hx. destruct Hx as [Hx|Hx].
      + destruct (aok n' T v Hx) as [A B]. split; [exact A|]. destruct (keyb n gk n' T); [reflexivity|exact B].
      + inversion Hx; subst. split; [exact Hin|]. destruct (keyb_spec n gk n gk) as [_|Hf]; [reflexivity|exfalso; apply Hf; auto].
    - apply nodup_snoc_key; [exact aokn|]. intros w Hw. destruct (aok n gk w Hw) as [_ B]. congruence.
    - intros n' T u. rewrite Eeb. destruct (keyb n gk n' T); [discriminate|apply ab1].
  Qed.

  Lemma VI_ret_pop s s' t n gk x :
    VI s -> q_nodes s' = q_nodes s -> q_in s' = q_in s -> q_out s' = q_out s -> q_ok s' = q_ok s -> q_ebusy s' = q_ebusy s ->
    q_ret s' = q_ret s ++ [(n, gk, x)] ->
    (forall n' T', q_dbusy s' n' T' = if keyb n gk n' T' then None else q_dbusy s n' T') ->
    In (n, gk, x) (q_out s) -> q_dbusy s n gk = Some t ->
    (forall m, In m (q_nodes s) -> vle (nd s m) (nd s' m)) -> (forall u, T3q s' u) -> VI s'.
  Proof.
    intros HV En Ei Eo Eok Eeb Er Edb Hin Hb Hv Ht. destruct (vle_old s s' Hv HV) as (b1 & b2 & b3 & b4).
    destruct HV as [a1 a2 a2n a3 a3n a4 aok aokn aret aretn ab1 ab2 at_].
    constructor; rewrite ?En, ?Ei, ?Eo, ?Er, ?Eeb, ?Eok; try assumption.
    - intros n' T v Hx. rewrite Edb. apply in_snoc3 in Hx. destruct Hx as [Hx|Hx].
      + destruct (aret n' T v Hx) as [A B]. split; [exact A|]. destruct (keyb n gk n' T); [reflexivity|exact B].
      + inversion Hx; subst. split; [exact Hin|]. destruct (keyb_spec n gk n gk) as [_|Hf]; [reflexivity|exfalso; apply Hf; auto].
    - apply nodup_snoc_key; [exact aretn|]. intros w Hw. destruct (aret n gk w Hw) as [_ B]. congruence.
    - intros n' T u. rewrite Edb. destruct (keyb n gk n' T); [discriminate|apply ab2].
  Qed.

  Lemma VI_pub s s' t n T x idx :
    VI s -> In n (q_nodes s) -> q_nodes s' = q_nodes s -> q_in s' = q_in s ++ [(n, T, x)] ->
    q_out s' = q_out s -> q_ok s' = q_ok s -> q_ret s' = q_ret s -> q_dbusy s' = q_dbusy s ->
    (forall n' T', q_ebusy s' n' T' = if keyb n T n' T' then Some t else q_ebusy s n' T') ->
    (forall m, In m (q_nodes s) -> m <> n -> vle (nd s m) (nd s' m)) ->
    (forall i T', g_own (nd s' n) i = OFull T' -> (i <> idx /\ g_own (nd s n) i = OFull T') \/ (i = idx /\ T' = T)) ->
    (forall i, store (nd s' n) i = store (nd s n) i) -> store (nd s n) idx = x ->
    (forall T' i, g_eq (ra (nd s' n)) T' = EPub i <-> (g_eq (ra (nd s n)) T' = EPub i \/ (T' = T /\ i = idx))) ->
    (forall H i, g_dq (ra (nd s' n)) H = DTaken i <-> g_dq (ra (nd s n)) H = DTaken i) ->
    g_eq (ra (nd s n)) T = EHeld t ->
    (forall u, T3q s' u) -> VI s'.
  Proof.
    intros HV Hn En Ei Eo Eok Er Edb Eeb Hv Hown Hst Hx0 Hpub Htak Hheld Ht.
    assert (Hv' : forall m, In m (q_nodes s) -> m <> n -> _) by exact Hv.
    destruct HV as [a1 a2 a2n a3 a3n a4 aok aokn aret aretn ab1 ab2 at_].
    assert (Hfresh : forall w, ~ In (n, T, w) (q_in s)).
    { intros w Hw. destruct (a2 n T w Hw) as [_ [i Hi]]. rewrite Hheld in Hi. discriminate. }
    constructor; rewrite ?En, ?Ei, ?Eo, ?Er, ?Edb, ?Eok; try assumption.
    - intros m i T' Hm Hi Hx. apply in_or_app. destruct (N.eq_dec m n) as [->|Hne].
      + rewrite Hst. destruct (Hown i T' Hx) as [[Hni Hy]|[-> ->]]; [left; apply a1; assumption|right; left; rewrite Hx0; reflexivity].
      + left. destruct (Hv m Hm Hne) as (A & _). destruct (A i T' Hx) as [B ->]. apply a1; assumption.
    - intros m T' v Hx. apply in_snoc3 in Hx. destruct Hx as [Hx|Hx].
      + destruct (a2 m T' v Hx) as [Hm [i Hy]]. split; [exact Hm|]. exists i. destruct (N.eq_dec m n) as [->|Hne].
        * apply Hpub. left. exact Hy.
        * destruct (Hv m Hm Hne) as (_ & C & _). apply C. exact Hy.
      + inversion Hx; subst. split; [exact Hn|]. exists idx. apply Hpub. right. auto.
    - apply nodup_snoc_key; [exact a2n|exact Hfresh].
    - intros m H v Hx. destruct (a3 m H v Hx) as [Hy [i Hz]]. split; [apply in_or_app; left; exact Hy|]. exists i.
      destruct (a2 m H v Hy) as [Hm _]. destruct (N.eq_dec m n) as [->|Hne]; [apply Htak; exact Hz|].
      destruct (Hv m Hm Hne) as (_ & _ & D). apply D. exact Hz.
    - intros m H i Hm Hx. apply (a4 m H i Hm). destruct (N.eq_dec m n) as [->|Hne]; [apply Htak; exact Hx|].
      destruct (Hv m Hm Hne) as (_ & _ & D). apply D. exact Hx.
    - intros m T' v Hx. destruct (aok m T' v Hx) as [A B]. split; [apply in_or_app; left; exact A|]. rewrite Eeb.
      destruct (keyb_spec n T m T') as [[-> ->]|_]; [exfalso; apply (Hfresh v A)|exact B].
    - intros m T' u. rewrite Eeb. destruct (keyb_spec n T m T') as [[-> ->]|_].
      + intros _. exists x. apply in_or_app. right. left. reflexivity.
      + intros Hx. destruct (ab1 m T' u Hx) as [v Hv0]. exists v. apply in_or_app. left. exact Hv0.
  Qed.

  Lemma VI_take s s' t n H0 i0 :
    VI s -> In n (q_nodes s) -> q_nodes s' = q_nodes s -> q_in s' = q_in s ->
    q_out s' = q_out s ++ [(n, H0, store (nd s n) i0)] -> q_ok s' = q_ok s -> q_ret s' = q_ret s -> q_ebusy s' = q_ebusy s ->
    (forall n' T', q_dbusy s' n' T' = if keyb n H0 n' T' then Some t else q_dbusy s n' T') ->
    (forall m, In m (q_nodes s) -> m <> n -> vle (nd s m) (nd s' m)) ->
    (forall i T, g_own (nd s' n) i = OFull T -> i <> i0 /\ g_own (nd s n) i = OFull T) ->
    (forall i, store (nd s' n) i = store (nd s n) i) ->
    (forall T i, g_eq (ra (nd s' n)) T = EPub i <-> g_eq (ra (nd s n)) T = EPub i) ->
    (forall H i, g_dq (ra (nd s' n)) H = DTaken i <-> (g_dq (ra (nd s n)) H = DTaken i \/ (H = H0 /\ i = i0))) ->
    g_dq (ra (nd s n)) H0 = DHeld t -> g_own (nd s n) i0 = OFull H0 -> i0 < cap ->
    (forall u, T3q s' u) -> VI s'.
  Proof.
    intros HV Hn En Ei Eo Eok Er Eeb Edb Hv Hown Hst Hpub Htak Hheld Hfull Hi0 Ht.
    destruct HV as [a1 a2 a2n a3 a3n a4 aok aokn aret aretn ab1 ab2 at_].
    assert (Hfresh : forall w, ~ In (n, H0, w) (q_out s)).
    { intros w Hw. destruct (a3 n H0 w Hw) as [_ [i Hi]]. rewrite Hheld in Hi. discriminate. }
    constructor; rewrite ?En, ?Ei, ?Eo, ?Er, ?Eeb, ?Eok; try assumption.
    - intros m i T Hm Hi Hx. destruct (N.eq_dec m n) as [->|Hne].
      + rewrite Hst. destruct (Hown i T Hx) as [_ Hy]. apply a1; assumption.
      + destruct (Hv m Hm Hne) as (A & _). destruct (A i T Hx) as [B ->]. apply a1; assumption.
    - intros m T v Hx. destruct (a2 m T v Hx) as [Hm [i Hy]]. split; [exact Hm|]. exists i. destruct (N.eq_dec m n) as [->|Hne].
      + apply Hpub. exact Hy.
      + destruct (Hv m Hm Hne) as (_ & C & _). apply C. exact Hy.
    - intros m H v Hx. apply in_snoc3 in Hx. destruct Hx as [Hx|Hx].
      + destruct (a3 m H v Hx) as [Hy [i Hz]]. split; [exact Hy|]. exists i.
        destruct (a2 m H v Hy) as [Hm _]. destruct (N.eq_dec m n) as [->|Hne]; [apply Htak; left; exact Hz|].
        destruct (Hv m Hm Hne) as (_ & _ & D). apply D. exact Hz.
      + inversion Hx; subst. split; [apply a1; assumption|]. exists i0. apply Htak. right. auto.
    - apply nodup_snoc_key; [exact a3n|exact Hfresh].
    - intros m H i Hm Hx. destruct (N.eq_dec m n) as [->|Hne].
      + apply Htak in Hx. destruct Hx as [Hx|[-> ->]].
        * destruct (a4 n H i Hm Hx) as [v Hv0]. exists v. apply in_or_app. left. exact Hv0.
        * eexists. apply in_or_app. right. left. reflexivity.
      + destruct (Hv m Hm Hne) as (_ & _ & D). apply D in Hx. destruct (a4 m H i Hm Hx) as [v Hv0]. exists v. apply in_or_app. left. exact Hv0.
    - intros m T v Hx. destruct (aret m T v Hx) as [A B]. split; [apply in_or_app; left; exact A|]. rewrite Edb.
      destruct (keyb_spec n H0 m T) as [[-> ->]|_]; [exfalso; apply (Hfresh v A)|exact B].
    - intros m T u. rewrite Edb. destruct (keyb_spec n H0 m T) as [[-> ->]|_].
      + intros _. eexists. apply in_or_app. right. left. reflexivity.
      + intros Hx. destruct (ab2 m T u Hx) as [v Hv0]. exists v. apply in_or_app. left. exact Hv0.
  Qed.

  Lemma VI_link s s' t m v :
    VI s -> ~ In m (q_nodes s) -> nd s m = used_init cap v ->
    q_nodes s' = q_nodes s ++ [m] -> q_in s' = q_in s ++ [(m, 0, v)] ->
    q_out s' = q_out s -> q_ok s' = q_ok s -> q_ret s' = q_ret s -> q_dbusy s' = q_dbusy s ->
    (forall n' T', q_ebusy s' n' T' = if keyb m 0 n' T' then Some t else q_ebusy s n' T') ->
    (forall n, nd s' n = nd s n) -> (forall u, T3q s' u) -> VI s'.
  Proof.
    intros HV Hm Hinit En Ei Eo Eok Er Edb Eeb Hnd Ht.
    destruct HV as [a1 a2 a2n a3 a3n a4 aok aokn aret aretn ab1 ab2 at_].
    assert (Hfresh : forall T w, ~ In (m, T, w) (q_in s)) by (intros T w Hw; destruct (a2 m T w Hw) as [Hx _]; contradiction).
    constructor; rewrite ?En, ?Ei, ?Eo, ?Er, ?Edb, ?Eok; try assumption.
    - intros n i T Hn Hi. rewrite Hnd. apply in_app_or in Hn. destruct Hn as [Hn|[<-|[]]].
      + intros Hx. apply in_or_app. left. apply a1; assumption.
      + rewrite Hinit. cbn [used_init g_own store]. destruct (N.eqb_spec i 0) as [->|]; [|discriminate].
        intros Hx. inversion Hx; subst. apply in_or_app. right. left. reflexivity.
    - intros n T w Hx. rewrite Hnd. apply in_snoc3 in Hx. destruct Hx as [Hx|Hx].
      + destruct (a2 n T w Hx) as [A B]. split; [apply in_or_app; left; exact A|exact B].
      + inversion Hx; subst. split; [apply in_or_app; right; left; reflexivity|]. rewrite Hinit. exists 0. reflexivity.
    - apply nodup_snoc_key; [exact a2n|apply Hfresh].
    - intros n H w Hx. rewrite Hnd. destruct (a3 n H w Hx) as [A B]. split; [apply in_or_app; left; exact A|exact B].
    - intros n H i Hn. rewrite Hnd. apply in_app_or in Hn. destruct Hn as [Hn|[<-|[]]]; [apply a4; exact Hn|].
      rewrite Hinit. cbn [used_init rgs g_dq]. discriminate.
    - intros n T w Hx. destruct (aok n T w Hx) as [A B]. split; [apply in_or_app; left; exact A|]. rewrite Eeb.
      destruct (keyb_spec m 0 n T) as [[-> ->]|_]; [exfalso; apply (Hfresh 0 w A)|exact B].
    - intros n T u. rewrite Eeb. destruct (keyb_spec m 0 n T) as [[-> ->]|_].
      + intros _. exists v. apply in_or_app. right. left. reflexivity.
      + intros Hx. destruct (ab1 n T u Hx) as [w Hw]. exists w. apply in_or_app. left. exact Hw.
  Qed.

  (** * the local facts of a thread inside an enqueue: [side] = RA for try_push, RF for the second half of do_pop;
      [A gk x] = the pair (gk, x) is recorded (published / taken) and the thread is its busy thread *)
  Definition LF (A : N -> N -> Prop) (sg : state) (p : pc) (side : rid) : Prop :=
    match side, p with
    | RA, (E2 RA x i _ _ | E3 RA x i _ _ _ | E4 RA x i _ _ _) => store sg i = x
    | RA, (E5 RA x i gk | E6 RA x i gk) => A gk x
    | RF, E1 RF x i gk => A gk (store sg i)
    | RF, (E2 RF x i gk _ | E3 RF x i gk _ _ | E4 RF x i gk _ _) => A gk x /\ store sg i = x
    | RF, (E5 RF x i gk | E6 RF x i gk) => A gk x
    | _, _ => True
    end.

  Lemma LF_en_eval A sg q x idx gk tl e side :
    (match side, q with RA, RA => store sg idx = x | RF, RF => A gk x /\ store sg idx = x | _, _ => True end) ->
    LF A sg (en_eval cap q x idx gk tl e) side.
  Proof.
    intros H. destruct (en_eval_cases cap q x idx gk tl e) as [(_ & _ & ->)|[(_ & _ & _ & ->)| ->]]; destruct side, q; cbn [LF]; try exact I; try exact H.
    destruct H as [H1 H2]. rewrite H2. exact H1.
  Qed.

  Lemma LF_dq_eval A sg q x hd att e side : LF A sg (dq_eval cap q x hd att e) side.
  Proof.
    destruct (dq_eval_cases cap q x hd att e) as [[_ ->]|[_ [[_ [[_ ->]|[_ [[_ ->]|[_ ->]]]]]|[_ ->]]]]; destruct side; exact I.
  Qed.

  Lemma LF_step A sg t sg' es side : step sg (Step t) = Some (sg', es) ->
    (forall x idx gk tl e, th sg t = E4 RA x idx gk tl e -> side = RA -> rdata (ra sg) (phys cap tl) <> e) ->
    (forall x hd e, th sg t = D3 RA x hd e -> side <> RF) ->
    LF A sg (th sg t) side -> LF A sg' (th sg' t) side.
  Proof.
    intros Hst Hn4 Hn3.
    unfold NikbDefs.step, step_gen in Hst.
    destruct (th sg t) as [|[v|tp]|q x|q x|q x hd att|q x hd e|q x hd att e|q x hd att e enew|q x hd|q x|q x tl hd|q x tl|q x
                           |q x idx gk|q x idx gk tl|q x idx gk tl e|q x idx gk tl e|q x idx gk|q x idx gk] eqn:Ep; try discriminate.
    all: repeat match type of Hst with context [if ?c then _ else _] => destruct c eqn:? end.
    all: try (match goal with qq : rid |- _ => destruct qq end).
    all: inversion Hst; subst; clear Hst; sim; rewrite ?th_mark_left', ?th_mark_skip'; sim; rewrite upd_same.
    all: try (intros _; apply LF_dq_eval).
    all: try (intros _; destruct side; exact I).
    all: unfold mark_left, mark_skip; try (match goal with |- context [leaves ?p] => destruct (leaves p) end);
         try (match goal with |- context [skips ?p] => destruct (skips p) end); sim.
    all: try (intros HL; apply LF_en_eval; destruct side; cbn [LF] in *; sim; try exact I; try exact HL; try tauto).
    all: try (destruct side; cbn [LF]; sim; try tauto; try (intros; exact I)).
    all: try (intros _; unfold setf; rewrite N.eqb_refl; reflexivity).
    all: try (exfalso; eapply Hn3; eauto; fail).
    all: try (exfalso; eapply Hn4; eauto; apply N.eqb_eq; assumption).
    all: try (intros _; exact I).
    all: intros [H1 H2]; rewrite H2; exact H1.
  Qed.

  Lemma istep_native sg f lb t sg' es lb' : istep cap R sg f lb t = Some (sg', es, lb') ->
    (match th sg t with D4 RA _ _ _ _ | D6 RA _ _ | C1 RA _ _ _ | C2 RA _ _ => True | _ => False end /\
     isD RA (th sg' t) = true /\ forall i, store sg' i = store sg i) \/
    step sg (Step t) = Some (sg', es).
  Proof.
    intros H. unfold istep in H.
    assert (Hn : forall r, match step sg (Step t) with Some (sg'0, es0) => Some (sg'0, es0, false) | None => None end = Some r ->
                   step sg (Step t) = Some (fst (fst r), snd (fst r))).
    { intros [[a b] c] Hx. destruct (step sg (Step t)) as [[s1 e1]|] eqn:E; [|discriminate]. injection Hx as -> -> _. reflexivity. }
    destruct (th sg t) as [|o|q x|q x|q x hd att|q x hd e|q x hd att e|q x hd att e enew|q x hd|q x|q x tl hd|q x tl|q x
                          |q x idx gk|q x idx gk tl|q x idx gk tl e|q x idx gk tl e|q x idx gk|q x idx gk] eqn:Ep;
      try (right; exact (Hn _ H)); destruct q; try (right; exact (Hn _ H)).
    all: left; split; [exact I|].
    all: repeat match type of H with context [if ?c then _ else _] => destruct c end.
    all: injection H as Hs _ _; rewrite <- Hs; unfold mark_left; cbn [leaves]; sim; rewrite upd_same; split; [reflexivity|reflexivity].
  Qed.

  Lemma LF_istep A sg f lb t sg' es lb' side : istep cap R sg f lb t = Some (sg', es, lb') ->
    (forall x idx gk tl e, th sg t = E4 RA x idx gk tl e -> side = RA -> rdata (ra sg) (phys cap tl) <> e) ->
    (forall x hd e, th sg t = D3 RA x hd e -> side <> RF) ->
    LF A sg (th sg t) side -> LF A sg' (th sg' t) side.
  Proof.
    intros H Hn4 Hn3 HL. destruct (istep_native _ _ _ _ _ _ _ H) as [(_ & Hd & _)|Hs]; [|eapply LF_step; eauto].
    destruct (th sg' t); try discriminate; destruct side; exact I.
  Qed.

  Lemma store_other_native sg t sg' es u q i : Inv2 k sg -> step sg (Step t) = Some (sg', es) -> u <> t ->
    hidx (th sg u) = Some (q, i) -> store sg' i = store sg i.
  Proof.
    intros I2 Hst Hne Hh. destruct (step_store k R Hk _ _ _ _ i Hst) as [E|(x & gk & Ep & _)]; [exact E|exfalso].
    apply (cell_excl sg t u RA q i I2 Hne); [rewrite Ep; reflexivity|exact Hh].
  Qed.

  Lemma store_other_istep sg f lb t sg' es lb' u q i : Inv2 k sg -> istep cap R sg f lb t = Some (sg', es, lb') -> u <> t ->
    hidx (th sg u) = Some (q, i) -> store sg' i = store sg i.
  Proof.
    intros I2 H Hne Hh. destruct (istep_native _ _ _ _ _ _ _ H) as [(_ & _ & Hs)|Hs]; [apply Hs|eapply store_other_native; eauto].
  Qed.

  Lemma pub_ghost_id st s1 t n sg :
    (forall x idx gk tl e, th sg t = E4 RA x idx gk tl e -> rdata (ra sg) (phys cap tl) <> e) -> pub_ghost cap st s1 t n sg = s1.
  Proof.
    intros H. unfold pub_ghost. destruct (th sg t) eqn:Ep; try reflexivity. destruct q; try reflexivity.
    destruct (N.eqb_spec (rdata (ra sg) (phys cap tl)) e) as [Hc|]; [exfalso; eapply H; eauto|reflexivity].
  Qed.

  Lemma take_ghost_id st s1 t n sg : (forall x hd e, th sg t <> D3 RA x hd e) -> take_ghost cap st s1 t n sg = s1.
  Proof.
    intros H. unfold take_ghost. destruct (th sg t) eqn:Ep; try reflexivity. destruct q; try reflexivity. exfalso. eapply H; eauto.
  Qed.

  Lemma step_ret_rf sg t sg' es x i gk : step sg (Step t) = Some (sg', es) -> th sg t = E5 RF x i gk \/ th sg t = E6 RF x i gk ->
    th sg' t = Idle -> ret_of es = Some [1; x].
  Proof.
    intros Hst [Ep|Ep] Hi; unfold NikbDefs.step, step_gen in Hst; rewrite Ep in Hst.
    - destruct (_ =? _); inversion Hst; subst; clear Hst; [reflexivity|]. sim. rewrite upd_same in Hi. discriminate.
    - inversion Hst; subst; clear Hst. reflexivity.
  Qed.

  (** what a reachable good state provides for a step *)
  Lemma step_ctx s a s' es : good s -> qstep s a = Some (s', es) ->
    Coh s /\ CI cap s /\ (forall n, RingInv (nd s n)) /\ PT s /\
    (forall u, u <> tid a -> oth s' u = oth s u) /\
    (forall u n, u <> tid a -> n <> nalloc s -> th (nd s' n) u = th (nd s n) u).
  Proof.
    intros Hg Hst. destruct (good_inv k R Hk s Hg) as (Hh & Hc & HR). destruct Hg as [Hr _].
    ssplit; try assumption.
    - apply (PT_reach k R Hk s Hr).
    - apply (qstep_eff cap R s a s' es Hh Hst).
    - intros u n Hne Hn. apply (qstep_th_other k R Hk s a s' es n u Hh Hst Hn Hne).
  Qed.

  Lemma ebusy_set s n T x n' T' :
    q_ebusy (w_qebusy s n T x) n' T' = if keyb n T n' T' then x else q_ebusy s n' T'.
  Proof. unfold keyb. qsimg. unfold setf. destruct (n' =? n), (T' =? T); reflexivity. Qed.
  Lemma dbusy_set s n T x n' T' :
    q_dbusy (w_qdbusy s n T x) n' T' = if keyb n T n' T' then x else q_dbusy s n' T'.
  Proof. unfold keyb. qsimg. unfold setf. destruct (n' =? n), (T' =? T); reflexivity. Qed.

  (** (5) the tail CAS of the push that linked its node; the push returns *)
  Lemma VI_step_PSw s t v n m s' es : good s -> VI s -> oth s t = PSw v n m -> qstep s (Step t) = Some (s', es) -> VI s'.
  Proof.
    intros Hg HV Eo Hst. destruct (step_ctx s _ s' es Hg Hst) as (Hh & Hc & HR & HP & Ho & Hthu). cbn [tid] in *.
    pose proof (vt k s HV t) as Ht. unfold T3q in Ht. rewrite Eo in Ht. destruct Ht as [Hin Hb].
    unfold NikqDefs.qstep in Hst. rewrite Eo in Hst.
    assert (HT : forall s1, (forall u, oth s1 u = upd (oth s) t OIdle u) -> nd s1 = nd s -> q_in s1 = q_in s -> q_out s1 = q_out s ->
                  (forall n' T', q_ebusy s1 n' T' = if keyb m 0 n' T' then None else q_ebusy s n' T') -> q_dbusy s1 = q_dbusy s ->
                  forall u, T3q s1 u).
    { intros s1 Eoth End Ei Eq Eeb Edb u. destruct (Nat.eq_dec u t) as [->|Hne].
      - unfold T3q. rewrite Eoth, upd_same. exact I.
      - apply (T3q_others s s1 t Hc); try (rewrite ?Ei, ?Eq, ?Edb; auto; fail); try exact Hne.
        + intros w Hw. rewrite Eoth. apply upd_other. exact Hw.
        + intros w n0 _ _. rewrite End. reflexivity.
        + intros w n0 T Hw Hx. rewrite Eeb. destruct (keyb_spec m 0 n0 T) as [[-> ->]|_]; [congruence|exact Hx].
        + intros w n0 q i _ _ _. rewrite End. reflexivity.
        + apply (vt k s HV). }
    destruct (qtail s =? n); inversion Hst; subst; clear Hst;
      (eapply (VI_ret_push s _ t m 0 v HV); qsimg; try reflexivity; try assumption;
       [intros; apply ebusy_set|intros; apply (vle_refl k R Hk)|apply HT; qsimg; try reflexivity; intros; apply ebusy_set]).
  Qed.

  (** (4) the link CAS *)
  Lemma VI_step_PLink s t v n m s' es : good s -> VI s -> oth s t = PLink v n m -> qstep s (Step t) = Some (s', es) -> VI s'.
  Proof.
    intros Hg HV Eo Hst. destruct (step_ctx s _ s' es Hg Hst) as (Hh & Hc & HR & HP & Ho & Hthu). cbn [tid] in *.
    destruct (c_priv cap s Hc t m ltac:(rewrite Eo; reflexivity)) as (V1 & V2 & V3 & V4).
    pose proof (c_t5 cap s Hc t) as T5. rewrite Eo in T5. cbn [NikqChain.T5] in T5. destruct T5 as (Hinit & _ & _).
    assert (Hrf : forall u n0, In n0 (refs (oth s u)) -> In n0 (q_nodes s)) by (apply (c_refs cap s Hc)).
    unfold NikqDefs.qstep in Hst. rewrite Eo in Hst. destruct (nxt s n =? 0); inversion Hst; subst; clear Hst.
    - (* linked *)
      assert (Hfresh : forall T w, ~ In (m, T, w) (q_in s)) by (intros T w Hw; destruct (v2 k s HV m T w Hw) as [Hx _]; contradiction).
      eapply (VI_link s _ t m v HV V1 Hinit); qsimg; try reflexivity; [intros; apply ebusy_set|].
      intros u. destruct (Nat.eq_dec u t) as [->|Hne].
      + unfold T3q. qsimg. rewrite upd_same. split; [apply in_or_app; right; left; reflexivity|].
        unfold setf. rewrite !N.eqb_refl. reflexivity.
      + apply (T3q_others s _ t Hc); qsimg; [| | | | | | | |exact Hne].
        * intros w Hw. apply upd_other. exact Hw.
        * intros; reflexivity.
        * intros; apply in_or_app; left; assumption.
        * auto.
        * intros w n0 T Hw Hx. unfold setf. destruct (N.eqb_spec n0 m) as [->|]; [|exact Hx].
          destruct (vb1 k s HV m T w Hx) as [y Hy]. exfalso. apply (Hfresh T y Hy).
        * auto.
        * intros; reflexivity.
        * apply (vt k s HV).
    - (* lost: steal_init_value *)
      eapply (VI_same k R Hk s _ t HV); qsimg; try reflexivity; try assumption.
      + intros m' Hm. rewrite setf_other; [apply (vsame_refl k R Hk)|intros ->; contradiction].
      + intros u Hne. split; [apply upd_other; exact Hne|]. intros n0 Hn0. rewrite setf_other; [reflexivity|intros ->; contradiction].
      + unfold T3q; qsimg; rewrite upd_same; exact I.
  Qed.

  (** a step inside the ring code of the linked node n that changes no ghost list *)
  Lemma VI_plain s s' t n sg' :
    CI cap s -> VI s -> In n (q_nodes s) -> vle (nd s n) sg' ->
    (forall u q i, u <> t -> hidx (th (nd s n) u) = Some (q, i) -> store sg' i = store (nd s n) i) ->
    q_nodes s' = q_nodes s -> q_in s' = q_in s -> q_out s' = q_out s -> q_ok s' = q_ok s -> q_ret s' = q_ret s ->
    q_ebusy s' = q_ebusy s -> q_dbusy s' = q_dbusy s ->
    (forall m, In m (q_nodes s) -> nd s' m = setf (nd s) n sg' m) ->
    (forall u, u <> t -> oth s' u = oth s u) ->
    (forall u m, u <> t -> m <> nalloc s -> th (nd s' m) u = th (nd s m) u) ->
    T3q s' t -> VI s'.
  Proof.
    intros Hc HV Hn Hvle Hst En Ei Eo Eok Er Eeb Edb Hnd Ho Hthu Ht.
    apply (VI_vle k R Hk s s' HV En Ei Eo Eok Er Eeb Edb).
    - intros m Hm. rewrite (Hnd m Hm). unfold setf. destruct (N.eqb_spec m n) as [->|]; [exact Hvle|apply (vle_refl k R Hk)].
    - intros u. destruct (Nat.eq_dec u t) as [->|Hne]; [exact Ht|].
      apply (T3q_others s s' t Hc Ho Hthu); rewrite ?Ei, ?Eo, ?Eeb, ?Edb; auto; [|apply (vt k s HV)].
      intros w m q i Hw Hm Hh. rewrite (Hnd m Hm). unfold setf. destruct (N.eqb_spec m n) as [->|]; [|reflexivity].
      apply (Hst w q i Hw Hh).
  Qed.

  Lemma VI_step_PRe s t v n s' es : good s -> VI s -> oth s t = PRe v n -> qstep s (Step t) = Some (s', es) -> VI s'.
  Proof.
    intros Hg HV Eo Hst. destruct (step_ctx s _ s' es Hg Hst) as (Hh & Hc & HR & HP & Ho & Hthu). cbn [tid] in *.
    assert (Hn : In n (q_nodes s)) by (apply (c_refs cap s Hc t); rewrite Eo; left; reflexivity).
    specialize (HP t). rewrite Eo in HP. destruct (HR n) as (I1 & I2 & _).
    unfold NikqDefs.qstep in Hst. rewrite Eo in Hst.
    destruct (push_re_spec k R Hk _ _ _ _ _ _ Hst) as (sg' & es0 & Hs & Hcase).
    assert (Hvle : vle (nd s n) sg').
    { apply (step_vle k R Hk _ t _ es0 I1 I2 Hs); [intros x idx gk tl e Ep; rewrite Ep in HP; discriminate|intros x hd e Ep; rewrite Ep in HP; discriminate]. }
    assert (Hsto : forall u q i, u <> t -> hidx (th (nd s n) u) = Some (q, i) -> store sg' i = store (nd s n) i)
      by (intros u q i Hne Hh'; eapply store_other_native; eauto).
    destruct Hcase as [[Hni ->]|[Hi ->]].
    - eapply (VI_plain s _ t n sg' Hc HV Hn Hvle Hsto); qsimg; try reflexivity; try assumption.
      unfold T3q; qsimg; rewrite upd_same; exact I.
    - eapply (VI_plain s _ t n sg' Hc HV Hn Hvle Hsto); qsimg; try reflexivity; try assumption.
      + intros m Hm. rewrite setf_other; [reflexivity|]. pose proof (c_lt cap s Hc m Hm). lia.
      + unfold T3q; qsimg; rewrite upd_same; exact I.
  Qed.

  Lemma T3q_PIn_LF s t v n : oth s t = PIn v n ->
    (T3q s t <-> LF (fun gk x => In (n, gk, x) (q_in s) /\ q_ebusy s n gk = Some t) (nd s n) (th (nd s n) t) RA).
  Proof.
    intros Eo. unfold T3q. rewrite Eo. destruct (th (nd s n) t); cbn [LF]; try tauto; destruct q; tauto.
  Qed.
  Lemma T3q_QIn_LF s t n : (exists lb, oth s t = QIn1 n lb \/ oth s t = QIn2 n lb) ->
    (T3q s t <-> LF (fun gk x => In (n, gk, x) (q_out s) /\ q_dbusy s n gk = Some t) (nd s n) (th (nd s n) t) RF).
  Proof.
    intros [lb [Eo|Eo]]; unfold T3q; rewrite Eo; destruct (th (nd s n) t); cbn [LF]; try tauto; destruct q; tauto.
  Qed.

  Lemma VI_step_PIn s t v n s' es : good s -> VI s -> oth s t = PIn v n -> qstep s (Step t) = Some (s', es) -> VI s'.
  Proof.
    intros Hg HV Eo Hst. destruct (step_ctx s _ s' es Hg Hst) as (Hh & Hc & HR & HP & Ho & Hthu). cbn [tid] in *.
    assert (Hn : In n (q_nodes s)) by (apply (c_refs cap s Hc t); rewrite Eo; left; reflexivity).
    specialize (HP t). rewrite Eo in HP. destruct (HR n) as (I1 & I2 & _).
    pose proof (proj1 (T3q_PIn_LF s t v n Eo) (vt k s HV t)) as HL.
    unfold NikqDefs.qstep in Hst. rewrite Eo in Hst.
    destruct (push_in_spec k R Hk _ _ _ _ _ _ Hst) as [(x & idx & gk & sg' & es0 & Ep & Ef & Hfe & ->)|(sg' & es0 & Hs & _ & Hcase)].
    - (* the ring is finalized *)
      destruct (fin_enq_vle k R Hk _ _ _ _ _ _ _ I1 I2 Ep Hfe) as [Hvle Hsto].
      eapply (VI_plain s _ t n sg' Hc HV Hn Hvle); qsimg; try reflexivity; try assumption.
      + intros u q i Hne Hh'. apply Hsto. intros ->. apply (cell_excl (nd s n) t u RA q idx I2 Hne); [rewrite Ep; reflexivity|exact Hh'].
      + unfold T3q; qsimg; rewrite upd_same; exact I.
    - assert (Hn3 : forall x hd e, th (nd s n) t <> D3 RA x hd e) by (intros x hd e Ep; rewrite Ep in HP; discriminate).
      assert (Hsto : forall u q i, u <> t -> hidx (th (nd s n) u) = Some (q, i) -> store sg' i = store (nd s n) i)
        by (intros u q i Hne Hh'; eapply store_other_native; eauto).
      (* does the step publish? *)
      assert (Hdec : (exists x idx gk tl e, th (nd s n) t = E4 RA x idx gk tl e /\ rdata (ra (nd s n)) (phys cap tl) = e) \/
                     (forall x idx gk tl e, th (nd s n) t = E4 RA x idx gk tl e -> rdata (ra (nd s n)) (phys cap tl) <> e)).
      { destruct (th (nd s n) t) eqn:Ep; try (right; intros; discriminate). destruct q; [|right; intros; discriminate].
        destruct (N.eq_dec (rdata (ra (nd s n)) (phys cap tl)) e) as [He|He]; [left; do 5 eexists; split; [reflexivity|exact He]|].
        right. intros ? ? ? ? ? Hx. inversion Hx; subst. exact He. }
      destruct Hdec as [(x & idx & gk & tl & e & Ep & He)|Hnp].
      + (* publish *)
        destruct (step_pub_eff k R Hk _ _ _ _ _ _ _ _ _ I1 I2 Hs Ep He) as (P1 & P2 & P3 & P4 & P5 & P6).
        destruct (step_pub_fwd k R Hk _ _ _ _ _ _ _ _ _ Hs Ep He) as (_ & _ & Et').
        assert (Hx0 : store (nd s n) idx = x) by (rewrite Ep in HL; exact HL).
        assert (Hfresh : forall w, ~ In (n, tl / 2, w) (q_in s)).
        { intros w Hw. destruct (v2 k s HV n _ w Hw) as [_ [i Hi]]. rewrite P5 in Hi. discriminate. }
        assert (Epg : pub_ghost cap s (w_nd s n sg') t n (nd s n) =
                      w_qebusy (w_qin (w_nd s n sg') (q_in s ++ [(n, tl / 2, x)])) n (tl / 2) (Some t)).
        { unfold pub_ghost. rewrite Ep. apply N.eqb_eq in He. rewrite He. reflexivity. }
        rewrite Epg in Hcase.
        destruct Hcase as [[Hni ->]|[(Hi & _)|(Hi & _)]]; try (rewrite Et' in Hi; discriminate).
        eapply (VI_pub s _ t n (tl / 2) x idx HV Hn); qsimg; try reflexivity; try (rewrite setf_same; assumption).
        * intros; apply ebusy_set.
        * intros m Hm Hne. rewrite setf_other by exact Hne. apply (vle_refl k R Hk).
        * exact Hx0.
        * exact P5.
        * intros u. destruct (Nat.eq_dec u t) as [->|Hne].
          -- unfold T3q. qsimg. rewrite upd_same, setf_same, Et'. split; [apply in_or_app; right; left; reflexivity|].
             unfold setf. rewrite !N.eqb_refl. reflexivity.
          -- apply (T3q_others s _ t Hc); qsimg; [| | | | | | | |exact Hne].
             ++ intros w Hw. apply upd_other. exact Hw.
             ++ intros w m Hw Hm. apply (Hthu w m Hw Hm).
             ++ intros; apply in_or_app; left; assumption.
             ++ auto.
             ++ intros w m T Hw Hx. unfold setf. destruct (N.eqb_spec m n) as [->|]; [|exact Hx].
                destruct (N.eqb_spec T (tl / 2)) as [->|]; [|exact Hx].
                destruct (vb1 k s HV n _ w Hx) as [y Hy]. exfalso. apply (Hfresh y Hy).
             ++ auto.
             ++ intros w m q i Hw Hm Hh'. unfold setf. destruct (N.eqb_spec m n) as [->|]; [apply P2|reflexivity].
             ++ apply (vt k s HV).
      + (* no publication *)
        rewrite (pub_ghost_id _ _ _ _ _ Hnp) in Hcase.
        assert (Hvle : vle (nd s n) sg') by (apply (step_vle k R Hk _ t _ es0 I1 I2 Hs); assumption).
        assert (HL' := LF_step _ _ _ _ _ RA Hs (fun x idx gk tl e Ep _ => Hnp x idx gk tl e Ep) (fun x hd e Ep _ => Hn3 x hd e Ep) HL).
        destruct Hcase as [[Hni ->]|[(Hi & _ & ->)|(Hi & _ & x & i & gk & Hp & ->)]].
        * eapply (VI_plain s _ t n sg' Hc HV Hn Hvle Hsto); qsimg; try reflexivity; try assumption.
          apply (T3q_PIn_LF _ t v n); [qsimg; apply upd_same|]. qsimg. rewrite setf_same. exact HL'.
        * eapply (VI_plain s _ t n sg' Hc HV Hn Hvle Hsto); qsimg; try reflexivity; try assumption.
          unfold T3q; qsimg; rewrite upd_same; exact I.
        * (* the push returns *)
          assert (Hfact : In (n, gk, x) (q_in s) /\ q_ebusy s n gk = Some t) by (destruct Hp as [Ep|Ep]; rewrite Ep in HL; exact HL).
          destruct Hfact as [Hin Hb].
          eapply (VI_ret_push s _ t n gk x HV); qsimg; try reflexivity; try assumption.
          -- intros; apply ebusy_set.
          -- intros m Hm. unfold setf. destruct (N.eqb_spec m n) as [->|]; [exact Hvle|apply (vle_refl k R Hk)].
          -- intros u. destruct (Nat.eq_dec u t) as [->|Hne]; [unfold T3q; qsimg; rewrite upd_same; exact I|].
             apply (T3q_others s _ t Hc); qsimg; [| | | | | | | |exact Hne].
             ++ intros w Hw. apply upd_other. exact Hw.
             ++ intros w m Hw Hm. apply (Hthu w m Hw Hm).
             ++ auto.
             ++ auto.
             ++ intros w m T Hw Hx. unfold setf. destruct (N.eqb_spec m n) as [->|]; [|exact Hx].
                destruct (N.eqb_spec T gk) as [->|]; [congruence|exact Hx].
             ++ auto.
             ++ intros w m q i' Hw Hm Hh'. unfold setf. destruct (N.eqb_spec m n) as [->|]; [eapply Hsto; eauto|reflexivity].
             ++ apply (vt k s HV).
  Qed.

  Lemma VI_step_QIn s t n lb again failed s' es :
    good s -> VI s -> (oth s t = QIn1 n lb \/ oth s t = QIn2 n lb) ->
    (forall b, again b = QIn1 n b \/ again b = QIn2 n b) -> (failed = Q2 n \/ failed = Q4 n) ->
    pop_phase cap R s t n lb again failed = Some (s', es) ->
    (forall u, u <> t -> oth s' u = oth s u) ->
    (forall u m, u <> t -> m <> nalloc s -> th (nd s' m) u = th (nd s m) u) ->
    VI s'.
  Proof.
    intros Hg HV Eo Hag Hfl Hst Ho Hthu. destruct (good_inv k R Hk s Hg) as (Hh & Hc & HR).
    pose proof (PT_reach k R Hk s (proj1 Hg) t) as HP.
    assert (Hn : In n (q_nodes s)) by (apply (c_refs cap s Hc t); destruct Eo as [Eo|Eo]; rewrite Eo; left; reflexivity).
    assert (HP' : isD RA (th (nd s n) t) || isE RF (th (nd s n) t) = true) by (destruct Eo as [Eo|Eo]; rewrite Eo in HP; exact HP).
    destruct (HR n) as (I1 & I2 & _).
    pose proof (proj1 (T3q_QIn_LF s t n ltac:(exists lb; exact Eo)) (vt k s HV t)) as HL.
    destruct (pop_spec k R Hk _ _ _ _ _ _ _ _ Hst) as (sg' & es0 & lb' & Hs & Hcase).
    assert (Hsto : forall u q i, u <> t -> hidx (th (nd s n) u) = Some (q, i) -> store sg' i = store (nd s n) i)
      by (intros u q i Hne Hh'; eapply store_other_istep; eauto).
    assert (Hn4 : forall x idx gk tl e, th (nd s n) t = E4 RA x idx gk tl e -> RF = RA -> rdata (ra (nd s n)) (phys cap tl) <> e)
      by (intros; discriminate).
    assert (Hdec : (exists x hd e, th (nd s n) t = D3 RA x hd e) \/ (forall x hd e, th (nd s n) t <> D3 RA x hd e)).
    { destruct (th (nd s n) t) eqn:Ep; try (right; intros; discriminate). destruct q; [left; eauto|right; intros; discriminate]. }
    destruct Hdec as [(x & hd & e & Ep)|Hn3].
    - (* take *)
      assert (Hsn : step (nd s n) (Step t) = Some (sg', es0)).
      { destruct (istep_native _ _ _ _ _ _ _ Hs) as [(Hx & _)|Hx]; [rewrite Ep in Hx; contradiction|exact Hx]. }
      pose proof (step_take_eff k R Hk _ _ _ _ _ _ _ I1 I2 Hsn Ep) as Heff. cbv zeta in Heff.
      destruct Heff as (P1 & P2 & P3 & P4 & P5 & P6 & P7 & P8).
      destruct (step_take_fwd k R Hk _ _ _ _ _ _ _ Hsn Ep) as (_ & Et').
      set (i0 := N.land e (vmask cap)) in *.
      assert (Hfresh : forall w, ~ In (n, hd / 2, w) (q_out s)).
      { intros w Hw. destruct (v3 k s HV n _ w Hw) as [_ [i Hi]]. rewrite P5 in Hi. discriminate. }
      assert (Etg : take_ghost cap s (w_nd s n sg') t n (nd s n) =
                    w_qdbusy (w_qout (w_nd s n sg') (q_out s ++ [(n, hd / 2, store (nd s n) i0)])) n (hd / 2) (Some t)).
      { unfold take_ghost. rewrite Ep. reflexivity. }
      rewrite Etg in Hcase.
      destruct Hcase as [[Hni ->]|[(Hi & _)|(Hi & _)]]; try (rewrite Et' in Hi; discriminate).
      eapply (VI_take s _ t n (hd / 2) i0 HV Hn); qsimg; try reflexivity; try (rewrite setf_same; assumption); try assumption.
      + intros; apply dbusy_set.
      + intros m Hm Hne. rewrite setf_other by exact Hne. apply (vle_refl k R Hk).
      + intros u. destruct (Nat.eq_dec u t) as [->|Hne].
        * apply (T3q_QIn_LF _ t n); [exists lb'; qsimg; rewrite upd_same; apply Hag|]. qsimg. rewrite setf_same, Et'. cbn [LF].
          rewrite P2. split; [apply in_or_app; right; left; reflexivity|]. unfold setf. rewrite !N.eqb_refl. reflexivity.
        * apply (T3q_others s _ t Hc); qsimg; [| | | | | | | |exact Hne].
          -- intros w Hw. apply upd_other. exact Hw.
          -- intros w m Hw Hm. apply (Hthu w m Hw Hm).
          -- auto.
          -- intros; apply in_or_app; left; assumption.
          -- auto.
          -- intros w m T Hw Hx. unfold setf. destruct (N.eqb_spec m n) as [->|]; [|exact Hx].
             destruct (N.eqb_spec T (hd / 2)) as [->|]; [|exact Hx].
             destruct (vb2 k s HV n _ w Hx) as [y Hy]. exfalso. apply (Hfresh y Hy).
          -- intros w m q i Hw Hm Hh'. unfold setf. destruct (N.eqb_spec m n) as [->|]; [apply P2|reflexivity].
          -- apply (vt k s HV).
    - (* no take *)
      rewrite (take_ghost_id _ _ _ _ _ Hn3) in Hcase.
      assert (Hvle : vle (nd s n) sg') by (apply (istep_vle k R Hk _ _ _ _ _ _ _ I1 I2 Hs Hn3 HP')).
      assert (HL' := LF_istep _ _ _ _ _ _ _ _ RF Hs Hn4 (fun x hd e Ep _ => Hn3 x hd e Ep) HL).
      destruct Hcase as [[Hni ->]|[(Hi & _ & ->)|(Hi & x & x' & i & gk & Hret & Hp & ->)]].
      + eapply (VI_plain s _ t n sg' Hc HV Hn Hvle Hsto); qsimg; try reflexivity; try assumption.
        apply (T3q_QIn_LF _ t n); [exists lb'; qsimg; rewrite upd_same; apply Hag|]. qsimg. rewrite setf_same. exact HL'.
      + eapply (VI_plain s _ t n sg' Hc HV Hn Hvle Hsto); qsimg; try reflexivity; try assumption.
        unfold T3q; qsimg; rewrite upd_same. destruct Hfl as [-> | ->]; exact I.
      + (* the pop returns *)
        assert (Hsn : step (nd s n) (Step t) = Some (sg', es0)).
        { destruct (istep_native _ _ _ _ _ _ _ Hs) as [(Hx & _)|Hx]; [destruct Hp as [Ep|Ep]; rewrite Ep in Hx; contradiction|exact Hx]. }
        assert (Hxx : x = x') by (pose proof (step_ret_rf _ _ _ _ _ _ _ Hsn Hp Hi) as Hr; rewrite Hr in Hret; inversion Hret; reflexivity).
        subst x'.
        assert (Hfact : In (n, gk, x) (q_out s) /\ q_dbusy s n gk = Some t) by (destruct Hp as [Ep|Ep]; rewrite Ep in HL; exact HL).
        destruct Hfact as [Hin Hb].
        eapply (VI_ret_pop s _ t n gk x HV); qsimg; try reflexivity; try assumption.
        * intros; apply dbusy_set.
        * intros m Hm. unfold setf. destruct (N.eqb_spec m n) as [->|]; [exact Hvle|apply (vle_refl k R Hk)].
        * intros u. destruct (Nat.eq_dec u t) as [->|Hne]; [unfold T3q; qsimg; rewrite upd_same; exact I|].
          apply (T3q_others s _ t Hc); qsimg; [| | | | | | | |exact Hne].
          -- intros w Hw. apply upd_other. exact Hw.
          -- intros w m Hw Hm. apply (Hthu w m Hw Hm).
          -- auto.
          -- auto.
          -- auto.
          -- intros w m T Hw Hx. unfold setf. destruct (N.eqb_spec m n) as [->|]; [|exact Hx].
             destruct (N.eqb_spec T gk) as [->|]; [congruence|exact Hx].
          -- intros w m q i' Hw Hm Hh'. unfold setf. destruct (N.eqb_spec m n) as [->|]; [eapply Hsto; eauto|reflexivity].
          -- apply (vt k s HV).
  Qed.

  Lemma VI_step s a s' es : good s -> VI s -> qstep s a = Some (s', es) -> VI s'.
  Proof.
    intros Hg HV Hst. destruct (step_ctx s a s' es Hg Hst) as (Hh & Hc & HR & HP & Ho & Hthu).
    destruct a as [t o|t]; [apply (VI_step_simple s (Start t o) s' es Hg HV Hst); exact I|]. cbn [tid] in *.
    destruct (oth s t) as [|o| |v|v n|v n|v n nx|v n|v n|v n|v n m i|v n m i|v n m|v n m|v m lb|v m lb| |n lb|n|n|n lb|n|n nx] eqn:Eo.
    all: try (apply (VI_step_simple s (Step t) s' es Hg HV Hst); rewrite Eo; exact I).
    - apply (VI_step_PIn s t v n s' es Hg HV Eo Hst).
    - apply (VI_step_PRe s t v n s' es Hg HV Eo Hst).
    - apply (VI_step_PLink s t v n m s' es Hg HV Eo Hst).
    - apply (VI_step_PSw s t v n m s' es Hg HV Eo Hst).
    - unfold NikqDefs.qstep in Hst. rewrite Eo in Hst.
      apply (VI_step_QIn s t n lb (QIn1 n) (Q2 n) s' es Hg HV (or_introl Eo)); auto.
    - unfold NikqDefs.qstep in Hst. rewrite Eo in Hst.
      apply (VI_step_QIn s t n lb (QIn2 n) (Q4 n) s' es Hg HV (or_intror Eo)); auto.
  Qed.

  Theorem VI_good : forall s, good s -> VI s.
  Proof.
    intros s0 Hg0. apply (good_rule k R Hk VI); [apply (VI_init k R Hk)| |exact Hg0].
    intros s a s' es Hg _ HV Hst. eapply VI_step; eauto.
  Qed.
End ValStep.
