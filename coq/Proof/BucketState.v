(** Bit-field algebra of [vyukov_hash_map<...>::bucket_state] (xenium/impl/vyukov_hash_map.hpp),
    proved over the generated definitions of gen/BucketStateGen.v for ALL 32-bit words (no sweep).

    layout:  bit 0 = lock, bits 1..2 = item_count, bits 3..4 = delete_marker, bits 5..31 = version. *)
From Coq Require Import NArith ZArith Bool Lia ZifyBool.
From XV Require Import Base.Word gen.BucketStateGen.
Local Open Scope N_scope.

(* [N.modulo]/[N.div] by numerals: zify maps them to [Z.rem]/[Z.quot] resp. [Z.modulo]/[Z.div];
   this hook covers both. *)
Ltac Zify.zify_post_hook ::= Z.to_euclidean_division_equations.

(** * Constants *)

Lemma C_item_counter_bits_val : C_item_counter_bits = 2.
Proof. vm_compute. reflexivity. Qed.
Lemma C_item_count_shift_val : C_item_count_shift = 1.
Proof. reflexivity. Qed.
Lemma C_delete_marker_shift_val : C_delete_marker_shift = 3.
Proof. vm_compute. reflexivity. Qed.
Lemma C_version_shift_val : C_version_shift = 5.
Proof. vm_compute. reflexivity. Qed.
Lemma C_lock_val : C_lock = 1.
Proof. reflexivity. Qed.
Lemma C_version_inc_val : C_version_inc = 32.
Proof. vm_compute. reflexivity. Qed.
Lemma C_item_count_inc_val : C_item_count_inc = 2.
Proof. vm_compute. reflexivity. Qed.
Lemma C_item_count_mask_val : C_item_count_mask = 3.
Proof. vm_compute. reflexivity. Qed.

Lemma pow2_32 : 2 ^ 32 = 4294967296.
Proof. vm_compute. reflexivity. Qed.
Lemma pow2_27 : 2 ^ 27 = 134217728.
Proof. vm_compute. reflexivity. Qed.

(** * Bit operations with the specific constants, as arithmetic *)

Lemma land_1 v : N.land v 1 = v mod 2.
Proof. change 1 with (N.ones 1) at 1. rewrite N.land_ones. reflexivity. Qed.

Lemma land_3 v : N.land v 3 = v mod 4.
Proof. change 3 with (N.ones 2). rewrite N.land_ones. reflexivity. Qed.

Lemma lor_1 v : N.lor v 1 = v + 1 - v mod 2.
Proof.
  destruct v as [|[p|p|]]; try reflexivity.
  - change (N.lor (N.pos p~1) 1) with (N.pos p~1). lia.
  - change (N.lor (N.pos p~0) 1) with (N.pos p~1). lia.
Qed.

Lemma lxor_1 v : N.lxor v 1 = v + 1 - 2 * (v mod 2).
Proof.
  destruct v as [|[p|p|]]; try reflexivity.
  - change (N.lxor (N.pos p~1) 1) with (N.pos p~0). lia.
  - change (N.lxor (N.pos p~0) 1) with (N.pos p~1). lia.
Qed.

(** [land] against a shifted operand *)
Lemma land_shiftl_r a b n : N.land a (N.shiftl b n) = N.shiftl (N.land (N.shiftr a n) b) n.
Proof.
  apply N.bits_inj. intro k.
  rewrite N.land_spec.
  destruct (N.lt_ge_cases k n) as [Hk|Hk].
  - rewrite !N.shiftl_spec_low by exact Hk. apply andb_false_r.
  - rewrite !N.shiftl_spec_high' by exact Hk.
    rewrite N.land_spec, N.shiftr_spec'.
    replace (k - n + n) with k by lia. reflexivity.
Qed.

Lemma lor_disjoint a b : N.land a b = 0 -> N.lor a b = a + b.
Proof.
  intro H. rewrite <- (N.lxor_lor a b H). symmetry. apply N.add_nocarry_lxor. exact H.
Qed.

Lemma lor_marker v m : (v / 8) mod 4 = 0 -> m < 4 -> N.lor v (N.shiftl m 3) = v + 8 * m.
Proof.
  intros Hv Hm.
  rewrite lor_disjoint.
  - rewrite N.shiftl_mul_pow2. change (2 ^ 3) with 8. lia.
  - rewrite land_shiftl_r.
    replace m with (N.land 3 m) at 1.
    + rewrite N.land_assoc, land_3, N.shiftr_div_pow2. change (2 ^ 3) with 8.
      rewrite Hv. reflexivity.
    + rewrite N.land_comm, land_3. apply N.mod_small. exact Hm.
Qed.

(** * Observers and operations as arithmetic *)

Lemma bs_is_locked_arith v : bs_is_locked v = negb (v mod 2 =? 0).
Proof. unfold bs_is_locked. rewrite C_lock_val, land_1. reflexivity. Qed.

Lemma bs_is_locked_b2n v : b2n (bs_is_locked v) = v mod 2.
Proof.
  rewrite bs_is_locked_arith. unfold b2n.
  destruct (N.eqb_spec (v mod 2) 0) as [E|E]; simpl negb; cbv iota; lia.
Qed.

Lemma bs_item_count_arith v : bs_item_count v = (v / 2) mod 4.
Proof.
  unfold bs_item_count, wshr. rewrite C_item_count_mask_val, land_3, N.shiftr_div_pow2.
  reflexivity.
Qed.

Lemma bs_delete_marker_arith v : bs_delete_marker v = (v / 8) mod 4.
Proof.
  unfold bs_delete_marker, wshr.
  rewrite C_item_count_mask_val, C_delete_marker_shift_val, land_3, N.shiftr_div_pow2.
  reflexivity.
Qed.

Lemma bs_version_arith v : bs_version v = v / 32.
Proof.
  unfold bs_version, wshr. rewrite C_version_shift_val, N.shiftr_div_pow2. reflexivity.
Qed.

Lemma bs_locked_arith v : bs_locked v = v + 1 - v mod 2.
Proof. unfold bs_locked. rewrite C_lock_val. apply lor_1. Qed.

Lemma bs_clear_lock_arith v : bs_clear_lock v = v + 1 - 2 * (v mod 2).
Proof. unfold bs_clear_lock. rewrite C_lock_val. apply lxor_1. Qed.

Lemma bs_new_version_arith v : bs_new_version v = (v + 32) mod 4294967296.
Proof. unfold bs_new_version, wadd. rewrite C_version_inc_val, pow2_32. reflexivity. Qed.

Lemma bs_inc_item_count_arith v : bs_inc_item_count v = (v + 2) mod 4294967296.
Proof. unfold bs_inc_item_count, wadd. rewrite C_item_count_inc_val, pow2_32. reflexivity. Qed.

Lemma bs_dec_item_count_arith v :
  bs_dec_item_count v = (v + 4294967296 - 2) mod 4294967296.
Proof.
  unfold bs_dec_item_count, wsub. rewrite C_item_count_inc_val, pow2_32. reflexivity.
Qed.

Lemma bs_set_delete_marker_arith v m :
  bs_delete_marker v = 0 -> m < 4 -> bs_set_delete_marker v m = v + 8 * m.
Proof.
  intros Hd Hm. rewrite bs_delete_marker_arith in Hd.
  unfold bs_set_delete_marker, wshl. rewrite C_delete_marker_shift_val, pow2_32.
  rewrite N.mod_small.
  - apply lor_marker; assumption.
  - rewrite N.shiftl_mul_pow2. change (2 ^ 3) with 8. lia.
Qed.

Ltac bs_arith :=
  rewrite ?bs_is_locked_arith, ?bs_item_count_arith, ?bs_delete_marker_arith, ?bs_version_arith,
          ?bs_locked_arith, ?bs_clear_lock_arith, ?bs_new_version_arith,
          ?bs_inc_item_count_arith, ?bs_dec_item_count_arith, ?pow2_32, ?pow2_27 in *.

(** * 1. Decomposition / composition *)

Lemma bs_decompose v : v < 2 ^ 32 ->
  v = b2n (bs_is_locked v) + 2 * bs_item_count v + 8 * bs_delete_marker v + 32 * bs_version v
  /\ bs_item_count v < 4 /\ bs_delete_marker v < 4 /\ bs_version v < 2 ^ 27.
Proof.
  intro Hv. rewrite bs_is_locked_b2n. bs_arith. lia.
Qed.

Lemma bs_compose (l : bool) c d ver : c < 4 -> d < 4 -> ver < 2 ^ 27 ->
  let w := b2n l + 2 * c + 8 * d + 32 * ver in
  w < 2 ^ 32 /\ bs_is_locked w = l /\ bs_item_count w = c /\ bs_delete_marker w = d
  /\ bs_version w = ver.
Proof.
  intros Hc Hd Hver w. subst w. bs_arith.
  assert (Hl : b2n l < 2) by (destruct l; simpl; lia).
  repeat split; try lia.
  destruct l; unfold b2n in *.
  - destruct (N.eqb_spec ((1 + 2 * c + 8 * d + 32 * ver) mod 2) 0); simpl; [lia|reflexivity].
  - destruct (N.eqb_spec ((0 + 2 * c + 8 * d + 32 * ver) mod 2) 0); simpl; [reflexivity|lia].
Qed.

(** * 6. Extensionality on the four fields *)

Lemma bs_eq_fields v w : v < 2 ^ 32 -> w < 2 ^ 32 ->
  (v = w <->
   bs_is_locked v = bs_is_locked w /\ bs_item_count v = bs_item_count w
   /\ bs_delete_marker v = bs_delete_marker w /\ bs_version v = bs_version w).
Proof.
  intros Hv Hw. split.
  - intros ->. repeat split.
  - intros (Hl & Hc & Hd & Hr).
    destruct (bs_decompose v Hv) as (Ev & _). destruct (bs_decompose w Hw) as (Ew & _).
    rewrite Ev, Ew, Hl, Hc, Hd, Hr. reflexivity.
Qed.

(** lock bit as a boolean <-> parity *)
Lemma bs_is_locked_true v : bs_is_locked v = true <-> v mod 2 = 1.
Proof.
  rewrite bs_is_locked_arith.
  destruct (N.eqb_spec (v mod 2) 0); simpl; split; intros; try discriminate; try reflexivity; lia.
Qed.

Lemma bs_is_locked_false v : bs_is_locked v = false <-> v mod 2 = 0.
Proof.
  rewrite bs_is_locked_arith.
  destruct (N.eqb_spec (v mod 2) 0); simpl; split; intros; try discriminate; try reflexivity; lia.
Qed.

Lemma bs_is_locked_parity_eq v w : v mod 2 = w mod 2 -> bs_is_locked v = bs_is_locked w.
Proof. intro H. rewrite !bs_is_locked_arith, H. reflexivity. Qed.

(** * 2. lock / clear_lock *)

Lemma bs_locked_lt v : v < 2 ^ 32 -> bs_locked v < 2 ^ 32.
Proof. intro Hv. bs_arith. lia. Qed.

Lemma bs_locked_is_locked v : bs_is_locked (bs_locked v) = true.
Proof. apply bs_is_locked_true. bs_arith. lia. Qed.

Lemma bs_locked_item_count v : bs_item_count (bs_locked v) = bs_item_count v.
Proof. bs_arith. lia. Qed.

Lemma bs_locked_delete_marker v : bs_delete_marker (bs_locked v) = bs_delete_marker v.
Proof. bs_arith. lia. Qed.

Lemma bs_locked_version v : bs_version (bs_locked v) = bs_version v.
Proof. bs_arith. lia. Qed.

Lemma bs_locked_idem v : bs_is_locked v = true -> bs_locked v = v.
Proof. intro H. apply bs_is_locked_true in H. bs_arith. lia. Qed.

Lemma bs_clear_lock_lt v : bs_is_locked v = true -> v < 2 ^ 32 -> bs_clear_lock v < 2 ^ 32.
Proof. intros H Hv. apply bs_is_locked_true in H. bs_arith. lia. Qed.

Lemma bs_clear_lock_is_locked v : bs_is_locked v = true -> bs_is_locked (bs_clear_lock v) = false.
Proof. intro H. apply bs_is_locked_true in H. apply bs_is_locked_false. bs_arith. lia. Qed.

Lemma bs_clear_lock_item_count v :
  bs_is_locked v = true -> bs_item_count (bs_clear_lock v) = bs_item_count v.
Proof. intro H. apply bs_is_locked_true in H. bs_arith. lia. Qed.

Lemma bs_clear_lock_delete_marker v :
  bs_is_locked v = true -> bs_delete_marker (bs_clear_lock v) = bs_delete_marker v.
Proof. intro H. apply bs_is_locked_true in H. bs_arith. lia. Qed.

Lemma bs_clear_lock_version v :
  bs_is_locked v = true -> bs_version (bs_clear_lock v) = bs_version v.
Proof. intro H. apply bs_is_locked_true in H. bs_arith. lia. Qed.

Lemma bs_clear_lock_locked v : bs_is_locked v = false -> bs_clear_lock (bs_locked v) = v.
Proof. intro H. apply bs_is_locked_false in H. bs_arith. lia. Qed.

Lemma bs_locked_clear_lock v : bs_is_locked v = true -> bs_locked (bs_clear_lock v) = v.
Proof. intro H. apply bs_is_locked_true in H. bs_arith. lia. Qed.

(** * 3. new_version *)

Lemma bs_new_version_lt v : bs_new_version v < 2 ^ 32.
Proof. apply wadd_lt. Qed.

Lemma bs_new_version_version v : v < 2 ^ 32 ->
  bs_version (bs_new_version v) = (bs_version v + 1) mod 2 ^ 27.
Proof. intro Hv. bs_arith. lia. Qed.

Lemma bs_new_version_is_locked v : v < 2 ^ 32 ->
  bs_is_locked (bs_new_version v) = bs_is_locked v.
Proof. intro Hv. apply bs_is_locked_parity_eq. bs_arith. lia. Qed.

Lemma bs_new_version_item_count v : v < 2 ^ 32 ->
  bs_item_count (bs_new_version v) = bs_item_count v.
Proof. intro Hv. bs_arith. lia. Qed.

Lemma bs_new_version_delete_marker v : v < 2 ^ 32 ->
  bs_delete_marker (bs_new_version v) = bs_delete_marker v.
Proof. intro Hv. bs_arith. lia. Qed.

Lemma bs_new_version_neq v : v < 2 ^ 32 -> bs_new_version v <> v.
Proof. intro Hv. bs_arith. lia. Qed.

(** [n] applications of [new_version] ([N.iter]) *)
Lemma bs_new_version_iter_lt n v : v < 2 ^ 32 -> N.iter n bs_new_version v < 2 ^ 32.
Proof.
  intro Hv. induction n using N.peano_ind.
  - exact Hv.
  - rewrite N.iter_succ. apply bs_new_version_lt.
Qed.

Lemma bs_new_version_iter_version n v : v < 2 ^ 32 ->
  bs_version (N.iter n bs_new_version v) = (bs_version v + n) mod 2 ^ 27.
Proof.
  intro Hv. induction n using N.peano_ind.
  - simpl N.iter. destruct (bs_decompose v Hv) as (_ & _ & _ & Hr).
    rewrite N.add_0_r, N.mod_small by exact Hr. reflexivity.
  - rewrite N.iter_succ.
    rewrite bs_new_version_version by (apply bs_new_version_iter_lt; exact Hv).
    rewrite IHn, pow2_27. lia.
Qed.

Lemma bs_new_version_iter_is_locked n v : v < 2 ^ 32 ->
  bs_is_locked (N.iter n bs_new_version v) = bs_is_locked v.
Proof.
  intro Hv. induction n using N.peano_ind; [reflexivity|].
  rewrite N.iter_succ, bs_new_version_is_locked by (apply bs_new_version_iter_lt; exact Hv).
  exact IHn.
Qed.

Lemma bs_new_version_iter_item_count n v : v < 2 ^ 32 ->
  bs_item_count (N.iter n bs_new_version v) = bs_item_count v.
Proof.
  intro Hv. induction n using N.peano_ind; [reflexivity|].
  rewrite N.iter_succ, bs_new_version_item_count by (apply bs_new_version_iter_lt; exact Hv).
  exact IHn.
Qed.

Lemma bs_new_version_iter_delete_marker n v : v < 2 ^ 32 ->
  bs_delete_marker (N.iter n bs_new_version v) = bs_delete_marker v.
Proof.
  intro Hv. induction n using N.peano_ind; [reflexivity|].
  rewrite N.iter_succ, bs_new_version_delete_marker by (apply bs_new_version_iter_lt; exact Hv).
  exact IHn.
Qed.

(** no ABA on the version within fewer than 2^27 bumps *)
Lemma bs_new_version_iter_version_neq n v : v < 2 ^ 32 -> 0 < n -> n < 2 ^ 27 ->
  bs_version (N.iter n bs_new_version v) <> bs_version v.
Proof.
  intros Hv Hn0 Hn. rewrite bs_new_version_iter_version by exact Hv.
  destruct (bs_decompose v Hv) as (_ & _ & _ & Hr).
  rewrite pow2_27 in *. lia.
Qed.

Lemma bs_new_version_iter_neq n v : v < 2 ^ 32 -> 0 < n -> n < 2 ^ 27 ->
  N.iter n bs_new_version v <> v.
Proof.
  intros Hv Hn0 Hn E. apply (bs_new_version_iter_version_neq n v Hv Hn0 Hn). rewrite E. reflexivity.
Qed.

(** two different numbers of bumps, fewer than 2^27 apart, give different versions *)
Lemma bs_new_version_iter_version_distinct i j v : v < 2 ^ 32 -> i < j -> j - i < 2 ^ 27 ->
  bs_version (N.iter j bs_new_version v) <> bs_version (N.iter i bs_new_version v).
Proof.
  intros Hv Hij Hd.
  replace j with ((j - i) + i) by lia.
  rewrite N.iter_add.
  apply bs_new_version_iter_version_neq.
  - apply bs_new_version_iter_lt. exact Hv.
  - lia.
  - exact Hd.
Qed.

(** the same with [Nat.iter] *)
Lemma Nat_iter_N_iter {A} (f : A -> A) (n : nat) x : Nat.iter n f x = N.iter (N.of_nat n) f x.
Proof.
  induction n.
  - reflexivity.
  - rewrite Nat2N.inj_succ, N.iter_succ. simpl. rewrite IHn. reflexivity.
Qed.

Lemma bs_new_version_nat_iter_version (n : nat) v : v < 2 ^ 32 ->
  bs_version (Nat.iter n bs_new_version v) = (bs_version v + N.of_nat n) mod 2 ^ 27.
Proof. intro Hv. rewrite Nat_iter_N_iter. apply bs_new_version_iter_version. exact Hv. Qed.

Lemma bs_new_version_nat_iter_version_neq (n : nat) v :
  v < 2 ^ 32 -> (0 < n)%nat -> N.of_nat n < 2 ^ 27 ->
  bs_version (Nat.iter n bs_new_version v) <> bs_version v.
Proof.
  intros Hv Hn0 Hn. rewrite Nat_iter_N_iter.
  apply bs_new_version_iter_version_neq; [exact Hv|lia|exact Hn].
Qed.

(** * 4. inc_item_count / dec_item_count *)

Lemma bs_inc_item_count_lt v : bs_inc_item_count v < 2 ^ 32.
Proof. apply wadd_lt. Qed.

Lemma bs_dec_item_count_lt v : bs_dec_item_count v < 2 ^ 32.
Proof. apply wsub_lt. Qed.

Lemma bs_inc_item_count_arith_small v : v < 2 ^ 32 -> bs_item_count v < 3 ->
  bs_inc_item_count v = v + 2.
Proof. intros Hv Hc. bs_arith. lia. Qed.

Lemma bs_dec_item_count_arith_small v : v < 2 ^ 32 -> 0 < bs_item_count v ->
  bs_dec_item_count v = v - 2 /\ 2 <= v.
Proof. intros Hv Hc. bs_arith. lia. Qed.

Lemma bs_inc_item_count_item_count v : v < 2 ^ 32 -> bs_item_count v < 3 ->
  bs_item_count (bs_inc_item_count v) = bs_item_count v + 1.
Proof. intros Hv Hc. rewrite bs_inc_item_count_arith_small by assumption. bs_arith. lia. Qed.

Lemma bs_inc_item_count_is_locked v : v < 2 ^ 32 -> bs_item_count v < 3 ->
  bs_is_locked (bs_inc_item_count v) = bs_is_locked v.
Proof.
  intros Hv Hc. rewrite bs_inc_item_count_arith_small by assumption.
  apply bs_is_locked_parity_eq. lia.
Qed.

Lemma bs_inc_item_count_delete_marker v : v < 2 ^ 32 -> bs_item_count v < 3 ->
  bs_delete_marker (bs_inc_item_count v) = bs_delete_marker v.
Proof. intros Hv Hc. rewrite bs_inc_item_count_arith_small by assumption. bs_arith. lia. Qed.

Lemma bs_inc_item_count_version v : v < 2 ^ 32 -> bs_item_count v < 3 ->
  bs_version (bs_inc_item_count v) = bs_version v.
Proof. intros Hv Hc. rewrite bs_inc_item_count_arith_small by assumption. bs_arith. lia. Qed.

Lemma bs_dec_item_count_item_count v : v < 2 ^ 32 -> 0 < bs_item_count v ->
  bs_item_count (bs_dec_item_count v) = bs_item_count v - 1.
Proof.
  intros Hv Hc. destruct (bs_dec_item_count_arith_small v Hv Hc) as (-> & H2). bs_arith. lia.
Qed.

Lemma bs_dec_item_count_is_locked v : v < 2 ^ 32 -> 0 < bs_item_count v ->
  bs_is_locked (bs_dec_item_count v) = bs_is_locked v.
Proof.
  intros Hv Hc. destruct (bs_dec_item_count_arith_small v Hv Hc) as (-> & H2).
  apply bs_is_locked_parity_eq. lia.
Qed.

Lemma bs_dec_item_count_delete_marker v : v < 2 ^ 32 -> 0 < bs_item_count v ->
  bs_delete_marker (bs_dec_item_count v) = bs_delete_marker v.
Proof.
  intros Hv Hc. destruct (bs_dec_item_count_arith_small v Hv Hc) as (-> & H2). bs_arith. lia.
Qed.

Lemma bs_dec_item_count_version v : v < 2 ^ 32 -> 0 < bs_item_count v ->
  bs_version (bs_dec_item_count v) = bs_version v.
Proof.
  intros Hv Hc. destruct (bs_dec_item_count_arith_small v Hv Hc) as (-> & H2). bs_arith. lia.
Qed.

Lemma bs_dec_inc_item_count v : v < 2 ^ 32 -> bs_item_count v < 3 ->
  bs_dec_item_count (bs_inc_item_count v) = v.
Proof. intros Hv Hc. bs_arith. lia. Qed.

Lemma bs_inc_dec_item_count v : v < 2 ^ 32 -> 0 < bs_item_count v ->
  bs_inc_item_count (bs_dec_item_count v) = v.
Proof. intros Hv Hc. bs_arith. lia. Qed.

(** * 5. set_delete_marker *)

Lemma bs_set_delete_marker_lt v m : v < 2 ^ 32 -> bs_delete_marker v = 0 -> m < 4 ->
  bs_set_delete_marker v m < 2 ^ 32.
Proof.
  intros Hv Hd Hm. rewrite bs_set_delete_marker_arith by assumption. bs_arith. lia.
Qed.

Lemma bs_set_delete_marker_delete_marker v m : bs_delete_marker v = 0 -> m < 4 ->
  bs_delete_marker (bs_set_delete_marker v m) = m.
Proof.
  intros Hd Hm. rewrite bs_set_delete_marker_arith by assumption. bs_arith. lia.
Qed.

Lemma bs_set_delete_marker_is_locked v m : bs_delete_marker v = 0 -> m < 4 ->
  bs_is_locked (bs_set_delete_marker v m) = bs_is_locked v.
Proof.
  intros Hd Hm. rewrite bs_set_delete_marker_arith by assumption.
  apply bs_is_locked_parity_eq. lia.
Qed.

Lemma bs_set_delete_marker_item_count v m : bs_delete_marker v = 0 -> m < 4 ->
  bs_item_count (bs_set_delete_marker v m) = bs_item_count v.
Proof.
  intros Hd Hm. rewrite bs_set_delete_marker_arith by assumption. bs_arith. lia.
Qed.

Lemma bs_set_delete_marker_version v m : bs_delete_marker v = 0 -> m < 4 ->
  bs_version (bs_set_delete_marker v m) = bs_version v.
Proof.
  intros Hd Hm. rewrite bs_set_delete_marker_arith by assumption. bs_arith. lia.
Qed.

(** * Bundled specifications (one per operation) *)

Theorem bs_locked_spec v : v < 2 ^ 32 ->
  bs_locked v < 2 ^ 32 /\ bs_is_locked (bs_locked v) = true
  /\ bs_item_count (bs_locked v) = bs_item_count v
  /\ bs_delete_marker (bs_locked v) = bs_delete_marker v
  /\ bs_version (bs_locked v) = bs_version v.
Proof.
  intro Hv. repeat split.
  - apply bs_locked_lt; exact Hv.
  - apply bs_locked_is_locked.
  - apply bs_locked_item_count.
  - apply bs_locked_delete_marker.
  - apply bs_locked_version.
Qed.

Theorem bs_clear_lock_spec v : bs_is_locked v = true ->
  bs_is_locked (bs_clear_lock v) = false
  /\ bs_item_count (bs_clear_lock v) = bs_item_count v
  /\ bs_delete_marker (bs_clear_lock v) = bs_delete_marker v
  /\ bs_version (bs_clear_lock v) = bs_version v.
Proof.
  intro H. repeat split.
  - apply bs_clear_lock_is_locked; exact H.
  - apply bs_clear_lock_item_count; exact H.
  - apply bs_clear_lock_delete_marker; exact H.
  - apply bs_clear_lock_version; exact H.
Qed.

Theorem bs_new_version_spec v : v < 2 ^ 32 ->
  bs_new_version v < 2 ^ 32
  /\ bs_version (bs_new_version v) = (bs_version v + 1) mod 2 ^ 27
  /\ bs_is_locked (bs_new_version v) = bs_is_locked v
  /\ bs_item_count (bs_new_version v) = bs_item_count v
  /\ bs_delete_marker (bs_new_version v) = bs_delete_marker v
  /\ bs_new_version v <> v.
Proof.
  intro Hv. repeat apply conj.
  - apply bs_new_version_lt.
  - apply bs_new_version_version; exact Hv.
  - apply bs_new_version_is_locked; exact Hv.
  - apply bs_new_version_item_count; exact Hv.
  - apply bs_new_version_delete_marker; exact Hv.
  - apply bs_new_version_neq; exact Hv.
Qed.

Theorem bs_inc_item_count_spec v : v < 2 ^ 32 -> bs_item_count v < 3 ->
  bs_inc_item_count v < 2 ^ 32
  /\ bs_item_count (bs_inc_item_count v) = bs_item_count v + 1
  /\ bs_is_locked (bs_inc_item_count v) = bs_is_locked v
  /\ bs_delete_marker (bs_inc_item_count v) = bs_delete_marker v
  /\ bs_version (bs_inc_item_count v) = bs_version v.
Proof.
  intros Hv Hc. repeat split.
  - apply bs_inc_item_count_lt.
  - apply bs_inc_item_count_item_count; assumption.
  - apply bs_inc_item_count_is_locked; assumption.
  - apply bs_inc_item_count_delete_marker; assumption.
  - apply bs_inc_item_count_version; assumption.
Qed.

Theorem bs_dec_item_count_spec v : v < 2 ^ 32 -> 0 < bs_item_count v ->
  bs_dec_item_count v < 2 ^ 32
  /\ bs_item_count (bs_dec_item_count v) = bs_item_count v - 1
  /\ bs_is_locked (bs_dec_item_count v) = bs_is_locked v
  /\ bs_delete_marker (bs_dec_item_count v) = bs_delete_marker v
  /\ bs_version (bs_dec_item_count v) = bs_version v.
Proof.
  intros Hv Hc. repeat split.
  - apply bs_dec_item_count_lt.
  - apply bs_dec_item_count_item_count; assumption.
  - apply bs_dec_item_count_is_locked; assumption.
  - apply bs_dec_item_count_delete_marker; assumption.
  - apply bs_dec_item_count_version; assumption.
Qed.

Theorem bs_set_delete_marker_spec v m : v < 2 ^ 32 -> bs_delete_marker v = 0 -> m < 4 ->
  bs_set_delete_marker v m < 2 ^ 32
  /\ bs_delete_marker (bs_set_delete_marker v m) = m
  /\ bs_is_locked (bs_set_delete_marker v m) = bs_is_locked v
  /\ bs_item_count (bs_set_delete_marker v m) = bs_item_count v
  /\ bs_version (bs_set_delete_marker v m) = bs_version v.
Proof.
  intros Hv Hd Hm. repeat split.
  - apply bs_set_delete_marker_lt; assumption.
  - apply bs_set_delete_marker_delete_marker; assumption.
  - apply bs_set_delete_marker_is_locked; assumption.
  - apply bs_set_delete_marker_item_count; assumption.
  - apply bs_set_delete_marker_version; assumption.
Qed.
