(** Layer G: the hazard pointer slots of a thread (guards, free list, what the slots contain) *)
From Coq Require Import NArith List Bool Arith Lia PeanoNat.
From XV Require Import Conc.Lts Conc.Ev Model.HpDefs Proof.HpBase.
Import ListNotations.

Fixpoint chain (f : nat -> slotv) (l : list nat) : Prop :=
  match l with [] => True | i :: l' => f i = VLink (hd_opt l') /\ chain f l' end.

Lemma chain_ext f f' l : (forall i, In i l -> f' i = f i) -> chain f l -> chain f' l.
Proof.
  induction l as [|i l IH]; intros He H; [exact I|]. destruct H as [H1 H2]. split.
  - rewrite He; [exact H1|left; reflexivity].
  - apply IH; [|exact H2]. intros j Hj. apply He. right. exact Hj.
Qed.

Definition is_tmp (k : ctx) : bool := match k with KHold _ _ => false | _ => true end.
Definition uses_tmp (p : pc) : bool :=
  match p with
  | Q1 k | W0 k _ | W1 k _ _ _ | W2 k _ _ _ | A1 k _ _ | A2 k _ _ | A3 k _ _ _ | I0 k _ | I1 k _ _ | H1 k _
  | Q2 k _ | Q3 k _ | Q4 k _ | QR k => is_tmp k
  | R1 _ _ | R2 _ | RR _ => true
  | _ => false
  end.

Section G.
Variable nslots : nat.

Definition ctx_ok (k : ctx) : Prop := match k with KHold _ g => g < nslots | _ => True end.
Definition sk_exit (k : sctx) : Prop := match k with SExit => True | SRepl => False end.

Definition init_link (j : nat) : slotv := VLink (if j <? 2 then Some (S j) else None).

(** what the program point of thread t says about its guards and slots *)
Definition pcG (st : state) (x : tls) (p : pc) : Prop :=
  let none := forall g, hp (gd x g) = None in
  match p with
  | Begin (OHold _ g) | Begin (ODeref g) | Begin (ODrop g) | D1 g => g < nslots
  | Q1 k | Q2 k _ | QR k => ctx_ok k
  | W0 k _ | W1 k _ _ _ | W2 k _ _ _ | A1 k _ _ | A2 k _ _ | A3 k _ _ _ => ctx_ok k /\ none
  | I0 k _ => ctx_ok k /\ none /\ fl x = []
  | I1 k _ i => ctx_ok k /\ none /\ fl x = [] /\ i < 3 /\ forall b j, rcd x = Some b -> j < i -> hz st b j = init_link j
  | H1 k _ => ctx_ok k /\ hp (gd x (guard_of nslots k)) = None
  | Q3 k p | Q4 k p =>
    ctx_ok k /\ hp (gd x (guard_of nslots k)) <> None /\
    forall b i, rcd x = Some b -> hp (gd x (guard_of nslots k)) = Some i -> hz st b i = VObj (Some p)
  | X0 g => forall j, j < g -> hp (gd x j) = None
  | S0 k => sk_exit k -> none
  | S1 s | S2 s | S3 s | S4 s | S5 s _ _ | S6 s _ _ _ | S7 s => sk_exit (s_k s) -> none
  | X2 | X3 _ | X4 | X5 | Done => none
  | _ => True
  end.

Record GT (st : state) (t : nat) : Prop := mkGT {
  g_lt : forall g i, hp (gd (tl st t) g) = Some i -> i < 3 /\ rcd (tl st t) <> None;
  g_inj : forall g g' i, hp (gd (tl st t) g) = Some i -> hp (gd (tl st t) g') = Some i -> g = g';
  g_hint : hint (tl st t) = hd_opt (fl (tl st t));
  g_fl : NoDup (fl (tl st t)) /\ forall i, In i (fl (tl st t)) -> i < 3 /\ forall g, hp (gd (tl st t) g) <> Some i;
  g_chain : forall b, rcd (tl st t) = Some b -> chain (hz st b) (fl (tl st t));
  g_nofl : rcd (tl st t) = None -> fl (tl st t) = [];
  g_ptr : forall g n, ptr (gd (tl st t) g) = Some n -> hp (gd (tl st t) g) <> None;
  g_val : forall b g i n, rcd (tl st t) = Some b -> hp (gd (tl st t) g) = Some i -> ptr (gd (tl st t) g) = Some n ->
          gv (gd (tl st t) g) = true -> hz st b i = VObj (Some n);
  g_hi : forall g, nslots < g -> hp (gd (tl st t) g) = None;
  g_tmp : uses_tmp (th st t) = false -> hp (gd (tl st t) nslots) = None;
  g_pc : pcG st (tl st t) (th st t) }.

Definition InvG (st : state) : Prop := forall t, GT st t.

(** a thread without a control block has no hazard pointer *)
Lemma no_rcd_no_hp st t : GT st t -> rcd (tl st t) = None -> forall g, hp (gd (tl st t) g) = None.
Proof.
  intros HG Hr g. destruct (hp (gd (tl st t) g)) eqn:E; [|reflexivity].
  destruct (g_lt st t HG g n E) as [_ H]. contradiction.
Qed.

(** ** frame: nothing the invariant of thread t looks at changes *)
Lemma GT_frame st st' t :
  tl st' t = tl st t -> th st' t = th st t ->
  (forall b i, rcd (tl st t) = Some b -> hz st' b i = hz st b i) ->
  GT st t -> GT st' t.
Proof.
  intros Htl Hth Hhz [I1 I2 I3 I4 I5 I6 I7 I8 I9 I10 I11].
  constructor; rewrite ?Htl, ?Hth; try assumption.
  - intros b Hb. apply (chain_ext (hz st b)); [intros i _; apply Hhz; exact Hb|apply I5; exact Hb].
  - intros b g i n Hb. rewrite Hhz by exact Hb. apply I8. exact Hb.
  - destruct (th st t) as [| |[]| | | | | | | | | | | | | | | | | | | | | | | | | | | | | | | | ]; cbn [pcG] in *; try assumption.
    + destruct I11 as (H1 & H2 & H3 & H4 & H5). repeat split; try assumption. intros b j Hb Hj. rewrite Hhz by exact Hb. apply H5; assumption.
    + destruct I11 as (H1 & H2 & H3). repeat split; try assumption. intros b j Hb Hj. rewrite Hhz by exact Hb. apply H3; assumption.
    + destruct I11 as (H1 & H2 & H3). repeat split; try assumption. intros b j Hb Hj. rewrite Hhz by exact Hb. apply H3; assumption.
Qed.

(** ** the thread moves to another program point, its thread_data and slots unchanged *)
Lemma GT_pc st st' t :
  tl st' t = tl st t ->
  (forall b i, rcd (tl st t) = Some b -> hz st' b i = hz st b i) ->
  GT st t ->
  (uses_tmp (th st' t) = false -> hp (gd (tl st t) nslots) = None) ->
  pcG st' (tl st t) (th st' t) ->
  GT st' t.
Proof.
  intros Htl Hhz [I1 I2 I3 I4 I5 I6 I7 I8 I9 I10 I11] Ht Hp.
  constructor; rewrite ?Htl; try assumption.
  - intros b Hb. apply (chain_ext (hz st b)); [intros i _; apply Hhz; exact Hb|apply I5; exact Hb].
  - intros b g i n Hb. rewrite Hhz by exact Hb. apply I8. exact Hb.
Qed.

(** ** the thread's hazard pointers and slots are unchanged (retire list and ghosts may change) *)
Lemma GT_local st st' t :
  rcd (tl st' t) = rcd (tl st t) -> hint (tl st' t) = hint (tl st t) -> fl (tl st' t) = fl (tl st t) ->
  (forall g, gd (tl st' t) g = gd (tl st t) g) ->
  (forall b i, rcd (tl st t) = Some b -> hz st' b i = hz st b i) ->
  GT st t ->
  (uses_tmp (th st' t) = false -> hp (gd (tl st t) nslots) = None) ->
  pcG st' (tl st' t) (th st' t) ->
  GT st' t.
Proof.
  intros Hr Hh Hf Hg Hhz [I1 I2 I3 I4 I5 I6 I7 I8 I9 I10 I11] Ht Hp.
  constructor; rewrite ?Hr, ?Hh, ?Hf; try assumption; try (intros; rewrite ?Hg in *; eauto; fail).
  - destruct I4 as [H1 H2]. split; [exact H1|]. intros i Hi. destruct (H2 i Hi) as [H3 H4]. split; [exact H3|]. intros g. rewrite Hg. apply H4.
  - intros b Hb. apply (chain_ext (hz st b)); [intros i _; apply Hhz; exact Hb|apply I5; exact Hb].
  - intros b g i n Hb. rewrite Hhz by exact Hb. rewrite Hg. apply I8. exact Hb.
Qed.

(** ** guard_ptr::reset() of a guard that owns slot i *)
Lemma GT_reset st st' t b i g :
  GT st t -> rcd (tl st t) = Some b -> hp (gd (tl st t) g) = Some i ->
  rcd (tl st' t) = Some b -> hint (tl st' t) = Some i -> fl (tl st' t) = i :: fl (tl st t) ->
  (forall g', gd (tl st' t) g' = upd (gd (tl st t)) g g0 g') ->
  (forall j, hz st' b j = if j =? i then VLink (hint (tl st t)) else hz st b j) ->
  (uses_tmp (th st' t) = false -> g <> nslots -> hp (gd (tl st t) nslots) = None) ->
  pcG st' (tl st' t) (th st' t) ->
  GT st' t.
Proof.
  intros [I1 I2 I3 I4 I5 I6 I7 I8 I9 I10 I11] Hb Hg Hr Hh Hf Hgd Hhz Ht Hp.
  assert (Hgd' : forall g', g' <> g -> gd (tl st' t) g' = gd (tl st t) g') by (intros g' Hne; rewrite Hgd; upds; reflexivity).
  assert (Hgg : gd (tl st' t) g = g0) by (rewrite Hgd; upds; reflexivity).
  destruct I4 as [Hnd Hfl].
  assert (Hni : ~ In i (fl (tl st t))) by (intros Hc; destruct (Hfl i Hc) as [_ Hc']; apply (Hc' g); exact Hg).
  constructor; rewrite ?Hr, ?Hh, ?Hf.
  - intros g' j H. split; [|congruence]. destruct (Nat.eq_dec g' g) as [->|Hne]; [rewrite Hgg in H; discriminate|].
    rewrite Hgd' in H by exact Hne. apply (I1 g' j H).
  - intros g1 g2 j H1 H2.
    destruct (Nat.eq_dec g1 g) as [->|Hn1]; [rewrite Hgg in H1; discriminate|].
    destruct (Nat.eq_dec g2 g) as [->|Hn2]; [rewrite Hgg in H2; discriminate|].
    rewrite Hgd' in H1, H2 by assumption. apply (I2 g1 g2 j); assumption.
  - reflexivity.
  - split; [constructor; assumption|]. intros j [<-|Hj].
    + split; [apply (I1 g i Hg)|]. intros g'. destruct (Nat.eq_dec g' g) as [->|Hne]; [rewrite Hgg; discriminate|].
      rewrite Hgd' by exact Hne. intros Hc. apply Hne. apply (I2 g' g i); assumption.
    + destruct (Hfl j Hj) as [H1 H2]. split; [exact H1|]. intros g'.
      destruct (Nat.eq_dec g' g) as [->|Hne]; [rewrite Hgg; discriminate|]. rewrite Hgd' by exact Hne. apply H2.
  - intros b' Hb'. injection Hb' as <-. cbn [chain]. split.
    + rewrite Hhz, Nat.eqb_refl, I3. reflexivity.
    + apply (chain_ext (hz st b)); [|apply I5; exact Hb]. intros j Hj. rewrite Hhz.
      destruct (Nat.eqb_spec j i) as [->|_]; [contradiction|reflexivity].
  - intros; discriminate.
  - intros g' n H. destruct (Nat.eq_dec g' g) as [->|Hne]; [rewrite Hgg in H; discriminate|].
    rewrite Hgd' in * by exact Hne. apply (I7 g' n H).
  - intros b' g' j n Hb' H1 H2 H3. injection Hb' as <-.
    destruct (Nat.eq_dec g' g) as [->|Hne]; [rewrite Hgg in H1; discriminate|]. rewrite Hgd' in * by exact Hne.
    rewrite Hhz. destruct (Nat.eqb_spec j i) as [->|_]; [exfalso; apply Hne; apply (I2 g' g i); assumption|].
    apply (I8 b g' j n); assumption.
  - intros g' H. destruct (Nat.eq_dec g' g) as [->|Hne]; [rewrite Hgg; reflexivity|]. rewrite Hgd' by exact Hne. apply I9. exact H.
  - intros H. destruct (Nat.eq_dec nslots g) as [->|Hne]; [rewrite Hgg; reflexivity|]. rewrite Hgd' by exact Hne. apply Ht; [exact H|congruence].
  - exact Hp.
Qed.

(** ** a guard without hazard pointer is emptied (acquire of a null pointer, drop of an empty guard) *)
Lemma GT_clear st st' t g v :
  GT st t -> hp (gd (tl st t) g) = None -> hp v = None -> ptr v = None ->
  rcd (tl st' t) = rcd (tl st t) -> hint (tl st' t) = hint (tl st t) -> fl (tl st' t) = fl (tl st t) ->
  (forall g', gd (tl st' t) g' = upd (gd (tl st t)) g v g') ->
  (forall b i, rcd (tl st t) = Some b -> hz st' b i = hz st b i) ->
  (uses_tmp (th st' t) = false -> g <> nslots -> hp (gd (tl st t) nslots) = None) ->
  pcG st' (tl st' t) (th st' t) ->
  GT st' t.
Proof.
  intros [I1 I2 I3 I4 I5 I6 I7 I8 I9 I10 I11] Hg Hv1 Hv2 Hr Hh Hf Hgd Hhz Ht Hp.
  assert (Hhp : forall g', hp (gd (tl st' t) g') = hp (gd (tl st t) g')).
  { intros g'. rewrite Hgd. destruct (Nat.eq_dec g' g) as [->|Hne]; upds; congruence. }
  assert (Hgd' : forall g', g' <> g -> gd (tl st' t) g' = gd (tl st t) g') by (intros g' Hne; rewrite Hgd; upds; reflexivity).
  assert (Hgg : gd (tl st' t) g = v) by (rewrite Hgd; upds; reflexivity).
  constructor; rewrite ?Hr, ?Hh, ?Hf; try assumption.
  - intros g' j. rewrite Hhp. apply I1.
  - intros g1 g2 j. rewrite !Hhp. apply I2.
  - destruct I4 as [H1 H2]. split; [exact H1|]. intros i Hi. destruct (H2 i Hi) as [H3 H4]. split; [exact H3|]. intros g'. rewrite Hhp. apply H4.
  - intros b Hb. apply (chain_ext (hz st b)); [intros i _; apply Hhz; exact Hb|apply I5; exact Hb].
  - intros g' n H. rewrite Hhp. destruct (Nat.eq_dec g' g) as [->|Hne]; [rewrite Hgg in H; congruence|].
    rewrite Hgd' in H by exact Hne. apply (I7 g' n H).
  - intros b g' i n Hb H1 H2 H3. rewrite Hhp in H1. destruct (Nat.eq_dec g' g) as [->|Hne]; [congruence|].
    rewrite Hgd' in * by exact Hne. rewrite Hhz by exact Hb. apply (I8 b g' i n); assumption.
  - intros g' H. rewrite Hhp. apply I9. exact H.
  - intros H. rewrite Hhp. destruct (Nat.eq_dec g nslots) as [->|Hne]; [exact Hg|apply Ht; assumption].
Qed.

(** ** alloc_hazard_pointer: the guard takes the first slot of the free list *)
Lemma GT_alloc st st' t b i g v :
  GT st t -> rcd (tl st t) = Some b -> hint (tl st t) = Some i -> hp (gd (tl st t) g) = None ->
  hp v = Some i -> ptr v = ptr (gd (tl st t) g) ->
  rcd (tl st' t) = Some b -> hint (tl st' t) = link_of (hz st b i) -> fl (tl st' t) = List.tl (fl (tl st t)) ->
  (forall g', gd (tl st' t) g' = upd (gd (tl st t)) g v g') ->
  (forall j, hz st' b j = hz st b j) ->
  (g <= nslots) ->
  (uses_tmp (th st' t) = false -> g <> nslots /\ hp (gd (tl st t) nslots) = None) ->
  pcG st' (tl st' t) (th st' t) ->
  GT st' t.
Proof.
  intros [I1 I2 I3 I4 I5 I6 I7 I8 I9 I10 I11] Hb Hh Hg Hv1 Hv2 Hr Hh' Hf Hgd Hhz Hle Ht Hp.
  assert (Hgd' : forall g', g' <> g -> gd (tl st' t) g' = gd (tl st t) g') by (intros g' Hne; rewrite Hgd; upds; reflexivity).
  assert (Hgg : gd (tl st' t) g = v) by (rewrite Hgd; upds; reflexivity).
  destruct (fl (tl st t)) as [|i' fl'] eqn:Efl; [rewrite Hh in I3; discriminate|].
  rewrite Hh in I3. cbn in I3. injection I3 as <-.
  destruct I4 as [Hnd Hfl]. apply NoDup_cons_iff in Hnd. destruct Hnd as [Hni Hnd'].
  specialize (I5 b Hb). cbn [chain] in I5. destruct I5 as [Hc1 Hc2].
  assert (Hpg : ptr (gd (tl st t) g) = None).
  { destruct (ptr (gd (tl st t) g)) eqn:E; [|reflexivity]. exfalso. apply (I7 g n E). exact Hg. }
  constructor; rewrite ?Hr, ?Hh', ?Hf; cbn [List.tl].
  - intros g' j H. split; [|congruence]. destruct (Nat.eq_dec g' g) as [->|Hne].
    + rewrite Hgg, Hv1 in H. injection H as <-. apply (Hfl i). left. reflexivity.
    + rewrite Hgd' in H by exact Hne. apply (I1 g' j H).
  - intros g1 g2 j H1 H2.
    destruct (Nat.eq_dec g1 g) as [->|Hn1]; destruct (Nat.eq_dec g2 g) as [->|Hn2]; try reflexivity.
    + rewrite Hgg, Hv1 in H1. injection H1 as <-. rewrite Hgd' in H2 by exact Hn2.
      exfalso. destruct (Hfl i (or_introl eq_refl)) as [_ Hc]. apply (Hc g2). exact H2.
    + rewrite Hgg, Hv1 in H2. injection H2 as <-. rewrite Hgd' in H1 by exact Hn1.
      exfalso. destruct (Hfl i (or_introl eq_refl)) as [_ Hc]. apply (Hc g1). exact H1.
    + rewrite Hgd' in H1, H2 by assumption. apply (I2 g1 g2 j); assumption.
  - rewrite Hc1. reflexivity.
  - split; [exact Hnd'|]. intros j Hj. destruct (Hfl j (or_intror Hj)) as [H1 H2]. split; [exact H1|]. intros g'.
    destruct (Nat.eq_dec g' g) as [->|Hne].
    + rewrite Hgg, Hv1. intros Hc. injection Hc as <-. contradiction.
    + rewrite Hgd' by exact Hne. apply H2.
  - intros b' Hb'. injection Hb' as <-. apply (chain_ext (hz st b)); [intros j _; apply Hhz|exact Hc2].
  - intros; discriminate.
  - intros g' n H. destruct (Nat.eq_dec g' g) as [->|Hne]; [rewrite Hgg, Hv1; discriminate|].
    rewrite Hgd' in * by exact Hne. apply (I7 g' n H).
  - intros b' g' j n Hb' H1 H2 H3. injection Hb' as <-.
    destruct (Nat.eq_dec g' g) as [->|Hne]; [rewrite Hgg, Hv2, Hpg in H2; discriminate|]. rewrite Hgd' in * by exact Hne.
    rewrite Hhz. apply (I8 b g' j n); assumption.
  - intros g' H. assert (g' <> g) by lia. rewrite Hgd' by assumption. apply I9. exact H.
  - intros H. destruct (Ht H) as [H1 H2]. rewrite Hgd' by congruence. exact H2.
  - exact Hp.
Qed.

(** ** set_object: the guard's slot is overwritten with the candidate *)
Lemma GT_setobj st st' t b i g p v :
  GT st t -> rcd (tl st t) = Some b -> hp (gd (tl st t) g) = Some i ->
  hp v = Some i -> gv v = false ->
  rcd (tl st' t) = Some b -> hint (tl st' t) = hint (tl st t) -> fl (tl st' t) = fl (tl st t) ->
  (forall g', gd (tl st' t) g' = upd (gd (tl st t)) g v g') ->
  (forall j, hz st' b j = if j =? i then VObj (Some p) else hz st b j) ->
  (uses_tmp (th st' t) = false -> g <> nslots /\ hp (gd (tl st t) nslots) = None) ->
  pcG st' (tl st' t) (th st' t) ->
  GT st' t.
Proof.
  intros [I1 I2 I3 I4 I5 I6 I7 I8 I9 I10 I11] Hb Hg Hv1 Hv2 Hr Hh Hf Hgd Hhz Ht Hp.
  assert (Hhp : forall g', hp (gd (tl st' t) g') = hp (gd (tl st t) g')).
  { intros g'. rewrite Hgd. destruct (Nat.eq_dec g' g) as [->|Hne]; upds; congruence. }
  assert (Hgd' : forall g', g' <> g -> gd (tl st' t) g' = gd (tl st t) g') by (intros g' Hne; rewrite Hgd; upds; reflexivity).
  assert (Hgg : gd (tl st' t) g = v) by (rewrite Hgd; upds; reflexivity).
  destruct I4 as [Hnd Hfl].
  assert (Hni : ~ In i (fl (tl st t))) by (intros Hc; destruct (Hfl i Hc) as [_ Hc']; apply (Hc' g); exact Hg).
  constructor; rewrite ?Hr, ?Hh, ?Hf; try assumption.
  - intros g' j. rewrite Hhp. intros H. split; [apply (I1 g' j H)|congruence].
  - intros g1 g2 j. rewrite !Hhp. apply I2.
  - split; [exact Hnd|]. intros j Hj. destruct (Hfl j Hj) as [H3 H4]. split; [exact H3|]. intros g'. rewrite Hhp. apply H4.
  - intros b' Hb'. injection Hb' as <-. apply (chain_ext (hz st b)); [|apply I5; exact Hb]. intros j Hj. rewrite Hhz.
    destruct (Nat.eqb_spec j i) as [->|_]; [contradiction|reflexivity].
  - intros; discriminate.
  - intros g' n H. rewrite Hhp. destruct (Nat.eq_dec g' g) as [->|Hne]; [congruence|].
    rewrite Hgd' in H by exact Hne. apply (I7 g' n H).
  - intros b' g' j n Hb' H1 H2 H3. injection Hb' as <-. destruct (Nat.eq_dec g' g) as [->|Hne]; [rewrite Hgg in H3; congruence|].
    rewrite Hgd' in * by exact Hne. rewrite Hhz.
    destruct (Nat.eqb_spec j i) as [->|_]; [exfalso; apply Hne; apply (I2 g' g i); assumption|].
    apply (I8 b g' j n); assumption.
  - intros g' H. rewrite Hhp. apply I9. exact H.
  - intros H. rewrite Hhp. apply Ht. exact H.
Qed.

(** ** the validating load succeeded: this->ptr = p *)
Lemma GT_validate st st' t g p v :
  GT st t -> hp (gd (tl st t) g) <> None ->
  (forall b i, rcd (tl st t) = Some b -> hp (gd (tl st t) g) = Some i -> hz st b i = VObj (Some p)) ->
  hp v = hp (gd (tl st t) g) -> ptr v = Some p ->
  rcd (tl st' t) = rcd (tl st t) -> hint (tl st' t) = hint (tl st t) -> fl (tl st' t) = fl (tl st t) ->
  (forall g', gd (tl st' t) g' = upd (gd (tl st t)) g v g') ->
  (forall b i, rcd (tl st t) = Some b -> hz st' b i = hz st b i) ->
  (uses_tmp (th st' t) = false -> g <> nslots /\ hp (gd (tl st t) nslots) = None) ->
  pcG st' (tl st' t) (th st' t) ->
  GT st' t.
Proof.
  intros [I1 I2 I3 I4 I5 I6 I7 I8 I9 I10 I11] Hg Hs Hv1 Hv2 Hr Hh Hf Hgd Hhz Ht Hp.
  assert (Hhp : forall g', hp (gd (tl st' t) g') = hp (gd (tl st t) g')).
  { intros g'. rewrite Hgd. destruct (Nat.eq_dec g' g) as [->|Hne]; upds; congruence. }
  assert (Hgd' : forall g', g' <> g -> gd (tl st' t) g' = gd (tl st t) g') by (intros g' Hne; rewrite Hgd; upds; reflexivity).
  assert (Hgg : gd (tl st' t) g = v) by (rewrite Hgd; upds; reflexivity).
  constructor; rewrite ?Hr, ?Hh, ?Hf; try assumption.
  - intros g' j. rewrite Hhp. apply I1.
  - intros g1 g2 j. rewrite !Hhp. apply I2.
  - destruct I4 as [H1 H2]. split; [exact H1|]. intros i Hi. destruct (H2 i Hi) as [H3 H4]. split; [exact H3|]. intros g'. rewrite Hhp. apply H4.
  - intros b Hb. apply (chain_ext (hz st b)); [intros i _; apply Hhz; exact Hb|apply I5; exact Hb].
  - intros g' n H. rewrite Hhp. destruct (Nat.eq_dec g' g) as [->|Hne]; [exact Hg|].
    rewrite Hgd' in H by exact Hne. apply (I7 g' n H).
  - intros b g' i n Hb H1 H2 H3. rewrite Hhp in H1. rewrite Hhz by exact Hb. destruct (Nat.eq_dec g' g) as [->|Hne].
    + rewrite Hgg, Hv2 in H2. injection H2 as <-. apply Hs; assumption.
    + rewrite Hgd' in * by exact Hne. apply (I8 b g' i n); assumption.
  - intros g' H. rewrite Hhp. apply I9. exact H.
  - intros H. rewrite Hhp. apply Ht. exact H.
Qed.

(** ** no guard owns a hazard pointer and the free list is empty: the slots may change (initialize) *)
Lemma GT_fresh st st' t :
  GT st t -> (forall g, hp (gd (tl st t) g) = None) -> fl (tl st' t) = [] -> hint (tl st' t) = None ->
  (forall g, gd (tl st' t) g = gd (tl st t) g) ->
  pcG st' (tl st' t) (th st' t) ->
  GT st' t.
Proof.
  intros [I1 I2 I3 I4 I5 I6 I7 I8 I9 I10 I11] Hn Hf Hh Hgd Hp.
  assert (Hn' : forall g, hp (gd (tl st' t) g) = None) by (intros g; rewrite Hgd; apply Hn).
  constructor; rewrite ?Hf, ?Hh; try assumption; try reflexivity.
  - intros g i H. rewrite Hn' in H. discriminate.
  - intros g g' i H. rewrite Hn' in H. discriminate.
  - split; [constructor|]. intros i [].
  - intros g n H. rewrite Hgd in H. exfalso. apply (I7 g n H). apply Hn.
  - intros b g i n _ H. rewrite Hn' in H. discriminate.
  - intros; apply Hn'.
  - intros; apply Hn'.
Qed.

(** ** the last store of initialize: the free list is 0 -> 1 -> 2 *)
Lemma GT_initialized st st' t b :
  GT st t -> (forall g, hp (gd (tl st t) g) = None) ->
  rcd (tl st' t) = Some b -> fl (tl st' t) = [0; 1; 2] -> hint (tl st' t) = Some 0 ->
  (forall g, gd (tl st' t) g = gd (tl st t) g) ->
  (forall j, j < 3 -> hz st' b j = init_link j) ->
  pcG st' (tl st' t) (th st' t) ->
  GT st' t.
Proof.
  intros [I1 I2 I3 I4 I5 I6 I7 I8 I9 I10 I11] Hn Hr Hf Hh Hgd Hhz Hp.
  assert (Hn' : forall g, hp (gd (tl st' t) g) = None) by (intros g; rewrite Hgd; apply Hn).
  constructor; rewrite ?Hf, ?Hh, ?Hr; try assumption; try reflexivity.
  - intros g i H. rewrite Hn' in H. discriminate.
  - intros g g' i H. rewrite Hn' in H. discriminate.
  - split.
    + repeat constructor; cbn [In]; lia.
    + intros i Hi. split; [cbn [In] in Hi; lia|]. intros g. rewrite Hn'. discriminate.
  - intros b' Hb'. injection Hb' as <-. cbn [chain hd_opt]. rewrite !Hhz by lia. cbn. tauto.
  - intros; discriminate.
  - intros g n H. rewrite Hgd in H. exfalso. apply (I7 g n H). apply Hn.
  - intros b' g i n _ H. rewrite Hn' in H. discriminate.
  - intros; apply Hn'.
  - intros; apply Hn'.
Qed.
Lemma hz_other st t t' b i v :
  InvO st -> t' <> t -> rcd (tl st t) = Some b ->
  forall b' j, rcd (tl st t') = Some b' -> upd2 (hz st) b i v b' j = hz st b' j.
Proof.
  intros HO Hne Hb b' j Hb'. unfold upd2. destruct (Nat.eqb_spec b' b) as [->|_]; [|reflexivity].
  exfalso. apply Hne. apply (own_inj st t' t b HO Hb' Hb).
Qed.

Lemma upd2_same_block {X} (f : nat -> nat -> X) b i v j : upd2 f b i v b j = if j =? i then v else f b j.
Proof. unfold upd2. rewrite Nat.eqb_refl. reflexivity. Qed.

Lemma all_none st t :
  GT st t -> uses_tmp (th st t) = false -> (forall j, j < nslots -> hp (gd (tl st t) j) = None) ->
  forall g, hp (gd (tl st t) g) = None.
Proof.
  intros HG Ht H g. destruct (Nat.lt_trichotomy g nslots) as [Hl|[->|Hl]]; [apply H; exact Hl|apply (g_tmp st t HG Ht)|apply (g_hi st t HG g Hl)].
Qed.

Ltac ra := first [reflexivity | assumption].
Ltac tmpg HGt Hth :=
  cbn [uses_tmp is_tmp]; intros;
  first [ discriminate | assumption | congruence
        | (apply (g_tmp _ _ HGt); rewrite Hth; cbn [uses_tmp is_tmp]; first [assumption|reflexivity]) ].

Ltac pcg HGt Hth :=
  let Hpc := fresh "Hpc" in
  pose proof (g_pc _ _ HGt) as Hpc; rewrite Hth in Hpc; cbn [pcG ctx_ok sk_exit s_k] in *; prj; upds;
  try (intuition (auto; try lia; try congruence); fail).


Lemma x0_none st t b i g :
  GT st t -> th st t = X0 g ->
  (forall j, S g <= j < S g + (nslots - S g) -> hp (gd (tl (reset_guard st t b i g) t) j) = None) ->
  (forall j, j < g -> hp (gd (tl st t) j) = None) ->
  forall g1, hp (upd (gd (tl st t)) g {| hp := None; ptr := None; gv := true |} g1) = None.
Proof.
  intros HGt Hth Hg1 Hpc g1. destruct (Nat.eq_dec g1 g) as [->|Hne]; upds; [reflexivity|].
  destruct (Nat.lt_ge_cases g1 g) as [Hl|Hl]; [apply Hpc; exact Hl|].
  destruct (Nat.lt_trichotomy g1 nslots) as [Hl2|[->|Hl2]].
  - specialize (Hg1 g1). unfold reset_guard in Hg1. prjh Hg1. upds_in Hg1. prjh Hg1. upds_in Hg1. apply Hg1. lia.
  - apply (g_tmp _ _ HGt). rewrite Hth. reflexivity.
  - apply (g_hi _ _ HGt). exact Hl2.
Qed.

Lemma InvG_step st a st' es : InvO st -> InvG st -> step nslots st a = Some (st', es) -> InvG st'.
Proof.
  intros HO HG Hs. destruct a as [t o|t]; cbn [step] in Hs.
  - destruct (th st t) eqn:Hth; try discriminate Hs. destruct (legal nslots o) eqn:Hl; [|discriminate Hs].
    injection Hs as <- <-. intros t'. destruct (Nat.eq_dec t' t) as [->|Hne].
    + pose proof (HG t) as HGt. apply (GT_pc st); prj; upds; try reflexivity; try assumption.
      * tmpg HGt Hth.
      * destruct o; cbn [pcG legal] in *; try exact I; apply Nat.ltb_lt; exact Hl.
    + apply (GT_frame st); prj; upds; try reflexivity. apply HG.
  - pose proof (HG t) as HGt. destruct (th st t) eqn:Hth; try discriminate Hs.
    all: leaves Hs.
    all: intros t'; destruct (Nat.eq_dec t' t) as [->|Hne];
      [|apply (GT_frame st); dg; prj; upds; try reflexivity; try apply HG; try (eapply hz_other; eassumption)].
    all: try (dg; (apply (GT_local st); prj; upds; [reflexivity|reflexivity|reflexivity|reflexivity|reflexivity|exact HGt|tmpg HGt Hth|pcg HGt Hth])).
    (* "no guard owns a hazard pointer" *)
    all: try (match goal with
      | |- forall j, j < _ -> hp _ = None => intros j Hj; apply Hg3; lia
      | |- True -> forall g, hp _ = None => intros _; apply all_none; [exact HGt|rewrite Hth; reflexivity|intros j Hj; apply Hg1; lia]
      | |- forall g, hp _ = None =>
        first [ (apply all_none; [exact HGt|rewrite Hth; reflexivity|intros j Hj; apply Hg1; lia])
              | (match goal with H : s_k ?s = SExit, Hpc : sk_exit (s_k ?s) -> _ |- _ => apply Hpc; rewrite H; exact I end) ]
      | |- ctx_ok _ /\ (forall g, hp _ = None) => split; [assumption|apply no_rcd_no_hp; assumption]
      end; fail).
    (* reset() *)
    all: try (match goal with
      | Er : rcd (tl ?st ?t) = Some ?b, Eh : hp (gd (tl ?st ?t) ?g) = Some ?i |- context [reset_guard ?st ?t ?b ?i ?g] =>
        dg; (apply (GT_reset st _ t b i g); unfold reset_guard; prj; upds; prj;
          [exact HGt|exact Er|exact Eh|ra|ra|ra|ra|intros; apply upd2_same_block|tmpg HGt Hth|pcg HGt Hth])
      end).
    (* a guard without hazard pointer is emptied *)
    all: unfold g0 in *.
    all: try (match goal with
      | Eh : hp (gd (tl ?st ?t) ?g) = None |- context [set_gd ?t ?g {| hp := None; ptr := None; gv := true |} ?st] =>
        dg; (apply (GT_clear st _ t g (mkG None None true)); unfold set_gd; prj; upds; prj;
          [exact HGt|exact Eh|ra|ra|ra|ra|ra|ra|ra|tmpg HGt Hth|pcg HGt Hth])
      end).
    all: try (pose proof (g_pc _ _ HGt) as Hpc; rewrite Hth in Hpc; cbn [pcG ctx_ok sk_exit s_k guard_of] in Hpc).
    all: try (match goal with
      | |- context [set_gd ?t ?g {| hp := hp (gd (tl ?st ?t) ?g); ptr := Some ?p; gv := true |} ?st] =>
        destruct Hpc as (Hc & Hn & Hz);
        dg; (apply (GT_validate st _ t g p (mkG (hp (gd (tl st t) g)) (Some p) true)); unfold set_gd in *; prj; upds; prj; try ra;
             cbn [uses_tmp is_tmp]; try (intros; discriminate))
      end).
    + (* Q1: bad_hazard_pointer_alloc *)
      apply (GT_local st); prj; upds; try ra.
      intros _. destruct k; cbn [guard_of] in *; try assumption. apply (g_tmp _ _ HGt). rewrite Hth. reflexivity.
    + (* W2: adoption *)
      destruct Hpc as [Hc Hn].
      assert (Hr : rcd (tl st t) = None) by (apply (O_seek st HO); rewrite Hth; reflexivity).
      pose proof (g_nofl _ _ HGt Hr) as Hf. pose proof (g_hint _ _ HGt) as Hh. rewrite Hf in Hh.
      apply (GT_fresh st); prj; upds; prj; try ra. cbn [pcG ctx_ok]. prj; upds; prj. tauto.
    + (* A3: the new block is linked *)
      destruct Hpc as [Hc Hn].
      assert (Hr : rcd (tl st t) = None) by (apply (O_seek st HO); rewrite Hth; reflexivity).
      pose proof (g_nofl _ _ HGt Hr) as Hf. pose proof (g_hint _ _ HGt) as Hh. rewrite Hf in Hh.
      apply (GT_fresh st); prj; upds; prj; try ra. cbn [pcG ctx_ok]. prj; upds; prj. tauto.
    + (* I1: set_link *)
      destruct Hpc as (Hc & Hn & Hf & Hi & Hz). pose proof (g_hint _ _ HGt) as Hh. rewrite Hf in Hh.
      apply Nat.ltb_lt in E0.
      apply (GT_fresh st); prj; upds; prj; try ra. cbn [pcG ctx_ok]. prj; upds; prj.
      repeat split; try assumption; try lia. intros b j Hb Hj. rewrite E in Hb. injection Hb as <-. rewrite upd2_same_block.
      destruct (Nat.eqb_spec j i) as [->|Hne]; [unfold init_link; replace (i <? 2) with true by (symmetry; apply Nat.ltb_lt; exact E0); reflexivity|].
      apply Hz; [exact E|lia].
    + (* I1: the last set_link *)
      destruct Hpc as (Hc & Hn & Hf & Hi & Hz). apply Nat.ltb_ge in E0. assert (i = 2) by lia. subst i.
      apply (GT_initialized st _ t n); prj; upds; prj; try ra.
      * intros j Hj. rewrite upd2_same_block. destruct (Nat.eqb_spec j 2) as [->|Hne]; [reflexivity|]. apply Hz; [exact E|lia].
      * cbn [pcG]. prj; upds; prj. split; [exact Hc|apply Hn].
    + (* H1: alloc_hazard_pointer *)
      destruct Hpc as [Hc Hn].
      assert (Hle : guard_of nslots k <= nslots) by (destruct k; cbn [guard_of ctx_ok] in *; lia).
      apply (GT_alloc st _ t n n0 (guard_of nslots k) (mkG (Some n0) (ptr (gd (tl st t) (guard_of nslots k))) (gv (gd (tl st t) (guard_of nslots k)))));
        prj; upds; prj; try ra.
      cbn [uses_tmp]. intros Hk. destruct k; cbn [is_tmp guard_of ctx_ok] in *; try discriminate. split; [lia|].
      apply (g_tmp _ _ HGt). rewrite Hth. reflexivity.
    + (* Q2: set_object *)
      apply (GT_setobj st _ t n n0 (guard_of nslots k) p (mkG (Some n0) (ptr (gd (tl st t) (guard_of nslots k))) false));
        unfold set_gd; prj; upds; prj; try ra.
      * intros j. apply upd2_same_block.
      * cbn [uses_tmp]. intros Hk. destruct k; cbn [is_tmp guard_of ctx_ok] in *; try discriminate. split; [lia|].
        apply (g_tmp _ _ HGt). rewrite Hth. reflexivity.
      * cbn [pcG]. prj; upds; prj. split; [exact Hpc|]. split; [discriminate|].
        intros b i Hb Hi. rewrite E in Hb. injection Hb as <-. injection Hi as <-. rewrite upd2_same_block, Nat.eqb_refl. reflexivity.
    + (* Q4 read: the guard keeps its hazard pointer until the destructor *)
      intros _. exfalso. apply Hn. clear - E1. prjh E1. upds_in E1. prjh E1. upds_in E1. cbn in E1. upds_in E1. prjh E1. upds_in E1. exact E1.
    + intros _. exfalso. apply Hn. clear - E1. prjh E1. upds_in E1. prjh E1. upds_in E1. cbn in E1. upds_in E1. prjh E1. upds_in E1. exact E1.
    + intros _. split; [lia|]. apply (g_tmp _ _ HGt). rewrite Hth. reflexivity.
    + intros _. split; [lia|]. apply (g_tmp _ _ HGt). rewrite Hth. reflexivity.
    + exfalso. apply (g_ptr _ _ HGt nslots n0); assumption.
    + exfalso. apply (g_ptr _ _ HGt nslots n0); assumption.
    + (* X0: the guards before the next one are empty *)
      intros j Hj. destruct (Nat.eq_dec j g) as [->|Hne]; upds; [reflexivity|].
      destruct (Nat.lt_ge_cases j g) as [Hl|Hl]; [apply Hpc; exact Hl|].
      specialize (Hg3 j). unfold reset_guard in Hg3. prjh Hg3. upds_in Hg3. prjh Hg3. upds_in Hg3. apply Hg3. lia.
    + eapply x0_none; eassumption.
    + eapply x0_none; eassumption.
    + intros _. eapply x0_none; eassumption.
    + (* X5: release_entry *)
      apply (GT_fresh st); prj; upds; prj; try ra.
Qed.

Lemma InvG_init ncells : InvG (init ncells).
Proof.
  intros t. constructor; cbn; intros; try discriminate; try reflexivity; try exact I.
  - split; [constructor|]. intros i [].
Qed.
End G.
