(** Correctness invariants of the Harris-Michael list-based set model (Model/HmlDefs.v):
    structure of the chain (finite, acyclic, strictly sorted, marks are permanent, retired = unlinked),
    abstraction ([g_abs] = keys of the unmarked reachable nodes), linearization (results of the
    completed operations agree with [g_abs] at their linearization points), conservation.
    All theorems hold for every reachable state (any number of threads, any program, any schedule). *)
From Coq Require Import NArith List Bool Lia ZifyBool PeanoNat Sorted FinFun.
From XV Require Import Base.Word Conc.Lts Conc.Ev Model.HmlDefs.
Import ListNotations.
Local Open Scope N_scope.

(** * Generic lemmas *)

Lemma setf_same {X} (f : N -> X) i v : setf f i v i = v.
Proof. unfold setf. rewrite N.eqb_refl. reflexivity. Qed.
Lemma setf_other {X} (f : N -> X) i v j : j <> i -> setf f i v j = f j.
Proof. unfold setf. intros H. destruct (N.eqb_spec j i); [contradiction|reflexivity]. Qed.

(** [linksto nx c b]: consecutive elements of [c] are linked by [nx], the last one links to [b] *)
Fixpoint linksto (nx : N -> N) (c : list N) (b : N) : Prop :=
  match c with
  | [] => True
  | a :: r => nx a = hd b r /\ linksto nx r b
  end.

Lemma hd_app (c1 c2 : list N) b : hd b (c1 ++ c2) = hd (hd b c2) c1.
Proof. destruct c1; reflexivity. Qed.

Lemma linksto_app nx c1 : forall c2 b,
  linksto nx (c1 ++ c2) b <-> linksto nx c1 (hd b c2) /\ linksto nx c2 b.
Proof.
  induction c1 as [|a c1 IH]; intros c2 b; cbn [app linksto].
  - tauto.
  - rewrite IH, hd_app. tauto.
Qed.

Lemma linksto_ext nx nx' c b : (forall x, In x c -> nx' x = nx x) -> linksto nx c b -> linksto nx' c b.
Proof.
  induction c as [|a c IH]; intros He H; cbn [linksto] in *; [exact I|].
  destruct H as [H1 H2]. split.
  - rewrite He; [exact H1 | left; reflexivity].
  - apply IH; [|exact H2]. intros x Hx. apply He. right. exact Hx.
Qed.

Section SS.
  Variable R : N -> N -> Prop.

  Lemma SS_app_inv (l1 : list N) : forall l2, StronglySorted R (l1 ++ l2) ->
    StronglySorted R l1 /\ StronglySorted R l2 /\ (forall x y, In x l1 -> In y l2 -> R x y).
  Proof.
    induction l1 as [|a l1 IH]; intros l2 H; cbn [app] in *.
    - split; [constructor|]. split; [exact H|]. intros x y [].
    - inversion H as [|a' l' Hs Hf]; subst. destruct (IH _ Hs) as (H1 & H2 & H3).
      rewrite Forall_forall in Hf. split; [|split; [exact H2|]].
      + constructor; [exact H1|]. rewrite Forall_forall. intros x Hx. apply Hf. apply in_or_app. left. exact Hx.
      + intros x y [<- | Hx] Hy; [apply Hf; apply in_or_app; right; exact Hy | apply H3; assumption].
  Qed.

  Lemma SS_app (l1 : list N) : forall l2, StronglySorted R l1 -> StronglySorted R l2 ->
    (forall x y, In x l1 -> In y l2 -> R x y) -> StronglySorted R (l1 ++ l2).
  Proof.
    induction l1 as [|a l1 IH]; intros l2 H1 H2 H3; cbn [app]; [exact H2|].
    inversion H1 as [|a' l' Hs Hf]; subst. rewrite Forall_forall in Hf. constructor.
    - apply IH; [exact Hs | exact H2 |]. intros x y Hx Hy. apply H3; [right; exact Hx | exact Hy].
    - rewrite Forall_forall. intros x Hx. apply in_app_or in Hx. destruct Hx as [Hx | Hx].
      + apply Hf. exact Hx.
      + apply H3; [left; reflexivity | exact Hx].
  Qed.

  Lemma SS_cons_inv a l : StronglySorted R (a :: l) -> StronglySorted R l /\ (forall y, In y l -> R a y).
  Proof. intros H. inversion H as [|a' l' Hs Hf]; subst. rewrite Forall_forall in Hf. auto. Qed.

  Lemma SS_cons a l : StronglySorted R l -> (forall y, In y l -> R a y) -> StronglySorted R (a :: l).
  Proof. intros Hs Hf. constructor; [exact Hs | rewrite Forall_forall; exact Hf]. Qed.

  Lemma SS_NoDup l : (forall x, ~ R x x) -> StronglySorted R l -> NoDup l.
  Proof.
    intros Hirr. induction 1 as [|a l Hs IH Hf]; constructor; [|exact IH].
    rewrite Forall_forall in Hf. intros Hc. exact (Hirr a (Hf a Hc)).
  Qed.
End SS.

Lemma SS_ext (R R' : N -> N -> Prop) l :
  (forall x y, In x l -> In y l -> R x y -> R' x y) -> StronglySorted R l -> StronglySorted R' l.
Proof.
  intros He H. induction H as [|a l Hs IH Hf]; constructor.
  - apply IH. intros x y Hx Hy. apply He; right; assumption.
  - rewrite Forall_forall in *. intros y Hy. apply He; [left; reflexivity | right; exact Hy | apply Hf; exact Hy].
Qed.

Lemma NoDup_snoc (l : list N) n : NoDup l -> ~ In n l -> NoDup (l ++ [n]).
Proof.
  induction 1 as [|a l Ha Hnd IH]; intros Hn; cbn [app].
  - constructor; [intros []|constructor].
  - constructor.
    + intros Hc. apply in_app_or in Hc. destruct Hc as [Hc | [<- | []]]; [contradiction|].
      apply Hn. left. reflexivity.
    + apply IH. intros Hc. apply Hn. right. exact Hc.
Qed.

Lemma eq_comm_iff (a b : N) : a = b <-> b = a.
Proof. split; intros H; symmetry; exact H. Qed.

Lemma memb_true k l : memb k l = true <-> In k l.
Proof.
  unfold memb. rewrite existsb_exists. split.
  - intros (x & Hx & He). apply N.eqb_eq in He. subst. exact Hx.
  - intros H. exists k. split; [exact H | apply N.eqb_refl].
Qed.
Lemma memb_false k l : memb k l = false <-> ~ In k l.
Proof.
  rewrite <- memb_true. destruct (memb k l); split; intros H; try reflexivity; try discriminate.
  exfalso. apply H. reflexivity.
Qed.

Lemma in_remk k j l : In j (remk k l) <-> In j l /\ j <> k.
Proof.
  unfold remk. rewrite filter_In. split; intros [H1 H2]; (split; [exact H1|]).
  - intros ->. rewrite N.eqb_refl in H2. discriminate.
  - destruct (N.eqb_spec j k); [contradiction|reflexivity].
Qed.

Lemma apply_lin_snoc l e : apply_lin (l ++ [e]) = apply_lev (apply_lin l) e.
Proof. unfold apply_lin. rewrite fold_left_app. reflexivity. Qed.

Lemma threads_upd (P : nat -> pc -> Prop) f t p :
  (forall t', t' <> t -> P t' (f t')) -> P t p -> forall t', P t' (upd f t p t').
Proof.
  intros Ho Hp t'. destruct (Nat.eq_dec t' t) as [->|Hne].
  - rewrite upd_same. exact Hp.
  - rewrite upd_other by exact Hne. apply Ho. exact Hne.
Qed.

(** * The invariant *)

(** order of the chain: the sentinel 0 comes first, the other nodes by strictly increasing key *)
Definition R (st : state) (x y : N) : Prop := y <> 0 /\ (x = 0 \/ nkey st x < nkey st y).

Lemma R_irr st x : ~ R st x x.
Proof. intros [H1 [H2 | H2]]; [contradiction | lia]. Qed.

Definition ins_nodes (l : list lev) : list N :=
  flat_map (fun e => match e with LIns _ _ n => [n] | LDel _ _ _ => [] end) l.
Definition del_nodes (l : list lev) : list N :=
  flat_map (fun e => match e with LDel _ _ n => [n] | LIns _ _ _ => [] end) l.

(** nodes that are or were linked: the chain [c] (sentinel first) and the retired nodes *)
Definition known (st : state) (c : list N) (x : N) : Prop := In x (c ++ g_retired st).

(** global part, relative to the chain [c] = sentinel 0 followed by the nodes reachable from [head] *)
Record G (st : state) (c : list N) : Prop := mkG {
  G_hd : exists l, c = 0 :: l;
  G_links : linksto (nnext st) c 0;
  G_sorted : StronglySorted (R st) c;
  G_ret_nodup : NoDup (g_retired st);
  G_disj : forall x, In x c -> In x (g_retired st) -> False;
  G_bound : forall x, known st c x -> x < nalloc st;
  G_mark0 : nmark st 0 = false;
  G_marked_known : forall x, nmark st x = true -> known st c x;
  G_ret_marked : forall x, In x (g_retired st) -> nmark st x = true;
  G_closed : forall x, known st c x -> nnext st x = 0 \/ known st c (nnext st x);
  G_abs_nodup : NoDup (g_abs st);
  G_abs : forall k, In k (g_abs st) <-> exists x, In x c /\ x <> 0 /\ nmark st x = false /\ nkey st x = k;
  G_fold : g_abs st = apply_lin (g_lin st);
  G_lins : forall t k n, In (LIns t k n) (g_lin st) -> (known st c n /\ n <> 0) /\ nkey st n = k;
  G_ldel : forall t k n, In (LDel t k n) (g_lin st) -> nmark st n = true /\ nkey st n = k;
  G_lins_nodup : NoDup (ins_nodes (g_lin st));
  G_ldel_nodup : NoDup (del_nodes (g_lin st))
}.

Definition okprev (st : state) (c : list N) (key sv : N) : Prop :=
  known st c sv /\ (sv <> 0 -> nkey st sv < key).
Definition oknode (st : state) (c : list N) (x : N) : Prop := known st c x /\ x <> 0.
Definition oknx (st : state) (c : list N) (x : N) : Prop := x = 0 \/ known st c x.
(** the node an inserting thread owns and has not linked yet *)
Definition fresh (st : state) (c : list N) (key n : N) : Prop :=
  n <> 0 /\ n < nalloc st /\ ~ known st c n /\ nkey st n = key.

Definition cont_ok (st : state) (c : list N) (w : option bool) (k : fk) (key : N) : Prop :=
  match k with
  | KIns n => fresh st c key n
  | KDel2 => w = Some true
  | _ => True
  end.

(** per-thread part; [w] is the thread's [g_lp] *)
Definition Tw (st : state) (c : list N) (w : option bool) (p : pc) : Prop :=
  match p with
  | Idle | Begin _ => True
  | F1 k key start => cont_ok st c w k key /\ okprev st c key start
  | F2 k key start sv nx => cont_ok st c w k key /\ okprev st c key start /\ okprev st c key sv /\ oknx st c nx
  | F3 k key start sv cur =>
    cont_ok st c w k key /\ okprev st c key start /\ okprev st c key sv /\ oknode st c cur
  | F4 k key start sv cur =>
    cont_ok st c w k key /\ okprev st c key start /\ okprev st c key sv /\ oknode st c cur /\
    nmark st cur = true
  | F5 k key start sv cur nx =>
    cont_ok st c w k key /\ okprev st c key start /\ okprev st c key sv /\ oknode st c cur /\
    nmark st cur = true /\ nnext st cur = nx
  | F6 k key start sv cur nx =>
    cont_ok st c w k key /\ okprev st c key start /\ okprev st c key sv /\ oknode st c cur /\
    (is_del2 k = false -> nkey st cur = key -> w = Some true) /\ oknx st c nx
  | E1 n key sv cur =>
    fresh st c key n /\ okprev st c key sv /\ (cur <> 0 -> known st c cur /\ key < nkey st cur)
  | E2 n key sv cur =>
    fresh st c key n /\ okprev st c key sv /\ (cur <> 0 -> known st c cur /\ key < nkey st cur) /\
    nnext st n = cur
  | D1 key sv cur nx => okprev st c key sv /\ oknode st c cur /\ nkey st cur = key /\ oknx st c nx
  | D2 key sv cur nx =>
    okprev st c key sv /\ oknode st c cur /\ nkey st cur = key /\
    nmark st cur = true /\ nnext st cur = nx /\ w = Some true
  end.

Definition T (st : state) (c : list N) (t : nat) (p : pc) : Prop := Tw st c (g_lp st t) p.

Definition fresh_of_k (k : fk) : option N := match k with KIns n => Some n | _ => None end.
Definition fresh_of (p : pc) : option N :=
  match p with
  | F1 k _ _ | F2 k _ _ _ _ | F3 k _ _ _ _ | F4 k _ _ _ _ | F5 k _ _ _ _ _ | F6 k _ _ _ _ _ => fresh_of_k k
  | E1 n _ _ _ | E2 n _ _ _ => Some n
  | _ => None
  end.

(** unlinked new nodes of different threads are different *)
Definition U (f : nat -> pc) : Prop :=
  forall t t' n, t <> t' -> fresh_of (f t) = Some n -> fresh_of (f t') = Some n -> False.

Definition Inv (st : state) : Prop :=
  exists c, G st c /\ (forall t, T st c t (th st t)) /\ U (th st).

Lemma U_upd f t p : U f ->
  (forall n, fresh_of p = Some n -> forall t', t' <> t -> fresh_of (f t') <> Some n) ->
  U (upd f t p).
Proof.
  intros HU Hp a b n Hab Ha Hb.
  destruct (Nat.eq_dec a t) as [->|Ha']; destruct (Nat.eq_dec b t) as [->|Hb'].
  - congruence.
  - rewrite upd_same in Ha. rewrite upd_other in Hb by exact Hb'. exact (Hp n Ha b Hb' Hb).
  - rewrite upd_same in Hb. rewrite upd_other in Ha by exact Ha'. exact (Hp n Hb a Ha' Ha).
  - rewrite upd_other in Ha by assumption. rewrite upd_other in Hb by assumption.
    exact (HU a b n Hab Ha Hb).
Qed.

Lemma U_upd_same f t p : U f -> (fresh_of p = None \/ fresh_of p = fresh_of (f t)) -> U (upd f t p).
Proof.
  intros HU Hp. apply U_upd; [exact HU|]. intros n Hn t' Hne Hc.
  destruct Hp as [Hp|Hp]; [congruence|]. rewrite Hp in Hn. exact (HU t' t n Hne Hc Hn).
Qed.

(** ** monotonicity of the memory between two states (with chains [c], [c']);
    [sp] is a node excepted from the preservation of unlinked new nodes (0 if none) *)
Record mono (st : state) (c : list N) (st' : state) (c' : list N) (sp : N) : Prop := mkMono {
  M_known : forall x, known st c x -> known st' c' x;
  M_key : forall x, x < nalloc st -> nkey st' x = nkey st x;
  M_mark : forall x, nmark st x = true -> nmark st' x = true /\ nnext st' x = nnext st x;
  M_alloc : nalloc st <= nalloc st';
  M_fresh : forall n, n < nalloc st -> ~ known st c n -> n <> sp ->
            ~ known st' c' n /\ nnext st' n = nnext st n
}.

Lemma okprev_mono st c st' c' sp key sv :
  G st c -> mono st c st' c' sp -> okprev st c key sv -> okprev st' c' key sv.
Proof.
  intros HG HM [Hk Hlt]. split; [apply (M_known _ _ _ _ _ HM); exact Hk|].
  intros Hnz. rewrite (M_key _ _ _ _ _ HM); [apply Hlt; exact Hnz | apply (G_bound _ _ HG); exact Hk].
Qed.

Lemma oknode_mono st c st' c' sp x :
  mono st c st' c' sp -> oknode st c x -> oknode st' c' x.
Proof. intros HM [Hk Hnz]. split; [apply (M_known _ _ _ _ _ HM); exact Hk | exact Hnz]. Qed.

Lemma fresh_mono st c st' c' sp key n :
  mono st c st' c' sp -> n <> sp -> fresh st c key n -> fresh st' c' key n /\ nnext st' n = nnext st n.
Proof.
  intros HM Hsp (Hnz & Hlt & Hnk & Hkey).
  destruct (M_fresh _ _ _ _ _ HM n Hlt Hnk Hsp) as [Hnk' Hnx].
  split; [|exact Hnx]. split; [exact Hnz|]. split; [pose proof (M_alloc _ _ _ _ _ HM); lia|].
  split; [exact Hnk'|]. rewrite (M_key _ _ _ _ _ HM); assumption.
Qed.

Lemma cont_ok_mono st c st' c' sp w k key :
  mono st c st' c' sp ->
  (forall n, fresh_of_k k = Some n -> n <> sp) ->
  cont_ok st c w k key -> cont_ok st' c' w k key.
Proof.
  intros HM Hsp H. destruct k; cbn [cont_ok] in *; try exact I; [|exact H].
  eapply fresh_mono; [exact HM | apply Hsp; reflexivity | exact H].
Qed.

(** generic stability of the per-thread part *)
Lemma Tw_stable st c st' c' sp w p :
  G st c -> mono st c st' c' sp ->
  (forall n, fresh_of p = Some n -> n <> sp) ->
  Tw st c w p -> Tw st' c' w p.
Proof.
  intros HG HM Hsp HT.
  assert (Hop : forall key sv, okprev st c key sv -> okprev st' c' key sv)
    by (intros; eapply okprev_mono; eauto).
  assert (Hon : forall x, oknode st c x -> oknode st' c' x)
    by (intros; eapply oknode_mono; eauto).
  assert (Hkey : forall x, oknode st c x -> nkey st' x = nkey st x).
  { intros x [Hk _]. apply (M_key _ _ _ _ _ HM). apply (G_bound _ _ HG). exact Hk. }
  assert (Hco : forall k key, (forall n, fresh_of_k k = Some n -> n <> sp) ->
                cont_ok st c w k key -> cont_ok st' c' w k key)
    by (intros; eapply cont_ok_mono; eauto).
  assert (Hnx : forall x, oknx st c x -> oknx st' c' x).
  { intros x [Hx | Hx]; [left; exact Hx | right; apply (M_known _ _ _ _ _ HM); exact Hx]. }
  destruct p; cbn [Tw fresh_of] in *; try exact I.
  - (* F1 *) destruct HT as (H1 & H2). auto.
  - (* F2 *) destruct HT as (H1 & H2 & H3 & H4). auto 6.
  - (* F3 *) destruct HT as (H1 & H2 & H3 & H4). auto 6.
  - (* F4 *) destruct HT as (H1 & H2 & H3 & H4 & H5).
    split; [auto|]. split; [auto|]. split; [auto|]. split; [auto|]. apply (M_mark _ _ _ _ _ HM). exact H5.
  - (* F5 *) destruct HT as (H1 & H2 & H3 & H4 & H5 & H6).
    destruct (M_mark _ _ _ _ _ HM _ H5) as [H7 H8].
    split; [auto|]. split; [auto|]. split; [auto|]. split; [auto|]. split; [exact H7 | congruence].
  - (* F6 *) destruct HT as (H1 & H2 & H3 & H4 & H5 & H9).
    split; [auto|]. split; [auto|]. split; [auto|]. split; [auto|]. split; [|auto].
    intros Hd Hk. apply H5; [exact Hd|]. rewrite <- (Hkey _ H4). exact Hk.
  - (* E1 *) destruct HT as (H1 & H2 & H3).
    destruct (fresh_mono _ _ _ _ _ key n HM (Hsp _ eq_refl) H1) as [H4 _].
    split; [exact H4|]. split; [auto|]. intros Hnz. destruct (H3 Hnz) as [H5 H6].
    split; [apply (M_known _ _ _ _ _ HM); exact H5|].
    rewrite (M_key _ _ _ _ _ HM); [exact H6 | apply (G_bound _ _ HG); exact H5].
  - (* E2 *) destruct HT as (H1 & H2 & H3 & H7).
    destruct (fresh_mono _ _ _ _ _ key n HM (Hsp _ eq_refl) H1) as [H4 H8].
    split; [exact H4|]. split; [auto|]. split; [|congruence]. intros Hnz. destruct (H3 Hnz) as [H5 H6].
    split; [apply (M_known _ _ _ _ _ HM); exact H5|].
    rewrite (M_key _ _ _ _ _ HM); [exact H6 | apply (G_bound _ _ HG); exact H5].
  - (* D1 *) destruct HT as (H1 & H2 & H3 & H9). split; [auto|]. split; [auto|]. split; [|auto]. rewrite (Hkey _ H2). exact H3.
  - (* D2 *) destruct HT as (H1 & H2 & H3 & H4 & H5 & H6).
    destruct (M_mark _ _ _ _ _ HM _ H4) as [H7 H8].
    split; [auto|]. split; [auto|]. split; [rewrite (Hkey _ H2); exact H3|].
    split; [exact H7|]. split; congruence.
Qed.

Lemma mono_refl st c st' :
  nkey st' = nkey st -> nnext st' = nnext st -> nmark st' = nmark st -> nalloc st' = nalloc st ->
  g_retired st' = g_retired st -> mono st c st' c 0.
Proof.
  intros E1 E2 E3 E4 E5. unfold known. constructor; unfold known; rewrite ?E1, ?E2, ?E3, ?E4, ?E5; auto.
  lia.
Qed.

(** * Facts about the chain *)

Lemma G_zero_in st c : G st c -> In 0 c.
Proof. intros HG. destruct (G_hd _ _ HG) as [l ->]. left. reflexivity. Qed.

Lemma G_nodup st c : G st c -> NoDup c.
Proof. intros HG. eapply SS_NoDup; [apply (R_irr st) | exact (G_sorted _ _ HG)]. Qed.

Lemma known_chain st c x : In x c -> known st c x.
Proof. intros H. apply in_or_app. left. exact H. Qed.

Lemma known_zero st c : G st c -> known st c 0.
Proof. intros HG. apply known_chain, (G_zero_in _ _ HG). Qed.

Lemma unmarked_in_chain st c x : G st c -> known st c x -> nmark st x = false -> In x c.
Proof.
  intros HG Hk Hm. apply in_app_or in Hk. destruct Hk as [Hk | Hk]; [exact Hk|].
  rewrite (G_ret_marked _ _ HG _ Hk) in Hm. discriminate.
Qed.

Lemma chain_split st c sv : G st c -> In sv c ->
  exists c1 c2, c = c1 ++ sv :: c2 /\ nnext st sv = hd 0 c2 /\
    linksto (nnext st) c1 sv /\ linksto (nnext st) c2 0 /\
    StronglySorted (R st) c1 /\ StronglySorted (R st) c2 /\
    (forall x, In x c1 -> R st x sv) /\ (forall y, In y c2 -> R st sv y) /\
    (forall x y, In x c1 -> In y c2 -> R st x y) /\
    ~ In sv c1 /\ ~ In sv c2.
Proof.
  intros HG Hin. destruct (in_split _ _ Hin) as (c1 & c2 & E). exists c1, c2.
  pose proof (G_links _ _ HG) as HL. pose proof (G_sorted _ _ HG) as HS. pose proof (G_nodup _ _ HG) as HN.
  rewrite E in HL, HS, HN. apply linksto_app in HL. cbn [hd linksto] in HL. destruct HL as (HL1 & HL2 & HL3).
  apply SS_app_inv in HS. destruct HS as (HS1 & HS2 & HS3).
  apply SS_cons_inv in HS2. destruct HS2 as [HS2 HS4].
  apply NoDup_remove_2 in HN.
  split; [exact E|]. split; [exact HL2|]. split; [exact HL1|]. split; [exact HL3|].
  split; [exact HS1|]. split; [exact HS2|].
  split; [intros x Hx; apply HS3; [exact Hx | left; reflexivity]|].
  split; [exact HS4|].
  split; [intros x y Hx Hy; apply HS3; [exact Hx | right; exact Hy]|].
  split; intros Hc; apply HN; apply in_or_app; [left | right]; exact Hc.
Qed.

Lemma chain_next_in st c x : G st c -> In x c -> nnext st x <> 0 -> In (nnext st x) c.
Proof.
  intros HG Hin Hnz. destruct (chain_split _ _ _ HG Hin) as (c1 & c2 & E & Hn & _).
  destruct c2 as [|y r]; cbn [hd] in Hn; [contradiction|].
  rewrite Hn, E. apply in_or_app. right. right. left. reflexivity.
Qed.

Lemma chain_nonzero st c sv y : G st c -> In sv c -> nnext st sv = y -> y <> 0 -> In y c /\ R st sv y.
Proof.
  intros HG Hin Hn Hnz. destruct (chain_split _ _ _ HG Hin) as (c1 & c2 & E & Hn' & _ & _ & _ & _ & _ & HR & _).
  destruct c2 as [|y' r]; cbn [hd] in Hn'; [congruence|].
  rewrite Hn in Hn'. subst y'. split; [|apply HR; left; reflexivity].
  rewrite E. apply in_or_app. right. right. left. reflexivity.
Qed.

(** a key strictly between the keys of two adjacent nodes of the chain is not in the chain *)
Lemma not_in_chain st c sv cur key : G st c -> In sv c -> nnext st sv = cur ->
  (sv <> 0 -> nkey st sv < key) -> (cur <> 0 -> key < nkey st cur) ->
  forall x, In x c -> x <> 0 -> nkey st x <> key.
Proof.
  intros HG Hin Hn Hlo Hhi x Hx Hxnz.
  destruct (chain_split _ _ _ HG Hin) as (c1 & c2 & E & Hn' & _ & _ & _ & HS2 & HR1 & HR2 & _).
  rewrite E in Hx. apply in_app_or in Hx. destruct Hx as [Hx | [<- | Hx]].
  - destruct (HR1 _ Hx) as [Hsv [H0 | Hlt]]; [contradiction|]. specialize (Hlo Hsv). lia.
  - specialize (Hlo Hxnz). lia.
  - destruct c2 as [|y r]; [destruct Hx|]. cbn [hd] in Hn'. rewrite Hn in Hn'. subst y.
    destruct (HR2 cur (or_introl eq_refl)) as [Hcnz _]. specialize (Hhi Hcnz).
    destruct Hx as [<- | Hx]; [lia|].
    apply SS_cons_inv in HS2. destruct HS2 as [_ HS2]. destruct (HS2 _ Hx) as [_ [H0 | Hlt]]; [contradiction | lia].
Qed.

Lemma chain_key_inj st c x y : G st c -> In x c -> In y c -> x <> 0 -> y <> 0 -> nkey st x = nkey st y -> x = y.
Proof.
  intros HG Hx Hy Hxnz Hynz Hk.
  destruct (chain_split _ _ _ HG Hx) as (c1 & c2 & E & _ & _ & _ & _ & _ & HR1 & HR2 & _).
  rewrite E in Hy. apply in_app_or in Hy. destruct Hy as [Hy | [Hy | Hy]].
  - destruct (HR1 _ Hy) as [_ [H0 | Hlt]]; [contradiction | lia].
  - exact Hy.
  - destruct (HR2 _ Hy) as [_ [H0 | Hlt]]; [contradiction | lia].
Qed.

Lemma abs_in st c x : G st c -> In x c -> x <> 0 -> nmark st x = false -> In (nkey st x) (g_abs st).
Proof. intros HG H1 H2 H3. apply (G_abs _ _ HG). exists x. auto. Qed.

Lemma ins_nodes_in l n : In n (ins_nodes l) -> exists t k, In (LIns t k n) l.
Proof.
  unfold ins_nodes. rewrite in_flat_map. intros (e & He & Hn). destruct e as [t k n' | t k n']; [|destruct Hn].
  destruct Hn as [<- | []]. exists t, k. exact He.
Qed.
Lemma del_nodes_in l n : In n (del_nodes l) -> exists t k, In (LDel t k n) l.
Proof.
  unfold del_nodes. rewrite in_flat_map. intros (e & He & Hn). destruct e as [t k n' | t k n']; [destruct Hn|].
  destruct Hn as [<- | []]. exists t, k. exact He.
Qed.

(** * Preservation of the global part by the memory-changing steps *)

(** steps that change neither keys, marks, allocation nor ghosts of [G] *)
Lemma G_frame st c st' : G st c ->
  nkey st' = nkey st -> nmark st' = nmark st -> nalloc st' = nalloc st ->
  g_abs st' = g_abs st -> g_lin st' = g_lin st -> g_retired st' = g_retired st ->
  (forall x, known st c x -> nnext st' x = nnext st x) -> G st' c.
Proof.
  intros HG Ek Em Ea Eabs Elin Eret HL.
  assert (HR : forall x y, R st x y -> R st' x y) by (intros x y; unfold R; rewrite Ek; tauto).
  assert (HLk : linksto (nnext st') c 0).
  { eapply linksto_ext; [|exact (G_links _ _ HG)]. intros x Hx. apply HL. apply known_chain. exact Hx. }
  assert (HCl : forall x, known st c x -> nnext st' x = 0 \/ known st c (nnext st' x)).
  { intros x Hx. rewrite (HL _ Hx). apply (G_closed _ _ HG). exact Hx. }
  destruct HG. constructor; unfold known in *; rewrite ?Ek, ?Em, ?Ea, ?Eabs, ?Elin, ?Eret; try assumption.
  eapply SS_ext; [|eassumption]. intros x y _ _. apply HR.
Qed.

Lemma alloc_step st c st' n k : n = nalloc st -> G st c ->
  nkey st' = setf (nkey st) n k -> nnext st' = setf (nnext st) n 0 -> nmark st' = setf (nmark st) n false ->
  nalloc st' = n + 1 -> g_abs st' = g_abs st -> g_lin st' = g_lin st -> g_retired st' = g_retired st ->
  G st' c /\ mono st c st' c 0.
Proof.
  intros En HG Ek Enx Em Ea Eabs Elin Eret.
  assert (Hne : forall x, known st c x -> x <> n). { intros x Hx. apply (G_bound _ _ HG) in Hx. lia. }
  assert (Hkn : forall x, known st' c x <-> known st c x). { intros x. unfold known. rewrite Eret. tauto. }
  assert (Hinc : forall x, In x c -> x <> n). { intros x Hx. apply Hne. apply known_chain. exact Hx. }
  split.
  - constructor.
    + exact (G_hd _ _ HG).
    + rewrite Enx. eapply linksto_ext; [|exact (G_links _ _ HG)]. intros x Hx. apply setf_other. apply Hinc. exact Hx.
    + eapply SS_ext; [|exact (G_sorted _ _ HG)]. intros x y Hx Hy [H1 H2]. split; [exact H1|].
      rewrite Ek. rewrite !setf_other by (apply Hinc; assumption). exact H2.
    + rewrite Eret. exact (G_ret_nodup _ _ HG).
    + rewrite Eret. exact (G_disj _ _ HG).
    + intros x Hx. apply Hkn in Hx. apply (G_bound _ _ HG) in Hx. lia.
    + rewrite Em. unfold setf. destruct (0 =? n); [reflexivity | exact (G_mark0 _ _ HG)].
    + intros x Hx. apply Hkn. apply (G_marked_known _ _ HG). rewrite Em in Hx. unfold setf in Hx.
      destruct (x =? n); [discriminate | exact Hx].
    + intros x Hx. rewrite Eret in Hx. rewrite Em. rewrite setf_other; [apply (G_ret_marked _ _ HG); exact Hx|].
      apply Hne. apply in_or_app. right. exact Hx.
    + intros x Hx. apply Hkn in Hx. rewrite Enx, setf_other by (apply Hne; exact Hx).
      destruct (G_closed _ _ HG x Hx) as [H | H]; [left; exact H | right; apply Hkn; exact H].
    + rewrite Eabs. exact (G_abs_nodup _ _ HG).
    + intros k0. rewrite Eabs, (G_abs _ _ HG). split; intros (x & H1 & H2 & H3 & H4); exists x;
        (split; [exact H1|]; split; [exact H2|]); rewrite Em, Ek in *; rewrite !setf_other in * by (apply Hinc; exact H1); auto.
    + rewrite Eabs, Elin. exact (G_fold _ _ HG).
    + intros t k0 n0 Hin. rewrite Elin in Hin. destruct (G_lins _ _ HG _ _ _ Hin) as [[H1 H0] H2].
      split; [split; [apply Hkn; exact H1 | exact H0]|]. rewrite Ek, setf_other; [exact H2 | apply Hne; exact H1].
    + intros t k0 n0 Hin. rewrite Elin in Hin. destruct (G_ldel _ _ HG _ _ _ Hin) as [H1 H2].
      assert (n0 <> n) by (apply Hne, (G_marked_known _ _ HG); exact H1).
      rewrite Em, Ek, !setf_other by assumption. auto.
    + rewrite Elin. exact (G_lins_nodup _ _ HG).
    + rewrite Elin. exact (G_ldel_nodup _ _ HG).
  - constructor.
    + intros x Hx. apply Hkn. exact Hx.
    + intros x Hx. rewrite Ek. apply setf_other. lia.
    + intros x Hx. assert (x <> n) by (apply Hne, (G_marked_known _ _ HG); exact Hx).
      rewrite Em, Enx, !setf_other by assumption. auto.
    + lia.
    + intros n0 Hlt Hnk _. split; [rewrite Hkn; exact Hnk|]. rewrite Enx. apply setf_other. lia.
Qed.

(** store to the next field of an unlinked new node *)
Lemma store_step st c st' n v : G st c -> ~ known st c n ->
  nkey st' = nkey st -> nnext st' = setf (nnext st) n v -> nmark st' = nmark st -> nalloc st' = nalloc st ->
  g_abs st' = g_abs st -> g_lin st' = g_lin st -> g_retired st' = g_retired st ->
  G st' c /\ mono st c st' c n.
Proof.
  intros HG Hnk Ek Enx Em Ea Eabs Elin Eret. split.
  - apply (G_frame st); try assumption. intros x Hx. rewrite Enx. apply setf_other. intros ->. apply Hnk. exact Hx.
  - constructor; unfold known; rewrite ?Ek, ?Em, ?Ea, ?Eret; auto; [| lia |].
    + intros x Hx. split; [exact Hx|]. rewrite Enx. apply setf_other. intros ->.
      apply Hnk. apply (G_marked_known _ _ HG). exact Hx.
    + intros n0 _ Hn0 Hne. split; [exact Hn0|]. rewrite Enx. apply setf_other. exact Hne.
Qed.

(** the successful link CAS of emplace_or_get (linearization point of a successful insert) *)
Lemma link_step st c st' t n key sv cur : G st c -> fresh st c key n -> nnext st n = cur ->
  In sv c -> nmark st sv = false -> nnext st sv = cur ->
  (sv <> 0 -> nkey st sv < key) -> (cur <> 0 -> key < nkey st cur) ->
  nkey st' = nkey st -> nnext st' = setf (nnext st) sv n -> nmark st' = nmark st -> nalloc st' = nalloc st ->
  g_abs st' = key :: g_abs st -> g_lin st' = g_lin st ++ [LIns t key n] -> g_retired st' = g_retired st ->
  ~ In key (g_abs st) /\
  exists c', G st' c' /\ mono st c st' c' n /\ (forall x, In x c' <-> x = n \/ In x c).
Proof.
  intros HG (Hnnz & Hnlt & Hnk & Hnkey) Hnn Hsv Hsvm Hsvn Hlo Hhi Ek Enx Em Ea Eabs Elin Eret.
  assert (Habsent : ~ In key (g_abs st)).
  { intros Hc. apply (G_abs _ _ HG) in Hc. destruct Hc as (x & H1 & H2 & _ & H4).
    exact (not_in_chain st c sv cur key HG Hsv Hsvn Hlo Hhi x H1 H2 H4). }
  split; [exact Habsent|].
  destruct (chain_split _ _ _ HG Hsv) as (c1 & c2 & E & Hn' & HL1 & HL2 & HS1 & HS2 & HR1 & HR2 & HR3 & Hsv1 & Hsv2).
  rewrite Hsvn in Hn'.
  assert (Hnc : ~ In n c) by (intros Hc; apply Hnk; apply known_chain; exact Hc).
  assert (Hnsv : n <> sv) by (intros ->; contradiction).
  exists (c1 ++ sv :: n :: c2).
  assert (Hin : forall x, In x (c1 ++ sv :: n :: c2) <-> x = n \/ In x c).
  { intros x. rewrite E, !in_app_iff. cbn [In]. split; intros H; repeat destruct H as [H | H]; auto. }
  assert (Hkn : forall x, known st' (c1 ++ sv :: n :: c2) x <-> x = n \/ known st c x).
  { intros x. unfold known. rewrite Eret, (in_app_iff (c1 ++ sv :: n :: c2) (g_retired st)), Hin, (in_app_iff c). tauto. }
  assert (HRe : forall x y, R st x y -> R st' x y) by (intros x y; unfold R; rewrite Ek; tauto).
  assert (Hc2nz : forall y, In y c2 -> y <> 0 /\ key < nkey st y).
  { intros y Hy. destruct (HR2 _ Hy) as [Hynz _]. split; [exact Hynz|].
    destruct c2 as [|y0 r]; [destruct Hy|]. cbn [hd] in Hn'. subst y0.
    destruct (HR2 cur (or_introl eq_refl)) as [Hcnz _]. specialize (Hhi Hcnz).
    destruct Hy as [<- | Hy]; [exact Hhi|].
    apply SS_cons_inv in HS2. destruct HS2 as [_ HS2]. destruct (HS2 _ Hy) as [_ [H0 | Hlt]]; [contradiction | lia]. }
  split; [|split; [|exact Hin]].
  - constructor.
    + destruct (G_hd _ _ HG) as [l El]. rewrite E in El. destruct c1 as [|a c1]; cbn [app] in *.
      * injection El as -> _. eexists. reflexivity.
      * injection El as -> _. eexists. reflexivity.
    + rewrite Enx. apply linksto_app. cbn [hd linksto]. split; [|split; [|split]].
      * eapply linksto_ext; [|exact HL1]. intros x Hx. apply setf_other. intros ->. contradiction.
      * apply setf_same.
      * rewrite setf_other by exact Hnsv. congruence.
      * eapply linksto_ext; [|exact HL2]. intros x Hx. apply setf_other. intros ->. contradiction.
    + eapply SS_ext; [intros x y _ _; apply HRe|].
      assert (Hsvn' : R st sv n).
      { split; [exact Hnnz|]. destruct (N.eq_dec sv 0) as [H0 | H0]; [left; exact H0 | right; rewrite Hnkey; apply Hlo; exact H0]. }
      apply SS_app; [exact HS1 | |].
      * apply SS_cons; [apply SS_cons; [exact HS2|]|].
        -- intros y Hy. destruct (Hc2nz _ Hy) as [H1 H2]. split; [exact H1 | right; lia].
        -- intros y [<- | Hy]; [exact Hsvn' | apply HR2; exact Hy].
      * intros x y Hx [<- | [<- | Hy]]; [apply HR1; exact Hx | | apply HR3; assumption].
        destruct (HR1 _ Hx) as [Hsvnz Hor]. split; [exact Hnnz|].
        destruct Hor as [H0 | Hlt]; [left; exact H0 | right]. specialize (Hlo Hsvnz). lia.
    + rewrite Eret. exact (G_ret_nodup _ _ HG).
    + rewrite Eret. intros x Hx Hr. apply Hin in Hx. destruct Hx as [-> | Hx].
      * apply Hnk. apply in_or_app. right. exact Hr.
      * exact (G_disj _ _ HG x Hx Hr).
    + intros x Hx. apply Hkn in Hx. rewrite Ea. destruct Hx as [-> | Hx]; [exact Hnlt | apply (G_bound _ _ HG); exact Hx].
    + rewrite Em. exact (G_mark0 _ _ HG).
    + intros x Hx. rewrite Em in Hx. apply Hkn. right. apply (G_marked_known _ _ HG). exact Hx.
    + intros x Hx. rewrite Eret in Hx. rewrite Em. apply (G_ret_marked _ _ HG). exact Hx.
    + intros x Hx. rewrite Enx. destruct (N.eq_dec x sv) as [->|Hxsv].
      * rewrite setf_same. right. apply Hkn. left. reflexivity.
      * rewrite setf_other by exact Hxsv. apply Hkn in Hx. destruct Hx as [-> | Hx].
        -- rewrite Hnn. destruct (N.eq_dec cur 0) as [Hz|Hz]; [left; exact Hz | right].
           apply Hkn. right. apply known_chain. rewrite <- Hsvn. apply (chain_next_in st c); [exact HG | exact Hsv | congruence].
        -- destruct (G_closed _ _ HG x Hx) as [H | H]; [left; exact H | right; apply Hkn; right; exact H].
    + rewrite Eabs. constructor; [exact Habsent | exact (G_abs_nodup _ _ HG)].
    + intros k0. rewrite Eabs. cbn [In]. rewrite (G_abs _ _ HG). split.
      * intros [<- | (x & H1 & H2 & H3 & H4)].
        -- exists n. split; [apply Hin; left; reflexivity|]. split; [exact Hnnz|]. rewrite Em, Ek. split; [|exact Hnkey].
           destruct (nmark st n) eqn:Hm; [|reflexivity]. exfalso. apply Hnk. apply (G_marked_known _ _ HG). exact Hm.
        -- exists x. rewrite Em, Ek. split; [apply Hin; right; exact H1 | auto].
      * intros (x & H1 & H2 & H3 & H4). rewrite Em in H3. rewrite Ek in H4. apply Hin in H1. destruct H1 as [-> | H1].
        -- left. congruence.
        -- right. exists x. auto.
    + rewrite Eabs, Elin, apply_lin_snoc. cbn [apply_lev]. f_equal. exact (G_fold _ _ HG).
    + intros t0 k0 n0 Hi. rewrite Elin in Hi. apply in_app_or in Hi. rewrite Ek. destruct Hi as [Hi | [Hi | []]].
      * destruct (G_lins _ _ HG _ _ _ Hi) as [[H1 H0] H2]. split; [split; [apply Hkn; right; exact H1 | exact H0] | exact H2].
      * injection Hi as <- <- <-. split; [split; [apply Hkn; left; reflexivity | exact Hnnz] | exact Hnkey].
    + intros t0 k0 n0 Hi. rewrite Elin in Hi. apply in_app_or in Hi. rewrite Em, Ek. destruct Hi as [Hi | [Hi | []]].
      * exact (G_ldel _ _ HG _ _ _ Hi).
      * discriminate Hi.
    + rewrite Elin. unfold ins_nodes. rewrite flat_map_app. cbn [flat_map app]. apply NoDup_snoc; [exact (G_lins_nodup _ _ HG)|].
      intros Hc. apply ins_nodes_in in Hc. destruct Hc as (t0 & k0 & Hc). apply Hnk. exact (proj1 (proj1 (G_lins _ _ HG _ _ _ Hc))).
    + rewrite Elin. unfold del_nodes. rewrite flat_map_app. cbn [flat_map app]. rewrite app_nil_r. exact (G_ldel_nodup _ _ HG).
  - constructor.
    + intros x Hx. apply Hkn. right. exact Hx.
    + intros x _. rewrite Ek. reflexivity.
    + intros x Hx. rewrite Em. split; [exact Hx|]. rewrite Enx. apply setf_other. intros ->. congruence.
    + lia.
    + intros n0 _ Hn0 Hne. split.
      * intros Hc. apply Hkn in Hc. destruct Hc as [Hc | Hc]; contradiction.
      * rewrite Enx. apply setf_other. intros ->. apply Hn0. apply known_chain. exact Hsv.
Qed.

(** the successful mark CAS of erase (linearization point of a successful erase) *)
Lemma mark_step st c st' t key cur : G st c -> In cur c -> cur <> 0 -> nmark st cur = false -> nkey st cur = key ->
  nkey st' = nkey st -> nnext st' = nnext st -> nmark st' = setf (nmark st) cur true -> nalloc st' = nalloc st ->
  g_abs st' = remk key (g_abs st) -> g_lin st' = g_lin st ++ [LDel t key cur] -> g_retired st' = g_retired st ->
  G st' c /\ mono st c st' c 0.
Proof.
  intros HG Hcur Hcnz Hcm Hck Ek Enx Em Ea Eabs Elin Eret.
  assert (HRe : forall x y, R st x y -> R st' x y) by (intros x y; unfold R; rewrite Ek; tauto).
  assert (Hkn : forall x, known st' c x <-> known st c x). { intros x. unfold known. rewrite Eret. tauto. }
  assert (Hmk : forall x, nmark st' x = true <-> x = cur \/ nmark st x = true).
  { intros x. rewrite Em. unfold setf. destruct (N.eqb_spec x cur); [tauto|]. split; [auto|]. intros [H | H]; [contradiction | exact H]. }
  split.
  - constructor.
    + exact (G_hd _ _ HG).
    + rewrite Enx. exact (G_links _ _ HG).
    + eapply SS_ext; [intros x y _ _; apply HRe | exact (G_sorted _ _ HG)].
    + rewrite Eret. exact (G_ret_nodup _ _ HG).
    + rewrite Eret. exact (G_disj _ _ HG).
    + intros x Hx. rewrite Ea. apply (G_bound _ _ HG). apply Hkn. exact Hx.
    + rewrite Em, setf_other by (intros Hc; apply Hcnz; symmetry; exact Hc). exact (G_mark0 _ _ HG).
    + intros x Hx. apply Hkn. apply Hmk in Hx. destruct Hx as [-> | Hx]; [apply known_chain; exact Hcur | apply (G_marked_known _ _ HG); exact Hx].
    + intros x Hx. rewrite Eret in Hx. apply Hmk. right. apply (G_ret_marked _ _ HG). exact Hx.
    + intros x Hx. apply Hkn in Hx. rewrite Enx.
      destruct (G_closed _ _ HG x Hx) as [H | H]; [left; exact H | right; apply Hkn; exact H].
    + rewrite Eabs. unfold remk. apply NoDup_filter. exact (G_abs_nodup _ _ HG).
    + intros k0. rewrite Eabs, in_remk, (G_abs _ _ HG). rewrite Ek. split.
      * intros [(x & H1 & H2 & H3 & H4) Hne]. exists x. split; [exact H1|]. split; [exact H2|]. split; [|exact H4].
        rewrite Em, setf_other; [exact H3 | congruence].
      * intros (x & H1 & H2 & H3 & H4).
        assert (Hxc : x <> cur). { intros ->. rewrite Em, setf_same in H3. discriminate. }
        rewrite Em, setf_other in H3 by exact Hxc. split; [exists x; auto|].
        intros ->. apply Hxc. apply (chain_key_inj st c); try assumption. congruence.
    + rewrite Eabs, Elin, apply_lin_snoc. cbn [apply_lev]. f_equal. exact (G_fold _ _ HG).
    + intros t0 k0 n0 Hi. rewrite Elin in Hi. apply in_app_or in Hi. rewrite Ek. destruct Hi as [Hi | [Hi | []]].
      * destruct (G_lins _ _ HG _ _ _ Hi) as [[H1 H0] H2]. split; [split; [apply Hkn; exact H1 | exact H0] | exact H2].
      * discriminate Hi.
    + intros t0 k0 n0 Hi. rewrite Elin in Hi. apply in_app_or in Hi. rewrite Ek. destruct Hi as [Hi | [Hi | []]].
      * destruct (G_ldel _ _ HG _ _ _ Hi) as [H1 H2]. split; [apply Hmk; right; exact H1 | exact H2].
      * injection Hi as <- <- <-. split; [apply Hmk; left; reflexivity | exact Hck].
    + rewrite Elin. unfold ins_nodes. rewrite flat_map_app. cbn [flat_map app]. rewrite app_nil_r. exact (G_lins_nodup _ _ HG).
    + rewrite Elin. unfold del_nodes. rewrite flat_map_app. cbn [flat_map app]. apply NoDup_snoc; [exact (G_ldel_nodup _ _ HG)|].
      intros Hc. apply del_nodes_in in Hc. destruct Hc as (t0 & k0 & Hc). rewrite (proj1 (G_ldel _ _ HG _ _ _ Hc)) in Hcm. discriminate.
  - constructor.
    + intros x Hx. apply Hkn. exact Hx.
    + intros x _. rewrite Ek. reflexivity.
    + intros x Hx. split; [apply Hmk; right; exact Hx | rewrite Enx; reflexivity].
    + lia.
    + intros n0 _ Hn0 _. split; [rewrite Hkn; exact Hn0 | rewrite Enx; reflexivity].
Qed.

(** a successful unlink CAS (by the erasing thread, or by a helping find) followed by reclaim *)
Lemma unlink_step st c st' sv cur nx : G st c -> In sv c -> nmark st sv = false -> nnext st sv = cur ->
  cur <> 0 -> nmark st cur = true -> nnext st cur = nx ->
  nkey st' = nkey st -> nnext st' = setf (nnext st) sv nx -> nmark st' = nmark st -> nalloc st' = nalloc st ->
  g_abs st' = g_abs st -> g_lin st' = g_lin st -> g_retired st' = g_retired st ++ [cur] ->
  exists c', G st' c' /\ mono st c st' c' 0 /\ In cur c /\ ~ In cur c' /\ ~ In cur (g_retired st) /\
             (forall x, In x c <-> x = cur \/ In x c').
Proof.
  intros HG Hsv Hsvm Hsvn Hcnz Hcm Hcn Ek Enx Em Ea Eabs Elin Eret.
  destruct (chain_split _ _ _ HG Hsv) as (c1 & c2 & E & Hn' & HL1 & HL2 & HS1 & HS2 & HR1 & HR2 & HR3 & Hsv1 & Hsv2).
  rewrite Hsvn in Hn'. destruct c2 as [|y c3]; cbn [hd] in Hn'; [contradiction|]. subst y.
  cbn [linksto] in HL2. destruct HL2 as [HL2 HL3]. rewrite Hcn in HL2.
  pose proof (G_nodup _ _ HG) as HN. rewrite E in HN.
  assert (Hc1 : ~ In cur c1 /\ cur <> sv /\ ~ In cur c3).
  { change (c1 ++ sv :: cur :: c3) with (c1 ++ [sv] ++ cur :: c3) in HN. rewrite app_assoc in HN.
    apply NoDup_remove_2 in HN. rewrite !in_app_iff in HN. cbn [In] in HN. repeat split; intros Hc; apply HN; auto. }
  destruct Hc1 as (Hcc1 & Hcsv & Hcc3).
  assert (Hcin : In cur c) by (rewrite E; apply in_or_app; right; right; left; reflexivity).
  assert (Hcr : ~ In cur (g_retired st)) by (intros Hc; exact (G_disj _ _ HG cur Hcin Hc)).
  exists (c1 ++ sv :: c3).
  assert (Hin : forall x, In x c <-> x = cur \/ In x (c1 ++ sv :: c3)).
  { intros x. rewrite E, !in_app_iff. cbn [In]. rewrite (eq_comm_iff cur x). tauto. }
  assert (Hnin : ~ In cur (c1 ++ sv :: c3)).
  { rewrite in_app_iff. cbn [In]. intros [H | [H | H]]; [contradiction | apply Hcsv; symmetry; exact H | contradiction]. }
  assert (Hkn : forall x, known st' (c1 ++ sv :: c3) x <-> known st c x).
  { intros x. unfold known. rewrite Eret, (in_app_iff (c1 ++ sv :: c3)), (in_app_iff (g_retired st)), (in_app_iff c), Hin.
    cbn [In]. rewrite (eq_comm_iff cur x). tauto. }
  assert (HRe : forall x y, R st x y -> R st' x y) by (intros x y; unfold R; rewrite Ek; tauto).
  split; [|split; [|split; [exact Hcin | split; [exact Hnin | split; [exact Hcr | exact Hin]]]]].
  - constructor.
    + destruct (G_hd _ _ HG) as [l El]. rewrite E in El. destruct c1 as [|a c1]; cbn [app] in *.
      * injection El as -> _. eexists. reflexivity.
      * injection El as -> _. eexists. reflexivity.
    + rewrite Enx. apply linksto_app. cbn [hd linksto]. split; [|split].
      * eapply linksto_ext; [|exact HL1]. intros x Hx. apply setf_other. intros ->. contradiction.
      * rewrite setf_same. exact HL2.
      * eapply linksto_ext; [|exact HL3]. intros x Hx. apply setf_other. intros ->. apply Hsv2. right. exact Hx.
    + eapply SS_ext; [intros x y _ _; apply HRe|].
      apply SS_cons_inv in HS2. destruct HS2 as [HS2 _].
      apply SS_app; [exact HS1 | |].
      * apply SS_cons; [exact HS2|]. intros y Hy. apply HR2. right. exact Hy.
      * intros x y Hx [<- | Hy]; [apply HR1; exact Hx | apply HR3; [exact Hx | right; exact Hy]].
    + rewrite Eret. apply NoDup_snoc; [exact (G_ret_nodup _ _ HG) | exact Hcr].
    + rewrite Eret. intros x Hx Hr. apply in_app_or in Hr. destruct Hr as [Hr | [<- | []]].
      * apply (G_disj _ _ HG x); [apply Hin; right; exact Hx | exact Hr].
      * contradiction.
    + intros x Hx. rewrite Ea. apply (G_bound _ _ HG). apply Hkn. exact Hx.
    + rewrite Em. exact (G_mark0 _ _ HG).
    + intros x Hx. rewrite Em in Hx. apply Hkn. apply (G_marked_known _ _ HG). exact Hx.
    + intros x Hx. rewrite Eret in Hx. rewrite Em. apply in_app_or in Hx. destruct Hx as [Hx | [<- | []]];
        [apply (G_ret_marked _ _ HG); exact Hx | exact Hcm].
    + intros x Hx. apply Hkn in Hx. rewrite Enx. destruct (N.eq_dec x sv) as [->|Hxsv].
      * rewrite setf_same. rewrite <- Hcn.
        destruct (G_closed _ _ HG cur (known_chain _ _ _ Hcin)) as [H | H]; [left; exact H | right; apply Hkn; exact H].
      * rewrite setf_other by exact Hxsv.
        destruct (G_closed _ _ HG x Hx) as [H | H]; [left; exact H | right; apply Hkn; exact H].
    + rewrite Eabs. exact (G_abs_nodup _ _ HG).
    + intros k0. rewrite Eabs, (G_abs _ _ HG), Em, Ek. split; intros (x & H1 & H2 & H3 & H4); exists x.
      * split; [|auto]. apply Hin in H1. destruct H1 as [-> | H1]; [congruence | exact H1].
      * split; [apply Hin; right; exact H1 | auto].
    + rewrite Eabs, Elin. exact (G_fold _ _ HG).
    + intros t0 k0 n0 Hi. rewrite Elin in Hi. rewrite Ek. destruct (G_lins _ _ HG _ _ _ Hi) as [[H1 H0] H2].
      split; [split; [apply Hkn; exact H1 | exact H0] | exact H2].
    + intros t0 k0 n0 Hi. rewrite Elin in Hi. rewrite Ek, Em. exact (G_ldel _ _ HG _ _ _ Hi).
    + rewrite Elin. exact (G_lins_nodup _ _ HG).
    + rewrite Elin. exact (G_ldel_nodup _ _ HG).
  - constructor.
    + intros x Hx. apply Hkn. exact Hx.
    + intros x _. rewrite Ek. reflexivity.
    + intros x Hx. rewrite Em. split; [exact Hx|]. rewrite Enx. apply setf_other. intros ->. congruence.
    + lia.
    + intros n0 _ Hn0 _. split; [rewrite Hkn; exact Hn0|]. rewrite Enx. apply setf_other. intros ->.
      apply Hn0. apply known_chain. exact Hsv.
Qed.

(** * Assembling the invariant *)

Lemma Tw_fresh st c w p n : Tw st c w p -> fresh_of p = Some n -> exists key, fresh st c key n.
Proof.
  destruct p as [|o|k key start|k key start sv nx|k key start sv cur|k key start sv cur|k key start sv cur nx
                 |k key start sv cur nx|n0 key sv cur|n0 key sv cur|key sv cur nx|key sv cur nx];
    cbn [Tw fresh_of]; intros H E; try discriminate E;
    try (destruct k; cbn [fresh_of_k] in E; try discriminate E; injection E as <-; exists key; exact (proj1 H));
    injection E as <-; exists key; exact (proj1 H).
Qed.

Lemma sp_zero st c : (forall t', T st c t' (th st t')) -> forall t' n, fresh_of (th st t') = Some n -> n <> 0.
Proof. intros HT t' n E. destruct (Tw_fresh _ _ _ _ _ (HT t') E) as [key (H & _)]. exact H. Qed.

Lemma sp_own st t n : U (th st) -> fresh_of (th st t) = Some n ->
  forall t' n', t' <> t -> fresh_of (th st t') = Some n' -> n' <> n.
Proof. intros HU E t' n' Hne E' ->. exact (HU t' t n Hne E' E). Qed.

Lemma Inv_intro st c st' c' sp t p :
  G st c -> (forall t', T st c t' (th st t')) ->
  G st' c' -> mono st c st' c' sp ->
  th st' = upd (th st) t p ->
  (forall t', t' <> t -> g_lp st' t' = g_lp st t') ->
  (forall t' n, t' <> t -> fresh_of (th st t') = Some n -> n <> sp) ->
  Tw st' c' (g_lp st' t) p ->
  U (upd (th st) t p) ->
  Inv st'.
Proof.
  intros HG HT HG' HM Eth Hlp Hsp Hp HU'. exists c'. split; [exact HG'|]. split.
  - rewrite Eth. apply (threads_upd (T st' c')); [|exact Hp]. intros t' Hne. unfold T. rewrite (Hlp _ Hne).
    eapply Tw_stable; [exact HG | exact HM | intros n Hn; eapply Hsp; eauto | apply HT].
  - rewrite Eth. exact HU'.
Qed.

(** steps that do not change the memory *)
Lemma step_pc st c st' t p :
  G st c -> (forall t', T st c t' (th st t')) -> U (th st) ->
  nkey st' = nkey st -> nnext st' = nnext st -> nmark st' = nmark st -> nalloc st' = nalloc st ->
  g_abs st' = g_abs st -> g_lin st' = g_lin st -> g_retired st' = g_retired st ->
  th st' = upd (th st) t p -> (forall t', t' <> t -> g_lp st' t' = g_lp st t') ->
  Tw st c (g_lp st' t) p -> (fresh_of p = None \/ fresh_of p = fresh_of (th st t)) -> Inv st'.
Proof.
  intros HG HT HU Ek Enx Em Ea Eabs Elin Eret Eth Hlp Hp Hf.
  assert (HG' : G st' c).
  { apply (G_frame st); try assumption. intros x _. rewrite Enx. reflexivity. }
  assert (HM : mono st c st' c 0) by (apply mono_refl; assumption).
  eapply (Inv_intro st c st' c 0 t p); try eassumption.
  - intros t' n _ Hn. eapply sp_zero; eassumption.
  - eapply Tw_stable; [exact HG | exact HM | | exact Hp].
    intros n Hn. destruct (Tw_fresh _ _ _ _ _ Hp Hn) as [key (H & _)]. exact H.
  - apply U_upd_same; assumption.
Qed.

Lemma step_go st c t p :
  G st c -> (forall t', T st c t' (th st t')) -> U (th st) ->
  Tw st c (g_lp st t) p -> (fresh_of p = None \/ fresh_of p = fresh_of (th st t)) -> Inv (set_pc st t p).
Proof.
  intros HG HT HU Hp Hf. apply (step_pc st c _ t p); try assumption; try reflexivity.
Qed.

Lemma step_go_lp st c t p w :
  G st c -> (forall t', T st c t' (th st t')) -> U (th st) ->
  Tw st c w p -> (fresh_of p = None \/ fresh_of p = fresh_of (th st t)) -> Inv (set_pc_lp st t p w).
Proof.
  intros HG HT HU Hp Hf. apply (step_pc st c _ t p); try assumption; try reflexivity.
  - intros t' Hne. cbn [g_lp set_pc_lp]. apply upd_other. exact Hne.
  - cbn [g_lp set_pc_lp]. rewrite upd_same. exact Hp.
Qed.

Lemma step_ret st c t o r w :
  G st c -> (forall t', T st c t' (th st t')) -> U (th st) -> Inv (ret_st st t o r w).
Proof.
  intros HG HT HU. apply (step_pc st c _ t Idle); try assumption; try reflexivity.
  - intros t' Hne. cbn [g_lp ret_st]. apply upd_other. exact Hne.
  - left. reflexivity.
Qed.

(** a step whose memory effect is a successful unlink CAS + reclaim *)
Lemma step_unlink st c st' t p sv cur nx :
  G st c -> (forall t', T st c t' (th st t')) -> U (th st) ->
  known st c sv -> nmark st sv = false -> nnext st sv = cur ->
  cur <> 0 -> nmark st cur = true -> nnext st cur = nx ->
  nkey st' = nkey st -> nnext st' = setf (nnext st) sv nx -> nmark st' = nmark st -> nalloc st' = nalloc st ->
  g_abs st' = g_abs st -> g_lin st' = g_lin st -> g_retired st' = g_retired st ++ [cur] ->
  th st' = upd (th st) t p -> (forall t', t' <> t -> g_lp st' t' = g_lp st t') ->
  Tw st c (g_lp st' t) p -> (fresh_of p = None \/ fresh_of p = fresh_of (th st t)) -> Inv st'.
Proof.
  intros HG HT HU Hsvk Hsvm Hsvn Hcnz Hcm Hcn Ek Enx Em Ea Eabs Elin Eret Eth Hlp Hp Hf.
  assert (Hsv : In sv c) by (eapply unmarked_in_chain; eassumption).
  destruct (unlink_step st c st' sv cur nx HG Hsv Hsvm Hsvn Hcnz Hcm Hcn Ek Enx Em Ea Eabs Elin Eret)
    as (c' & HG' & HM & _).
  eapply (Inv_intro st c st' c' 0 t p); try eassumption.
  - intros t' n _ Hn. eapply sp_zero; eassumption.
  - eapply Tw_stable; [exact HG | exact HM | | exact Hp].
    intros n Hn. destruct (Tw_fresh _ _ _ _ _ Hp Hn) as [key (H & _)]. exact H.
  - apply U_upd_same; assumption.
Qed.

Lemma okprev_zero st c key : G st c -> okprev st c key 0.
Proof. intros HG. split; [apply known_zero; exact HG | intros H; contradiction]. Qed.

(** return of the internal find *)
Lemma find_ret_inv st c t k key sv cur nx found e st' es :
  G st c -> (forall t', T st c t' (th st t')) -> U (th st) ->
  fresh_of (th st t) = fresh_of_k k ->
  cont_ok st c (g_lp st t) k key -> okprev st c key sv ->
  (found = true -> oknode st c cur /\ nkey st cur = key) ->
  (found = false -> cur <> 0 -> known st c cur /\ key < nkey st cur) ->
  oknx st c nx ->
  find_ret st t k key sv cur nx found e = Some (st', es) -> Inv st'.
Proof.
  intros HG HT HU Hfr Hco Hsv Hyes Hno Hnxk Hst. unfold find_ret in Hst.
  destruct k as [n| | |]; [destruct found | destruct found | |]; injection Hst as <- <-;
    try (apply (step_ret st c); assumption).
  - (* KIns, not found *)
    apply (step_go_lp st c); try assumption; [|right; rewrite Hfr; reflexivity].
    cbn [Tw]. cbn [cont_ok] in Hco. split; [exact Hco|]. split; [exact Hsv|]. apply Hno. reflexivity.
  - (* KDel, found *)
    apply (step_go st c); try assumption; [|left; reflexivity].
    cbn [Tw]. destruct (Hyes eq_refl) as [H1 H2]. split; [exact Hsv|]. split; [exact H1|]. split; assumption.
Qed.

Lemma Inv_init : Inv init.
Proof.
  exists [0]. split; [|split].
  - constructor; unfold init, known; cbn [nkey nnext nmark nalloc g_abs g_lin g_retired app].
    + exists []. reflexivity.
    + cbn. auto.
    + constructor; [constructor | constructor].
    + constructor.
    + intros x _ [].
    + intros x [<- | []]. reflexivity.
    + reflexivity.
    + intros x Hx. discriminate.
    + intros x [].
    + intros x _. left. reflexivity.
    + constructor.
    + intros k. split; [intros [] | intros (x & [<- | []] & H & _); contradiction].
    + reflexivity.
    + intros t k n [].
    + intros t k n [].
    + constructor.
    + constructor.
  - intros t. exact I.
  - intros t t' n _ Hc. discriminate.
Qed.

Ltac prj := cbn [nkey nnext nmark nalloc th g_abs g_lin g_lp g_hist g_retired].

Lemma cond_true (a b : N) (m : bool) : (a =? b) && negb m = true -> a = b /\ m = false.
Proof.
  intros H. apply andb_prop in H. destruct H as [H1 H2]. apply N.eqb_eq in H1.
  destruct m; [discriminate | auto].
Qed.

Lemma Inv_step s a s' es : Inv s -> step s a = Some (s', es) -> Inv s'.
Proof.
  intros [c (HG & HT & HU)] Hst. unfold step in Hst. destruct a as [t o | t].
  - destruct (th s t) eqn:E; try discriminate. injection Hst as <- <-.
    apply (step_go s c t); try assumption; [exact I | left; reflexivity].
  - pose proof (HT t) as Ht. unfold T in Ht.
    destruct (th s t) as [|o|k key start|k key start sv nx|k key start sv cur|k key start sv cur|k key start sv cur nx
                          |k key start sv cur nx|n key sv cur|n key sv cur|key sv cur nx|key sv cur nx] eqn:E;
      cbn [Tw] in Ht; cbv beta iota zeta in Hst; try discriminate.
    + (* Begin *) destruct o as [k|k|k]; injection Hst as <- <-.
      * (* allocation of the new node *)
        set (n := nalloc s). set (st' := mkSt _ _ _ _ _ _ _ _ _ _).
        destruct (alloc_step s c st' n k eq_refl HG eq_refl eq_refl eq_refl eq_refl eq_refl eq_refl eq_refl) as [HG' HM].
        assert (Hn0 : n <> 0). { pose proof (G_bound _ _ HG 0 (known_zero _ _ HG)). subst n. lia. }
        apply (Inv_intro s c st' c 0 t (F1 (KIns n) k 0)); try assumption; try reflexivity.
        -- intros t' Hne. subst st'; prj. apply upd_other; exact Hne.
        -- intros t' n0 _ Hn. eapply sp_zero; eassumption.
        -- cbn [Tw cont_ok]. split; [|apply okprev_zero; exact HG'].
           split; [exact Hn0|]. split; [subst st'; prj; lia|]. split.
           ++ intros Hc. apply (G_bound _ _ HG) in Hc. subst n. lia.
           ++ subst st'; prj. apply setf_same.
        -- apply U_upd; [exact HU|]. cbn [fresh_of fresh_of_k]. intros n0 E0 t' Hne Hc. injection E0 as <-.
           destruct (Tw_fresh _ _ _ _ _ (HT t') Hc) as [key (_ & Hlt & _)]. subst n. lia.
      * apply (step_go_lp s c); try assumption; [|left; reflexivity].
        cbn [Tw cont_ok]. split; [exact I | apply okprev_zero; exact HG].
      * apply (step_go_lp s c); try assumption; [|left; reflexivity].
        cbn [Tw cont_ok]. split; [exact I | apply okprev_zero; exact HG].
    + (* F1 *) destruct Ht as (Hco & Hstart).
      destruct (nmark s start) eqn:Hm; injection Hst as <- <-.
      * apply (step_go s c); try assumption; [|right; rewrite E; reflexivity].
        cbn [Tw]. split; [exact Hco | apply okprev_zero; exact HG].
      * apply (step_go s c); try assumption; [|right; rewrite E; reflexivity].
        cbn [Tw]. split; [exact Hco|]. split; [exact Hstart|]. split; [exact Hstart|].
        exact (G_closed _ _ HG start (proj1 Hstart)).
    + (* F2 *) destruct Ht as (Hco & Hstart & Hsv & Hnxk).
      destruct ((nnext s sv =? nx) && negb (nmark s sv)) eqn:Hc; cbn [negb] in Hst.
      * apply cond_true in Hc. destruct Hc as [Hnx Hm].
        assert (Hsvc : In sv c) by (eapply unmarked_in_chain; [exact HG | exact (proj1 Hsv) | exact Hm]).
        destruct (N.eqb_spec nx 0) as [Hz|Hz].
        -- eapply (find_ret_inv s c t k key sv 0 0 false); try eassumption.
           ++ rewrite E. reflexivity.
           ++ intros Hc. discriminate.
           ++ intros _ Hc. contradiction.
           ++ left. reflexivity.
        -- injection Hst as <- <-.
           apply (step_go s c); try assumption; [|right; rewrite E; reflexivity].
           cbn [Tw]. split; [exact Hco|]. split; [exact Hstart|]. split; [exact Hsv|]. split; [|exact Hz].
           apply known_chain. rewrite <- Hnx. apply (chain_next_in s c); [exact HG | exact Hsvc | congruence].
      * injection Hst as <- <-.
        apply (step_go s c); try assumption; [|right; rewrite E; reflexivity].
        cbn [Tw]. auto.
    + (* F3 *) destruct Ht as (Hco & Hstart & Hsv & Hcur).
      destruct (nmark s cur) eqn:Hm.
      * injection Hst as <- <-.
        apply (step_go s c); try assumption; [|right; rewrite E; reflexivity].
        cbn [Tw]. auto 6.
      * destruct ((nkey s cur =? key) && negb (is_del2 k)) eqn:Hc; injection Hst as <- <-.
        -- apply andb_prop in Hc. destruct Hc as [Hk Hd]. apply N.eqb_eq in Hk.
           apply (step_go_lp s c); try assumption; [|right; rewrite E; reflexivity].
           cbn [Tw]. split; [|split; [exact Hstart | split; [exact Hsv | split; [exact Hcur|
             split; [|exact (G_closed _ _ HG cur (proj1 Hcur))]]]]].
           ++ destruct k; cbn [cont_ok is_del2 negb] in *; try exact I; [exact Hco | discriminate].
           ++ intros _ _. f_equal. apply memb_true. rewrite <- Hk.
              apply (abs_in s c); [exact HG | | exact (proj2 Hcur) | exact Hm].
              eapply unmarked_in_chain; [exact HG | exact (proj1 Hcur) | exact Hm].
        -- apply (step_go s c); try assumption; [|right; rewrite E; reflexivity].
           cbn [Tw]. split; [exact Hco|]. split; [exact Hstart|]. split; [exact Hsv|]. split; [exact Hcur|].
           split; [|exact (G_closed _ _ HG cur (proj1 Hcur))].
           intros Hd Hk. exfalso. apply N.eqb_eq in Hk. rewrite Hk, Hd in Hc. discriminate.
    + (* F4 *) destruct Ht as (Hco & Hstart & Hsv & Hcur & Hm). injection Hst as <- <-.
      apply (step_go s c); try assumption; [|right; rewrite E; reflexivity].
      cbn [Tw]. auto 8.
    + (* F5 *) destruct Ht as (Hco & Hstart & Hsv & Hcur & Hm & Hn).
      destruct ((nnext s sv =? cur) && negb (nmark s sv)) eqn:Hc; injection Hst as <- <-.
      * apply cond_true in Hc. destruct Hc as [Hnx Hsvm].
        apply (step_unlink s c _ t (F2 k key start sv nx) sv cur nx); try assumption; try reflexivity.
        -- exact (proj1 Hsv).
        -- exact (proj2 Hcur).
        -- cbn [Tw]. split; [exact Hco|]. split; [exact Hstart|]. split; [exact Hsv|].
           rewrite <- Hn. exact (G_closed _ _ HG cur (proj1 Hcur)).
        -- right. rewrite E. reflexivity.
      * apply (step_go s c); try assumption; [|right; rewrite E; reflexivity].
        cbn [Tw]. auto.
    + (* F6 *) destruct Ht as (Hco & Hstart & Hsv & Hcur & Hlp & Hnxk).
      destruct ((nnext s sv =? cur) && negb (nmark s sv)) eqn:Hc; cbn [negb] in Hst.
      * destruct (N.ltb_spec (nkey s cur) key) as [Hlt|Hge].
        -- injection Hst as <- <-.
           apply (step_go s c); try assumption; [|right; rewrite E; reflexivity].
           cbn [Tw]. split; [exact Hco|]. split; [exact Hstart|]. split; [|exact Hnxk].
           split; [exact (proj1 Hcur) | intros _; exact Hlt].
        -- eapply (find_ret_inv s c t k key sv cur nx (nkey s cur =? key)); try eassumption.
           ++ rewrite E. reflexivity.
           ++ intros Hf. apply N.eqb_eq in Hf. split; [exact Hcur | exact Hf].
           ++ intros Hf _. apply N.eqb_neq in Hf. split; [exact (proj1 Hcur) | lia].
      * injection Hst as <- <-.
        apply (step_go s c); try assumption; [|right; rewrite E; reflexivity].
        cbn [Tw]. auto.
    + (* E1 *) destruct Ht as (Hfr & Hsv & Hcurc). injection Hst as <- <-.
      set (st' := mkSt _ _ _ _ _ _ _ _ _ _).
      pose proof Hfr as (Hn0 & Hnlt & Hnk & Hnkey).
      destruct (store_step s c st' n cur HG Hnk eq_refl eq_refl eq_refl eq_refl eq_refl eq_refl eq_refl) as [HG' HM].
      apply (Inv_intro s c st' c n t (E2 n key sv cur)); try assumption; try reflexivity.
      -- apply (sp_own s t n HU). rewrite E. reflexivity.
      -- cbn [Tw]. split; [exact Hfr|]. split; [exact Hsv|]. split; [exact Hcurc|]. subst st'; prj. apply setf_same.
      -- apply U_upd_same; [exact HU|]. right. rewrite E. reflexivity.
    + (* E2 *) destruct Ht as (Hfr & Hsv & Hcurc & Hnn).
      destruct ((nnext s sv =? cur) && negb (nmark s sv)) eqn:Hc; injection Hst as <- <-.
      * apply cond_true in Hc. destruct Hc as [Hnx Hsvm].
        assert (Hsvc : In sv c) by (eapply unmarked_in_chain; [exact HG | exact (proj1 Hsv) | exact Hsvm]).
        set (st' := mkSt _ _ _ _ _ _ _ _ _ _).
        destruct (link_step s c st' t n key sv cur HG Hfr Hnn Hsvc Hsvm Hnx (proj2 Hsv) (fun H => proj2 (Hcurc H))
                    eq_refl eq_refl eq_refl eq_refl eq_refl eq_refl eq_refl) as (_ & c' & HG' & HM & _).
        apply (Inv_intro s c st' c' n t Idle); try assumption; try reflexivity.
        -- intros t' Hne. subst st'; prj. apply upd_other; exact Hne.
        -- apply (sp_own s t n HU). rewrite E. reflexivity.
        -- apply U_upd_same; [exact HU|]. left. reflexivity.
      * apply (step_go s c); try assumption; [|right; rewrite E; reflexivity].
        cbn [Tw cont_ok]. auto.
    + (* D1 *) destruct Ht as (Hsv & Hcur & Hck & Hnxk).
      destruct ((nnext s cur =? nx) && negb (nmark s cur)) eqn:Hc; injection Hst as <- <-.
      * apply cond_true in Hc. destruct Hc as [Hnx Hcm].
        assert (Hcc : In cur c) by (eapply unmarked_in_chain; [exact HG | exact (proj1 Hcur) | exact Hcm]).
        set (st' := mkSt _ _ _ _ _ _ _ _ _ _).
        destruct (mark_step s c st' t key cur HG Hcc (proj2 Hcur) Hcm Hck
                    eq_refl eq_refl eq_refl eq_refl eq_refl eq_refl eq_refl) as [HG' HM].
        apply (Inv_intro s c st' c 0 t (D2 key sv cur nx)); try assumption; try reflexivity.
        -- intros t' Hne. subst st'; prj. apply upd_other; exact Hne.
        -- intros t' n0 _ Hn. eapply sp_zero; eassumption.
        -- cbn [Tw]. split; [exact (okprev_mono _ _ _ _ _ _ _ HG HM Hsv)|]. split; [exact (oknode_mono _ _ _ _ _ _ HM Hcur)|].
           split; [exact Hck|]. subst st'; prj. split; [apply setf_same|]. split; [exact Hnx|].
           rewrite upd_same. f_equal. apply memb_true. rewrite <- Hck. apply (abs_in s c); auto. exact (proj2 Hcur).
        -- apply U_upd_same; [exact HU|]. left. reflexivity.
      * apply (step_go s c); try assumption; [|left; reflexivity].
        cbn [Tw cont_ok]. auto.
    + (* D2 *) destruct Ht as (Hsv & Hcur & Hck & Hm & Hn & Hlp).
      destruct ((nnext s sv =? cur) && negb (nmark s sv)) eqn:Hc; injection Hst as <- <-.
      * apply cond_true in Hc. destruct Hc as [Hnx Hsvm].
        apply (step_unlink s c _ t Idle sv cur nx); try assumption; try reflexivity.
        -- exact (proj1 Hsv).
        -- exact (proj2 Hcur).
        -- intros t' Hne. cbn [ret_st unlink_st g_lp]. apply upd_other; exact Hne.
        -- left. reflexivity.
      * apply (step_go s c); try assumption; [|left; reflexivity].
        cbn [Tw cont_ok]. auto.
Qed.

Theorem Inv_reach st : reach init step st -> Inv st.
Proof. apply inv_rule; [exact Inv_init | exact Inv_step]. Qed.

(** * The chain as a computable function of the state *)

Fixpoint walk (nx : N -> N) (fuel : nat) (a : N) : list N :=
  match fuel with
  | O => []
  | S f => if nx a =? 0 then [] else nx a :: walk nx f (nx a)
  end.

(** the nodes reachable from [head] (without the sentinel), in list order *)
Definition chain (st : state) : list N := walk (nnext st) (N.to_nat (nalloc st)) 0.

(** keys of the unmarked nodes of the chain: the set represented by the list *)
Definition abs_keys (st : state) : list N :=
  map (nkey st) (filter (fun x => negb (nmark st x)) (chain st)).

Lemma walk_links nx l : forall a fuel, linksto nx (a :: l) 0 -> (forall x, In x l -> x <> 0) ->
  (length l <= fuel)%nat -> walk nx fuel a = l.
Proof.
  induction l as [|b r IH]; intros a fuel HL Hnz Hlen; cbn [linksto hd] in HL.
  - destruct HL as [Hz _]. destruct fuel; cbn [walk]; [reflexivity|]. rewrite Hz. reflexivity.
  - destruct HL as [Hb HL]. destruct fuel as [|f]; [cbn [length] in Hlen; lia|]. cbn [walk]. rewrite Hb.
    destruct (N.eqb_spec b 0) as [Hz|Hz]; [exfalso; apply (Hnz b); [left; reflexivity | exact Hz]|].
    f_equal. apply IH; [exact HL | intros x Hx; apply Hnz; right; exact Hx | cbn [length] in Hlen; lia].
Qed.

Lemma bounded_nodup_length (l : list N) n : NoDup l -> (forall x, In x l -> x < n) -> (length l <= N.to_nat n)%nat.
Proof.
  intros Hnd Hlt. rewrite <- (map_length N.to_nat l), <- (seq_length (N.to_nat n) 0).
  apply NoDup_incl_length.
  - apply FinFun.Injective_map_NoDup; [|exact Hnd]. intros x y Hxy. apply N2Nat.inj. exact Hxy.
  - intros y Hy. apply in_map_iff in Hy. destruct Hy as (x & <- & Hx). apply in_seq. apply Hlt in Hx. lia.
Qed.

Lemma G_tail_nonzero st c x : G st c -> In x (tl c) -> x <> 0.
Proof.
  intros HG Hx. pose proof (G_sorted _ _ HG) as HS. destruct (G_hd _ _ HG) as [l ->]. cbn [tl] in Hx.
  apply SS_cons_inv in HS. destruct HS as [_ HS]. exact (proj1 (HS _ Hx)).
Qed.

Lemma chain_eq st c : G st c -> c = 0 :: chain st.
Proof.
  intros HG. destruct (G_hd _ _ HG) as [l E]. rewrite E. f_equal. symmetry. unfold chain. apply walk_links.
  - rewrite <- E. exact (G_links _ _ HG).
  - intros x Hx. apply (G_tail_nonzero st c); [exact HG | rewrite E; exact Hx].
  - assert (length c <= N.to_nat (nalloc st))%nat.
    { apply bounded_nodup_length; [exact (G_nodup _ _ HG)|]. intros x Hx. apply (G_bound _ _ HG), known_chain, Hx. }
    rewrite E in H. cbn [length] in H. lia.
Qed.

Lemma Inv_chain st : Inv st ->
  G st (0 :: chain st) /\ (forall t, T st (0 :: chain st) t (th st t)) /\ U (th st).
Proof. intros [c (HG & HT & HU)]. rewrite <- (chain_eq _ _ HG). auto. Qed.

(** * Linearization: results of the completed operations *)

(** result vs. membership of the key in [g_abs] at the linearization point *)
Definition hist_ok (h : hrec) : Prop :=
  match h_op h with
  | OIns _ => h_wit h = Some (negb (h_res h))
  | ODel _ | OHas _ => h_wit h = Some (h_res h)
  end.

Definition Hist (st : state) : Prop := forall h, In h (g_hist st) -> hist_ok h.

Lemma Hist_snoc st st' h : Hist st -> g_hist st' = g_hist st ++ [h] -> hist_ok h -> Hist st'.
Proof.
  intros HH E Hh h' Hin. rewrite E in Hin. apply in_app_or in Hin.
  destruct Hin as [Hin | [<- | []]]; [apply HH; exact Hin | exact Hh].
Qed.

(** the key is absent from the abstract set when it lies strictly between two adjacent nodes *)
Lemma absent st c sv cur key : G st c -> In sv c -> nnext st sv = cur ->
  (sv <> 0 -> nkey st sv < key) -> (cur <> 0 -> key < nkey st cur) -> memb key (g_abs st) = false.
Proof.
  intros HG Hsv Hn Hlo Hhi. apply memb_false. intros Hc. apply (G_abs _ _ HG) in Hc.
  destruct Hc as (x & H1 & H2 & _ & H4). exact (not_in_chain st c sv cur key HG Hsv Hn Hlo Hhi x H1 H2 H4).
Qed.

Lemma find_ret_hist st t k key sv cur nx found e st' es :
  Hist st ->
  (found = true -> is_del2 k = false -> g_lp st t = Some true) ->
  (found = false -> is_del2 k = false -> memb key (g_abs st) = false) ->
  (is_del2 k = true -> g_lp st t = Some true) ->
  find_ret st t k key sv cur nx found e = Some (st', es) -> Hist st'.
Proof.
  intros HH Hyes Hno Hd2 Hst. unfold find_ret in Hst.
  destruct k as [n| | |]; cbn [is_del2] in *; destruct found; injection Hst as <- <-; try exact HH;
    (eapply Hist_snoc; [exact HH | reflexivity | unfold hist_ok; cbn [h_op h_wit h_res negb]]);
    auto; f_equal; auto.
Qed.

Lemma Hist_step s a s' es : Inv s -> Hist s -> step s a = Some (s', es) -> Hist s'.
Proof.
  intros [c (HG & HT & HU)] HH Hst. unfold step in Hst. destruct a as [t o | t].
  - destruct (th s t) eqn:E; try discriminate. injection Hst as <- <-. exact HH.
  - pose proof (HT t) as Ht. unfold T in Ht.
    destruct (th s t) as [|o|k key start|k key start sv nx|k key start sv cur|k key start sv cur|k key start sv cur nx
                          |k key start sv cur nx|n key sv cur|n key sv cur|key sv cur nx|key sv cur nx] eqn:E;
      cbn [Tw] in Ht; cbv beta iota zeta in Hst; try discriminate.
    + destruct o; injection Hst as <- <-; exact HH.
    + destruct (nmark s start); injection Hst as <- <-; exact HH.
    + (* F2 *) destruct Ht as (Hco & Hstart & Hsv & Hnxk).
      destruct ((nnext s sv =? nx) && negb (nmark s sv)) eqn:Hc; cbn [negb] in Hst;
        [destruct (N.eqb_spec nx 0) as [Hz|Hz]|]; try (injection Hst as <- <-; exact HH).
      apply cond_true in Hc. destruct Hc as [Hnx Hm].
      assert (Hsvc : In sv c) by (eapply unmarked_in_chain; [exact HG | exact (proj1 Hsv) | exact Hm]).
      eapply (find_ret_hist s t k key sv 0 0 false); [exact HH | | | | exact Hst].
      * intros Hc. discriminate.
      * intros _ _. apply (absent s c sv 0 key HG Hsvc); [congruence | exact (proj2 Hsv) | intros Hc; contradiction].
      * intros Hd. destruct k; try discriminate. exact Hco.
    + destruct (nmark s cur); [|destruct ((nkey s cur =? key) && negb (is_del2 k))]; injection Hst as <- <-; exact HH.
    + injection Hst as <- <-; exact HH.
    + destruct ((nnext s sv =? cur) && negb (nmark s sv)); injection Hst as <- <-; exact HH.
    + (* F6 *) destruct Ht as (Hco & Hstart & Hsv & Hcur & Hlp & Hnxk).
      destruct ((nnext s sv =? cur) && negb (nmark s sv)) eqn:Hc; cbn [negb] in Hst;
        [destruct (N.ltb_spec (nkey s cur) key) as [Hlt|Hge]|]; try (injection Hst as <- <-; exact HH).
      apply cond_true in Hc. destruct Hc as [Hnx Hm].
      assert (Hsvc : In sv c) by (eapply unmarked_in_chain; [exact HG | exact (proj1 Hsv) | exact Hm]).
      eapply (find_ret_hist s t k key sv cur nx (nkey s cur =? key)); [exact HH | | | | exact Hst].
      * intros Hf Hd. apply N.eqb_eq in Hf. apply Hlp; assumption.
      * intros Hf _. apply N.eqb_neq in Hf.
        apply (absent s c sv cur key HG Hsvc Hnx (proj2 Hsv)). intros _. lia.
      * intros Hd. destruct k; try discriminate. exact Hco.
    + injection Hst as <- <-; exact HH.
    + (* E2 *) destruct Ht as (Hfr & Hsv & Hcurc & Hnn).
      destruct ((nnext s sv =? cur) && negb (nmark s sv)) eqn:Hc; injection Hst as <- <-; [|exact HH].
      apply cond_true in Hc. destruct Hc as [Hnx Hm].
      assert (Hsvc : In sv c) by (eapply unmarked_in_chain; [exact HG | exact (proj1 Hsv) | exact Hm]).
      eapply Hist_snoc; [exact HH | reflexivity|]. unfold hist_ok; cbn [h_op h_wit h_res negb]. f_equal.
      apply (absent s c sv cur key HG Hsvc Hnx (proj2 Hsv)). intros H. exact (proj2 (Hcurc H)).
    + destruct ((nnext s cur =? nx) && negb (nmark s cur)); injection Hst as <- <-; exact HH.
    + (* D2 *) destruct Ht as (Hsv & Hcur & Hck & Hm & Hn & Hlp).
      destruct ((nnext s sv =? cur) && negb (nmark s sv)); injection Hst as <- <-; [|exact HH].
      eapply Hist_snoc; [exact HH | reflexivity|]. unfold hist_ok; cbn [h_op h_wit h_res]. exact Hlp.
Qed.

Theorem Hist_reach st : reach init step st -> Hist st.
Proof.
  apply (inv_rule_aux _ _ _ init step Inv Hist Inv_reach).
  - intros h [].
  - intros s a s' es HI _ HH Hst. exact (Hist_step s a s' es HI HH Hst).
Qed.

(** * The linearization order and the completed operations, thread by thread *)

Definition lev_op (t : nat) (e : lev) : list op :=
  match e with
  | LIns t' k _ => if Nat.eqb t' t then [OIns k] else []
  | LDel t' k _ => if Nat.eqb t' t then [ODel k] else []
  end.
(** successful mutating operations of thread [t] in linearization order *)
Definition proj_lin (t : nat) (l : list lev) : list op := flat_map (lev_op t) l.

Definition hrec_op (t : nat) (h : hrec) : list op :=
  if Nat.eqb (h_t h) t && h_res h then match h_op h with OHas _ => [] | o => [o] end else [].
(** completed successful mutating operations of thread [t] in order of return *)
Definition proj_hist (t : nat) (l : list hrec) : list op := flat_map (hrec_op t) l.

Definition pend_k (k : fk) (key : N) : list op := if is_del2 k then [ODel key] else [].
(** an erase that has marked its node and has not returned yet *)
Definition pending (p : pc) : list op :=
  match p with
  | D2 key _ _ _ => [ODel key]
  | F1 k key _ | F2 k key _ _ _ | F3 k key _ _ _ | F4 k key _ _ _ | F5 k key _ _ _ _ | F6 k key _ _ _ _ => pend_k k key
  | _ => []
  end.

Definition Pend (st : state) : Prop :=
  forall t, proj_lin t (g_lin st) = proj_hist t (g_hist st) ++ pending (th st t).

Definition lev_t (e : lev) : nat := match e with LIns t _ _ | LDel t _ _ => t end.

Lemma proj_lin_other t t' dl : (forall e, In e dl -> lev_t e = t) -> t' <> t -> proj_lin t' dl = [].
Proof.
  intros H Hne. induction dl as [|e dl IH]; [reflexivity|]. unfold proj_lin in *. cbn [flat_map].
  rewrite IH by (intros e' He'; apply H; right; exact He'). rewrite app_nil_r.
  pose proof (H e (or_introl eq_refl)) as He. destruct e as [t0 k n | t0 k n]; cbn [lev_t lev_op] in *; subst t0;
    (destruct (Nat.eqb_spec t t'); [congruence | reflexivity]).
Qed.

Lemma proj_hist_other t t' dh : (forall h, In h dh -> h_t h = t) -> t' <> t -> proj_hist t' dh = [].
Proof.
  intros H Hne. induction dh as [|h dh IH]; [reflexivity|]. unfold proj_hist in *. cbn [flat_map].
  rewrite IH by (intros h' Hh'; apply H; right; exact Hh'). rewrite app_nil_r.
  pose proof (H h (or_introl eq_refl)) as Hh. unfold hrec_op. rewrite Hh.
  destruct (Nat.eqb_spec t t'); [congruence | reflexivity].
Qed.

Lemma Pend_intro st st' t p dl dh :
  Pend st -> th st' = upd (th st) t p -> g_lin st' = g_lin st ++ dl -> g_hist st' = g_hist st ++ dh ->
  (forall e, In e dl -> lev_t e = t) -> (forall h, In h dh -> h_t h = t) ->
  pending (th st t) ++ proj_lin t dl = proj_hist t dh ++ pending p ->
  Pend st'.
Proof.
  intros HP Eth Elin Ehist Hdl Hdh Heq t'. rewrite Eth, Elin, Ehist. unfold proj_lin, proj_hist.
  rewrite !flat_map_app. fold (proj_lin t' (g_lin st)) (proj_lin t' dl) (proj_hist t' (g_hist st)) (proj_hist t' dh).
  rewrite (HP t'). destruct (Nat.eq_dec t' t) as [->|Hne].
  - rewrite upd_same, <- !app_assoc. f_equal. exact Heq.
  - rewrite upd_other by exact Hne. rewrite (proj_lin_other t t' dl Hdl Hne), (proj_hist_other t t' dh Hdh Hne).
    rewrite !app_nil_r. reflexivity.
Qed.

Lemma Pend_same st st' t p :
  Pend st -> th st' = upd (th st) t p -> g_lin st' = g_lin st -> g_hist st' = g_hist st ->
  pending (th st t) = pending p -> Pend st'.
Proof.
  intros HP Eth Elin Ehist Heq. apply (Pend_intro st st' t p [] []); try assumption.
  - rewrite Elin, app_nil_r. reflexivity.
  - rewrite Ehist, app_nil_r. reflexivity.
  - intros e [].
  - intros h [].
  - cbn. rewrite app_nil_r. exact Heq.
Qed.

Lemma Pend_ret st st' t o r w :
  Pend st -> th st' = upd (th st) t Idle -> g_lin st' = g_lin st -> g_hist st' = g_hist st ++ [mkH t o r w] ->
  pending (th st t) = hrec_op t (mkH t o r w) -> Pend st'.
Proof.
  intros HP Eth Elin Ehist Heq. apply (Pend_intro st st' t Idle [] [mkH t o r w]); try assumption.
  - rewrite Elin, app_nil_r. reflexivity.
  - intros e [].
  - intros h [<- | []]. reflexivity.
  - unfold proj_hist. cbn [flat_map proj_lin pending]. rewrite !app_nil_r. exact Heq.
Qed.

Lemma find_ret_pend st t k key sv cur nx found e st' es :
  Pend st -> pending (th st t) = pend_k k key ->
  find_ret st t k key sv cur nx found e = Some (st', es) -> Pend st'.
Proof.
  intros HP Hpe Hst. unfold find_ret in Hst.
  destruct k as [n| | |]; cbn [pend_k is_del2] in Hpe; destruct found; injection Hst as <- <-;
    try (eapply Pend_ret; [exact HP | reflexivity | reflexivity | reflexivity |];
         rewrite Hpe; unfold hrec_op; cbn [h_t h_res h_op]; rewrite Nat.eqb_refl; reflexivity);
    (eapply Pend_same; [exact HP | reflexivity | reflexivity | reflexivity | rewrite Hpe; reflexivity]).
Qed.

Lemma Pend_step s a s' es : Pend s -> step s a = Some (s', es) -> Pend s'.
Proof.
  intros HP Hst. unfold step in Hst. destruct a as [t o | t].
  - destruct (th s t) eqn:E; try discriminate. injection Hst as <- <-.
    eapply Pend_same; [exact HP | reflexivity | reflexivity | reflexivity | rewrite E; reflexivity].
  - destruct (th s t) as [|o|k key start|k key start sv nx|k key start sv cur|k key start sv cur|k key start sv cur nx
                          |k key start sv cur nx|n key sv cur|n key sv cur|key sv cur nx|key sv cur nx] eqn:E;
      cbv beta iota zeta in Hst; try discriminate.
    + destruct o; injection Hst as <- <-;
        (eapply Pend_same; [exact HP | reflexivity | reflexivity | reflexivity | rewrite E; reflexivity]).
    + destruct (nmark s start); injection Hst as <- <-;
        (eapply Pend_same; [exact HP | reflexivity | reflexivity | reflexivity | rewrite E; reflexivity]).
    + destruct ((nnext s sv =? nx) && negb (nmark s sv)); cbn [negb] in Hst; [destruct (nx =? 0)|];
        try (injection Hst as <- <-;
             eapply Pend_same; [exact HP | reflexivity | reflexivity | reflexivity | rewrite E; reflexivity]).
      eapply find_ret_pend; [exact HP | rewrite E; reflexivity | exact Hst].
    + destruct (nmark s cur); [|destruct ((nkey s cur =? key) && negb (is_del2 k))]; injection Hst as <- <-;
        (eapply Pend_same; [exact HP | reflexivity | reflexivity | reflexivity | rewrite E; reflexivity]).
    + injection Hst as <- <-.
      eapply Pend_same; [exact HP | reflexivity | reflexivity | reflexivity | rewrite E; reflexivity].
    + destruct ((nnext s sv =? cur) && negb (nmark s sv)); injection Hst as <- <-;
        (eapply Pend_same; [exact HP | reflexivity | reflexivity | reflexivity | rewrite E; reflexivity]).
    + destruct ((nnext s sv =? cur) && negb (nmark s sv)); cbn [negb] in Hst; [destruct (nkey s cur <? key)|];
        try (injection Hst as <- <-;
             eapply Pend_same; [exact HP | reflexivity | reflexivity | reflexivity | rewrite E; reflexivity]).
      eapply find_ret_pend; [exact HP | rewrite E; reflexivity | exact Hst].
    + injection Hst as <- <-.
      eapply Pend_same; [exact HP | reflexivity | reflexivity | reflexivity | rewrite E; reflexivity].
    + (* E2 *) destruct ((nnext s sv =? cur) && negb (nmark s sv)); injection Hst as <- <-.
      * eapply (Pend_intro s _ t Idle [LIns t key n] [mkH t (OIns key) true _]); [exact HP | reflexivity | reflexivity | reflexivity | | |].
        -- intros e [<- | []]. reflexivity.
        -- intros h [<- | []]. reflexivity.
        -- rewrite E. unfold proj_lin, proj_hist, hrec_op. cbn [flat_map lev_op pending h_t h_res h_op app].
           rewrite Nat.eqb_refl. reflexivity.
      * eapply Pend_same; [exact HP | reflexivity | reflexivity | reflexivity | rewrite E; reflexivity].
    + (* D1 *) destruct ((nnext s cur =? nx) && negb (nmark s cur)); injection Hst as <- <-.
      * eapply (Pend_intro s _ t (D2 key sv cur nx) [LDel t key cur] []); [exact HP | reflexivity | reflexivity | | | |].
        -- cbn [g_hist]. rewrite app_nil_r. reflexivity.
        -- intros e [<- | []]. reflexivity.
        -- intros h [].
        -- rewrite E. unfold proj_lin, proj_hist. cbn [flat_map lev_op pending app].
           rewrite Nat.eqb_refl. reflexivity.
      * eapply Pend_same; [exact HP | reflexivity | reflexivity | reflexivity | rewrite E; reflexivity].
    + (* D2 *) destruct ((nnext s sv =? cur) && negb (nmark s sv)); injection Hst as <- <-.
      * eapply Pend_ret; [exact HP | reflexivity | reflexivity | reflexivity |].
        rewrite E. unfold hrec_op; cbn [h_t h_res h_op pending]. rewrite Nat.eqb_refl. reflexivity.
      * eapply Pend_same; [exact HP | reflexivity | reflexivity | reflexivity | rewrite E; reflexivity].
Qed.

Theorem Pend_reach st : reach init step st -> Pend st.
Proof. apply inv_rule; [intros t; reflexivity | exact Pend_step]. Qed.

(** * Theorems *)

Lemma NoDup_map_inj (f : N -> N) (l : list N) :
  NoDup l -> (forall x y, In x l -> In y l -> f x = f y -> x = y) -> NoDup (map f l).
Proof.
  induction 1 as [|a l Ha Hnd IH]; intros Hinj; cbn [map]; constructor.
  - intros Hc. apply in_map_iff in Hc. destruct Hc as (y & Hy & Hin).
    assert (y = a) by (apply Hinj; [right; exact Hin | left; reflexivity | exact Hy]). subst y. contradiction.
  - apply IH. intros x y Hx Hy. apply Hinj; right; assumption.
Qed.

(** node variables of a program point (0 = null / &head) *)
Definition held_k (k : fk) : list N := match k with KIns n => [n] | _ => [] end.
Definition held (p : pc) : list N :=
  match p with
  | Idle | Begin _ => []
  | F1 k _ start => held_k k ++ [start]
  | F2 k _ start sv nx => held_k k ++ [start; sv; nx]
  | F3 k _ start sv cur | F4 k _ start sv cur => held_k k ++ [start; sv; cur]
  | F5 k _ start sv cur nx | F6 k _ start sv cur nx => held_k k ++ [start; sv; cur; nx]
  | E1 n _ sv cur | E2 n _ sv cur => [n; sv; cur]
  | D1 _ sv cur nx | D2 _ sv cur nx => [sv; cur; nx]
  end.

Section Theorems.
  Variable st : state.
  Hypothesis Hreach : reach init step st.

  Let HI := Inv_chain st (Inv_reach st Hreach).

  (** 1a. structure of the chain: [head] points to its first node, every node points to the
      following one, the last one to null; strictly sorted by key; duplicate-free (acyclic);
      all nodes allocated; the head pointer is never marked *)
  Theorem hml_structure :
    head st = hd 0 (chain st) /\
    linksto (nnext st) (chain st) 0 /\
    StronglySorted (fun x y => nkey st x < nkey st y) (chain st) /\
    NoDup (chain st) /\
    (forall x, In x (chain st) -> x <> 0 /\ x < nalloc st) /\
    nmark st 0 = false.
  Proof.
    destruct HI as (HG & _ & _).
    pose proof (G_links _ _ HG) as HL. cbn [linksto] in HL. destruct HL as [HL1 HL2].
    pose proof (G_sorted _ _ HG) as HS. apply SS_cons_inv in HS. destruct HS as [HS HS0].
    pose proof (G_nodup _ _ HG) as HN. inversion HN as [|a l Hn0 HN']; subst.
    split; [exact HL1|]. split; [exact HL2|]. split; [|split; [exact HN'|split; [|exact (G_mark0 _ _ HG)]]].
    - eapply SS_ext; [|exact HS]. intros x y Hx Hy [_ [H0 | Hlt]]; [|exact Hlt].
      exfalso. subst x. contradiction.
    - intros x Hx. split; [exact (proj1 (HS0 _ Hx))|]. apply (G_bound _ _ HG). apply known_chain. right. exact Hx.
  Qed.

  (** 1b. retired nodes: each node is retired at most once, retired nodes are not reachable, are
      marked and allocated; marked nodes are reachable or retired; a node that was linked and is
      unmarked is reachable (i.e. unlinked nodes are marked) *)
  Theorem hml_retired :
    NoDup (g_retired st) /\
    (forall x, In x (g_retired st) -> ~ In x (chain st) /\ nmark st x = true /\ x <> 0 /\ x < nalloc st) /\
    (forall x, nmark st x = true -> In x (chain st) \/ In x (g_retired st)) /\
    (forall t k n, In (LIns t k n) (g_lin st) -> nmark st n = false -> In n (chain st)).
  Proof.
    destruct HI as (HG & _ & _).
    split; [exact (G_ret_nodup _ _ HG)|]. split; [|split].
    - intros x Hx. split; [|split; [exact (G_ret_marked _ _ HG x Hx)|split]].
      + intros Hc. apply (G_disj _ _ HG x); [right; exact Hc | exact Hx].
      + intros ->. apply (G_disj _ _ HG 0); [left; reflexivity | exact Hx].
      + apply (G_bound _ _ HG). apply in_or_app. right. exact Hx.
    - intros x Hx. pose proof (G_marked_known _ _ HG x Hx) as Hk. apply in_app_or in Hk.
      destruct Hk as [[<- | Hk] | Hk]; [|left; exact Hk | right; exact Hk].
      rewrite (G_mark0 _ _ HG) in Hx. discriminate.
    - intros t k n Hin Hm. destruct (G_lins _ _ HG _ _ _ Hin) as [[H1 H0] _].
      destruct (unmarked_in_chain _ _ _ HG H1 Hm) as [Hc | Hc]; [congruence | exact Hc].
  Qed.

  (** 1c. local variables of the threads: every node held by a thread was allocated, and is null /
      the head sentinel, reachable, retired, or the thread's own not yet linked new node *)
  Theorem hml_locals t x : In x (held (th st t)) ->
    x < nalloc st /\
    (x = 0 \/ In x (chain st) \/ In x (g_retired st) \/ fresh_of (th st t) = Some x).
  Proof.
    destruct HI as (HG & HT & _). specialize (HT t). unfold T in HT.
    assert (Hz : 0 < nalloc st) by (apply (G_bound _ _ HG), known_zero, HG).
    assert (Hkn : forall y, known st (0 :: chain st) y ->
              y < nalloc st /\ (y = 0 \/ In y (chain st) \/ In y (g_retired st) \/ fresh_of (th st t) = Some y)).
    { intros y Hy. split; [apply (G_bound _ _ HG); exact Hy|]. apply in_app_or in Hy.
      destruct Hy as [[<- | Hy] | Hy]; auto. }
    assert (Hnx : forall y, oknx st (0 :: chain st) y ->
              y < nalloc st /\ (y = 0 \/ In y (chain st) \/ In y (g_retired st) \/ fresh_of (th st t) = Some y)).
    { intros y [-> | Hy]; [split; [exact Hz | left; reflexivity] | apply Hkn; exact Hy]. }
    assert (Hcl : forall y, known st (0 :: chain st) y -> oknx st (0 :: chain st) (nnext st y)).
    { intros y Hy. exact (G_closed _ _ HG y Hy). }
    assert (Hfk : forall k key, cont_ok st (0 :: chain st) (g_lp st t) k key -> fresh_of (th st t) = fresh_of_k k ->
              forall y, In y (held_k k) -> y < nalloc st /\
                (y = 0 \/ In y (chain st) \/ In y (g_retired st) \/ fresh_of (th st t) = Some y)).
    { intros k key Hco Hf y Hy. destruct k as [n| | |]; cbn [held_k] in Hy; try (destruct Hy; fail).
      destruct Hy as [<- | []]. cbn [cont_ok] in Hco. destruct Hco as (_ & Hlt & _).
      split; [exact Hlt|]. right. right. right. exact Hf. }
    destruct (th st t) as [|o|k key start|k key start sv nx|k key start sv cur|k key start sv cur|k key start sv cur nx
                          |k key start sv cur nx|n key sv cur|n key sv cur|key sv cur nx|key sv cur nx] eqn:E;
      cbn [Tw held] in *; intros Hin; try (destruct Hin; fail).
    - destruct HT as (Hco & H1). apply in_app_or in Hin. destruct Hin as [Hin | [<- | []]];
        [eapply Hfk; eauto | apply Hkn, H1].
    - destruct HT as (Hco & H1 & H2 & H3). apply in_app_or in Hin. destruct Hin as [Hin | [<- | [<- | [<- | []]]]];
        [eapply Hfk; eauto | apply Hkn, H1 | apply Hkn, H2 | apply Hnx, H3].
    - destruct HT as (Hco & H1 & H2 & H3). apply in_app_or in Hin. destruct Hin as [Hin | [<- | [<- | [<- | []]]]];
        [eapply Hfk; eauto | apply Hkn, H1 | apply Hkn, H2 | apply Hkn, H3].
    - destruct HT as (Hco & H1 & H2 & H3 & _). apply in_app_or in Hin. destruct Hin as [Hin | [<- | [<- | [<- | []]]]];
        [eapply Hfk; eauto | apply Hkn, H1 | apply Hkn, H2 | apply Hkn, H3].
    - destruct HT as (Hco & H1 & H2 & H3 & _ & H5). apply in_app_or in Hin.
      destruct Hin as [Hin | [<- | [<- | [<- | [<- | []]]]]];
        [eapply Hfk; eauto | apply Hkn, H1 | apply Hkn, H2 | apply Hkn, H3 | rewrite <- H5; apply Hnx, Hcl, H3].
    - destruct HT as (Hco & H1 & H2 & H3 & _ & H5). apply in_app_or in Hin.
      destruct Hin as [Hin | [<- | [<- | [<- | [<- | []]]]]];
        [eapply Hfk; eauto | apply Hkn, H1 | apply Hkn, H2 | apply Hkn, H3 | apply Hnx, H5].
    - destruct HT as ((_ & Hlt & _) & H1 & H2). destruct Hin as [<- | [<- | [<- | []]]];
        [split; [exact Hlt | auto] | apply Hkn, H1 |].
      destruct (N.eq_dec cur 0) as [->|Hxz]; [split; [exact Hz | left; reflexivity] | apply Hkn, (H2 Hxz)].
    - destruct HT as ((_ & Hlt & _) & H1 & H2 & _). destruct Hin as [<- | [<- | [<- | []]]];
        [split; [exact Hlt | auto] | apply Hkn, H1 |].
      destruct (N.eq_dec cur 0) as [->|Hxz]; [split; [exact Hz | left; reflexivity] | apply Hkn, (H2 Hxz)].
    - destruct HT as (H1 & H2 & _ & H4). destruct Hin as [<- | [<- | [<- | []]]];
        [apply Hkn, H1 | apply Hkn, H2 | apply Hnx, H4].
    - destruct HT as (H1 & H2 & _ & _ & H5 & _). destruct Hin as [<- | [<- | [<- | []]]];
        [apply Hkn, H1 | apply Hkn, H2 | rewrite <- H5; apply Hnx, Hcl, H2].
  Qed.

  (** the not yet linked new nodes of two different inserting threads are different *)
  Theorem hml_fresh_unique t t' n :
    t <> t' -> fresh_of (th st t) = Some n -> fresh_of (th st t') = Some n -> False.
  Proof. destruct HI as (_ & _ & HU). apply HU. Qed.

  (** 2. abstraction: [g_abs] is, as a duplicate-free set, the set of keys of the unmarked nodes
      reachable from [head]; it is the result of applying the successful mutating operations in the
      order of their linearization points *)
  Theorem hml_abs :
    NoDup (g_abs st) /\ NoDup (abs_keys st) /\
    (forall k, In k (g_abs st) <-> In k (abs_keys st)) /\
    g_abs st = apply_lin (g_lin st).
  Proof.
    destruct HI as (HG & _ & _).
    assert (Hnz : forall x, In x (chain st) -> x <> 0) by (intros x Hx; apply (G_tail_nonzero _ _ _ HG); exact Hx).
    split; [exact (G_abs_nodup _ _ HG)|]. split; [|split; [|exact (G_fold _ _ HG)]].
    - unfold abs_keys. apply NoDup_map_inj.
      + apply NoDup_filter. pose proof (G_nodup _ _ HG) as HN. inversion HN; assumption.
      + intros x y Hx Hy Hk. apply filter_In in Hx, Hy. destruct Hx as [Hx _]. destruct Hy as [Hy _].
        apply (chain_key_inj st _ x y HG); auto; right; assumption.
    - intros k. rewrite (G_abs _ _ HG). unfold abs_keys. rewrite in_map_iff. split.
      + intros (x & [Hx | Hx] & Hxz & Hm & Hk); [congruence|]. exists x. split; [exact Hk|].
        apply filter_In. split; [exact Hx | rewrite Hm; reflexivity].
      + intros (x & Hk & Hx). apply filter_In in Hx. destruct Hx as [Hx Hm]. exists x.
        split; [right; exact Hx|]. split; [apply Hnz; exact Hx|]. split; [|exact Hk].
        destruct (nmark st x); [discriminate | reflexivity].
  Qed.

  (** 3a. linearization of the completed operations: for every completed operation the recorded
      witness is [Some m], where [m] is the membership of the key in [g_abs] at the operation's
      linearization point, and the result is the one the sequential set gives for [m]:
      insert returns new iff the key was absent, erase returns ok iff it was present, contains
      returns the membership *)
  Theorem hml_hist h : In h (g_hist st) -> hist_ok h.
  Proof. apply (Hist_reach st Hreach). Qed.

  (** 3b. the successful mutators: each [LDel t k n] is the successful mark CAS of thread t on node n
      with key k, and no node is marked by two of them (of several racing erases of the same node
      exactly one succeeds); each [LIns t k n] linked a distinct node *)
  Theorem hml_lin_nodes :
    (forall t k n, In (LDel t k n) (g_lin st) -> nmark st n = true /\ nkey st n = k) /\
    NoDup (del_nodes (g_lin st)) /\
    (forall t k n, In (LIns t k n) (g_lin st) ->
       (In n (chain st) \/ In n (g_retired st)) /\ n <> 0 /\ nkey st n = k) /\
    NoDup (ins_nodes (g_lin st)).
  Proof.
    destruct HI as (HG & _ & _).
    split; [exact (G_ldel _ _ HG)|]. split; [exact (G_ldel_nodup _ _ HG)|]. split; [|exact (G_lins_nodup _ _ HG)].
    intros t k n Hin. destruct (G_lins _ _ HG _ _ _ Hin) as [[H1 H0] H2]. split; [|split; assumption].
    apply in_app_or in H1. destruct H1 as [[H1 | H1] | H1]; [congruence | left; exact H1 | right; exact H1].
  Qed.

  (** 3c. per thread, the successful mutators in linearization order are exactly the thread's
      completed successful insert / erase operations, followed by the erase that has marked its node
      and not yet returned (if any): an erase returns ok iff it performed a successful mark CAS *)
  Theorem hml_pending t : proj_lin t (g_lin st) = proj_hist t (g_hist st) ++ pending (th st t).
  Proof. apply (Pend_reach st Hreach). Qed.

  (** 4. conservation: at quiescence the keys of the reachable unmarked nodes are the result of
      applying the successful operations (in linearization order, which preserves the order of each
      thread's completed successful operations) to the empty set *)
  Corollary hml_quiescent : (forall t, th st t = Idle) ->
    (forall k, In k (abs_keys st) <-> In k (apply_lin (g_lin st))) /\
    (forall t, proj_lin t (g_lin st) = proj_hist t (g_hist st)).
  Proof.
    intros Hq. destruct hml_abs as (_ & _ & Habs & Hfold). split.
    - intros k. rewrite <- Hfold. symmetry. apply Habs.
    - intros t. rewrite (hml_pending t), (Hq t). cbn [pending]. apply app_nil_r.
  Qed.
End Theorems.

(** * Step-level theorems *)

Ltac step_cases Hst s :=
  unfold step in Hst;
  match type of Hst with
  | context [match ?a with Start _ _ => _ | Step _ => _ end] => destruct a as [?t ?o | ?t]
  end;
  match type of Hst with
  | context [th s ?t] =>
    destruct (th s t) as [|?o|?k ?key ?start|?k ?key ?start ?sv ?nx|?k ?key ?start ?sv ?cur|?k ?key ?start ?sv ?cur
                          |?k ?key ?start ?sv ?cur ?nx|?k ?key ?start ?sv ?cur ?nx|?n ?key ?sv ?cur|?n ?key ?sv ?cur
                          |?key ?sv ?cur ?nx|?key ?sv ?cur ?nx] eqn:?E
  end;
  cbv beta iota zeta in Hst; try discriminate Hst;
  try match type of Hst with context [match ?o with OIns _ => _ | ODel _ => _ | OHas _ => _ end] => destruct o end;
  unfold find_ret in Hst;
  repeat match type of Hst with
  | context [if ?b then _ else _] => destruct b eqn:?Hc
  | context [match ?k with KIns _ => _ | KDel => _ | KDel2 => _ | KHas => _ end] => destruct k
  end;
  injection Hst as <- <-.

Ltac prj2 := cbn [nkey nnext nmark nalloc th g_abs g_lin g_lp g_hist g_retired set_pc set_pc_lp ret_st unlink_st].

(** 3d. the abstract set changes exactly at the linearization points of the mutators:
    the successful link CAS (program point E2) adds a key that was absent, and the step returns new;
    the successful mark CAS (program point D1) of an unmarked reachable node removes its key, which was present *)
Theorem hml_abs_step s a s' es : reach init step s -> step s a = Some (s', es) ->
  (g_abs s' = g_abs s /\ g_lin s' = g_lin s) \/
  (exists t n key sv cur, a = Step t /\ th s t = E2 n key sv cur /\
     nnext s sv = cur /\ nmark s sv = false /\
     ~ In key (g_abs s) /\ g_abs s' = key :: g_abs s /\ g_lin s' = g_lin s ++ [LIns t key n] /\
     es = [ERmw t (L_next sv) mo_rel (vmp cur false) (vmp n false); ret_ev t (OIns key) true]) \/
  (exists t key sv cur nx, a = Step t /\ th s t = D1 key sv cur nx /\
     nnext s cur = nx /\ nmark s cur = false /\ nmark s' cur = true /\ nkey s cur = key /\ In cur (chain s) /\
     In key (g_abs s) /\ g_abs s' = remk key (g_abs s) /\ g_lin s' = g_lin s ++ [LDel t key cur] /\
     th s' t = D2 key sv cur nx).
Proof.
  intros Hr Hst. destruct (Inv_chain s (Inv_reach s Hr)) as (HG & HT & HU).
  step_cases Hst s; prj2; try (left; split; reflexivity).
  - (* E2 *) right. left. pose proof (HT t) as Ht. unfold T in Ht. rewrite E in Ht. cbn [Tw] in Ht.
    destruct Ht as (Hfr & Hsv & Hcurc & Hnn). apply cond_true in Hc. destruct Hc as [Hnx Hm].
    assert (Hsvc : In sv (0 :: chain s)) by (eapply unmarked_in_chain; [exact HG | exact (proj1 Hsv) | exact Hm]).
    exists t, n, key, sv, cur. repeat (split; [reflexivity || assumption|]). split; [|repeat split].
    apply memb_false. apply (absent s _ sv cur key HG Hsvc Hnx (proj2 Hsv)). intros H. exact (proj2 (Hcurc H)).
  - (* D1 *) right. right. pose proof (HT t) as Ht. unfold T in Ht. rewrite E in Ht. cbn [Tw] in Ht.
    destruct Ht as (Hsv & Hcur & Hck & _). apply cond_true in Hc. destruct Hc as [Hnx Hm].
    assert (Hcc : In cur (0 :: chain s)) by (eapply unmarked_in_chain; [exact HG | exact (proj1 Hcur) | exact Hm]).
    exists t, key, sv, cur, nx. split; [reflexivity|]. split; [exact E|]. split; [exact Hnx|]. split; [exact Hm|].
    split; [apply setf_same|]. split; [exact Hck|].
    split; [destruct Hcc as [Hcc | Hcc]; [exfalso; apply (proj2 Hcur); symmetry; exact Hcc | exact Hcc]|].
    split; [rewrite <- Hck; apply (abs_in s _ cur HG Hcc (proj2 Hcur) Hm)|].
    split; [reflexivity|]. split; [reflexivity | apply upd_same].
Qed.

(** 1d. keys never change, a marked node is never unmarked and its next pointer never changes *)
Theorem hml_frozen_step s a s' es : reach init step s -> step s a = Some (s', es) ->
  forall x, (x < nalloc s -> nkey s' x = nkey s x) /\
            (nmark s x = true -> nmark s' x = true /\ nnext s' x = nnext s x).
Proof.
  intros Hr Hst x. destruct (Inv_chain s (Inv_reach s Hr)) as (HG & HT & HU).
  assert (Hmk : nmark s x = true -> x < nalloc s).
  { intros Hm. apply (G_bound _ _ HG). apply (G_marked_known _ _ HG). exact Hm. }
  step_cases Hst s; prj2; try (split; [reflexivity | intros Hm; split; [exact Hm | reflexivity]]).
  - (* alloc *) split; [intros Hlt; apply setf_other; lia|]. intros Hm. specialize (Hmk Hm).
    rewrite !setf_other by lia. auto.
  - (* F5 unlink *) split; [reflexivity|]. intros Hm. split; [exact Hm|]. apply cond_true in Hc.
    apply setf_other. intros ->. destruct Hc. congruence.
  - (* E1 store *) split; [reflexivity|]. intros Hm. split; [exact Hm|].
    pose proof (HT t) as Ht. unfold T in Ht. rewrite E in Ht. cbn [Tw] in Ht. destruct Ht as ((_ & _ & Hnk & _) & _).
    apply setf_other. intros ->. apply Hnk. apply (G_marked_known _ _ HG). exact Hm.
  - (* E2 link *) split; [reflexivity|]. intros Hm. split; [exact Hm|]. apply cond_true in Hc.
    apply setf_other. intros ->. destruct Hc. congruence.
  - (* D1 mark *) split; [reflexivity|]. intros Hm. split; [|reflexivity].
    unfold setf. destruct (x =? cur); [reflexivity | exact Hm].
  - (* D2 unlink *) split; [reflexivity|]. intros Hm. split; [exact Hm|]. apply cond_true in Hc.
    apply setf_other. intros ->. destruct Hc. congruence.
Qed.

Corollary hml_frozen s s' : reach init step s -> reach_from step s s' ->
  nalloc s <= nalloc s' /\
  forall x, (x < nalloc s -> nkey s' x = nkey s x) /\
            (nmark s x = true -> nmark s' x = true /\ nnext s' x = nnext s x).
Proof.
  intros Hr Hf. induction Hf as [|s1 a s2 es Hf IH Hst].
  - split; [lia|]. intros x. split; [reflexivity | auto].
  - assert (Hr1 : reach init step s1) by (eapply reach_from_reach; eassumption).
    destruct IH as [Ha IH]. split.
    + assert (nalloc s1 <= nalloc s2); [|lia]. clear -Hst. step_cases Hst s1; prj2; lia.
    + intros x. destruct (IH x) as [IH1 IH2]. destruct (hml_frozen_step _ _ _ _ Hr1 Hst x) as [H1 H2]. split.
      * intros Hlt. rewrite H1 by lia. apply IH1. exact Hlt.
      * intros Hm. destruct (IH2 Hm) as [Hm1 Hn1]. destruct (H2 Hm1) as [Hm2 Hn2]. split; [exact Hm2 | congruence].
Qed.

(** 1e. a node is retired in the very step that unlinks it (a successful unlink CAS of a marked node
    whose predecessor is unmarked), by the thread that performed the CAS; no other step retires *)
Theorem hml_retire_step s a s' es : reach init step s -> step s a = Some (s', es) ->
  g_retired s' = g_retired s \/
  exists t x, a = Step t /\ g_retired s' = g_retired s ++ [x] /\ In (ENote t 120 [x]) es /\
    In x (chain s) /\ ~ In x (chain s') /\ ~ In x (g_retired s) /\ nmark s x = true /\
    (forall y, In y (chain s) <-> y = x \/ In y (chain s')).
Proof.
  intros Hr Hst. assert (Hr' : reach init step s') by (eapply reach_step; eassumption).
  destruct (Inv_chain s (Inv_reach s Hr)) as (HG & HT & HU).
  destruct (Inv_chain s' (Inv_reach s' Hr')) as (HG' & _ & _).
  assert (Hgen : forall sv cur nx, known s (0 :: chain s) sv -> nmark s sv = false -> nnext s sv = cur -> cur <> 0 ->
            nmark s cur = true -> nnext s cur = nx ->
            nkey s' = nkey s -> nnext s' = setf (nnext s) sv nx -> nmark s' = nmark s -> nalloc s' = nalloc s ->
            g_abs s' = g_abs s -> g_lin s' = g_lin s -> g_retired s' = g_retired s ++ [cur] ->
            In cur (chain s) /\ ~ In cur (chain s') /\ ~ In cur (g_retired s) /\ nmark s cur = true /\
            (forall y, In y (chain s) <-> y = cur \/ In y (chain s'))).
  { intros sv cur nx Hsvk Hsvm Hsvn Hcnz Hcm Hcn Ek Enx Em Ea Eabs Elin Eret.
    assert (Hsv : In sv (0 :: chain s)) by (eapply unmarked_in_chain; eassumption).
    destruct (unlink_step s _ s' sv cur nx HG Hsv Hsvm Hsvn Hcnz Hcm Hcn Ek Enx Em Ea Eabs Elin Eret)
      as (c' & HGc & _ & H1 & H2 & H3 & H4).
    rewrite (chain_eq _ _ HGc) in H2, H4.
    assert (Hz : forall y, In y (chain s') -> y <> 0) by (intros y Hy; apply (G_tail_nonzero _ _ _ HG'); exact Hy).
    split; [destruct H1 as [H1 | H1]; [exfalso; apply Hcnz; symmetry; exact H1 | exact H1]|].
    split; [intros Hc; apply H2; right; exact Hc|]. split; [exact H3|]. split; [exact Hcm|].
    intros y. split.
    - intros Hy. destruct (H4 y) as [H5 _]. destruct (H5 (or_intror Hy)) as [H6 | [H6 | H6]]; auto.
      exfalso. subst y. apply (G_tail_nonzero _ _ 0 HG); [exact Hy | reflexivity].
    - intros [-> | Hy]; [destruct H1 as [H1 | H1]; [exfalso; apply Hcnz; symmetry; exact H1 | exact H1]|].
      destruct (H4 y) as [_ H5]. destruct (H5 (or_intror (or_intror Hy))) as [H6 | H6]; [|exact H6].
      exfalso. apply (Hz y Hy). symmetry. exact H6. }
  step_cases Hst s; prj2; try (left; reflexivity); right.
  - (* F5 *) pose proof (HT t) as Ht. unfold T in Ht. rewrite E in Ht. cbn [Tw] in Ht.
    destruct Ht as (Hco & Hstart & Hsv & Hcur & Hm & Hn). apply cond_true in Hc. destruct Hc as [Hnx Hsvm].
    exists t, cur. split; [reflexivity|]. split; [reflexivity|]. split; [right; left; reflexivity|].
    apply (Hgen sv cur nx); try assumption; try reflexivity; [exact (proj1 Hsv) | exact (proj2 Hcur)].
  - (* D2 *) pose proof (HT t) as Ht. unfold T in Ht. rewrite E in Ht. cbn [Tw] in Ht.
    destruct Ht as (Hsv & Hcur & Hck & Hm & Hn & Hlp). apply cond_true in Hc. destruct Hc as [Hnx Hsvm].
    exists t, cur. split; [reflexivity|]. split; [reflexivity|]. split; [right; left; reflexivity|].
    apply (Hgen sv cur nx); try assumption; try reflexivity; [exact (proj1 Hsv) | exact (proj2 Hcur)].
Qed.

(** ** the ghosts [g_lp], [g_hist] and the calls *)

(** the operation a thread is executing *)
Definition cur_op (p : pc) : option op :=
  match p with
  | Idle => None
  | Begin o => Some o
  | F1 k key _ | F2 k key _ _ _ | F3 k key _ _ _ | F4 k key _ _ _ | F5 k key _ _ _ _ | F6 k key _ _ _ _ => Some (op_of k key)
  | E1 _ key _ _ | E2 _ key _ _ => Some (OIns key)
  | D1 key _ _ _ | D2 key _ _ _ => Some (ODel key)
  end.
Definition op_key (o : op) : N := match o with OIns k | ODel k | OHas k => k end.

(** the operation of a call does not change until the call returns *)
Theorem hml_op_step s a s' es u o : step s a = Some (s', es) -> cur_op (th s u) = Some o ->
  th s' u = Idle \/ cur_op (th s' u) = Some o.
Proof.
  intros Hst Hop. step_cases Hst s; prj2;
    (destruct (Nat.eq_dec u t) as [->|Hne]; [|right; rewrite upd_other by exact Hne; exact Hop]);
    rewrite upd_same; rewrite E in Hop; cbn [cur_op] in Hop; try discriminate Hop; injection Hop as <-;
    first [left; reflexivity | right; reflexivity].
Qed.

(** [g_lp u] is changed only by steps of thread u itself: reset at the first step of a call,
    otherwise set to the membership of the call's key in the abstract set of the state in which the
    step is taken (an instant inside the call) *)
Theorem hml_lp_step s a s' es u : step s a = Some (s', es) ->
  g_lp s' u = g_lp s u \/
  (a = Step u /\ exists o, cur_op (th s u) = Some o /\
     ((th s u = Begin o /\ g_lp s' u = None) \/ g_lp s' u = Some (memb (op_key o) (g_abs s)))).
Proof.
  intros Hst. step_cases Hst s; prj2; try (left; reflexivity);
    (destruct (Nat.eq_dec u t) as [->|Hne]; [|left; apply upd_other; exact Hne]);
    rewrite upd_same;
    first [ left; reflexivity
          | right; split; [reflexivity|]; eexists; split; [rewrite E; reflexivity|];
            first [left; split; [exact E | reflexivity] | right; reflexivity | right; destruct k; reflexivity] ].
Qed.

Ltac in_crush H :=
  unfold ret_ev in H; cbn [In app] in H;
  repeat match type of H with _ \/ _ => destruct H as [H | H] end;
  try discriminate H; try contradiction.

(** a result is returned exactly by the last step of a call; the step records the operation, the
    result and the current [g_lp] of the thread in [g_hist] *)
Theorem hml_ret_step s a s' es t r : step s a = Some (s', es) -> In (ERet t r) es ->
  exists o b, a = Step t /\ cur_op (th s t) = Some o /\ r = [op_code o; b2n b] /\
    g_hist s' = g_hist s ++ [mkH t o b (g_lp s' t)] /\ th s' t = Idle.
Proof.
  intros Hst Hin. step_cases Hst s; in_crush Hin; injection Hin as <- <-;
    first [ eexists; exists true; (split; [reflexivity|]); (split; [rewrite E; reflexivity|]); (split; [reflexivity|]);
            prj2; rewrite !upd_same; split; reflexivity
          | eexists; exists false; (split; [reflexivity|]); (split; [rewrite E; reflexivity|]); (split; [reflexivity|]);
            prj2; rewrite !upd_same; split; reflexivity ].
Qed.

(** steps that return nothing leave [g_hist] unchanged *)
Theorem hml_noret_step s a s' es : step s a = Some (s', es) -> (forall t r, ~ In (ERet t r) es) ->
  g_hist s' = g_hist s.
Proof.
  intros Hst Hno. step_cases Hst s; prj2; try reflexivity;
    exfalso; eapply Hno; unfold ret_ev; cbn [In app]; eauto 6.
Qed.

(** ** trace-level form: the linearization instant lies inside the call *)

(** [in_call u o s0 s]: thread u took the first step of a call of [o] from [s0], and [s] is a later
    state of the execution up to and including the state right after the call's return *)
Inductive in_call (u : nat) (o : op) (s0 : state) : state -> Prop :=
| ic_first s1 es : th s0 u = Begin o -> step s0 (Step u) = Some (s1, es) -> in_call u o s0 s1
| ic_next s a s' es : in_call u o s0 s -> th s u <> Idle -> step s a = Some (s', es) -> in_call u o s0 s'.

Lemma in_call_reach u o s0 s : reach init step s0 -> in_call u o s0 s -> reach init step s.
Proof. intros Hr H. induction H; eapply reach_step; eauto. Qed.

(** sequential specification: result of operation [o] when the membership of its key is [m] *)
Definition res_for (o : op) (m : bool) : bool := match o with OIns _ => negb m | ODel _ | OHas _ => m end.

Lemma in_call_lp u o s0 s : in_call u o s0 s ->
  (th s u = Idle \/ cur_op (th s u) = Some o) /\
  (g_lp s u = None \/
   exists s1, in_call u o s0 s1 /\ reach_from step s1 s /\ g_lp s u = Some (memb (op_key o) (g_abs s1))).
Proof.
  induction 1 as [s1 es Hb Hst | s a s' es Hic IH Hni Hst].
  - split; [eapply hml_op_step; [exact Hst | rewrite Hb; reflexivity]|]. left.
    unfold step in Hst. rewrite Hb in Hst. destruct o; injection Hst as <- _; prj2; apply upd_same.
  - destruct IH as [[Hidle | Hop] Hlp]; [contradiction|].
    split; [eapply hml_op_step; eassumption|].
    destruct (hml_lp_step s a s' es u Hst) as [Heq | (-> & o' & Ho' & [[Hbeg Hn] | Hset])].
    + rewrite Heq. destruct Hlp as [Hn | (s1 & H1 & H2 & H3)]; [left; exact Hn | right].
      exists s1. split; [exact H1|]. split; [eapply rf_step; eassumption | exact H3].
    + left. exact Hn.
    + right. assert (o' = o) by congruence. subst o'. exists s. split; [exact Hic|].
      split; [eapply rf_step; [apply rf_refl | exact Hst] | exact Hset].
Qed.

(** 3e. MAIN THEOREM (linearizability of every call).  Take any execution, any call of an operation [o]
    by a thread [u] (first step taken from [s0]) and the step that returns its result [r].  Then there
    is a state [s1] strictly inside the call -- after the call's first step, not later than the
    returning step -- such that [r] is the answer of the sequential set specification for the
    membership of the key in the abstract set [g_abs s1]: insert returns new iff the key is absent,
    erase returns ok iff it is present, contains returns the membership.  ([g_abs] itself changes
    only at the linearization points of the successful insert / erase operations, [hml_abs_step],
    and equals the set of keys in the list, [hml_abs].) *)
Theorem hml_call_linearizable u o s0 s a s' es r :
  reach init step s0 -> in_call u o s0 s -> step s a = Some (s', es) -> In (ERet u r) es ->
  exists b s1, r = [op_code o; b2n b] /\ in_call u o s0 s1 /\ reach_from step s1 s' /\
    b = res_for o (memb (op_key o) (g_abs s1)).
Proof.
  intros Hr Hic Hst Hin.
  destruct (hml_ret_step s a s' es u r Hst Hin) as (o' & b & -> & Hop & -> & Hh & Hidle).
  destruct (in_call_lp u o s0 s Hic) as [[Hi | Hop'] _]; [rewrite Hi in Hop; discriminate|].
  assert (o' = o) by congruence. subst o'.
  assert (Hni : th s u <> Idle) by (intros Hc; rewrite Hc in Hop; discriminate).
  assert (Hic' : in_call u o s0 s') by (eapply ic_next; eassumption).
  assert (Hr' : reach init step s') by (eapply in_call_reach; eassumption).
  assert (Hok : hist_ok (mkH u o b (g_lp s' u))).
  { apply (Hist_reach s' Hr'). rewrite Hh. apply in_or_app. right. left. reflexivity. }
  destruct (in_call_lp u o s0 s' Hic') as [_ [Hn | (s1 & H1 & H2 & H3)]].
  - exfalso. unfold hist_ok in Hok. cbn [h_op h_wit h_res] in Hok. rewrite Hn in Hok. destruct o; discriminate.
  - exists b, s1. split; [reflexivity|]. split; [exact H1|]. split; [exact H2|].
    unfold hist_ok in Hok. cbn [h_op h_wit h_res] in Hok. rewrite H3 in Hok.
    destruct o; cbn [res_for op_key] in *; injection Hok as Hok; rewrite Hok; [|reflexivity|reflexivity].
    symmetry. apply negb_involutive.
Qed.

(** * Examples: reachable states computed with the executable model *)

Definition steps (t : nat) (n : nat) : list action := repeat (Step t) n.
Definition st_of (acts : list action) : state := fst (fst (run step init acts)).

Lemma st_of_reach acts : reach init step (st_of acts).
Proof. apply (run_reach _ _ _ init step acts). Qed.

(** T1: ins 2; ins 1 (nodes 1, 2).  T2: del 2, preempted between its mark CAS and its unlink CAS. *)
Definition ex_marked : list action :=
  Start 1%nat (OIns 2) :: steps 1 5 ++ Start 1%nat (OIns 1) :: steps 1 7 ++ Start 2%nat (ODel 2) :: steps 2 9.

(** (hml_structure, hml_abs, hml_pending) node 1 (key 2) is marked and still reachable: the chain is
    sorted, [abs_keys] = [g_abs] = {1}, the erase is pending *)
Example ex_marked_state :
  let st := st_of ex_marked in
  chain st = [2; 1] /\ map (nkey st) (chain st) = [1; 2] /\ map (nmark st) (chain st) = [false; true] /\
  abs_keys st = [1] /\ g_abs st = [1] /\ g_retired st = [] /\
  th st 2%nat = D2 2 2 1 0 /\ pending (th st 2%nat) = [ODel 2] /\
  g_lin st = [LIns 1 2 1; LIns 1 1 2; LDel 2 2 1] /\ proj_hist 2 (g_hist st) = [].
Proof. vm_compute. repeat split. Qed.

(** T3: has 2 runs to completion: its find helps to unlink node 1 and retires it, the answer is no *)
Definition ex_helped : list action := ex_marked ++ Start 3%nat (OHas 2) :: steps 3 10.

(** (hml_retired, hml_retire_step, hml_hist) the helper retired the node; the lookup answered no with
    witness [Some false] although the erasing thread has not returned yet *)
Example ex_helped_state :
  let st := st_of ex_helped in
  chain st = [2] /\ g_retired st = [1] /\ nmark st 1 = true /\ nnext st 1 = 0 /\ g_abs st = [1] /\
  th st 2%nat = D2 2 2 1 0 /\ th st 3%nat = Idle /\
  last (g_hist st) (mkH 0 (OHas 0) false None) = mkH 3 (OHas 2) false (Some false).
Proof. vm_compute. repeat split. Qed.

(** T2 resumes: its unlink CAS fails, it searches again and returns ok *)
Definition ex_done : list action := ex_helped ++ steps 2 3.

(** (hml_quiescent, hml_hist) all threads idle: keys of the list = fold of the successful operations;
    every completed operation is consistent with its witness *)
Example ex_done_state :
  let st := st_of ex_done in
  (forall t, In t [1; 2; 3]%nat -> th st t = Idle) /\
  abs_keys st = [1] /\ apply_lin (g_lin st) = [1] /\ g_retired st = [1] /\
  g_hist st = [mkH 1 (OIns 2) true (Some false); mkH 1 (OIns 1) true (Some false);
               mkH 3 (OHas 2) false (Some false); mkH 2 (ODel 2) true (Some true)] /\
  proj_lin 2 (g_lin st) = [ODel 2] /\ proj_hist 2 (g_hist st) = [ODel 2].
Proof. vm_compute. split; [intros t [<- | [<- | [<- | []]]]; reflexivity | repeat split]. Qed.

(** (hml_lin_nodes, hml_abs_step) two racing erases of the same node: T2 and T3 both reach the mark CAS
    of node 1; T2's CAS succeeds, T3's fails; T3 searches again (helping to unlink) and returns no,
    T2 returns ok: exactly one of them succeeded *)
Definition ex_race_del : list action :=
  Start 1%nat (OIns 5) :: steps 1 5 ++ Start 2%nat (ODel 5) :: steps 2 5 ++ Start 3%nat (ODel 5) :: steps 3 5 ++
  [Step 2%nat; Step 3%nat] ++ steps 3 6 ++ steps 2 3.
Example ex_race_del_state :
  let st := st_of ex_race_del in
  chain st = [] /\ g_abs st = [] /\ g_retired st = [1] /\ g_lin st = [LIns 1 5 1; LDel 2 5 1] /\
  g_hist st = [mkH 1 (OIns 5) true (Some false); mkH 3 (ODel 5) false (Some false); mkH 2 (ODel 5) true (Some true)].
Proof. vm_compute. repeat split. Qed.

(** (hml_hist, hml_fresh_unique) two racing inserts of the same key: T2 links its node 2 first; T1's
    link CAS fails, its second find sees node 2 unmarked (witness [Some true]), it frees its own
    node 1 and returns old *)
Definition ex_race_ins : list action :=
  Start 1%nat (OIns 7) :: steps 1 4 ++ Start 2%nat (OIns 7) :: steps 2 5 ++ steps 1 1.
Example ex_race_ins_mid :
  let st := st_of ex_race_ins in
  chain st = [2] /\ th st 1%nat = F1 (KIns 1) 7 0 /\ fresh_of (th st 1%nat) = Some 1 /\ g_abs st = [7].
Proof. vm_compute. repeat split. Qed.
Example ex_race_ins_state :
  let st := st_of (ex_race_ins ++ steps 1 4) in
  chain st = [2] /\ g_abs st = [7] /\ g_lin st = [LIns 2 7 2] /\
  g_hist st = [mkH 2 (OIns 7) true (Some false); mkH 1 (OIns 7) false (Some true)].
Proof. vm_compute. repeat split. Qed.
