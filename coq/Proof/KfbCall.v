(** kirsch_bounded_kfifo_queue (C06): call-level theorems -- a pop takes its value from the head segment
    (k-relaxation, segment form), the empty verdict.  No axioms, no admits. *)
From Coq Require Import NArith List Bool Lia PeanoNat.
From XV Require Import Base.Word Conc.Lts Conc.Ev Model.KfbDefs.
From XV Require Import Proof.KfbArith Proof.KfbWf Proof.KfbOwn Proof.KfbRing Proof.KfbRegion Proof.KfbMono Proof.KfbCons.
Import ListNotations.
Local Open Scope N_scope.

Set Default Proof Using "All".
Section Call.
  Variables k segs : N.
  Hypothesis Hk : 1 <= k.
  Hypothesis Hs : 1 <= segs.
  Notation step := (step k segs).
  Notation sg := (sg k).
  Notation qsize := (qsize k segs).
  Notation dist := (dist segs).
  Notation hs := (hs k).
  Notation ts := (ts k).
  Notation inreg := (inreg k segs).
  Notation Inv := (Inv k segs).

  (** [in_call u o s0 s]: thread u took the first step of a call of [o] from [s0], and [s] is a later
      state of the execution, up to and including the state right after the call's return *)
  Inductive in_call (u : nat) (o : op) (s0 : state) : state -> Prop :=
  | ic_first s1 es r : th s0 u = Begin o -> step s0 (Step u r) = Some (s1, es) -> in_call u o s0 s1
  | ic_next s a s' es : in_call u o s0 s -> th s u <> Idle -> step s a = Some (s', es) -> in_call u o s0 s'.

  Lemma in_call_reach u o s0 s : reach init step s0 -> in_call u o s0 s -> reach init step s.
  Proof. intros Hr H. induction H; eapply reach_step; eauto. Qed.

  (** the program counter of u changes only by u's own steps *)
  Lemma step_th_other u s a s' es : step s a = Some (s', es) ->
    (forall o, a <> Start u o) -> (forall r, a <> Step u r) -> th s' u = th s u.
  Proof.
    intros Hst Hn1 Hn2. unfold KfbDefs.step in Hst. destruct a as [t o|t r].
    - assert (u <> t) by (intros ->; apply (Hn1 o); reflexivity).
      destruct (th s t); try discriminate. inversion Hst; subst. sim. apply upd_other. assumption.
    - assert (u <> t) by (intros ->; apply (Hn2 r); reflexivity).
      destruct (th s t) as [|[v|]|b|b tl|b tl hd ri i|b tl j otag|b tl hd|b tl j otag|b tl hd|b tl hd i|b tl hd|b tl hd|b tl
                            |b tl j tg|b tl j tg|b tl j tg hc|b tl j tg hc tc|b tl j tg hc|b j tg
                            | |hd|hd tl ri i|hd tl j p tg|hd tl|hd tl j p tg|hd j p tg|hd tl|hd] eqn:E;
        try discriminate; brk Hst; inversion Hst; subst; clear Hst; sim; apply upd_other; assumption.
  Qed.

  (** a pop holds a slot word it has read: the slot's tag has not gone back *)
  Definition T5 (st : state) (p : pc) : Prop :=
    match p with
    | D3 _ _ j p tg | DT _ _ j p tg | D4 _ j p tg => tg <= snd (slot st j)
    | _ => True
    end.
  Definition Inv5 (st : state) : Prop := forall t, T5 st (th st t).

  Lemma T5_mono st st' p : (forall j, sw_mono (slot st j) (slot st' j)) -> T5 st p -> T5 st' p.
  Proof.
    intros Hm. destruct p; cbn [T5]; try exact (fun x => x).
    all: intros H; destruct (Hm j) as [->|Hlt]; lia.
  Qed.

  Lemma Inv5_reach st : reach init step st -> Inv5 st.
  Proof.
    apply inv_rule; [intros t; exact I|].
    intros s a s' es H5 Hst. pose proof (step_mono k segs s a s' es Hst) as (_ & _ & Hm & _).
    intros t'. unfold KfbDefs.step in Hst. destruct a as [t o|t r].
    - destruct (th s t) eqn:E; try discriminate. inversion Hst; subst; clear Hst. sim.
      destruct (Nat.eq_dec t' t) as [->|Hne]; [rewrite upd_same; exact I|rewrite upd_other by exact Hne; apply H5].
    - pose proof (H5 t) as Hme.
      destruct (th s t) as [|[v|]|b|b tl|b tl hd ri i|b tl j otag|b tl hd|b tl j otag|b tl hd|b tl hd i|b tl hd|b tl hd|b tl
                            |b tl j tg|b tl j tg|b tl j tg hc|b tl j tg hc tc|b tl j tg hc|b j tg
                            | |hd|hd tl ri i|hd tl j p tg|hd tl|hd tl j p tg|hd j p tg|hd tl|hd] eqn:E;
        try discriminate; cbn [T5] in Hme; brk Hst; inversion Hst; subst; clear Hst.
      all: destruct (Nat.eq_dec t' t) as [->|Hne];
        [sim; rewrite upd_same; cbn [T5]; sim; try exact I; try lia
        |eapply T5_mono; [exact Hm|]; sim; rewrite upd_other by exact Hne; apply H5].
  Qed.

  (** * k-relaxation: a pop takes its value from the head segment *)

  Definition popping (p : pc) (hd : iw) (j q tg : N) : Prop :=
    (exists tl, p = DT hd tl j q tg) \/ p = D4 hd j q tg.

  Lemma pop_witness u s0 s : reach init step s0 -> in_call u OPop s0 s ->
    forall hd j q tg, popping (th s u) hd j q tg ->
    exists s1, in_call u OPop s0 s1 /\ reach_from step s1 s /\ head s1 = hd /\ (slot s j = (q, tg) -> slot s1 j = (q, tg)).
  Proof.
    intros Hr0 Hic. induction Hic as [s1 es r Hb Hst | s a s' es Hic IH Hni Hst]; intros hd j q tg Hp.
    - exfalso. unfold KfbDefs.step in Hst. rewrite Hb in Hst. inversion Hst; subst. sim. rewrite upd_same in Hp.
      destruct Hp as [[tl Hp]|Hp]; discriminate.
    - assert (Hrs : reach init step s) by (eapply in_call_reach; eauto).
      pose proof (Inv5_reach s Hrs u) as H5.
      pose proof (step_mono k segs s a s' es Hst) as (_ & _ & Hm & _).
      assert (Hic' : in_call u OPop s0 s') by (eapply ic_next; eauto).
      (* the case where u keeps its program counter, or goes from DT to D4 *)
      assert (Hkeep : popping (th s u) hd j q tg -> 
                exists s1, in_call u OPop s0 s1 /\ reach_from step s1 s' /\ head s1 = hd /\ (slot s' j = (q, tg) -> slot s1 j = (q, tg))).
      { intros Hp0. destruct (IH hd j q tg Hp0) as (s1 & A & B & C & D). exists s1.
        split; [exact A|]. split; [eapply rf_step; eauto|]. split; [exact C|]. intros E'. apply D.
        assert (Ht : tg <= snd (slot s j)) by (destruct Hp0 as [[tl Hp0]|Hp0]; rewrite Hp0 in H5; exact H5).
        destruct (Hm j) as [Q|Q]; [rewrite <- Q; exact E'|]. rewrite E' in Q. cbn [snd] in Q. lia. }
      destruct a as [t o|t r].
      + (* Start *)
        assert (Hth : th s' u = th s u).
        { apply (step_th_other u s _ s' es Hst); [|intros; discriminate].
          intros o' Q. inversion Q; subst. unfold KfbDefs.step in Hst. destruct (th s u); try discriminate. contradiction. }
        rewrite Hth in Hp. apply Hkeep. exact Hp.
      + destruct (Nat.eq_dec t u) as [->|Hne].
        2:{ assert (Hth : th s' u = th s u) by (apply (step_th_other u s _ s' es Hst); [intros; discriminate|intros r' Q; inversion Q; congruence]).
            rewrite Hth in Hp. apply Hkeep. exact Hp. }
        (* u's own step *)
        unfold KfbDefs.step in Hst.
        destruct (th s u) as [|[v|]|b|b tl|b tl hd0 ri i|b tl j0 otag|b tl hd0|b tl j0 otag|b tl hd0|b tl hd0 i|b tl hd0|b tl hd0|b tl
                            |b tl j0 tg0|b tl j0 tg0|b tl j0 tg0 hc|b tl j0 tg0 hc tc|b tl j0 tg0 hc|b j0 tg0
                            | |hd0|hd0 tl ri i|hd0 tl j0 p0 tg0|hd0 tl|hd0 tl j0 p0 tg0|hd0 j0 p0 tg0|hd0 tl|hd0] eqn:E;
          try discriminate; brk Hst; inversion Hst; subst; clear Hst; sim; rewrite upd_same in Hp;
          destruct Hp as [[tl' Hp]|Hp]; try discriminate.
        * (* D3 -> DT *) inversion Hp; subst. eexists. split; [exact Hic'|]. split; [apply rf_refl|]. sim. split; [reflexivity|auto].
        * (* D3 -> D4 *) inversion Hp; subst. eexists. split; [exact Hic'|]. split; [apply rf_refl|]. sim. split; [reflexivity|auto].
        * (* DT -> D4, CAS succeeded *) inversion Hp; subst.
          destruct (Hkeep ltac:(left; eexists; reflexivity)) as (s1 & A & B & C & D). exists s1. sim. auto.
        * (* DT -> D4, CAS failed *) inversion Hp; subst.
          destruct (Hkeep ltac:(left; eexists; reflexivity)) as (s1 & A & B & C & D). exists s1. sim. auto.
  Qed.

  (** The value a pop takes: at an instant inside the call ([s1], the re-check of head) head had the
      value the pop had read, the slot lay in the segment head pointed to, and it held the value the
      pop takes -- with the same tag, i.e. it stayed there until the pop's CAS. *)
  Theorem kfb_pop_from_head_segment u s0 s hd j q tg :
    reach init step s0 -> in_call u OPop s0 s -> th s u = D4 hd j q tg -> slot s j = (q, tg) ->
    exists s1, in_call u OPop s0 s1 /\ reach_from step s1 s /\
      head s1 = hd /\ slot s1 j = (q, tg) /\ q <> 0 /\ j < qsize /\ sg j = hs s1.
  Proof.
    intros Hr0 Hic Hpc Hsl.
    destruct (pop_witness u s0 s Hr0 Hic hd j q tg ltac:(right; exact Hpc)) as (s1 & A & B & C & D).
    exists s1. split; [exact A|]. split; [exact B|]. split; [exact C|]. split; [apply D; exact Hsl|].
    assert (Hrs : reach init step s) by (eapply in_call_reach; eauto).
    destruct (Inv_reach k segs Hk Hs s Hrs) as ((_ & _ & _ & Hall) & _).
    pose proof (Hall u) as H1. rewrite Hpc in H1. cbn [KfbWf.T1] in H1. destruct H1 as (_ & [X Y] & Z).
    split; [exact Z|]. split; [exact X|]. unfold KfbRing.hs, KfbRing.sgw. rewrite C. exact Y.
  Qed.

  (** head leaves a segment only when no committed value is stored in it *)
  Lemma hs_step s a s' es : Inv s -> step s a = Some (s', es) -> hs s' = hs s \/ segfree k segs s (hs s).
  Proof.
    intros (_ & _ & H3 & _) Hst. unfold KfbDefs.step in Hst. destruct a as [t o|t r].
    - destruct (th s t); try discriminate. inversion Hst; subst. left. reflexivity.
    - pose proof (H3 t) as Hme3.
      destruct (th s t) as [|[v|]|b|b tl|b tl hd0 ri i|b tl j0 otag|b tl hd0|b tl j0 otag|b tl hd0|b tl hd0 i|b tl hd0|b tl hd0|b tl
                            |b tl j0 tg0|b tl j0 tg0|b tl j0 tg0 hc|b tl j0 tg0 hc tc|b tl j0 tg0 hc|b j0 tg0
                            | |hd0|hd0 tl ri i|hd0 tl j0 p0 tg0|hd0 tl|hd0 tl j0 p0 tg0|hd0 j0 p0 tg0|hd0 tl|hd0] eqn:E;
        try discriminate; cbn [KfbRing.T3] in Hme3; brk Hst; inversion Hst; subst; clear Hst; try (left; reflexivity).
      + right. apply (Hme3 eq_refl).
      + right. apply (Hme3 eq_refl).
  Qed.

  (** If the value was already committed at that instant, it is still in the head segment when the
      pop takes it: head cannot leave a segment that stores a committed value.  So a pop never takes
      a committed value from a segment behind or ahead of the current head segment; every other
      committed value is stored in the head segment (at most k - 1 of them) or in a later one. *)
  Theorem kfb_pop_committed_in_current_head s1 s j q tg :
    reach init step s1 -> reach_from step s1 s -> slot s1 j = (q, tg) -> slot s j = (q, tg) ->
    In q (g_in s1) -> j < qsize -> sg j = hs s1 -> hs s = hs s1 /\ In q (g_in s).
  Proof.
    intros Hr1 Hrf H1 H2 Hin Hj Hsg. revert H2.
    induction Hrf as [|x a y es Hf IH Hst]; intros H2; [split; [reflexivity|exact Hin]|].
    assert (Hrx : reach init step x) by (eapply reach_from_reach; eauto).
    pose proof (reach_from_mono k segs s1 x Hf) as (_ & _ & M1 & _).
    pose proof (step_mono k segs x a y es Hst) as (_ & _ & M2 & G & _).
    assert (Hx : slot x j = (q, tg)).
    { rewrite <- H1. apply (sw_mono_squeeze k segs (slot s1 j) (slot x j) (slot y j)); [apply M1|apply M2|congruence]. }
    destruct (IH Hx) as [Eh Hq]. split; [|apply G; exact Hq].
    destruct (hs_step x a y es (Inv_reach k segs Hk Hs x Hrx) Hst) as [Q|Q]; [congruence|].
    exfalso. apply (Q j Hj); [congruence|]. rewrite Hx. exact Hq.
  Qed.

  (** the slots of a segment: k consecutive indices *)
  Lemma seg_bounds x j : wfi k segs x -> j < qsize -> sg j = sg x -> x <= j < x + k.
  Proof.
    intros [E _] Hj Hsg. unfold KfbArith.sg in *. pose proof (N.div_mod j k ltac:(lia)) as D.
    pose proof (N.mod_lt j k ltac:(lia)). rewrite Hsg, N.mul_comm in D. remember (x / k * k) as m0. remember (j mod k) as r0. clear - E D H. lia.
  Qed.

  (** k-relaxation, segment form.  When a pop takes a value that was already committed at the instant
      [s1] of its head re-check (by [kfb_pop_from_head_segment]: head s1 = hd, slot j in that segment),
      then at the instant [s] of the pop's CAS: the slot is one of the k slots of the CURRENT head
      segment, and every other committed value still in the queue is stored in another slot of the
      head segment (at most k-1 of them) or in a segment strictly between head and tail (incl. tail).
      FULL STATEMENT (C06): every pop returns one of the k oldest values of a linearization of the
      history (k-FIFO linearizability).  MISSING: the construction of the linearization order
      (push linearized at its final read of tail); note that the COMMIT order [g_in] is not that
      order -- a delayed push may commit into an older segment after newer segments were filled --
      and that a pop may take a value whose push is still inside [committed] from a segment head
      has already left (both are legal because the push overlaps everything in between). *)
  Theorem kfb_pop_k_relaxed_partial s1 s j q tg :
    reach init step s1 -> reach_from step s1 s -> slot s1 j = (q, tg) -> slot s j = (q, tg) ->
    In q (g_in s1) -> j < qsize -> sg j = hs s1 ->
    (fst (head s) <= j < fst (head s) + k) /\
    forall b, In b (g_in s) -> ~ In b (g_out s) -> b <> q ->
      exists j', j' <> j /\ j' < qsize /\ fst (slot s j') = b /\
        ((fst (head s) <= j' < fst (head s) + k) \/ (1 <= dist (hs s) (sg j') /\ dist (hs s) (sg j') <= dist (hs s) (ts s))).
  Proof.
    intros Hr1 Hrf H1 H2 Hin Hj Hsg.
    destruct (kfb_pop_committed_in_current_head s1 s j q tg Hr1 Hrf H1 H2 Hin Hj Hsg) as [Ehs Hq].
    assert (Hrs : reach init step s) by (eapply reach_from_reach; eauto).
    destruct (Inv_reach k segs Hk Hs s Hrs) as ((Hh & _) & _).
    split; [apply seg_bounds; [exact Hh|exact Hj|]; unfold KfbRing.hs, KfbRing.sgw in *; congruence|].
    intros b Hb Hob Hne.
    destruct (kfb_never_stranded k segs Hk Hs s b Hrs Hb Hob) as (j' & Hj' & Hsj' & Hreg & _).
    exists j'. split; [intros ->; rewrite H2 in Hsj'; cbn in Hsj'; congruence|]. split; [exact Hj'|]. split; [exact Hsj'|].
    unfold KfbRegion.inreg in Hreg.
    destruct (N.eq_dec (dist (hs s) (sg j')) 0) as [Z|Z]; [left|right; lia].
    apply seg_bounds; [exact Hh|exact Hj'|]. symmetry.
    apply (dist_0 k segs Hk Hs); [apply Hh|apply (sg_lt k segs Hk Hs); exact Hj'|exact Z].
  Qed.

  (** * The 'empty' verdict *)

  Lemma ret_events u res e t res' : In (ERet u res) (e ++ [ERet t res']) -> (forall r, ~ In (ERet u r) e) -> u = t /\ res = res'.
  Proof. rewrite in_app_iff. cbn. intros [H|[H|[]]] Hn; [exfalso; eapply Hn; eauto|inversion H; auto]. Qed.

  (** the step that returns 'empty' is the final comparison of tail in [DE] *)
  Lemma empty_step u s a s' es : step s a = Some (s', es) -> In (ERet u [2]) es ->
    exists r hd tl, a = Step u r /\ th s u = DE hd tl /\ tail s = tl.
  Proof.
    intros Hst Hin. unfold KfbDefs.step in Hst. destruct a as [t o|t r].
    - destruct (th s t); try discriminate. inversion Hst; subst. destruct Hin.
    - destruct (th s t) as [|[v|]|b|b tl|b tl hd0 ri i|b tl j0 otag|b tl hd0|b tl j0 otag|b tl hd0|b tl hd0 i|b tl hd0|b tl hd0|b tl
                            |b tl j0 tg0|b tl j0 tg0|b tl j0 tg0 hc|b tl j0 tg0 hc tc|b tl j0 tg0 hc|b j0 tg0
                            | |hd0|hd0 tl ri i|hd0 tl j0 p0 tg0|hd0 tl|hd0 tl j0 p0 tg0|hd0 j0 p0 tg0|hd0 tl|hd0] eqn:E;
        try discriminate; brk Hst; inversion Hst; subst; clear Hst; cbn in Hin;
        repeat match goal with H : _ \/ _ |- _ => destruct H end; try contradiction; try discriminate.
      match goal with H : ERet _ _ = ERet _ _ |- _ => inversion H; subst end. eexists _, _, _; split; [reflexivity|split; [exact E|reflexivity]].
  Qed.

  Definition empty_at (st : state) : Prop := forall b, In b (g_in st) -> In b (g_out st).

  Lemma empty_witness u s0 s : reach init step s0 -> in_call u OPop s0 s ->
    forall hd tl, th s u = DE hd tl ->
    exists s1, in_call u OPop s0 s1 /\ reach_from step s1 s /\ head s1 = hd /\ fst hd = fst tl /\
               (tail s = tl -> tail s1 = tl /\ empty_at s1).
  Proof.
    intros Hr0 Hic. induction Hic as [s1 es r Hb Hst | s a s' es Hic IH Hni Hst]; intros hd tl Hp.
    - exfalso. unfold KfbDefs.step in Hst. rewrite Hb in Hst. inversion Hst; subst. sim. rewrite upd_same in Hp. discriminate.
    - assert (Hrs : reach init step s) by (eapply in_call_reach; eauto).
      assert (Hic' : in_call u OPop s0 s') by (eapply ic_next; eauto).
      assert (Hrs' : reach init step s') by exact (in_call_reach u OPop s0 s' Hr0 Hic').
      pose proof (step_mono k segs s a s' es Hst) as (_ & Mt & _).
      destruct (Inv_reach k segs Hk Hs s Hrs) as ((_ & _ & _ & Hall) & _).
      assert (Hkeep : th s u = DE hd tl ->
                exists s1, in_call u OPop s0 s1 /\ reach_from step s1 s' /\ head s1 = hd /\ fst hd = fst tl /\
                           (tail s' = tl -> tail s1 = tl /\ empty_at s1)).
      { intros Hp0. destruct (IH hd tl Hp0) as (s1 & A & B & C & D & F). exists s1.
        split; [exact A|]. split; [eapply rf_step; eauto|]. split; [exact C|]. split; [exact D|]. intros E'. apply F.
        pose proof (Hall u) as H1. rewrite Hp0 in H1. cbn [KfbWf.T1] in H1. destruct H1 as (_ & _ & Q).
        apply (iw_mono_squeeze k segs tl (tail s) (tail s')); assumption. }
      destruct a as [t o|t r].
      + assert (Hth : th s' u = th s u).
        { apply (step_th_other u s _ s' es Hst); [|intros; discriminate].
          intros o' Q. inversion Q; subst. unfold KfbDefs.step in Hst. destruct (th s u); try discriminate. contradiction. }
        rewrite Hth in Hp. apply Hkeep. exact Hp.
      + destruct (Nat.eq_dec t u) as [->|Hne].
        2:{ assert (Hth : th s' u = th s u) by (apply (step_th_other u s _ s' es Hst); [intros; discriminate|intros r' Q; inversion Q; congruence]).
            rewrite Hth in Hp. apply Hkeep. exact Hp. }
        destruct (Inv_reach k segs Hk Hs s' Hrs') as ((Hh' & Ht' & Hsl' & _) & I2' & H3' & I4').
        pose proof (H3' u) as T3'. rewrite Hp in T3'. cbn [KfbRing.T3] in T3'.
        unfold KfbDefs.step in Hst.
        destruct (th s u) as [|[v|]|b|b tl0 |b tl0 hd0 ri i|b tl0 j0 otag|b tl0 hd0|b tl0 j0 otag|b tl0 hd0|b tl0 hd0 i|b tl0 hd0|b tl0 hd0|b tl0
                            |b tl0 j0 tg0|b tl0 j0 tg0|b tl0 j0 tg0 hc|b tl0 j0 tg0 hc tc|b tl0 j0 tg0 hc|b j0 tg0
                            | |hd0|hd0 tl0 ri i|hd0 tl0 j0 p0 tg0|hd0 tl0|hd0 tl0 j0 p0 tg0|hd0 j0 p0 tg0|hd0 tl0|hd0] eqn:E;
          try discriminate; brk Hst; inversion Hst; subst; clear Hst; sim; rewrite upd_same in Hp; try discriminate.
        (* D3n -> DE: the witness is the state right after this step *)
        inversion Hp; subst. eexists. split; [exact Hic'|]. split; [apply rf_refl|]. sim. split; [reflexivity|]. split; [assumption|].
        intros Et. split; [exact Et|]. intros b Hb.
        destruct (in_dec N.eq_dec b (g_out s)) as [Ho|Ho]; [exact Ho|exfalso].
        destruct T3' as [Esg T3']. destruct (T3' eq_refl) as [_ Hfree].
        destruct (kfb_never_stranded k segs Hk Hs _ b Hrs' Hb Ho) as (j & Hj & Hsj & Hreg & _).
        unfold KfbRegion.inreg, KfbRing.hs, KfbRing.ts, KfbRing.sgw in Hreg. sim. rewrite Et in Hreg.
        unfold KfbRing.sgw in Esg. rewrite <- Esg, (dist_refl k segs Hk Hs) in Hreg.
        assert (Hz : sg j = sg (fst (head s))).
        { symmetry. apply (dist_0 k segs Hk Hs); [apply Hh'|apply (sg_lt k segs Hk Hs); exact Hj|lia]. }
        apply (Hfree j Hj Hz). unfold nocommit. sim. rewrite Hsj. exact Hb.
  Qed.

  (** A pop answers 'empty' only if at an instant inside the call (the re-check of head after the
      scan) head and tail pointed to the same segment and NO committed value was in the queue. *)
  Theorem kfb_empty_verdict u s0 s a s' es :
    reach init step s0 -> in_call u OPop s0 s -> step s a = Some (s', es) -> In (ERet u [2]) es ->
    exists s1, in_call u OPop s0 s1 /\ reach_from step s1 s' /\
      fst (head s1) = fst (tail s1) /\ empty_at s1.
  Proof.
    intros Hr0 Hic Hst Hret. destruct (empty_step u s a s' es Hst Hret) as (r & hd & tl & -> & Hpc & Ht).
    destruct (empty_witness u s0 s Hr0 Hic hd tl Hpc) as (s1 & A & B & C & D & F).
    destruct (F Ht) as [F1 F2]. exists s1. split; [exact A|]. split; [eapply rf_step; eauto|]. split; [congruence|exact F2].
  Qed.
End Call.
