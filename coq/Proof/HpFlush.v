(** No leak at quiescence for the hazard pointer model (Model/HpDefs.v): when no guard owns a hazard pointer and the
    other threads are between operations, the scan a thread runs after retiring a node (or at its exit) frees every
    node of its retire list and every abandoned node, within a bounded number of its own steps. *)
From Coq Require Import NArith List Bool Arith Lia PeanoNat.
From XV Require Import Conc.Lts Conc.Ev Model.HpDefs Proof.HpBase Proof.HpGuards Proof.HpNodes Proof.HpInv.
Import ListNotations.

(** * A hazard pointer slot holds an object only if a guard of the owner of the block owns the slot *)
Definition InvS (st : state) : Prop :=
  forall b i n, hz st b i = VObj (Some n) -> exists u g, rcd (tl st u) = Some b /\ hp (gd (tl st u) g) = Some i.

Lemma InvS_upd st st' :
  (forall b i n, hz st' b i = VObj (Some n) ->
     hz st b i = VObj (Some n) \/ exists u g, rcd (tl st' u) = Some b /\ hp (gd (tl st' u) g) = Some i) ->
  (forall u g b i, rcd (tl st u) = Some b -> hp (gd (tl st u) g) = Some i ->
     (rcd (tl st' u) = Some b /\ hp (gd (tl st' u) g) = Some i) \/ (forall n, hz st' b i <> VObj (Some n))) ->
  InvS st -> InvS st'.
Proof.
  intros H1 H2 HS b i n Hz. destruct (H1 b i n Hz) as [Ho|Hw]; [|exact Hw].
  destruct (HS b i n Ho) as (u & g & Hb & Hi). destruct (H2 u g b i Hb Hi) as [[Hb' Hi']|Hc].
  - exists u, g. split; assumption.
  - exfalso. apply (Hc n). exact Hz.
Qed.

Section S.
Variable nslots : nat.

Ltac sim := unfold reset_guard, set_gd; prj; upds; prj.
Ltac simh H := unfold reset_guard, set_gd in H; prjh H; upds_in H; prjh H.

Lemma InvS_step st a st' es : InvO st -> InvG nslots st -> InvS st -> step nslots st a = Some (st', es) -> InvS st'.
Proof.
  intros HO HG HS Hs. destruct a as [t o|t]; cbn [step] in Hs.
  - destruct (th st t) eqn:Hth; try discriminate Hs. destruct (legal nslots o); [|discriminate Hs].
    injection Hs as <- <-. apply (InvS_upd st); [intros b i n H; left; exact H|intros u g b i Hb Hi; left; split; assumption|exact HS].
  - pose proof (HG t) as HGt. pose proof (g_pc nslots st t HGt) as Hpc.
    destruct (th st t) eqn:Hth; try discriminate Hs.
    all: leaves Hs.
    all: cbn [pcG ctx_ok guard_of] in Hpc.
    all: unfold g0 in *.
    all: try (dg; (apply (InvS_upd st);
      [ intros bb ii nn H; simh H; left; exact H
      | intros uu gg bb ii Hb Hi; left; sim; destruct (Nat.eq_dec uu t) as [->|?]; upds; prj; split; assumption
      | exact HS]); fail).
    all: dg; (apply (InvS_upd st); [| |exact HS]).
    (* the slots that hold an object afterwards *)
    all: try (match goal with |- forall b i n, hz _ b i = VObj (Some n) -> _ =>
      let bb := fresh "bb" in let ii := fresh "ii" in let nn := fresh "nn" in let H := fresh "H" in
      intros bb ii nn H; simh H;
      first [ (left; exact H)
            | (unfold upd2 in H; match type of H with context [if ?c then _ else _] => destruct c eqn:Eq end;
               [ first [ discriminate H | idtac ] | left; exact H ]) ] end).
    (* the slots that were owned by a guard before *)
    all: try (match goal with |- forall u g b i, rcd _ = Some b -> _ =>
      let uu := fresh "uu" in let gg := fresh "gg" in let bb := fresh "bb" in let ii := fresh "ii" in
      let Hb := fresh "Hb" in let Hi := fresh "Hi" in
      intros uu gg bb ii Hb Hi; destruct (Nat.eq_dec uu t) as [->|?]; [|left; sim; split; assumption]; sim;
      first [ (left; split; assumption)
            | (exfalso; first [rewrite Hpc in Hi | (destruct Hpc as [? Hn]; rewrite Hn in Hi)]; discriminate Hi)
            | (match goal with |- context [upd _ ?g _ gg] => destruct (Nat.eq_dec gg g) as [->|?]; upds; prj;
                 [ first [ (left; split; assumption) | (exfalso; congruence)
                         | (right; assert (bb = n) by congruence; assert (ii = n0) by congruence; subst;
                            intros nn; rewrite upd2_same_block, Nat.eqb_refl; discriminate) ]
                 | left; split; assumption ] end) ] end).
    + (* H1 *) destruct Hpc as [_ Hn]. intros uu gg bb ii Hb Hi. destruct (Nat.eq_dec uu t) as [->|?]; [|left; sim; split; assumption]; sim.
      destruct (Nat.eq_dec gg (guard_of nslots k)) as [->|?]; upds; prj; [congruence|left; split; assumption].
    + (* Q2: the store *) apply andb_true_iff in Eq. destruct Eq as [Eq1 Eq2]. apply Nat.eqb_eq in Eq1, Eq2. subst.
      right. exists t, (guard_of nslots k). sim. split; [assumption|upds; reflexivity].
    + intros uu gg bb ii Hb Hi. destruct (Nat.eq_dec uu t) as [->|?]; [|left; sim; split; assumption]; sim.
      destruct (Nat.eq_dec gg (guard_of nslots k)) as [->|?]; upds; prj; left; split; try assumption; congruence.
Qed.

Lemma InvS_init ncells : InvS (init ncells).
Proof. intros b i n H. cbn in H. discriminate. Qed.

(** * Solo runs of thread t *)
Inductive srun (t : nat) : nat -> state -> state -> Prop :=
| srun_0 st : srun t 0 st st
| srun_S k st st1 es st' : step nslots st (Step t) = Some (st1, es) -> srun t k st1 st' -> srun t (S k) st st'.

Lemma srun_app t k1 k2 st st1 st2 : srun t k1 st st1 -> srun t k2 st1 st2 -> srun t (k1 + k2) st st2.
Proof. intros H1 H2. induction H1; [exact H2|]. cbn [Nat.add]. eapply srun_S; eauto. Qed.

Lemma srun_1 t st st1 es : step nslots st (Step t) = Some (st1, es) -> srun t 1 st st1.
Proof. intros H. eapply srun_S; [exact H|apply srun_0]. Qed.

(** what the walk of a scan leaves unchanged *)
Record keep (t : nat) (st st' : state) : Prop := mkKeep {
  k_blist : blist st' = blist st; k_est : forall b, est st' b = est st b; k_hz : forall b i, hz st' b i = hz st b i;
  k_aband : aband st' = aband st; k_tl : forall u, tl st' u = tl st u;
  k_where : forall n, g_where st' n = g_where st n; k_nfree : forall n, g_nfree st' n = g_nfree st n;
  k_th : forall u, u <> t -> th st' u = th st u }.

Lemma keep_refl t st : keep t st st.
Proof. constructor; intros; reflexivity. Qed.

Lemma keep_trans t a b c : keep t a b -> keep t b c -> keep t a c.
Proof.
  intros [A1 A2 A3 A4 A5 A6 A7 A8] [B1 B2 B3 B4 B5 B6 B7 B8]. constructor.
  - congruence.
  - intros x. rewrite B2. apply A2.
  - intros x y. rewrite B3. apply A3.
  - congruence.
  - intros x. rewrite B5. apply A5.
  - intros x. rewrite B6. apply A6.
  - intros x. rewrite B7. apply A7.
  - intros x Hx. rewrite B8 by assumption. apply A8. assumption.
Qed.

Ltac kp := constructor; intros; sim; reflexivity.

Definition noprot (s : scan) : Prop := forall x, In x (s_prot s) -> x = None.

Definition next_pc (s : scan) (rest : list nat) : pc := match rest with [] => S7 s | r :: l => S5 s r l end.

Lemma walk_step5 st t s r rest :
  th st t = S5 s r rest ->
  exists st1 es, step nslots st (Step t) = Some (st1, es) /\ keep t st st1 /\
                 th st1 t = if est st r =? 2 then S6 s r rest 0 else next_pc s rest.
Proof.
  intros Hth. cbn [step]. rewrite Hth. destruct (est st r =? 2).
  - eexists _, _. split; [reflexivity|]. split; [kp|sim; reflexivity].
  - unfold scan_next, next_pc. destruct rest; (eexists _, _; split; [reflexivity|]; split; [kp|sim; reflexivity]).
Qed.

Lemma walk_step6 st t s r rest i :
  th st t = S6 s r rest i -> (forall n, hz st r i <> VObj (Some n)) -> noprot s ->
  exists st1 es s1, step nslots st (Step t) = Some (st1, es) /\ keep t st st1 /\
    s_k s1 = s_k s /\ s_ad s1 = s_ad s /\ noprot s1 /\
    th st1 t = if i <? 2 then S6 s1 r rest (S i) else next_pc s1 rest.
Proof.
  intros Hth Hz Hn. cbn [step]. rewrite Hth.
  assert (Hn' : forall x, noprot (mkScan (s_k s) (s_cap s) (s_vec s) (s_prot s ++ [None]) x)).
  { intros x y Hy. cbn [s_prot] in Hy. apply in_app_iff in Hy. destruct Hy as [Hy|[<-|[]]]; [apply Hn; exact Hy|reflexivity]. }
  destruct (hz st r i) as [nx|[n|]] eqn:Ez.
  - (* a link *) destruct (i <? 2).
    + eexists _, _, s. split; [reflexivity|]. split; [kp|]. repeat split; try assumption. sim. reflexivity.
    + unfold scan_next, next_pc. destruct rest; (eexists _, _, s; split; [reflexivity|]; split; [kp|]; repeat split; try assumption; sim; reflexivity).
  - exfalso. apply (Hz n). reflexivity.
  - (* a zero slot: nullptr is gathered *) unfold push. destruct (length (s_prot s) <? s_cap s).
    + destruct (i <? 2).
      * eexists _, _, _. split; [reflexivity|]. split; [kp|]. split; [|split; [|split; [apply (Hn' (s_ad s))|sim; reflexivity]]]; reflexivity.
      * unfold scan_next, next_pc. destruct rest; (eexists _, _, _; split; [reflexivity|]; split; [kp|];
          split; [|split; [|split; [apply (Hn' (s_ad s))|sim; reflexivity]]]; reflexivity).
    + assert (Hn2 : forall c v, noprot (mkScan (s_k s) c v (s_prot s ++ [None]) (s_ad s))).
      { intros c v y Hy. cbn [s_prot] in Hy. apply in_app_iff in Hy. destruct Hy as [Hy|[<-|[]]]; [apply Hn; exact Hy|reflexivity]. }
      destruct (i <? 2).
      * eexists _, _, _. split; [reflexivity|]. split; [kp|]. split; [|split; [|split; [apply Hn2|sim; reflexivity]]]; reflexivity.
      * unfold scan_next, next_pc. destruct rest; (eexists _, _, _; split; [reflexivity|]; split; [kp|];
          split; [|split; [|split; [apply Hn2|sim; reflexivity]]]; reflexivity).
Qed.

Definition clean (st : state) : Prop := forall b i n, hz st b i <> VObj (Some n).

Lemma clean_keep t st st' : keep t st st' -> clean st -> clean st'.
Proof. intros HK HC b i n. rewrite (k_hz t st st' HK). apply HC. Qed.

(** three slots of one control block *)
Lemma walk_block st t s r rest :
  th st t = S6 s r rest 0 -> clean st -> noprot s ->
  exists st' s', srun t 3 st st' /\ keep t st st' /\ s_k s' = s_k s /\ s_ad s' = s_ad s /\ noprot s' /\ th st' t = next_pc s' rest.
Proof.
  intros Hth HC Hn.
  destruct (walk_step6 st t s r rest 0 Hth (HC r 0) Hn) as (st1 & e1 & s1 & H1 & K1 & A1 & B1 & N1 & T1). cbn in T1.
  destruct (walk_step6 st1 t s1 r rest 1 T1 (clean_keep t st st1 K1 HC r 1) N1) as (st2 & e2 & s2 & H2 & K2 & A2 & B2 & N2 & T2). cbn in T2.
  pose proof (keep_trans t _ _ _ K1 K2) as K12.
  destruct (walk_step6 st2 t s2 r rest 2 T2 (clean_keep t st st2 K12 HC r 2) N2) as (st3 & e3 & s3 & H3 & K3 & A3 & B3 & N3 & T3). cbn in T3.
  exists st3, s3. split; [eapply srun_S; [exact H1|]; eapply srun_S; [exact H2|]; eapply srun_1; exact H3|].
  split; [apply (keep_trans t _ _ _ K12 K3)|]. repeat split; try congruence; assumption.
Qed.

(** the walk over the remaining control blocks *)
Lemma walk_all rest : forall st t s r,
  th st t = S5 s r rest -> clean st -> noprot s ->
  exists k st' s', k <= 4 * S (length rest) /\ srun t k st st' /\ keep t st st' /\
                   s_k s' = s_k s /\ s_ad s' = s_ad s /\ noprot s' /\ th st' t = S7 s'.
Proof.
  induction rest as [|r' rest IH]; intros st t s r Hth HC Hn.
  - destruct (walk_step5 st t s r [] Hth) as (st1 & e1 & H1 & K1 & T1). destruct (est st r =? 2).
    + destruct (walk_block st1 t s r [] T1 (clean_keep t st st1 K1 HC) Hn) as (st2 & s2 & R2 & K2 & A2 & B2 & N2 & T2).
      exists 4, st2, s2. split; [cbn; lia|]. split; [eapply srun_S; [exact H1|exact R2]|].
      split; [apply (keep_trans t _ _ _ K1 K2)|]. repeat split; assumption.
    + exists 1, st1, s. split; [cbn; lia|]. split; [eapply srun_1; exact H1|]. split; [exact K1|]. repeat split; assumption.
  - destruct (walk_step5 st t s r (r' :: rest) Hth) as (st1 & e1 & H1 & K1 & T1). destruct (est st r =? 2).
    + destruct (walk_block st1 t s r (r' :: rest) T1 (clean_keep t st st1 K1 HC) Hn) as (st2 & s2 & R2 & K2 & A2 & B2 & N2 & T2).
      cbn [next_pc] in T2. pose proof (keep_trans t _ _ _ K1 K2) as K12.
      destruct (IH st2 t s2 r' T2 (clean_keep t st st2 K12 HC) N2) as (k & st3 & s3 & Hk & R3 & K3 & A3 & B3 & N3 & T3).
      exists (4 + k), st3, s3. split; [cbn [length]; lia|].
      split; [change (4 + k) with (1 + (3 + k)); eapply srun_S; [exact H1|]; apply (srun_app t 3 k _ _ _ R2 R3)|].
      split; [apply (keep_trans t _ _ _ K12 K3)|]. repeat split; try congruence; assumption.
    + cbn [next_pc] in T1.
      destruct (IH st1 t s r' T1 (clean_keep t st st1 K1 HC) Hn) as (k & st3 & s3 & Hk & R3 & K3 & A3 & B3 & N3 & T3).
      exists (1 + k), st3, s3. split; [cbn [length]; lia|]. split; [eapply srun_S; [exact H1|exact R3]|].
      split; [apply (keep_trans t _ _ _ K1 K3)|]. repeat split; assumption.
Qed.

(** what the first steps of a scan (reserve, fence, adopt) leave unchanged *)
Record keep0 (t : nat) (st st' : state) : Prop := mkKeep0 {
  k0_blist : blist st' = blist st; k0_est : forall b, est st' b = est st b; k0_hz : forall b i, hz st' b i = hz st b i;
  k0_tl : forall u, tl st' u = tl st u; k0_nfree : forall n, g_nfree st' n = g_nfree st n;
  k0_th : forall u, u <> t -> th st' u = th st u }.

Ltac kp0 := constructor; intros; sim; reflexivity.

Lemma keep0_trans t a b c : keep0 t a b -> keep0 t b c -> keep0 t a c.
Proof.
  intros [A1 A2 A3 A5 A7 A8] [B1 B2 B3 B5 B7 B8]. constructor.
  - congruence.
  - intros x. rewrite B2. apply A2.
  - intros x y. rewrite B3. apply A3.
  - intros x. rewrite B5. apply A5.
  - intros x. rewrite B7. apply A7.
  - intros x Hx. rewrite B8 by assumption. apply A8. assumption.
Qed.

Lemma scan_start st t k0 :
  th st t = S0 k0 ->
  exists k st1 s1, k <= 4 /\ srun t k st st1 /\ keep0 t st st1 /\ th st1 t = S4 s1 /\
    s_k s1 = k0 /\ s_prot s1 = [] /\ s_ad s1 = aband st /\ aband st1 = [] /\
    (forall n, g_where st1 n = if mem n (aband st) then PFlight t else g_where st n).
Proof.
  intros Hth.
  (* S0: reserve *)
  assert (H0 : exists st1 es s1, step nslots st (Step t) = Some (st1, es) /\ keep0 t st st1 /\ th st1 t = S1 s1 /\
             s_k s1 = k0 /\ s_prot s1 = [] /\ s_ad s1 = [] /\ aband st1 = aband st /\ (forall n, g_where st1 n = g_where st n)).
  { cbn [step]. rewrite Hth. destruct (nact st =? 0).
    - eexists _, _, _. split; [reflexivity|]. split; [kp0|]. split; [sim; reflexivity|]. repeat split.
    - eexists _, _, _. split; [reflexivity|]. split; [kp0|]. split; [sim; reflexivity|]. repeat split. }
  destruct H0 as (st1 & e1 & s1 & H1 & K1 & T1 & A1 & B1 & C1 & D1 & E1).
  (* S1: fence *)
  assert (H2 : exists st2 es, step nslots st1 (Step t) = Some (st2, es) /\ keep0 t st1 st2 /\ th st2 t = S2 s1 /\
             aband st2 = aband st1 /\ (forall n, g_where st2 n = g_where st1 n)).
  { cbn [step]. rewrite T1. eexists _, _. split; [reflexivity|]. split; [kp0|]. split; [sim; reflexivity|]. split; reflexivity. }
  destruct H2 as (st2 & e2 & H2 & K2 & T2 & D2 & E2).
  pose proof (keep0_trans t _ _ _ K1 K2) as K12.
  (* S2, S3: adopt *)
  destruct (aband st) as [|a l] eqn:Ea.
  - assert (H3 : exists st3 es, step nslots st2 (Step t) = Some (st3, es) /\ keep0 t st2 st3 /\ th st3 t = S4 s1 /\
               aband st3 = aband st2 /\ (forall n, g_where st3 n = g_where st2 n)).
    { assert (Hnil : aband st2 = []) by congruence.
      cbn [step]. rewrite T2. destruct (is_nil (aband st2)) eqn:En; rewrite Hnil in En; cbn [is_nil] in En; try discriminate En.
      eexists _, _. split; [reflexivity|]. split; [kp0|]. split; [sim; reflexivity|]. split; reflexivity. }
    destruct H3 as (st3 & e3 & H3 & K3 & T3 & D3 & E3).
    exists 3, st3, s1. split; [lia|]. split; [eapply srun_S; [exact H1|]; eapply srun_S; [exact H2|]; eapply srun_1; exact H3|].
    split; [apply (keep0_trans t _ _ _ K12 K3)|].
    split; [exact T3|]. split; [exact A1|]. split; [exact B1|]. split; [exact C1|]. split; [congruence|].
    intros n. cbn [mem existsb]. rewrite E3, E2, E1. reflexivity.
  - assert (H3 : exists st3 es, step nslots st2 (Step t) = Some (st3, es) /\ keep0 t st2 st3 /\ th st3 t = S3 s1 /\
               aband st3 = aband st2 /\ (forall n, g_where st3 n = g_where st2 n)).
    { assert (Hnil : aband st2 = a :: l) by congruence.
      cbn [step]. rewrite T2. destruct (is_nil (aband st2)) eqn:En; rewrite Hnil in En; cbn [is_nil] in En; try discriminate En.
      eexists _, _. split; [reflexivity|]. split; [kp0|]. split; [sim; reflexivity|]. split; reflexivity. }
    destruct H3 as (st3 & e3 & H3 & K3 & T3 & D3 & E3).
    assert (H4 : exists st4 es s4, step nslots st3 (Step t) = Some (st4, es) /\ keep0 t st3 st4 /\ th st4 t = S4 s4 /\
               s_k s4 = s_k s1 /\ s_prot s4 = s_prot s1 /\ s_ad s4 = aband st3 /\ aband st4 = [] /\
               (forall n, g_where st4 n = if mem n (aband st3) then PFlight t else g_where st3 n)).
    { cbn [step]. rewrite T3. eexists _, _, _. split; [reflexivity|]. split; [kp0|]. split; [sim; reflexivity|]. repeat split. }
    destruct H4 as (st4 & e4 & s4 & H4 & K4 & T4 & A4 & B4 & C4 & D4 & E4).
    exists 4, st4, s4. split; [lia|].
    split; [eapply srun_S; [exact H1|]; eapply srun_S; [exact H2|]; eapply srun_S; [exact H3|]; eapply srun_1; exact H4|].
    split; [apply (keep0_trans t _ _ _ (keep0_trans t _ _ _ K12 K3) K4)|].
    split; [exact T4|]. split; [congruence|]. split; [congruence|]. split; [congruence|]. split; [exact D4|].
    intros n. rewrite E4, D3, D2, D1, E3, E2, E1. reflexivity.
Qed.

Lemma noprot_is_prot s n : noprot s -> is_prot (s_prot s) n = false.
Proof.
  intros H. unfold is_prot. destruct (existsb _ (s_prot s)) eqn:E; [|reflexivity].
  apply existsb_exists in E. destruct E as (x & Hx & Hm). rewrite (H x Hx) in Hm. discriminate.
Qed.

Lemma filter_all {X} (f : X -> bool) l : (forall x, f x = true) -> filter f l = l.
Proof. intros H. induction l as [|a l IH]; [reflexivity|]. cbn [filter]. rewrite H, IH. reflexivity. Qed.
Lemma filter_none {X} (f : X -> bool) l : (forall x, f x = false) -> filter f l = [].
Proof. intros H. induction l as [|a l IH]; [reflexivity|]. cbn [filter]. rewrite H, IH. reflexivity. Qed.

(** the end of the scan when nothing is protected *)
Lemma scan_end st t s :
  th st t = S7 s -> noprot s ->
  exists st' es, step nslots st (Step t) = Some (st', es) /\
    rl (tl st' t) = [] /\ aband st' = aband st /\
    (forall n, In n (rl (tl st t) ++ s_ad s) -> g_where st' n = PFreed) /\
    (forall n, g_nfree st' n = g_nfree st n + count n (rl (tl st t) ++ s_ad s)) /\
    match s_k s with SRepl => th st' t = Idle | SExit => th st' t = X4 \/ th st' t = Done end.
Proof.
  intros Hth Hn. cbn [step]. rewrite Hth.
  rewrite (filter_all (fun n => negb (is_prot (s_prot s) n))) by (intros x; rewrite (noprot_is_prot s x Hn); reflexivity).
  rewrite !(filter_none (is_prot (s_prot s))) by (intros x; apply (noprot_is_prot s x Hn)).
  cbn [rev app]. destruct (s_k s).
  - unfold finish. eexists _, _. split; [reflexivity|]. sim. repeat split.
    intros m Hin. cbn [mem existsb]. apply mem_In in Hin. rewrite Hin. reflexivity.
  - cbn [is_nil]. unfold exit_rel. sim. destruct (rcd (tl st t)).
    + eexists _, _. split; [reflexivity|]. sim. repeat split; [|left; reflexivity].
      intros m Hin. cbn [mem existsb]. apply mem_In in Hin. rewrite Hin. reflexivity.
    + eexists _, _. split; [reflexivity|]. sim. repeat split; [|right; reflexivity].
      intros m Hin. cbn [mem existsb]. apply mem_In in Hin. rewrite Hin. reflexivity.
Qed.

Lemma scan_head st t s :
  th st t = S4 s ->
  exists st1 es, step nslots st (Step t) = Some (st1, es) /\ keep t st st1 /\ th st1 t = next_pc s (blist st).
Proof.
  intros Hth. cbn [step]. rewrite Hth. unfold scan_next, next_pc.
  destruct (blist st); (eexists _, _; split; [reflexivity|]; split; [kp|sim; reflexivity]).
Qed.

(** ** a scan that starts when no guard owns a hazard pointer frees the whole retire list and every abandoned node *)
Lemma scan_frees_all st t k0 :
  InvN st -> InvS st -> th st t = S0 k0 -> (forall u g, hp (gd (tl st u) g) = None) ->
  exists k st', k <= 6 + 4 * length (blist st) /\ srun t k st st' /\
    match k0 with SRepl => th st' t = Idle | SExit => th st' t = X4 \/ th st' t = Done end /\
    rl (tl st' t) = [] /\ aband st' = [] /\
    forall n, In n (rl (tl st t)) \/ In n (aband st) -> g_where st' n = PFreed /\ g_nfree st' n = 1.
Proof.
  intros HN HS Hth Hnone.
  assert (HC : clean st).
  { intros b i n Hz. destruct (HS b i n Hz) as (u & g & _ & Hi). rewrite Hnone in Hi. discriminate. }
  destruct (scan_start st t k0 Hth) as (k1 & st1 & s1 & Hk1 & R1 & K1 & T1 & A1 & B1 & C1 & D1 & E1).
  assert (HC1 : clean st1) by (intros b i n; rewrite (k0_hz t st st1 K1); apply HC).
  assert (N1 : noprot s1) by (intros x Hx; rewrite B1 in Hx; destruct Hx).
  destruct (scan_head st1 t s1 T1) as (st2 & e2 & H2 & K2 & T2).
  assert (H7 : exists k st7 s7, k <= 4 * length (blist st) /\ srun t k st2 st7 /\ keep t st2 st7 /\
                s_k s7 = s_k s1 /\ s_ad s7 = s_ad s1 /\ noprot s7 /\ th st7 t = S7 s7).
  { rewrite (k0_blist t st st1 K1) in T2. destruct (blist st) as [|r rest] eqn:Eb; cbn [next_pc] in T2.
    - exists 0, st2, s1. split; [lia|]. split; [apply srun_0|]. split; [apply keep_refl|].
      split; [reflexivity|]. split; [reflexivity|]. split; [exact N1|exact T2].
    - destruct (walk_all rest st2 t s1 r T2 (clean_keep t st1 st2 K2 HC1) N1) as (k & st7 & s7 & Hk & R7 & K7 & A7 & B7 & N7 & T7).
      exists k, st7, s7. split; [cbn [length] in *; lia|]. split; [exact R7|]. split; [exact K7|].
      split; [exact A7|]. split; [exact B7|]. split; [exact N7|exact T7]. }
  destruct H7 as (k7 & st7 & s7 & Hk7 & R7 & K7 & A7 & B7 & N7 & T7).
  pose proof (keep_trans t _ _ _ K2 K7) as K17.
  destruct (scan_end st7 t s7 T7 N7) as (st8 & e8 & H8 & Hrl & Hab & Hfr & Hnf & Hpc).
  exists (k1 + (1 + (k7 + 1))), st8. split; [lia|].
  split; [apply (srun_app t _ _ _ _ _ R1); eapply srun_S; [exact H2|]; apply (srun_app t _ _ _ _ _ R7); eapply srun_1; exact H8|].
  split; [rewrite A7, A1 in Hpc; exact Hpc|]. split; [exact Hrl|].
  split; [rewrite Hab, (k_aband t st1 st7 K17); exact D1|].
  assert (Hrl7 : rl (tl st7 t) = rl (tl st t)) by (rewrite (k_tl t st1 st7 K17), (k0_tl t st st1 K1); reflexivity).
  assert (Had7 : s_ad s7 = aband st) by congruence.
  rewrite Hrl7, Had7 in Hfr, Hnf.
  intros n Hn. assert (Hin : In n (rl (tl st t) ++ aband st)) by (apply in_app_iff; exact Hn).
  split; [apply Hfr; exact Hin|]. rewrite Hnf, (k_nfree t st1 st7 K17), (k0_nfree t st st1 K1).
  assert (Hnd : NoDup (rl (tl st t) ++ aband st)).
  { apply NoDup_app_iff. split; [apply (n_list_nd st HN)|]. split; [apply (n_aband_nd st HN)|].
    intros x Hx Hx'. apply (n_list st HN) in Hx. apply (n_aband st HN) in Hx'. congruence. }
  rewrite (count_nodup n _ Hnd Hin).
  assert (H0 : g_nfree st n = 0).
  { rewrite (n_free st HN). unfold gone.
    assert (Hw : g_where st n = PList t \/ g_where st n = PAband).
    { destruct Hn as [Hn|Hn]; [left; apply (n_list st HN); exact Hn|right; apply (n_aband st HN); exact Hn]. }
    assert (Hl : exists u, g_life st n = LRet u).
    { destruct (g_life st n) eqn:El; try (exfalso; assert (Hc : g_where st n = PNone) by (apply (n_none st HN); intros u Hu; rewrite El in Hu; discriminate Hu); destruct Hw; congruence).
      exists t0. reflexivity. }
    destruct Hl as [u Hl]. rewrite Hl. destruct Hw as [Hw|Hw]; rewrite Hw; reflexivity. }
  rewrite H0. reflexivity.
Qed.
End S.

(** * The theorem *)
Section Main.
Variables (ncells nslots : nat).

Theorem hp_slots st : reach (init ncells) (step nslots) st -> InvS st.
Proof.
  intros Hr. induction Hr as [|s a s' es Hr IH Hst]; [apply InvS_init|].
  destruct (hp_inv ncells nslots s Hr) as [HO HG _ _ _]. apply (InvS_step nslots s a s' es HO HG IH Hst).
Qed.

(** hp_no_leak_at_quiescence, full statement (not proved as one theorem):
      reach st -> (forall u, th st u = Idle \/ th st u = Done) -> (forall u g, hp (gd (tl st u) g) = None) ->
      th st t = Idle -> cells st c = Some o ->
      exists k st', k <= 32 + 6 * length (blist st) /\ (Start t (ORepl c), then k solo steps of t lead from st to st') /\
        th st' t = Idle /\ rl (tl st' t) = [] /\ aband st' = [] /\
        forall n, In n (rl (tl st t)) \/ In n (aband st) \/ n = o -> g_where st' n = PFreed /\ g_nfree st' n = 1.
    Proved: the scan of the flush.  From the program point where the scan starts (S0: right after
    guard.reclaim() has reset the guard, pushed the node onto the retire list and read the threshold (T1), or at
    thread exit), in any reachable state in which no guard owns a hazard pointer (the other threads may be anywhere:
    they do not move during the solo run), thread t alone reaches the end of its operation within
    6 + 4 * (number of control blocks) steps, and then its retire list and the abandoned list are empty and every
    node that was in them has been freed exactly once.
    Missing for the full statement: the prefix of the retiring operation (Begin, Q1, acquire_entry / initialize /
    alloc_hazard_pointer, Q2..Q4, R1, R2, T1: at most 13 + 2 * (number of control blocks) further steps; when thread
    t runs alone no CAS of it fails and the validating re-load succeeds).  Two things are needed for it that are
    not proved on this model: the symbolic execution of these steps, and the fact that alloc_hazard_pointer does not
    throw when no guard of the thread owns a hazard pointer (the free list then holds all K slots: the pool
    invariant of property C18, proved on the sequential slot pool model Proof/HpSlots.v).  The whole flush is
    exercised by the examples below (vm_compute). *)
Theorem hp_no_leak_at_quiescence_partial st t k0 :
  reach (init ncells) (step nslots) st ->
  th st t = S0 k0 -> (forall u g, hp (gd (tl st u) g) = None) ->
  exists k st', k <= 6 + 4 * length (blist st) /\ srun nslots t k st st' /\
    match k0 with SRepl => th st' t = Idle | SExit => th st' t = X4 \/ th st' t = Done end /\
    rl (tl st' t) = [] /\ aband st' = [] /\
    forall n, In n (rl (tl st t)) \/ In n (aband st) -> g_where st' n = PFreed /\ g_nfree st' n = 1.
Proof.
  intros Hr Hth Hn. destruct (hp_inv ncells nslots st Hr) as [_ _ HN _ _].
  apply (scan_frees_all nslots st t k0 HN (hp_slots st Hr) Hth Hn).
Qed.
End Main.

(** * Example: the whole flush in a quiescent state (continuing the examples of Proof/HpInv.v)
    thread 1 has dropped its guard, every thread is idle and no guard owns a hazard pointer; node 0 is in the retire
    list of thread 2.  Thread 2 runs [repl 0] alone: after 22 steps (Begin, Q1, H1, Q2, Q3, Q4, R1, R2, T1,
    then the 13 steps of the scan: S0 S1 S2 S4, S5 S6 S6 S6 for each of the two control blocks, S7; the bound of the
    theorem is 6 + 4 * 2) it is idle again, nodes 0 and 4 are freed. *)
Definition ex_q := ex_a2 ++ ops 1 (ODrop 0) 40.
Example ex_quiescent :
  let st := final ex_q in
  th st 1 = Idle /\ th st 2 = Idle /\ rl (tl st 2) = [0] /\ aband st = [] /\ blist st = [3; 2] /\
  hp (gd (tl st 1) 0) = None /\ hp (gd (tl st 1) 1) = None /\ hp (gd (tl st 1) 2) = None /\ hp (gd (tl st 2) 0) = None.
Proof. vm_compute. repeat split; reflexivity. Qed.

Example ex_flush_running : th (final (ex_q ++ Start 2 (ORepl 0) :: repeat (Step 2) 21)) 2 <> Idle.
Proof. vm_compute. discriminate. Qed.

Example ex_flush :
  let st := final (ex_q ++ Start 2 (ORepl 0) :: repeat (Step 2) 22) in
  th st 2 = Idle /\ rl (tl st 2) = [] /\ aband st = [] /\
  g_where st 0 = PFreed /\ g_nfree st 0 = 1 /\ g_where st 4 = PFreed /\ g_nfree st 4 = 1 /\ cells st 0 = Some 6.
Proof. vm_compute. repeat split; reflexivity. Qed.

(** the state in which the scan of this flush starts, and the instance of the theorem for it *)
Example ex_flush_scan_start :
  let st := final (ex_q ++ Start 2 (ORepl 0) :: repeat (Step 2) 9) in
  th st 2 = S0 SRepl /\ rl (tl st 2) = [4; 0] /\ length (blist st) = 2.
Proof. vm_compute. repeat split; reflexivity. Qed.
