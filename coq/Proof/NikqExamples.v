(** nikolaev_queue model: executable examples (run + vm_compute) and the witnesses of the [_refuted] statements.
    Both schedules were replayed by the real code (harness h_uq, reclaimer GC, cfg q=nik elem=int epn=1 retries=0) with
    traces identical to the model's, line by line.

    [thr_pre] (4 threads): three pops that found the head node empty are delayed between catchup and the threshold
    decrement; a push publishes 7 and does not reset the threshold (it still has its maximum); the three decrements take
    it below zero: the state is quiescent, 7 is stored, and every later pop answers 'empty' after one load.  The real
    code reports "value 7 was accepted but never returned (lost)".

    [w2_pre] (5 threads): the same three delayed decrements hit between set_threshold and the second dequeue of a pop on a
    node that already has a successor: the pop advances the head and RETIRES node 1 while value 7 is stored in it and no
    pop holds its dequeue ticket; it then returns 8 (node 5) although 7 was pushed before 8.  (One of the three
    delayed pops later returns 7 from the retired node: the history stays linearizable only because that pop was pending.) *)
From Coq Require Import NArith List Bool Lia PeanoNat.
From XV Require Import Base.Word Conc.Lts Conc.Ev gen.ScqGen Model.NikbDefs Model.NikqDefs.
From XV Require Import Proof.NikbOwn Proof.NikqBase Proof.NikqRing Proof.NikqChain Proof.NikqVal Proof.NikqValStep Proof.NikqCons.
Import ListNotations.
Local Open Scope N_scope.

Definition steps (t : nat) (n : nat) : list action := repeat (Step t) n.
(** thread t starts operation o and takes n steps (the first one emits the invocation) *)
Definition opn (t : nat) (o : op) (n : nat) : list action := Start t o :: steps t n.
Definition qst (cap R : N) (acts : list action) : qstate := fst (fst (run (qstep cap R) (qinit cap) acts)).
Definition qtr (cap R : N) (acts : list action) : list ev := snd (fst (run (qstep cap R) (qinit cap) acts)).
Definition qsk (cap R : N) (acts : list action) : nat := snd (run (qstep cap R) (qinit cap) acts).
Definition rets (tr : list ev) : list (N * list N) :=
  flat_map (fun e => match e with ERet t r => [(N.of_nat t, r)] | _ => [] end) tr.
Definition pop := OPop false.

(** no counter of an allocated node has wrapped (checkable); the nodes that are not allocated are untouched *)
Definition noovfb (s : qstate) : bool :=
  forallb (fun i => negb (g_ovf (nd s (N.of_nat i)))) (seq 0 (N.to_nat (nalloc s))).

Lemma noovfb_ok cap R s : reach (qinit cap) (qstep cap R) s -> noovfb s = true -> noovf s.
Proof.
  intros Hr Hb n. pose proof (CI_reach cap R s Hr) as Hc. destruct (N.le_gt_cases (nalloc s) n) as [Hle|Hgt].
  - destruct (c_fresh cap s Hc n Hle) as [_ ->]. reflexivity.
  - unfold noovfb in Hb. rewrite forallb_forall in Hb. specialize (Hb (N.to_nat n)). rewrite N2Nat.id in Hb.
    apply negb_true_iff. apply Hb. apply in_seq. lia.
Qed.

Lemma good_run k R acts : noovfb (qst (2 ^ k) R acts) = true -> good k R (qst (2 ^ k) R acts).
Proof. intros H. split; [apply run_reach|]. eapply noovfb_ok; [apply run_reach|exact H]. Qed.

(** * threshold exhausted by delayed poppers: 'empty' although a value is stored and nothing is in progress *)
Definition thr_pre : list action :=
  opn 1 (OPush 1) 12 ++ opn 1 pop 10 ++ opn 1 (OPush 7) 1 ++ opn 2 pop 9 ++ opn 3 pop 9 ++ opn 4 pop 9 ++
  steps 1 10 ++ steps 2 2 ++ steps 3 2 ++ steps 4 2.
Definition thr_after : list action := opn 1 pop 4 ++ opn 2 pop 4.

Lemma thr_good : good 0 0 (qst 1 0 thr_pre).
Proof. apply (good_run 0 0 thr_pre). vm_compute. reflexivity. Qed.

Lemma thr_quiescent : quiescent (qst 1 0 thr_pre).
Proof. intros t. do 5 (destruct t as [|t]; [vm_compute; reflexivity|]). vm_compute. reflexivity. Qed.

Lemma nikq_threshold_empty_refuted :
  let s1 := qst 1 0 thr_pre in
  let r := run (qstep 1 0) s1 thr_after in
  good 0 0 s1 /\ qsk 1 0 thr_pre = 0%nat /\ quiescent s1 /\
  q_ok s1 = [(1, 0, 1); (1, 4, 7)] /\ q_out s1 = [(1, 0, 1)] /\ q_nodes s1 = [1] /\ q_retired s1 = [] /\ stored 0 s1 = [(1, 4, 7)] /\
  g_eq (ra (nd s1 1)) 4 = EPub 0 /\ g_dq (ra (nd s1 1)) 4 = DNone /\ rhead (ra (nd s1 1)) = 8 /\ rtail (ra (nd s1 1)) = 10 /\
  rthr (ra (nd s1 1)) = ones64 /\
  snd r = 0%nat /\ rets (snd (fst r)) = [(1, [0]); (2, [0])] /\ q_out (fst (fst r)) = q_out s1.
Proof.
  cbv zeta. split; [exact thr_good|]. split; [vm_compute; reflexivity|]. split; [exact thr_quiescent|].
  vm_compute. repeat split; reflexivity.
Qed.

(** the statement "a pop that answers 'empty' in a state where nothing else is in progress finds nothing stored" is false *)
Lemma nikq_empty_verdict_refuted :
  ~ (forall s u s' es, good 0 0 s -> (forall t, oth s t = OIdle \/ t = u) -> qstep 1 0 s (Step u) = Some (s', es) ->
       In (ERet u [0]) es -> stored 0 s = []).
Proof.
  intros H.
  set (s2 := qst 1 0 (thr_pre ++ opn 1 pop 3)).
  assert (Hg : good 0 0 s2) by (apply (good_run 0 0 (thr_pre ++ opn 1 pop 3)); vm_compute; reflexivity).
  assert (Hq : forall t, oth s2 t = OIdle \/ t = 1%nat).
  { intros t. destruct t as [|[|t]]; [left; vm_compute; reflexivity|right; reflexivity|left].
    do 4 (destruct t as [|t]; [vm_compute; reflexivity|]). vm_compute. reflexivity. }
  assert (Hev : option_map snd (qstep 1 0 s2 (Step 1)) = Some [ELoad 1 (LHeap 1 576) 0 (VInt 0); ERet 1 [0]]) by (vm_compute; reflexivity).
  destruct (qstep 1 0 s2 (Step 1)) as [[s' es]|] eqn:E; [|discriminate Hev].
  cbn [option_map snd] in Hev. injection Hev as Hev.
  assert (Hne : stored 0 s2 <> []) by (vm_compute; discriminate).
  apply Hne. apply (H s2 1%nat s' es Hg Hq E). rewrite Hev. right. left. reflexivity.
Qed.

(** * a node is retired while a value is stored in it; the value of the next node leaves first *)
Definition w2_pre : list action :=
  opn 2 (OPush 1) 12 ++ opn 1 pop 10 ++ opn 3 pop 9 ++ opn 4 pop 9 ++ opn 5 pop 9 ++ opn 1 pop 10 ++
  opn 2 (OPush 7) 12 ++ opn 2 (OPush 8) 18 ++
  steps 1 2 ++ steps 3 1 ++ steps 4 1 ++ steps 5 1 ++ steps 1 12.
Definition w2_after : list action := steps 3 11 ++ steps 4 22 ++ steps 5 22 ++ opn 1 pop 11.

Lemma w2_good : good 0 0 (qst 1 0 w2_pre).
Proof. apply (good_run 0 0 w2_pre). vm_compute. reflexivity. Qed.

Lemma nikq_retired_with_value_state :
  let s1 := qst 1 0 w2_pre in
  let r := run (qstep 1 0) s1 w2_after in
  good 0 0 s1 /\ qsk 1 0 w2_pre = 0%nat /\
  q_nodes s1 = [1; 5] /\ q_retired s1 = [1] /\ qhead s1 = 5 /\ qtail s1 = 5 /\
  q_ok s1 = [(1, 0, 1); (1, 5, 7); (5, 0, 8)] /\ q_ret s1 = [(1, 0, 1); (5, 0, 8)] /\ q_out s1 = [(1, 0, 1); (5, 0, 8)] /\
  stored 0 s1 = [(1, 5, 7)] /\ g_dq (ra (nd s1 1)) 5 = DNone /\
  map (oth s1) [1; 2; 3; 4; 5]%nat = [OIdle; OIdle; Q2 1; Q2 1; Q2 1] /\
  snd r = 0%nat /\ rets (snd (fst r)) = [(3, [1; 7]); (4, [0]); (5, [0]); (1, [0])] /\ stored 0 (fst (fst r)) = [].
Proof.
  cbv zeta. split; [exact w2_good|]. vm_compute. repeat split; reflexivity.
Qed.

(** "a retired node is drained (every value published in it has been taken or a pop in progress holds its dequeue ticket)" is false *)
Lemma w2_not_taken : ~ In (1, 5, 7) (q_out (qst 1 0 w2_pre)).
Proof. vm_compute. intros [H|[H|[]]]; discriminate H. Qed.
Lemma w2_not_held u : g_dq (ra (nd (qst 1 0 w2_pre) 1)) 5 <> DHeld u.
Proof. vm_compute. discriminate. Qed.

Lemma nikq_retired_drained_refuted :
  ~ (forall s n T v, good 0 0 s -> In n (q_retired s) -> In (n, T, v) (q_in s) ->
       In (n, T, v) (q_out s) \/ exists u, g_dq (ra (nd s n)) T = DHeld u).
Proof.
  intros H. destruct (H (qst 1 0 w2_pre) 1 5 7 w2_good) as [Hx|[u Hx]].
  - vm_compute. left. reflexivity.
  - vm_compute. right. left. reflexivity.
  - exact (w2_not_taken Hx).
  - exact (w2_not_held u Hx).
Qed.

(** "values of an earlier node are taken (or being taken) before a value of a later node is taken" is false *)
Lemma nikq_cross_node_order_refuted :
  ~ (forall s n1 T1 v1 n2 T2 v2 l1 l2 l3, good 0 0 s -> q_nodes s = l1 ++ n1 :: l2 ++ n2 :: l3 ->
       In (n1, T1, v1) (q_in s) -> In (n2, T2, v2) (q_out s) ->
       In (n1, T1, v1) (q_out s) \/ exists u, g_dq (ra (nd s n1)) T1 = DHeld u).
Proof.
  intros H. destruct (H (qst 1 0 w2_pre) 1 5 7 5 0 8 [] [] [] w2_good) as [Hx|[u Hx]].
  - vm_compute. reflexivity.
  - vm_compute. right. left. reflexivity.
  - vm_compute. right. left. reflexivity.
  - exact (w2_not_taken Hx).
  - exact (w2_not_held u Hx).
Qed.

(** * the hypotheses of the theorems are satisfiable: [w2_good] is a good state with two linked nodes, one of them
    retired, three published and two taken values, one stored value, three pops in progress *)
Example nikq_example_conservation :
  let s := qst 1 0 w2_pre in
  q_in s = [(1, 0, 1); (1, 5, 7); (5, 0, 8)] /\ q_out s ++ stored 0 s = [(1, 0, 1); (5, 0, 8); (1, 5, 7)] /\
  fin s 1 = true /\ nxt s 1 = 5 /\ nxt s 5 = 0 /\ fin s 5 = false.
Proof. vm_compute. repeat split; reflexivity. Qed.

(** a state in which a pop is inside the final check of a finalized node (thread 1 at D6 of its first dequeue on node 1
    after the push of 8 linked node 5): the hypotheses of [nikq_final_check] hold *)
Definition fc_acts : list action :=
  opn 2 (OPush 1) 12 ++ opn 2 (OPush 8) 18 ++ opn 1 pop 11 ++ opn 1 pop 7.
Example nikq_example_final_check :
  let s := qst 1 0 fc_acts in
  good 0 0 s /\ th (nd s 1) 1%nat = D6 RA 0 2 /\ fin s 1 = true /\ rtail (ra (nd s 1)) = 2 /\
  gt0 (ScqGen.diff (bitw (rtail (ra (nd s 1))) (fin s 1)) (wadd 64 2 2)) = false.
Proof.
  cbv zeta. split; [apply (good_run 0 0 fc_acts); vm_compute; reflexivity|]. vm_compute. repeat split; reflexivity.
Qed.

(** the finalized node 1 of [w2_pre] and one of its tickets that was never handed out *)
Example nikq_example_finalized :
  let s := qst 1 0 w2_pre in fin s 1 = true /\ 1 < nalloc s /\ g_eq (ra (nd s 1)) 9 = ENone.
Proof. vm_compute. repeat split; reflexivity. Qed.

(** entries_per_node 2: two values in one node, taken in ticket order *)
Definition two_acts : list action := opn 1 (OPush 1) 20 ++ opn 1 (OPush 2) 20 ++ opn 2 pop 20 ++ opn 2 pop 20.
Example nikq_example_fifo :
  let s := qst 2 0 two_acts in
  good 1 0 s /\ q_in s = [(1, 0, 1); (1, 1, 2)] /\ q_out s = [(1, 0, 1); (1, 1, 2)] /\ q_ret s = q_out s /\ stored 1 s = [].
Proof.
  cbv zeta. split; [apply (good_run 1 0 two_acts); vm_compute; reflexivity|]. vm_compute. repeat split; reflexivity.
Qed.
