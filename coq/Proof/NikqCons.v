(** nikolaev_queue model: the theorems derived from the invariant layers (Proof/NikqRing.v: every node is a bounded
    queue satisfying the ring invariants; NikqChain.v: the node chain; NikqValStep.v: the value invariant), for every
    good state (reachable, no counter of any node wrapped): entries_per_node 2^k (k <= 40), any pop_retries R, any
    number of threads, any programs, any schedule (sequentially consistent interleavings). *)
From Coq Require Import NArith List Bool Lia PeanoNat Permutation.
From XV Require Import Base.Word Conc.Lts Conc.Ev gen.ScqGen Model.NikbDefs Model.NikqDefs.
From XV Require Import Proof.NikbArith Proof.NikbBase Proof.NikbWf Proof.NikbOwn Proof.NikbVal Proof.NikbSafe Proof.NikbCons.
From XV Require Import Proof.NikqBase Proof.NikqRing Proof.NikqChain Proof.NikqVal Proof.NikqValStep.
Import ListNotations.
Local Open Scope N_scope.

Set Default Proof Using "All".
Section QCons.
  Variable k R : N.
  Hypothesis Hk : k <= 40.
  Notation cap := (2 ^ k).
  Notation qstep := (NikqDefs.qstep cap R).
  Notation good := (good k R).
  Notation slot := (slot k).
  Notation eidx := (eidx k).
  Notation ecyc := (ecyc k).

  Lemma good_all s : good s -> Coh s /\ CI cap s /\ (forall n, Inv1 k (nd s n) /\ Inv2 k (nd s n) /\ Inv4 k (nd s n) /\ A3 (nd s n)) /\ PT s /\ VI k s.
  Proof.
    intros Hg. destruct (good_inv k R Hk s Hg) as (Hh & Hc & HR). ssplit; try assumption.
    - apply (PT_reach k R Hk s (proj1 Hg)).
    - apply (VI_good k R Hk s Hg).
  Qed.

  (** * ring level, per node *)
  Theorem nikq_never_stranded s n q T : good s -> ~ stranded (rg (nd s n) q) T.
  Proof. intros Hg (i & Hp & Hl). destruct (good_all s Hg) as (_ & _ & HR & _). destruct (HR n) as (_ & _ & I4 & _). apply (i4ns k _ I4 q T i Hl Hp). Qed.

  Theorem nikq_published_fate s n q T i : good s -> g_eq (rg (nd s n) q) T = EPub i ->
    g_dq (rg (nd s n) q) T = DTaken i \/
    (exists u, g_dq (rg (nd s n) q) T = DHeld u /\ dtk (th (nd s n) u) = Some (q, 2 * T)) \/
    (g_dq (rg (nd s n) q) T = DNone /\ rhead (rg (nd s n) q) <= 2 * T /\ eidx (slot (nd s n) q T) = i /\ ecyc (slot (nd s n) q T) = T / nn cap).
  Proof.
    intros Hg Hp. destruct (good_all s Hg) as (_ & _ & HRI & _). destruct (HRI n) as ([HW _] & (HR & _) & _ & HA3).
    destruct (HR q) as [_ _ c1 _ _ _ _ s5 s6].
    destruct (g_dq (rg (nd s n) q) T) as [|u|j|] eqn:E.
    - right. right. destruct (s5 T i Hp) as [_ [Ht|(_ & X & Y)]]; [rewrite E in Ht; discriminate|].
      ssplit; [reflexivity| |exact X|exact Y]. destruct (HW q) as ([Hh2 _] & _).
      destruct (N.le_gt_cases (rhead (rg (nd s n) q)) (2 * T)) as [Hle|Hgt]; [exact Hle|exfalso].
      apply (HA3 q T); [lia|exact E].
    - right. left. exists u. split; [reflexivity|apply c1; exact E].
    - left. specialize (s6 T j E). rewrite Hp in s6. inversion s6. reflexivity.
    - exfalso. apply (nikq_never_stranded s n q T Hg). exists i. split; assumption.
  Qed.

  Theorem nikq_index_place s n i : good s -> i < cap ->
    match g_own (nd s n) i with
    | OFree T => 2 * T < 2 ^ 62 /\ eidx (slot (nd s n) RF T) = i /\ ecyc (slot (nd s n) RF T) = T / nn cap /\
                 g_eq (rf (nd s n)) T = EPub i /\ (forall j, g_dq (rf (nd s n)) T <> DTaken j)
    | OFull T => 2 * T < 2 ^ 62 /\ eidx (slot (nd s n) RA T) = i /\ ecyc (slot (nd s n) RA T) = T / nn cap /\
                 g_eq (ra (nd s n)) T = EPub i /\ (forall j, g_dq (ra (nd s n)) T <> DTaken j)
    | OWrite t => hidx (th (nd s n) t) = Some (RA, i)
    | ORead t => hidx (th (nd s n) t) = Some (RF, i)
    end.
  Proof.
    intros Hg Hi. destruct (good_all s Hg) as (_ & _ & HRI & _). destruct (HRI n) as (I1 & (HR & HT & HO) & _).
    destruct (g_own (nd s n) i) as [T|t|T|t] eqn:E.
    - destruct (HR RF) as [_ _ _ _ s2 _ s4 _ _]. destruct (s4 i T Hi E) as (X & Y & Z).
      assert (Y' : eidx (slot (nd s n) RF T) < cap) by (rewrite Y; exact Hi).
      destruct (s2 T X Y' Z) as (P & _ & Q). rewrite Y in P. ssplit; assumption.
    - apply (HO i t RA). exact E.
    - destruct (HR RA) as [_ _ _ _ s2 _ s4 _ _]. destruct (s4 i T Hi E) as (X & Y & Z).
      assert (Y' : eidx (slot (nd s n) RA T) < cap) by (rewrite Y; exact Hi).
      destruct (s2 T X Y' Z) as (P & _ & Q). rewrite Y in P. ssplit; assumption.
    - apply (HO i t RF). exact E.
  Qed.

  Theorem nikq_exclusive_cell s n t1 t2 q1 q2 i : good s ->
    hidx (th (nd s n) t1) = Some (q1, i) -> hidx (th (nd s n) t2) = Some (q2, i) -> t1 = t2 /\ q1 = q2.
  Proof.
    intros Hg H1 H2. destruct (good_all s Hg) as (_ & _ & HRI & _). destruct (HRI n) as (_ & I2 & _).
    destruct (held_cell k R Hk _ _ _ _ I2 H1) as [A _]. destruct (held_cell k R Hk _ _ _ _ I2 H2) as [B _].
    rewrite A in B. apply held_inj in B. destruct B as [B1 B2]. split; congruence.
  Qed.

  (** * values *)
  Theorem nikq_values s : good s ->
    NoDup (map fst (q_in s)) /\ NoDup (map fst (q_out s)) /\ incl (q_out s) (q_in s) /\
    NoDup (map fst (q_ok s)) /\ incl (q_ok s) (q_in s) /\
    NoDup (map fst (q_ret s)) /\ incl (q_ret s) (q_out s).
  Proof.
    intros Hg. destruct (good_all s Hg) as (_ & _ & _ & _ & HV). destruct HV.
    ssplit; try assumption.
    - intros [[n H] v] Hx. apply (v3 n H v Hx).
    - intros [[n H] v] Hx. apply (vok n H v Hx).
    - intros [[n H] v] Hx. apply (vret n H v Hx).
  Qed.

  Theorem nikq_published_taken_or_stored s n T v : good s -> In (n, T, v) (q_in s) ->
    In (n, T, v) (q_out s) \/ (In n (q_nodes s) /\ exists i, i < cap /\ g_own (nd s n) i = OFull T /\ store (nd s n) i = v).
  Proof.
    intros Hg Hin. destruct (good_all s Hg) as (_ & _ & HRI & _ & HV). destruct (HRI n) as (I1 & (HR & _) & _). destruct HV.
    destruct (v2 n T v Hin) as [Hn [i Hp]]. destruct (HR RA) as [_ a2 _ _ s2 _ _ s5 _].
    destruct (s5 T i Hp) as [Hi [Ht|(Hnt & Hsi & Hsc)]].
    - left. destruct (v4 n T i Hn Ht) as [w Hw]. destruct (v3 n T w Hw) as [Hw' _].
      rewrite (key_unique _ (n, T) v w v2n Hin Hw'). exact Hw.
    - right. split; [exact Hn|]. exists i. assert (HT : 2 * T < 2 ^ 62).
      { assert (Hne : g_eq (ra (nd s n)) T <> ENone) by (rewrite Hp; discriminate). specialize (a2 T Hne).
        destruct I1 as [HW _]. destruct (HW RA) as (_ & [_ Hlt] & _). lia. }
      destruct (s2 T HT ltac:(rewrite Hsi; exact Hi) Hsc) as (_ & Ho & _). rewrite Hsi in Ho. cbn [inring] in Ho.
      ssplit; [exact Hi|exact Ho|]. apply (key_unique _ (n, T) _ _ v2n); [apply v1; assumption|exact Hin].
  Qed.

  Theorem nikq_stored_published s n i T : good s -> In n (q_nodes s) -> i < cap -> g_own (nd s n) i = OFull T ->
    In (n, T, store (nd s n) i) (q_in s) /\ forall v, ~ In (n, T, v) (q_out s).
  Proof.
    intros Hg Hn Hi Ho. destruct (good_all s Hg) as (_ & _ & _ & _ & HV). destruct HV.
    split; [apply v1; assumption|]. intros v Hin. destruct (v3 n T v Hin) as [_ [j Hj]].
    pose proof (nikq_index_place s n i Hg Hi) as Hp. rewrite Ho in Hp. destruct Hp as (_ & _ & _ & _ & Hnt). apply (Hnt j Hj).
  Qed.

  (** the cells whose index is in the allocated ring of a node, with node and ticket; all linked nodes *)
  Definition node_pairs (s : qstate) (n : N) : list (N * N * N) :=
    flat_map (fun i => match g_own (nd s n) (N.of_nat i) with OFull T => [(n, T, store (nd s n) (N.of_nat i))] | _ => [] end)
             (seq 0 (N.to_nat cap)).
  Definition stored (s : qstate) : list (N * N * N) := flat_map (node_pairs s) (q_nodes s).

  Lemma in_node_pairs s n m T v : In (m, T, v) (node_pairs s n) <-> m = n /\ exists i, i < cap /\ g_own (nd s n) i = OFull T /\ store (nd s n) i = v.
  Proof.
    unfold node_pairs. rewrite in_flat_map. split.
    - intros (j & Hj & Hin). apply in_seq in Hj.
      destruct (g_own (nd s n) (N.of_nat j)) as [T'|t|T'|t] eqn:E; try contradiction. destruct Hin as [Hin|[]]. inversion Hin; subst.
      split; [reflexivity|]. exists (N.of_nat j). split; [lia|]. split; [exact E|reflexivity].
    - intros (Hm & i & Hi & Ho & Hv). subst m. exists (N.to_nat i). split; [apply in_seq; lia|]. rewrite N2Nat.id, Ho. left. rewrite Hv. reflexivity.
  Qed.

  Lemma in_stored s n T v : In (n, T, v) (stored s) <-> In n (q_nodes s) /\ exists i, i < cap /\ g_own (nd s n) i = OFull T /\ store (nd s n) i = v.
  Proof.
    unfold stored. rewrite in_flat_map. split.
    - intros (m & Hm & Hin). apply in_node_pairs in Hin. destruct Hin as [-> Hx]. split; assumption.
    - intros [Hn Hx]. exists n. split; [exact Hn|]. apply in_node_pairs. split; [reflexivity|exact Hx].
  Qed.

  Lemma NoDup_app3 (l1 l2 : list (N * N * N)) : NoDup l1 -> NoDup l2 -> (forall x, In x l1 -> In x l2 -> False) -> NoDup (l1 ++ l2).
  Proof.
    induction l1 as [|a l1 IH]; intros H1 H2 Hd; cbn [app]; [exact H2|]. inversion H1 as [|? ? Hni H1']; subst. constructor.
    - rewrite in_app_iff. intros [Hx|Hx]; [contradiction|]. apply (Hd a); [left; reflexivity|exact Hx].
    - apply IH; [exact H1'|exact H2|]. intros x Hx Hy. apply (Hd x); [right; exact Hx|exact Hy].
  Qed.

  Lemma nodup_flat_map3 {A} (f : A -> list (N * N * N)) (l : list A) :
    NoDup l -> (forall a, In a l -> NoDup (f a)) ->
    (forall a b x, In a l -> In b l -> In x (f a) -> In x (f b) -> a = b) -> NoDup (flat_map f l).
  Proof.
    induction l as [|a l IH]; intros Hn Hf Hd; cbn [flat_map]; [constructor|]. inversion Hn as [|? ? Hni Hn']; subst.
    apply NoDup_app3.
    - apply Hf. left. reflexivity.
    - apply IH; [exact Hn'|intros b Hb; apply Hf; right; exact Hb|intros b c x Hb Hc; apply Hd; right; assumption].
    - intros x Hx Hy. apply in_flat_map in Hy. destruct Hy as (b & Hb & Hxb).
      assert (a = b) by (apply (Hd a b x); [left; reflexivity|right; exact Hb|exact Hx|exact Hxb]). subst b. contradiction.
  Qed.

  (** CONSERVATION, in every good state: published = taken + stored in the allocated rings of the linked nodes *)
  Theorem nikq_conservation s : good s -> Permutation (q_in s) (q_out s ++ stored s).
  Proof.
    intros Hg. destruct (nikq_values s Hg) as (N1 & N2 & I1 & _). destruct (good_all s Hg) as (_ & Hc & _).
    apply NoDup_Permutation.
    - apply (NoDup_map_inv fst). exact N1.
    - apply NoDup_app3.
      + apply (NoDup_map_inv fst). exact N2.
      + unfold stored. apply nodup_flat_map3; [apply (c_nd cap s Hc)| |].
        * intros n Hn. unfold node_pairs. apply nodup_flat_map3; [apply seq_NoDup| |].
          -- intros j _. destruct (g_own (nd s n) (N.of_nat j)); try constructor; [intros []|constructor].
          -- intros a b [[m T] v] Ha Hb Hxa Hxb. apply in_seq in Ha. apply in_seq in Hb.
             destruct (g_own (nd s n) (N.of_nat a)) as [Ta|ta|Ta|ta] eqn:Ea; try contradiction.
             destruct (g_own (nd s n) (N.of_nat b)) as [Tb|tb|Tb|tb] eqn:Eb; try contradiction.
             destruct Hxa as [Hxa|[]]. destruct Hxb as [Hxb|[]]. injection Hxa as _ E2 _. injection Hxb as _ F2 _. subst Ta Tb.
             pose proof (nikq_index_place s n (N.of_nat a) Hg ltac:(lia)) as Pa. rewrite Ea in Pa.
             pose proof (nikq_index_place s n (N.of_nat b) Hg ltac:(lia)) as Pb. rewrite Eb in Pb.
             destruct Pa as (_ & Pa & _). destruct Pb as (_ & Pb & _). rewrite Pa in Pb. lia.
        * intros a b [[m T] v] _ _ Hxa Hxb. apply in_node_pairs in Hxa. apply in_node_pairs in Hxb. destruct Hxa as [-> _]. destruct Hxb as [-> _]. reflexivity.
      + intros [[n T] v] Hout Hst. apply in_stored in Hst. destruct Hst as (Hn & i & Hi & Ho & _).
        destruct (nikq_stored_published s n i T Hg Hn Hi Ho) as [_ Hx]. apply (Hx v Hout).
    - intros [[n T] v]. rewrite in_app_iff, in_stored. split.
      + intros Hin. apply (nikq_published_taken_or_stored s n T v Hg Hin).
      + intros [Hout|(Hn & i & Hi & Ho & Hv)]; [apply I1; exact Hout|]. subst v. apply (nikq_stored_published s n i T Hg Hn Hi Ho).
  Qed.

  (** * FIFO *)
  (** what a pop takes at (n, H) is what a push published at (n, H); keys are unique *)
  Theorem nikq_fifo_by_ticket s n H v : good s -> In (n, H, v) (q_out s) ->
    In (n, H, v) (q_in s) /\ (forall w, In (n, H, w) (q_in s) -> w = v) /\ (forall w, In (n, H, w) (q_out s) -> w = v).
  Proof.
    intros Hg Hin. destruct (nikq_values s Hg) as (N1 & N2 & I1 & _). pose proof (I1 _ Hin) as Hi.
    ssplit; [exact Hi| |]; intros w Hw; [apply (key_unique _ (n, H) w v N1 Hw Hi)|apply (key_unique _ (n, H) w v N2 Hw Hin)].
  Qed.

  (** inside a node, no overtaking: when ticket T2 of node n has been taken, a published smaller ticket T1 of n has been
      taken or a pop in progress holds dequeue ticket T1 inside its do-loop *)
  Theorem nikq_fifo_order s n T1 v1 T2 v2 : good s -> In (n, T1, v1) (q_in s) -> In (n, T2, v2) (q_out s) -> T1 < T2 ->
    In (n, T1, v1) (q_out s) \/ (exists u, g_dq (ra (nd s n)) T1 = DHeld u /\ dtk (th (nd s n) u) = Some (RA, 2 * T1)).
  Proof.
    intros Hg Hin Hout Hlt. destruct (good_all s Hg) as (_ & _ & HRI & _ & HV). destruct (HRI n) as (I1 & (HR & _) & _ & HA3).
    destruct HV as [i1 i2 i2n i3 i3n i4 iok iokn iret iretn ib1 ib2 it_].
    destruct (i3 n T2 v2 Hout) as [_ [j2 Ht2]]. destruct (HR RA) as [a1 _ _ _ _ _ _ _ _].
    assert (Hh : 2 * T2 + 2 <= rhead (ra (nd s n))) by (apply a1; rewrite Ht2; discriminate).
    destruct (i2 n T1 v1 Hin) as [Hn [i Hp]].
    destruct (nikq_published_fate s n RA T1 i Hg Hp) as [E|[Hh'|(_ & Hle & _)]]; [left|right; exact Hh'|lia].
    destruct (i4 n T1 i Hn E) as [w Hw]. destruct (i3 n T1 w Hw) as [Hw' _].
    rewrite (key_unique _ (n, T1) v1 w i2n Hin Hw'). exact Hw.
  Qed.

  Theorem nikq_ticket_below_counter s : good s ->
    (forall n T v, In (n, T, v) (q_in s) -> 2 * T + 2 <= rtail (ra (nd s n))) /\
    (forall n H v, In (n, H, v) (q_out s) -> 2 * H + 2 <= rhead (ra (nd s n))).
  Proof.
    intros Hg. destruct (good_all s Hg) as (_ & _ & HRI & _ & HV). destruct HV. split.
    - intros n T v Hin. destruct (HRI n) as (_ & (HR & _) & _). destruct (HR RA) as [_ a2 _ _ _ _ _ _ _].
      destruct (v2 n T v Hin) as [_ [i Hi]]. apply a2. rewrite Hi. discriminate.
    - intros n H v Hin. destruct (HRI n) as (_ & (HR & _) & _). destruct (HR RA) as [a1 _ _ _ _ _ _ _ _].
      destruct (v3 n H v Hin) as [_ [i Hi]]. apply a1. rewrite Hi. discriminate.
  Qed.

  (** across nodes: a pop works on (and takes from) a node that is or was the head: nothing leaves node i+1 before the
      head has moved to it *)
  Definition popnode (p : opc) : option N :=
    match p with QIn1 n _ | Q2 n | Q3 n | QIn2 n _ | Q4 n | Q5 n _ => Some n | _ => None end.
  Definition HQ (s : qstate) : Prop :=
    (forall t n, popnode (oth s t) = Some n -> In n (q_retired s ++ [qhead s])) /\
    (forall n H v, In (n, H, v) (q_out s) -> In n (q_retired s ++ [qhead s])).

  Lemma take_ghost_out st s1 t n sg x : q_out s1 = q_out st -> In x (q_out (take_ghost cap st s1 t n sg)) -> In x (q_out st) \/ fst (fst x) = n.
  Proof.
    intros E. unfold take_ghost. destruct (th sg t); try (rewrite E; auto). destruct q; try (rewrite E; auto).
    qsimg. intros Hx. apply in_snoc3 in Hx. destruct Hx as [Hx| ->]; [left; exact Hx|right; reflexivity].
  Qed.
  Lemma take_ghost_ret st s1 t n sg : q_retired (take_ghost cap st s1 t n sg) = q_retired s1 /\ qhead (take_ghost cap st s1 t n sg) = qhead s1.
  Proof. unfold take_ghost. destruct (th sg t); try (split; reflexivity). destruct q; split; reflexivity. Qed.

  Lemma HQ_pop st t n lb again failed s' es : HQ st -> popnode (oth st t) = Some n ->
    (forall b, popnode (again b) = Some n) -> popnode failed = Some n ->
    pop_phase cap R st t n lb again failed = Some (s', es) -> HQ s'.
  Proof.
    intros [H1 H2] Hp Hag Hfl Hst. pose proof (H1 t n Hp) as Hn.
    destruct (pop_spec k R Hk _ _ _ _ _ _ _ _ Hst) as (sg' & es0 & lb' & Hs & Hcase).
    assert (G : forall p s1, q_out s1 = q_out (take_ghost cap st (w_nd st n sg') t n (nd st n)) ->
                q_retired s1 = q_retired st -> qhead s1 = qhead st -> oth s1 = upd (oth st) t p ->
                (popnode p = Some n \/ popnode p = None) -> HQ s1).
    { intros p s1 Eo Er Eh Eoth Hpp. split.
      - intros u m. rewrite Eoth, Er, Eh. destruct (Nat.eq_dec u t) as [->|Hne]; [rewrite upd_same|rewrite upd_other by exact Hne; apply H1].
        destruct Hpp as [Hpp|Hpp]; rewrite Hpp; [intros E; inversion E; subst; exact Hn|discriminate].
      - intros m H v Hx. rewrite Er, Eh. rewrite Eo in Hx. apply (take_ghost_out st (w_nd st n sg') t n (nd st n)) in Hx; [|reflexivity].
        destruct Hx as [Hx|Hx]; [apply (H2 m H v Hx)|cbn [fst] in Hx; subst m; exact Hn]. }
    destruct (take_ghost_ret st (w_nd st n sg') t n (nd st n)) as [Er Eh].
    destruct Hcase as [[_ ->]|[(_ & _ & ->)|(_ & x & x' & i & gk & _ & _ & ->)]].
    - eapply (G (again lb')); qsimg; rewrite ?oth_take_ghost; try reflexivity; try assumption. left. apply Hag.
    - eapply (G failed); qsimg; rewrite ?oth_take_ghost; try reflexivity; try assumption. left. exact Hfl.
    - eapply (G OIdle); qsimg; rewrite ?oth_take_ghost; try reflexivity; try assumption. right. reflexivity.
  Qed.

  Lemma q_out_pub st s1 t n sg : q_out (pub_ghost cap st s1 t n sg) = q_out s1.
  Proof. unfold pub_ghost. destruct (th sg t); try reflexivity. destruct q; try reflexivity. destruct (_ =? _); reflexivity. Qed.

  Lemma push_in_out st t v n s' es : push_in cap R st t v n = Some (s', es) -> q_out s' = q_out st.
  Proof.
    intros H. destruct (push_in_spec k R Hk _ _ _ _ _ _ H) as [(x & idx & gk & sg' & es0 & _ & _ & _ & ->)|(sg' & es0 & _ & _ & [[_ ->]|[(_ & _ & ->)|(_ & _ & x & i & gk & _ & ->)]])];
      qsimg; rewrite ?q_out_pub; reflexivity.
  Qed.
  Lemma push_re_out st t v n s' es : push_re cap R st t v n = Some (s', es) -> q_out s' = q_out st.
  Proof. intros H. destruct (push_re_spec k R Hk _ _ _ _ _ _ H) as (sg' & es0 & _ & [[_ ->]|[_ ->]]); reflexivity. Qed.
  Lemma steal_out st t v m lb s' es : steal_phase cap R st t v m lb = Some (s', es) -> q_out s' = q_out st.
  Proof. intros H. destruct (steal_spec k R Hk _ _ _ _ _ _ _ H) as (sg' & es0 & lb' & _ & [[_ ->]|[_ [[x ->]| ->]]]); reflexivity. Qed.
  Lemma del_out st t v m lb s' es : del_phase cap R st t v m lb = Some (s', es) -> q_out s' = q_out st.
  Proof. intros H. destruct (del_spec k R Hk _ _ _ _ _ _ _ H) as (sg' & es0 & lb' & _ & [[_ ->]|[[_ ->]|(_ & _ & ->)]]); reflexivity. Qed.

  Lemma HQ_frame s s' t p : HQ s -> q_out s' = q_out s -> q_retired s' = q_retired s -> qhead s' = qhead s ->
    oth s' = upd (oth s) t p -> (popnode p = None \/ popnode p = popnode (oth s t) \/ popnode p = Some (qhead s)) -> HQ s'.
  Proof.
    intros [H1 H2] Eo Er Eh Eoth Hp. split.
    - intros u m. rewrite Eoth, Er, Eh. destruct (Nat.eq_dec u t) as [->|Hne]; [rewrite upd_same|rewrite upd_other by exact Hne; apply H1].
      destruct Hp as [Hp|[Hp|Hp]]; rewrite Hp; [discriminate|apply H1|].
      intros E; inversion E; subst. apply in_or_app. right. left. reflexivity.
    - intros m H v. rewrite Eo, Er, Eh. apply H2.
  Qed.

  Lemma HQ_step s a s' es : CI cap s -> HQ s -> qstep s a = Some (s', es) -> HQ s'.
  Proof.
    intros Hc HH Hst. unfold NikqDefs.qstep in Hst. destruct a as [t o|t].
    - destruct (oth s t); try discriminate. inversion Hst; subst; clear Hst.
      eapply (HQ_frame s _ t _ HH); qsimg; try reflexivity. left. reflexivity.
    - destruct (oth s t) as [|[v|tp]| |v|v n|v n|v n nx|v n|v n|v n|v n m0 i|v n m0 i|v n m0|v n m0|v m0 lb|v m0 lb| |n lb|n|n|n lb|n|n nx] eqn:Eo;
        try discriminate.
      all: try (break Hst; inversion Hst; subst; clear Hst; (eapply (HQ_frame s _ t _ HH); qsimg; try reflexivity; rewrite ?Eo; cbn [popnode]; tauto)).
      + (* PIn *) destruct (push_in_ch cap R _ _ _ _ _ _ Hst) as ((E1 & E2 & E3 & E4 & E5 & E6) & _ & sg' & p & _ & Ho & Hp).
        eapply (HQ_frame s s' t p HH); [eapply push_in_out; eauto|exact E6|exact E1|exact Ho|]. left. destruct Hp as [->|[->|[->| ->]]]; reflexivity.
      + (* PRe *) destruct (push_re_ch cap R _ _ _ _ _ _ Hst) as ((E1 & E2 & E3 & E4 & E5 & E6) & sg' & [(_ & _ & Ho)|(_ & _ & Ho)]);
        (eapply (HQ_frame s s' t _ HH); [eapply push_re_out; eauto|exact E6|exact E1|exact Ho|left; reflexivity]).
      + (* PSt *) destruct (steal_ch cap R _ _ _ _ _ _ _ Hst) as ((E1 & E2 & E3 & E4 & E5 & E6) & _ & sg' & p & _ & Ho & Hp).
        eapply (HQ_frame s s' t p HH); [eapply steal_out; eauto|exact E6|exact E1|exact Ho|]. left. destruct Hp as [[lb' ->]|[[x ->]| ->]]; reflexivity.
      + (* PDel *) destruct (del_ch cap R _ _ _ _ _ _ _ Hst) as ((E1 & E2 & E3 & E4 & E5 & E6) & _ & sg' & p & _ & Ho & Hp).
        eapply (HQ_frame s s' t p HH); [eapply del_out; eauto|exact E6|exact E1|exact Ho|]. left. destruct Hp as [[lb' ->]|[->| ->]]; reflexivity.
      + (* QIn1 *) eapply (HQ_pop s t n lb (QIn1 n) (Q2 n)); eauto; try (rewrite Eo; reflexivity); reflexivity.
      + (* QIn2 *) eapply (HQ_pop s t n lb (QIn2 n) (Q4 n)); eauto; try (rewrite Eo; reflexivity); reflexivity.
      + (* Q5 *) destruct HH as [H1 H2]. destruct (N.eqb_spec (qhead s) n) as [Hh|Hh]; inversion Hst; subst; clear Hst.
        * split; qsimg.
          -- intros u m. destruct (Nat.eq_dec u t) as [->|Hne]; [rewrite upd_same; discriminate|rewrite upd_other by exact Hne].
             intros Hx. apply in_or_app. left. apply (H1 u m Hx).
          -- intros m H v Hx. apply in_or_app. left. apply (H2 m H v Hx).
        * eapply (HQ_frame s _ t _ (conj H1 H2)); qsimg; try reflexivity. left. reflexivity.
  Qed.

  Theorem HQ_reach : forall s, reach (qinit cap) qstep s -> HQ s.
  Proof.
    apply (inv_rule_aux _ _ _ (qinit cap) qstep (CI cap) HQ).
    - apply (CI_reach cap R).
    - split; [intros t n H; discriminate|intros n H v []].
    - intros s a s' es Hc _ HH Hst. eapply HQ_step; eauto.
  Qed.

  Theorem nikq_taken_from_head_nodes s n H v : good s -> In (n, H, v) (q_out s) -> In n (q_retired s) \/ n = qhead s.
  Proof.
    intros [Hr _] Hin. destruct (HQ_reach s Hr) as [_ H2]. specialize (H2 n H v Hin). apply in_app_or in H2.
    destruct H2 as [H2|[H2|[]]]; [left; exact H2|right; symmetry; exact H2].
  Qed.

  (** * the node chain, retirement *)
  Theorem nikq_chain s : reach (qinit cap) qstep s ->
    NoDup (q_nodes s) /\ (exists rest, q_nodes s = q_retired s ++ qhead s :: rest) /\ In (qtail s) (q_nodes s) /\
    linked (nxt s) (q_nodes s) /\ (forall n, nxt s n <> 0 -> In n (q_nodes s) /\ fin s n = true) /\
    NoDup (q_retired s) /\ ~ In (qhead s) (q_retired s) /\ (forall n, In n (q_nodes s) -> 0 < n < nalloc s).
  Proof.
    intros Hr. pose proof (CI_reach cap R s Hr) as Hc. destruct Hc as [a1 a2 a3 a4 a5 a6 a7 a8 af a9].
    destruct a3 as [rest E]. ssplit; try assumption; [exists rest; exact E| |].
    - rewrite E in a1. clear -a1. induction (q_retired s) as [|c l IH]; [constructor|]. cbn [app] in a1. inversion a1 as [|? ? Hx Hy]; subst.
      constructor; [intros Hi; apply Hx; apply in_or_app; left; exact Hi|apply IH; exact Hy].
    - rewrite E in a1. apply NoDup_remove_2 in a1. intros Hi. apply a1. apply in_or_app. left. exact Hi.
  Qed.

  (** a thread whose private node is under construction or being destroyed is the only one that knows it; it is not linked *)
  Theorem nikq_private_nodes s t m : reach (qinit cap) qstep s -> priv (oth s t) = Some m ->
    ~ In m (q_nodes s) /\ nxt s m = 0 /\ (forall u, priv (oth s u) = Some m -> u = t) /\ (forall u n, In n (refs (oth s u)) -> n <> m).
  Proof.
    intros Hr Hp. pose proof (CI_reach cap R s Hr) as Hc. destruct (c_priv cap s Hc t m Hp) as (V1 & V2 & V3 & V4).
    ssplit; try assumption. intros u n Hn ->. apply V1. apply (c_refs cap s Hc u). exact Hn.
  Qed.

  (** the chain only grows, next pointers and finalization are final; a node is retired exactly by the successful head CAS *)
  Theorem nikq_retire_step s a s' es : reach (qinit cap) qstep s -> qstep s a = Some (s', es) ->
    (q_retired s' = q_retired s /\ qhead s' = qhead s) \/
    (exists t n nx, a = Step t /\ oth s t = Q5 n nx /\ qhead s = n /\ nxt s n = nx /\ nx <> 0 /\
                    q_retired s' = q_retired s ++ [n] /\ qhead s' = nx /\ In (ENote t 120 [n]) es).
  Proof.
    intros Hr Hst. pose proof (CI_reach cap R s Hr) as Hc. unfold NikqDefs.qstep in Hst. destruct a as [t o|t].
    - destruct (oth s t); try discriminate. inversion Hst; subst. left. split; reflexivity.
    - pose proof (c_t5 cap s Hc t) as T5.
      destruct (oth s t) as [|[v|tp]| |v|v n|v n|v n nx|v n|v n|v n|v n m0 i|v n m0 i|v n m0|v n m0|v m0 lb|v m0 lb| |n lb|n|n|n lb|n|n nx] eqn:Eo;
        try discriminate.
      all: try (break Hst; inversion Hst; subst; clear Hst; left; split; reflexivity).
      + destruct (push_in_ch cap R _ _ _ _ _ _ Hst) as ((E1 & E2 & E3 & E4 & E5 & E6) & _). left. split; assumption.
      + destruct (push_re_ch cap R _ _ _ _ _ _ Hst) as ((E1 & E2 & E3 & E4 & E5 & E6) & _). left. split; assumption.
      + destruct (steal_ch cap R _ _ _ _ _ _ _ Hst) as ((E1 & E2 & E3 & E4 & E5 & E6) & _). left. split; assumption.
      + destruct (del_ch cap R _ _ _ _ _ _ _ Hst) as ((E1 & E2 & E3 & E4 & E5 & E6) & _). left. split; assumption.
      + destruct (pop_ch cap R _ _ _ _ _ _ _ _ Hst) as ((E1 & E2 & E3 & E4 & E5 & E6) & _). left. split; assumption.
      + destruct (pop_ch cap R _ _ _ _ _ _ _ _ Hst) as ((E1 & E2 & E3 & E4 & E5 & E6) & _). left. split; assumption.
      + cbn [NikqChain.T5] in T5. destruct T5 as [T1 T2].
        destruct (N.eqb_spec (qhead s) n) as [Hh|Hh]; inversion Hst; subst; clear Hst; [|left; split; reflexivity].
        right. exists t, (qhead s), (nxt s (qhead s)). ssplit; try reflexivity; try assumption. right. left. reflexivity.
  Qed.

  (** * verdicts *)
  (** what the final check of a dequeue on the allocated ring of node n sees (thread u, given-up ticket hd, at the instant
      of its load of the tail WORD, finalized bit included): tail <= head; every index published in the ring has a ticket
      below head: it has been taken, or an operation in progress holds that dequeue ticket inside its do-loop *)
  Theorem nikq_final_check s n u x hd : good s -> th (nd s n) u = D6 RA x hd ->
    gt0 (diff (bitw (rtail (ra (nd s n))) (fin s n)) (wadd 64 hd 2)) = false ->
    rtail (ra (nd s n)) <= hd + 2 /\ hd + 2 <= rhead (ra (nd s n)) /\
    forall T i, g_eq (ra (nd s n)) T = EPub i ->
      2 * T + 2 <= rhead (ra (nd s n)) /\
      (g_dq (ra (nd s n)) T = DTaken i \/
       (exists u', g_dq (ra (nd s n)) T = DHeld u' /\ dtk (th (nd s n) u') = Some (RA, 2 * T))).
  Proof.
    intros Hg Hpc Hchk. destruct (good_all s Hg) as (_ & _ & HRI & _). destruct (HRI n) as ([HW HT1] & (HR & _) & _ & HA3).
    pose proof (HT1 u) as Hu. rewrite Hpc in Hu. cbn [T1] in Hu. destruct Hu as [[Hhd2 Hhdlt] Hhle].
    destruct (HW RA) as ([_ Hhlt] & Htl & _). destruct (bitw_bound k R Hk (rtail (ra (nd s n))) (fin s n) Htl) as (B1 & B2 & B3).
    rewrite (wadd2_small hd Hhdlt) in Hchk. rewrite diff_gt0 in Hchk by (try exact B3; lia). apply N.ltb_ge in Hchk.
    ssplit; [lia|exact Hhle|]. intros T i Hp. destruct (HR RA) as [_ a2 _ _ _ _ _ _ _].
    assert (Hlt : 2 * T + 2 <= rtail (ra (nd s n))) by (apply a2; rewrite Hp; discriminate).
    split; [lia|]. destruct (nikq_published_fate s n RA T i Hg Hp) as [E|[Hh'|(_ & Hle & _)]]; [left; exact E|right; exact Hh'|lia].
  Qed.

  (** the 'empty' / 'node drained' verdict on the final-check path: at that instant every value published in node n has
      been taken or is being taken by a pop in progress *)
  Theorem nikq_empty_final_check s n u x hd : good s -> th (nd s n) u = D6 RA x hd ->
    gt0 (diff (bitw (rtail (ra (nd s n))) (fin s n)) (wadd 64 hd 2)) = false ->
    forall T v, In (n, T, v) (q_in s) ->
      In (n, T, v) (q_out s) \/ (exists u', g_dq (ra (nd s n)) T = DHeld u' /\ dtk (th (nd s n) u') = Some (RA, 2 * T)).
  Proof.
    intros Hg Hpc Hchk T v Hin. destruct (nikq_final_check s n u x hd Hg Hpc Hchk) as (_ & _ & Hall).
    destruct (good_all s Hg) as (_ & _ & _ & _ & HV). destruct HV as [i1 i2 i2n i3 i3n i4 iok iokn iret iretn ib1 ib2 it_].
    destruct (i2 n T v Hin) as [Hn [i Hp]]. destruct (Hall T i Hp) as [_ [Ht|Hh]]; [left|right; exact Hh].
    destruct (i4 n T i Hn Ht) as [w Hw]. destruct (i3 n T w Hw) as [Hw' _]. rewrite (key_unique _ (n, T) v w i2n Hin Hw'). exact Hw.
  Qed.

  Lemma reloc_no_ret n fd es u r : ~ In (ERet u r) (reloc n fd es).
  Proof.
    unfold reloc. intros H. apply in_flat_map in H. destruct H as (e & _ & He). destruct e; cbn [rev1] in He;
      try (destruct He as [He|[]]; discriminate); destruct He.
  Qed.

  (** 'empty' is answered after a failed dequeue on a node without successor; in a good state this node is the head and the
      last node of the chain: all nodes before it are retired *)
  Theorem nikq_empty_answer s u s' es : good s -> qstep s (Step u) = Some (s', es) -> In (ERet u [0]) es ->
    exists n, oth s u = Q2 n /\ nxt s n = 0 /\ qhead s = n /\ q_nodes s = q_retired s ++ [n].
  Proof.
    intros Hg Hst Hin. destruct (good_all s Hg) as (_ & Hc & _). pose proof (HQ_reach s (proj1 Hg)) as [H1 _].
    unfold NikqDefs.qstep in Hst.
    destruct (oth s u) as [|[v|tp]| |v|v n|v n|v n nx|v n|v n|v n|v n m0 i|v n m0 i|v n m0|v n m0|v m0 lb|v m0 lb| |n lb|n|n|n lb|n|n nx] eqn:Eo;
      try discriminate.
    all: try (break Hst; inversion Hst; subst; clear Hst; cbn [In app] in Hin; repeat (destruct Hin as [Hin|Hin]; try discriminate); contradiction).
    - destruct (push_in_spec k R Hk _ _ _ _ _ _ Hst) as [(x & idx & gk & sg' & es0 & _ & _ & _ & E)|(sg' & es0 & _ & _ & [[_ E]|[(_ & _ & E)|(_ & _ & x & i & gk & _ & E)]])];
        exfalso; unfold push_in in Hst.
      all: clear E; revert Hst; repeat match goal with |- context [match ?c with _ => _ end] => destruct c end; intros Hst; try discriminate;
           inversion Hst; subst; clear Hst; try (apply in_app_or in Hin; destruct Hin as [Hin|[Hin|[]]]; try discriminate);
           apply reloc_no_ret in Hin; exact Hin.
    - exfalso. unfold push_re, new_node in Hst. revert Hst; repeat match goal with |- context [match ?c with _ => _ end] => destruct c end; intros Hst; try discriminate;
        inversion Hst; subst; clear Hst; try (apply in_app_or in Hin; destruct Hin as [Hin|Hin]; [|cbn [alloc_evs In] in Hin; repeat (destruct Hin as [Hin|Hin]; try discriminate); contradiction]);
        apply reloc_no_ret in Hin; exact Hin.
    - exfalso. unfold steal_phase in Hst. revert Hst; repeat match goal with |- context [match ?c with _ => _ end] => destruct c end; intros Hst; try discriminate;
        inversion Hst; subst; clear Hst; apply reloc_no_ret in Hin; exact Hin.
    - exfalso. unfold del_phase in Hst. revert Hst; repeat match goal with |- context [match ?c with _ => _ end] => destruct c end; intros Hst; try discriminate;
        inversion Hst; subst; clear Hst; try (apply in_app_or in Hin; destruct Hin as [Hin|Hin]; [|cbn [free_evs In] in Hin; repeat (destruct Hin as [Hin|Hin]; try discriminate); contradiction]);
        apply reloc_no_ret in Hin; exact Hin.
    - exfalso. unfold pop_phase in Hst. revert Hst; repeat match goal with |- context [match ?c with _ => _ end] => destruct c end; intros Hst; try discriminate;
        inversion Hst; subst; clear Hst; try (apply in_app_or in Hin; destruct Hin as [Hin|[Hin|[]]]; try discriminate);
        apply reloc_no_ret in Hin; exact Hin.
    - (* Q2 *) exists n. destruct (N.eqb_spec (nxt s n) 0) as [Hz|Hz]; inversion Hst; subst; clear Hst.
      2:{ cbn [In] in Hin. destruct Hin as [Hin|[]]. discriminate. }
      assert (Hrn : In n (q_nodes s)) by (apply (c_refs cap s Hc u); rewrite Eo; left; reflexivity).
      destruct (ci_last cap s n Hc Hrn Hz) as [l El]. destruct (c_split cap s Hc) as [rest Er].
      pose proof (H1 u n ltac:(rewrite Eo; reflexivity)) as Hq. pose proof (c_nd cap s Hc) as Hnd.
      assert (Hhd : qhead s = n).
      { apply in_app_or in Hq. destruct Hq as [Hq|[Hq|[]]]; [exfalso|exact Hq].
        apply in_split in Hq. destruct Hq as (r1 & r2 & Eq). rewrite Eq in Er. rewrite <- app_assoc in Er. cbn [app] in Er.
        destruct (nodup_split_eq (q_nodes s) Hnd _ _ _ _ n El Er) as [_ Hx]. destruct r2; discriminate. }
      ssplit; try reflexivity; try assumption. rewrite Hhd in Er.
      destruct (nodup_split_eq (q_nodes s) Hnd _ _ _ _ n El Er) as [-> Hx]. subst rest. exact Er.
    - exfalso. unfold pop_phase in Hst. revert Hst; repeat match goal with |- context [match ?c with _ => _ end] => destruct c end; intros Hst; try discriminate;
        inversion Hst; subst; clear Hst; try (apply in_app_or in Hin; destruct Hin as [Hin|[Hin|[]]]; try discriminate);
        apply reloc_no_ret in Hin; exact Hin.
  Qed.

  (** a failing dequeue of do_pop: where the failure comes from (first threshold test, threshold decrement in the loop, or the
      final check of tail against the thread's ticket followed by catchup) *)
  Lemma step_ret_in sg u sg' es r : NikbDefs.step cap R sg (Step u) = Some (sg', es) -> ret_of es = Some r -> In (ERet u r) es.
  Proof.
    intros Hst. unfold NikbDefs.step, step_gen in Hst.
    destruct (th sg u) as [|[v|tp]|q x|q x|q x hd att|q x hd e|q x hd att e|q x hd att e enew|q x hd|q x|q x tl hd|q x tl|q x
                           |q x idx gk|q x idx gk tl|q x idx gk tl e|q x idx gk tl e|q x idx gk|q x idx gk] eqn:Ep; try discriminate.
    all: repeat match type of Hst with context [if ?c then _ else _] => destruct c eqn:? end.
    all: try (match goal with qq : rid |- _ => destruct qq end).
    all: inversion Hst; subst; clear Hst; cbn [ret_of app]; intros Hr; try discriminate; inversion Hr; subst; cbn [In]; tauto.
  Qed.

  Theorem nikq_dequeue_fail_sources s u s' es n : qstep s (Step u) = Some (s', es) ->
    ((exists lb, oth s u = QIn1 n lb) /\ oth s' u = Q2 n) \/ ((exists lb, oth s u = QIn2 n lb) /\ oth s' u = Q4 n) ->
    exists x, (th (nd s n) u = D0 RA x /\ lt0 (rthr (ra (nd s n))) = true) \/
              (th (nd s n) u = D7 RA x /\ sle 64 (rthr (ra (nd s n))) 0 = true) \/
              th (nd s n) u = D8 RA x.
  Proof.
    intros Hst Hcase. unfold NikqDefs.qstep in Hst.
    assert (G : forall lb again failed, pop_phase cap R s u n lb again failed = Some (s', es) -> oth s' u = failed ->
                (forall b, again b <> failed) -> failed <> OIdle ->
                exists x, (th (nd s n) u = D0 RA x /\ lt0 (rthr (ra (nd s n))) = true) \/
                          (th (nd s n) u = D7 RA x /\ sle 64 (rthr (ra (nd s n))) 0 = true) \/ th (nd s n) u = D8 RA x).
    { intros lb again failed Hp Ho Hag Hfi. destruct (pop_spec k R Hk _ _ _ _ _ _ _ _ Hp) as (sg' & es0 & lb' & Hs & Hc).
      destruct Hc as [[_ E]|[(Hi & Hret & _)|(_ & x & x' & i & gk & _ & _ & E)]].
      - exfalso. rewrite E in Ho. qsim. rewrite oth_take_ghost in Ho. qsim. rewrite upd_same in Ho. apply (Hag lb' Ho).
      - destruct (istep_native k R Hk _ _ _ _ _ _ _ Hs) as [(_ & Hd & _)|Hn]; [rewrite Hi in Hd; discriminate|].
        pose proof (step_ret_in _ _ _ _ _ Hn Hret) as Hin.
        destruct (nikb_fail_sources k R Hk _ _ _ _ _ Hn Hin ltac:(right; reflexivity)) as (q & x & Hr & Hsrc).
        destruct q; [|discriminate]. exists x. exact Hsrc.
      - exfalso. rewrite E in Ho. qsim. rewrite upd_same in Ho. apply Hfi. symmetry. exact Ho. }
    destruct Hcase as [[[lb Eo] Ho]|[[lb Eo] Ho]]; rewrite Eo in Hst.
    - apply (G lb (QIn1 n) (Q2 n) Hst Ho); [intros b; discriminate|discriminate].
    - apply (G lb (QIn2 n) (Q4 n) Hst Ho); [intros b; discriminate|discriminate].
  Qed.

  (** * finalization: a finalized allocated ring hands out no enqueue ticket: a ticket that has not been handed out when
      the ring is finalized is never published (a fetch_add that sees the finalized bit gives its ticket up at once) *)
  Lemma step_geq_none sg t sg' es T : Inv2 k sg -> NikbDefs.step cap R sg (Step t) = Some (sg', es) -> g_eq (ra sg) T = ENone ->
    g_eq (ra sg') T = ENone \/ exists x idx gk, th sg t = E1 RA x idx gk.
  Proof.
    intros (_ & HT & _) Hst. destruct (HT t) as (_ & Tb & _). unfold NikbDefs.step, step_gen in Hst.
    destruct (th sg t) as [|[v|tp]|q x|q x|q x hd att|q x hd e|q x hd att e|q x hd att e enew|q x hd|q x|q x tl hd|q x tl|q x
                           |q x idx gk|q x idx gk tl|q x idx gk tl e|q x idx gk tl e|q x idx gk|q x idx gk] eqn:Ep; try discriminate;
      cbn [etk] in Tb.
    all: unfold mark_left, mark_skip in Hst.
    all: repeat match type of Hst with context [if ?c then _ else _] => destruct c eqn:? end.
    all: try (match goal with qq : rid |- _ => destruct qq end).
    all: inversion Hst; subst; clear Hst; sim; intros Hx; try (left; exact Hx); try (right; eauto; fail).
    all: left; unfold setf; match goal with |- context [if ?a =? ?b then _ else _] => destruct (N.eqb_spec a b) as [Heq|]; [|exact Hx] end.
    all: exfalso; subst T; rewrite (Tb RA tl eq_refl) in Hx; discriminate.
  Qed.

  Lemma istep_geq_none sg f lb t sg' es lb' T : Inv2 k sg -> istep cap R sg f lb t = Some (sg', es, lb') -> g_eq (ra sg) T = ENone ->
    g_eq (ra sg') T = ENone \/ exists x idx gk, th sg t = E1 RA x idx gk.
  Proof.
    intros I2 H Hx. unfold istep in H.
    assert (Hn : forall r, match NikbDefs.step cap R sg (Step t) with Some (sg'0, es0) => Some (sg'0, es0, false) | None => None end = Some r ->
                   g_eq (ra (fst (fst r))) T = ENone \/ exists x idx gk, th sg t = E1 RA x idx gk).
    { intros [[a b] c] Hy. destruct (NikbDefs.step cap R sg (Step t)) as [[s1 e1]|] eqn:E; [|discriminate]. injection Hy as Ha _ _. subst a. cbn [fst].
      eapply step_geq_none; eauto. }
    destruct (th sg t) as [|o|q x|q x|q x hd att|q x hd e|q x hd att e|q x hd att e enew|q x hd|q x|q x tl hd|q x tl|q x
                          |q x idx gk|q x idx gk tl|q x idx gk tl e|q x idx gk tl e|q x idx gk|q x idx gk] eqn:Ep;
      try (exact (Hn _ H)); destruct q; try (exact (Hn _ H)).
    all: repeat match type of H with context [if ?c then _ else _] => destruct c end.
    all: injection H as Hs _ _; rewrite <- Hs; unfold mark_left; cbn [leaves]; sim; left; exact Hx.
  Qed.

  Lemma fin_enq_geq sg t x idx gk sg' es T : fin_enq cap R sg t x idx gk = Some (sg', es) -> th sg t = E1 RA x idx gk ->
    g_eq (ra sg) T = ENone -> g_eq (ra sg') T = ENone \/ g_eq (ra sg') T = ESkip.
  Proof.
    intros H Ep Hx. unfold fin_enq in H. destruct (NikbDefs.step cap R sg (Step t)) as [[s1 e1]|] eqn:Es; [|discriminate].
    unfold NikbDefs.step, step_gen in Es. rewrite Ep in Es. injection Es as Hs1 _. subst s1.
    injection H as Hs _. rewrite <- Hs. clear Hs. cbn [mark_skip skips]. sim. unfold setf.
    destruct (T =? rtail (rgs sg RA) / 2); [right; reflexivity|left; exact Hx].
  Qed.

  Theorem nikq_finalized_no_ticket s a s' es n T : good s -> fin s n = true -> n < nalloc s -> g_eq (ra (nd s n)) T = ENone ->
    qstep s a = Some (s', es) -> g_eq (ra (nd s' n)) T = ENone \/ g_eq (ra (nd s' n)) T = ESkip.
  Proof.
    intros Hg Hf Hlt Hx Hst. destruct (good_all s Hg) as (Hh & Hc & HRI & HP & _).
    unfold NikqDefs.qstep in Hst. destruct a as [t o|t].
    - destruct (oth s t); try discriminate. inversion Hst; subst. left. exact Hx.
    - specialize (HP t).
      destruct (oth s t) as [|[v|tp]| |v|v n0|v n0|v n0 nx|v n0|v n0|v n0|v n0 m0 i|v n0 m0 i|v n0 m0|v n0 m0|v m0 lb|v m0 lb| |n0 lb|n0|n0|n0 lb|n0|n0 nx] eqn:Eo;
        try discriminate.
      all: try (break Hst; inversion Hst; subst; clear Hst; qsimg; unfold setf, enter;
                repeat match goal with |- context [if ?a =? ?b then _ else _] => destruct (N.eqb_spec a b); [subst|] end; sim; try lia; left; exact Hx).
      + (* PIn *) destruct (HRI n0) as (_ & I2 & _).
        destruct (push_in_spec k R Hk _ _ _ _ _ _ Hst) as [(x & idx & gk & sg' & es0 & Ep & Ef & Hfe & ->)|(sg' & es0 & Hs & Hnf & Hcase)].
        * qsimg. unfold setf. destruct (N.eqb_spec n n0) as [->|]; [|left; exact Hx]. eapply fin_enq_geq; eauto.
        * assert (G : g_eq (ra (setf (nd s) n0 sg' n)) T = ENone \/ g_eq (ra (setf (nd s) n0 sg' n)) T = ESkip).
          { unfold setf. destruct (N.eqb_spec n n0) as [->|]; [|left; exact Hx].
            destruct (step_geq_none _ _ _ _ T I2 Hs Hx) as [E|(x & idx & gk & Ep)]; [left; exact E|].
            rewrite (Hnf x idx gk Ep) in Hf. discriminate. }
          destruct Hcase as [[_ ->]|[(_ & _ & ->)|(_ & _ & x & i & gk & _ & ->)]]; qsimg; rewrite ?nd_pub_ghost; qsimg; exact G.
      + (* PRe *) destruct (HRI n0) as (_ & I2 & _).
        destruct (push_re_spec k R Hk _ _ _ _ _ _ Hst) as (sg' & es0 & Hs & Hcase).
        assert (G : g_eq (ra (setf (nd s) n0 sg' n)) T = ENone \/ g_eq (ra (setf (nd s) n0 sg' n)) T = ESkip).
        { unfold setf. destruct (N.eqb_spec n n0) as [->|]; [|left; exact Hx].
          destruct (step_geq_none _ _ _ _ T I2 Hs Hx) as [E|(x & idx & gk & Ep)]; [left; exact E|]. rewrite Ep in HP. discriminate. }
        destruct Hcase as [[_ ->]|[_ ->]]; qsimg; [exact G|]. rewrite setf_other by lia. exact G.
      + (* PSt *) destruct (HRI m0) as (_ & I2 & _).
        destruct (steal_spec k R Hk _ _ _ _ _ _ _ Hst) as (sg' & es0 & lb' & Hs & Hcase).
        assert (G : g_eq (ra (setf (nd s) m0 sg' n)) T = ENone \/ g_eq (ra (setf (nd s) m0 sg' n)) T = ESkip).
        { unfold setf. destruct (N.eqb_spec n m0) as [->|]; [|left; exact Hx].
          destruct (istep_geq_none _ _ _ _ _ _ _ T I2 Hs Hx) as [E|(x & idx & gk & Ep)]; [left; exact E|]. rewrite Ep in HP. discriminate. }
        destruct Hcase as [[_ ->]|[_ [[x ->]| ->]]]; qsimg; try exact G.
        unfold setf in *. destruct (n =? m0); [|exact G]. unfold enter. sim. exact G.
      + (* PDel *) destruct (HRI m0) as (_ & I2 & _).
        destruct (del_spec k R Hk _ _ _ _ _ _ _ Hst) as (sg' & es0 & lb' & Hs & Hcase).
        assert (G : g_eq (ra (setf (nd s) m0 sg' n)) T = ENone \/ g_eq (ra (setf (nd s) m0 sg' n)) T = ESkip).
        { unfold setf. destruct (N.eqb_spec n m0) as [->|]; [|left; exact Hx].
          destruct (istep_geq_none _ _ _ _ _ _ _ T I2 Hs Hx) as [E|(x & idx & gk & Ep)]; [left; exact E|]. rewrite Ep in HP. discriminate. }
        destruct Hcase as [[_ ->]|[[_ ->]|(_ & _ & ->)]]; qsimg; exact G.
      + (* QIn1 *) destruct (HRI n0) as (_ & I2 & _).
        destruct (pop_spec k R Hk _ _ _ _ _ _ _ _ Hst) as (sg' & es0 & lb' & Hs & Hcase).
        assert (G : g_eq (ra (setf (nd s) n0 sg' n)) T = ENone \/ g_eq (ra (setf (nd s) n0 sg' n)) T = ESkip).
        { unfold setf. destruct (N.eqb_spec n n0) as [->|]; [|left; exact Hx].
          destruct (istep_geq_none _ _ _ _ _ _ _ T I2 Hs Hx) as [E|(x & idx & gk & Ep)]; [left; exact E|]. rewrite Ep in HP. discriminate. }
        destruct Hcase as [[_ ->]|[(_ & _ & ->)|(_ & x & x' & i & gk & _ & _ & ->)]]; qsimg; rewrite ?nd_take_ghost; qsimg; exact G.
      + (* QIn2 *) destruct (HRI n0) as (_ & I2 & _).
        destruct (pop_spec k R Hk _ _ _ _ _ _ _ _ Hst) as (sg' & es0 & lb' & Hs & Hcase).
        assert (G : g_eq (ra (setf (nd s) n0 sg' n)) T = ENone \/ g_eq (ra (setf (nd s) n0 sg' n)) T = ESkip).
        { unfold setf. destruct (N.eqb_spec n n0) as [->|]; [|left; exact Hx].
          destruct (istep_geq_none _ _ _ _ _ _ _ T I2 Hs Hx) as [E|(x & idx & gk & Ep)]; [left; exact E|]. rewrite Ep in HP. discriminate. }
        destruct Hcase as [[_ ->]|[(_ & _ & ->)|(_ & x & x' & i & gk & _ & _ & ->)]]; qsimg; rewrite ?nd_take_ghost; qsimg; exact G.
  Qed.
End QCons.
