(** Guards of the generalised epoch based reclamation model (Model/GebrDefs.v, every configuration), the core of C01:
    [guard_ok]  a node held by a guard_ptr of thread u (a persistent guard of the client or the guard of the running
                repl) is still published in its cell, or it was retired in a local epoch r with
                local_epoch(u) <= r + 1;
    [guard_not_freed]  hence (with [P1]: the global epoch is at most one ahead of a synchronised thread - a thread
                that holds a guard is synchronised, whatever the region extension -, and [tag_ok]: a node is freed only
                when the global epoch is >= r + 3) a guarded node is not freed;
    [uaf_reach] no dereference ever hits a destroyed node.  No axioms. *)
From Coq Require Import NArith List Bool Arith Lia PeanoNat Setoid.
From XV Require Import Conc.Lts Conc.Ev Model.GebrDefs Proof.GebrBase Proof.GebrShape Proof.GebrOwn Proof.GebrEpoch Proof.GebrNodes Proof.GebrTags.
Import ListNotations.
Local Open Scope N_scope.

(** * Guards *)
Definition holds (s : state) (u : nat) (n : N) : Prop :=
  (exists sl, gs (tl s u) sl = Some n) \/ tmpg (th s u) = Some n.

Definition guard_ok (s : state) (u : nat) (n : N) : Prop :=
  (exists c, g_life s n = LPub c) \/
  (exists t' r b, g_life s n = LRet t' r /\ cb (tl s u) = Some b /\ blocal s b <= r + 1).

(** a thread that holds a guard is synchronised: inside a critical region with a validated epoch *)
Lemma holds_shape cfg ns p x n : tshape cfg ns p x -> ((exists sl, gs x sl = Some n) \/ tmpg p = Some n) ->
  cb x <> None /\ has_loc p = true /\ (1 <= nest x)%nat /\ in_enter p = false /\ in_cphase p = false /\
  (forall le, ve p x le = Some le) /\ sync x = true.
Proof.
  intros T Hh.
  assert (H1 : (1 <= nest x)%nat /\ in_enter p = false /\ in_cphase p = false /\ in_lv p = false /\ in_xphase p = false).
  { destruct Hh as [(sl & Hs)|Hp].
    - assert (Hlt : (sl < ns)%nat). { destruct (le_lt_dec ns sl) as [Hle|]; [|assumption]. rewrite (ts_hi _ _ _ _ T sl Hle) in Hs. discriminate. }
      pose proof (cnt_pos _ _ _ _ Hs Hlt) as Hc. pose proof (ts_cnt _ _ _ _ T) as Hn.
      assert (H1 : (1 <= nest x)%nat) by lia. split; [exact H1|].
      split. { destruct (in_enter p) eqn:E; [|reflexivity]. pose proof (ts_e _ _ _ _ T E). destruct p; cbn in E; try discriminate; cbn in H, Hn; try lia; destruct (kacq k); lia. }
      split. { destruct (in_cphase p) eqn:E; [|reflexivity]. destruct (ts_c _ _ _ _ T E). lia. }
      split. { destruct (in_lv p) eqn:E; [|reflexivity]. destruct (ts_lv _ _ _ _ T E). lia. }
      destruct (in_xphase p) eqn:E; [|reflexivity]. destruct (ts_x _ _ _ _ T E) as (_ & _ & Hg). rewrite Hg in Hs. discriminate.
    - destruct p; cbn in Hp; try discriminate. destruct g; [|discriminate].
      pose proof (ts_cnt _ _ _ _ T) as Hn. cbn in Hn. repeat split; try reflexivity. lia. }
  destruct H1 as (Hn1 & He & Hc & Hlv & Hx).
  assert (Hsy : sync x = true). { apply (ts_sync _ _ _ _ T Hn1). destruct p; cbn in He |- *; try reflexivity; discriminate. }
  assert (Hcb : cb x <> None). { intros E. destruct (ts_fresh _ _ _ _ T E) as [E0 _]. lia. }
  repeat split; try assumption.
  - destruct p; cbn in Hc |- *; try reflexivity; discriminate.
  - intros le. destruct p; cbn in He, Hc |- *; try discriminate; rewrite Hsy; reflexivity.
Qed.

Lemma guard_not_freed cfg ns s u n : T0 cfg ns s -> O0 cfg s -> EI cfg s -> N0 s -> (forall m, tag_ok s m) -> guard_ok s u n -> holds s u n ->
  g_where s n <> PFreed /\ g_nfree s n = O /\ g_life s n <> LDropped.
Proof.
  intros T O [P _] I G Hg Hh.
  assert (Hw : g_where s n <> PFreed).
  { destruct Hg as [(c & L)|(t' & r & b & L & C & B)].
    - destruct (wh_not_ret _ _ _ (n_where s I n)) as [W _]; [rewrite L; intros; discriminate|]. rewrite W. discriminate.
    - intros W. pose proof (G n) as Gn. unfold tag_ok in Gn. rewrite W in Gn. destruct Gn as (t2 & r2 & L2 & Hr).
      rewrite L in L2. injection L2 as <- <-.
      destruct (holds_shape _ _ _ _ _ (T u) Hh) as (_ & _ & _ & _ & _ & Hve & _).
      destruct (P u b C) as (_ & _ & PA). specialize (PA _ (Hve _)). lia. }
  split; [exact Hw|].
  pose proof (n_where s I n) as W. split.
  - destruct (g_where s n); cbn in W; try (destruct W as [_ W]; exact W). congruence.
  - destruct Hg as [(c & L)|(t' & r & b & L & _)]; rewrite L; discriminate.
Qed.

Ltac gfn := cbn [tmpg flight fresh_of].
Ltac gfn_in H := cbn [tmpg flight fresh_of] in H.

Lemma GI_step cfg ns s t s' es : T0 cfg ns s -> O0 cfg s -> EI cfg s -> N0 s -> (forall u n, holds s u n -> guard_ok s u n) ->
  step cfg ns s (Step t) = Some (s', es) -> forall u n, holds s' u n -> guard_ok s' u n.
Proof.
  intros T O [P _] I G H.
  destruct (step_frame _ _ _ _ _ _ H) as (Fth & Fb & _ & _ & Fg).
  pose proof (T t) as Tt. pose proof (P t) as Pt. unfold P1 in Pt.
  unfold_step H. cbv zeta in H. step_split H.
  all: bool_eqs; prj; rewrite ?upd_same; prj; prj_hyps; rewrite ?upd_same in *; prj_hyps.
  all: try match goal with E : th _ _ = _ |- _ => try rewrite E in Tt; try rewrite E in Pt end.
  all: intros u nn Hh; unfold holds, guard_ok in *; prj; prj_in Hh.
  all: destruct (Nat.eq_dec u t) as [->|Hne]; [assert (Self : True) by exact Logic.I; rewrite ?upd_same in *; prj; prj_hyps; gfn_in Hh | rewrite ?upd_other in * by exact Hne].
  all: destruct I as [Ilt Icell If1 If2 Iwh Ilist Iorph Ifl Indl Indo Indf Ilidx Irl3 Ixd Ice].
  all: match goal with E : th ?s ?t = _ |- _ => pose proof (If1 t) as If1t; rewrite E in If1t; nfn_in If1t end.
  (* another thread: its guards, its control block and its local epoch are untouched *)
  all: try solve [match goal with Self : True |- _ => fail 1 | _ => idtac end; nfacts;
    destruct (G u nn Hh) as [(c0 & L)|(tq & rq & bq & L & C & B)];
    [ left; exists c0; split_updN_all; first [assumption | congruence]
    | right; exists tq, rq, bq; destruct (o_own cfg s O u bq C) as [Ho _];
      destruct (Fb bq (owner_untouched _ _ _ _ _ O Ho Hne)) as (_ & _ & El & _); prj_in El; try rewrite El;
      repeat split; first [assumption | split_updN_all; first [assumption | congruence]] ]].
  (* the stepping thread: a guard it holds afterwards was held before, or was just read from a cell *)
  all: try solve [match goal with Self : True |- _ => idtac end; nfacts;
    assert (Hold : ((exists sl, gs (tl s t) sl = Some nn) \/ tmpg (th s t) = Some nn) \/ (exists c, cells s c = Some nn));
    [ destruct Hh as [(sl & Hs)|Hp];
      [ try match type of Hs with upd ?g ?a ?v ?x = _ =>
              destruct (upd_cases g a v x) as [[-> Eu]|[Hsl Eu]]; rewrite Eu in Hs;
              [first [discriminate Hs | injection Hs as <-; right; eexists; eassumption]|] end;
        first [discriminate Hs | left; left; exists sl; exact Hs]
      | first [discriminate Hp | injection Hp as <-; first [right; eexists; eassumption | left; right; rewrite E; reflexivity]
              | left; right; rewrite E; exact Hp ] ]
    | destruct Hold as [Hold|(c0 & Hc0)];
      [ pose proof Hold as Hold'; rewrite E in Hold'; destruct (holds_shape _ _ _ _ _ Tt Hold') as (_ & _ & Hn1 & He & Hc & _ & _); cbn in He, Hc;
        first [ discriminate He | discriminate Hc | exfalso; destruct (ts_x _ _ _ _ Tt eq_refl) as [Hx0 _]; lia
        | destruct (G t nn Hold) as [(c1 & L)|(tq & rq & bq & L & C & B)];
          [ left; exists c1; split_updN_all; first [assumption | congruence]
          | right; exists tq, rq, bq; repeat split; first [assumption | split_updN_all; first [assumption | congruence]] ] ]
      | left; exists c0; pose proof (Icell _ _ Hc0); split_updN_all; first [assumption | congruence] ] ]].
  (* thread exit *)
  all: try solve [xn; gfn_in Hh; destruct Hh as [(sl & Hs)|Hp]; try discriminate;
                  destruct (ts_x _ _ _ _ Tt eq_refl) as (_ & _ & Hg); rewrite Hg in Hs; discriminate].
  (* R3: the unlinked node is retired: every guard on it belongs to a thread whose local epoch is at most r + 1 *)
  all: try solve [exfalso; apply (ts_need _ _ _ _ Tt); [reflexivity|assumption]].
  all: try solve [match goal with Self : True |- _ => fail 1 | _ => idtac end; nfacts; match goal with Ecb : cb (tl _ _) = Some ?bt |- _ =>
    assert (Ht : gep s <= blocal s bt + 1);
    [ assert (Hmine : (exists sl, gs (tl s t) sl = Some n0) \/ tmpg (R3 c (Some n0) n) = Some n0) by (right; subst n; reflexivity);
      destruct (holds_shape _ _ _ _ _ Tt ltac:(subst n; exact Hmine)) as (_ & _ & _ & _ & _ & Hve & Hf);
      first [destruct (Pt bt Ecb) as (_ & _ & PA) | destruct (Pt bt eq_refl) as (_ & _ & PA)]; exact (PA _ (Hve _))
    | assert (Hold : (exists sl, gs (tl s u) sl = Some nn) \/ tmpg (th s u) = Some nn);
      [ first [ exact Hh | destruct Hh as [Hs|Hp]; [left; exact Hs | discriminate Hp] ]
      | destruct (holds_shape _ _ _ _ _ (T u) Hold) as (Hcb & Hloc & _);
        destruct (cb (tl s u)) as [bu|] eqn:Ebu; [|congruence];
        destruct (P u bu Ebu) as (PL & _ & _); destruct (PL Hloc) as [PL1 _];
        destruct (G u nn Hold) as [(c1 & L)|(tq & rq & bq & L & C & B)];
        [ destruct (N.eq_dec nn n0) as [->|Hn0];
          [ right; rewrite updN_same; eexists _, _, bu; repeat split; first [reflexivity | lia]
          | left; exists c1; rewrite (updN_other _ n0) by exact Hn0; split_updN_all; first [assumption | congruence] ]
        | right; exists tq, rq, bq; repeat split; first [assumption | congruence | split_updN_all; first [assumption | congruence]] ] ] ] end].
  all: try solve [match goal with Self : True |- _ => idtac end; nfacts; match goal with Ecb : cb (tl _ _) = Some ?bt |- _ =>
    assert (Ht : gep s <= blocal s bt + 1);
    [ assert (Hmine : (exists sl, gs (tl s t) sl = Some n0) \/ tmpg (R3 c (Some n0) n) = Some n0) by (right; subst n; reflexivity);
      destruct (holds_shape _ _ _ _ _ Tt ltac:(subst n; exact Hmine)) as (_ & _ & _ & _ & _ & Hve & Hf);
      first [destruct (Pt bt Ecb) as (_ & _ & PA) | destruct (Pt bt eq_refl) as (_ & _ & PA)]; exact (PA _ (Hve _))
    | assert (Hold : (exists sl, gs (tl s t) sl = Some nn) \/ tmpg (th s t) = Some nn);
      [ first [ exact Hh | destruct Hh as [Hs|Hp]; [left; exact Hs | discriminate Hp] ]
      | destruct (holds_shape _ _ _ _ _ (T t) Hold) as (Hcb & Hloc & _);
        destruct (cb (tl s t)) as [bu|] eqn:Ebu; [|congruence];
        destruct (P t bu Ebu) as (PL & _ & _); destruct (PL Hloc) as [PL1 _];
        destruct (G t nn Hold) as [(c1 & L)|(tq & rq & bq & L & C & B)];
        [ destruct (N.eq_dec nn n0) as [->|Hn0];
          [ right; rewrite updN_same; eexists _, _, bu; repeat split; first [reflexivity | lia]
          | left; exists c1; rewrite (updN_other _ n0) by exact Hn0; split_updN_all; first [assumption | congruence] ]
        | right; exists tq, rq, bq; repeat split; first [assumption | congruence | split_updN_all; first [assumption | congruence]] ] ] ] end].
  (* the configuration-dependent selectors *)
  all: try solve [match goal with Self : True |- _ => idtac end; sel; try match goal with Hq : scan_is_n _ = _ |- _ => clear Hq end; gfn_in Hh; nfacts;
    (assert (Hold : ((exists sl, gs (tl s t) sl = Some nn) \/ tmpg (th s t) = Some nn) \/ (exists c, cells s c = Some nn));
    [ destruct Hh as [(sl & Hs)|Hp];
      [ try match type of Hs with upd ?g ?a ?v ?x = _ =>
              destruct (upd_cases g a v x) as [[-> Eu]|[Hsl Eu]]; rewrite Eu in Hs;
              [first [discriminate Hs | injection Hs as <-; right; eexists; eassumption]|] end;
        first [discriminate Hs | left; left; exists sl; exact Hs]
      | first [discriminate Hp | injection Hp as <-; first [right; eexists; eassumption | left; right; rewrite E; reflexivity]
              | left; right; rewrite E; exact Hp ] ]
    | destruct Hold as [Hold|(c0 & Hc0)];
      [ pose proof Hold as Hold'; rewrite E in Hold'; destruct (holds_shape _ _ _ _ _ Tt Hold') as (_ & _ & Hn1 & He & Hc & _ & _); cbn in He, Hc;
        first [ discriminate He | discriminate Hc | exfalso; destruct (ts_x _ _ _ _ Tt eq_refl) as [Hx0 _]; lia
        | destruct (G t nn Hold) as [(c1 & L)|(tq & rq & bq & L & C & B)];
          [ left; exists c1; split_updN_all; first [assumption | congruence]
          | right; exists tq, rq, bq; repeat split; first [assumption | split_updN_all; first [assumption | congruence]] ] ]
      | left; exists c0; pose proof (Icell _ _ Hc0); split_updN_all; first [assumption | congruence] ] ])].
Qed.


Lemma GI_start cfg ns s t o s' es : T0 cfg ns s -> (forall u n, holds s u n -> guard_ok s u n) ->
  step cfg ns s (Start t o) = Some (s', es) -> forall u n, holds s' u n -> guard_ok s' u n.
Proof.
  intros T G H. destruct (start_pc _ _ _ _ _ _ _ H) as (Hidle & Eth & Hsl & Etl & Eg & Ef & El & Ebl & Ew & Elf & _).
  assert (Etm : forall u, tmpg (th s' u) = tmpg (th s u)).
  { intros u. rewrite Eth. destruct (Nat.eq_dec u t) as [->|Hne]; [rewrite upd_same, Hidle|rewrite upd_other by exact Hne; reflexivity].
    destruct (th s' t); try discriminate Hsl; reflexivity. }
  assert (Egs : forall u sl n, gs (tl s' u) sl = Some n -> gs (tl s u) sl = Some n).
  { intros u sl n. unfold step in H. step_split H; prj; try (intros X; exact X).
    destruct (upd_cases (tl s) t (wt_rg None (wt_rent 0 (wt_nest 0 (wt_gs (fun _ : nat => None) (tl s t))))) u) as [[-> ->]|[_ ->]]; prj; [discriminate|intros X; exact X]. }
  intros u n Hh. unfold holds, guard_ok in *. rewrite Etm in Hh. rewrite Elf, El. destruct (Etl u) as (-> & _).
  apply G. destruct Hh as [(sl & Hs)|Hp]; [left; exists sl; apply Egs; exact Hs|right; exact Hp].
Qed.

Section ReachG.
Variables (cfg : config) (ns : nat) (nc : N).
Lemma GI_reach s : reachable cfg ns nc s -> forall u n, holds s u n -> guard_ok s u n.
Proof.
  apply (inv_rule_aux _ _ _ _ _ (fun s => T0 cfg ns s /\ O0 cfg s /\ EI cfg s /\ N0 s) (fun s => forall u n, holds s u n -> guard_ok s u n)).
  - intros s0 Hr. split; [apply (T0_reach cfg ns nc); exact Hr|]. split; [apply (O0_reach cfg ns nc); exact Hr|].
    split; [apply (EI_reach cfg ns nc); exact Hr|apply (N0_reach cfg ns nc); exact Hr].
  - intros u n [(sl & Hs)|Hp]; cbn in *; discriminate.
  - intros s0 a s1 es (J1 & J2 & J3 & J4) _ I H. destruct a as [t o|t]; [exact (GI_start cfg ns s0 t o s1 es J1 I H)|exact (GI_step cfg ns s0 t s1 es J1 J2 J3 J4 I H)].
Qed.
End ReachG.

(** * No dereference of a destroyed node *)
Lemma dead_false s n : g_nfree s n = O -> g_life s n <> LDropped -> dead s n = false.
Proof. intros H1 H2. unfold dead. rewrite H1. cbn. destruct (g_life s n); try reflexivity. congruence. Qed.

Lemma uaf_step cfg ns s a s' es : T0 cfg ns s -> O0 cfg s -> EI cfg s -> N0 s -> (forall m, tag_ok s m) -> (forall u n, holds s u n -> guard_ok s u n) ->
  g_uaf s = false -> step cfg ns s a = Some (s', es) -> g_uaf s' = false.
Proof.
  intros T O EIs I Tg G U H. destruct a as [t o|t].
  { unfold step in H. step_split H; prj; exact U. }
  assert (Hcell : forall c n, cells s c = Some n -> dead s n = false).
  { intros c n Hc. pose proof (n_cell s I c n Hc) as L. apply dead_false; [|rewrite L; discriminate].
    destruct (wh_not_ret _ _ _ (n_where s I n)) as [_ W]; [rewrite L; intros; discriminate|exact W]. }
  assert (Hslot : forall sl n, gs (tl s t) sl = Some n -> dead s n = false).
  { intros sl n Hs. assert (Hh : holds s t n) by (left; exists sl; exact Hs).
    destruct (guard_not_freed _ _ _ _ _ T O EIs I Tg (G t n Hh) Hh) as (_ & H1 & H2). apply dead_false; assumption. }
  unfold_step H. cbv zeta in H. step_split H.
  all: bool_eqs; prj; try exact U.
  all: rewrite U; cbn [orb]; unfold dead; prj.
  all: first [ eapply Hslot; eassumption | eapply Hcell; eassumption | idtac ].
  all: match goal with Ec : cells _ _ = Some _ |- _ => pose proof (Hcell _ _ Ec) as Hd end;
       unfold dead in Hd; apply orb_false_iff in Hd; destruct Hd as [Hd1 Hd2]; rewrite Hd1; cbn [orb];
       match goal with |- context [updN ?f ?i ?v ?j] => destruct (updN_cases f i v j) as [[_ ->]|[_ ->]] end; [reflexivity|exact Hd2].
Qed.

Section ReachU.
Variables (cfg : config) (ns : nat) (nc : N).
Lemma uaf_reach s : reachable cfg ns nc s -> g_uaf s = false.
Proof.
  apply (inv_rule_aux _ _ _ _ _ (fun s => T0 cfg ns s /\ O0 cfg s /\ EI cfg s /\ N0 s /\ (forall m, tag_ok s m) /\ (forall u n, holds s u n -> guard_ok s u n)) (fun s => g_uaf s = false)).
  - intros s0 Hr. split; [apply (T0_reach cfg ns nc); exact Hr|]. split; [apply (O0_reach cfg ns nc); exact Hr|]. split; [apply (EI_reach cfg ns nc); exact Hr|].
    split; [apply (N0_reach cfg ns nc); exact Hr|]. split; [apply (tag_reach cfg ns nc); exact Hr|apply (GI_reach cfg ns nc); exact Hr].
  - reflexivity.
  - intros s0 a s1 es (J1 & J2 & J3 & J4 & J5 & J6) _ I H. exact (uaf_step cfg ns s0 a s1 es J1 J2 J3 J4 J5 J6 I H).
Qed.
End ReachU.
