(** nikolaev_bounded_queue model: executable examples (run + vm_compute).

    The [_refuted] lemmas are about [step_old] = the code BEFORE the repair of nikolaev_scq (repository commit
    ccd976e): they document the repaired defect.  The schedules [lost_acts] / [full_acts] were replayed line by
    line by the unrepaired code (harness h_vyu, cfg q=nikb cap=2 elem=int retries=0), which reported "value 7 was
    accepted but never returned (lost)".  [repaired_acts] is the same interleaving on the repaired code ([step]). *)
From Coq Require Import NArith List Bool Lia PeanoNat.
From XV Require Import Base.Word Conc.Lts Conc.Ev Conc.Solo gen.ScqGen Model.NikbDefs Proof.NikbSafe.
Import ListNotations.
Local Open Scope N_scope.

Definition steps (t : nat) (n : nat) : list action := repeat (Step t) n.
(** thread t starts operation o and takes n steps (the first one emits the invocation) *)
Definition opn (t : nat) (o : op) (n : nat) : list action := Start t o :: steps t n.
Definition st_of (cap R : N) (acts : list action) : state := fst (fst (run (step cap R) (init cap) acts)).
Definition tr_of (cap R : N) (acts : list action) : list ev := snd (fst (run (step cap R) (init cap) acts)).
Definition sk_of (cap R : N) (acts : list action) : nat := snd (run (step cap R) (init cap) acts).
(** the same for the code before the repair *)
Definition st_old (cap R : N) (acts : list action) : state := fst (fst (run (step_old cap R) (init cap) acts)).
Definition tr_old (cap R : N) (acts : list action) : list ev := snd (fst (run (step_old cap R) (init cap) acts)).
Definition sk_old (cap R : N) (acts : list action) : nat := snd (run (step_old cap R) (init cap) acts).
(** the results in the order of the returns: (thread, result) *)
Definition rets (tr : list ev) : list (N * list N) :=
  flat_map (fun e => match e with ERet t r => [(N.of_nat t, r)] | _ => [] end) tr.
Definition pop := OPop false.

(** * BEFORE THE REPAIR: a pushed value is lost (capacity 2, 4 threads, pop_retries 0).
    Allocated ring, n = 4 slots, slot 0:
    - T1 pushes 100 (ticket 0, slot 0), then starts a pop, takes dequeue ticket 0 and stops;
    - T2 pushes / pops 1, 2, 3 (tickets 1, 2, 3); its push of 4 finds slot 0 occupied (ticket 4 skipped), uses ticket 5;
    - T3 starts a pop, takes dequeue ticket 4 (slot 0) and stops;
    - T2 pops 4, pushes / pops 5, 6 (tickets 6, 7), starts push 7 and takes ENQUEUE ticket 8 (slot 0), stops;
    - T4 pops: dequeue ticket 8 (slot 0) sees the old entry of ticket 0, gives ticket 8 up: 'empty';
    - T1 finishes: takes index 0 (value 100) out of slot 0, which becomes (cycle 0, UNSAFE, bottom);
    - T3 finishes: dequeue ticket 4 advances slot 0 to (cycle 1, SAFE, bottom)  [entry_new = head_cycle
      sets the safe bit again; the SCQ algorithm keeps IsSafe here], then 'empty';
    - T2 finishes: enqueue ticket 8 finds a SAFE bottom entry of an older cycle and publishes its index
      there without looking at head -- although dequeue ticket 8 was given up long ago: push 7 returns true.
    Nothing is in progress any more; every later pop answers 'empty'; value 7 and storage index 1 are
    never seen again. *)
Definition lost_acts : list action :=
  opn 1 (OPush 100) 10 ++ opn 1 pop 3 ++
  opn 2 (OPush 1) 9 ++ opn 2 pop 9 ++ opn 2 (OPush 2) 9 ++ opn 2 pop 9 ++ opn 2 (OPush 3) 9 ++ opn 2 pop 9 ++
  opn 2 (OPush 4) 12 ++
  opn 3 pop 3 ++
  opn 2 pop 9 ++ opn 2 (OPush 5) 10 ++ opn 2 pop 10 ++ opn 2 (OPush 6) 10 ++ opn 2 pop 10 ++ opn 2 (OPush 7) 6 ++
  opn 4 pop 7 ++
  steps 1 7 ++ steps 3 12 ++ steps 2 4.

Definition lost_after : list action := opn 4 pop 9 ++ opn 3 pop 9 ++ opn 1 pop 7.

Example lost_rets :
  rets (tr_old 2 0 (lost_acts ++ lost_after)) =
  [(1, [1]); (2, [1]); (2, [1; 1]); (2, [1]); (2, [1; 2]); (2, [1]); (2, [1; 3]); (2, [1]);
   (2, [1; 4]); (2, [1]); (2, [1; 5]); (2, [1]); (2, [1; 6]);
   (4, [3]); (1, [1; 100]); (3, [3]); (2, [1]);
   (4, [3]); (3, [3]); (1, [3])].
Proof. vm_compute. reflexivity. Qed.


(** the state after [lost_acts]: no operation in progress, no counter wrapped, push 7 returned true
    (ticket 8 of the allocated ring), its index (1) is in the allocated ring, its value is in the cell,
    the dequeue ticket 8 was given up (by T4, before the index was published there), head is beyond it *)
Example lost_state :
  let st := st_old 2 0 lost_acts in
  sk_old 2 0 lost_acts = 0%nat /\ g_ovf st = false /\ (forall t, th st t = Idle) /\
  g_ok st = [(0, 100); (1, 1); (2, 2); (3, 3); (5, 4); (6, 5); (7, 6); (8, 7)] /\
  g_in st = g_ok st /\
  g_ret st = [(1, 1); (2, 2); (3, 3); (5, 4); (6, 5); (7, 6); (0, 100)] /\
  g_out st = [(1, 1); (2, 2); (3, 3); (5, 4); (6, 5); (7, 6); (0, 100)] /\
  g_eq (ra st) 8 = EPub 1 /\ g_dq (ra st) 8 = DLeft /\ g_own st 1 = OFull 8 /\ store st 1 = 7 /\
  rhead (ra st) = 20 /\ rtail (ra st) = 20 /\ rdata (ra st) (phys 2 16) = 17 /\ rthr (ra st) = 5.
Proof.
  cbv zeta. split; [vm_compute; reflexivity|]. split; [vm_compute; reflexivity|]. split.
  - intros t. do 5 (destruct t as [|t]; [vm_compute; reflexivity|]). vm_compute. reflexivity.
  - vm_compute. repeat split; reflexivity.
Qed.

(** "no index published in a ring is stranded" -- FALSE for the code before the repair
    (TRUE for the repaired code: Proof/NikbSafe.v) *)
Lemma nikb_never_stranded_refuted :
  ~ (forall st, reach (init 2) (step_old 2 0) st -> g_ovf st = false -> forall T, ~ stranded (ra st) T).
Proof.
  intros H. apply (H (st_old 2 0 lost_acts) (run_reach _ _ _ _ _ _) ltac:(vm_compute; reflexivity) 8).
  exists 1. split; vm_compute; reflexivity.
Qed.

(** FULL statement of the C05 'empty' verdict on the model -- FALSE: from the quiescent state after
    [lost_acts] (value 7 accepted, never taken out) every one of the following pops, running alone, answers
    'empty' ([3]); the allocated ring holds index 1 with value 7 in every state of these calls. *)
Fixpoint states_along (stp : state -> action -> option (state * list ev)) (s : state) (acts : list action) : list state :=
  s :: match acts with
       | [] => []
       | a :: r => match stp s a with Some (s', _) => states_along stp s' r | None => states_along stp s r end
       end.

Fixpoint leqb (a b : list (N * N)) : bool :=
  match a, b with
  | [], [] => true
  | (x, y) :: a', (x', y') :: b' => (x =? x') && (y =? y') && leqb a' b'
  | _, _ => false
  end.
Lemma leqb_eq a : forall b, leqb a b = true -> a = b.
Proof.
  induction a as [|[x y] a IH]; intros [|[x' y'] b]; cbn [leqb]; try discriminate; [reflexivity|].
  intros H. apply andb_true_iff in H. destruct H as [H H3]. apply andb_true_iff in H. destruct H as [H1 H2].
  apply N.eqb_eq in H1. apply N.eqb_eq in H2. subst. f_equal. apply IH. exact H3.
Qed.

Lemma nikb_empty_verdict_refuted :
  let s1 := st_old 2 0 lost_acts in
  let r := run (step_old 2 0) s1 lost_after in
  reach (init 2) (step_old 2 0) s1 /\ (forall t, th s1 t = Idle) /\ In (8, 7) (g_ok s1) /\ ~ In (8, 7) (g_out s1) /\
  snd r = 0%nat /\ rets (snd (fst r)) = [(4, [3]); (3, [3]); (1, [3])] /\ g_ovf (fst (fst r)) = false /\
  (forall s, In s (states_along (step_old 2 0) s1 lost_after) ->
     g_own s 1 = OFull 8 /\ store s 1 = 7 /\ g_eq (ra s) 8 = EPub 1 /\ g_out s = g_out s1).
Proof.
  cbv zeta. split; [apply run_reach|]. split; [apply lost_state|].
  split; [vm_compute; tauto|]. split.
  { vm_compute. intros H. repeat (destruct H as [H|H]; [discriminate H|]). exact H. }
  split; [vm_compute; reflexivity|]. split; [vm_compute; reflexivity|]. split; [vm_compute; reflexivity|].
  assert (H : forallb (fun s => match g_own s 1, g_eq (ra s) 8 with
                                | OFull 8, EPub 1 => (store s 1 =? 7)
                                | _, _ => false end)
                      (states_along (step_old 2 0) (st_old 2 0 lost_acts) lost_after) = true) by (vm_compute; reflexivity).
  assert (Hout : forallb (fun s => leqb (g_out s) (g_out (st_old 2 0 lost_acts)))
                      (states_along (step_old 2 0) (st_old 2 0 lost_acts) lost_after) = true) by (vm_compute; reflexivity).
  intros s Hs. pose proof (proj1 (forallb_forall _ _) H s Hs) as Hx. pose proof (proj1 (forallb_forall _ _) Hout s Hs) as Hy.
  cbv beta in Hx, Hy.
  destruct (g_own s 1) as [T|t|T|t]; try discriminate Hx.
  destruct (N.eq_dec T 8) as [->|Hne].
  2:{ exfalso. destruct T as [|p]; [discriminate Hx|]. do 4 (destruct p as [p|p|]; try discriminate Hx). congruence. }
  destruct (g_eq (ra s) 8) as [|u|i|]; try discriminate Hx.
  destruct (N.eq_dec i 1) as [->|Hne].
  2:{ exfalso. destruct i as [|p]; [discriminate Hx|]. destruct p as [p|p|]; try discriminate Hx. congruence. }
  apply N.eqb_eq in Hx.
  apply leqb_eq in Hy. repeat split; assumption.
Qed.

(** * BEFORE THE REPAIR: 'full' although only one of two cells is in use and nothing is in progress (capacity 2, 4 threads).
    The same interleaving on the FREE ring (dequeuers = try_push, enqueuers = try_pop): T1 (push 100) holds free
    ticket 0 and stops, T2 cycles the other index, T3 (push 200) takes free ticket 4 and stops, T2's last pop
    takes free ENQUEUE ticket 8 and stops, T4's push gives dequeue ticket 8 up ('full', legitimately); then T1
    finishes (100 is in the queue), T3 finishes ('full', legitimately: index 1 is still held by T2's pop), T2
    finishes: index 1 is published at free ticket 8 whose dequeue ticket was given up.  From now on the queue
    behaves like a queue of capacity 1: replayed line by line by the real code. *)
Definition full_acts : list action :=
  opn 1 (OPush 100) 3 ++
  opn 2 (OPush 1) 10 ++ opn 2 pop 9 ++ opn 2 (OPush 2) 9 ++ opn 2 pop 9 ++ opn 2 (OPush 3) 9 ++ opn 2 pop 11 ++
  opn 3 (OPush 200) 3 ++
  opn 2 (OPush 4) 9 ++ opn 2 pop 10 ++ opn 2 (OPush 5) 10 ++ opn 2 pop 10 ++ opn 2 (OPush 6) 10 ++ opn 2 pop 6 ++
  opn 4 (OPush 300) 8 ++
  steps 1 7 ++ steps 3 12 ++ steps 2 4.
Definition full_after : list action :=
  opn 4 (OPush 400) 9 ++ opn 4 pop 11 ++ opn 4 (OPush 500) 10 ++ opn 4 (OPush 600) 7.

Example full_state :
  let st := st_old 2 0 full_acts in
  sk_old 2 0 full_acts = 0%nat /\ g_ovf st = false /\ (forall t, th st t = Idle) /\
  map snd (g_in st) = [1; 2; 3; 4; 5; 6; 100] /\ map snd (g_out st) = [1; 2; 3; 4; 5; 6] /\
  g_own st 0 = OFull 6 /\ store st 0 = 100 /\
  g_own st 1 = OFree 8 /\ g_eq (rf st) 8 = EPub 1 /\ g_dq (rf st) 8 = DLeft /\ rhead (rf st) = 20 /\ rtail (rf st) = 20.
Proof.
  cbv zeta. split; [vm_compute; reflexivity|]. split; [vm_compute; reflexivity|]. split.
  - intros t. do 5 (destruct t as [|t]; [vm_compute; reflexivity|]). vm_compute. reflexivity.
  - vm_compute. repeat split; reflexivity.
Qed.

(** FULL statement of the C05 'full' verdict on the model -- FALSE: in the quiescent state after [full_acts]
    one value (100) is in the queue of capacity 2, no operation is in progress, and try_push answers 'full';
    after that value is popped the queue accepts ONE value and is 'full' again *)
Lemma nikb_full_verdict_refuted :
  let s1 := st_old 2 0 full_acts in
  let r := run (step_old 2 0) s1 full_after in
  reach (init 2) (step_old 2 0) s1 /\ (forall t, th s1 t = Idle) /\ g_ovf s1 = false /\
  length (g_in s1) = 7%nat /\ length (g_out s1) = 6%nat /\
  snd r = 0%nat /\ rets (snd (fst r)) = [(4, [0]); (4, [1; 100]); (4, [1]); (4, [0])] /\ g_ovf (fst (fst r)) = false /\
  stranded (rf s1) 8.
Proof.
  cbv zeta. split; [apply run_reach|]. split; [apply full_state|].
  split; [vm_compute; reflexivity|]. split; [vm_compute; reflexivity|]. split; [vm_compute; reflexivity|].
  split; [vm_compute; reflexivity|]. split; [vm_compute; reflexivity|]. split; [vm_compute; reflexivity|].
  exists 1. split; vm_compute; reflexivity.
Qed.

(** * AFTER THE REPAIR: the interleaving of [lost_acts] on the repaired code.  T2's push 7 holds enqueue ticket 8 and
    finds slot 0 = (cycle 1, UNSAFE, bottom) -- T3's delayed dequeue ticket 4 kept the flag --, loads head (beyond its
    ticket), gives ticket 8 up and publishes with ticket 10; the next pop returns 7.  Replayed line by line by the
    repaired code. *)
Definition repaired_acts : list action :=
  opn 1 (OPush 100) 10 ++ opn 1 pop 3 ++
  opn 2 (OPush 1) 9 ++ opn 2 pop 9 ++ opn 2 (OPush 2) 9 ++ opn 2 pop 9 ++ opn 2 (OPush 3) 9 ++ opn 2 pop 9 ++
  opn 2 (OPush 4) 11 ++
  opn 3 pop 3 ++
  opn 2 pop 9 ++ opn 2 (OPush 5) 9 ++ opn 2 pop 9 ++ opn 2 (OPush 6) 9 ++ opn 2 pop 9 ++ opn 2 (OPush 7) 6 ++
  opn 4 pop 8 ++
  steps 1 6 ++ steps 3 12 ++ steps 2 7 ++ opn 4 pop 9 ++ opn 4 pop 9.

Example repaired_run :
  let st := st_of 2 0 repaired_acts in
  sk_of 2 0 repaired_acts = 0%nat /\ g_ovf st = false /\
  rets (tr_of 2 0 repaired_acts) =
    [(1, [1]); (2, [1]); (2, [1; 1]); (2, [1]); (2, [1; 2]); (2, [1]); (2, [1; 3]); (2, [1]); (2, [1; 4]);
     (2, [1]); (2, [1; 5]); (2, [1]); (2, [1; 6]); (4, [3]); (1, [1; 100]); (3, [3]); (2, [1]); (4, [1; 7]); (4, [3])] /\
  g_eq (ra st) 8 = ESkip /\ g_dq (ra st) 8 = DLeft /\ g_eq (ra st) 10 = EPub 1 /\ g_dq (ra st) 10 = DTaken 1 /\
  g_in st = g_ok st /\ g_ret st = g_out st /\ length (g_in st) = 8%nat /\ length (g_out st) = 8%nat.
Proof. vm_compute. repeat split; reflexivity. Qed.

(** * ordinary runs *)

(** one thread, capacity 2: the threshold of the allocated ring counts the failing pops down from 3*2-1 = 5 to -1,
    then try_pop answers 'empty' after a single load; the third push finds the free ring empty: 'full' *)
Definition thr_acts : list action :=
  opn 1 (OPush 7) 10 ++ opn 1 pop 9 ++
  opn 1 pop 9 ++ opn 1 pop 9 ++ opn 1 pop 9 ++ opn 1 pop 9 ++ opn 1 pop 9 ++ opn 1 pop 9 ++ opn 1 pop 2 ++
  opn 1 (OPush 8) 10 ++ opn 1 (OPush 9) 9 ++ opn 1 (OPush 10) 9 ++ opn 1 pop 10.

Example thr_run :
  sk_of 2 0 thr_acts = 0%nat /\
  rets (tr_of 2 0 thr_acts) =
    [(1, [1]); (1, [1; 7]); (1, [3]); (1, [3]); (1, [3]); (1, [3]); (1, [3]); (1, [3]); (1, [3]);
     (1, [1]); (1, [1]); (1, [0]); (1, [1; 8])] /\
  rthr (ra (st_of 2 0 (firstn 81 thr_acts))) = ones64 /\            (* after the sixth failing pop: -1 *)
  g_ovf (st_of 2 0 thr_acts) = false.
Proof. vm_compute. repeat split; reflexivity. Qed.

(** a dequeuer overtakes an enqueuer: T1's push holds enqueue ticket 1 of the allocated ring and stops; T2's pop
    takes dequeue ticket 1, finds the slot empty, advances it to its own cycle (entry marked), sees tail <= head,
    runs catchup and answers 'empty'; T1 finds the slot in its own cycle, gives ticket 1 up, takes ticket 2 *)
Definition overtake_acts : list action :=
  opn 1 (OPush 7) 10 ++ opn 1 pop 9 ++ opn 1 (OPush 8) 6 ++ opn 2 pop 9 ++ steps 1 6.

Example overtake_run :
  let st := st_of 2 0 overtake_acts in
  sk_of 2 0 overtake_acts = 0%nat /\ rets (tr_of 2 0 overtake_acts) = [(1, [1]); (1, [1; 7]); (2, [3]); (1, [1])] /\
  g_eq (ra st) 1 = ESkip /\ g_dq (ra st) 1 = DLeft /\ g_eq (ra st) 2 = EPub 1 /\ g_dq (ra st) 2 = DNone /\
  g_in st = [(0, 7); (2, 8)] /\ g_out st = [(0, 7)] /\ g_own st 1 = OFull 2 /\ store st 1 = 8 /\
  rhead (ra st) = 4 /\ rtail (ra st) = 6 /\ g_ovf st = false.
Proof. vm_compute. repeat split; reflexivity. Qed.

(** * REPAIRED CODE: the threshold answers are not exact when 3*capacity or more dequeuers are delayed.
    Capacity 2 (threshold 3*2-1 = 5), 8 threads: T1 pushes and pops 1 (threshold 5); T2..T7 each start a pop on the
    empty queue, fail, run catchup and stop right before their threshold decrement; T1 pushes 7 (published with ticket
    7, head = tail = 14 words before, threshold still 5, nothing to reset); then the six delayed decrements bring the
    threshold to -1 and every later try_pop answers 'empty' after a single load -- although 7 is in the queue, nothing
    is in progress and its dequeue ticket has not even been handed out.  (The next push would reset the threshold and
    the value would be found.)  This is the behaviour of the SCQ algorithm itself, which assumes a bound on the number of
    threads; replayed line by line by the repaired code. *)
Definition thr8_acts : list action :=
  opn 1 (OPush 1) 10 ++ opn 1 pop 9 ++
  opn 2 pop 8 ++ opn 3 pop 8 ++ opn 4 pop 8 ++ opn 5 pop 8 ++ opn 6 pop 8 ++ opn 7 pop 8 ++
  opn 1 (OPush 7) 9 ++
  steps 2 1 ++ steps 3 1 ++ steps 4 1 ++ steps 5 1 ++ steps 6 1 ++ steps 7 1.

Lemma nikb_threshold_empty_refuted :
  let s1 := st_of 2 0 thr8_acts in
  let r := run (step 2 0) s1 (opn 8 pop 2 ++ opn 8 pop 2) in
  reach (init 2) (step 2 0) s1 /\ sk_of 2 0 thr8_acts = 0%nat /\ g_ovf s1 = false /\ (forall t, th s1 t = Idle) /\
  g_ok s1 = [(0, 1); (7, 7)] /\ g_out s1 = [(0, 1)] /\
  g_eq (ra s1) 7 = EPub 1 /\ g_dq (ra s1) 7 = DNone /\ rhead (ra s1) = 14 /\ rtail (ra s1) = 16 /\ rthr (ra s1) = ones64 /\
  snd r = 0%nat /\ rets (snd (fst r)) = [(8, [3]); (8, [3])].
Proof.
  cbv zeta. split; [apply run_reach|]. split; [vm_compute; reflexivity|]. split; [vm_compute; reflexivity|]. split.
  - intros t. do 9 (destruct t as [|t]; [vm_compute; reflexivity|]). vm_compute. reflexivity.
  - vm_compute. repeat split; reflexivity.
Qed.
