(** Ownership of thread control blocks and the critical-region flag in the generalised epoch based reclamation model
    (Model/GebrDefs.v), for every configuration ([O0], [O0_reach]).  No axioms. *)
From Coq Require Import NArith List Bool Arith Lia PeanoNat.
From XV Require Import Conc.Lts Conc.Ev Model.GebrDefs Proof.GebrBase Proof.GebrShape.
Import ListNotations.
Local Open Scope N_scope.

(** program points at which the critical-region flag of the thread is set for sure *)
Definition pcon (p : pc) : bool :=
  match p with
  | E2 _ | E3 _ | E4 _ _ | S1 _ _ | S2 _ _ _ | S3 _ _ _ | G1 _ _ | G2 _ _ | G3 _ _ | G4 _ _
  | G5 _ _ _ | G6 _ _ _ | G7 _ _ _ _ | U1 _ _ | U2 _ _ _ | U3 _ => true
  | _ => false
  end.
Definition isE1 (p : pc) : bool := match p with E1 _ => true | _ => false end.
(** the flag is set: the thread is synchronised, or between the fence and the end of do_enter_critical, or (eager) inside
    a region *)
Definition fon (cfg : config) (p : pc) (x : tls) : bool :=
  sync x || pcon p || (is_eager cfg && Nat.leb 1 (rent x) && negb (isE1 p)).

Ltac ofn := cbn [pcon isE1 walk_of cblk].
Ltac ofn_in H := cbn [pcon isE1 walk_of cblk] in H.

Record O0 (cfg : config) (s : state) : Prop := {
  o_own : forall u b, cb (tl s u) = Some b -> g_owner s b = Some u /\ In b (blist s);
  o_ownC : forall u b, cblk (th s u) = Some b -> g_owner s b = Some u /\ ~ In b (blist s) /\ bflag s b = false;
  o_rev : forall b u, g_owner s b = Some u -> (cb (tl s u) = Some b \/ cblk (th s u) = Some b) /\ bstate s b = 2 /\ b < nalloc s;
  o_inlt : forall b, In b (blist s) -> b < nalloc s;
  o_walk : forall u b, In b (walk_of (th s u)) -> In b (blist s);
  o_flag : forall u b, cb (tl s u) = Some b -> fon cfg (th s u) (tl s u) = true -> bflag s b = true }.

Lemma owner_untouched cfg s t u b : O0 cfg s -> g_owner s b = Some u -> u <> t -> ~ touched s t b.
Proof.
  intros I Ho Hne [H|[H|[(k & rest & H & H0)|(k & H)]]].
  - apply (o_own cfg s I) in H. destruct H as [H _]. congruence.
  - apply (o_rev cfg s I) in Ho. destruct Ho as (_ & _ & Hlt). subst b. lia.
  - apply (o_rev cfg s I) in Ho. destruct Ho as (_ & Hst & _). rewrite Hst in H0. discriminate.
  - assert (Hc : cblk (th s t) = Some b) by (rewrite H; reflexivity).
    apply (o_ownC cfg s I) in Hc. destruct Hc as [Hc _]. congruence.
Qed.

(** the other threads: nothing they rely on is touched *)
Lemma O0_other cfg ns s t s' es u : O0 cfg s -> step cfg ns s (Step t) = Some (s', es) -> u <> t ->
  (forall b, cb (tl s' u) = Some b -> g_owner s' b = Some u /\ In b (blist s')) /\
  (forall b, cblk (th s' u) = Some b -> g_owner s' b = Some u /\ ~ In b (blist s') /\ bflag s' b = false) /\
  (forall b, In b (walk_of (th s' u)) -> In b (blist s')) /\
  (forall b, cb (tl s' u) = Some b -> fon cfg (th s' u) (tl s' u) = true -> bflag s' b = true).
Proof.
  intros I H Hne. destruct (step_frame _ _ _ _ _ _ H) as (Fth & Fb & Fl & _).
  destruct (Fth u Hne) as [-> ->].
  assert (Hin : forall b, In b (blist s) -> In b (blist s')).
  { destruct Fl as [->|(k & b0 & h & _ & ->)]; intros b Hb; [exact Hb|right; exact Hb]. }
  repeat split.
  - apply (o_own cfg s I) in H0. destruct H0 as [Ho _].
    destruct (Fb b (owner_untouched _ _ _ _ _ I Ho Hne)) as (_ & _ & _ & ->). exact Ho.
  - apply Hin. apply (o_own cfg s I) in H0. apply H0.
  - apply (o_ownC cfg s I) in H0. destruct H0 as [Ho _].
    destruct (Fb b (owner_untouched _ _ _ _ _ I Ho Hne)) as (_ & _ & _ & ->). exact Ho.
  - apply (o_ownC cfg s I) in H0. destruct H0 as (Ho & Hni & _).
    destruct Fl as [->|(k & b0 & h & Hpc & ->)]; [exact Hni|].
    intros [->|Hi]; [|contradiction].
    assert (Hc : cblk (th s t) = Some b) by (rewrite Hpc; reflexivity).
    apply (o_ownC cfg s I) in Hc. destruct Hc as [Hc _]. congruence.
  - apply (o_ownC cfg s I) in H0. destruct H0 as (Ho & _ & Hf).
    destruct (Fb b (owner_untouched _ _ _ _ _ I Ho Hne)) as (_ & -> & _ & _). exact Hf.
  - intros b Hb. apply Hin. eapply (o_walk cfg s I); eauto.
  - intros b Hb Hf. pose proof (o_flag cfg s I u b Hb Hf) as Hfl. apply (o_own cfg s I) in Hb. destruct Hb as [Ho _].
    destruct (Fb b (owner_untouched _ _ _ _ _ I Ho Hne)) as (_ & -> & _ & _). exact Hfl.
Qed.

Ltac split_upd_all :=
  repeat match goal with
  | |- context [upd ?f ?t ?v ?t] => rewrite (upd_same f t v)
  | H : context [upd ?f ?t ?v ?t] |- _ => rewrite (upd_same f t v) in H
  | H : ?u <> ?t |- context [upd ?f ?t ?v ?u] => rewrite (upd_other f t v u H)
  | H : ?u <> ?t, H2 : context [upd ?f ?t ?v ?u] |- _ => rewrite (upd_other f t v u H) in H2
  | |- context [upd ?f ?t ?v ?u] => destruct (Nat.eq_dec u t); [subst u|]
  | H2 : context [upd ?f ?t ?v ?u] |- _ => destruct (Nat.eq_dec u t); [subst u|]
  end.
Ltac split_updN_all :=
  repeat match goal with
  | |- context [updN ?f ?i ?v ?i] => rewrite (updN_same f i v)
  | H : context [updN ?f ?i ?v ?i] |- _ => rewrite (updN_same f i v) in H
  | H : ?j <> ?i |- context [updN ?f ?i ?v ?j] => rewrite (updN_other f i v j H)
  | H : ?j <> ?i, H2 : context [updN ?f ?i ?v ?j] |- _ => rewrite (updN_other f i v j H) in H2
  | |- context [updN ?f ?i ?v ?j] => destruct (N.eq_dec j i); [subst j|]
  | H2 : context [updN ?f ?i ?v ?j] |- _ => destruct (N.eq_dec j i); [subst j|]
  end.

Ltac use_pc :=
  repeat match goal with
  | E : th ?s ?t = _, H : context [th ?s ?t] |- _ => rewrite E in H
  end.
Ltac inj_some :=
  repeat match goal with
  | H : Some ?a = Some ?b |- _ => first [ is_var b; injection H as <- | is_var a; injection H as -> | injection H as H ]
  end.
Ltac ofacts :=
  repeat match goal with
  | Iown : forall u b, cb (tl ?s u) = Some b -> g_owner ?s b = Some u /\ In b (blist ?s), H : cb (tl ?s ?u) = Some ?b |- _ =>
    lazymatch goal with | _ : g_owner s b = Some u |- _ => fail | _ => let X := fresh in pose proof (Iown u b H) as X; destruct X as [? ?] end
  | IownC : forall u b, cblk (th ?s u) = Some b -> g_owner ?s b = Some u /\ ~ In b (blist ?s) /\ bflag ?s b = false, H : cblk (th ?s ?u) = Some ?b |- _ =>
    lazymatch goal with | _ : g_owner s b = Some u |- _ => fail | _ => let X := fresh in pose proof (IownC u b H) as X; destruct X as (? & ? & ?) end
  | IownCt : forall b, Some ?b0 = Some b -> _ |- _ =>
    let X := fresh in pose proof (IownCt b0 eq_refl) as X; destruct X as (? & ? & ?); clear IownCt
  | Irev : forall b u, g_owner ?s b = Some u -> (cb (tl ?s u) = Some b \/ cblk (th ?s u) = Some b) /\ bstate ?s b = 2 /\ b < nalloc ?s, H : g_owner ?s ?b = Some ?u |- _ =>
    lazymatch goal with | _ : bstate s b = 2 |- _ => fail | _ => let X := fresh in pose proof (Irev b u H) as X; destruct X as (? & ? & ?) end
  | Iinlt : forall b, In b (blist ?s) -> b < nalloc ?s, H : In ?b (blist ?s) |- _ =>
    lazymatch goal with | _ : b < nalloc s |- _ => fail | _ => pose proof (Iinlt b H) end
  end.

Ltac pos_facts :=
  repeat match goal with
  | E : ?g ?s0 = Some ?x, L : (?s0 < ?ns)%nat |- _ =>
    lazymatch goal with | _ : (1 <= cnt_held g ns)%nat |- _ => fail | _ => pose proof (cnt_pos _ _ _ _ E L) end
  end.

Lemma fon_mono cfg p x p' x' : fon cfg p' x' = true ->
  (sync x' = true -> sync x = true) -> (pcon p' = true -> pcon p = true) ->
  (is_eager cfg = true -> (1 <= rent x')%nat -> isE1 p' = false -> (1 <= rent x)%nat /\ isE1 p = false) ->
  fon cfg p x = true.
Proof.
  unfold fon. intros H H1 H2 H3.
  destruct (sync x'); [rewrite H1 by reflexivity; reflexivity|].
  destruct (pcon p'); [rewrite H2 by reflexivity; rewrite orb_true_r; reflexivity|].
  cbn [orb] in H. apply andb_true_iff in H. destruct H as [H H4]. apply andb_true_iff in H. destruct H as [H5 H6].
  apply Nat.leb_le in H6. apply negb_true_iff in H4. destruct (H3 H5 H6 H4) as [H7 H8].
  rewrite H5, H8. apply Nat.leb_le in H7. rewrite H7. cbn. rewrite !orb_true_r. reflexivity.
Qed.
Lemma rent_dec_pos cfg n : (1 <= rent_dec cfg n)%nat -> (1 <= n)%nat.
Proof. unfold rent_dec. destruct (rext cfg); lia. Qed.
Lemma eager_first_false cfg x : eager_first cfg x = false -> is_eager cfg = true -> (1 <= rent x)%nat.
Proof. unfold eager_first, is_eager. destruct (rext cfg); try discriminate. intros H _. apply Nat.eqb_neq in H. lia. Qed.
Lemma not_eager cfg : rext cfg <> REager -> is_eager cfg = true -> False.
Proof. unfold is_eager. destruct (rext cfg); congruence. Qed.

Lemma fon_eager cfg p x : rext cfg = REager -> (1 <= rent x)%nat -> isE1 p = false -> fon cfg p x = true.
Proof.
  unfold fon, is_eager. intros -> H ->. apply Nat.leb_le in H. rewrite H. cbn. rewrite orb_true_r. reflexivity.
Qed.
Lemma is_eager_true cfg : rext cfg = REager -> is_eager cfg = true.
Proof. unfold is_eager. intros ->. reflexivity. Qed.

Lemma fon_pcon cfg p x : pcon p = true -> fon cfg p x = true.
Proof. unfold fon. intros ->. rewrite orb_true_r. reflexivity. Qed.
Lemma fon_false cfg p x : sync x = false -> pcon p = false -> rent x = O -> fon cfg p x = false.
Proof. unfold fon. intros -> -> ->. cbn. rewrite andb_false_r. reflexivity. Qed.

(* the flag: [fon] afterwards implies [fon] before, or the flag was just set / seen *)
Ltac flag_tac :=
  split_updN_all; try reflexivity; try congruence;
  first [ assumption
        | match goal with
          | Iflagt : forall b, _ = Some b -> fon ?c ?p ?x = true -> bflag ?s b = true, H0 : fon ?c ?p' ?x' = true |- bflag ?s ?b0 = true =>
            apply Iflagt; [first [assumption | reflexivity | congruence]|];
            apply (fon_mono c p x p' x' H0); prj; ofn;
            [ intros; first [assumption | discriminate | congruence]
            | intros; first [reflexivity | discriminate | assumption]
            | let He := fresh "He" in let Hr := fresh "Hr" in intros He Hr ?;
              split; [first [ lia | apply rent_dec_pos in Hr; lia | eapply eager_first_false; eassumption
                            | exfalso; eapply not_eager; [|exact He]; congruence ]
                     | first [reflexivity | discriminate | assumption]] ]
          | Iflagt : forall b, _ = Some b -> fon ?c ?p ?x = true -> bflag ?s b = true, Er : rext ?c = REager |- bflag ?s ?b0 = true =>
            apply Iflagt; [first [assumption | reflexivity | congruence]|];
            apply (fon_eager c p x Er); [eapply eager_first_false; [eassumption | apply is_eager_true; exact Er] | reflexivity]
          | Iflagt : forall b, _ = Some b -> fon ?c ?p ?x = true -> bflag ?s b = true |- bflag ?s ?b0 = true =>
            apply Iflagt; [first [assumption | reflexivity | congruence]|]; apply fon_pcon; reflexivity
          | H0 : fon ?c ?p' ?x' = true |- _ =>
            exfalso; rewrite (fon_false c p' x') in H0;
            [ discriminate H0
            | prj; first [reflexivity | assumption | congruence]
            | ofn; reflexivity
            | prj; first [ assumption | lia
                         | match goal with Hn : nest ?y = O, Hr : rg ?y = None, Tr : rent ?y = rent_exp _ _ _ |- rent ?y = O =>
                             rewrite Tr, Hn, Hr; apply rent_exp_0 end ] ]
          end ].

Ltac ofin :=
  split_upd_all; prj; prj_hyps; split_updN_all; inj_some; cleanup; ofacts; use_pc;
  repeat match goal with H : _ |- _ => progress fn_in H end; fn; sel; fn;
  repeat match goal with H : _ |- _ => progress fn_in H end; bool_eqs;
  repeat match goal with
  | |- context [Nat.eqb ?a ?b] => destruct (Nat.eqb_spec a b)
  | H : context [Nat.eqb ?a ?b] |- _ => destruct (Nat.eqb_spec a b)
  end;
  first [ assumption | reflexivity | discriminate | congruence | lia | exfalso; congruence | exfalso; lia
        | solve [auto] | left; assumption | right; assumption | left; congruence | right; congruence ].

Ltac ofin2 :=
  split_upd_all; prj; prj_hyps; split_updN_all; inj_some; cleanup; ofacts; use_pc;
  repeat match goal with H : _ |- _ => progress fn_in H end; fn; sel; fn;
  repeat match goal with H : _ |- _ => progress fn_in H end; bool_eqs; cleanup;
  repeat match goal with
  | H : _ \/ _ |- _ => destruct H
  | H : In _ (_ :: _) |- _ => destruct H; [subst|]
  | H : In _ [] |- _ => destruct H
  end; inj_some; try subst; ofacts;
  first [ assumption | reflexivity | discriminate | congruence | lia | exfalso; congruence | exfalso; lia
        | solve [auto] | solve [eauto 2] | left; assumption | right; assumption | left; congruence | right; congruence
        | match goal with Iwalkt : forall b, In b _ -> In b (blist _) |- In _ (blist _) => apply Iwalkt; simpl; tauto end
        | match goal with Iinlt : forall b, In b (blist ?s) -> b < nalloc ?s |- ~ In _ (blist ?s) => let X := fresh in intros X; apply Iinlt in X; lia end
        | simpl; tauto ].

Lemma O0_self cfg ns s t s' es : O0 cfg s -> tshape cfg ns (th s t) (tl s t) -> step cfg ns s (Step t) = Some (s', es) ->
  (forall b, cb (tl s' t) = Some b -> g_owner s' b = Some t /\ In b (blist s')) /\
  (forall b, cblk (th s' t) = Some b -> g_owner s' b = Some t /\ ~ In b (blist s') /\ bflag s' b = false) /\
  (forall b, In b (walk_of (th s' t)) -> In b (blist s')) /\
  (forall b, cb (tl s' t) = Some b -> fon cfg (th s' t) (tl s' t) = true -> bflag s' b = true) /\
  (forall b u, g_owner s' b = Some u -> (cb (tl s' u) = Some b \/ cblk (th s' u) = Some b) /\ bstate s' b = 2 /\ b < nalloc s') /\
  (forall b, In b (blist s') -> b < nalloc s').
Proof.
  intros I T H. unfold_step H. cbv zeta in H. step_split H.
  all: bool_eqs; prj; rewrite ?upd_same; prj; prj_hyps; rewrite ?upd_same in *; prj_hyps.
  all: try match goal with E : th _ _ = _ |- _ => rewrite E in T end.
  all: destruct T as [Tneed Tno Tfresh Tcnt Trent Tslot Thi Tc Te Tlv Tx Tsync Tg Tinit].
  all: fn_in Tneed; fn_in Tno; fn_in Tcnt; fn_in Tslot; fn_in Tc; fn_in Te; fn_in Tlv; fn_in Tx; fn_in Tsync; fn_in Tg; fn_in Tinit.
  all: cnt_facts.
  all: destruct I as [Iown IownC Irev Iinlt Iwalk Iflag].
  all: match goal with E : th ?s ?t = _ |- _ =>
         pose proof (Iown t) as Iownt; pose proof (IownC t) as IownCt; pose proof (Iwalk t) as Iwalkt; pose proof (Iflag t) as Iflagt;
         rewrite E in IownCt, Iwalkt, Iflagt; ofn_in IownCt; ofn_in Iwalkt end.
  all: repeat split; intros.
  all: try solve [first [assumption | reflexivity | discriminate | congruence | lia | auto | eauto 2]].
  all: try solve [timeout 5 ofin].
  all: try solve [timeout 10 ofin2].
  all: try solve [timeout 20 (inj_some; cleanup; pos_facts; use_ll; sel; flag_tac)].
  all: try solve [split_updN_all; [apply Iinlt; apply Iwalkt; left; reflexivity | apply Irev in H; apply H]].
Qed.

Section ReachO.
Variables (cfg : config) (ns : nat) (nc : N).

Lemma O0_init : O0 cfg (init nc).
Proof. constructor; cbn; intros; try congruence; try discriminate; try contradiction; try reflexivity. Qed.

Lemma O0_start s t o s' es : O0 cfg s -> tshape cfg ns (th s t) (tl s t) -> step cfg ns s (Start t o) = Some (s', es) -> O0 cfg s'.
Proof.
  intros I T H. unfold step in H. step_split H.
  all: bool_eqs.
  all: try match goal with E : th _ _ = _ |- _ => rewrite E in T end.
  all: destruct T as [Tneed Tno Tfresh Tcnt Trent Tslot Thi Tc Te Tlv Tx Tsync Tg Tinit].
  all: fn_in Tneed; fn_in Tno; fn_in Tcnt; fn_in Tslot; fn_in Tc; fn_in Te; fn_in Tlv; fn_in Tx; fn_in Tsync; fn_in Tg; fn_in Tinit.
  all: cnt_facts.
  all: destruct I as [Iown IownC Irev Iinlt Iwalk Iflag].
  all: match goal with E : th ?s ?t = _ |- _ =>
         pose proof (Iown t) as Iownt; pose proof (IownC t) as IownCt; pose proof (Iwalk t) as Iwalkt; pose proof (Iflag t) as Iflagt;
         rewrite E in IownCt, Iwalkt, Iflagt; ofn_in IownCt; ofn_in Iwalkt end.
  all: constructor; prj; intros.
  all: try solve [first [assumption | eauto 2]].
  all: try solve [timeout 10 ofin2].
  split_upd_all; prj_hyps; [flag_tac | eapply Iflag; eassumption].
Qed.

Lemma O0_step s a s' es : T0 cfg ns s -> O0 cfg s -> step cfg ns s a = Some (s', es) -> O0 cfg s'.
Proof.
  intros T I H. destruct a as [t o|t]; [eapply O0_start; eauto|].
  destruct (O0_self _ _ _ _ _ _ I (T t) H) as (S1 & S2 & S3 & S4 & S5 & S6).
  constructor; try assumption.
  - intros u b Hb. destruct (Nat.eq_dec u t) as [->|Hne]; [apply S1; exact Hb|].
    destruct (O0_other _ _ _ _ _ _ u I H Hne) as (X1 & _). apply X1; exact Hb.
  - intros u b Hb. destruct (Nat.eq_dec u t) as [->|Hne]; [apply S2; exact Hb|].
    destruct (O0_other _ _ _ _ _ _ u I H Hne) as (_ & X2 & _). apply X2; exact Hb.
  - intros u b Hb. destruct (Nat.eq_dec u t) as [->|Hne]; [apply S3; exact Hb|].
    destruct (O0_other _ _ _ _ _ _ u I H Hne) as (_ & _ & X3 & _). apply X3; exact Hb.
  - intros u b Hb. destruct (Nat.eq_dec u t) as [->|Hne]; [apply S4; exact Hb|].
    destruct (O0_other _ _ _ _ _ _ u I H Hne) as (_ & _ & _ & X4). apply X4; exact Hb.
Qed.

Lemma O0_reach s : reachable cfg ns nc s -> O0 cfg s.
Proof.
  apply (inv_rule_aux _ _ _ _ _ (T0 cfg ns) (O0 cfg) (T0_reach cfg ns nc) O0_init).
  intros s0 a s1 es J _ I H. eapply O0_step; eauto.
Qed.
End ReachO.
