(** C16 for xenium::ramalhete_queue: push and pop finish within an explicit number of solo steps from
    EVERY reachable wrap-free state (any number of other threads stopped anywhere inside their
    operations), provided the 32-bit counters have head room for the run.
    Measure: W * (number of times the thread can still jump back to the top of its loop) + position
    inside the loop.  A push running alone jumps back at most once to help a lagging tail and once
    per remaining ticket of the last node (tickets poisoned by stopped poppers); a pop once per
    remaining ticket of every node from head on (tickets whose pushers are stopped are poisoned)
    and once per node it unlinks (a hand-over iteration is 8 steps: (9) (10) push_idx (11) (12) and the
    two CASes (16) on _tail and (13) on _head; it fits into the loop weight W). *)
From Coq Require Import NArith List Bool Lia PeanoNat.
From XV Require Import Base.Word Conc.Lts Conc.Ev Conc.Solo gen.RamalheteNodeGen Proof.RamalheteNode Model.RamDefs
  Proof.RamBase Proof.RamTickets Proof.RamCons Proof.RamInv.
Import ListNotations.
Local Open Scope N_scope.

Definition idle (s : state) (t : nat) : bool := match th s t with Idle => true | _ => false end.

Section RamSolo.
  Variables E R : N.
  Hypothesis HE : 1 <= E.
  Hypothesis HM : C_step_size E * E < 2 ^ 32.
  Notation S := (SS E).
  Notation tk := (tick_of E).
  Notation pa := (pa E).
  Notation pd := (pd E).
  Notation reachable := (reach init (step E R)).
  Local Notation IA := (InvA_reach E R HE HM).

  Definition nE : nat := N.to_nat E.
  Definition nR : nat := N.to_nat R.
  Definition W : nat := (nE + nR + 14)%nat.
  Definition ne (a b : N) : nat := if a =? b then 0%nat else 1%nat.
  Definition nz (a : N) : nat := if a =? 0 then 0%nat else 1%nat.
  Definition lastn (s : state) : N := last (g_nodes s) 0.
  (** nodes behind head *)
  Definition after_head (s : state) : nat := (length (g_nodes s) - length (g_retired s) - 1)%nat.
  (** jumps back a push can still make from the top of its loop / a pop *)
  Definition Gp (s : state) : nat := (ne (tail s) (lastn s) + N.to_nat (E - N.min (pa s (lastn s)) E))%nat.
  Definition Gd (s : state) : nat := (N.to_nat (E - N.min (pd s (head s)) E) + (nE + 1) * after_head s)%nat.

  Definition mu_pc (s : state) (p : pc) : nat :=
    match p with
    | Idle => 0
    | Begin (OPush _) => W * (Gp s + 1)
    | Begin OPop => W * (Gd s + 1)
    | P1 _ => W * Gp s + (nE + 12)
    | P2 _ t => W * (Gp s + ne t (tail s)) + (nE + 11)
    | P3 _ t => W * (Gp s + ne t (tail s)) + (nE + 10)
    | P4 _ t => W * (Gp s + ne t (tail s)) + (nE + 9)
    | P5 _ t _ i => W * (Gp s + nz (nnext s t)) + (8 + (nE - N.to_nat i))
    | P6 _ t _ => W * (Gp s + nz (nnext s t)) + 7
    | P6a _ _ => W * (Gp s + 1) + 6
    | P6b _ _ => W * (Gp s + 1) + 5
    | P6c _ _ => W * (Gp s + 1) + 4
    | P9 _ t => W * (Gp s + ne t (tail s)) + 7
    | P10 _ t _ => W * (Gp s + ne t (tail s)) + 6
    | P8 _ _ _ => W * (Gp s + 1) + 5
    | P7 _ _ => 1
    | D1 => W * Gd s + (nR + 12)
    | D2 h => W * (Gd s + ne h (head s)) + (nR + 11)
    | D3 h _ => W * (Gd s + ne h (head s)) + (nR + 10)
    | D4 h => W * (Gd s + ne h (head s)) + (nR + 9)
    | D5 h => W * (Gd s + ne h (head s)) + (nR + 8)
    | D6 h => W * (Gd s + ne h (head s)) + 4
    | D6t h _ => W * (Gd s + ne h (head s)) + 3
    | D7 h _ => W * (Gd s + ne h (head s)) + 2
    | D9 _ _ c => W * (Gd s + 1) + (4 + (nR - N.to_nat c))
    | D11 _ _ => W * (Gd s + 1) + 2
    | D10 _ _ _ => 1
    end%nat.
  Definition mu (t : nat) (s : state) : nat := mu_pc s (th s t).

  (** head room of the 32-bit counters for B more fetch_adds *)
  Definition headroom (s : state) (B : nat) : Prop :=
    forall n, In n (g_nodes s) -> pushi s n + S * N.of_nat B < 2 ^ 32 /\ popi s n + S * N.of_nat B < 2 ^ 32.

  (** ** facts about the last node *)
  Lemma lastn_in s : InvA E s -> In (lastn s) (g_nodes s) /\ nnext s (lastn s) = 0.
  Proof using HE HM.
    intros HA. split.
    - apply last_in. destruct (nodes_nonempty E HE HM s (a_path _ _ HA)) as [x Hx]. intros Hc. rewrite Hc in Hx. destruct Hx.
    - apply MsqInv.lpath_last_null. exact (a_path _ _ HA).
  Qed.

  Lemma null_is_last s n : InvA E s -> In n (g_nodes s) -> nnext s n = 0 -> n = lastn s.
  Proof using HE HM.
    intros HA Hn Hz. destruct (MsqInv.lpath_last _ _ (a_path _ _ HA) n Hn Hz) as [l0 El]. unfold lastn. rewrite El, last_last. reflexivity.
  Qed.

  Lemma not_full_is_last s n : InvA E s -> In n (g_nodes s) -> pa s n < E -> n = lastn s.
  Proof using HE HM.
    intros HA Hn Hlt. apply null_is_last; [exact HA|exact Hn|].
    destruct (N.eq_dec (nnext s n) 0) as [e|e]; [exact e|]. pose proof (a_full _ _ HA n Hn e). lia.
  Qed.

  Lemma tail_next_last s nx : InvA E s -> nnext s (tail s) = nx -> nx <> 0 -> nx = lastn s /\ tail s <> lastn s.
  Proof using HE HM.
    intros HA Hn Hz. destruct (tail_lag E HE HM s nx (a_path _ _ HA) (a_tail _ _ HA) Hn Hz) as [l0 El].
    split.
    - unfold lastn. rewrite El. change (l0 ++ [tail s; nx]) with (l0 ++ [tail s] ++ [nx]). rewrite app_assoc, last_last. reflexivity.
    - intros Hc. destruct (lastn_in s HA) as [_ Hl]. rewrite <- Hc in Hl. congruence.
  Qed.

  Lemma Gp_eq s s' : tail s' = tail s -> g_nodes s' = g_nodes s -> pushi s' (lastn s) = pushi s (lastn s) -> Gp s' = Gp s.
  Proof using. intros H1 H2 H3. unfold Gp, lastn, RamBase.pa in *. rewrite H1, H2, H3. reflexivity. Qed.

  Lemma Gd_eq s s' : head s' = head s -> g_nodes s' = g_nodes s -> g_retired s' = g_retired s ->
    popi s' (head s) = popi s (head s) -> Gd s' = Gd s.
  Proof using. intros H1 H2 H3 H4. unfold Gd, after_head, RamBase.pd in *. rewrite H1, H2, H3, H4. reflexivity. Qed.

  (** fetch_add on push_idx of a full node *)
  Lemma Gp_faa_full s s' t0 : InvA E s -> In t0 (g_nodes s) -> E <= pa s t0 ->
    tail s' = tail s -> g_nodes s' = g_nodes s -> pushi s' = setf (pushi s) t0 (pushi s t0 + S) -> Gp s' = Gp s.
  Proof using HE HM.
    intros HA Hin Hfull H1 H2 H3. unfold Gp, lastn, RamBase.pa in *. rewrite H1, H2, H3. f_equal.
    unfold setf. destruct (N.eqb_spec (last (g_nodes s) 0) t0) as [e|e]; [|reflexivity]. rewrite e.
    destruct (aligned_step E HE HM _ (proj1 (a_al _ _ HA t0 Hin))) as [_ Hts]. rewrite Hts. rewrite !N.min_r by lia. reflexivity.
  Qed.

  (** fetch_add on push_idx that yields a ticket: the node is the last one, one ticket less remains *)
  Lemma Gp_faa_ticket s s' t0 : InvA E s -> In t0 (g_nodes s) -> pa s t0 < E ->
    tail s' = tail s -> g_nodes s' = g_nodes s -> pushi s' = setf (pushi s) t0 (pushi s t0 + S) -> (Gp s' + 1 = Gp s)%nat.
  Proof using HE HM.
    intros HA Hin Hlt H1 H2 H3. pose proof (not_full_is_last s t0 HA Hin Hlt) as Hl.
    unfold Gp, lastn, RamBase.pa in *. rewrite H1, H2, H3. rewrite <- Hl. rewrite setf_same.
    destruct (aligned_step E HE HM _ (proj1 (a_al _ _ HA t0 Hin))) as [_ Hts]. rewrite Hts. rewrite !N.min_l by lia. lia.
  Qed.

  (** the tail is swung to its successor *)
  Lemma Gp_swing s s' nx : InvA E s -> nnext s (tail s) = nx -> nx <> 0 ->
    tail s' = nx -> g_nodes s' = g_nodes s -> pushi s' = pushi s -> (Gp s' + 1 = Gp s)%nat.
  Proof using HE HM.
    intros HA Hn Hz H1 H2 H3. destruct (tail_next_last s nx HA Hn Hz) as [Hl Hne].
    unfold Gp, lastn, RamBase.pa in *. rewrite H1, H2, H3. unfold ne.
    destruct (N.eqb_spec nx (last (g_nodes s) 0)); [|contradiction]. destruct (N.eqb_spec (tail s) (last (g_nodes s) 0)); [contradiction|]. lia.
  Qed.

  Lemma after_head_rest s rest : g_nodes s = g_retired s ++ head s :: rest -> after_head s = length rest.
  Proof using HE HM. intros He. unfold after_head. rewrite He, app_length. cbn [length]. lia. Qed.

  (** fetch_add on pop_idx of a drained node, or of a node that is not the head *)
  Lemma Gd_faa_full s s' h : InvA E s -> in_old s h -> E <= pd s h ->
    head s' = head s -> g_nodes s' = g_nodes s -> g_retired s' = g_retired s -> popi s' = setf (popi s) h (popi s h + S) -> Gd s' = Gd s.
  Proof using HE HM.
    intros HA Hold Hfull H1 H2 H3 H4. unfold Gd, after_head, RamBase.pd in *. rewrite H1, H2, H3, H4. f_equal. f_equal. f_equal.
    unfold setf. destruct (N.eqb_spec (head s) h) as [e|e]; [|reflexivity]. rewrite e.
    pose proof (old_in_nodes E HE HM s h (a_head _ _ HA) Hold) as Hin.
    destruct (aligned_step E HE HM _ (proj2 (a_al _ _ HA h Hin))) as [_ Hts]. rewrite Hts. rewrite !N.min_r by lia. reflexivity.
  Qed.

  Lemma Gd_faa_ticket s s' h : InvA E s -> in_old s h -> pd s h < E ->
    head s' = head s -> g_nodes s' = g_nodes s -> g_retired s' = g_retired s -> popi s' = setf (popi s) h (popi s h + S) ->
    h = head s /\ (Gd s' + 1 = Gd s)%nat.
  Proof using HE HM.
    intros HA Hold Hlt H1 H2 H3 H4.
    assert (Hh : h = head s).
    { unfold in_old in Hold. apply in_app_or in Hold. destruct Hold as [Hc|[Hc|[]]]; [|symmetry; exact Hc].
      pose proof (a_ret _ _ HA h Hc). lia. }
    split; [exact Hh|]. subst h. pose proof (old_in_nodes E HE HM s _ (a_head _ _ HA) Hold) as Hin.
    unfold Gd, after_head, RamBase.pd in *. rewrite H1, H2, H3, H4. rewrite setf_same.
    destruct (aligned_step E HE HM _ (proj2 (a_al _ _ HA _ Hin))) as [_ Hts]. rewrite Hts. rewrite !N.min_l by lia. lia.
  Qed.

  (** the head is swung to its successor *)
  Lemma Gd_swing s s' nx : InvA E s -> E + 1 <= pd s (head s) -> nnext s (head s) = nx -> nx <> 0 ->
    head s' = nx -> g_nodes s' = g_nodes s -> g_retired s' = g_retired s ++ [head s] -> popi s' = popi s -> (Gd s' + 1 = Gd s)%nat.
  Proof using HE HM.
    intros HA Hcnt Hn Hz H1 H2 H3 H4. destruct (a_head _ _ HA) as (rest & He & Hr).
    pose proof (a_path _ _ HA) as Hp. rewrite He in Hp. apply MsqInv.lpath_suffix in Hp; [|discriminate].
    destruct (MsqInv.lpath_hd_next _ _ _ Hp ltac:(congruence)) as [r' Er]. rewrite Hn in Er. subst rest.
    unfold Gd, after_head, RamBase.pd in *. rewrite H1, H2, H3, H4. rewrite (Hr nx (or_introl eq_refl)), (tick_0 E HE HM).
    rewrite He, !app_length. cbn [length]. rewrite N.min_l by lia. rewrite N.min_r by lia. unfold nE. nia.
  Qed.

  Ltac hb := repeat match goal with
    | H : (_ =? _) = true |- _ => apply N.eqb_eq in H
    | H : (_ =? _) = false |- _ => apply N.eqb_neq in H
    | H : (_ <? _) = true |- _ => apply N.ltb_lt in H
    | H : (_ <? _) = false |- _ => apply N.ltb_ge in H
    end.

  Lemma wadd_le x : wadd 32 x S <= x + S.
  Proof using. unfold wadd. apply N.mod_le. apply N.pow_nonzero. discriminate. Qed.

  Lemma step_total s t : idle s t = false -> exists s' es, step E R s (Step t) = Some (s', es).
  Proof using.
    unfold idle, step, step_gen. destruct (th s t); intros Hi; try discriminate Hi; cbv beta iota zeta;
      repeat match goal with |- context [match ?x with _ => _ end] => destruct x end; eexists; eexists; reflexivity.
  Qed.

  (* resolve the 0/1 flags *)
  Ltac flags := unfold ne, nz in *;
    repeat match goal with
    | |- context [?a =? ?b] => destruct (N.eqb_spec a b)
    end.

  Lemma ne_cases a b : (a = b /\ ne a b = 0%nat) \/ (a <> b /\ ne a b = 1%nat).
  Proof using. unfold ne. destruct (N.eqb_spec a b); [left|right]; auto. Qed.
  Lemma nz_cases a : (a = 0 /\ nz a = 0%nat) \/ (a <> 0 /\ nz a = 1%nat).
  Proof using. unfold nz. destruct (N.eqb_spec a 0); [left|right]; auto. Qed.

  Lemma solo_mu s t s' es : reachable s -> g_ovf s = false -> headroom s 1 ->
    step E R s (Step t) = Some (s', es) -> g_ovf s' = false /\ (mu t s' < mu t s)%nat.
  Proof using HE HM.
    intros Hr Ho Hh H. pose proof (IA s Hr Ho) as HA.
    remember (Step t) as a eqn:Ea. step_cases H t0; try discriminate Ea; inversion Ea; subst t0; clear Ea.
    all: pose proof (a_thr _ _ HA t) as Hta;
      match goal with Hpc0 : th _ _ = _ |- _ => rename Hpc0 into Hpc; rewrite Hpc in Hta; cbn [TA] in Hta; unfold fresh_node in Hta end.
    all: hb.
    all: unfold mu; prj; rewrite upd_same, Hpc; cbn [mu_pc].
    all: try (split; [exact Ho|]).
    (* the fetch_adds do not wrap *)
    all: try match goal with |- context [wadd 32 (pushi _ ?x) _] =>
      let Hw := fresh "Hw" in
      assert (Hw : wadd 32 (pushi s x) S = pushi s x + S) by (apply wadd_small; destruct (Hh x Hta); lia);
      rewrite Hw in *; split; [rewrite N.eqb_refl, Ho; reflexivity|];
      pose proof (a_al _ _ HA x Hta) as [A1 _];
      match goal with Hb : (MAXI E <=? _) = _ |- _ => rewrite (maxi_le E HE HM) in Hb by exact A1 end end.
    all: try match goal with |- context [wadd 32 (popi _ ?x) _] =>
      let Hw := fresh "Hw" in let Hin := fresh "Hin" in
      pose proof (old_in_nodes E HE HM s x (a_head _ _ HA) Hta) as Hin;
      assert (Hw : wadd 32 (popi s x) S = popi s x + S) by (apply wadd_small; destruct (Hh x Hin); lia);
      rewrite Hw in *; split; [rewrite N.eqb_refl, Ho; reflexivity|];
      pose proof (a_al _ _ HA x Hin) as [_ A1];
      match goal with Hb : (MAXI E <=? _) = _ |- _ => rewrite (maxi_le E HE HM) in Hb by exact A1 end end.
    all: try match goal with Hb : (E <=? _) = true |- _ => apply N.leb_le in Hb end.
    all: try match goal with Hb : (E <=? _) = false |- _ => apply N.leb_gt in Hb end.
    (* P2: fetch_add on push_idx *)
    all: try match goal with Hpc : th _ _ = P2 _ ?x, Hb : E <= _ |- context [Gp ?y] =>
      rewrite (Gp_faa_full s y x HA Hta Hb eq_refl eq_refl eq_refl) end.
    all: try match goal with Hpc : th _ _ = P2 _ ?x, Hb : _ < E |- context [Gp ?y] =>
      pose proof (Gp_faa_ticket s y x HA Hta Hb eq_refl eq_refl eq_refl) end.
    (* D5: fetch_add on pop_idx *)
    all: try match goal with Hpc : th _ _ = D5 ?x, Hb : E <= _ |- context [Gd ?y] =>
      rewrite (Gd_faa_full s y x HA Hta Hb eq_refl eq_refl eq_refl eq_refl) end.
    all: try match goal with Hpc : th _ _ = D5 ?x, Hb : _ < E |- context [Gd ?y] =>
      pose proof (Gd_faa_ticket s y x HA Hta Hb eq_refl eq_refl eq_refl eq_refl) as [? ?] end.
    (* P10: the tail is swung *)
    all: try match goal with Hpc : th _ _ = P10 _ ?x ?nx, Ht : tail _ = ?x |- context [Gp ?y] =>
      let Hs := fresh "Hs" in
      assert (Hs : (Gp y + 1 = Gp s)%nat) by (apply (Gp_swing s y nx HA); [rewrite Ht; tauto|tauto|reflexivity|reflexivity|reflexivity]) end.
    (* D7: the head is swung *)
    all: try match goal with Hpc : th _ _ = D7 ?x ?nx, Ht : head _ = ?x |- context [Gd ?y] =>
      let Hs := fresh "Hs" in
      assert (Hs : (Gd y + 1 = Gd s)%nat) by (apply (Gd_swing s y nx HA); [rewrite Ht; tauto|rewrite Ht; tauto|tauto|reflexivity|reflexivity|rewrite Ht; reflexivity|reflexivity]) end.
    (* P4 / P6a: only a private node changes *)
    all: try match goal with Hpc : th _ _ = P4 _ _ |- context [Gp ?y] =>
      rewrite (Gp_eq s y eq_refl eq_refl) by (prj; apply setf_other; pose proof (a_lt _ _ HA _ (proj1 (lastn_in s HA))); lia) end.
    all: try match goal with Hpc : th _ _ = P6a _ ?n |- context [Gp ?y] =>
      rewrite (Gp_eq s y eq_refl eq_refl) by (prj; apply setf_other; intros Hc; destruct (lastn_in s HA) as [Hc' _]; rewrite Hc in Hc'; tauto) end.
    all: repeat match goal with |- context [Gp ?y] => progress (change (Gp y) with (Gp s)) end.
    all: repeat match goal with |- context [Gd ?y] => progress (change (Gd y) with (Gd s)) end.
    all: prj.
    all: try (rewrite setf_other by (pose proof (a_lt _ _ HA _ (proj1 Hta)); lia)).
    all: repeat match goal with |- context [ne ?a ?b] => let e := fresh "e" in let e' := fresh "e" in destruct (ne_cases a b) as [[e e']|[e e']]; rewrite e' in * end.
    all: repeat match goal with |- context [nz ?a] => let e := fresh "e" in let e' := fresh "e" in destruct (nz_cases a) as [[e e']|[e e']]; rewrite e' in * end.
    all: unfold W, nE, nR in *.
    all: try nia.
  Qed.

  Lemma headroom_step s t s' es B : InvA E s -> step E R s (Step t) = Some (s', es) ->
    headroom s (Datatypes.S B) -> headroom s' B.
  Proof using HE HM.
    intros HA H Hh.
    assert (Hd : S * N.of_nat (Datatypes.S B) = S * N.of_nat B + S) by lia.
    remember (Step t) as a eqn:Ea. step_cases H t0; try discriminate Ea; inversion Ea; subst t0; clear Ea.
    all: pose proof (a_thr _ _ HA t) as Hta;
      match goal with Hpc0 : th _ _ = _ |- _ => rename Hpc0 into Hpc; rewrite Hpc in Hta; cbn [TA] in Hta; unfold fresh_node in Hta end.
    all: intros n0 Hn0; prj_in Hn0; prj.
    all: try (apply in_app_or in Hn0; destruct Hn0 as [Hn0|[<-|[]]]).
    all: try (destruct (Hh n0 Hn0) as [H1 H2]).
    all: try (split; lia).
    all: try (unfold setf; repeat match goal with |- context [?a =? ?b] => destruct (N.eqb_spec a b); subst end;
              repeat match goal with |- context [wadd 32 ?x S] => pose proof (wadd_le x); generalize dependent (wadd 32 x S); intros end;
              split; lia).
    - (* the linked node *) destruct Hta as (T1 & _ & _ & _ & T5 & T6 & _). destruct (Hh _ T1) as [H1 _]. rewrite T5, T6. split; lia.
  Qed.

  (** ** The solo run *)
  Definition PS (t : nat) (s : state) : Prop := reachable s /\ g_ovf s = false /\ headroom s (mu t s).

  Lemma headroom_mono s B B' : (B' <= B)%nat -> headroom s B -> headroom s B'.
  Proof using HE HM.
    intros Hle Hh n Hn. destruct (Hh n Hn) as [H1 H2].
    assert (S * N.of_nat B' <= S * N.of_nat B) by (apply N.mul_le_mono_l; lia). split; lia.
  Qed.

  Lemma solo_step t s : PS t s -> idle s t = false ->
    exists s' es, step E R s (Step t) = Some (s', es) /\ PS t s' /\ (mu t s' < mu t s)%nat.
  Proof using HE HM.
    intros (Hr & Ho & Hh) Hi. destruct (step_total s t Hi) as (s' & es & Hst). exists s', es. split; [exact Hst|].
    assert (Hpos : (1 <= mu t s)%nat).
    { unfold idle in Hi. unfold mu. destruct (th s t); try discriminate Hi; cbn [mu_pc]; unfold W; try destruct o; lia. }
    destruct (solo_mu s t s' es Hr Ho (headroom_mono _ _ _ Hpos Hh) Hst) as [Ho' Hlt].
    split; [|exact Hlt]. split; [eapply reach_step; eauto|]. split; [exact Ho'|].
    apply (headroom_step s t s' es _ (IA s Hr Ho) Hst). apply (headroom_mono s (mu t s)); [lia|exact Hh].
  Qed.

  (** SOLO TERMINATION: from every reachable wrap-free state with head room, thread t finishes its
      operation within [mu t s] of its own steps *)
  Theorem ram_solo t s : reachable s -> g_ovf s = false -> headroom s (mu t s) ->
    finishes_within (step E R) Step idle t (mu t s) s.
  Proof using HE HM.
    intros Hr Ho Hh. apply (finishes_by_measure _ _ _ (step E R) Step idle (PS t) (mu t) t).
    - intros s0 HP Hi. destruct (solo_step t s0 HP Hi) as (s' & es & H1 & H2 & H3). exists s', es. auto.
    - split; [exact Hr|split; [exact Ho|exact Hh]].
  Qed.

  (** the bounds: push in terms of E (and R through the common loop weight W = E + R + 14),
      pop in terms of E, R and the number of nodes from head on *)
  Lemma Gp_le s : (Gp s <= nE + 1)%nat.
  Proof using HE HM. unfold Gp, ne, nE. destruct (_ =? _); lia. Qed.

  Lemma Gd_le s : (Gd s <= (nE + 1) * (after_head s + 1))%nat.
  Proof using HE HM. unfold Gd, nE. nia. Qed.

  Definition is_push (p : pc) : bool :=
    match p with Begin (OPush _) | P1 _ | P2 _ _ | P3 _ _ | P4 _ _ | P5 _ _ _ _ | P6 _ _ _ | P7 _ _ | P6a _ _ | P6b _ _ | P6c _ _
               | P9 _ _ | P10 _ _ _ | P8 _ _ _ => true | _ => false end.

  Definition push_bound : nat := (W * (nE + 3))%nat.
  Definition pop_bound (s : state) : nat := (W * ((nE + 1) * (after_head s + 1) + 2))%nat.

  Lemma mu_push_le t s : is_push (th s t) = true -> (mu t s <= push_bound)%nat.
  Proof using HE HM.
    unfold mu, push_bound. pose proof (Gp_le s) as Hg. destruct (th s t) as [|o| | | | | | | | | | | | | | | | | | | | | | | |]; try destruct o; cbn [is_push mu_pc]; intros Hp; try discriminate Hp;
      repeat match goal with |- context [ne ?a ?b] => destruct (ne_cases a b) as [[_ e]|[_ e]]; rewrite e end;
      repeat match goal with |- context [nz ?a] => destruct (nz_cases a) as [[_ e]|[_ e]]; rewrite e end;
      unfold W, nE, nR in *; nia.
  Qed.

  Lemma mu_pop_le t s : is_push (th s t) = false -> (mu t s <= pop_bound s)%nat.
  Proof using HE HM.
    unfold mu, pop_bound. pose proof (Gd_le s) as Hg. destruct (th s t) as [|o| | | | | | | | | | | | | | | | | | | | | | | |]; try destruct o; cbn [is_push mu_pc]; intros Hp; try discriminate Hp;
      repeat match goal with |- context [ne ?a ?b] => destruct (ne_cases a b) as [[_ e]|[_ e]]; rewrite e end;
      unfold W, nE, nR in *; nia.
  Qed.

  (** C16, push: any push in progress (or just started) finishes solo within (E+R+14)*(E+3) steps *)
  Theorem ram_solo_push t s : reachable s -> g_ovf s = false -> is_push (th s t) = true -> headroom s push_bound ->
    finishes_within (step E R) Step idle t push_bound s.
  Proof using HE HM.
    intros Hr Ho Hp Hh. apply (finishes_within_mono _ _ _ (step E R) Step idle t (mu t s)); [apply mu_push_le; exact Hp|].
    apply ram_solo; try assumption. apply (headroom_mono s push_bound); [apply mu_push_le; exact Hp|exact Hh].
  Qed.

  (** C16, pop: any pop in progress finishes solo within (E+R+14)*((E+1)*(nodes from head on)+2) steps *)
  Theorem ram_solo_pop t s : reachable s -> g_ovf s = false -> is_push (th s t) = false -> headroom s (pop_bound s) ->
    finishes_within (step E R) Step idle t (pop_bound s) s.
  Proof using HE HM.
    intros Hr Ho Hp Hh. apply (finishes_within_mono _ _ _ (step E R) Step idle t (mu t s)); [apply mu_pop_le; exact Hp|].
    apply ram_solo; try assumption. apply (headroom_mono s (pop_bound s)); [apply mu_pop_le; exact Hp|exact Hh].
  Qed.
End RamSolo.
