(** Definitions and structural lemmas for the lock-free reference counting model (Model/LfrcDefs.v): what a reference
    is ([holds]), the invariant [Inv] proved in Proof/LfrcRefs.v .. Proof/LfrcInv.v, the case analysis of a step, the
    frame of a step and the thread-local shape of every program point ([tsh]: which guard a program point works on and
    what it holds).  No axioms. *)
From Coq Require Import NArith List Bool Arith Lia PeanoNat.
From XV Require Import Conc.Lts Conc.Ev Model.LfrcDefs.
Import ListNotations.

(** * Function updates, options, references *)
Lemma upd_cases {X} (f : nat -> X) i v j : (j = i /\ upd f i v j = v) \/ (j <> i /\ upd f i v j = f j).
Proof. destruct (Nat.eq_dec j i) as [->|H]; [left; split; [reflexivity|apply upd_same] | right; split; [exact H|apply upd_other; exact H]]. Qed.

Lemma oeqb_eq a b : oeqb a b = true <-> a = b.
Proof.
  destruct a as [x|], b as [y|]; cbn; split; intros H; try congruence; try discriminate.
  - apply Nat.eqb_eq in H. congruence.
  - inversion H. apply Nat.eqb_refl.
Qed.
Lemma oeqb_false a b : oeqb a b = false -> a <> b.
Proof. intros H E. apply oeqb_eq in E. congruence. Qed.

Lemma ref_eqb_eq a b : ref_eqb a b = true <-> a = b.
Proof.
  destruct a, b; cbn; split; intros H; try congruence; try discriminate.
  - apply Nat.eqb_eq in H. congruence.
  - inversion H. apply Nat.eqb_refl.
  - apply andb_true_iff in H. destruct H as [H1 H2]. apply Nat.eqb_eq in H1, H2. congruence.
  - inversion H. rewrite !Nat.eqb_refl. reflexivity.
  - apply Nat.eqb_eq in H. congruence.
  - inversion H. apply Nat.eqb_refl.
Qed.
Lemma ref_eqb_refl a : ref_eqb a a = true.
Proof. apply ref_eqb_eq. reflexivity. Qed.
Lemma ref_eqb_neq a b : ref_eqb a b = false <-> a <> b.
Proof. rewrite <- ref_eqb_eq. destruct (ref_eqb a b); split; intros; congruence. Qed.
Lemma ref_eq_dec (a b : ref) : {a = b} + {a <> b}.
Proof. decide equality; apply Nat.eq_dec. Qed.

Definition hd_opt (l : list nat) : option nat := match l with [] => None | x :: _ => Some x end.

(** the free list as a chain of next_free pointers *)
Fixpoint chain (nx : nat -> option nat) (l : list nat) : Prop :=
  match l with
  | [] => True
  | a :: r => nx a = hd_opt r /\ chain nx r
  end.

(** * References *)
(** the node whose initial reference (the one a new object starts with) the thread holds *)
Definition owned (p : pc) : option nat :=
  match p with
  | N3 _ n _ | R1 _ (Some n) | X1 n | D1 WOwn n _ | D2 WOwn n _ _ | R2 n => Some n
  | _ => None
  end.

(** [holds st r n]: r is a counted reference on node n *)
Definition holds (st : state) (r : ref) (n : nat) : Prop :=
  match r with
  | RCell c => cells st c = Some n
  | RG t g => gnode (gd (tl st t) g) = Some n
  | ROwn t => owned (th st t) = Some n
  end.

(** the claim bit *)
Definition cbit (s : nstate) : nat := match s with NClaimed _ | NFree | NPop _ => 1 | _ => 0 end.

(** * The thread-local shape *)
Definition popg (ns g : nat) : Prop := g = S ns \/ g = S (S ns).
Definition ctx_sh (ns : nat) (k : ctx) (gs : nat -> guard) : Prop :=
  match k with KHold _ g => g < ns /\ gs ns = GE | KPop _ g => popg ns g | _ => True end.
(** what must hold when the continuation of a release is taken *)
Definition rk_post (ns : nat) (k : rk) (gs : nat -> guard) : Prop :=
  match k with
  | RAcq k' => ctx_sh ns k' gs /\ gs (guard_of ns k') = GE
  | RFin _ => gs ns = GE
  | RMove _ g => popg ns g /\ gs (other ns g) = GE
  | RLost => True
  | RExit g => g < ns
  end.
Definition tshape (ns : nat) (p : pc) (gs : nat -> guard) : Prop :=
  match p with
  | Idle => gs ns = GE
  | Done => True
  | Begin o => legal ns o = true /\ gs ns = GE
  | A1 k | A2 k _ => ctx_sh ns k gs /\ gs (guard_of ns k) = GE
  | A3 k q => ctx_sh ns k gs /\ gs (guard_of ns k) = GU q
  | D1 (WG g) n k | D2 (WG g) n _ k => gnode (gs g) = Some n /\ rk_post ns k (upd gs g GE)
  | D1 WOwn _ k | D2 WOwn _ _ k => k = RLost
  | D3 _ k | D4 _ k | U1 _ k | U2 _ _ k | U3 _ _ k => rk_post ns k gs
  | P4 _ g q | P5 _ g q _ | P6 _ g q | P7 _ g q => popg ns g /\ gs g = GV q /\ gs (other ns g) = GE
  | R2 o => gs ns = GV o
  | N2 _ _ | N3 _ _ _ | R1 _ _ | X1 _ => True
  end.
(** a guard that is counted but not validated belongs to a running acquire *)
Definition gu_at (ns : nat) (p : pc) (g q : nat) : Prop :=
  match p with
  | A3 k q' => g = guard_of ns k /\ q' = q
  | D1 (WG g') n (RAcq _) | D2 (WG g') n _ (RAcq _) => g' = g /\ n = q
  | _ => False
  end.
(** the program points of free_list::pop: its two temporary guards are empty everywhere else *)
Definition popk (k : rk) : bool := match k with RMove _ _ | RAcq (KPop _ _) => true | _ => false end.
Definition inpop (p : pc) : bool :=
  match p with
  | A1 (KPop _ _) | A2 (KPop _ _) _ | A3 (KPop _ _) _ | P4 _ _ _ | P5 _ _ _ _ | P6 _ _ _ | P7 _ _ _ => true
  | D1 _ _ k | D2 _ _ _ k | D3 _ k | D4 _ k | U1 _ k | U2 _ _ k | U3 _ _ k => popk k
  | _ => false
  end.
Definition tsh (ns : nat) (p : pc) (gs : nat -> guard) : Prop :=
  tshape ns p gs /\ (forall g q, gs g = GU q -> gu_at ns p g q) /\
  (inpop p = false -> gs (S ns) = GE /\ gs (S (S ns)) = GE).

(** * Node states *)
Definition is_new (s : nstate) : Prop := match s with NNone | NNew _ => True | _ => False end.
Definition has_ref (s : nstate) : Prop := match s with NCons _ | NFresh _ | NPub | NDel => True | _ => False end.
Definition bad_q (s : nstate) : Prop := match s with NNone | NNew _ | NClaimed _ => True | _ => False end.
Definition live4 (s : nstate) : nat := match s with NFresh _ | NPub | NDel | NClaimed _ => 1 | _ => 0 end.
Definition isfree (s : nstate) : nat := match s with NFree => 1 | _ => 0 end.
Definition b2n (b : bool) : nat := if b then 1 else 0.

(** what a program point of thread t knows about the node it works on *)
Definition own_ok (st : state) (t : nat) (p : pc) : Prop :=
  match p with
  | N2 _ n => g_ns st n = NNew t
  | P6 _ _ n => g_ns st n = NPop t
  | P7 _ _ n | N3 _ n _ => g_ns st n = NCons t
  | R1 _ (Some n) | X1 n => g_ns st n = NFresh t
  | D1 WOwn n _ | D2 WOwn n _ _ => g_ns st n = NDel
  | R2 o => g_ns st o = NPub
  | D3 n _ => g_ns st n = NClaimed t
  | D4 n _ => g_ns st n = NClaimed t /\ g_alive st n = true
  | U1 n _ | U2 n _ _ => g_ns st n = NClaimed t /\ g_alive st n = false
  | U3 n h _ => g_ns st n = NClaimed t /\ g_alive st n = false /\ nxt st n = h
  | A2 _ q => ~ is_new (g_ns st q)
  | P5 _ _ q nx => g_ns st q = NFree -> nxt st q = nx
  | _ => True
  end.
(** the thread a node state names is at the matching program point *)
Definition ownr_ok (st : state) (n : nat) (s : nstate) : Prop :=
  match s with
  | NNew t => exists c, th st t = N2 c n
  | NPop t => exists c g, th st t = P6 c g n
  | NCons t => (exists c g, th st t = P7 c g n) \/ (exists c i, th st t = N3 c n i)
  | NClaimed t => (exists k, th st t = D3 n k) \/ (exists k, th st t = D4 n k) \/ (exists k, th st t = U1 n k) \/
                  (exists h k, th st t = U2 n h k) \/ (exists h k, th st t = U3 n h k)
  | _ => True
  end.
Definition alive_ok (s : nstate) (al d : bool) : Prop :=
  match s with
  | NFresh _ | NPub => al = true /\ d = false
  | NDel => al = false /\ d = true
  | NClaimed _ => d = negb al
  | _ => al = false
  end.

(** * The invariant *)
Record Inv (ns : nat) (st : state) : Prop := {
  I_sh : forall t, tsh ns (th st t) (gd (tl st t));
  I_refs : forall n, NoDup (g_refs st n) /\ (forall r, In r (g_refs st n) <-> holds st r n) /\
                     rc st n = 2 * length (g_refs st n) + cbit (g_ns st n);
  I_alloc : forall n, nalloc st <= n <-> g_ns st n = NNone;
  I_new : forall n, is_new (g_ns st n) -> g_refs st n = [];
  I_ne : forall n, has_ref (g_ns st n) -> g_refs st n <> [];
  I_j1 : forall c n, cells st c = Some n -> g_ns st n = NPub;
  I_j2 : forall t g n, gd (tl st t) g = GV n -> g <= ns -> g_ns st n = NPub;
  I_q1 : forall t g n, gd (tl st t) g = GV n -> ns < g -> ~ bad_q (g_ns st n);
  I_own : forall t, own_ok st t (th st t);
  I_ownr : forall n, ownr_ok st n (g_ns st n);
  I_alive : forall n, alive_ok (g_ns st n) (g_alive st n) (dst st n);
  I_cnt : forall n, g_nd st n + b2n (g_alive st n) = g_inc st n /\
                    g_npush st n + live4 (g_ns st n) = g_inc st n /\
                    g_npop st n + live4 (g_ns st n) + isfree (g_ns st n) = g_inc st n;
  I_fl : NoDup (g_fl st) /\ (forall n, In n (g_fl st) <-> g_ns st n = NFree) /\ fhead st = hd_opt (g_fl st) /\ chain (nxt st) (g_fl st);
  I_uaf : g_uaf st = false }.

(** * Case analysis of one step *)
Ltac prj := cbn [cells fhead rc dst nxt nalloc nextid nid th tl g_ns g_inc g_nd g_npush g_npop g_alive g_refs g_fl g_uaf
                 w_cells w_fhead w_rc w_dst w_nxt w_nalloc w_nextid w_nid w_th w_tl w_g_ns w_g_inc w_g_nd w_g_npush w_g_npop w_g_alive w_g_refs w_g_fl w_g_uaf
                 set_pc set_gd add_ref del_ref rep_ref deref destroy gd].
Ltac prj_in H := cbn [cells fhead rc dst nxt nalloc nextid nid th tl g_ns g_inc g_nd g_npush g_npop g_alive g_refs g_fl g_uaf
                 w_cells w_fhead w_rc w_dst w_nxt w_nalloc w_nextid w_nid w_th w_tl w_g_ns w_g_inc w_g_nd w_g_npush w_g_npop w_g_alive w_g_refs w_g_fl w_g_uaf
                 set_pc set_gd add_ref del_ref rep_ref deref destroy gd] in H.
Ltac prj_hyps := repeat match goal with H : _ |- _ => progress prj_in H end.

Ltac inv_some H := injection H as <- <-.
Ltac step_split H :=
  repeat match type of H with
  | None = Some _ => discriminate H
  | context [match ?x with _ => _ end] =>
      let E := fresh "E" in destruct x eqn:E
  | Some _ = Some _ => inv_some H
  end.
Ltac unfold_step H :=
  unfold step, acq_done, rk_go, pop_moved, exit_next, finish, deref_g, deref_res in H; cbv beta iota zeta in H.

Lemma odd_dec_new old : Nat.odd (old - dec_new old) = (old =? 2).
Proof.
  unfold dec_new. destruct (Nat.eqb_spec (old - 2) 0) as [E|E].
  - assert (old = 0 \/ old = 1 \/ old = 2) as [-> | [-> | ->]] by lia; reflexivity.
  - replace (old - (old - 2)) with 2 by lia. destruct (Nat.eqb_spec old 2); [lia|reflexivity].
Qed.

Ltac bool_eqs :=
  repeat match goal with
  | H : Nat.odd (_ - dec_new _) = _ |- _ => rewrite odd_dec_new in H
  | H : (_ =? _) = true |- _ => apply Nat.eqb_eq in H
  | H : (_ =? _) = false |- _ => apply Nat.eqb_neq in H
  | H : (_ <? _) = true |- _ => apply Nat.ltb_lt in H
  | H : (_ <? _) = false |- _ => apply Nat.ltb_ge in H
  | H : oeqb _ _ = true |- _ => apply oeqb_eq in H
  | H : oeqb _ _ = false |- _ => apply oeqb_false in H
  end.

(** * The frame of a step *)
Definition actor (a : action) : nat := match a with Start t _ | Step t => t end.

Lemma step_frame ns s a s' es : step ns s a = Some (s', es) ->
  forall u, u <> actor a -> th s' u = th s u /\ tl s' u = tl s u.
Proof.
  intros H u Hu. destruct a as [t o|t]; cbn [actor] in Hu.
  - unfold step in H. step_split H. all: prj; rewrite ?upd_other by exact Hu; split; reflexivity.
  - unfold_step H. step_split H.
    all: prj; rewrite ?upd_other by exact Hu; split; reflexivity.
Qed.

(** * Guards of the free list's pop *)
Lemma other_popg ns g : popg ns g -> popg ns (other ns g) /\ other ns g <> g /\ other ns (other ns g) = g /\ ns < g.
Proof.
  unfold popg, other. intros [-> | ->].
  - rewrite Nat.eqb_refl. destruct (S (S ns) =? S ns) eqn:E; [apply Nat.eqb_eq in E; lia|]. repeat split; auto; lia.
  - destruct (S (S ns) =? S ns) eqn:E; [apply Nat.eqb_eq in E; lia|]. rewrite Nat.eqb_refl. repeat split; auto; lia.
Qed.

Lemma first_held_spec gs : forall fuel g g' p, first_held gs g fuel = Some (g', p) -> gnode (gs g') = Some p /\ g <= g' < g + fuel.
Proof.
  induction fuel as [|f IH]; intros g g' p H; cbn in H; [discriminate|].
  destruct (gnode (gs g)) eqn:E.
  - injection H as <- <-. split; [exact E|lia].
  - apply IH in H. destruct H as [H1 H2]. split; [exact H1|lia].
Qed.
Lemma first_held_none gs : forall fuel g, first_held gs g fuel = None -> forall g', g <= g' < g + fuel -> gnode (gs g') = None.
Proof.
  induction fuel as [|f IH]; intros g H g' Hg; [lia|]. cbn in H.
  destruct (gnode (gs g)) eqn:E; [discriminate|].
  destruct (Nat.eq_dec g' g) as [->|Hne]; [exact E|]. apply (IH (S g) H). lia.
Qed.

Lemma gnode_none x : gnode x = None -> x = GE.
Proof. destruct x; cbn; intros; congruence. Qed.

(** * The thread-local shape is preserved *)
Ltac fn := cbn [tshape gu_at rk_post ctx_sh guard_of gnode legal inpop popk].
Ltac fn_in H := cbn [tshape gu_at rk_post ctx_sh guard_of gnode legal inpop popk] in H.

Ltac upd_split :=
  repeat match goal with
  | |- context [upd ?f ?a ?v ?b] => let Hu := fresh "Hu" in destruct (upd_cases f a v b) as [[? Hu]|[? Hu]]; rewrite Hu in *; clear Hu
  | H : context [upd ?f ?a ?v ?b] |- _ => let Hu := fresh "Hu" in destruct (upd_cases f a v b) as [[? Hu]|[? Hu]]; rewrite Hu in *; clear Hu
  end.

Lemma other_SS ns : other ns (S (S ns)) = S ns.
Proof. unfold other. destruct (Nat.eqb_spec (S (S ns)) (S ns)); [lia|reflexivity]. Qed.

Ltac popg_facts :=
  repeat match goal with
  | H : popg ?ns ?g |- _ =>
    lazymatch g with other _ _ => fail | _ => idtac end;
    lazymatch goal with
    | _ : other ns (other ns g) = g |- _ => fail
    | _ => let X := fresh "Hpg" in pose proof (other_popg ns g H) as X; destruct X as (? & ? & ? & ?)
    end
  end.

(* case analysis of the guards whose node is known *)
Ltac guard_cases G :=
  repeat match goal with
  | H : gnode ?x = None |- _ => apply gnode_none in H
  | H : gnode (?gs ?g) = Some ?p |- _ =>
    let Eg := fresh "Eg" in destruct (gs g) eqn:Eg; cbn [gnode] in H;
    [discriminate H | exfalso; apply G in Eg; fn_in Eg; intuition congruence | injection H as ->]
  end.

Lemma popg_S ns : popg ns (S ns). Proof. left; reflexivity. Qed.
Lemma popg_SS ns : popg ns (S (S ns)). Proof. right; reflexivity. Qed.
Lemma other_S ns : other ns (S ns) = S (S ns). Proof. unfold other. rewrite Nat.eqb_refl. reflexivity. Qed.

Ltac fn_hyps := repeat match goal with H : _ |- _ => progress fn_in H end.
Ltac stuck :=
  repeat match goal with
  | H : context [match ?x with _ => _ end] |- _ => is_var x; destruct x
  | |- context [match ?x with _ => _ end] => is_var x; destruct x
  end.
Ltac easy_fin := first [assumption | reflexivity | lia | congruence | discriminate | apply popg_S | apply popg_SS | exfalso; lia | exfalso; congruence | solve [auto] | solve [intuition congruence]].
Ltac fin G P :=
  repeat match goal with H : _ /\ _ |- _ => destruct H end; subst;
  prj_hyps; rewrite ?upd_same in *; prj_hyps; bool_eqs; stuck; fn; fn_hyps;
  repeat match goal with H : _ /\ _ |- _ => destruct H end; subst;
  try discriminate;
  try (specialize (P eq_refl); destruct P);
  repeat match goal with H : popg ?ns ?g |- _ => is_var g; destruct H as [-> | ->] end; rewrite ?other_S, ?other_SS in *;
  repeat match goal with |- _ /\ _ => split end;
  try solve [easy_fin];
  repeat match goal with H : first_held _ _ _ = Some _ |- _ => apply first_held_spec in H; destruct H end;
  upd_split; subst; guard_cases G; upd_split; subst;
  try solve [easy_fin];
  try solve [match goal with Hx : _ = GU _ |- _ => apply G in Hx; fn_in Hx; stuck; fn_hyps; easy_fin end];
  try solve [repeat match goal with Hx : gd _ _ = _ |- _ => rewrite Hx in * end; cbn [gnode] in *; easy_fin].

Lemma tsh_step ns s t s' es : step ns s (Step t) = Some (s', es) ->
  tsh ns (th s t) (gd (tl s t)) -> tsh ns (th s' t) (gd (tl s' t)).
Proof.
  intros H (I & G & P). unfold_step H. step_split H.
  all: bool_eqs; prj; rewrite ?upd_same; prj.
  all: fn_in I; fn_in P.
  all: split; [fn | split; [intros gx qx Hgx; fn | fn; intros HP]].
  all: solve [fin G P].
Qed.

Lemma tsh_start ns s t o s' es : step ns s (Start t o) = Some (s', es) ->
  tsh ns (th s t) (gd (tl s t)) -> tsh ns (th s' t) (gd (tl s' t)).
Proof.
  intros H (I & G & P). unfold step in H. step_split H.
  all: bool_eqs; prj; rewrite ?upd_same; prj.
  all: fn_in I; fn_in P.
  all: split; [fn | split; [intros gx qx Hgx; fn | fn; intros HP]].
  all: solve [fin G P].
Qed.

Lemma tsh_init ns : tsh ns Idle (gd tl0).
Proof. repeat split; cbn; intros; discriminate. Qed.

(** * Lists of references *)
Lemma refs_add (L : list ref) r0 : NoDup L -> ~ In r0 L ->
  NoDup (r0 :: L) /\ length (r0 :: L) = S (length L) /\ (forall r, In r (r0 :: L) <-> r = r0 \/ In r L).
Proof.
  intros ND NI. split; [constructor; assumption|]. split; [reflexivity|].
  intros r. cbn. split; intros [H|H]; auto.
Qed.

Definition delr (r0 : ref) (L : list ref) := filter (fun x => negb (ref_eqb x r0)) L.
Lemma delr_in r0 L r : In r (delr r0 L) <-> r <> r0 /\ In r L.
Proof.
  unfold delr. rewrite filter_In. split.
  - intros [H1 H2]. split; [|exact H1]. apply negb_true_iff in H2. apply ref_eqb_neq in H2. exact H2.
  - intros [H1 H2]. split; [exact H2|]. apply negb_true_iff. apply ref_eqb_neq. exact H1.
Qed.
Lemma delr_cons r0 a L : delr r0 (a :: L) = if ref_eqb a r0 then delr r0 L else a :: delr r0 L.
Proof. unfold delr. cbn [filter]. destruct (ref_eqb a r0); reflexivity. Qed.
Lemma delr_notin r0 L : ~ In r0 L -> delr r0 L = L.
Proof.
  induction L as [|a L IH]; intros H; [reflexivity|]. rewrite delr_cons. destruct (ref_eqb a r0) eqn:E.
  - apply ref_eqb_eq in E. subst. exfalso. apply H. left. reflexivity.
  - f_equal. apply IH. intros X. apply H. right. exact X.
Qed.
Lemma delr_len r0 L : NoDup L -> In r0 L -> S (length (delr r0 L)) = length L.
Proof.
  induction L as [|a L IH]; intros ND HI; [destruct HI|].
  inversion ND as [|? ? Hn ND']; subst. rewrite delr_cons. destruct (ref_eqb a r0) eqn:E.
  - apply ref_eqb_eq in E. subst. rewrite (delr_notin _ _ Hn). reflexivity.
  - cbn [length]. f_equal. apply IH; [exact ND'|]. destruct HI as [->|HI]; [|exact HI]. rewrite ref_eqb_refl in E. discriminate.
Qed.
Lemma refs_del (L : list ref) r0 : NoDup L -> In r0 L ->
  NoDup (delr r0 L) /\ S (length (delr r0 L)) = length L /\ (forall r, In r (delr r0 L) <-> r <> r0 /\ In r L).
Proof.
  intros ND HI. split; [apply NoDup_filter; exact ND|]. split; [apply delr_len; assumption|]. intros r. apply delr_in.
Qed.

Definition repr (r0 r1 : ref) (L : list ref) := map (fun x => if ref_eqb x r0 then r1 else x) L.
Lemma repr_in r0 r1 L r : In r (repr r0 r1 L) <-> (r = r1 /\ In r0 L) \/ (r <> r0 /\ In r L).
Proof.
  unfold repr. rewrite in_map_iff. split.
  - intros (x & Hx & HI). destruct (ref_eqb x r0) eqn:E.
    + apply ref_eqb_eq in E. subst x. left. split; [symmetry; exact Hx|exact HI].
    + apply ref_eqb_neq in E. subst x. right. split; assumption.
  - intros [[Hr HI] | [Hn HI]].
    + exists r0. rewrite ref_eqb_refl. split; [symmetry; exact Hr|exact HI].
    + exists r. apply ref_eqb_neq in Hn. rewrite Hn. split; [reflexivity|exact HI].
Qed.
Lemma refs_rep (L : list ref) r0 r1 : NoDup L -> In r0 L -> ~ In r1 L ->
  NoDup (repr r0 r1 L) /\ length (repr r0 r1 L) = length L /\ (forall r, In r (repr r0 r1 L) <-> r = r1 \/ (r <> r0 /\ In r L)).
Proof.
  intros ND HI NI. assert (Hne : r0 <> r1) by (intros ->; contradiction).
  split; [|split; [apply map_length|]].
  - clear HI. induction L as [|a L IH]; [constructor|]. inversion ND as [|? ? Hn ND']; subst.
    change (repr r0 r1 (a :: L)) with ((if ref_eqb a r0 then r1 else a) :: repr r0 r1 L).
    constructor.
    + intros X. apply repr_in in X. destruct (ref_eqb a r0) eqn:E.
      * apply ref_eqb_eq in E. subst a. destruct X as [[_ X]|[_ X]]; [contradiction|]. apply NI. right. exact X.
      * apply ref_eqb_neq in E. destruct X as [[Ha X]|[_ X]]; [|contradiction]. apply NI. left. exact Ha.
    + apply IH; [exact ND'|]. intros X. apply NI. right. exact X.
  - intros r. rewrite repr_in. split.
    + intros [[Hr _]|[H1 H2]]; [left; exact Hr|right; split; assumption].
    + intros [Hr|[H1 H2]]; [left; split; [exact Hr|exact HI]|right; split; assumption].
Qed.

