(** The epoch in which a retired node may be reclaimed (generalised epoch based reclamation model, Model/GebrDefs.v, every
    configuration):
    [tag_ok]  a node retired in local epoch r sits in retire-list slot r mod 3 of a thread whose local epoch is >= r,
    or in orphan list r mod 3 while the global epoch is >= r (abandoned, handed over at exit, or put back), or was adopted
    by update_global_epoch(e, e+1) with r mod 3 = (e+1) mod 3 and r <= global epoch; and WHEN IT IS FREED THE GLOBAL EPOCH
    IS >= r + 3.  Holds in every reachable state ([tag_reach]).  No axioms. *)
From Coq Require Import NArith List Bool Arith Lia PeanoNat Setoid.
From XV Require Import Conc.Lts Conc.Ev Model.GebrDefs Proof.GebrBase Proof.GebrShape Proof.GebrOwn Proof.GebrEpoch Proof.GebrNodes.
Import ListNotations.
Local Open Scope N_scope.

(** * The epoch in which a node was retired *)
Definition flight_ep (p : pc) : option N := match p with G5 _ e _ | G6 _ e _ | G7 _ e _ _ => Some e | _ => None end.

Definition tag_ok (s : state) (n : N) : Prop :=
  match g_where s n with
  | PNone => True
  | PList u i => exists b t' r, cb (tl s u) = Some b /\ g_life s n = LRet t' r /\ r mod 3 = i /\ r <= blocal s b
  | POrph i => exists t' r, g_life s n = LRet t' r /\ r mod 3 = i /\ r <= gep s
  | PFlight u => exists e t' r, flight_ep (th s u) = Some e /\ g_life s n = LRet t' r /\ r mod 3 = (e + 1) mod 3 /\ r <= gep s
  | PFreed => exists t' r, g_life s n = LRet t' r /\ r + 3 <= gep s
  end.

Lemma mod3_gap r v : r < v -> r mod 3 = v mod 3 -> r + 3 <= v.
Proof. intros H E. pose proof (N.div_mod r 3 ltac:(discriminate)). pose proof (N.div_mod v 3 ltac:(discriminate)). lia. Qed.

Lemma uslots_gap new old i r : old < new -> In i (uslots new old) -> r <= old -> r mod 3 = i -> r + 3 <= new.
Proof.
  intros Hlt Hi Hr Hm. unfold uslots in Hi.
  destruct (N.eqb_spec (N.min 3 (new - old)) 0); [destruct Hi|].
  destruct (N.eqb_spec (N.min 3 (new - old)) 1).
  { destruct Hi as [<-|[]]. apply mod3_gap; [lia|exact Hm]. }
  destruct (N.eqb_spec (N.min 3 (new - old)) 2).
  { destruct Hi as [<-|[<-|[]]].
    - assert (r + 3 <= new - 1) by (apply mod3_gap; [lia|exact Hm]). lia.
    - apply mod3_gap; [lia|exact Hm]. }
  destruct Hi as [<-|[<-|[<-|[]]]].
  - assert (r + 3 <= new - 2) by (apply mod3_gap; [lia|exact Hm]). lia.
  - assert (r + 3 <= new - 1) by (apply mod3_gap; [lia|exact Hm]). lia.
  - apply mod3_gap; [lia|exact Hm].
Qed.

Ltac tfn := cbn [flight_ep].
Ltac tfn_in H := cbn [flight_ep] in H.

Ltac tag_same T O Fth Fb Ilistt Icet Ixdt Iflt Gn nn s t M :=
    destruct (g_where s nn) as [|uq iq|iq|uq|] eqn:W; [exact Logic.I | | | | ];
    [ destruct Gn as (bq & tq & rq & G1 & G2 & G3 & G4); destruct (Nat.eq_dec uq t) as [->|Hne];
      [ rewrite ?upd_same; prj; same_cb;
        first [ exfalso; apply M; apply (proj2 (Ilistt iq nn)); exact W
              | exfalso; pose proof (ts_no _ _ _ _ T eq_refl); congruence
              | exfalso; apply (proj2 (Ilistt iq nn)) in W; rewrite Icet in W by (left; reflexivity); destruct W
              | exfalso; apply (proj2 (Ilistt iq nn)) in W; rewrite Ixdt in W; destruct W
              | eexists _, tq, rq; repeat split; first [reflexivity | eassumption | split_updN_all; first [assumption | congruence | lia]] ]
      | destruct (Fth uq Hne) as [_ Etl]; prj_in Etl; try rewrite Etl; exists bq, tq, rq;
        destruct (o_own _ s O uq bq G1) as [Ho _]; destruct (Fb bq (owner_untouched _ _ _ _ _ O Ho Hne)) as (_ & _ & El & _); prj_in El; try rewrite El;
        repeat split; first [assumption | split_updN_all; first [assumption | congruence]] ]
    | destruct Gn as (tq & rq & G2 & G3 & G4); exists tq, rq; repeat split; first [assumption | lia | split_updN_all; first [assumption | congruence]]
    | destruct Gn as (eq & tq & rq & G1 & G2 & G3 & G4); destruct (Nat.eq_dec uq t) as [->|Hne];
      [ try (exfalso; apply M; apply (proj2 (Iflt nn)); exact W); rewrite ?upd_same; match goal with E : th _ _ = _ |- _ => rewrite E in G1 end; tfn_in G1; try discriminate G1; exists eq, tq, rq; tfn; repeat split; first [assumption | lia | split_updN_all; first [assumption | congruence]]
      | destruct (Fth uq Hne) as [Eth _]; prj_in Eth; try rewrite Eth; exists eq, tq, rq; repeat split; first [assumption | lia | split_updN_all; first [assumption | congruence]] ]
    | destruct Gn as (tq & rq & G2 & G3); exists tq, rq; repeat split; first [assumption | lia | split_updN_all; first [assumption | congruence]] ].

Lemma tag_step cfg ns s t s' es : tshape cfg ns (th s t) (tl s t) -> O0 cfg s -> (forall x, P1 s x) -> N0 s -> (forall n, tag_ok s n) ->
  step cfg ns s (Step t) = Some (s', es) -> forall n, tag_ok s' n.
Proof.
  intros T O P I G H.
  destruct (step_frame _ _ _ _ _ _ H) as (Fth & Fb & _ & _ & Fg).
  unfold_step H. cbv zeta in H. step_split H.
  all: bool_eqs; prj; rewrite ?upd_same; prj; prj_hyps; rewrite ?upd_same in *; prj_hyps.
  all: try match goal with E : th _ _ = _ |- _ => rewrite E in T end.
  all: intros nn; pose proof (G nn) as Gn; unfold tag_ok in *; prj.
  (* the place of nn did not change *)
  all: try solve [destruct (g_where s nn) as [|uq iq|iq|uq|] eqn:W; [exact Logic.I | | | | ];
    [ destruct Gn as (bq & tq & rq & G1 & G2 & G3 & G4); destruct (Nat.eq_dec uq t) as [->|Hne];
      [ exists bq, tq, rq; rewrite ?upd_same; prj; repeat split; first [assumption | lia]
      | destruct (Fth uq Hne) as [_ Etl]; prj_in Etl; try rewrite Etl; exists bq, tq, rq; repeat split; try assumption;
        destruct (o_own _ s O uq bq G1) as [Ho _]; destruct (Fb bq (owner_untouched _ _ _ _ _ O Ho Hne)) as (_ & _ & El & _); prj_in El; try rewrite El; assumption ]
    | destruct Gn as (tq & rq & G2 & G3 & G4); exists tq, rq; repeat split; first [assumption | lia]
    | destruct Gn as (eq & tq & rq & G1 & G2 & G3 & G4); destruct (Nat.eq_dec uq t) as [->|Hne];
      [ rewrite ?upd_same; match goal with E : th _ _ = _ |- _ => rewrite E in G1 end; tfn_in G1; try discriminate G1; exists eq, tq, rq; tfn; repeat split; first [assumption | lia]
      | destruct (Fth uq Hne) as [Eth _]; prj_in Eth; try rewrite Eth; exists eq, tq, rq; repeat split; first [assumption | lia] ]
    | destruct Gn as (tq & rq & G2 & G3); exists tq, rq; repeat split; first [assumption | lia] ]].
  all: destruct I as [Ilt Icell If1 If2 Iwh Ilist Iorph Ifl Indl Indo Indf Ilidx Irl3 Ixd Ice].
  all: match goal with E : th ?s ?t = _ |- _ =>
         pose proof (If1 t) as If1t; pose proof (Ifl t) as Iflt; pose proof (Ixd t) as Ixdt; pose proof (Ice t) as Icet; pose proof (Ilist t) as Ilistt;
         rewrite E in If1t, Iflt, Ixdt, Icet; nfn_in If1t; nfn_in Iflt; nfn_in Ixdt; nfn_in Icet end.
  all: pose proof (P t) as Pt; unfold P1 in Pt; try match goal with E : th _ _ = _ |- _ => rewrite E in Pt end.
  (* node or block allocation, control block acquisition: nothing a retired node depends on changes *)
  all: try solve [nfacts;
    destruct (g_where s nn) as [|uq iq|iq|uq|] eqn:W; [exact Logic.I | | | | ];
    [ destruct Gn as (bq & tq & rq & G1 & G2 & G3 & G4); destruct (Nat.eq_dec uq t) as [->|Hne];
      [ rewrite ?upd_same; prj; same_cb;
        first [ exfalso; pose proof (ts_no _ _ _ _ T eq_refl); congruence
              | exfalso; apply (proj2 (Ilistt iq nn)) in W; rewrite Icet in W by (left; reflexivity); destruct W
              | exfalso; apply (proj2 (Ilistt iq nn)) in W; rewrite Ixdt in W; destruct W
              | eexists _, tq, rq; repeat split; first [reflexivity | eassumption | split_updN_all; first [assumption | congruence | lia]] ]
      | destruct (Fth uq Hne) as [_ Etl]; prj_in Etl; try rewrite Etl; exists bq, tq, rq;
        destruct (o_own _ s O uq bq G1) as [Ho _]; destruct (Fb bq (owner_untouched _ _ _ _ _ O Ho Hne)) as (_ & _ & El & _); prj_in El; try rewrite El;
        repeat split; first [assumption | split_updN_all; first [assumption | congruence]] ]
    | destruct Gn as (tq & rq & G2 & G3 & G4); exists tq, rq; repeat split; first [assumption | lia | split_updN_all; first [assumption | congruence]]
    | destruct Gn as (eq & tq & rq & G1 & G2 & G3 & G4); destruct (Nat.eq_dec uq t) as [->|Hne];
      [ rewrite ?upd_same; match goal with E : th _ _ = _ |- _ => rewrite E in G1 end; tfn_in G1; try discriminate G1; exists eq, tq, rq; tfn; repeat split; first [assumption | lia | split_updN_all; first [assumption | congruence]]
      | destruct (Fth uq Hne) as [Eth _]; prj_in Eth; try rewrite Eth; exists eq, tq, rq; repeat split; first [assumption | lia | split_updN_all; first [assumption | congruence]] ]
    | destruct Gn as (tq & rq & G2 & G3); exists tq, rq; repeat split; first [assumption | lia | split_updN_all; first [assumption | congruence]] ]].
  (* G4: the orphans of slot (e+1) mod 3 are adopted *)
  all: try solve [match goal with E : th _ _ = G4 _ _ |- _ => idtac end; mem_split;
    [ apply Iorph in M; rewrite M in Gn; destruct Gn as (tq & rq & G2 & G3 & G4); rewrite upd_same; tfn; exists e, tq, rq; repeat split; assumption
    | tag_same T O Fth Fb Ilistt Icet Ixdt Iflt Gn nn s t M ]].
  (* G5: the adopted nodes are freed when the epoch was advanced / kept otherwise *)
  all: try solve [match goal with E : th _ _ = G5 _ _ _ |- _ => idtac end; subst; mem_split;
    [ apply Iflt in M; rewrite M in Gn; destruct Gn as (eq & tq & rq & G1 & G2 & G3 & G4); rewrite E in G1; tfn_in G1; injection G1 as <-;
      exists tq, rq; split; [assumption|apply mod3_gap; [lia|assumption]]
    | tag_same T O Fth Fb Ilistt Icet Ixdt Iflt Gn nn s t M ]].
  all: try solve [match goal with E : th _ _ = G5 _ _ _ |- _ => idtac end; subst;
    assert (M : ~ In nn []) by (intros []); tag_same T O Fth Fb Ilistt Icet Ixdt Iflt Gn nn s t M].
  (* G7 / X2: hand-over to an orphan list *)
  all: try solve [match goal with E : th _ _ = G7 _ _ _ _ |- _ => idtac end; mem_split;
    [ apply Iflt in M; rewrite M in Gn; destruct Gn as (eq & tq & rq & G1 & G2 & G3 & G4); rewrite E in G1; tfn_in G1; injection G1 as <-;
      exists tq, rq; repeat split; assumption
    | tag_same T O Fth Fb Ilistt Icet Ixdt Iflt Gn nn s t M ]].
  all: try solve [match goal with E : th _ _ = X2 _ _ |- _ => idtac end; mem_split;
    [ apply Ilistt in M; rewrite M in Gn; destruct Gn as (bq & tq & rq & G1 & G2 & G3 & G4);
      destruct (Pt bq G1) as (P1' & _ & _); destruct (P1' eq_refl) as [P1a _];
      exists tq, rq; repeat split; first [assumption | lia]
    | tag_same T O Fth Fb Ilistt Icet Ixdt Iflt Gn nn s t M ]].
  (* U2: the slots of the epochs passed are reclaimed *)
  all: try solve [match goal with E : th _ _ = U2 _ _ _ |- _ => idtac end;
    destruct (Pt _ E0) as (_ & (Pold & Plt & Pnew) & _); mem_split;
    [ apply (flat_where s t _ _ Ilistt) in M; destruct M as (i0 & Hi0 & Hw0); rewrite Hw0 in Gn;
      destruct Gn as (bq & tq & rq & G1 & G2 & G3 & G4); same_cb;
      exists tq, rq; split; [assumption|]; assert (rq + 3 <= new) by (eapply (uslots_gap new old i0); eauto; lia); lia
    | tag_same T O Fth Fb Ilistt Icet Ixdt Iflt Gn nn s t M ]].
  (* R3: the unlinked node is retired in the current local epoch *)
  all: try solve [match goal with E : th _ _ = R3 _ _ _ |- _ => idtac end; nfacts;
    assert (M : ~ In nn []) by (intros []);
    destruct (N.eq_dec nn n0) as [->|Hnn]; [rewrite !updN_same | rewrite (updN_other (g_where s)) by exact Hnn];
    [ first [ exfalso; apply (ts_need _ _ _ _ T); [reflexivity|assumption]
            | destruct (Pt _ E4) as (P1' & _ & _); destruct (P1' eq_refl) as [_ P1b];
              rewrite ?upd_same; prj; eexists _, t, _; repeat split; first [eassumption | reflexivity | symmetry; exact P1b | apply N.le_refl] ]
    | tag_same T O Fth Fb Ilistt Icet Ixdt Iflt Gn nn s t M ]].
  (* B2: abandoned to an orphan list *)
  all: try solve [match goal with E : th _ _ = B2 _ _ _ |- _ => idtac end; nfacts; mem_split;
    [ apply Ilistt in M; rewrite M in Gn; destruct Gn as (bq & tq & rq & G1 & G2 & G3 & G4);
      destruct (Pt bq G1) as (P1' & _ & _); destruct (P1' eq_refl) as [P1a _];
      exists tq, rq; repeat split; first [assumption | lia | split_updN_all; first [assumption | congruence]]
    | tag_same T O Fth Fb Ilistt Icet Ixdt Iflt Gn nn s t M ]].
Qed.

Lemma tag_start cfg ns s t o s' es : (forall n, tag_ok s n) -> step cfg ns s (Start t o) = Some (s', es) -> forall n, tag_ok s' n.
Proof.
  intros G H. destruct (start_pc _ _ _ _ _ _ _ H) as (Hidle & Eth & Hsl & Etl & Eg & Ef & El & Ebl & Ew & Elf & _).
  assert (Efl : forall u, flight_ep (th s' u) = flight_ep (th s u)).
  { intros u. rewrite Eth. destruct (Nat.eq_dec u t) as [->|Hne]; [rewrite upd_same, Hidle|rewrite upd_other by exact Hne; reflexivity].
    destruct (th s' t); try discriminate Hsl; reflexivity. }
  intros n. specialize (G n). unfold tag_ok in *. rewrite Ew, Elf, El, Eg.
  destruct (g_where s n) as [|u i|i|u|]; auto.
  - destruct G as (b & t' & r & G1 & G2). exists b, t', r. destruct (Etl u) as (-> & _). auto.
  - destruct G as (e & t' & r & G1 & G2). exists e, t', r. rewrite Efl. auto.
Qed.

Section ReachT.
Variables (cfg : config) (ns : nat) (nc : N).
Lemma tag_reach s : reachable cfg ns nc s -> forall n, tag_ok s n.
Proof.
  apply (inv_rule_aux _ _ _ _ _ (fun s => T0 cfg ns s /\ O0 cfg s /\ EI cfg s /\ N0 s) (fun s => forall n, tag_ok s n)).
  - intros s0 Hr. split; [apply (T0_reach cfg ns nc); exact Hr|]. split; [apply (O0_reach cfg ns nc); exact Hr|].
    split; [apply (EI_reach cfg ns nc); exact Hr|apply (N0_reach cfg ns nc); exact Hr].
  - intros n. unfold tag_ok. cbn. exact Logic.I.
  - intros s0 a s1 es (J1 & J2 & [J3 _] & J4) _ I H. destruct a as [t o|t]; [eapply tag_start; eauto|].
    exact (tag_step cfg ns s0 t s1 es (J1 t) J2 J3 J4 I H).
Qed.
End ReachT.
