(** Stamps and marks of the thread order queue in the stamp_it model (Model/StampDefs.v), as far as they are determined
    by the owner of a control block alone ([S0]): head->stamp is a multiple of StampInc and larger than every stamp
    handed out; what the stamp of a block looks like at every program point of its owner (pending / clean / NotInList);
    the prev pointer of a block is unmarked exactly while its owner is inside the critical region, and the ghost [g_reg]
    says the same; the tail stamp read by process_global_nodes is a lower bound of the current one (the tail stamp
    never decreases).  Holds in every reachable state ([S0_reach]).  No axioms. *)
From Coq Require Import NArith List Bool Arith Lia PeanoNat ZArith ZifyBool ZifyNat ZifyN.
From XV Require Import Conc.Lts Conc.Ev Model.StampDefs Proof.StampBase.
Import ListNotations.
Local Open Scope N_scope.

Ltac mlia := zify; Z.to_euclidean_division_equations; lia.

(** the stamp a block was given by fetch_add, whatever its flags *)
Definition cst (v : N) : N := ((v + 2) / 4) * 4.

Lemma odd_mod2 x : N.odd x = true <-> x mod 2 = 1.
Proof.
  rewrite <- N.bit0_odd. pose proof (N.bit0_mod x) as H. destruct (N.testbit x 0); cbn [N.b2n] in H; split; intros; try congruence; try discriminate.
Qed.
Lemma has_pending_spec v : has_pending v = true <-> (v mod 4 = 2 \/ v mod 4 = 3).
Proof. unfold has_pending. rewrite odd_mod2. mlia. Qed.
Lemma has_nil_spec v : has_nil v = true <-> v mod 2 = 1.
Proof. unfold has_nil. apply odd_mod2. Qed.
Lemma cst_pending v : has_pending v = true -> cst (v + 2) = cst v.
Proof. rewrite has_pending_spec. unfold cst. mlia. Qed.
Lemma cst_m4 v : v mod 4 = 0 -> cst v = v /\ cst (v + 1) = v /\ (4 <= v -> cst (v - 2) = v).
Proof. unfold cst. mlia. Qed.
Lemma pending_not_m4 v : has_pending v = true -> v mod 4 = 0 -> False.
Proof. rewrite has_pending_spec. lia. Qed.
Lemma cst_0 : cst 0 = 0.
Proof. reflexivity. Qed.

(** marked pointers *)
Lemma optr_eqb_eq a b : optr_eqb a b = true <-> a = b.
Proof.
  destruct a as [x|], b as [y|]; cbn; split; intros H; try congruence; try discriminate.
  - apply tcb_eqb_eq in H. congruence.
  - inversion H. apply tcb_eqb_eq. reflexivity.
Qed.
Lemma mp_eqb_eq (a b : mp) : mp_eqb a b = true <-> a = b.
Proof.
  destruct a as [p m], b as [q k]. unfold mp_eqb. cbn [fst snd]. rewrite andb_true_iff, optr_eqb_eq, N.eqb_eq.
  split; [intros [-> ->]; reflexivity|intros E; inversion E; auto].
Qed.
Lemma mp_eqb_neq (a b : mp) : mp_eqb a b = false <-> a <> b.
Proof. rewrite <- mp_eqb_eq. destruct (mp_eqb a b); split; congruence. Qed.
Lemma marked_mk p m : marked (mk_marked p m) = marked m.
Proof. unfold marked, mk_marked. cbn [snd]. rewrite N.odd_add. cbn. destruct (N.odd (snd m)); reflexivity. Qed.
Lemma marked_clean p m : marked (mk_clean p m) = false.
Proof.
  unfold marked, mk_clean. cbn [snd]. destruct (N.odd m) eqn:E; rewrite N.odd_add, E; reflexivity.
Qed.
Lemma marked_set_del a : marked (set_del a) = true.
Proof. unfold marked, set_del. cbn [snd]. destruct (N.odd (snd a)) eqn:E; [exact E|]. rewrite N.odd_add, E. reflexivity. Qed.

(** the thread is inside its critical region: its block is linked behind head and its prev pointer is not yet marked *)
Definition inreg (p : pc) (x : tls) : bool :=
  match p with
  | P11 _ _ _ | P12 _ _ | P13 _ _ _ | P14 _ _ _ => true
  | Rm R1 _ | Rm R2 _ => true
  | _ => negb (Nat.eqb (nest x) 0)
  end.
Definition inregx (p : pc) (x : tls) : bool := match p with P10 _ _ _ _ => true | _ => inreg p x end.

(** the stamp of a block, by the program point of its owner *)
Definition sform (p : pc) (x : tls) (v : N) : Prop :=
  match p with
  | P7 _ _ s | P8 _ _ s | P9 _ _ s _ | P10 _ _ s _ | P11 _ s _ => cst v = s
  | Rm RM2 f => v = fnst f /\ v mod 4 = 0
  | Rm RM3 _ => True
  | Rm _ _ | P12 _ _ | P13 _ _ _ | P14 _ _ _ => v mod 4 = 0
  | _ => if Nat.eqb (nest x) 0 then True else v mod 4 = 0
  end.
(** a stamp taken from head->stamp *)
Definition pst_ok (p : pc) (h : N) : Prop :=
  match p with
  | P6 _ _ s | P7 _ _ s | P8 _ _ s | P9 _ _ s _ | P10 _ _ s _ | P11 _ s _ => s mod 4 = 0 /\ 4 <= s /\ s + 4 <= h
  | Rm SV2 f | Rm SV3 f => has_pending (fpst f) = true
  | UT7 _ v ts => ts < v
  | _ => True
  end.
(** a tail stamp read earlier *)
Definition ts_ok (p : pc) (tsnow : N) : Prop :=
  match p with PG2 _ ts | PG3 _ ts => ts <= tsnow | _ => True end.

Record S0 (s : state) : Prop := {
  s_h : qstamp s THead mod 4 = 0 /\ 4 <= qstamp s THead;
  s_sb : forall b, cst (qstamp s (TB b)) + 4 <= qstamp s THead;
  s_pc : forall u, pst_ok (th s u) (qstamp s THead);
  s_own : forall u b, cb (tl s u) = Some b ->
            sform (th s u) (tl s u) (qstamp s (TB b)) /\
            (inregx (th s u) (tl s u) = true -> marked (qprev s (TB b)) = false) /\
            g_reg s b = inreg (th s u) (tl s u);
  s_noown : forall b, g_reg s b = true -> exists u, cb (tl s u) = Some b;
  s_ts : forall u, ts_ok (th s u) (qstamp s TTail) }.

Lemma S0_init nc : S0 (init nc).
Proof.
  constructor; cbn; intros; try discriminate; try exact I.
  all: try (split; [reflexivity|unfold StampInc; lia]).
Qed.

(** program points of remove between the marking of the own prev pointer and the NotInList store *)
Definition midp (p : rpt) : bool := match p with R1 | R2 | RM2 | RM3 | SV2 | SV3 => false | _ => true end.
Lemma rm_top_mid f : exists p, rm_top f = Rm p f /\ midp p = true.
Proof. unfold rm_top. repeat match goal with |- context [if ?c then _ else _] => destruct c end; eauto. Qed.
Lemma rm_back_mid f q : midp q = true -> exists p f', rm_back f q = Rm p f' /\ midp p = true.
Proof. intros Hq. unfold rm_back. destruct (fst (flast f)); [|eauto]. destruct (rm_top_mid (wf_last null_mp (wf_next (flast f) f))) as (p & E & M). eauto. Qed.
Lemma rm_skip_mid b f : exists p, rm_skip b f = Rm p f /\ midp p = true.
Proof. unfold rm_skip. repeat match goal with |- context [if ?c then _ else _] => destruct c | |- context [match ?c with Some _ => _ | None => _ end] => destruct c end; eauto. Qed.
Lemma rp_ret_mid w f : exists p f', rp_ret w f = Rm p f' /\ midp p = true.
Proof. unfold rp_ret. destruct w; eauto. Qed.
Lemma mn_ret_mid w r f : exists p f', mn_ret w r f = Rm p f' /\ midp p = true.
Proof.
  unfold mn_ret. destruct w, r; eauto using rp_ret_mid.
  destruct (rm_top_mid (wf_last null_mp (wf_next (flast f) f))) as (p & E & M). eauto.
Qed.
Ltac rmm :=
  repeat match goal with
  | |- context [rm_top ?f] => let p := fresh "p" in let E := fresh "Er" in let M := fresh "Mp" in destruct (rm_top_mid f) as (p & E & M); rewrite E in *; clear E
  | |- context [rm_back ?f ?q] => let p := fresh "p" in let g := fresh "f" in let E := fresh "Er" in let M := fresh "Mp" in destruct (rm_back_mid f q eq_refl) as (p & g & E & M); rewrite E in *; clear E
  | |- context [rm_skip ?b ?f] => let p := fresh "p" in let E := fresh "Er" in let M := fresh "Mp" in destruct (rm_skip_mid b f) as (p & E & M); rewrite E in *; clear E
  | |- context [rp_ret ?w ?f] => let p := fresh "p" in let g := fresh "f" in let E := fresh "Er" in let M := fresh "Mp" in destruct (rp_ret_mid w f) as (p & g & E & M); rewrite E in *; clear E
  | |- context [mn_ret ?w ?r ?f] => let p := fresh "p" in let g := fresh "f" in let E := fresh "Er" in let M := fresh "Mp" in destruct (mn_ret_mid w r f) as (p & g & E & M); rewrite E in *; clear E
  end.
Lemma sform_mid p f x v : midp p = true -> sform (Rm p f) x v = (v mod 4 = 0).
Proof. destruct p; cbn; intros; try discriminate; reflexivity. Qed.
Lemma inreg_mid p f x : midp p = true -> inreg (Rm p f) x = negb (Nat.eqb (nest x) 0) /\ inregx (Rm p f) x = negb (Nat.eqb (nest x) 0).
Proof. destruct p; cbn; intros; try discriminate; split; reflexivity. Qed.
Lemma ts_mid p f h : ts_ok (Rm p f) h = True.
Proof. reflexivity. Qed.
Lemma pst_mid p f h : midp p = true -> pst_ok (Rm p f) h = True.
Proof. destruct p; cbn; intros; try discriminate; reflexivity. Qed.

Ltac sfn := cbn [inreg inregx sform pst_ok ts_ok].
Ltac sfn_in H := cbn [inreg inregx sform pst_ok ts_ok] in H.

Ltac split_updT_all :=
  repeat match goal with
  | |- context [updT ?f ?i ?v ?i] => rewrite (updT_same f i v)
  | H : context [updT ?f ?i ?v ?i] |- _ => rewrite (updT_same f i v) in H
  | H : ?j <> ?i |- context [updT ?f ?i ?v ?j] => rewrite (updT_other f i v j H)
  | H : ?j <> ?i, H2 : context [updT ?f ?i ?v ?j] |- _ => rewrite (updT_other f i v j H) in H2
  | |- context [updT ?f ?i ?v ?j] => destruct (tcb_eq_dec j i); [try discriminate; try subst j|]
  | H2 : context [updT ?f ?i ?v ?j] |- _ => destruct (tcb_eq_dec j i); [try discriminate; try subst j|]
  end.

Ltac mp_eqs :=
  repeat match goal with
  | H : mp_eqb _ _ = true |- _ => apply mp_eqb_eq in H
  | H : mp_eqb _ _ = false |- _ => apply mp_eqb_neq in H
  end.

(* two threads do not own the same block *)
Ltac own_neq O :=
  repeat match goal with
  | H1 : cb (tl ?s ?u) = Some ?b1, H2 : cb (tl ?s ?t) = Some ?b2, Hne : ?u <> ?t |- _ =>
    lazymatch goal with
    | _ : b1 <> b2 |- _ => fail
    | _ => assert (b1 <> b2) by (intros ->; destruct (o_own s O u b2 H1) as [X1 _]; destruct (o_own s O t b2 H2) as [X2 _]; congruence)
    end
  end.

(** * what one step writes to the queue *)
Definition own (s : state) (t : nat) (x : tcb) : Prop := exists b, cb (tl s t) = Some b /\ x = TB b.
Definition fresh_blk (s : state) (x : tcb) : Prop := x = TB (nalloc s).

Lemma step_qwrites ns s t s' es : tshape ns (th s t) (tl s t) -> step ns s (Step t) = Some (s', es) ->
  (forall x, qstamp s' x = qstamp s x \/
             (own s t x /\ ((exists k hp v, th s t = P6 k hp v /\ qstamp s' x = v - 2) \/ (exists k v my, th s t = P11 k v my /\ qstamp s' x = v) \/
                            (exists f, th s t = Rm RM2 f /\ qstamp s' x = fnst f + 1))) \/
             (fresh_blk s x /\ qstamp s' x = 0) \/
             (x = THead /\ qstamp s' x = qstamp s x + 4 /\ exists k hp, th s t = P5 k hp) \/
             (exists f, th s t = Rm SV3 f /\ qstamp s x = fpst f /\ qstamp s' x = fpst f + 2) \/
             (x = TTail /\ exists k v ts, th s t = UT7 k v ts /\ qstamp s x = ts /\ qstamp s' x = v)) /\
  (forall x, qprev s' x = qprev s x \/ own s t x \/ (fresh_blk s x /\ qprev s' x = null_mp) \/
             marked (qprev s' x) = marked (qprev s x)) /\
  (forall b, g_reg s' b = g_reg s b \/ cb (tl s t) = Some b) /\
  (forall b, cb (tl s t) = Some b -> cb (tl s' t) = Some b \/ (th s t = X1 /\ forall b', g_reg s' b' = g_reg s b')).
Proof.
  intros T H. unfold_step H. cbv zeta in H. step_split H.
  all: bool_eqs; mp_eqs; prj; rewrite ?upd_same; prj.
  all: try match goal with E : th _ _ = _ |- _ => rewrite E in T end.
  all: (split; [intros x|split; [intros x|split; [intros bb|intros bb Hbb]]]).
  all: try solve [left; reflexivity].
  all: try solve [left; first [assumption|congruence]].
  all: try solve [right; assumption].
  all: try solve [right; split; [reflexivity|intros; reflexivity]].
  all: try solve [exfalso; rewrite (ts_no _ _ _ T eq_refl) in Hbb; discriminate Hbb].
  all: try solve [match goal with |- context [updT ?f ?i ?v ?x] => destruct (updT_cases f i v x) as [[-> ->]|[Hx ->]] end;
                  [|left; reflexivity];
                  first [ right; left; split; [eexists; split; [eassumption|reflexivity]|];
                          first [ left; do 3 eexists; split; reflexivity | right; left; do 3 eexists; split; reflexivity | right; right; eexists; split; reflexivity ]
                        | right; left; eexists; split; [eassumption|reflexivity]
                        | right; right; left; split; reflexivity
                        | right; right; right; left; split; [reflexivity|split; [reflexivity|eauto]]
                        | right; right; right; right; left; eexists; split; [reflexivity|split; [congruence|reflexivity]]
                        | right; right; right; right; right; split; [reflexivity|do 3 eexists; split; [reflexivity|split; [congruence|reflexivity]]]
                        | right; right; right; rewrite ?marked_mk; congruence ]].
  all: try solve [match goal with |- context [updN ?f ?i ?v ?x] => destruct (updN_cases f i v x) as [[-> ->]|[Hx ->]] end;
                  [right; first [assumption|reflexivity|congruence]|left; reflexivity]].
Qed.


(* what the shape of the stepping thread says about its region counter *)
Ltac nest_facts T :=
  let C := fresh "Hcnt" in pose proof (ts_cnt _ _ _ T) as C; unfold rgc in C; fn_in C;
  repeat match goal with E : rg _ = _ |- _ => rewrite E in C end; cbn [is_some] in C;
  try match goal with E : gs (tl ?s ?t) ?s0 = Some ?n |- _ =>
    let L := fresh "Hpos" in pose proof (cnt_pos _ _ _ _ E (ts_slot _ _ _ T s0 eq_refl)) as L; rewrite ?E in C; cbn [is_some] in C end;
  try match type of C with context [is_some (gs (tl ?s ?t) ?s0)] =>
    let Eg := fresh "Eg" in destruct (gs (tl s t) s0) eqn:Eg; cbn [is_some] in C;
    [let L := fresh "Hpos" in pose proof (cnt_pos _ _ _ _ Eg (ts_slot _ _ _ T s0 eq_refl)) as L|] end;
  try (let L := fresh "Hl0" in pose proof (ts_l _ _ _ T eq_refl) as L);
  try (let L := fresh "Hp0" in pose proof (ts_p _ _ _ T eq_refl) as L);
  try (let L := fresh "Hc0" in pose proof (ts_c _ _ _ T eq_refl) as L);
  try (let L := fresh "Hx0" in pose proof (ts_x _ _ _ T eq_refl) as L).

(** * the stepping thread *)
Definition self_ok (s' : state) (t : nat) : Prop :=
  pst_ok (th s' t) (qstamp s' THead) /\ ts_ok (th s' t) (qstamp s' TTail) /\
  (forall b, cb (tl s' t) = Some b ->
     sform (th s' t) (tl s' t) (qstamp s' (TB b)) /\
     (inregx (th s' t) (tl s' t) = true -> marked (qprev s' (TB b)) = false) /\
     g_reg s' b = inreg (th s' t) (tl s' t)).

Lemma nest_pos_eqb n : (1 <= n)%nat -> Nat.eqb n 0 = false.
Proof. destruct n; [lia|reflexivity]. Qed.

Ltac self_setup H T I :=
  unfold_step H; cbv zeta in H; step_split H;
  bool_eqs; mp_eqs; prj; rewrite ?upd_same; prj; prj_hyps; rewrite ?upd_same in *; prj_hyps;
  try match goal with E : th _ _ = _ |- _ => rewrite E in T end;
  let Ih := fresh "Ih" in let Isb := fresh "Isb" in let Ipc := fresh "Ipc" in let Iown := fresh "Iown" in
  let Inoown := fresh "Inoown" in let Its := fresh "Its" in
  destruct I as [Ih Isb Ipc Iown Inoown Its];
  match goal with E : th ?s ?t = _ |- _ =>
    let Ipct := fresh "Ipct" in let Itst := fresh "Itst" in
    pose proof (Ipc t) as Ipct; pose proof (Its t) as Itst;
    rewrite E in Ipct, Itst; sfn_in Ipct; sfn_in Itst
  end;
  rmm; unfold self_ok; prj; rewrite ?upd_same; prj.

Ltac m4facts :=
  repeat match goal with
  | H : ?v mod 4 = 0 |- _ => lazymatch goal with | _ : cst v = v /\ _ |- _ => fail | _ => pose proof (cst_m4 v H) end
  | H : has_pending ?v = true |- _ => lazymatch goal with | _ : cst (v + 2) = cst v |- _ => fail | _ => pose proof (cst_pending v H) end
  end.
Ltac nest_cases :=
  try match goal with H : context [nest (tl ?s ?t)] |- _ => destruct (nest (tl s t)) eqn:?En; try discriminate; try lia end;
  cbn [Nat.eqb negb Nat.pred Init.Nat.pred] in *;
  repeat match goal with
  | H : ?n = O |- _ => is_var n; subst n
  | H : ?n <> O |- _ => is_var n; destruct n; [congruence|]
  end; cbn [Nat.eqb negb Nat.pred Init.Nat.pred] in *;
  repeat match goal with
  | H : true = true -> _ |- _ => specialize (H eq_refl)
  | H : false = true -> _ |- _ => clear H
  end.
Ltac self_last :=
  unfold StampInc, PendingPush, NotInList in *;
  rewrite ?updT_same, ?updN_same, ?marked_clean, ?marked_mk, ?marked_set_del;
  repeat match goal with |- context [updT ?f ?i ?v ?j] => rewrite (updT_other f i v j) by discriminate end;
  repeat match goal with H : _ /\ _ |- _ => destruct H end;
  m4facts;
  first [ assumption | exact I | reflexivity | discriminate | lia | congruence | (intros; assumption) | (intros; congruence) | (intros; discriminate)
        | repeat split; first [assumption | lia | congruence] ].
Ltac midrw :=
  repeat match goal with Mp : midp ?p = true |- _ => rewrite ?(sform_mid p _ _ _ Mp), ?(proj1 (inreg_mid p _ _ Mp)), ?(proj2 (inreg_mid p _ _ Mp)), ?(pst_mid p _ _ Mp), ?(ts_mid p _ _) in * end.
Ltac self_fin :=
  prj;
  (split; [midrw; sfn; cbn [Nat.eqb negb]; nest_cases; self_last|split; [midrw; sfn; cbn [Nat.eqb negb]; nest_cases; self_last|
     let b := fresh "b" in let Hcb := fresh "Hcb" in intros b Hcb; prj_in Hcb;
     try match goal with
     | Io : forall u b, cb (tl ?s u) = Some b -> _, E : th ?s ?t = _ |- _ =>
       lazymatch type of Hcb with
       | cb (tl s t) = Some _ =>
         let G := fresh "G" in let G1 := fresh "G1" in let G2 := fresh "G2" in let G3 := fresh "G3" in
         pose proof (Io t b Hcb) as G; rewrite E in G; destruct G as (G1 & G2 & G3); sfn_in G1; sfn_in G2; sfn_in G3
       end
     end;
     try match goal with E2 : cb ?x = Some ?n |- _ => tryif constr_eq E2 Hcb then fail else (lazymatch type of Hcb with cb x = Some _ => rewrite E2 in Hcb end) end;
     try discriminate Hcb; try (injection Hcb as Hcb; try subst b);
     midrw; sfn; prj; cbn [Nat.eqb negb]; nest_cases;
     (split; [|split]); self_last]]).

Lemma S0_self_P ns s t s' es : tshape ns (th s t) (tl s t) -> O0 s -> S0 s -> step ns s (Step t) = Some (s', es) ->
  in_pphase (th s t) = true -> self_ok s' t.
Proof.
  intros T O I H Hph. destruct (th s t) eqn:Epc; try discriminate Hph; clear Hph.
  all: unfold step, step_gen in H; rewrite Epc in H.
  all: self_setup H T I.
  all: nest_facts T.
  all: solve [self_fin].
Qed.

Lemma S0_self_Rm ns s t s' es p f : tshape ns (th s t) (tl s t) -> O0 s -> S0 s -> step ns s (Step t) = Some (s', es) ->
  th s t = Rm p f -> self_ok s' t.
Proof.
  intros T O I H Epc.
  unfold step, step_gen in H; rewrite Epc in H.
  self_setup H T I.
  all: nest_facts T.
  all: try solve [self_fin].
  (* a helper clears the PendingPush flag of some block: not head's, not its own *)
  match goal with E : qstamp s ?x = fpst f |- _ => rename E into Eq; set (tx := x) in * end.
  assert (Hh : tx <> THead).
  { intros X. rewrite X in Eq. destruct Ih as [Ih1 _]. rewrite Eq in Ih1. eapply pending_not_m4; eauto. }
  assert (Hn : tx <> TB n).
  { intros X. rewrite X in Eq.
    match goal with Io : forall u b, cb (tl s u) = Some b -> _ |- _ => destruct (Io t n E) as (G1 & _) end.
    rewrite Epc in G1. sfn_in G1. rewrite Eq in G1. eapply pending_not_m4; eauto. }
  replace (updT (qstamp s) tx (fpst f + 2) THead) with (qstamp s THead) by (symmetry; apply updT_other; congruence).
  assert (Hb : forall b, cb (tl s t) = Some b -> updT (qstamp s) tx (fpst f + 2) (TB b) = qstamp s (TB b)).
  { intros b Hb. rewrite E in Hb. injection Hb as <-. apply updT_other. congruence. }
  split; [midrw; exact I|]. split; [midrw; exact I|].
  intros b Hcb. rewrite (Hb b Hcb).
  match goal with Io : forall u b, cb (tl s u) = Some b -> _ |- _ => destruct (Io t b Hcb) as (G1 & G2 & G3) end.
  rewrite Epc in G1, G2, G3. sfn_in G1; sfn_in G2; sfn_in G3. midrw. sfn.
  repeat split; assumption.
Qed.

Lemma S0_self_other ns s t s' es : tshape ns (th s t) (tl s t) -> O0 s -> S0 s -> step ns s (Step t) = Some (s', es) ->
  in_pphase (th s t) = false -> (forall p f, th s t <> Rm p f) -> self_ok s' t.
Proof.
  intros T O I H Hph Hrm. destruct (th s t) eqn:Epc; try discriminate Hph; try (exfalso; eapply Hrm; reflexivity); clear Hph Hrm.
  all: unfold step, step_gen in H; rewrite Epc in H.
  all: self_setup H T I.
  all: nest_facts T.
  all: try solve [self_fin].
  (* a control block is adopted / registered: it was not in a region *)
  all: assert (Hreg : forall b, (forall u, cb (tl s u) <> Some b) -> g_reg s b = false)
         by (intros b0 Hb0; destruct (g_reg s b0) eqn:Er; [|reflexivity];
             match goal with Ino : forall b, g_reg _ b = true -> _ |- _ => destruct (Ino b0 Er) as (u & Hu) end; exfalso; eapply Hb0; eauto).
  - split; [exact I|]. split; [exact I|]. intros b Hcb. injection Hcb as <-. sfn. prj. rewrite Hc0. cbn.
    rewrite (Hreg r); [repeat split; intros; discriminate|].
    intros u Hu. destruct (o_own s O u r Hu) as [Ho _]. destruct (o_rev s O r u Ho) as (_ & Hst & _). rewrite E in Hst. discriminate.
  - split; [exact I|]. split; [exact I|]. intros b0 Hcb. injection Hcb as <-. sfn. prj. rewrite Hc0. cbn.
    rewrite (Hreg b); [repeat split; intros; discriminate|].
    intros u Hu. destruct (o_own s O u b Hu) as [Ho Hin].
    assert (Hc : cblk (th s t) = Some b) by (rewrite Epc; reflexivity).
    destruct (o_ownC s O t b Hc) as [_ Hni]. contradiction.
Qed.

Lemma sform_pending p x v : has_pending v = true -> sform p x v -> sform p x (v + 2).
Proof.
  intros Hp. pose proof (pending_not_m4 _ Hp) as Hc. pose proof (cst_pending _ Hp) as Hcs.
  destruct p; try match goal with q : rpt |- _ => destruct q end; cbn [sform]; intros F;
    try exact I; try (rewrite Hcs; exact F); try (exfalso; apply Hc; first [exact F | apply F]);
    try (destruct (Nat.eqb (nest x) 0); [exact I|exfalso; apply Hc; exact F]).
Qed.

Lemma rm_dec (p : pc) : (exists q f, p = Rm q f) \/ (forall q f, p <> Rm q f).
Proof. destruct p; try (right; intros; discriminate). left. eauto. Qed.

Lemma S0_self ns s t s' es : tshape ns (th s t) (tl s t) -> O0 s -> S0 s -> step ns s (Step t) = Some (s', es) -> self_ok s' t.
Proof.
  intros T O I H. destruct (in_pphase (th s t)) eqn:Hp; [eapply S0_self_P; eauto|].
  destruct (rm_dec (th s t)) as [(q & f & E)|Hn]; [eapply S0_self_Rm; eauto|eapply S0_self_other; eauto].
Qed.

Lemma S0_step ns s t s' es : T0 ns s -> O0 s -> S0 s -> step ns s (Step t) = Some (s', es) -> S0 s'.
Proof.
  intros T O I H.
  destruct (S0_self _ _ _ _ _ (T t) O I H) as (Sp & St & So).
  destruct (step_qwrites ns s t s' es (T t) H) as (WA & WB & WC & WD).
  destruct (step_frame _ _ _ _ _ H) as (Fth & _ & _ & Hna).
  pose proof I as [Ih Isb Ipc Iown Inoown Its].
  pose proof (Ipc t) as Ipct.
  assert (HH : qstamp s THead <= qstamp s' THead /\ qstamp s' THead mod 4 = 0).
  { destruct (WA THead) as [E|[[(b & _ & X) _]|[[X _]|[(_ & E & _)|[(f & Ef & E1 & E2)|(X & _)]]]]]; try discriminate X.
    - rewrite E. split; [lia|apply Ih].
    - rewrite E. destruct Ih as [Ih1 Ih2]. split; [lia|]. revert Ih1. generalize (qstamp s THead). intros v Hv. mlia.
    - exfalso. rewrite Ef in Ipct. sfn_in Ipct. destruct Ih as [Ih1 _]. rewrite E1 in Ih1. eapply pending_not_m4; eauto. }
  destruct HH as [HH1 HH2].
  assert (HT : qstamp s TTail <= qstamp s' TTail).
  { destruct (WA TTail) as [E|[[(b & _ & X) _]|[[X _]|[(X & _)|[(f & Ef & E1 & E2)|(_ & k & v & ts & Ef & E1 & E2)]]]]]; try discriminate X.
    - rewrite E. lia.
    - rewrite E1, E2. lia.
    - rewrite Ef in Ipct. sfn_in Ipct. rewrite E1, E2. lia. }
  assert (Hsb : forall b, cst (qstamp s' (TB b)) + 4 <= qstamp s' THead).
  { intros b. specialize (Isb b).
    destruct (WA (TB b)) as [E|[[(b0 & Hb0 & X) [(k & hp & v & Ef & E)|[(k & v & my & Ef & E)|(f & Ef & E)]]]|[[X E]|[(X & _)|[(f & Ef & E1 & E2)|(X & _)]]]]]; try discriminate X.
    - rewrite E. lia.
    - rewrite Ef in Ipct. sfn_in Ipct. destruct Ipct as (P1 & P2 & P3). rewrite E. destruct (cst_m4 v P1) as (_ & _ & C). rewrite (C P2). lia.
    - rewrite Ef in Ipct. sfn_in Ipct. destruct Ipct as (P1 & P2 & P3). rewrite E. destruct (cst_m4 v P1) as (C & _). rewrite C. lia.
    - injection X as ->. destruct (Iown t b0 Hb0) as (G1 & _). rewrite Ef in G1. sfn_in G1. destruct G1 as [G1 G1'].
      rewrite E, <- G1. destruct (cst_m4 _ G1') as (C0 & C1 & _). rewrite C1. rewrite <- C0 at 1. lia.
    - rewrite E. unfold cst. cbn. lia.
    - rewrite Ef in Ipct. sfn_in Ipct. rewrite E2, (cst_pending _ Ipct), <- E1. lia. }
  constructor.
  - split; [exact HH2|destruct Ih; lia].
  - exact Hsb.
  - intros u. destruct (Nat.eq_dec u t) as [->|Hne]; [exact Sp|].
    destruct (Fth u Hne) as [-> _]. specialize (Ipc u). destruct (th s u); sfn; sfn_in Ipc; try exact I; try lia; exact Ipc.
  - intros u b Hcb. destruct (Nat.eq_dec u t) as [->|Hne]; [apply So; exact Hcb|].
    destruct (Fth u Hne) as [Eth Etl]. rewrite Eth, Etl in *.
    destruct (Iown u b Hcb) as (F1 & F2 & F3).
    assert (Hnt : cb (tl s t) <> Some b).
    { intros X. destruct (o_own s O u b Hcb) as [X1 _]. destruct (o_own s O t b X) as [X2 _]. congruence. }
    assert (Hlt : b < nalloc s).
    { destruct (o_own s O u b Hcb) as [X1 _]. apply (o_rev s O) in X1. apply X1. }
    split; [|split].
    + destruct (WA (TB b)) as [E|[[(b0 & Hb0 & X) _]|[[X E]|[(X & _)|[(f & Ef & E1 & E2)|(X & _)]]]]]; try discriminate X.
      * rewrite E. exact F1.
      * injection X as ->. contradiction.
      * unfold fresh_blk in X. injection X as ->. lia.
      * rewrite Ef in Ipct. sfn_in Ipct. rewrite E2. rewrite E1 in F1.
        apply sform_pending; assumption.
    + intros Hi. specialize (F2 Hi).
      destruct (WB (TB b)) as [E|[(b0 & Hb0 & X)|[[X E]|E]]].
      * rewrite E. exact F2.
      * injection X as ->. contradiction.
      * unfold fresh_blk in X. injection X as ->. lia.
      * rewrite E. exact F2.
    + destruct (WC b) as [E|E]; [rewrite E; exact F3|contradiction].
  - intros b Hb. destruct (WC b) as [E|E].
    + rewrite E in Hb. destruct (Inoown b Hb) as (u & Hu). destruct (Nat.eq_dec u t) as [->|Hne].
      * destruct (WD b Hu) as [X|[X1 X2]]; [exists t; exact X|].
        exfalso. destruct (Iown t b Hu) as (_ & _ & G3). rewrite X1 in G3. sfn_in G3.
        pose proof (ts_l _ _ _ (T t)) as L. rewrite X1 in L. rewrite (L eq_refl) in G3. cbn in G3. congruence.
      * exists u. destruct (Fth u Hne) as [_ ->]. exact Hu.
    + destruct (WD b E) as [X|[X1 X2]]; [exists t; exact X|].
      exfalso. rewrite X2 in Hb. destruct (Iown t b E) as (_ & _ & G3). rewrite X1 in G3. sfn_in G3.
      pose proof (ts_l _ _ _ (T t)) as L. rewrite X1 in L. rewrite (L eq_refl) in G3. cbn in G3. congruence.
  - intros u. destruct (Nat.eq_dec u t) as [->|Hne]; [exact St|].
    destruct (Fth u Hne) as [-> _]. specialize (Its u). destruct (th s u); sfn; sfn_in Its; try exact I; lia.
Qed.

Lemma start_effect ns s t o s' es : step ns s (Start t o) = Some (s', es) ->
  th s t = Idle /\ qstamp s' = qstamp s /\ qprev s' = qprev s /\ g_reg s' = g_reg s /\
  (forall u, u <> t -> th s' u = th s u /\ tl s' u = tl s u) /\ cb (tl s' t) = cb (tl s t) /\
  ((th s' t = Begin o /\ tl s' t = tl s t) \/ (th s' t = X1 /\ tl s' t = tl s t /\ nest (tl s t) = O) \/
   (exists fr, th s' t = Rm R1 (frame0 (LExit fr)) /\ nest (tl s t) <> O /\ nest (tl s' t) = O)).
Proof.
  intros H. unfold step, step_gen in H. step_split H.
  all: bool_eqs; prj; rewrite ?upd_same; prj.
  all: repeat split; try reflexivity; try assumption.
  all: try (intros u Hu; rewrite ?upd_other by exact Hu; split; reflexivity).
  all: try (intros; rewrite ?upd_other by assumption; reflexivity).
  all: try solve [left; split; reflexivity].
  all: try solve [right; left; repeat split; assumption].
  all: try solve [right; right; eexists; repeat split; assumption].
Qed.

Lemma S0_start ns s t o s' es : S0 s -> step ns s (Start t o) = Some (s', es) -> S0 s'.
Proof.
  intros I H. destruct (start_effect _ _ _ _ _ _ H) as (Eid & Es & Ep & Er & Fo & Ecb & Hc).
  destruct I as [Ih Isb Ipc Iown Inoown Its].
  assert (Hpc : forall u, u <> t -> th s' u = th s u) by (intros u Hu; apply Fo; exact Hu).
  assert (Hns : match th s' t with P6 _ _ _ | P7 _ _ _ | P8 _ _ _ | P9 _ _ _ _ | P10 _ _ _ _ | P11 _ _ _ | Rm SV2 _ | Rm SV3 _ | UT7 _ _ _ | PG2 _ _ | PG3 _ _ => False | _ => True end).
  { destruct Hc as [[-> _]|[[-> _]|(fr & -> & _)]]; exact I. }
  constructor; rewrite ?Es, ?Ep, ?Er.
  - exact Ih.
  - exact Isb.
  - intros u. destruct (Nat.eq_dec u t) as [->|Hne]; [|rewrite (Hpc u Hne); apply Ipc].
    destruct (th s' t); try exact I; try contradiction. destruct p; try exact I; contradiction.
  - intros u b Hcb. destruct (Nat.eq_dec u t) as [->|Hne].
    + rewrite Ecb in Hcb. specialize (Iown t b Hcb). rewrite Eid in Iown. sfn_in Iown. destruct Iown as (G1 & G2 & G3).
      destruct Hc as [[-> ->]|[[-> [-> Hn]]|(fr & -> & Hn & Hn')]]; sfn.
      * repeat split; assumption.
      * repeat split; assumption.
      * destruct (nest (tl s t)); [congruence|]. cbn in *. repeat split; auto.
    + destruct (Fo u Hne) as [-> Et]. rewrite Et in *. apply Iown. exact Hcb.
  - intros b Hb. destruct (Inoown b Hb) as (u & Hu). exists u.
    destruct (Nat.eq_dec u t) as [->|Hne]; [rewrite Ecb; exact Hu|]. destruct (Fo u Hne) as [_ ->]. exact Hu.
  - intros u. destruct (Nat.eq_dec u t) as [->|Hne]; [|rewrite (Hpc u Hne); apply Its].
    destruct (th s' t); try exact I; contradiction.
Qed.

Section ReachS.
Variables (ns : nat) (nc : N).
Lemma S0_reach s : reachable ns nc s -> S0 s.
Proof.
  apply (inv_rule_aux _ _ _ _ _ (fun s => T0 ns s /\ O0 s) S0).
  - intros s0 Hr. split; [apply (T0_reach ns nc); exact Hr|apply (O0_reach ns nc); exact Hr].
  - apply S0_init.
  - intros s0 a s1 es [J1 J2] _ I H. destruct a as [t o|t]; [eapply S0_start; eauto|eapply S0_step; eauto].
Qed.
End ReachS.
