(** The invariant of the lock-free reference counting model (Model/LfrcDefs.v) holds in every reachable state, and the
    theorems that follow from it: reference-count accounting, C01 (no object is destroyed and no node handed out again
    while a validated guard refers to it, no dereference of a destroyed object), C02 (exactly-once destruction per
    incarnation, at most one push / pop per incarnation, the free list is a duplicate free chain, no ABA in pop),
    nothing leaks at quiescence.  Examples by computation, including the recycled-node race.  No axioms. *)
From Coq Require Import NArith List Bool Arith Lia PeanoNat.
From XV Require Import Conc.Lts Conc.Ev Model.LfrcDefs Proof.LfrcBase Proof.LfrcRefs Proof.LfrcNodes Proof.LfrcOwn Proof.LfrcFree.
Import ListNotations.

Lemma Inv_step ns s a s' es : Inv ns s -> step ns s a = Some (s', es) -> Inv ns s'.
Proof.
  intros HI H. destruct a as [t o|t].
  - (* Start: only the program counter of t changes *)
    pose proof (start_eq _ _ _ _ _ _ H) as (p & Hs' & _ & _).
    constructor.
    + intros u. destruct (Nat.eq_dec u t) as [->|Hut].
      * eapply tsh_start; [exact H|apply (I_sh _ _ HI)].
      * destruct (step_frame _ _ _ _ _ H u Hut) as [-> ->]. apply (I_sh _ _ HI).
    + eapply P_refs_start; eauto.
    + subst s'. exact (I_alloc _ _ HI).
    + subst s'. exact (I_new _ _ HI).
    + subst s'. exact (I_ne _ _ HI).
    + subst s'. exact (I_j1 _ _ HI).
    + subst s'. exact (I_j2 _ _ HI).
    + subst s'. exact (I_q1 _ _ HI).
    + eapply P_own_start; eauto.
    + eapply P_ownr_start; eauto.
    + subst s'. exact (I_alive _ _ HI).
    + subst s'. exact (I_cnt _ _ HI).
    + subst s'. exact (I_fl _ _ HI).
    + subst s'. exact (I_uaf _ _ HI).
  - constructor.
    + intros u. destruct (Nat.eq_dec u t) as [->|Hut].
      * eapply tsh_step; [exact H|apply (I_sh _ _ HI)].
      * destruct (step_frame _ _ _ _ _ H u Hut) as [-> ->]. apply (I_sh _ _ HI).
    + eapply P_refs_step; eauto.
    + eapply P_alloc_step; eauto.
    + eapply P_new_step; eauto.
    + eapply P_ne_step; eauto.
    + eapply P_j1_step; eauto.
    + eapply P_j2_step; eauto.
    + eapply P_q1_step; eauto.
    + eapply P_own_step; eauto.
    + eapply P_ownr_step; eauto.
    + eapply P_alive_step; eauto.
    + eapply P_cnt_step; eauto.
    + eapply P_fl_step; eauto.
    + eapply P_uaf_step; eauto.
Qed.

Lemma Inv_init ns nc : Inv ns (init nc).
Proof.
  constructor; cbn [init cells fhead rc dst nxt nalloc nextid nid th tl g_ns g_inc g_nd g_npush g_npop g_alive g_refs g_fl g_uaf].
  - intros t. apply tsh_init.
  - intros n. destruct (Nat.ltb_spec n nc) as [Hlt|Hge].
    + split; [repeat constructor; intros []|]. split; [|reflexivity].
      intros r. destruct r as [c|u g|u]; cbn [holds init cells th tl tl0 gd gnode owned In].
      * destruct (Nat.ltb_spec c nc); split; intros X.
        -- destruct X as [X|[]]. injection X as <-. reflexivity.
        -- injection X as <-. left. reflexivity.
        -- destruct X as [X|[]]. injection X as <-. lia.
        -- discriminate.
      * split; [intros [X|[]]; discriminate | discriminate].
      * split; [intros [X|[]]; discriminate | discriminate].
    + split; [constructor|]. split; [|reflexivity].
      intros r. destruct r as [c|u g|u]; cbn [holds init cells th tl tl0 gd gnode owned In]; (split; [intros []|]); try discriminate.
      destruct (Nat.ltb_spec c nc); intros X; [injection X as ->; lia | discriminate].
  - intros n. destruct (Nat.ltb_spec n nc); split; intros; try lia; try discriminate; reflexivity.
  - intros n. destruct (Nat.ltb_spec n nc); cbn [is_new]; [intros []|reflexivity].
  - intros n. destruct (Nat.ltb_spec n nc); cbn [has_ref]; [discriminate|intros []].
  - intros c n. destruct (Nat.ltb_spec c nc); intros X; [injection X as <-|discriminate].
    destruct (Nat.ltb_spec c nc); [reflexivity|lia].
  - intros t g n X. discriminate X.
  - intros t g n X. discriminate X.
  - intros t. exact I.
  - intros n. destruct (n <? nc); exact I.
  - intros n. destruct (n <? nc); cbn [alive_ok]; auto.
  - intros n. destruct (n <? nc); cbn [b2n live4 isfree]; auto.
  - split; [constructor|]. split; [|split; [reflexivity|exact I]].
    intros n. destruct (n <? nc); (split; [intros []|discriminate]).
  - reflexivity.
Qed.

Theorem inv_reach ns nc st : reach (init nc) (step ns) st -> Inv ns st.
Proof. apply inv_rule; [apply Inv_init|apply Inv_step]. Qed.

(** * Single steps *)
(** what a step does to the ghost counters and the life cycle of a node *)
Lemma destroy_step ns s t s' es n : Inv ns s -> step ns s (Step t) = Some (s', es) -> g_nd s' n <> g_nd s n ->
  g_nd s' n = S (g_nd s n) /\ g_alive s n = true /\ g_alive s' n = false /\ g_inc s' n = g_inc s n /\
  ((exists k, th s t = D4 n k /\ g_ns s n = NClaimed t) \/ (th s t = X1 n /\ g_ns s n = NFresh t)).
Proof.
  intros HI H. leaves HI H t.
  all: prep; prj; try congruence.
  all: intros Hne; upd_split; subst; try congruence.
  - repeat split; try assumption. left. eauto.
  - match goal with Ho : g_ns _ ?m = NFresh _ |- _ => pose proof (I_alive _ _ HI m) as IA; rewrite Ho in IA end.
    cbn in IA. destruct IA as [Ha _].
    repeat split; try assumption. right. split; [reflexivity|assumption].
Qed.

Lemma construct_step ns s t s' es n : Inv ns s -> step ns s (Step t) = Some (s', es) -> g_inc s' n <> g_inc s n ->
  g_inc s' n = S (g_inc s n) /\ g_ns s n = NCons t /\ g_ns s' n = NFresh t /\ g_alive s n = false /\ g_alive s' n = true /\
  exists c i, th s t = N3 c n i.
Proof.
  intros HI H. leaves HI H t.
  all: prep; prj; try congruence.
  all: intros Hne; upd_split; subst; try congruence.
  match goal with Ho : g_ns _ ?m = NCons _ |- _ => pose proof (I_alive _ _ HI m) as IA; rewrite Ho in IA end.
  cbn in IA. repeat split; try assumption. eauto.
Qed.

(** the count moves to zero: the claimer's reference was the only one *)
Lemma claim_step ns s t s' es n u : Inv ns s -> step ns s (Step t) = Some (s', es) ->
  g_ns s' n = NClaimed u -> g_ns s n <> NClaimed u ->
  u = t /\ exists w k, th s t = D2 w n 2 k /\ rc s n = 2 /\ rc s' n = 1 /\ g_refs s n = [who_ref t w] /\ g_refs s' n = [].
Proof.
  intros HI H. leaves HI H t.
  all: assert (Hna : g_ns s (nalloc s) = NNone) by (apply (I_alloc _ _ HI); lia).
  all: prep; node_facts HI; prj; try congruence.
  all: intros Hc Hn; upd_split; subst; try congruence; try discriminate.
  all: assert (Hut : u = t) by congruence; subst u; split; [reflexivity|].
  all: match goal with Hf : g_refs _ _ = _ /\ _ |- _ => destruct Hf as (Hr & _) end.
  all: rewrite Hr; rewrite ?E1 in *; try (exfalso; apply E3; reflexivity).
  all: do 2 eexists; (split; [reflexivity|]); repeat split; cbn [filter who_ref ref_eqb negb]; rewrite ?Nat.eqb_refl; reflexivity.
Qed.

Lemma push_step ns s t s' es n : Inv ns s -> step ns s (Step t) = Some (s', es) -> g_npush s' n <> g_npush s n ->
  g_npush s' n = S (g_npush s n) /\ g_ns s n = NClaimed t /\ g_ns s' n = NFree /\ g_alive s n = false /\
  ~ In n (g_fl s) /\ g_fl s' = n :: g_fl s /\ fhead s' = Some n /\ nxt s n = fhead s /\ exists h k, th s t = U3 n h k.
Proof.
  intros HI H. leaves HI H t.
  all: prep; prj; try congruence.
  all: intros Hne; upd_split; subst; try congruence.
  all: repeat split; try assumption; try reflexivity; eauto.
  all: try solve [intros X; apply (I_fl _ _ HI) in X; congruence].
  exfalso. assert (X : g_ns s (nalloc s) = NNone) by (apply (I_alloc _ _ HI); lia). congruence.
Qed.

(** pop: the new head is the popped node's successor in the list (no ABA) *)
Lemma pop_step ns s t s' es n : Inv ns s -> step ns s (Step t) = Some (s', es) -> g_npop s' n <> g_npop s n ->
  g_npop s' n = S (g_npop s n) /\ g_ns s n = NFree /\ g_ns s' n = NPop t /\
  g_fl s = n :: g_fl s' /\ fhead s = Some n /\ fhead s' = hd_opt (g_fl s') /\ exists c g nx, th s t = P5 c g n nx.
Proof.
  intros HI H. pose proof (P_fl_step _ _ _ _ _ HI H) as (_ & _ & Hh' & _). revert Hh'. leaves HI H t.
  all: prep; prj; try congruence.
  all: intros Hh' Hne; upd_split; subst; try congruence.
  pose proof (fhead_free _ _ _ HI E0) as Hf. destruct (I_fl _ _ HI) as (_ & _ & Hh & _).
  rewrite E0 in Hh. destruct (g_fl s) as [|a l]; cbn in Hh; [discriminate|]. injection Hh as <-.
  repeat split; try assumption; try reflexivity; eauto.
Qed.

Section Theorems.
Variables (ns nc : nat).
Notation reachable := (reach (init nc) (step ns)).

(** * Reference-count accounting *)
Definition to_free_list (s : nstate) : Prop := match s with NClaimed _ | NFree | NPop _ => True | _ => False end.

Lemma odd_2k_c k c : c <= 1 -> Nat.odd (2 * k + c) = (c =? 1).
Proof.
  intros Hc. assert (c = 0 \/ c = 1) as [-> | ->] by lia.
  - rewrite Nat.add_0_r. rewrite Nat.odd_mul. reflexivity.
  - rewrite Nat.add_1_r. rewrite Nat.odd_succ. rewrite Nat.even_mul. reflexivity.
Qed.
Lemma div2_2k_c k c : c <= 1 -> Nat.div2 (2 * k + c) = k.
Proof.
  intros Hc. assert (c = 0 \/ c = 1) as [-> | ->] by lia.
  - rewrite Nat.add_0_r. apply Nat.div2_double.
  - rewrite Nat.add_1_r. apply Nat.div2_succ_double.
Qed.

(** For every node: the ghost list [g_refs] has no duplicates and lists exactly the counted references that exist - a
    cell pointing to the node, a guard of a thread that holds it (validated [GV], or between its fetch_add and its
    re-check / during its release [GU]; the guards nslots+1, nslots+2 are the temporary guards of free_list::pop), the
    owner (the thread holding the reference a new object starts with) -; ref_count = 2 * their number + claim bit, i.e.
    ref_count / RefCountInc = number of references held.  The free list itself holds NO counted reference on its nodes
    (a node on the free list with no popper looking at it has ref_count = 1 = the claim bit).  The claim bit is set iff
    the node is claimed (on its way to the free list), on the free list, or just popped (the popper clears it next). *)
Theorem lfrc_refcount st : reachable st -> forall n,
  NoDup (g_refs st n) /\ (forall r, In r (g_refs st n) <-> holds st r n) /\
  rc st n = 2 * length (g_refs st n) + cbit (g_ns st n) /\
  Nat.div2 (rc st n) = length (g_refs st n) /\
  (Nat.odd (rc st n) = true <-> to_free_list (g_ns st n)).
Proof.
  intros Hr n. pose proof (inv_reach _ _ _ Hr) as HI. destruct (I_refs _ _ HI n) as (ND & IN & RC).
  pose proof (cbit_01 (g_ns st n)) as Hc.
  split; [exact ND|]. split; [exact IN|]. split; [exact RC|]. rewrite RC. split.
  - apply div2_2k_c. lia.
  - rewrite odd_2k_c by lia. destruct (g_ns st n); cbn; split; intros; try discriminate; try contradiction; auto.
Qed.

(** the subtractions of the code never underflow: a decrement finds the count >= 2, reclaim's fetch_sub finds >= 4
    ("ref_count cannot drop to zero here"), pop's fetch_sub finds the claim bit set *)
Theorem lfrc_no_underflow st : reachable st -> forall t,
  match th st t with
  | D1 _ n _ | D2 _ n _ _ => 2 <= rc st n
  | R2 o => 4 <= rc st o
  | P6 _ _ p => Nat.odd (rc st p) = true /\ 3 <= rc st p
  | _ => True
  end.
Proof.
  intros Hr t. pose proof (inv_reach _ _ _ Hr) as HI.
  pose proof (I_sh _ _ HI t) as (Hs & _ & _). pose proof (I_own _ _ HI t) as Ho.
  destruct (th st t) eqn:E; try exact I; cbn [tshape own_ok] in Hs, Ho.
  - destruct (I_refs _ _ HI n) as (ND & IN & RC).
    assert (X : holds st (who_ref t w) n) by (destruct w; cbn [who_ref holds]; [tauto | rewrite E; reflexivity]).
    apply IN in X. destruct (g_refs st n); [destruct X|]. cbn [length] in RC. lia.
  - destruct (I_refs _ _ HI n) as (ND & IN & RC).
    assert (X : holds st (who_ref t w) n) by (destruct w; cbn [who_ref holds]; [tauto | rewrite E; reflexivity]).
    apply IN in X. destruct (g_refs st n); [destruct X|]. cbn [length] in RC. lia.
  - destruct (I_refs _ _ HI p) as (ND & IN & RC). destruct Hs as (_ & Hgv & _).
    assert (X : holds st (RG t g) p) by (cbn; rewrite Hgv; reflexivity).
    apply IN in X. rewrite Ho in RC. cbn [cbit] in RC. rewrite RC. split; [apply (odd_2k_c _ 1); lia|].
    destruct (g_refs st p); [destruct X|]. cbn [length]. lia.
  - destruct (I_refs _ _ HI o) as (ND & IN & RC).
    assert (X1 : In (RG t ns) (g_refs st o)) by (apply IN; cbn; rewrite Hs; reflexivity).
    assert (X2 : In (ROwn t) (g_refs st o)) by (apply IN; cbn; rewrite E; reflexivity).
    destruct (g_refs st o) as [|a [|b l]]; cbn [length] in RC; [destruct X1| |lia].
    destruct X1 as [Ha|[]]. destruct X2 as [Hb|[]]. congruence.
Qed.

(** * C01 *)
(** While a validated guard of the client (a persistent guard, or the temporary guard of repl / clear / read) refers to
    node n: n is published (or already unlinked) - not claimed, not on the free list, not handed out again -, its object
    is alive, the claim bit is clear, the count is at least 2.  No dereference ever hit a destroyed object. *)
Theorem lfrc_safe st : reachable st ->
  (forall t g n, gd (tl st t) g = GV n -> g <= ns ->
     g_ns st n = NPub /\ g_alive st n = true /\ dst st n = false /\ Nat.odd (rc st n) = false /\ 2 <= rc st n /\
     ~ In n (g_fl st) /\ In (RG t g) (g_refs st n)) /\
  g_uaf st = false.
Proof.
  intros Hr. pose proof (inv_reach _ _ _ Hr) as HI. split; [|exact (I_uaf _ _ HI)].
  intros t g n Hg Hle. pose proof (I_j2 _ _ HI _ _ _ Hg Hle) as Hp.
  pose proof (I_alive _ _ HI n) as IA. rewrite Hp in IA. cbn in IA. destruct IA as [Ha Hd].
  destruct (I_refs _ _ HI n) as (ND & IN & RC). rewrite Hp in RC. cbn [cbit] in RC.
  assert (X : In (RG t g) (g_refs st n)) by (apply IN; cbn; rewrite Hg; reflexivity).
  repeat split; try assumption.
  - rewrite RC. rewrite odd_2k_c by lia. reflexivity.
  - destruct (g_refs st n); [destruct X|]. cbn [length] in RC. lia.
  - intros Hin. apply (I_fl _ _ HI) in Hin. congruence.
Qed.

(** the cells give the same guarantee: what a cell points to is a published node with a live object *)
Theorem lfrc_cell_safe st : reachable st -> forall c n, cells st c = Some n ->
  g_ns st n = NPub /\ g_alive st n = true /\ Nat.odd (rc st n) = false /\ ~ In n (g_fl st).
Proof.
  intros Hr c n Hc. pose proof (inv_reach _ _ _ Hr) as HI. pose proof (I_j1 _ _ HI _ _ Hc) as Hp.
  pose proof (I_alive _ _ HI n) as IA. rewrite Hp in IA. cbn in IA. destruct IA as [Ha Hd].
  destruct (I_refs _ _ HI n) as (ND & IN & RC). rewrite Hp in RC. cbn [cbit] in RC.
  repeat split; try assumption.
  - rewrite RC. rewrite odd_2k_c by lia. reflexivity.
  - intros Hin. apply (I_fl _ _ HI) in Hin. congruence.
Qed.

(** * C02 *)
(** Counters, per node: [g_inc] constructor runs (the incarnation number), [g_nd] destructor runs, [g_npush] pushes to
    and [g_npop] pops from the free list.  In every reachable state: destructor runs = incarnations - (1 if the current
    object is alive): every incarnation's object is destroyed exactly once, the current one not yet / once; pushes =
    incarnations - (1 if the current incarnation is constructed and not yet pushed); pops = pushes - (1 if on the free
    list): a node is pushed at most once per incarnation and a pushed node is popped at most once.  The life cycle state
    determines alive / the destroyed flag; a state that names a thread (heap-new, popped, being constructed, claimed) has
    that thread at the matching program point - so a node is popped by at most one allocator and claimed (destroyed,
    pushed) by at most one thread at a time.  The free list is duplicate free and acyclic: [g_fl] has no duplicates,
    contains exactly the nodes in state "free", starts at the head pointer and is linked by next_free, ending in null. *)
Theorem lfrc_exactly_once st : reachable st ->
  (forall n, g_nd st n + b2n (g_alive st n) = g_inc st n /\
             g_npush st n + live4 (g_ns st n) = g_inc st n /\
             g_npop st n + live4 (g_ns st n) + isfree (g_ns st n) = g_inc st n) /\
  (forall n, g_nd st n <= g_inc st n <= S (g_nd st n) /\ g_npush st n <= g_inc st n /\ g_npop st n <= g_npush st n <= S (g_npop st n)) /\
  (forall n, alive_ok (g_ns st n) (g_alive st n) (dst st n)) /\
  (forall n, ownr_ok st n (g_ns st n)) /\
  NoDup (g_fl st) /\ (forall n, In n (g_fl st) <-> g_ns st n = NFree) /\ fhead st = hd_opt (g_fl st) /\ chain (nxt st) (g_fl st).
Proof.
  intros Hr. pose proof (inv_reach _ _ _ Hr) as HI.
  split; [exact (I_cnt _ _ HI)|]. split.
  - intros n. destruct (I_cnt _ _ HI n) as (H1 & H2 & H3).
    destruct (g_alive st n); destruct (g_ns st n); cbn [b2n live4 isfree] in *; lia.
  - split; [exact (I_alive _ _ HI)|]. split; [exact (I_ownr _ _ HI)|]. exact (I_fl _ _ HI).
Qed.

(** every destructor run of the trace: by the thread that claimed the node (moved its count to zero and set the claim
    bit) - or by the creator of a node that was never published (delete after a lost CAS) -, on an alive object,
    exactly one run, while no cell and no validated client guard refers to the node *)
Theorem lfrc_destroy_event st a st' es n : reachable st -> step ns st a = Some (st', es) -> g_nd st' n <> g_nd st n ->
  exists t, a = Step t /\ g_nd st' n = S (g_nd st n) /\ g_inc st' n = g_inc st n /\
    g_alive st n = true /\ g_alive st' n = false /\
    (forall c, cells st c <> Some n) /\ (forall u g, g <= ns -> gd (tl st u) g <> GV n) /\
    ((exists k, th st t = D4 n k /\ g_ns st n = NClaimed t) \/ (th st t = X1 n /\ g_ns st n = NFresh t)).
Proof.
  intros Hr H Hne. pose proof (inv_reach _ _ _ Hr) as HI. destruct a as [t o|t].
  - exfalso. destruct (start_eq _ _ _ _ _ _ H) as (p & -> & _). apply Hne. reflexivity.
  - exists t. destruct (destroy_step _ _ _ _ _ _ HI H Hne) as (H1 & H2 & H3 & H4 & H5).
    assert (Hnp : g_ns st n <> NPub) by (destruct H5 as [(k & _ & X)|[_ X]]; rewrite X; discriminate).
    repeat split; try assumption.
    + intros c Hc. apply Hnp. exact (I_j1 _ _ HI _ _ Hc).
    + intros u g Hg Hc. apply Hnp. exact (I_j2 _ _ HI _ _ _ Hc Hg).
Qed.

(** a node becomes "claimed by u" only through u's own decrement from 2 to the claim bit; at that moment u's reference
    was the only reference (never while other references exist) *)
Theorem lfrc_claim_event st a st' es n u : reachable st -> step ns st a = Some (st', es) ->
  g_ns st' n = NClaimed u -> g_ns st n <> NClaimed u ->
  a = Step u /\ exists w k, th st u = D2 w n 2 k /\ rc st n = 2 /\ rc st' n = 1 /\ g_refs st n = [who_ref u w] /\ g_refs st' n = [].
Proof.
  intros Hr H Hc Hn. pose proof (inv_reach _ _ _ Hr) as HI. destruct a as [t o|t].
  - exfalso. destruct (start_eq _ _ _ _ _ _ H) as (p & -> & _). apply Hn. exact Hc.
  - destruct (claim_step _ _ _ _ _ _ _ HI H Hc Hn) as (-> & X). split; [reflexivity|exact X].
Qed.

(** every push: by the claimer, after the destructor, of a node that is not on the list *)
Theorem lfrc_push_event st a st' es n : reachable st -> step ns st a = Some (st', es) -> g_npush st' n <> g_npush st n ->
  exists t, a = Step t /\ g_npush st' n = S (g_npush st n) /\ g_ns st n = NClaimed t /\ g_ns st' n = NFree /\
    g_alive st n = false /\ ~ In n (g_fl st) /\ g_fl st' = n :: g_fl st.
Proof.
  intros Hr H Hne. pose proof (inv_reach _ _ _ Hr) as HI. destruct a as [t o|t].
  - exfalso. destruct (start_eq _ _ _ _ _ _ H) as (p & -> & _). apply Hne. reflexivity.
  - exists t. destruct (push_step _ _ _ _ _ _ HI H Hne) as (H1 & H2 & H3 & H4 & H5 & H6 & _). repeat split; assumption.
Qed.

(** every pop: of the first node of the list, the rest of the list becomes the list (the value the popper read from
    next_free earlier IS the current successor) *)
Theorem lfrc_pop_event st a st' es n : reachable st -> step ns st a = Some (st', es) -> g_npop st' n <> g_npop st n ->
  exists t, a = Step t /\ g_npop st' n = S (g_npop st n) /\ g_ns st n = NFree /\ g_ns st' n = NPop t /\
    g_fl st = n :: g_fl st' /\ fhead st' = hd_opt (g_fl st').
Proof.
  intros Hr H Hne. pose proof (inv_reach _ _ _ Hr) as HI. destruct a as [t o|t].
  - exfalso. destruct (start_eq _ _ _ _ _ _ H) as (p & -> & _). apply Hne. reflexivity.
  - exists t. destruct (pop_step _ _ _ _ _ _ HI H Hne) as (H1 & H2 & H3 & H4 & H5 & H6 & _). repeat split; assumption.
Qed.

(** No ABA on the free list.  A popper t that has validated its guard on the head p and read p's next_free (program
    points P4 / P5) holds a counted reference on p.  Hence p cannot be claimed (a claim needs the claimer's reference
    to be the only one), hence p cannot be pushed (again), hence - next_free of a node is written only by its claimer
    before the push and by its popper after the pop - as long as p is on the free list its next_free is the value nx
    that t read: if t's CAS finds head = p, then p is the first node of the list and nx is the rest's head. *)
Theorem lfrc_pop_no_aba st t c g p nx : reachable st -> th st t = P5 c g p nx ->
  In (RG t g) (g_refs st p) /\ ~ bad_q (g_ns st p) /\ (g_ns st p = NFree -> nxt st p = nx) /\
  (fhead st = Some p -> exists rest, g_fl st = p :: rest /\ nx = hd_opt rest).
Proof.
  intros Hr E. pose proof (inv_reach _ _ _ Hr) as HI.
  pose proof (I_sh _ _ HI t) as (Hs & _ & _). pose proof (I_own _ _ HI t) as Ho. rewrite E in Hs, Ho. cbn in Hs, Ho.
  destruct Hs as (Hpg & Hgv & _). destruct (other_popg _ _ Hpg) as (_ & _ & _ & Hlt).
  split; [apply (I_refs _ _ HI); cbn; rewrite Hgv; reflexivity|].
  split; [exact (I_q1 _ _ HI _ _ _ Hgv Hlt)|]. split; [exact Ho|].
  intros Hh. pose proof (fhead_free _ _ _ HI Hh) as Hf. destruct (I_fl _ _ HI) as (_ & _ & Hhd & Hch).
  rewrite Hh in Hhd. destruct (g_fl st) as [|a rest]; cbn in Hhd; [discriminate|]. injection Hhd as <-.
  exists rest. split; [reflexivity|]. cbn in Hch. destruct Hch as [Hn _]. rewrite <- (Ho Hf). exact Hn.
Qed.

(** a node a validated client guard refers to after a step was neither reconstructed nor destroyed by that step: the
    guarded incarnation is stable *)
Theorem lfrc_guard_stable st a st' es t g n : reachable st -> step ns st a = Some (st', es) ->
  gd (tl st' t) g = GV n -> g <= ns -> g_inc st' n = g_inc st n /\ g_nd st' n = g_nd st n.
Proof.
  intros Hr H Hg Hle. pose proof (inv_reach _ _ _ Hr) as HI.
  assert (Hr' : reachable st') by (eapply reach_step; eauto).
  destruct (lfrc_safe _ Hr') as (Hs & _). destruct (Hs _ _ _ Hg Hle) as (Hp & Ha & _).
  destruct a as [u o|u].
  - destruct (start_eq _ _ _ _ _ _ H) as (p & -> & _). split; reflexivity.
  - split.
    + destruct (Nat.eq_dec (g_inc st' n) (g_inc st n)) as [X|X]; [exact X|].
      destruct (construct_step _ _ _ _ _ _ HI H X) as (_ & _ & Y & _). congruence.
    + destruct (Nat.eq_dec (g_nd st' n) (g_nd st n)) as [X|X]; [exact X|].
      destruct (destroy_step _ _ _ _ _ _ HI H X) as (_ & _ & Y & _). congruence.
Qed.

(** * Nothing leaks *)
(** When all threads are between operations (or have exited): every allocated node is on the free list, or a cell
    points to it, or a guard holds it - no node is lost, whatever the history.  No flush is needed for LFRC: a node
    goes to the free list in the very operation that drops its last reference. *)
Theorem lfrc_no_lost_node st : reachable st -> (forall t, th st t = Idle \/ th st t = Done) ->
  forall n, n < nalloc st ->
    (In n (g_fl st) /\ rc st n = 1 /\ g_refs st n = [] /\ g_alive st n = false /\ g_nd st n = g_inc st n /\ g_npush st n = g_inc st n) \/
    ((g_ns st n = NPub /\ g_alive st n = true /\ exists c, cells st c = Some n) \/ (exists t g, gnode (gd (tl st t) g) = Some n)).
Proof.
  intros Hr Hq n Hn. pose proof (inv_reach _ _ _ Hr) as HI.
  assert (Hidle : forall t m, owned (th st t) <> Some m) by (intros t m; destruct (Hq t) as [-> | ->]; discriminate).
  assert (Hpc : forall t p, th st t = p -> p = Idle \/ p = Done) by (intros t p <-; apply Hq).
  pose proof (I_ownr _ _ HI n) as Ro. destruct (I_refs _ _ HI n) as (ND & IN & RC).
  destruct (I_cnt _ _ HI n) as (C1 & C2 & C3). pose proof (I_alive _ _ HI n) as IA.
  destruct (g_refs st n) as [|r l] eqn:Er.
  - (* no reference: the node is on the free list *)
    left. destruct (g_ns st n) eqn:En; cbn in Ro.
    + exfalso. assert (nalloc st <= n) by (apply (I_alloc _ _ HI); exact En). lia.
    + destruct Ro as (c & X). destruct (Hpc _ _ X); discriminate.
    + destruct Ro as [(c & g & X)|(c & i & X)]; destruct (Hpc _ _ X); discriminate.
    + exfalso. apply (I_ne _ _ HI n); [rewrite En; exact I|exact Er].
    + exfalso. apply (I_ne _ _ HI n); [rewrite En; exact I|exact Er].
    + exfalso. apply (I_ne _ _ HI n); [rewrite En; exact I|exact Er].
    + destruct Ro as [(k & X)|[(k & X)|[(k & X)|[(h & k & X)|(h & k & X)]]]]; destruct (Hpc _ _ X); discriminate.
    + cbn in IA, RC, C1, C2, C3. rewrite IA in C1. cbn in C1.
      repeat split; try assumption; try lia. apply (I_fl _ _ HI). exact En.
    + destruct Ro as (c & g & X). destruct (Hpc _ _ X); discriminate.
  - right. assert (Hh : holds st r n) by (apply IN; left; reflexivity).
    destruct r as [c|t g|t]; cbn in Hh.
    + left. pose proof (I_j1 _ _ HI _ _ Hh) as Hp. rewrite Hp in IA. cbn in IA. repeat split; try tauto. eauto.
    + right. eauto.
    + exfalso. exact (Hidle _ _ Hh).
Qed.

(** in particular: when moreover all guards are dropped and all cells cleared, every node ever allocated is on the free
    list, with ref_count = claim bit, its object destroyed exactly once per incarnation *)
Theorem lfrc_no_leak_at_quiescence st : reachable st -> (forall t, th st t = Idle \/ th st t = Done) ->
  (forall t g, gd (tl st t) g = GE) -> (forall c, cells st c = None) ->
  forall n, n < nalloc st ->
    In n (g_fl st) /\ rc st n = 1 /\ g_refs st n = [] /\ g_alive st n = false /\ g_nd st n = g_inc st n /\ g_npush st n = g_inc st n.
Proof.
  intros Hr Hq Hg Hc n Hn. destruct (lfrc_no_lost_node _ Hr Hq n Hn) as [X|[(_ & _ & c & X)|(t & g & X)]]; [exact X| |].
  - rewrite Hc in X. discriminate.
  - rewrite Hg in X. discriminate.
Qed.
End Theorems.

(** * Examples (by computation) *)
Definition steps (t k : nat) : list action := repeat (Step t) k.
Definition op1 (t : nat) (o : op) (k : nat) : list action := Start t o :: steps t k.

(** The recycled-node race (2 cells, 1 guard slot).  Thread 1 starts [read 0] and loads cell0 = node 0.  Thread 2
    replaces cell0 (node 0 is unlinked, its count drops to zero, it is claimed, destroyed, pushed to the free list) and
    then replaces cell1: operator new pops node 0, its second incarnation is published in cell1.  Now thread 1's
    fetch_add lands on the recycled node ... *)
Definition race1 : list action := [Start 1 (ORead 0)] ++ steps 1 2 ++ op1 2 (ORepl 0) 16 ++ op1 2 (ORepl 1) 21.
Definition view (acts : list action) :=
  let '(s, tr, sk) := run (step 1) (init 2) acts in
  (sk, th s 1, gd (tl s 1) 1, (g_inc s 0, g_nd s 0, g_ns s 0, rc s 0), (cells s 0, cells s 1, g_fl s), g_uaf s).
Example ex_race_before : view race1 = (0, A2 (KRead 0) 0, GE, (2, 1, NPub, 2), (Some 2, Some 0, [1]), false).
Proof. vm_compute. reflexivity. Qed.
(** ... the count of the live second incarnation goes from 2 to 4, the guard is counted but not validated ... *)
Example ex_race_inc : view (race1 ++ steps 1 1) = (0, A3 (KRead 0) 0, GU 0, (2, 1, NPub, 4), (Some 2, Some 0, [1]), false).
Proof. vm_compute. reflexivity. Qed.
(** ... the re-check fails (cell0 = node 2), the reference is released again ... *)
Example ex_race_recheck : view (race1 ++ steps 1 2) = (0, D1 (WG 1) 0 (RAcq (KRead 0)), GU 0, (2, 1, NPub, 4), (Some 2, Some 0, [1]), false).
Proof. vm_compute. reflexivity. Qed.
(** ... and the retry reads node 2 (object id 3).  Thread 1's accesses and result: *)
Example ex_race_trace :
  (let '(s, tr, sk) := run (step 1) (init 2) (race1 ++ steps 1 9) in
   (sk, th s 1, filter (fun e => match e with ELoad 1 _ _ _ | ERmw 1 _ _ _ _ | ERet 1 _ => true | _ => false end) tr)) =
  (0, Idle,
   [ELoad 1 (L_cell 0) mo_acq (vptr (Some 0)); ERmw 1 (L_rc 0) mo_acq (vnat 2) (vnat 4); ELoad 1 (L_cell 0) mo_acq (vptr (Some 2));
    ELoad 1 (L_rc 0) mo_rlx (vnat 4); ERmw 1 (L_rc 0) mo_rel (vnat 4) (vnat 2);
    ELoad 1 (L_cell 0) mo_acq (vptr (Some 2)); ERmw 1 (L_rc 2) mo_acq (vnat 2) (vnat 4); ELoad 1 (L_cell 0) mo_acq (vptr (Some 2));
    ELoad 1 (L_rc 2) mo_rlx (vnat 4); ERmw 1 (L_rc 2) mo_rel (vnat 4) (vnat 2); ERet 1 (r_id 3)]).
Proof. vm_compute. reflexivity. Qed.

(** The same race where the stale reference becomes the last one: after thread 1's increment thread 2 clears cell1 (its
    reclaim and reset leave the count at 2 = thread 1's unvalidated reference).  Thread 1's re-check fails, its release
    moves the count to zero: thread 1 - in the middle of a [read] of another cell - claims node 0, runs the destructor
    of the second incarnation (store destroyed = 1) and pushes the node (store next_free, CAS on the head). *)
Definition race2 : list action := race1 ++ steps 1 1 ++ op1 2 (OClear 1) 8.
Example ex_stale_last : view race2 = (0, A3 (KRead 0) 0, GU 0, (2, 1, NPub, 2), (Some 2, None, [1]), false).
Proof. vm_compute. reflexivity. Qed.
Example ex_stale_frees :
  (let '(s, tr, sk) := run (step 1) (init 2) (race2 ++ steps 1 8) in
   (sk, th s 1, (g_inc s 0, g_nd s 0, g_ns s 0, rc s 0), g_fl s, g_uaf s,
    filter (fun e => match e with EStore 1 _ _ _ | ERmw 1 (LNamed _ _) _ _ _ => true | _ => false end) tr)) =
  (0, A1 (KRead 0), (2, 2, NFree, 1), [0; 1], false,
   [EStore 1 (L_dst 0) mo_rlx (vnat 1); EStore 1 (L_nxt 0) mo_rlx (vptr (Some 1)); ERmw 1 L_fhead mo_rel (vptr (Some 1)) (vptr (Some 0))]).
Proof. vm_compute. reflexivity. Qed.

(** Two threads race to drop the last two references (1 cell; threads 1 and 2 hold node 0, thread 3 clears the cell).
    Both load the count 4; thread 1's CAS 4 -> 2 succeeds, thread 2's CAS fails (CASF), it reloads 2 and its CAS 2 -> 1
    (acq_rel) claims the node: exactly one destructor run, by thread 2. *)
Definition drops : list action :=
  op1 1 (OHold 0 0) 4 ++ op1 2 (OHold 0 0) 4 ++ op1 3 (OClear 0) 8 ++
  [Start 1 (ODrop 0); Step 1; Start 2 (ODrop 0); Step 2; Step 1; Step 2; Step 1; Step 2; Step 2; Step 2].
Example ex_drops :
  (let '(s, tr, sk) := run (step 1) (init 1) (drops ++ steps 2 5) in
   (sk, th s 1, th s 2, (g_inc s 0, g_nd s 0, g_ns s 0, rc s 0), g_fl s, g_uaf s,
    filter (fun e => match e with ECasF _ _ _ _ _ _ | EStore _ _ _ _ => true | ERmw t (LHeap _ _) mo _ _ => (t <? 3) && N.leb 3 mo | _ => false end) tr)) =
  (0, Idle, Idle, (1, 1, NFree, 1), [0], false,
   [ERmw 1 (L_rc 0) mo_rel (vnat 4) (vnat 2); ECasF 2 (L_rc 0) mo_rel mo_rlx (vnat 2) (vnat 4);
    ERmw 2 (L_rc 0) mo_acqrel (vnat 2) (vnat 1); EStore 2 (L_dst 0) mo_rlx (vnat 1); EStore 2 (L_nxt 0) mo_rlx (vptr None)]).
Proof. vm_compute. reflexivity. Qed.

(** Contention on the free list (free list = [2; 0]): both allocators validate their guard on the head node 2 and read
    its next_free = node 0; thread 1's CAS pops node 2, thread 2's CAS fails (head is node 0 now) - it keeps its
    reference on node 2 in one guard, acquires node 0 with the other, releases node 2 and pops node 0. *)
Definition popc : list action :=
  op1 1 (ORepl 0) 16 ++ op1 1 (OClear 0) 13 ++ [Start 1 (ORepl 0); Start 2 (ORepl 1)] ++ steps 1 3 ++ steps 2 5 ++
  [Step 1; Step 2; Step 1; Step 2; Step 1; Step 2; Step 1; Step 2].
Example ex_pop_contention :
  (let '(s, tr, sk) := run (step 1) (init 2) popc in
   (sk, th s 1, th s 2, (g_ns s 2, rc s 2), g_fl s, (gd (tl s 2) 2, gd (tl s 2) 3),
    filter (fun e => match e with ECasF _ _ _ _ _ _ => true | _ => false end) tr)) =
  (0, P6 0 2 2, A1 (KPop 1 3), (NPop 1, 5), [0], (GV 2, GE),
   [ECasF 2 L_fhead mo_rlx mo_rlx (vptr (Some 0)) (vptr (Some 2))]).
Proof. vm_compute. reflexivity. Qed.
Example ex_pop_contention_end :
  (let '(s, tr, sk) := run (step 1) (init 2) (popc ++ steps 2 26 ++ steps 1 30) in
   (th s 1, th s 2, (cells s 0, cells s 1), (g_ns s 0, rc s 0, g_ns s 2, rc s 2), g_fl s, g_uaf s)) =
  (Idle, Idle, (Some 2, Some 0), (NPub, 2, NPub, 2), [1], false).
Proof. vm_compute. reflexivity. Qed.
