(** C16 for xenium::nikolaev_bounded_queue: try_push and try_pop finish within an explicit number of
    solo steps from EVERY reachable wrap-free state (any number of other threads stopped anywhere inside
    their operations), provided the counters have head room for the run.

    Dequeue part (ring q): every pass through the loop that does not return costs a threshold decrement, and
    the threshold is at most 3*capacity - 1: at most [thn] + 1 passes of at most W = 2R + 14 steps.
    Enqueue part (ring q', the thread holds an index): an attempt with ticket T fails only if T is behind head
    or the slot of T holds another index; the thread holds one of the capacity indices, so of any capacity
    consecutive tickets at or beyond head at least one slot is empty (pigeonhole): at most
    (head - tail)/2 + capacity attempts of at most 10 steps. *)
From Coq Require Import NArith List Bool Lia PeanoNat.
From XV Require Import Base.Word Conc.Lts Conc.Ev Conc.Solo gen.ScqGen Proof.ScqIndex Model.NikbDefs
  Proof.NikbArith Proof.NikbBase Proof.NikbWf Proof.NikbOwn Proof.NikbVal Proof.NikbCons.
Import ListNotations.
Local Open Scope N_scope.

Set Default Proof Using "All".
Section Solo.
  Variable k R : N.
  Hypothesis Hk : k <= 40.
  Notation cap := (2 ^ k).
  Notation step := (step cap R).
  Notation good := (good k R).
  Notation slot := (slot k).
  Notation eidx := (eidx k).
  Notation ecyc := (ecyc k).
  Notation esafe := (esafe k).
  Notation bot := (bot k).
  Notation clt := (clt k).

  (** an enqueue attempt with ticket T that loads the entry now succeeds *)
  Definition esucc (s : state) (q : rid) (T : N) : bool :=
    let e := slot s q T in
    clt e (T / nn cap) && (eidx e =? bot) && (esafe e || negb (2 * T <? rhead (rg s q))).

  (** number of failing attempts from ticket T on (fuel n) *)
  Fixpoint psi (s : state) (q : rid) (T : N) (n : nat) : nat :=
    match n with
    | O => O
    | S n' => if esucc s q T then O else S (psi s q (T + 1) n')
    end.
  Definition fuel (s : state) (q : rid) (T : N) : nat := (N.to_nat (rhead (rg s q) / 2 - T) + N.to_nat cap)%nat.
  Definition iters (s : state) (q : rid) (T : N) : nat := psi s q T (fuel s q T).

  Lemma psi_le s q T n : (psi s q T n <= n)%nat.
  Proof. revert T. induction n as [|n IH]; intros T; cbn [psi]; [lia|]. destruct (esucc s q T); [lia|]. specialize (IH (T + 1)). lia. Qed.

  Lemma psi_more s q n : forall T m, (psi s q T n < n)%nat -> psi s q T (n + m) = psi s q T n.
  Proof.
    induction n as [|n IH]; intros T m Hlt; [lia|]. cbn [psi Nat.add] in *.
    destruct (esucc s q T); [reflexivity|]. f_equal. apply IH. lia.
  Qed.

  Lemma psi_found s q j : forall T n, (j < n)%nat -> esucc s q (T + N.of_nat j) = true -> (psi s q T n <= j)%nat.
  Proof.
    induction j as [|j IH]; intros T n Hlt Hs.
    - destruct n; [lia|]. cbn [psi]. rewrite N.add_0_r in Hs. rewrite Hs. lia.
    - destruct n; [lia|]. cbn [psi]. destruct (esucc s q T); [lia|].
      assert (H := IH (T + 1) n ltac:(lia)). replace (T + 1 + N.of_nat j) with (T + N.of_nat (S j)) in H by lia.
      specialize (H Hs). lia.
  Qed.

  (** ** an empty slot at or beyond head accepts the enqueue *)
  Lemma esucc_free s q T : good s -> 2 * T < 2 ^ 62 -> rhead (rg s q) <= 2 * T -> eidx (slot s q T) = bot -> esucc s q T = true.
  Proof.
    intros Hg HT Hh Hb. destruct (good_inv k R Hk s Hg) as ([HW _] & (HR & _) & _ & _).
    destruct (HW q) as (_ & _ & _ & Hd). set (e := slot s q T) in *.
    assert (Hcl : clt e (T / nn cap) = true).
    { assert (Hwe : wfe k e) by apply Hd. destruct Hwe as [[Hc|[Hc _]] _].
      2:{ unfold NikbArith.clt. rewrite Hc, N.eqb_refl. reflexivity. }
      unfold NikbArith.clt. apply orb_true_iff. right. apply N.ltb_lt.
      assert (Hn := nn_pos k Hk). assert (HM := M_CB k Hk).
      set (p := T mod nn cap). assert (Hp : p < nn cap) by (apply N.mod_lt; lia).
      set (T' := ecyc e * nn cap + p).
      assert (Hdiv : T' / nn cap = ecyc e) by (unfold T'; rewrite N.div_add_l by lia; rewrite N.div_small by exact Hp; lia).
      assert (Hmod : T' mod nn cap = p) by (unfold T'; rewrite N.add_comm, N.mod_add by lia; apply N.mod_small; exact Hp).
      assert (HT' : 2 * T' < 2 ^ 62) by (unfold T'; nia).
      assert (Hsl : slot s q T' = e) by (unfold NikbOwn.slot, e; rewrite (phys_same k Hk T' T); [reflexivity|exact Hmod]).
      destruct (HR q) as [a1 _ _ _ _ s3 _ _ _].
      assert (Hne : g_dq (rg s q) T' <> DNone).
      { destruct (s3 T' HT') as [[i Hi]|Hi]; rewrite ?Hsl; try assumption; try (symmetry; exact Hdiv); rewrite Hi; discriminate. }
      specialize (a1 T' Hne).
      assert (HTT : T' < T) by lia.
      destruct (N.lt_ge_cases (ecyc e) (T / nn cap)) as [Hlt|Hge]; [exact Hlt|exfalso].
      assert (E1 := N.div_mod T (nn cap) ltac:(lia)). fold p in E1. unfold T' in HTT. nia. }
    unfold esucc. cbv zeta. fold e. rewrite Hcl, Hb, N.eqb_refl.
    replace (2 * T <? rhead (rg s q)) with false by (symmetry; apply N.ltb_ge; exact Hh).
    destruct (esafe e); reflexivity.
  Qed.

  (** ** pigeonhole: a thread holds an index, so capacity consecutive tickets cannot all be occupied *)
  Lemma nodup_bound (l : list N) n : NoDup l -> (forall x, In x l -> x < N.of_nat n) -> (length l <= n)%nat.
  Proof.
    intros Hn Hb. rewrite <- (seq_length n 0), <- (map_length N.of_nat). apply NoDup_incl_length; [exact Hn|].
    intros x Hx. apply in_map_iff. exists (N.to_nat x). split; [lia|]. apply in_seq. specialize (Hb x Hx). lia.
  Qed.

  Lemma nodup_map_in {A B} (f : A -> B) (l : list A) :
    (forall a b, In a l -> In b l -> f a = f b -> a = b) -> NoDup l -> NoDup (map f l).
  Proof.
    induction l as [|x l IH]; intros Hinj Hn; cbn [map]; [constructor|]. inversion Hn as [|? ? Hni Hn']; subst. constructor.
    - intros Hin. apply in_map_iff in Hin. destruct Hin as (y & Hy & Hyl). assert (y = x) by (apply Hinj; [right; exact Hyl|left; reflexivity|exact Hy]).
      subst y. contradiction.
    - apply IH; [|exact Hn']. intros a b Ha Hb. apply Hinj; right; assumption.
  Qed.

  Lemma occupied_window s q u idx T0 : good s -> hidx (th s u) = Some (q, idx) -> 2 * (T0 + cap) < 2 ^ 62 ->
    exists j, j < cap /\ eidx (slot s q (T0 + j)) = bot.
  Proof.
    intros Hg Hh HT0. destruct (good_inv k R Hk s Hg) as ([HW _] & (HR & HT & _) & _ & _).
    destruct (HT u) as (_ & _ & C & _). destruct (C q idx Hh) as [Hown Hidx].
    assert (Hn := nn_pos k Hk). assert (Hcn := cap_lt_nn k R Hk).
    (* search for an empty slot *)
    assert (Hdec : forall n : nat, (exists j, j < N.of_nat n /\ eidx (slot s q (T0 + j)) = bot) \/
                                   (forall j, j < N.of_nat n -> eidx (slot s q (T0 + j)) < cap)).
    { induction n as [|n IH]; [right; intros j Hj; lia|].
      destruct IH as [(j & Hj & Hb)|IH]; [left; exists j; split; [lia|exact Hb]|].
      destruct (HW q) as (_ & _ & _ & Hd). destruct (Hd (phys cap (2 * (T0 + N.of_nat n)))) as [_ [Hi|Hi]].
      - right. intros j Hj. destruct (N.eq_dec j (N.of_nat n)) as [->|Hne]; [exact Hi|apply IH; lia].
      - left. exists (N.of_nat n). split; [lia|exact Hi]. }
    destruct (Hdec (N.to_nat cap)) as [(j & Hj & Hb)|Hall]; [exists j; split; [lia|exact Hb]|exfalso].
    rewrite N2Nat.id in Hall.
    set (f := fun j : nat => eidx (slot s q (T0 + N.of_nat j))).
    set (l := idx :: map f (seq 0 (N.to_nat cap))).
    assert (Hlen : length l = S (N.to_nat cap)) by (unfold l; cbn [length]; rewrite map_length, seq_length; reflexivity).
    assert (Hb : forall x, In x l -> x < N.of_nat (N.to_nat cap)).
    { rewrite N2Nat.id. intros x [<-|Hx]; [exact Hidx|]. apply in_map_iff in Hx. destruct Hx as (j & <- & Hj). apply in_seq in Hj. apply Hall. lia. }
    (* the owner of each occupied slot *)
    assert (Hown_j : forall j, (j < N.to_nat cap)%nat -> exists T', g_own s (f j) = inring q T' /\ T' mod nn cap = (T0 + N.of_nat j) mod nn cap).
    { intros j Hj. assert (Hi : f j < cap) by (apply Hall; lia).
      assert (Hph : phys cap (2 * (T0 + N.of_nat j)) < nn cap).
      { unfold phys. rewrite (nn_eq k Hk). apply remap_index_range; [lia|]. apply N.lt_trans with (2 ^ 62); [lia|reflexivity]. }
      destruct (nikb_array_entry_owner k R Hk s q _ Hg Hph Hi) as (T' & _ & Hp & Ho).
      exists T'. split; [exact Ho|]. apply (phys_inj k Hk). exact Hp. }
    assert (Hnd : NoDup l).
    { unfold l. constructor.
      - intros Hin. apply in_map_iff in Hin. destruct Hin as (j & Hj & Hjs). apply in_seq in Hjs.
        destruct (Hown_j j ltac:(lia)) as (T' & Ho & _). rewrite Hj, Hown in Ho. apply (inring_held _ _ _ _ (eq_sym Ho)).
      - apply nodup_map_in; [|apply seq_NoDup].
        intros a b Ha Hb' Hab. apply in_seq in Ha. apply in_seq in Hb'.
        destruct (Hown_j a ltac:(lia)) as (Ta & Hoa & Hma). destruct (Hown_j b ltac:(lia)) as (Tb & Hob & Hmb).
        rewrite Hab, Hob in Hoa. apply inring_inj in Hoa. destruct Hoa as [_ Hoa]. rewrite Hoa in Hmb. rewrite Hma in Hmb.
        (* (T0 + a) mod nn = (T0 + b) mod nn with |a - b| < cap < nn *)
        assert (Hab' : N.of_nat a = N.of_nat b); [|lia].
        destruct (Nat.le_ge_cases a b) as [Hle|Hle].
        + assert (E : (T0 + N.of_nat b) = (T0 + N.of_nat a) + (N.of_nat b - N.of_nat a)) by lia.
          rewrite E in Hmb. symmetry in Hmb.
          rewrite <- (N.add_mod_idemp_l) in Hmb by lia.
          set (r := (T0 + N.of_nat a) mod nn cap) in *. assert (Hr : r < nn cap) by (apply N.mod_lt; lia).
          set (d := N.of_nat b - N.of_nat a) in *. assert (Hd : d < cap) by lia.
          destruct (N.lt_ge_cases (r + d) (nn cap)) as [Hs|Hs].
          * rewrite N.mod_small in Hmb by exact Hs. lia.
          * assert (Hx : (r + d) mod nn cap = r + d - nn cap).
            { symmetry. apply (N.mod_unique (r + d) (nn cap) 1); lia. }
            rewrite Hx in Hmb. lia.
        + assert (E : (T0 + N.of_nat a) = (T0 + N.of_nat b) + (N.of_nat a - N.of_nat b)) by lia.
          rewrite E in Hmb.
          rewrite <- (N.add_mod_idemp_l) in Hmb by lia.
          set (r := (T0 + N.of_nat b) mod nn cap) in *. assert (Hr : r < nn cap) by (apply N.mod_lt; lia).
          set (d := N.of_nat a - N.of_nat b) in *. assert (Hd : d < cap) by lia.
          destruct (N.lt_ge_cases (r + d) (nn cap)) as [Hs|Hs].
          * rewrite N.mod_small in Hmb by exact Hs. lia.
          * assert (Hx : (r + d) mod nn cap = r + d - nn cap).
            { symmetry. apply (N.mod_unique (r + d) (nn cap) 1); lia. }
            rewrite Hx in Hmb. lia. }
    pose proof (nodup_bound l (N.to_nat cap) Hnd Hb). lia.
  Qed.

  (** ** a failing attempt is followed by one attempt less *)
  Lemma esucc_ext s s' q T : (forall j, rdata (rg s' q) j = rdata (rg s q) j) -> rhead (rg s' q) = rhead (rg s q) ->
    esucc s' q T = esucc s q T.
  Proof. intros Hd Hh. unfold esucc, NikbOwn.slot. rewrite Hd, Hh. reflexivity. Qed.

  Lemma psi_ext s s' q n : (forall T, esucc s' q T = esucc s q T) -> forall T, psi s' q T n = psi s q T n.
  Proof. intros He. induction n as [|n IH]; intros T; cbn [psi]; [reflexivity|]. rewrite He, IH. reflexivity. Qed.

  Lemma iters_ext s s' q T : (forall j, rdata (rg s' q) j = rdata (rg s q) j) -> rhead (rg s' q) = rhead (rg s q) ->
    iters s' q T = iters s q T.
  Proof.
    intros Hd Hh. unfold iters, fuel. rewrite Hh. apply psi_ext. intros T'. apply esucc_ext; assumption.
  Qed.

  Lemma iters_le s q T : (iters s q T <= N.to_nat (rhead (rg s q) / 2 - T) + N.to_nat cap)%nat.
  Proof. apply psi_le. Qed.

  Lemma iters_rec s q u idx T : good s -> hidx (th s u) = Some (q, idx) -> 2 * (T + cap + 1) < 2 ^ 62 ->
    esucc s q T = false -> iters s q T = S (iters s q (T + 1)).
  Proof.
    intros Hg Hh HT Hf. destruct (good_inv k R Hk s Hg) as ([HW _] & _). destruct (HW q) as ([Hh2 _] & _).
    assert (Hc := cap_pos k Hk).
    unfold iters. assert (Hfu : fuel s q T = S (fuel s q T - 1)) by (unfold fuel; lia).
    rewrite Hfu. cbn [psi]. rewrite Hf. f_equal.
    destruct (N.lt_ge_cases T (rhead (rg s q) / 2)) as [Hlt|Hge].
    - f_equal. unfold fuel. lia.
    - assert (Hfu1 : fuel s q (T + 1) = N.to_nat cap) by (unfold fuel; lia).
      assert (Hfu0 : (fuel s q T - 1 = N.to_nat cap - 1)%nat) by (unfold fuel; lia).
      rewrite Hfu1, Hfu0.
      assert (Hrh : rhead (rg s q) <= 2 * T) by lia.
      destruct (occupied_window s q u idx T Hg Hh ltac:(lia)) as (j & Hj & Hb).
      assert (Hj0 : j <> 0).
      { intros ->. rewrite N.add_0_r in Hb. rewrite (esucc_free s q T Hg ltac:(lia) Hrh Hb) in Hf. discriminate. }
      assert (Hs : esucc s q (T + 1 + N.of_nat (N.to_nat j - 1)) = true).
      { replace (T + 1 + N.of_nat (N.to_nat j - 1)) with (T + j) by lia. apply esucc_free; [exact Hg|lia|lia|exact Hb]. }
      assert (Hlt : (psi s q (T + 1) (N.to_nat cap - 1) < N.to_nat cap - 1)%nat).
      { assert (Hx := psi_found s q (N.to_nat j - 1) (T + 1) (N.to_nat cap - 1) ltac:(lia) Hs). lia. }
      replace (N.to_nat cap) with ((N.to_nat cap - 1) + 1)%nat at 2 by lia. symmetry. apply psi_more. exact Hlt.
  Qed.

  (** ** the measure *)
  Definition nR : nat := N.to_nat R.
  Definition W : nat := (2 * nR + 14)%nat.
  Definition thn (r : ring) : nat := if rthr r <? 2 ^ 63 then N.to_nat (rthr r) else O.
  Definition ar (att : N) : nat := (nR - N.to_nat att)%nat.
  Definition mE1 (s : state) (q : rid) : nat := (10 * iters s q (rtail (rg s q) / 2) + 9)%nat.

  Definition mu_pc (s : state) (p : pc) : nat :=
    match p with
    | Idle => 0
    | Begin (OPush _) => W * thn (rf s) + (2 * nR + 13) + mE1 s RA
    | Begin (OPop _) => W * thn (ra s) + (2 * nR + 13) + mE1 s RF
    | D0 q _ => W * thn (rg s q) + (2 * nR + 12) + mE1 s (other q)
    | D1 q _ => W * thn (rg s q) + (2 * nR + 11) + mE1 s (other q)
    | D2 q _ hd att => W * thn (rg s q) + (2 * ar att + 10) + mE1 s (other q)
    | D3 q _ _ _ => W * thn (rg s q) + 1 + mE1 s (other q)
    | D4 q _ hd att e => W * thn (rg s q) + (if N.eqb (rdata (rg s q) (phys cap hd)) e then 2 * ar att + 9 else 2 * ar att + 13) + mE1 s (other q)
    | D5 q _ hd att e _ => W * thn (rg s q) + (if N.eqb (rdata (rg s q) (phys cap hd)) e then 7 else 2 * ar att + 11) + mE1 s (other q)
    | D6 q _ _ => W * thn (rg s q) + 6 + mE1 s (other q)
    | D7 q _ => W * thn (rg s q) + 1 + mE1 s (other q)
    | NikbDefs.C1 q _ tl _ => if N.eqb (rtail (rg s q)) tl then 2 else 4
    | NikbDefs.C2 q _ tl => if N.eqb (rtail (rg s q)) tl then 3 else 5
    | D8 _ _ => 1
    | E1 q _ _ _ => mE1 s q
    | E2 q _ _ _ tl => if esucc s q (N.div tl 2) then 5 else mE1 s q + 6
    | E3 q _ _ _ tl e =>
      let fr := N.eqb (rdata (rg s q) (phys cap tl)) e in
      if fr && negb (gt0 (diff (rhead (rg s q)) tl)) then 4 else mE1 s q + (if fr then 5 else 9)
    | E4 q _ _ _ tl e => if N.eqb (rdata (rg s q) (phys cap tl)) e then 3 else mE1 s q + 8
    | E5 _ _ _ _ => 2
    | E6 _ _ _ _ => 1
    end%nat.
  Definition mu (u : nat) (s : state) : nat := mu_pc s (th s u).

  (** head room for B more steps: counters, thresholds and the window of capacity tickets beyond tail *)
  Definition room (s : state) (B : nat) : Prop :=
    forall q, rhead (rg s q) + 2 * N.of_nat B + 2 * cap + 4 < 2 ^ 62 /\
              rtail (rg s q) + 2 * N.of_nat B + 2 * cap + 4 < 2 ^ 62 /\
              (rthr (rg s q) < 2 ^ 63 \/ 2 ^ 64 - 2 ^ 62 + N.of_nat B <= rthr (rg s q)).

  Lemma mE1_frame s s' q : (forall j, rdata (rg s' q) j = rdata (rg s q) j) -> rhead (rg s' q) = rhead (rg s q) ->
    rtail (rg s' q) = rtail (rg s q) -> mE1 s' q = mE1 s q.
  Proof. intros Hd Hh Ht. unfold mE1. rewrite Ht, (iters_ext s s' q _ Hd Hh). reflexivity. Qed.

  Ltac mE1_norm s :=
    repeat match goal with |- context [mE1 ?s' ?q] =>
      lazymatch s' with s => fail | _ => rewrite (mE1_frame s s' q) by (intros; sim; reflexivity) end end.
  Ltac esucc_norm s :=
    repeat match goal with |- context [esucc ?s' ?q ?T] =>
      lazymatch s' with s => fail | _ => rewrite (esucc_ext s s' q T) by (intros; sim; reflexivity) end end.

  Ltac munorm s := cbn [mu_pc other]; sim; mE1_norm s; esucc_norm s; sim; unfold thn; sim.

  Lemma W_step t : (1 <= t)%nat -> (W * (t - 1) + (2 * nR + 11) < W * t + 1)%nat.
  Proof. intros Ht. unfold W. destruct t; [lia|]. replace (S t - 1)%nat with t by lia. nia. Qed.

  Lemma mE1_pos s q : (9 <= mE1 s q)%nat. Proof. unfold mE1. lia. Qed.

  (** the dequeue part: one step of u inside dequeue decreases the measure *)
  Lemma solo_dec_D s u s' es : good s -> room s 1 -> step s (Step u) = Some (s', es) ->
    match th s u with
    | Begin _ | D0 _ _ | D1 _ _ | D2 _ _ _ _ | D3 _ _ _ _ | D4 _ _ _ _ _ | D5 _ _ _ _ _ _ | D6 _ _ _ | D7 _ _
    | NikbDefs.C1 _ _ _ _ | NikbDefs.C2 _ _ _ | D8 _ _ => (mu u s' < mu u s)%nat
    | _ => True
    end.
  Proof.
    intros Hg Hroom Hst. destruct (good_inv k R Hk s Hg) as ([HW HT1] & (HR & HT & HO) & _ & _).
    pose proof (HT1 u) as Hme. unfold mu. unfold NikbDefs.step, step_gen in Hst.
    destruct (th s u) as [|[v|tp]|q x|q x|q x hd att|q x hd e|q x hd att e|q x hd att e enew|q x hd|q x|q x tl hd|q x tl|q x
                         |q x idx gk|q x idx gk tl|q x idx gk tl e|q x idx gk tl e|q x idx gk|q x idx gk] eqn:E; try exact I; cbn [T1] in Hme.
    - (* Begin push *) inversion Hst; subst; clear Hst. sim. rewrite upd_same. munorm s. lia.
    - inversion Hst; subst; clear Hst. sim. rewrite upd_same. munorm s. lia.
    - (* D0 *) destruct (lt0 _); destruct q; inversion Hst; subst; clear Hst; sim; rewrite upd_same; munorm s; lia.
    - (* D1 *) destruct q; inversion Hst; subst; clear Hst; sim; rewrite upd_same; munorm s;
        unfold thn; sim; unfold ar; rewrite ?Nat.sub_0_r; change (N.to_nat 0) with O; lia.
    - (* D2 *) inversion Hst; subst; clear Hst.
      destruct (dq_eval_cases cap q x hd att (rdata (rg s q) (phys cap hd))) as [[C1 Ee]|[C1 [[C2 [[C3 Ee]|[C3 [[C4 Ee]|[C4 Ee]]]]]|[C2 Ee]]]]; rewrite Ee;
        unfold mark_left; cbn [leaves]; destruct q; sim; rewrite upd_same; munorm s; rewrite ?N.eqb_refl; lia.
    - (* D3 *) destruct q; inversion Hst; subst; clear Hst; sim; rewrite upd_same; munorm s; lia.
    - (* D4 *) inversion Hst; subst; clear Hst.
      destruct (gt0 _ && (att + 1 <=? R)) eqn:Hc.
      + apply andb_true_iff in Hc. destruct Hc as [_ Hc]. apply N.leb_le in Hc.
        unfold mark_left; cbn [leaves]; destruct q; sim; rewrite upd_same; munorm s;
          destruct (N.eqb _ e); unfold ar, nR in *; lia.
      + destruct (lt0 _); unfold mark_left; cbn [leaves]; destruct q; sim; rewrite upd_same; munorm s;
          destruct (N.eqb _ e); lia.
    - (* D5 *) destruct (N.eqb_spec (rdata (rg s q) (phys cap hd)) e) as [Hcur|Hcur]; inversion Hst; subst; clear Hst.
      + destruct q; sim; rewrite upd_same; munorm s; rewrite ?N.eqb_refl; lia.
      + destruct (dq_eval_cases cap q x hd att (rdata (rg s q) (phys cap hd))) as [[C1 Ee]|[C1 [[C2 [[C3 Ee]|[C3 [[C4 Ee]|[C4 Ee]]]]]|[C2 Ee]]]]; rewrite Ee;
          unfold mark_left; cbn [leaves]; destruct q; sim; rewrite upd_same; munorm s; rewrite ?N.eqb_refl;
          repeat (match goal with |- context [N.eqb ?a e] => destruct (N.eqb_spec a e) as [Hx|_]; [contradiction|] end); lia.
    - (* D6 *) destruct (gt0 _); destruct q; inversion Hst; subst; clear Hst; sim; rewrite upd_same; munorm s; rewrite ?N.eqb_refl; lia.
    - (* D7 *) destruct (HW q) as (_ & _ & Hthr & _).
      destruct (sle 64 (rthr (rg s q)) 0) eqn:Hsle.
      + destruct q; inversion Hst; subst; clear Hst; sim; rewrite upd_same; munorm s; lia.
      + rewrite (thr_sle0 k Hk _ Hthr) in Hsle. apply orb_false_2 in Hsle. destruct Hsle as [Hnz Hpos].
        apply N.eqb_neq in Hnz. apply N.leb_gt in Hpos.
        assert (Hdec : wsub 64 (rthr (rg s q)) 1 = rthr (rg s q) - 1).
        { rewrite (thr_dec k Hk _ Hthr). destruct (N.eqb_spec (rthr (rg s q)) 0); [contradiction|reflexivity]. }
        assert (Hw := W_step (N.to_nat (rthr (rg s q))) ltac:(lia)).
        destruct q; inversion Hst; subst; clear Hst; sim; rewrite upd_same; munorm s; rewrite Hdec;
          match goal with |- context [rthr (rgs s ?qq)] =>
            destruct (N.ltb_spec (rthr (rgs s qq)) (2 ^ 63)); [|lia];
            destruct (N.ltb_spec (rthr (rgs s qq) - 1) (2 ^ 63)); [|lia];
            replace (N.to_nat (rthr (rgs s qq) - 1)) with (N.to_nat (rthr (rgs s qq)) - 1)%nat by lia end;
          unfold ar; change (N.to_nat 0) with O; rewrite ?Nat.sub_0_r; lia.
    - (* C1 *) destruct (N.eqb_spec (rtail (rg s q)) tl) as [Heq|Hne]; destruct q; inversion Hst; subst; clear Hst; sim; rewrite upd_same; munorm s; rewrite ?N.eqb_refl; try lia;
      (match goal with |- context [N.eqb ?a ?b] => destruct (N.eqb_spec a b) end; [contradiction|lia]).
    - (* C2 *) destruct (lt0 _); destruct q; inversion Hst; subst; clear Hst; sim; rewrite upd_same; munorm s; destruct (N.eqb _ tl); lia.
    - (* D8 *) destruct q; inversion Hst; subst; clear Hst; sim; rewrite upd_same; munorm s; lia.
  Qed.

  (** a successful attempt is recognised by the loop body *)
  Lemma esucc_eval s q x idx gk tl : good s -> ctr tl -> esucc s q (tl / 2) = true ->
    let e := rdata (rg s q) (phys cap tl) in
    en_eval cap q x idx gk tl e = E4 q x idx gk tl e \/
    (en_eval cap q x idx gk tl e = E3 q x idx gk tl e /\ gt0 (diff (rhead (rg s q)) tl) = false).
  Proof.
    intros Hg [Htl2 Htllt] Hs. cbv zeta. destruct (good_inv k R Hk s Hg) as ([HW _] & _).
    destruct (HW q) as ([_ Hhlt] & _ & _ & Hd).
    unfold esucc in Hs. cbv zeta in Hs. unfold NikbOwn.slot in Hs. rewrite <- Htl2 in Hs.
    set (e := rdata (rg s q) (phys cap tl)) in *.
    apply andb_true_iff in Hs. destruct Hs as [Hs H3]. apply andb_true_iff in Hs. destruct Hs as [H1 H2].
    assert (Hcyc : ecyc tl = (tl / 2) / nn cap) by (rewrite Htl2 at 1; apply (ecyc_tick k Hk)).
    assert (Hlt : lt0 (diff (cyc cap e) (cyc cap tl)) = true).
    { rewrite (cyc_lt_diff k Hk); [rewrite Hcyc; exact H1|apply (wfe_cycle_ok k R Hk); apply Hd|exact Htllt]. }
    unfold en_eval. rewrite Hlt, (safe_bot_eqb k Hk), (unsafe_bot_eqb k Hk), H2. rewrite !andb_true_r.
    destruct (esafe e); cbn [negb orb] in *; [left; reflexivity|right; split; [reflexivity|]].
    rewrite diff_gt0 by assumption. apply negb_true_iff in H3. exact H3.
  Qed.

  Lemma solo_dec_E s u s' es : good s -> room s 1 -> step s (Step u) = Some (s', es) ->
    match th s u with
    | E1 _ _ _ _ | E2 _ _ _ _ _ | E3 _ _ _ _ _ _ | E4 _ _ _ _ _ _ | E5 _ _ _ _ | E6 _ _ _ _ => (mu u s' < mu u s)%nat
    | _ => True
    end.
  Proof.
    intros Hg Hroom Hst. destruct (good_inv k R Hk s Hg) as ([HW HT1] & (HR & HT & HO) & _ & _).
    pose proof (HT1 u) as Hme. unfold mu. unfold NikbDefs.step, step_gen in Hst.
    destruct (th s u) as [|[v|tp]|q x|q x|q x hd att|q x hd e|q x hd att e|q x hd att e enew|q x hd|q x|q x tl hd|q x tl|q x
                         |q x idx gk|q x idx gk tl|q x idx gk tl e|q x idx gk tl e|q x idx gk|q x idx gk] eqn:E; try exact I; cbn [T1] in Hme.
    - (* E1 *) destruct (HW q) as (_ & [Ht2 Htlt] & _). destruct (Hroom q) as (_ & Hrt & _).
      assert (Hw : wadd 64 (rtail (rg s q)) 2 = rtail (rg s q) + 2) by (apply wadd2_small; exact Htlt).
      assert (Hhalf : (rtail (rg s q) + 2) / 2 = rtail (rg s q) / 2 + 1).
      { replace (rtail (rg s q) + 2) with (rtail (rg s q) + 1 * 2) by lia. rewrite N.div_add by lia. reflexivity. }
      assert (Hrec : esucc s q (rtail (rg s q) / 2) = false -> iters s q (rtail (rg s q) / 2) = S (iters s q (rtail (rg s q) / 2 + 1))).
      { apply (iters_rec s q u idx); [exact Hg|rewrite E; reflexivity|lia]. }
      destruct q; inversion Hst; subst; clear Hst; sim; rewrite upd_same; cbn [mu_pc]; sim; esucc_norm s;
        (destruct (esucc s _ _) eqn:Hs; [pose proof (mE1_pos s RA); pose proof (mE1_pos s RF); lia|]);
        specialize (Hrec eq_refl); unfold mE1; sim; rewrite Hw, Hhalf;
        match goal with |- context [iters ?s' ?qq ?T] =>
          lazymatch s' with s => fail | _ => rewrite (iters_ext s s' qq T) by (intros; sim; reflexivity) end end;
        rewrite Hrec; lia.
    - (* E2 *) inversion Hst; subst; clear Hst. destruct Hme as (Hi & Hc & Htle).
      pose proof (esucc_eval s q x idx gk tl Hg Hc) as Hev. cbv zeta in Hev.
      pose proof (mE1_pos s q) as Hpos.
      destruct (en_eval_cases cap q x idx gk tl (rdata (rg s q) (phys cap tl))) as [(C1 & C2 & Ee)|[(C1 & C2 & C3 & Ee)|Ee]]; rewrite Ee in *;
        unfold mark_skip; cbn [skips].
      + destruct q; sim; rewrite upd_same; munorm s; rewrite ?N.eqb_refl; destruct (esucc s _ _); lia.
      + destruct (esucc s q (tl / 2)) eqn:Hs.
        * destruct (Hev eq_refl) as [Hx|[_ Hg0]]; [discriminate|].
          destruct q; sim; rewrite upd_same; munorm s; rewrite ?N.eqb_refl, Hs, Hg0; cbn [andb negb]; lia.
        * destruct q; sim; rewrite upd_same; munorm s; rewrite ?N.eqb_refl, Hs; cbn [andb]; destruct (negb _); lia.
      + destruct (esucc s q (tl / 2)) eqn:Hs.
        * destruct (Hev eq_refl) as [Hx|[Hx _]]; discriminate.
        * destruct q; sim; rewrite upd_same; munorm s; rewrite Hs; lia.
    - (* E3 *) pose proof (mE1_pos s q) as Hpos.
      destruct (gt0 (diff (rhead (rg s q)) tl)) eqn:Hg0; inversion Hst; subst; clear Hst; unfold mark_skip; cbn [skips];
        destruct q; sim; rewrite upd_same; munorm s; rewrite Hg0; cbn [negb]; rewrite ?andb_false_r, ?andb_true_r;
        destruct (N.eqb _ e); lia.
    - (* E4 *) pose proof (mE1_pos s q) as Hpos. destruct Hme as (Hi & Hc & Htle & _).
      destruct (N.eqb_spec (rdata (rg s q) (phys cap tl)) e) as [Hcur|Hcur].
      + destruct q; inversion Hst; subst; clear Hst; sim; rewrite upd_same; munorm s; rewrite ?N.eqb_refl; lia.
      + inversion Hst; subst; clear Hst.
        destruct (en_eval_cases cap q x idx gk tl (rdata (rg s q) (phys cap tl))) as [(C1 & C2 & Ee)|[(C1 & C2 & C3 & Ee)|Ee]]; rewrite Ee in *;
          unfold mark_skip; cbn [skips]; destruct q; sim; rewrite upd_same; munorm s; rewrite ?N.eqb_refl;
          repeat (match goal with |- context [N.eqb ?a e] => destruct (N.eqb_spec a e) as [Hx|_]; [contradiction|] end);
          cbn [andb]; try (destruct (negb _)); lia.
    - (* E5 *) destruct (_ =? thr_full cap); [destruct q|]; inversion Hst; subst; clear Hst; sim; rewrite upd_same; munorm s; lia.
    - (* E6 *) destruct q; inversion Hst; subst; clear Hst; sim; rewrite upd_same; munorm s; lia.
  Qed.

  Lemma step_total s u : idle s u = false -> exists s' es, step s (Step u) = Some (s', es).
  Proof.
    unfold idle, NikbDefs.step, step_gen. intros Hi.
    destruct (th s u) as [|[v|tp]|q x|q x|q x hd att|q x hd e|q x hd att e|q x hd att e enew|q x hd|q x|q x tl hd|q x tl|q x
                         |q x idx gk|q x idx gk tl|q x idx gk tl e|q x idx gk tl e|q x idx gk|q x idx gk]; try discriminate.
    all: repeat match goal with |- context [if ?c then _ else _] => destruct c end.
    all: try destruct q; eauto.
  Qed.

  Lemma thr_room_dec t B : thr_ok k t -> N.of_nat B < 2 ^ 62 -> (t < 2 ^ 63 \/ 2 ^ 64 - 2 ^ 62 + N.of_nat (S B) <= t) ->
    thr_ovf (wsub 64 t 1) = false /\ (wsub 64 t 1 < 2 ^ 63 \/ 2 ^ 64 - 2 ^ 62 + N.of_nat B <= wsub 64 t 1).
  Proof.
    intros Hok HB Hr. rewrite (thr_dec k Hk _ Hok). unfold thr_ovf.
    assert (E64 : 2 ^ 64 = 18446744073709551616) by reflexivity.
    assert (E63 : 2 ^ 63 = 9223372036854775808) by reflexivity.
    assert (E62 : 2 ^ 62 = 4611686018427387904) by reflexivity.
    assert (Hc := cap3_small k Hk). unfold thr_ok in Hok.
    destruct (N.eqb_spec t 0) as [->|Hnz].
    - split; [reflexivity|]. right. unfold ones64. lia.
    - destruct Hr as [Hr|Hr].
      + split; [|left; lia]. apply andb_false_iff. left. apply N.leb_gt. lia.
      + split; [|right; lia]. apply andb_false_iff. right. apply N.ltb_ge. lia.
  Qed.

  (** one step of u keeps the no-wrap flag clear and uses up one unit of head room *)
  Lemma room_step s u s' es B : good s -> room s (S B) -> step s (Step u) = Some (s', es) -> g_ovf s' = false /\ room s' B.
  Proof.
    intros Hg Hroom Hst. destruct Hg as [Hr Ho]. destruct (good_inv k R Hk s (conj Hr Ho)) as ([HW HT1] & _).
    pose proof (HT1 u) as Hme. unfold NikbDefs.step, step_gen in Hst.
    assert (E62 : 2 ^ 62 = 4611686018427387904) by reflexivity.
    assert (HBl : N.of_nat B < 2 ^ 62) by (destruct (Hroom RA) as (H1 & _); lia).
    assert (Hkeep : forall q, rhead (rg s q) + 2 * N.of_nat B + 2 * cap + 4 < 2 ^ 62 /\
              rtail (rg s q) + 2 * N.of_nat B + 2 * cap + 4 < 2 ^ 62 /\
              (rthr (rg s q) < 2 ^ 63 \/ 2 ^ 64 - 2 ^ 62 + N.of_nat B <= rthr (rg s q))).
    { intros q. destruct (Hroom q) as (A & B' & C). ssplit; [lia|lia|destruct C; [left; assumption|right; lia]]. }
    pose proof (Hkeep RA) as (KA1 & KA2 & KA3). pose proof (Hkeep RF) as (KF1 & KF2 & KF3).
    assert (Hc3 := cap3_small k Hk). assert (E63 : 2 ^ 63 = 9223372036854775808) by reflexivity.
    destruct (th s u) as [|[v|tp]|q x|q x|q x hd att|q x hd e|q x hd att e|q x hd att e enew|q x hd|q x|q x tl hd|q x tl|q x
                         |q x idx gk|q x idx gk tl|q x idx gk tl e|q x idx gk tl e|q x idx gk|q x idx gk] eqn:E; try discriminate; cbn [T1] in Hme.
    all: try (destruct (HW q) as ([Hh2 Hhlt] & [Ht2 Htlt] & Hthr & _)); try (destruct (Hroom q) as (Rh & Rt & Rthr)).
    all: try (destruct (thr_room_dec _ B Hthr HBl Rthr) as [Tov Troom]).
    all: unfold mark_left, mark_skip in Hst.
    all: repeat match type of Hst with context [if ?c then _ else _] => destruct c eqn:? end.
    all: try destruct q.
    all: inversion Hst; subst; clear Hst; sim; rewrite ?Ho; cbn [orb].
    all: rewrite ?wadd2_small by assumption.
    all: try (destruct Hme as (Hct & Hch & Hle & Hhr); rewrite (ctr_land1 _ Hct), N.lor_0_r).
    all: split; [first [reflexivity | exact Tov | (unfold ctr_ovf; apply N.leb_gt; lia)]|].
    all: intros q'; destruct q'; sim; ssplit; try assumption; try lia; try exact Troom.
    all: left; unfold thr_full, nn; lia.
  Qed.


  Lemma room_mono s B B' : (B' <= B)%nat -> room s B -> room s B'.
  Proof. intros Hle Hr q. destruct (Hr q) as (A & B0 & C). ssplit; [lia|lia|destruct C; [left; assumption|right; lia]]. Qed.

  Lemma mu_pos s u : idle s u = false -> (1 <= mu u s)%nat.
  Proof.
    unfold idle, mu. pose proof (mE1_pos s RA). pose proof (mE1_pos s RF).
    destruct (th s u) as [|[v|tp]| | | | | | | | | | | | | | | | | ]; try discriminate; intros _; cbn [mu_pc];
      repeat match goal with |- context [if ?c then _ else _] => destruct c end; try destruct q; cbn [other]; lia.
  Qed.

  Definition PS (u : nat) (s : state) : Prop := good s /\ room s (mu u s).

  Lemma solo_step u s : PS u s -> idle s u = false ->
    exists s' es, step s (Step u) = Some (s', es) /\ PS u s' /\ (mu u s' < mu u s)%nat.
  Proof.
    intros [Hg Hroom] Hi. destruct (step_total s u Hi) as (s' & es & Hst). exists s', es. split; [exact Hst|].
    pose proof (mu_pos s u Hi) as Hpos.
    assert (Hr1 : room s 1) by (apply (room_mono s (mu u s)); [lia|exact Hroom]).
    assert (Hdec : (mu u s' < mu u s)%nat).
    { pose proof (solo_dec_D s u s' es Hg Hr1 Hst) as HD. pose proof (solo_dec_E s u s' es Hg Hr1 Hst) as HE.
      unfold idle in Hi. destruct (th s u); try discriminate Hi; try exact HD; exact HE. }
    split; [|exact Hdec].
    destruct (room_step s u s' es (mu u s - 1) Hg) as [Ho' Hroom']; [replace (S (mu u s - 1)) with (mu u s) by lia; exact Hroom|exact Hst|].
    split; [split; [eapply reach_step; [apply Hg|exact Hst]|exact Ho']|apply (room_mono s' (mu u s - 1)); [lia|exact Hroom']].
  Qed.

  (** SOLO TERMINATION: from every reachable wrap-free state with head room, thread u finishes its operation
      within [mu u s] of its own steps *)
  Theorem nikb_solo u s : good s -> room s (mu u s) -> finishes_within step Step idle u (mu u s) s.
  Proof.
    intros Hg Hroom. apply (finishes_by_measure _ _ _ step Step idle (PS u) (mu u) u).
    - intros s0 HP Hi. destruct (solo_step u s0 HP Hi) as (s' & es & H1 & H2 & H3). exists s', es. auto.
    - split; assumption.
  Qed.

  (** ** the explicit bound *)
  Definition gap (s : state) (q : rid) : nat := N.to_nat (rhead (rg s q) / 2 - rtail (rg s q) / 2).
  Definition nikb_bound (s : state) : nat :=
    (W * (3 * N.to_nat cap) + 10 * (gap s RA + gap s RF + N.to_nat cap) + 18)%nat.

  Lemma thn_le s q : good s -> (thn (rg s q) + 1 <= 3 * N.to_nat cap)%nat.
  Proof.
    intros Hg. destruct (good_inv k R Hk s Hg) as ([HW _] & _). destruct (HW q) as (_ & _ & Hthr & _).
    unfold thn. assert (Hp := cap_pos k Hk). destruct (N.ltb_spec (rthr (rg s q)) (2 ^ 63)) as [Hlt|Hge]; [|lia].
    assert (E64 : 2 ^ 64 = 18446744073709551616) by reflexivity.
    assert (E63 : 2 ^ 63 = 9223372036854775808) by reflexivity.
    assert (E62 : 2 ^ 62 = 4611686018427387904) by reflexivity.
    destruct Hthr as [H|H]; lia.
  Qed.

  Lemma mE1_le s q : (mE1 s q <= 10 * (gap s q + N.to_nat cap) + 9)%nat.
  Proof. unfold mE1, gap. pose proof (iters_le s q (rtail (rg s q) / 2)). lia. Qed.

  Lemma mu_le_bound s u : good s -> (mu u s <= nikb_bound s)%nat.
  Proof.
    intros Hg. unfold mu, nikb_bound.
    pose proof (thn_le s RA Hg) as TA. pose proof (thn_le s RF Hg) as TF.
    pose proof (mE1_le s RA) as EA. pose proof (mE1_le s RF) as EF.
    assert (HW : forall t, (t + 1 <= 3 * N.to_nat cap)%nat -> (W * t + W <= W * (3 * N.to_nat cap))%nat) by (intros t Ht; nia).
    pose proof (HW _ TA) as WA. pose proof (HW _ TF) as WF.
    assert (Hw : W = (2 * nR + 14)%nat) by reflexivity.
    assert (Har : forall att, (ar att <= nR)%nat) by (intros att; unfold ar; lia).
    destruct (th s u) as [|[v|tp]|q x|q x|q x hd att|q x hd e|q x hd att e|q x hd att e enew|q x hd|q x|q x tl hd|q x tl|q x
                         |q x idx gk|q x idx gk tl|q x idx gk tl e|q x idx gk tl e|q x idx gk|q x idx gk]; cbn [mu_pc];
      try (pose proof (Har att));
      repeat match goal with |- context [if ?c then _ else _] => destruct c end; try destruct q; cbn [other]; lia.
  Qed.

  Theorem nikb_solo_bound u s : good s -> room s (nikb_bound s) -> finishes_within step Step idle u (nikb_bound s) s.
  Proof.
    intros Hg Hroom. pose proof (mu_le_bound s u Hg) as Hle.
    apply (finishes_within_mono _ _ _ step Step idle u (mu u s)); [exact Hle|].
    apply nikb_solo; [exact Hg|apply (room_mono s (nikb_bound s)); assumption].
  Qed.

  Lemma nikb_bound_value s :
    nikb_bound s = ((2 * N.to_nat R + 14) * (3 * N.to_nat cap) + 10 * (gap s RA + gap s RF + N.to_nat cap) + 18)%nat.
  Proof. reflexivity. Qed.
End Solo.

(** closed statements for Properties/Properties_C05_nikb.v *)
Theorem nikb_solo_thm k R : k <= 40 -> forall u s, reach (init (2 ^ k)) (step (2 ^ k) R) s -> g_ovf s = false ->
  room k s (mu k R u s) -> finishes_within (step (2 ^ k) R) Step idle u (mu k R u s) s.
Proof. intros Hk u s Hr Ho. apply (nikb_solo k R Hk u s (conj Hr Ho)). Qed.

Theorem nikb_solo_bound_thm k R : k <= 40 -> forall u s, reach (init (2 ^ k)) (step (2 ^ k) R) s -> g_ovf s = false ->
  room k s (nikb_bound k R s) -> finishes_within (step (2 ^ k) R) Step idle u (nikb_bound k R s) s.
Proof. intros Hk u s Hr Ho. apply (nikb_solo_bound k R Hk u s (conj Hr Ho)). Qed.

(** * solo runs (executable) *)
Definition st_of' (cap R : N) (acts : list action) : state := fst (fst (run (step cap R) (init cap) acts)).

(** a push and a pop running alone on the fresh queue: 10 and 9 steps *)
Example solo_push_fresh : exists s, solo_run (step 2 0) Step idle 1 100 0 (st_of' 2 0 [Start 1%nat (OPush 7)]) = Done s 10.
Proof. eexists. vm_compute. reflexivity. Qed.

Example solo_pop_empty_fresh : exists s, solo_run (step 2 0) Step idle 1 100 0 (st_of' 2 0 [Start 1%nat (OPop false)]) = Done s 2.
Proof. eexists. vm_compute. reflexivity. Qed.

(** a pop running alone against a stopped pusher that holds enqueue ticket 1 (capacity 2, R = 2): it re-reads the
    empty slot, marks it, runs catchup and answers 'empty' after 9 steps *)
Example solo_pop_stalled_pusher :
  exists s, solo_run (step 2 2) Step idle 2 100 0
              (st_of' 2 2 ([Start 1%nat (OPush 7)] ++ repeat (Step 1%nat) 10 ++ [Start 1%nat (OPop false)] ++ repeat (Step 1%nat) 9 ++
                           [Start 1%nat (OPush 8)] ++ repeat (Step 1%nat) 6 ++ [Start 2%nat (OPop false)])) = Done s 9.
Proof. eexists. vm_compute. reflexivity. Qed.
