(** The epoch argument of the epoch based reclamation model (Model/EbrDefs.v):
    [P1]  for every thread that owns a control block: its local epoch is never ahead of the global epoch, the epoch
          it carries through do_enter_critical / scan / update_global_epoch / update_local_epoch is consistent with
          both, and (the heart of C01) WHILE ITS CRITICAL-REGION FLAG IS SET AND ITS EPOCH IS VALIDATED THE GLOBAL
          EPOCH IS AT MOST ONE AHEAD of it ([ve]: the validated epoch of a thread);
    [PB]  the scan invariant that makes [P1] inductive: while the global epoch still is the scanner's epoch e, every
          control block the scanner has already passed belongs to no flagged, validated thread with an epoch below e.
    Both hold in every reachable state ([EI_reach]).  No axioms. *)
From Coq Require Import NArith List Bool Arith Lia PeanoNat.
From XV Require Import Conc.Lts Conc.Ev Model.EbrDefs Proof.EbrBase.
Import ListNotations.
Local Open Scope N_scope.

(** * Epochs *)
Definition ve (p : pc) (le : N) : option N :=
  match p with
  | E4 _ e | S1 _ e | S2 _ e _ _ | S3 _ e _ _ | G1 _ e | G2 _ e | G3 _ e | G4 _ e | G5 _ e _ => Some e
  | G6 _ e _ | G7 _ e _ _ => Some (e + 1)
  | U1 _ new | U2 _ new _ => Some new
  | E1 _ | E2 _ | E3 _ | C7 _ | C8 _ _ => None
  | _ => Some le
  end.
Definition epc (p : pc) (le g : N) : Prop :=
  match p with
  | C8 _ e => e <= g
  | E4 _ e => le <= e /\ e <= g
  | S1 _ e | S2 _ e _ _ | S3 _ e _ _ | G1 _ e | G2 _ e | G3 _ e | G4 _ e | G5 _ e _ => le = e /\ e <= g
  | G6 _ e _ | G7 _ e _ _ => le = e /\ e + 1 <= g
  | U1 _ new => le < new /\ new <= g
  | U2 _ new old => old = le /\ le < new /\ new <= g
  | _ => True
  end.
Definition has_loc (p : pc) : bool := match p with C7 _ | C8 _ _ => false | _ => true end.
Definition scan_of (p : pc) : option (N * list N) :=
  match p with
  | S2 _ e p0 rest | S3 _ e p0 rest => Some (e, p0 :: rest)
  | G1 _ e | G2 _ e | G3 _ e | G4 _ e | G5 _ e _ => Some (e, [])
  | _ => None
  end.

Definition P1 (s : state) (u : nat) : Prop :=
  forall b, cb (tl s u) = Some b ->
    (has_loc (th s u) = true -> blocal s b <= gep s /\ lidx (tl s u) = blocal s b mod 3) /\
    epc (th s u) (blocal s b) (gep s) /\
    (bflag s b = true -> forall v, ve (th s u) (blocal s b) = Some v -> gep s <= v + 1).
Definition PB (s : state) : Prop :=
  forall w u b e rem v, scan_of (th s w) = Some (e, rem) -> gep s = e -> cb (tl s u) = Some b -> bflag s b = true ->
    ~ In b rem -> ve (th s u) (blocal s b) = Some v -> e <= v.

Lemma step_gep ns s t s' es : step ns s (Step t) = Some (s', es) ->
  gep s' = gep s \/ (exists k l, th s t = G5 k (gep s) l /\ gep s' = gep s + 1).
Proof.
  intros H. unfold_step H. cbv zeta in H. step_split H. all: bool_eqs; prj; try (left; reflexivity).
  right. subst. eauto.
Qed.

(** the validated epoch is never behind the local epoch *)
Lemma ve_ge p le g v : epc p le g -> ve p le = Some v -> le <= v.
Proof. destruct p; cbn; intros H E; inversion E; subst; lia. Qed.
Lemma ve_le p le g v : epc p le g -> (has_loc p = true -> le <= g) -> ve p le = Some v -> v <= g.
Proof. destruct p; cbn; intros H L E; inversion E; subst; try lia; apply L; reflexivity. Qed.

Lemma P1_other ns s t s' es u : O0 s -> (forall x, P1 s x) -> PB s -> step ns s (Step t) = Some (s', es) -> u <> t -> P1 s' u.
Proof.
  intros O I B H Hne b Hb. destruct (step_frame _ _ _ _ _ H) as (Fth & Fb & _ & _ & Hmono).
  destruct (Fth u Hne) as [Eth Etl]. rewrite Eth, Etl in *.
  destruct (o_own s O u b Hb) as [Ho _].
  destruct (Fb b (owner_untouched _ _ _ _ O Ho Hne)) as (_ & Ef & El & _). rewrite Ef, El.
  destruct (I u b Hb) as (I1 & I2 & I3). split; [|split].
  - intros Hl. destruct (I1 Hl). split; [lia|assumption].
  - destruct (th s u); cbn in *; try exact I; lia.
  - intros Hf v Hv. destruct (step_gep _ _ _ _ _ H) as [->|(k & l & Hpc & ->)]; [auto|].
    assert (gep s <= v); [|lia].
    eapply (B t u b (gep s) [] v); try eassumption; [rewrite Hpc; reflexivity|reflexivity|intros []].
Qed.

Ltac efn := cbn [ve epc has_loc scan_of].
Ltac efn_in H := cbn [ve epc has_loc scan_of] in H.

Lemma uslots_nonempty new old : old < new -> is_nil (uslots new old) = false.
Proof.
  intros H. unfold uslots. destruct (N.eqb_spec (N.min 3 (new - old)) 0) as [E|E]; [lia|].
  repeat match goal with |- context [if ?c then _ else _] => destruct c end; reflexivity.
Qed.

Ltac same_cb :=
  repeat match goal with
  | E : cb ?x = Some ?n, H : cb ?x = Some ?b |- _ =>
    lazymatch b with n => fail | _ => rewrite E in H; injection H as <- end
  | E : cb ?x = None, H : cb ?x = Some _ |- _ => rewrite E in H; discriminate H
  end.

Lemma P1_self ns s t s' es : O0 s -> tshape ns (th s t) (tl s t) -> P1 s t -> step ns s (Step t) = Some (s', es) -> P1 s' t.
Proof.
  intros O T I H. unfold_step H. cbv zeta in H. step_split H.
  all: bool_eqs; unfold P1; prj; rewrite ?upd_same; prj; prj_hyps; rewrite ?upd_same in *; prj_hyps.
  all: unfold P1 in I; try match goal with E : th _ _ = _ |- _ => try rewrite E in I; try rewrite E in T end.
  all: intros b0 Hb0; same_cb.
  all: try (match goal with E : cb (tl _ _) = Some ?n |- _ => pose proof (I n E) as (I1 & I2 & I3); efn_in I1; efn_in I2; efn_in I3 end).
  all: try solve [inj_some; efn; split_updN_all; cleanup; repeat split; intros; inj_some; first [assumption | discriminate | lia | congruence | auto]].
  all: try solve [xn; inj_some; efn; split_updN_all; cleanup; repeat split; intros; inj_some; first [assumption | discriminate | lia | congruence | auto]].
  all: try solve [exfalso; pose proof (ts_no _ _ _ T eq_refl); congruence].
  all: try solve [exfalso; pose proof (ts_c _ _ _ T eq_refl); congruence].
  all: try solve [inj_some; efn; split_updN_all; cleanup; try subst; repeat split; intros; inj_some; try subst;
                  repeat match goal with H : ?P -> forall v, Some ?x = Some v -> _, H2 : ?P |- _ => specialize (H H2 x eq_refl) end;
                  first [assumption | discriminate | lia | congruence | auto
                        | match goal with H : uslots ?a ?b = [] |- _ => pose proof (uslots_nonempty a b); rewrite H in *; cbn [is_nil] in *; exfalso; intuition (discriminate || lia) end]].
  exfalso. destruct I2 as (-> & Hlt & _). pose proof (uslots_nonempty new _ Hlt) as X. rewrite E1 in X. discriminate.
Qed.

Lemma scan_has_cb ns p x e rem : tshape ns p x -> scan_of p = Some (e, rem) -> cb x <> None.
Proof. intros T H. apply (ts_need _ _ _ T). destruct p; cbn in H; try discriminate; reflexivity. Qed.

Lemma scan_epc p le g e rem : epc p le g -> scan_of p = Some (e, rem) -> le = e /\ e <= g.
Proof. destruct p; cbn; intros H E; try discriminate; inversion E; subst; exact H. Qed.

Lemma PB_frame ns s t s' es w u : O0 s -> T0 ns s -> (forall x, P1 s x) -> PB s -> step ns s (Step t) = Some (s', es) ->
  w <> t -> u <> t ->
  forall b e rem v, scan_of (th s' w) = Some (e, rem) -> gep s' = e -> cb (tl s' u) = Some b -> bflag s' b = true ->
    ~ In b rem -> ve (th s' u) (blocal s' b) = Some v -> e <= v.
Proof.
  intros O T I B H Hw Hu b e rem v Hs Hg Hb Hf Hn Hv.
  destruct (step_frame _ _ _ _ _ H) as (Fth & Fb & _).
  destruct (Fth w Hw) as [Ew _]. destruct (Fth u Hu) as [Eu Etl]. rewrite Ew in Hs. rewrite Eu in Hv. rewrite Etl in Hb.
  destruct (o_own s O u b Hb) as [Ho _].
  destruct (Fb b (owner_untouched _ _ _ _ O Ho Hu)) as (_ & Ef & El & _). rewrite Ef in Hf. rewrite El in Hv.
  destruct (step_gep _ _ _ _ _ H) as [Eg|(k & l & Hpc & Eg)]; rewrite Eg in Hg.
  - eapply B; eauto.
  - exfalso. destruct (cb (tl s w)) as [bw|] eqn:Ebw; [|eapply scan_has_cb; eauto].
    destruct (I w bw Ebw) as (_ & I2 & _). destruct (scan_epc _ _ _ _ _ I2 Hs). lia.
Qed.

Lemma PB_w ns s t s' es : O0 s -> T0 ns s -> (forall x, P1 s x) -> PB s -> step ns s (Step t) = Some (s', es) ->
  forall u b e rem v, scan_of (th s' t) = Some (e, rem) -> gep s' = e -> cb (tl s' u) = Some b -> bflag s' b = true ->
    ~ In b rem -> ve (th s' u) (blocal s' b) = Some v -> e <= v.
Proof.
  intros O T I B H. unfold_step H. cbv zeta in H. step_split H.
  all: bool_eqs; prj; rewrite ?upd_same; prj; prj_hyps; rewrite ?upd_same in *; prj_hyps.
  all: intros u b0 e0 rem0 v0 Hs; efn_in Hs; try discriminate Hs.
  all: try solve [xn; efn_in Hs; discriminate Hs].
  all: intros Hg Hb Hf Hn Hv; inj_some.
  all: try subst e0; try subst rem0.
  all: pose proof (proj2 (o_own s O u b0 Hb)) as Hin.
  all: (destruct (Nat.eq_dec u t) as [->|Hut]; [rewrite upd_same in Hv; efn_in Hv; inj_some; lia | rewrite upd_other in Hv by assumption]).
  all: try solve [exfalso; apply Hn; rewrite <- ?E0; exact Hin].
  all: try solve [exfalso; rewrite E0 in Hin; destruct Hin].
  all: try solve [eapply (B t u b0 _ _ v0); [rewrite E; reflexivity|first [exact Hg|reflexivity]|exact Hb|exact Hf| |exact Hv]; first [exact Hn | intros [] | intros [->|X]; [congruence|contradiction]]].
  all: try solve [eapply (B t u b0 _ _ v0); [rewrite E; reflexivity|first [exact Hg|reflexivity]|exact Hb|exact Hf| |exact Hv]; intros [->|X]; [congruence|first [contradiction|destruct X]]].
  all: destruct (N.eq_dec b0 p) as [->|Hbp];
       [destruct (I u p Hb) as (_ & I2 & _); pose proof (ve_ge _ _ _ _ I2 Hv); lia
       |eapply (B t u b0 _ _ v0); [rewrite E; reflexivity|first [exact Hg|reflexivity]|exact Hb|exact Hf| |exact Hv]; intros [X|X]; [congruence|first [contradiction|destruct X]]].
Qed.

Lemma PB_u ns s t s' es : O0 s -> T0 ns s -> (forall x, P1 s x) -> PB s -> step ns s (Step t) = Some (s', es) ->
  forall w b e rem v, w <> t -> scan_of (th s w) = Some (e, rem) -> gep s' = e -> cb (tl s' t) = Some b -> bflag s' b = true ->
    ~ In b rem -> ve (th s' t) (blocal s' b) = Some v -> e <= v.
Proof.
  intros O T I B H w b0 e0 rem0 v0 Hw Hs.
  assert (Hle : e0 <= gep s).
  { destruct (cb (tl s w)) as [bw|] eqn:Ebw; [|exfalso; eapply scan_has_cb; eauto].
    destruct (I w bw Ebw) as (_ & I2 & _). destruct (scan_epc _ _ _ _ _ I2 Hs). lia. }
  pose proof (B w t b0 e0 rem0) as X. specialize (T t). pose proof (I t) as It. unfold P1 in It.
  unfold_step H. cbv zeta in H. step_split H.
  all: bool_eqs; prj; rewrite ?upd_same; prj; prj_hyps; rewrite ?upd_same in *; prj_hyps.
  all: try match goal with E : th _ _ = _ |- _ => try rewrite E in X; try rewrite E in T; try rewrite E in It end.
  all: intros Hg Hb Hf Hn Hv; efn_in Hv; efn_in X; same_cb.
  all: try discriminate Hv.
  all: try solve [split_updN_all; first [discriminate | inj_some; lia | eapply X; solve [eauto | congruence]]].
  all: try solve [exfalso; pose proof (ts_c _ _ _ T eq_refl); congruence].
  all: try solve [xn; efn_in Hv; eapply X; solve [eauto | congruence]].
  all: specialize (X _ Hs Hg Hb Hf Hn eq_refl); destruct (It b0 Hb) as (_ & I2 & _); efn_in I2; inj_some; lia.
Qed.

Definition EI (s : state) : Prop := (forall x, P1 s x) /\ PB s.

Lemma ve_start_pc p le : (p = X0 \/ in_xphase p = true \/ exists o, p = Begin o) -> ve p le = Some le /\ (forall g, epc p le g) /\ has_loc p = true /\ scan_of p = None.
Proof. intros [->|[H|[o ->]]]; [cbn; auto| destruct p; try discriminate; cbn; auto | cbn; auto]. Qed.

Lemma start_pc ns s t o s' es : step ns s (Start t o) = Some (s', es) ->
  th s t = Idle /\ th s' = upd (th s) t (th s' t) /\ tl s' = tl s /\ gep s' = gep s /\ bflag s' = bflag s /\ blocal s' = blocal s /\
  (th s' t = X0 \/ in_xphase (th s' t) = true \/ exists o, th s' t = Begin o).
Proof.
  intros H. unfold step in H. step_split H. all: prj; rewrite ?upd_same.
  all: repeat split; try reflexivity; try assumption; eauto.
  destruct (xnext_cases (rl (tl s t)) 0) as [Ex|[Ex|[Ex|Ex]]]; rewrite Ex; cbn; auto.
Qed.

Section ReachE.
Variables (ns : nat) (nc : N).

Lemma EI_init : EI (init nc).
Proof. split; [intros x b Hb; cbn in Hb; discriminate|intros w u b e rem v Hs; cbn in Hs; discriminate]. Qed.

Lemma EI_start s t o s' es : EI s -> step ns s (Start t o) = Some (s', es) -> EI s'.
Proof.
  intros [I B] H. destruct (start_pc _ _ _ _ _ _ H) as (Hidle & Eth & Etl & Eg & Ef & El & Hp).
  assert (Hve : forall u le, ve (th s' u) le = ve (th s u) le).
  { intros u le. rewrite Eth. destruct (Nat.eq_dec u t) as [->|Hne]; [rewrite upd_same, Hidle|rewrite upd_other by exact Hne; reflexivity].
    destruct (ve_start_pc _ le Hp) as (-> & _). reflexivity. }
  split.
  - intros u b Hb. rewrite Etl in Hb. destruct (I u b Hb) as (I1 & I2 & I3). rewrite Etl, Eg, Ef, El, Hve.
    rewrite Eth. destruct (Nat.eq_dec u t) as [->|Hne]; [rewrite upd_same|rewrite upd_other by exact Hne; auto].
    destruct (ve_start_pc _ (blocal s b) Hp) as (_ & He & Hl & _). rewrite Hidle in I1, I2, I3. cbn in I1.
    repeat split; try apply I1; auto. rewrite Hidle. exact I3.
  - intros w u b e rem v Hs Hg Hb Hf Hn Hv. rewrite Etl in Hb. rewrite Ef in Hf. rewrite El, Hve in Hv. rewrite Eg in Hg.
    eapply (B w u b e rem v); eauto. rewrite Eth in Hs. destruct (Nat.eq_dec w t) as [->|Hne]; [rewrite upd_same in Hs|rewrite upd_other in Hs by exact Hne; exact Hs].
    destruct (ve_start_pc _ 0 Hp) as (_ & _ & _ & Hsc). congruence.
Qed.

Lemma EI_step s a s' es : T0 ns s -> O0 s -> EI s -> step ns s a = Some (s', es) -> EI s'.
Proof.
  intros T O [I B] H. destruct a as [t o|t]; [eapply EI_start; eauto; split; assumption|].
  split.
  - intros u. destruct (Nat.eq_dec u t) as [->|Hne]; [eapply P1_self; eauto|eapply P1_other; eauto].
  - intros w u b e rem v Hs Hg Hb Hf Hn Hv.
    destruct (Nat.eq_dec w t) as [->|Hw]; [eapply (PB_w _ _ _ _ _ O T I B H); eauto|].
    destruct (Nat.eq_dec u t) as [->|Hu].
    + destruct (step_frame _ _ _ _ _ H) as (Fth & _). destruct (Fth w Hw) as [Ew _]. rewrite Ew in Hs.
      eapply (PB_u _ _ _ _ _ O T I B H); eauto.
    + eapply (PB_frame _ _ _ _ _ w u O T I B H); eauto.
Qed.

Lemma EI_reach s : reachable ns nc s -> EI s.
Proof.
  apply (inv_rule_aux _ _ _ _ _ (fun s => T0 ns s /\ O0 s) EI).
  - intros s0 Hr. split; [apply (T0_reach ns nc); exact Hr|apply (O0_reach ns nc); exact Hr].
  - exact EI_init.
  - intros s0 a s1 es [J1 J2] _ I H. eapply EI_step; eauto.
Qed.
End ReachE.
