(** kirsch_bounded_kfifo_queue (C06): the full verdict, slot histories, the (index, tag) word tie to the
    generated marked_idx, the premature-full schedule (refuted clause of C06), examples.
    The invariant layers are Proof/KfbWf, KfbOwn, KfbRing, KfbRegion; conservation in Proof/KfbCons,
    call-level theorems in Proof/KfbCall, solo termination in Proof/KfbSolo.  No axioms, no admits. *)
From Coq Require Import NArith List Bool Lia PeanoNat.
From XV Require Import Base.Word Conc.Lts Conc.Ev Model.KfbDefs gen.KirschIdxGen Proof.KirschIdx.
From XV Require Import Proof.KfbArith Proof.KfbWf Proof.KfbOwn Proof.KfbRing Proof.KfbRegion Proof.KfbMono Proof.KfbCons Proof.KfbCall.
Import ListNotations.
Local Open Scope N_scope.

Set Default Proof Using "All".
Section More.
  Variables k segs : N.
  Hypothesis Hk : 1 <= k.
  Hypothesis Hs : 1 <= segs.
  Notation step := (step k segs).
  Notation sg := (sg k).
  Notation qsize := (qsize k segs).
  Notation dist := (dist segs).
  Notation hs := (hs k).
  Notation ts := (ts k).
  Notation Inv := (Inv k segs).

  (** * The 'full' verdict *)

  Lemma full_step u s a s' es : step s a = Some (s', es) -> In (ERet u [0]) es ->
    exists r b tl hd, a = Step u r /\ th s u = PH b tl hd /\ head s = hd.
  Proof.
    intros Hst Hin. unfold KfbDefs.step in Hst. destruct a as [t o|t r].
    - destruct (th s t); try discriminate. inversion Hst; subst. destruct Hin.
    - destruct (th s t) as [|[v|]|b|b tl|b tl hd0 ri i|b tl j0 otag|b tl hd0|b tl j0 otag|b tl hd0|b tl hd0 i|b tl hd0|b tl hd0|b tl
                            |b tl j0 tg0|b tl j0 tg0|b tl j0 tg0 hc|b tl j0 tg0 hc tc|b tl j0 tg0 hc|b j0 tg0
                            | |hd0|hd0 tl ri i|hd0 tl j0 p0 tg0|hd0 tl|hd0 tl j0 p0 tg0|hd0 j0 p0 tg0|hd0 tl|hd0] eqn:E;
        try discriminate; brk Hst; inversion Hst; subst; clear Hst; cbn in Hin;
        repeat match goal with H : _ \/ _ |- _ => destruct H end; try contradiction; try discriminate.
      match goal with H : ERet _ _ = ERet _ _ |- _ => inversion H; subst end.
      eexists _, _, _, _; split; [reflexivity|split; [exact E|reflexivity]].
  Qed.

  (** What a 'full' answer guarantees at the instant of its final re-check of head: the ring has no
      free segment (the segment after the tail segment is the head segment), head has not changed
      since try_push read it, and the rejected value is not in the queue.
      FULL STATEMENT (C06): try_push answers 'full' only if at least (segs-1)*k+1 values were stored
      at some instant of the call (never on an empty queue).  This is FALSE for the code and the
      model (recorded finding C06-kfb-premature-full-after-rollback): slots holding insertions that
      are not (and will never be) committed count as occupied, [kfb_premature_full_refuted]. *)
  Theorem kfb_full_verdict_partial u s a s' es :
    reach init step s -> step s a = Some (s', es) -> In (ERet u [0]) es ->
    exists r b tl hd, a = Step u r /\ th s u = PH b tl hd /\ head s = hd /\
      (fst (tail s) + k) mod qsize = fst (head s) /\ dist (hs s) (ts s) = segs - 1 /\
      ~ In b (g_in s) /\ (forall j, fst (slot s j) <> b).
  Proof.
    intros Hr Hst Hin. destruct (full_step u s a s' es Hst Hin) as (r & b & tl & hd & -> & Hpc & Hh).
    exists r, b, tl, hd. split; [reflexivity|]. split; [exact Hpc|]. split; [exact Hh|].
    destruct (Inv_reach k segs Hk Hs s Hr) as ((Hwh & Hwt & _ & _) & I2 & H3 & _).
    pose proof (H3 u) as T3. rewrite Hpc in T3. cbn [KfbRing.T3] in T3. specialize (T3 Hh).
    pose proof (i_th s I2 u) as HT2. rewrite Hpc in HT2. unfold KfbOwn.T2, T2' in HT2. cbn [cinfo pblock] in HT2.
    split; [|split; [exact T3|exact HT2]].
    destruct (adv_wf k segs Hk Hs _ Hwt) as [A B].
    apply (wfi_inj k segs Hk Hs); [exact A|exact Hwh|]. rewrite B.
    apply (dist_full k segs Hk Hs); [apply Hwh|apply Hwt|exact T3].
  Qed.

  (** * Slot histories: the tag of a slot counts its changes, its content is the last insertion *)
  Definition cur (l : list hev) : N := match rev l with HIns b :: _ => b | _ => 0 end.
  Definition InvH (st : state) : Prop :=
    forall j, snd (slot st j) = N.of_nat (length (g_hist st j)) /\ fst (slot st j) = cur (g_hist st j).

  Lemma cur_snoc l e : cur (l ++ [e]) = match e with HIns b => b | _ => 0 end.
  Proof. unfold cur. rewrite rev_unit. reflexivity. Qed.

  Theorem kfb_hist_inv st : reach init step st -> InvH st.
  Proof.
    apply inv_rule; [intros j; split; reflexivity|].
    intros s a s' es H Hst. unfold KfbDefs.step in Hst. destruct a as [t o|t r].
    - destruct (th s t); try discriminate. inversion Hst; subst. exact H.
    - destruct (th s t) as [|[v|]|b|b tl|b tl hd0 ri i|b tl j0 otag|b tl hd0|b tl j0 otag|b tl hd0|b tl hd0 i|b tl hd0|b tl hd0|b tl
                            |b tl j0 tg0|b tl j0 tg0|b tl j0 tg0 hc|b tl j0 tg0 hc tc|b tl j0 tg0 hc|b j0 tg0
                            | |hd0|hd0 tl ri i|hd0 tl j0 p0 tg0|hd0 tl|hd0 tl j0 p0 tg0|hd0 j0 p0 tg0|hd0 tl|hd0] eqn:E;
        try discriminate; brk Hst; inversion Hst; subst; clear Hst; try exact H.
      all: intros j; sim; unfold setf; destruct (N.eqb_spec j j0) as [->|Hn]; [|apply H].
      all: destruct (H j0) as [A B]; rewrite e in A; cbn [fst snd] in *; rewrite app_length, cur_snoc; cbn [length]; split; [lia|reflexivity].
  Qed.

  (** * The (index, tag) words: comparing pairs is comparing the 64-bit words *)
  Hypothesis Hq : k * segs < 2 ^ 32.

  Lemma head_idx_small st : reach init step st -> fst (head st) < 2 ^ 32 /\ fst (tail st) < 2 ^ 32.
  Proof.
    intros Hr. destruct (Inv_reach k segs Hk Hs st Hr) as ((Hwh & Hwt & _) & _).
    pose proof (wfi_lt k segs Hk Hs _ Hwh). pose proof (wfi_lt k segs Hk Hs _ Hwt). unfold KfbDefs.qsize in *. lia.
  Qed.

End More.

(** as long as index and tag are below 2^32 the printed / compared 64-bit word determines the (index, tag)
    pair: comparing pairs, as the model does, is comparing the words, as the code does (generated
    [mk_idx], [C06_marked_idx_roundtrip]) *)
Lemma iwv_inj (a b : iw) : fst a < 2 ^ 32 -> fst b < 2 ^ 32 -> snd a < 2 ^ 32 -> snd b < 2 ^ 32 ->
  mk_idx (fst a) (snd a) = mk_idx (fst b) (snd b) -> a = b.
Proof.
  intros A1 B1 A2 B2 E.
  destruct (idx_roundtrip (fst a) (snd a) A1 A2) as [X1 X2].
  destruct (idx_roundtrip (fst b) (snd b) B1 B2) as [Y1 Y2].
  destruct a, b. cbn [fst snd] in *. rewrite E in X1, X2. congruence.
Qed.


(** * The known finding: 'full' although fewer than (segs-1)*k+1 values are stored *)
Definition steps (t : nat) (n : nat) : list action := repeat (Step t 0) n.
Definition st_of (k segs : N) (acts : list action) : state := fst (fst (run (step k segs) init acts)).
Definition tr_of (k segs : N) (acts : list action) : list ev := snd (fst (run (step k segs) init acts)).
Definition committed_stored (st : state) : nat := (length (g_in st) - length (g_out st))%nat.

(** k = 1, two segments.  T1's push inserts its value into slot 0 and stops before [committed];
    T2's push finds segment 0 occupied, advances tail, inserts into slot 1 and commits; T3's push
    finds the tail segment occupied, tail + k == head, the head segment not empty (T1's
    uncommitted value) and head unchanged: it answers 'full'.  T1 then takes its value back. *)
Definition ex_full : list action :=
  Start 1%nat (OPush 1) :: steps 1 6 ++
  Start 2%nat (OPush 6) :: steps 2 15 ++
  Start 3%nat (OPush 3) :: steps 3 8.
Definition ex_full_back : list action := ex_full ++ steps 1 5.

Lemma kfb_premature_full_refuted :
  In (ERet 3%nat [0]) (tr_of 1 2 ex_full) /\
  (forall n, (committed_stored (st_of 1 2 (firstn n ex_full)) <= 1)%nat) /\
  (1 < (2 - 1) * 1 + 1) /\
  g_hist (st_of 1 2 ex_full_back) 0 = [HIns 2; HBack 2] /\ th (st_of 1 2 ex_full_back) 1%nat = P1 2.
Proof.
  split; [vm_compute; tauto|]. split; [|split; [reflexivity|split; vm_compute; reflexivity]].
  intros n. destruct (Nat.le_gt_cases n (length ex_full)) as [H|H].
  - assert (Hall : forallb (fun m => Nat.leb (committed_stored (st_of 1 2 (firstn m ex_full))) 1) (seq 0 (S (length ex_full))) = true) by (vm_compute; reflexivity).
    rewrite forallb_forall in Hall. apply Nat.leb_le. apply Hall. apply in_seq. lia.
  - rewrite firstn_all2 by lia. vm_compute. lia.
Qed.

(** * Examples: reachable states computed with the executable model *)

(** a push on the empty queue: head == tail, the insertion is neither in the valid region nor
    outside of it, and committed() bumps the tag of head *)
Definition ex_bump : list action := Start 1%nat (OPush 7) :: steps 1 11.
Example ex_bump_state :
  let s := st_of 2 3 ex_bump in
  head s = (0, 1) /\ tail s = (0, 0) /\ slot s 0 = (2, 1) /\ g_in s = [2] /\ g_ok s = [2] /\ th s 1%nat = Idle.
Proof. vm_compute. repeat split. Qed.

(** k = 1, two segments, one thread: push, pop, push, pop -- the second pop advances head and moves
    the tail around the ring *)
Definition ex_wrap : list action :=
  Start 1%nat (OPush 1) :: steps 1 20 ++ Start 1%nat OPop :: steps 1 20 ++
  Start 1%nat (OPush 2) :: steps 1 20 ++ Start 1%nat OPop :: steps 1 20.
Example ex_wrap_state :
  let s := st_of 1 2 ex_wrap in
  head s = (1, 2) /\ tail s = (0, 2) /\ g_in s = [2; 3] /\ g_out s = [2; 3] /\ g_ok s = [2; 3] /\
  g_hist s 0 = [HIns 2; HTake 2] /\ g_hist s 1 = [HIns 3; HTake 3] /\ stored 1 2 s = [].
Proof. vm_compute. repeat split. Qed.

(** a pop takes a value whose pusher is still before committed(): the pop commits it, the pusher
    then sees a different slot word and answers true *)
Definition ex_pending : list action :=
  Start 1%nat (OPush 5) :: steps 1 6 ++ Start 2%nat OPop :: steps 2 7 ++ steps 1 1.
Example ex_pending_state :
  let s := st_of 1 1 ex_pending in
  g_in s = [2] /\ g_out s = [2] /\ g_ok s = [2] /\ slot s 0 = (0, 2) /\ th s 1%nat = Idle /\ th s 2%nat = Idle /\
  In (ERet 2%nat [1; 5]) (tr_of 1 1 ex_pending) /\ In (ERet 1%nat [1]) (tr_of 1 1 ex_pending).
Proof. vm_compute. repeat split; tauto. Qed.

(** the take-back of the premature-'full' schedule, continued to quiescence: T1 advances head over
    the segment it emptied itself, moves the tail around the ring and commits its value there *)
Definition ex_full_done : list action := ex_full_back ++ steps 1 40.
Example ex_full_done_state :
  let s := st_of 1 2 ex_full_done in
  th s 1%nat = Idle /\ head s = (1, 1) /\ tail s = (0, 2) /\ g_in s = [3; 2] /\ g_out s = [] /\ g_ok s = [3; 2] /\
  stored 1 2 s = [2; 3] /\ g_hist s 0 = [HIns 2; HBack 2; HIns 2].
Proof. vm_compute. repeat split. Qed.
