(** vyukov_hash_map bucket model with iterators (Model/VhmItDefs.v): step inversion, lock discipline.
    Generic lemmas come from Proof/VhmBase.v. *)
From Coq Require Import NArith List Bool Lia PeanoNat.
From XV Require Import Base.Word Conc.Lts Conc.Ev gen.BucketStateGen Proof.BucketState Proof.VhmBase Model.VhmItDefs.
Import ListNotations.
Local Open Scope N_scope.

(** the word [bucket.state] holds while a thread that owns the bucket lock is at [p] *)
Definition pc_bst (p : pc) : option N :=
  match p with
  | IK _ _ _ s _ | IV _ _ _ s _ | IUold _ _ _ s _ | ISK _ _ _ s | ISV _ _ _ s | IUnew _ _ _ s | IH _ _ _ s
  | IXK _ _ _ s _ | IXV _ _ _ s _ | IXN _ _ _ s _ | Grow s
  | A1 _ _ _ s _ | A2 _ _ _ s _ | A3 _ _ _ s _ | A4 _ _ _ s _ | A4u _ _ _ s _ | A5 _ _ _ s _ | A6 _ _ _ s _ _ | A7 _ _ _ s _
  | IXSK _ _ _ s _ | IXSV _ _ _ s _ | IXH _ _ _ s _ | IXSN _ _ _ s _ _ | IXSH _ _ _ s _ | IUnew2 _ _ _ s
  | XK _ _ s _ | XV _ _ s _ | XH _ _ s _ _ | XA1 _ _ s _ _ _ | XB1 _ _ s _ _ | XHH _ _ s
  | XXK _ _ s _ _ | XXV _ _ s _ _ | XXN _ _ s _ _ _ | XXP _ _ s _ _ _ _ | XXU _ _ s _ _ | XXM _ _ s _ | XU _ _ s
  | ItIdle (It s _ _ _) | BeginI _ (It s _ _ _) | SK _ _ (It s _ _ _) | SV _ _ (It s _ _ _) _
  | FK _ s _ | FH _ s | FXK _ s _ _ | FXN _ s _ | FU _ s
  | N1 _ (It s _ _ _) | N2 _ (It s _ _ _) | EK (It s _ _ _) | EV (It s _ _ _) _
  | EX1 (It s _ _ _) _ _ | EX2 (It s _ _ _) _ _ _ | EX3 (It s _ _ _) _ _ _ | EA0 (It s _ _ _) _ _ | EA1 (It s _ _ _) _ _ _
  | EB1 (It s _ _ _) _ _ | EB7 (It s _ _ _) _
  | IF1 (It s _ _ _) _ _ _ | IF2 (It s _ _ _) _ _ _ | IF3 (It s _ _ _) _ _ _ | IF4 (It s _ _ _) _ _ _ _ | IF5 (It s _ _ _) _ _ _
  | IF6 (It s _ _ _) _ _ _ | R1 (It s _ _ _) =>
    Some (bs_locked s)
  | MN1 _ _ b s => if b =? 7 then Some (bs_locked s) else None
  | MN2 _ _ b s _ => if b =? 7 then Some (bs_locked s) else None
  | MN3 _ _ b s s1 => if b =? 7 then Some (bs_locked s) else if b + 1 =? 7 then Some (bs_locked s1) else None
  | EA2 (It s i _ _) _ _ _ | EA3 (It s i _ _) _ _ _ _ | EA4 (It s i _ _) _ _ _ _ _ | EA5 (It s i _ _) _ _ _ _ | EA6 (It s i _ _) _ _ _
  | EB2 (It s i _ _) _ _ | EB3 (It s i _ _) _ _ _ | EB4 (It s i _ _) _ _ _ _ | EB5 (It s i _ _) _ _ _ => Some (mark s i)
  | EB6 (It s i _ _) _ _ => Some (if i =? bs_item_count s - 1 then bs_locked s else mark s i)
  | EA7 (It s _ _ _) _ _ _ | EA8 (It s _ _ _) _ _ _ _ | EA9 (It s _ _ _) _ _ _ => Some (bs_new_version (bs_locked s))
  | XA2 _ _ s i _ _ | XA3 _ _ s i _ _ _ | XA4 _ _ s i _ _ _ _ | XA5 _ _ s i _ _ _ | XA6 _ _ s i _ _
  | XB2 _ _ s i _ | XB3 _ _ s i _ _ | XB4 _ _ s i _ _ _ | XB5 _ _ s i _ _ => Some (mark s i)
  | XB6 _ _ s i _ => Some (if i =? bs_item_count s - 1 then bs_locked s else mark s i)
  | XA7 _ _ s _ _ _ | XA8 _ _ s _ _ _ _ | XA9 _ _ s _ _ => Some (bs_new_version (bs_locked s))
  | _ => None
  end.

Definition it_wf (i : itpos) : Prop :=
  match i with It s idx x p => wf_s s /\ idx <= bs_item_count s /\ (x <> 0 -> idx = bs_item_count s) end.
(** the iterator is on an element *)
Definition it_elem (i : itpos) : Prop := match i with It s idx x p => x = 0 -> idx < bs_item_count s end.

(** local facts about the state word [s] a thread has read, and its array index *)
Definition pc_wf (p : pc) : Prop :=
  match p with
  | L3 _ _ _ s => bs_is_locked s = false
  | X3 _ _ s => bs_is_locked s = false /\ bs_item_count s <> 0
  | IK _ _ _ s i | IV _ _ _ s i => wf_s s /\ i < bs_item_count s
  | IUold _ _ _ s _ => wf_s s
  | ISK _ _ _ s | ISV _ _ _ s | IUnew _ _ _ s => wf_s s /\ bs_item_count s < 3
  | IH _ _ _ s | IXK _ _ _ s _ | IXV _ _ _ s _ | IXN _ _ _ s _ | Grow s
  | A1 _ _ _ s _ | A2 _ _ _ s _ | A3 _ _ _ s _ | A4 _ _ _ s _ | A4u _ _ _ s _ | A5 _ _ _ s _ | A6 _ _ _ s _ _ | A7 _ _ _ s _
  | IXSK _ _ _ s _ | IXSV _ _ _ s _ | IXH _ _ _ s _ | IXSN _ _ _ s _ _ | IXSH _ _ _ s _ | IUnew2 _ _ _ s =>
    wf_s s /\ bs_item_count s = 3
  | XK _ _ s i | XV _ _ s i | XH _ _ s i _ | XA1 _ _ s i _ _ | XA2 _ _ s i _ _ | XA3 _ _ s i _ _ _ | XA4 _ _ s i _ _ _ _
  | XA5 _ _ s i _ _ _ | XA6 _ _ s i _ _ | XA7 _ _ s i _ _ | XA8 _ _ s i _ _ _ | XB6 _ _ s i _ =>
    wf_s s /\ i < bs_item_count s
  | XB1 _ _ s i _ | XB2 _ _ s i _ | XB3 _ _ s i _ _ | XB4 _ _ s i _ _ _ | XB5 _ _ s i _ _ =>
    wf_s s /\ i < bs_item_count s /\ i <> bs_item_count s - 1
  | XA9 _ _ s _ _ | XHH _ _ s | XXK _ _ s _ _ | XXV _ _ s _ _ | XXN _ _ s _ _ _ | XXP _ _ s _ _ _ _ | XXU _ _ s _ _
  | XXM _ _ s _ | XU _ _ s => wf_s s /\ bs_item_count s <> 0
  | FL3 _ s => bs_is_locked s = false
  | BL3 s => bs_is_locked s = false /\ s = 0
  | ItIdle i | BeginI _ i | SK _ _ i | SV _ _ i _ | EK i | EV i _ | R1 i => it_wf i /\ it_elem i
  | N1 _ (It s idx x p) => it_wf (It s idx x p) /\ x <> 0
  | N2 _ (It s idx x p) | EB7 (It s idx x p) _ => wf_s s /\ idx = bs_item_count s /\ x = 0
  | FK _ s i => wf_s s /\ i < bs_item_count s
  | FH _ s | FXN _ s _ | FU _ s => wf_s s
  | FXK _ s _ x => wf_s s /\ x <> 0
  | MN1 _ _ b s => (b = 7 -> wf_s s) /\ (b <> 7 -> s = 0)
  | MN2 _ _ b s s1 => (b = 7 -> wf_s s) /\ (b <> 7 -> s = 0) /\ bs_is_locked s1 = false /\ (b + 1 <> 7 -> s1 = 0)
  | MN3 _ _ b s s1 => (b = 7 -> wf_s s) /\ (b <> 7 -> s = 0) /\ (b + 1 = 7 -> wf_s s1) /\ (b + 1 <> 7 -> s1 = 0)
  | EX1 (It s idx x p) _ _ | EX2 (It s idx x p) _ _ _ | EX3 (It s idx x p) _ _ _ => it_wf (It s idx x p) /\ x <> 0
  | EA0 (It s idx x p) _ _ | EA1 (It s idx x p) _ _ _ | EA2 (It s idx x p) _ _ _ | EA3 (It s idx x p) _ _ _ _
  | EA4 (It s idx x p) _ _ _ _ _ | EA5 (It s idx x p) _ _ _ _ | EA6 (It s idx x p) _ _ _ | EA7 (It s idx x p) _ _ _
  | EA8 (It s idx x p) _ _ _ _ | EA9 (It s idx x p) _ _ _ | EB6 (It s idx x p) _ _ =>
    wf_s s /\ idx < bs_item_count s /\ x = 0
  | EB1 (It s idx x p) _ _ | EB2 (It s idx x p) _ _ | EB3 (It s idx x p) _ _ _ | EB4 (It s idx x p) _ _ _ _ | EB5 (It s idx x p) _ _ _ =>
    wf_s s /\ idx < bs_item_count s /\ x = 0 /\ idx <> bs_item_count s - 1
  | IF1 i _ _ mv | IF2 i _ _ mv | IF3 i _ _ mv | IF4 i _ _ mv _ | IF5 i _ _ mv | IF6 i _ _ mv => it_wf i /\ (mv = false -> it_elem i)
  | _ => True
  end.

Definition xlocked_pc (p : pc) : bool :=
  match p with
  | A4 _ _ _ _ _ | A4u _ _ _ _ _ | A5 _ _ _ _ _ | A6 _ _ _ _ _ _ | A7 _ _ _ _ _
  | F3 _ _ _ _ | F4 _ _ _ _ _ | F5 _ _ _ _ | F6 _ _ _ _
  | IF3 _ _ _ _ | IF4 _ _ _ _ _ | IF5 _ _ _ _ | IF6 _ _ _ _ => true
  | _ => false
  end.

(** the locks of the other buckets held during begin() / move_to_next_bucket *)
Definition ob_held (p : pc) (c : N) : bool :=
  match p with
  | MN1 _ _ b _ | MN2 _ _ b _ _ => (b =? c) && negb (b =? 7)
  | MN3 _ _ b _ _ => ((b =? c) && negb (b =? 7)) || ((b + 1 =? c) && negb (b + 1 =? 7))
  | ME _ _ => c =? last_bucket
  | _ => false
  end.

Record Lk (st : state) : Prop := mkLk {
  Lk_lt : bst st < 2 ^ 32;
  Lk_ic : bs_item_count (bst st) <= 3;
  Lk_ver : bs_version (bst st) = g_nver st mod 2 ^ 27;
  Lk_bit : bs_is_locked (bst st) = match g_owner st with Some _ => true | None => false end;
  Lk_mk : g_owner st = None -> bs_delete_marker (bst st) = 0;
  Lk_own : forall t, pc_bst (th st t) <> None -> g_owner st = Some t;
  Lk_pc : forall t, g_owner st = Some t -> pc_bst (th st t) = Some (bst st);
  Lk_wf : forall t, pc_wf (th st t);
  Lk_xbit : xlock st = match g_xowner st with Some _ => 1 | None => 0 end;
  Lk_xown : forall t, xlocked_pc (th st t) = true -> g_xowner st = Some t;
  Lk_xpc : forall t, g_xowner st = Some t -> xlocked_pc (th st t) = true;
  Lk_obit : forall b, obst st b = match g_ob st b with Some _ => 1 | None => 0 end;
  Lk_oown : forall t b, ob_held (th st t) b = true -> g_ob st b = Some t;
  Lk_opc : forall t b, g_ob st b = Some t -> ob_held (th st t) b = true
}.

(** * Step inversion *)
Ltac step_inv H :=
  match type of H with
  | step _ ?st ?a = Some _ =>
    destruct a as [?t ?o | ?t]; cbn [step] in H; unfold g_next_slot in H;
    match type of H with
    | context [th st ?t] => destruct (th st t) eqn:?Epc; try discriminate H
    end;
    repeat match type of H with
    | (if ?c then _ else _) = Some _ => destruct c eqn:?Ec
    | (match ?o with _ => _ end) = Some _ => destruct o
    end;
    repeat match type of H with
    | context [if ?c then _ else _] => destruct c eqn:?Ei
    end;
    inversion H; subst; clear H;
    repeat match goal with i : itpos |- _ => destruct i end
  end.

Ltac st_simpl :=
  cbn [bst bhead akey aval xkey xval xnext xlock xhead th obst g_map g_owner g_xowner g_ob g_nver g_chain g_free g_dup g_limbo
       g_lp g_rv g_obs g_hist
       s_bst s_bhead s_akey s_aval s_xkey s_xval s_xnext s_xlock s_xhead s_th s_obst s_g_map s_g_owner s_g_xowner s_g_ob s_g_nver
       s_g_chain s_g_free s_g_dup s_g_limbo s_g_lp s_g_rv s_g_obs s_g_hist go obs lp ret reti bump] in *.







Ltac st_simpl_goal :=
  cbn [bst bhead akey aval xkey xval xnext xlock xhead th obst g_map g_owner g_xowner g_ob g_nver g_chain g_free g_dup g_limbo
       g_lp g_rv g_obs g_hist
       s_bst s_bhead s_akey s_aval s_xkey s_xval s_xnext s_xlock s_xhead s_th s_obst s_g_map s_g_owner s_g_xowner s_g_ob s_g_nver
       s_g_chain s_g_free s_g_dup s_g_limbo s_g_lp s_g_rv s_g_obs s_g_hist go obs lp ret reti bump].

Ltac rsplit := repeat match goal with |- _ /\ _ => split end.

Lemma wf_nv s : wf_s s -> wf_s (bs_new_version s) /\ bs_item_count (bs_new_version s) = bs_item_count s.
Proof.
  intros Hw. pose proof (wf_W _ Hw) as Hs. pose proof (W_nv _ _ _ _ _ Hs) as (H1 & H2 & H3 & H4 & H5).
  destruct Hw as (_ & _ & _ & Hc). unfold wf_s. rewrite H3. tauto.
Qed.
Lemma wf_dec s : wf_s s -> 0 < bs_item_count s ->
  wf_s (bs_dec_item_count (bs_new_version s)) /\ bs_item_count (bs_dec_item_count (bs_new_version s)) = bs_item_count s - 1.
Proof.
  intros Hw Hp. pose proof (wf_W _ Hw) as Hs. pose proof (W_nv _ _ _ _ _ Hs) as Hv.
  pose proof (W_dec _ _ _ _ _ Hv Hp) as (H1 & H2 & H3 & H4 & H5).
  destruct Hw as (_ & _ & _ & Hc). unfold wf_s. rewrite H3. repeat split; try assumption. lia.
Qed.
Lemma locked_nv s : s < 2 ^ 32 -> bs_locked (bs_new_version s) = bs_new_version (bs_locked s).
Proof.
  intros Hs. pose proof (W_ex _ Hs) as H0.
  pose proof (W_locked _ _ _ _ _ (W_nv _ _ _ _ _ H0)) as H1. pose proof (W_nv _ _ _ _ _ (W_locked _ _ _ _ _ H0)) as H2.
  exact (W_eq _ _ _ _ _ _ H1 H2).
Qed.
Lemma locked_nv_nv s : wf_s s -> bs_locked (bs_new_version (bs_new_version s)) = bs_new_version (bs_new_version (bs_locked s)).
Proof.
  intros Hw. destruct (wf_nv _ Hw) as [Hn _]. rewrite (locked_nv (bs_new_version s)) by apply Hn.
  rewrite (locked_nv s) by apply Hw. reflexivity.
Qed.
Lemma obst_unlocked_0 (w : N) : (w = 0 \/ w = 1) -> bs_is_locked w = false -> w = 0.
Proof. intros [->| ->] H; [reflexivity|]. cbv in H. discriminate. Qed.

Section VhmItBase.
  Variable xoff : N.
  Notation step := (step xoff).


  Ltac ifrw H := repeat match goal with E : ?c = _ |- _ => match type of H with context [if c then _ else _] => rewrite E in H end end.
  Ltac prep HI t Epc :=
    pose proof (Lk_wf _ HI t) as Hwf; rewrite Epc in Hwf; cbn [pc_wf it_wf it_elem] in Hwf;
    try (assert (Hown : g_owner _ = Some t) by
           (apply (Lk_own _ HI); rewrite Epc; cbn [pc_bst];
            repeat match goal with E : ?c = _ |- context [if ?c then _ else _] => rewrite E end; discriminate);
         pose proof (Lk_pc _ HI t Hown) as Hbst; rewrite Epc in Hbst; cbn [pc_bst] in Hbst; ifrw Hbst; injection Hbst as Hbst).

  Lemma Lk_step_word st a st' es : Lk st -> step st a = Some (st', es) ->
    bst st' < 2 ^ 32 /\ bs_item_count (bst st') <= 3 /\ bs_version (bst st') = g_nver st' mod 2 ^ 27 /\
    bs_is_locked (bst st') = match g_owner st' with Some _ => true | None => false end /\
    (g_owner st' = None -> bs_delete_marker (bst st') = 0).
  Proof.
    intros HI H. step_inv H; st_simpl.
    all: try (split; [exact (Lk_lt _ HI)| split; [exact (Lk_ic _ HI)| split; [exact (Lk_ver _ HI) | split; [exact (Lk_bit _ HI) | exact (Lk_mk _ HI)]]]]).
    all: prep HI t Epc.
    all: pose proof (Lk_lt _ HI) as Hlt; pose proof (Lk_ic _ HI) as Hic; pose proof (Lk_ver _ HI) as Hver;
         pose proof (Lk_bit _ HI) as Hbit; pose proof (Lk_mk _ HI) as Hmk.
    all: repeat match goal with E : ?c = _, H : context [if ?c then _ else _] |- _ => rewrite E in H end.
    all: b2p.
    all: repeat match goal with H : _ /\ _ |- _ => destruct H end.
    all: repeat match goal with H : ?P -> _, H' : ?P |- _ => specialize (H H') end.
    all: repeat match goal with H : _ /\ _ |- _ => destruct H end.
    (* lock acquisition: the word read is the current one *)
    all: try (match goal with E : bst _ = ?s |- _ => subst s end;
              assert (Ho : g_owner st = None) by (destruct (g_owner st); [intuition congruence|reflexivity]); specialize (Hmk Ho);
              assert (Hs : W (bst st) false (bs_item_count (bst st)) 0 (bs_version (bst st))) by (unfold W; intuition)).
    all: try (rewrite Hown in *; clear Hmk).
    all: try match goal with Hw : wf_s ?s |- _ => pose proof (wf_W _ Hw) as Hs end.
    all: try Wall.
    all: try (match goal with Hv : W (bs_new_version ?s) false _ 0 _ |- _ => pose proof (W_locked _ _ _ _ _ Hv) end).
    all: try (match goal with Hd : W (bs_dec_item_count (bs_new_version ?s)) false _ 0 _ |- _ => pose proof (W_locked _ _ _ _ _ Hd) end).
    all: unfold wf_s in *; repeat match goal with H : _ /\ _ |- _ => destruct H end.
    all: try match goal with Hi : ?i < bs_item_count ?s |- _ =>
           assert (HWm := W_mark _ _ _ _ (i + 1) HWl ltac:(unfold wf_s in *; lia)) end.
    all: try (unfold mark in Hbst; rewrite <- Hbst in * ).
    all: repeat match goal with H : W _ _ _ _ _ |- _ => destruct H as (? & ? & ? & ? & ?) end.
    all: try rewrite <- mod27_succ.
    all: repeat split; intros; try congruence; try lia.
  Qed.

  Lemma Lk_step_wf st a st' es : Lk st -> step st a = Some (st', es) -> forall t', pc_wf (th st' t').
  Proof.
    intros HI H. step_inv H; st_simpl.
    all: intros t'; match goal with |- pc_wf (upd ?f ?t ?p t') => destruct (upd_cases f t p t') as [[-> E]|[Hne E]]; rewrite E; clear E end.
    all: try exact (Lk_wf _ HI t').
    all: try exact I.
    all: prep HI t Epc.
    all: pose proof (Lk_lt _ HI) as Hlt; pose proof (Lk_ic _ HI) as Hic; pose proof (Lk_bit _ HI) as Hbit; pose proof (Lk_mk _ HI) as Hmk.
    all: b2p; rewrite ?C_bic in *.
    all: cbn [pc_wf it_wf it_elem]; unfold wf_s in *.
    all: try (subst s; assert (Ho : g_owner st = None) by (destruct (g_owner st); [intuition congruence|reflexivity]); specialize (Hmk Ho)).
    all: try (intuition lia).
    all: try (assert (Hob : forall c, obst st c = 0 \/ obst st c = 1) by
               (intros c; rewrite (Lk_obit _ HI c); destruct (g_ob st c); auto)).
    (* words read from the other buckets *)
    all: try solve [split; [assumption | apply obst_unlocked_0; [apply Hob | assumption]]].
    all: try solve [rsplit; try tauto; try assumption; intros; apply obst_unlocked_0; [apply Hob | assumption]].
    (* the lock of this bucket taken by move_to_next_bucket *)
    all: try solve [subst; rsplit; try tauto; intros _;
                    assert (Ho : g_owner st = None) by (destruct (g_owner st); [intuition congruence|reflexivity]); specialize (Hmk Ho); tauto].
    (* positioned on the first slot *)
    all: try solve [destruct (N.eq_dec (b + 1) 7) as [E7|E7];
                    [ destruct Hwf as (_ & _ & Hw1 & _); specialize (Hw1 E7); unfold wf_s in Hw1; rsplit; try tauto; try lia; intros; lia
                    | destruct Hwf as (_ & _ & _ & Hw1); specialize (Hw1 E7); subst s1; exfalso; cbv in Ei; congruence ]].
    (* iterator state after a removal *)
    all: try solve [destruct Hwf as ((Hw & Hi1 & Hi2) & Hx); destruct (wf_nv _ Hw) as [Hn1 Hn2]; unfold wf_s in Hn1; rewrite Hn2;
                    rsplit; try tauto; intros; try lia; [rewrite <- Hi2 by assumption; lia | congruence]].
    all: try solve [destruct Hwf as (Hw & Hi1 & Hx); destruct (wf_nv _ Hw) as [Hn1 Hn2]; destruct (wf_nv _ Hn1) as [Hm1 Hm2];
                    unfold wf_s in Hm1; rewrite Hm2, Hn2; rsplit; try tauto; intros; try lia; congruence].
    (* MN3 from this bucket: the next bucket is empty *)
    all: try solve [exfalso; assert (E7 : b + 1 <> 7) by lia; destruct Hwf as (_ & _ & _ & Hw1); specialize (Hw1 E7); subst s1;
                    match goal with Hz : bs_item_count 0 <> 0 |- _ => apply Hz; reflexivity end].
    (* EX3 *)
    all: try solve [destruct Hwf as ((Hw & Hi1 & Hi2) & Hx); destruct (wf_nv _ Hw) as [Hn1 Hn2]; unfold wf_s in Hn1; rewrite Hn2;
                    rsplit; try tauto; intros; try lia;
                    [rewrite <- Hi2 by assumption; lia | subst nx; match goal with Hq : (0 =? 0) = false |- _ => discriminate Hq end]].
    (* EB6 *)
    all: try solve [destruct Hwf as (Hw & Hi1 & Hx & _); destruct (wf_dec _ Hw ltac:(lia)) as [Hd1 Hd2];
                    unfold wf_s in Hd1; rewrite Hd2 in *; rsplit; try tauto; intros; try lia].
    all: try solve [destruct Hwf as (Hw & Hi1 & Hx); destruct (wf_dec _ Hw ltac:(lia)) as [Hd1 Hd2];
                    unfold wf_s in Hd1; rewrite Hd2 in *; rsplit; try tauto; intros; try lia].
    - destruct (N.eq_dec (b + 1) 7) as [E7|E7].
      + destruct Hwf as (_ & _ & Hw1 & _). specialize (Hw1 E7). rsplit; try tauto; intros; lia.
      + destruct Hwf as (_ & _ & _ & Hw1). specialize (Hw1 E7). subst s1. exfalso. apply Ei0. reflexivity.
    - destruct Hwf as ((Hw & Hi1 & Hi2) & Hx). destruct (wf_nv _ Hw) as [Hn1 Hn2]. unfold wf_s in Hn1. rewrite Hn2.
      rsplit; try tauto. intros E1 E2. subst nx. discriminate E1.
  Qed.

  Ltac split_t' t' :=
    intros t'; match goal with |- context [upd ?f ?t ?p t'] =>
      destruct (upd_cases f t p t') as [[Et E]|[Hne E]]; rewrite E; clear E; [rewrite ?Et in *|] end.

  Lemma Lk_step_own st a st' es : Lk st -> step st a = Some (st', es) ->
    forall t', pc_bst (th st' t') <> None -> g_owner st' = Some t'.
  Proof.
    intros HI H. step_inv H; st_simpl.
    all: split_t' t'.
    all: try exact (Lk_own _ HI t').
    all: cbn [pc_bst]; repeat match goal with E : ?c = _ |- context [if ?c then _ else _] => rewrite E end.
    all: repeat match goal with |- context [if ?c then _ else _] => destruct c eqn:?Eb end.
    all: try match goal with Epc : th _ _ = MN3 _ _ ?b _ _ |- _ =>
           lazymatch goal with E : (b + 1 =? 7) = _ |- _ => idtac | _ => destruct (b + 1 =? 7) eqn:?E7 end end.
    all: try solve [exfalso; b2p; unfold last_bucket in *; lia].
    all: try solve [exfalso; pose proof (Lk_wf _ HI t) as Hwf; rewrite Epc in Hwf; cbn [pc_wf] in Hwf; b2p;
                    destruct Hwf as (_ & _ & _ & Hw1); rewrite Hw1 in * by lia;
                    match goal with Hz : bs_item_count 0 <> 0 |- _ => apply Hz; reflexivity end].
    all: try (intros Hc; exfalso; apply Hc; reflexivity).
    all: try (intros _; reflexivity).
    all: try (intros _; apply (Lk_own _ HI); rewrite Epc; cbn [pc_bst];
              repeat match goal with E : ?c = _ |- context [if ?c then _ else _] => rewrite E end; discriminate).
    all: intros Hc; pose proof (Lk_own _ HI t' Hc) as Ho'.
    all: prep HI t Epc; try congruence.
    all: pose proof (Lk_bit _ HI) as Hbit; rewrite Ho' in Hbit; b2p; subst; try intuition congruence.
  Qed.

  Lemma Lk_step_pc st a st' es : Lk st -> step st a = Some (st', es) ->
    forall t', g_owner st' = Some t' -> pc_bst (th st' t') = Some (bst st').
  Proof.
    intros HI H. step_inv H; st_simpl.
    all: split_t' t'.
    all: try exact (Lk_pc _ HI t').
    all: try discriminate.
    all: try (intros _; reflexivity).
    all: try (intros Ho; injection Ho as Ho; congruence).
    all: try (intros Ho; pose proof (Lk_pc _ HI t Ho) as Hb; rewrite Epc in Hb; cbn [pc_bst] in *; first [discriminate Hb | exact Hb]).
    all: prep HI t Epc.
    all: try (intros Ho; congruence).
    all: intros Ho; try (pose proof (Lk_pc _ HI t Ho) as Hb; rewrite Epc in Hb); cbn [pc_bst] in *; unfold mark in *.
    all: repeat match goal with E : ?c = _ |- _ => match goal with |- context [if c then _ else _] => rewrite E end end.
    all: try (ifrw Hb).
    all: repeat match goal with |- context [if ?c then _ else _] => destruct c eqn:?Eb end.
    all: try (ifrw Hb).
    all: try solve [exfalso; b2p; unfold last_bucket in *; lia].
    all: try congruence.
    all: try (rewrite <- Hbst; b2p; destruct (N.eqb_spec i (bs_item_count s - 1)); first [reflexivity|tauto|lia]).
    all: try (rewrite <- Hbst; b2p; destruct (N.eqb_spec idx (bs_item_count s - 1)); first [reflexivity|tauto|lia]).
    all: try (f_equal; apply locked_nv_nv; tauto).
    all: destruct (b + 1 =? 7) eqn:E7; try congruence; try solve [exfalso; b2p; unfold last_bucket in *; lia].
    all: exfalso; b2p; destruct Hwf as (_ & _ & _ & Hw1); rewrite Hw1 in * by lia;
         match goal with Hz : bs_item_count 0 <> 0 |- _ => apply Hz; reflexivity end.
  Qed.

  Lemma Lk_step_x st a st' es : Lk st -> step st a = Some (st', es) ->
    xlock st' = match g_xowner st' with Some _ => 1 | None => 0 end /\
    (forall t', xlocked_pc (th st' t') = true -> g_xowner st' = Some t') /\
    (forall t', g_xowner st' = Some t' -> xlocked_pc (th st' t') = true).
  Proof.
    intros HI H. step_inv H; st_simpl.
    all: (split; [first [exact (Lk_xbit _ HI) | reflexivity] | split]); split_t' t'.
    all: try exact (Lk_xown _ HI t'); try exact (Lk_xpc _ HI t').
    all: cbn [xlocked_pc]; try discriminate; try (intros _; reflexivity).
    all: try (intros Ho; injection Ho as Ho; congruence).
    all: try (intros _; apply (Lk_xown _ HI); rewrite Epc; reflexivity).
    all: try (intros Ho; pose proof (Lk_xpc _ HI t Ho) as Hb; rewrite Epc in Hb; cbn [xlocked_pc] in Hb; discriminate Hb).
    all: try (intros Hc; pose proof (Lk_xown _ HI t' Hc) as Ho'; pose proof (Lk_xbit _ HI) as Hb; rewrite Ho' in Hb; b2p; congruence).
    all: try (intros Hc; pose proof (Lk_xown _ HI t' Hc) as Ho';
              assert (Hx : g_xowner st = Some t) by (apply (Lk_xown _ HI); rewrite Epc; reflexivity); congruence).
    all: try (intros Ho; assert (Hx : g_xowner st = Some t) by (apply (Lk_xown _ HI); rewrite Epc; reflexivity); congruence).
  Qed.


  Lemma Lk_step_ob st a st' es : Lk st -> step st a = Some (st', es) ->
    (forall c, obst st' c = match g_ob st' c with Some _ => 1 | None => 0 end) /\
    (forall t' c, ob_held (th st' t') c = true -> g_ob st' c = Some t') /\
    (forall t' c, g_ob st' c = Some t' -> ob_held (th st' t') c = true).
  Proof.
    intros HI H. step_inv H; st_simpl.
    all: (split; [|split]).
    all: try exact (Lk_obit _ HI).
    all: try split_t' t'.
    all: try exact (Lk_oown _ HI t'); try exact (Lk_opc _ HI t').
    all: try (intros c; cbn [ob_held]; discriminate).
    all: try (intros c Hg; pose proof (Lk_opc _ HI t c Hg) as Hh; rewrite Epc in Hh; cbn [ob_held] in Hh; discriminate Hh).
    all: intros c.
    all: pose proof (Lk_wf _ HI t) as Hwf; rewrite Epc in Hwf; cbn [pc_wf] in Hwf.
    all: pose proof (Lk_oown _ HI t c) as Hoo; pose proof (Lk_opc _ HI t c) as Hop; rewrite Epc in Hoo, Hop; cbn [ob_held] in Hoo, Hop.
    all: pose proof (Lk_obit _ HI c) as Hbit.
    all: try (pose proof (Lk_oown _ HI t' c) as Hoo'; pose proof (Lk_opc _ HI t' c) as Hop').
    all: try match goal with Hb : N |- _ => pose proof (Lk_obit _ HI (Hb + 1)) as Hbit1 end.
    all: pose proof (Lk_obit _ HI 0) as Hbit0.
    all: cbn [ob_held]; unfold VhmDefs.setf, last_bucket in *.
    all: repeat match goal with |- context [?x =? ?y] => destruct (N.eqb_spec x y) end.
    all: repeat match goal with H : context [?x =? ?y] |- _ => destruct (N.eqb_spec x y) end.
    all: cbn [andb orb negb] in *.
    all: subst; try congruence; try lia; try tauto.
    all: repeat match goal with H : _ /\ _ |- _ => destruct H end.
    all: repeat match goal with H : ?P -> _ |- _ => let HP := fresh in assert (HP : P) by (first [lia | reflexivity | assumption]); specialize (H HP); clear HP end.
    all: try match goal with H : obst _ ?c = 0 |- _ => rewrite H in * end.
    all: try reflexivity.
    all: try (intros Hh; specialize (Hoo' Hh)).
    all: try (intros Hh; rewrite Hh in * ).
    all: try congruence.
    all: try (destruct (g_ob st _); congruence).
    all: exfalso; repeat match goal with H : context [match g_ob ?s ?c with _ => _ end] |- _ => destruct (g_ob s c) eqn:?Eg end; try congruence; try discriminate.
    all: try (subst; match goal with Hz : bs_item_count 0 <> 0 |- _ => apply Hz; reflexivity end).
  Qed.

  Lemma Lk_step st a st' es : Lk st -> step st a = Some (st', es) -> Lk st'.
  Proof.
    intros HI H. destruct (Lk_step_word _ _ _ _ HI H) as (H1 & H2 & H3 & H4 & H5).
    destruct (Lk_step_x _ _ _ _ HI H) as (H6 & H7 & H8).
    destruct (Lk_step_ob _ _ _ _ HI H) as (H9 & H10 & H11).
    constructor; try assumption.
    - exact (Lk_step_own _ _ _ _ HI H).
    - exact (Lk_step_pc _ _ _ _ HI H).
    - exact (Lk_step_wf _ _ _ _ HI H).
  Qed.

  Lemma Lk_init : Lk init.
  Proof.
    constructor; cbn; try (intros; discriminate); try reflexivity; try lia; try (intros; congruence).
  Qed.

  Theorem Lk_reach st : reach init step st -> Lk st.
  Proof. apply inv_rule; [exact Lk_init | intros s a s' es; apply Lk_step]. Qed.

  (** C11, exclusivity: at most one thread is between its lock acquisition and its unlocking store; a thread whose
      iterator is positioned ([ItIdle], also between operations) counts as such *)
  Theorem vhmit_mutex st t t' : reach init step st ->
    pc_bst (th st t) <> None -> pc_bst (th st t') <> None -> t = t'.
  Proof.
    intros Hr H1 H2. pose proof (Lk_reach _ Hr) as HI.
    pose proof (Lk_own _ HI t H1). pose proof (Lk_own _ HI t' H2). congruence.
  Qed.

End VhmItBase.
