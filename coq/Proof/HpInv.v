(** Invariants of the hazard pointer model (Model/HpDefs.v): properties C01 and C02 for
    xenium::reclamation::hazard_pointer<> with the static allocation strategy.
    Layers: Proof/HpBase.v (ownership of the control blocks), Proof/HpGuards.v (guards, hazard pointer slots, free
    list), Proof/HpNodes.v (life cycle of the nodes, where the retired nodes are), this file: the safety argument
    (a validated guard keeps its node alive) and the theorems.  All theorems hold for every reachable state: any
    number of threads, any program, any schedule.  No axioms. *)
From Coq Require Import NArith List Bool Arith Lia PeanoNat.
From XV Require Import Conc.Lts Conc.Ev Model.HpDefs Proof.HpBase Proof.HpGuards Proof.HpNodes.
Import ListNotations.

(** guard [g] of thread [t] protects node [n]: this->ptr = n and the validating re-load has succeeded *)
Definition validated (st : state) (t g n : nat) : Prop :=
  ptr (gd (tl st t) g) = Some n /\ gv (gd (tl st t) g) = true.

(** the scan at program point [p] has seen, or will still read, slot [i] of control block [b] (holding [n]) *)
Definition covered (p : pc) (b i n : nat) : Prop :=
  match p with
  | S5 s r rest => In (Some n) (s_prot s) \/ In b (r :: rest)
  | S6 s r rest i' => In (Some n) (s_prot s) \/ (b = r /\ i' <= i) \/ In b rest
  | S7 s => In (Some n) (s_prot s)
  | _ => True
  end.

Record InvP (st : state) : Prop := mkP {
  p_life : forall t g n, validated st t g n ->
           g_life st n <> LNone /\ (forall u, g_life st n <> LFresh u) /\ g_life st n <> LDropped;
  p_cover : forall t g n b i s, validated st t g n -> rcd (tl st t) = Some b -> hp (gd (tl st t) g) = Some i ->
            In n (rl (tl st s) ++ ad_of (th st s)) -> covered (th st s) b i n;
  p_nf : forall t g n, validated st t g n -> g_where st n <> PFreed;
  p_uaf : g_uaf st = false }.

Definition good (l : life) : Prop := l <> LNone /\ (forall u, l <> LFresh u) /\ l <> LDropped.

(** a retired node is not published *)
Lemma listed_not_pub st s n c : InvN st -> In n (rl (tl st s) ++ ad_of (th st s)) -> g_life st n <> LPub c.
Proof.
  intros HN Hin Hc. assert (Hw : g_where st n = PNone) by (apply (n_none st HN); intros u; congruence).
  apply in_app_iff in Hin. destruct Hin as [H|H]; [apply (n_list st HN) in H|apply (n_flight st HN) in H]; congruence.
Qed.

(** the general preservation lemma: every step except the end of a scan *)
Lemma InvP_gen st st' :
  InvN st -> InvP st ->
  (forall t g n, validated st' t g n ->
     (validated st t g n /\ rcd (tl st' t) = rcd (tl st t) /\ hp (gd (tl st' t) g) = hp (gd (tl st t) g)) \/
     (exists c, g_life st n = LPub c)) ->
  (forall n, good (g_life st n) -> good (g_life st' n)) ->
  (forall n, g_where st n <> PFreed -> g_where st' n <> PFreed) ->
  (g_uaf st = false -> g_uaf st' = false) ->
  (forall s n, In n (rl (tl st' s) ++ ad_of (th st' s)) ->
     (forall b i, covered (th st' s) b i n) \/
     (In n (rl (tl st s) ++ ad_of (th st s)) /\
      forall t g b i, validated st t g n -> rcd (tl st t) = Some b -> hp (gd (tl st t) g) = Some i ->
                      covered (th st s) b i n -> covered (th st' s) b i n)) ->
  InvP st'.
Proof.
  intros HN [I1 I2 I3 I4] Hv Hl Hw Hu Hc.
  assert (Hpub : forall n c, g_life st n = LPub c -> good (g_life st n) /\ g_where st n <> PFreed).
  { intros n c H. split; [rewrite H; repeat split; intros; discriminate|].
    assert (Hn : g_where st n = PNone) by (apply (n_none st HN); intros u; congruence). congruence. }
  constructor.
  - intros t g n H. apply Hl. destruct (Hv t g n H) as [(H1 & _)|[c Hc']]; [apply (I1 t g n H1)|apply (Hpub n c Hc')].
  - intros t g n b i s H Hb Hi Hin. destruct (Hc s n Hin) as [Hcv|[Hin' Htr]]; [apply Hcv|].
    destruct (Hv t g n H) as [(H1 & H2 & H3)|[c Hc']].
    + rewrite H2 in Hb. rewrite H3 in Hi. apply (Htr t g b i H1 Hb Hi). apply (I2 t g n b i s H1 Hb Hi Hin').
    + exfalso. apply (listed_not_pub st s n c HN Hin' Hc').
  - intros t g n H. apply Hw. destruct (Hv t g n H) as [(H1 & _)|[c Hc']]; [apply (I3 t g n H1)|apply (Hpub n c Hc')].
  - apply Hu. exact I4.
Qed.

(** a protected node is alive *)
Lemma valid_alive st t g n : InvN st -> InvP st -> validated st t g n -> dead st n = false.
Proof.
  intros HN HP Hv. unfold dead. rewrite (n_free st HN). unfold gone.
  pose proof (p_nf st HP t g n Hv) as H1. destruct (p_life st HP t g n Hv) as (_ & _ & H2).
  destruct (g_where st n); try contradiction; destruct (g_life st n); try contradiction; reflexivity.
Qed.

Section V.
Variable nslots : nat.

Ltac sim := unfold reset_guard, set_gd; prj; upds; prj.
Ltac simh H := unfold reset_guard, set_gd in H; prjh H; upds_in H; prjh H.

(** [gv] is false only while its guard is being re-acquired *)
Definition in_acq (p : pc) (g : nat) : Prop :=
  match p with Q2 k _ | Q3 k _ | Q4 k _ | QR k => g = guard_of nslots k | _ => False end.
Definition InvV (st : state) : Prop := forall t g, gv (gd (tl st t) g) = false -> in_acq (th st t) g.

Lemma InvV_step st a st' es : InvV st -> step nslots st a = Some (st', es) -> InvV st'.
Proof.
  intros HV Hs. destruct a as [t o|t]; cbn [step] in Hs.
  - destruct (th st t) eqn:Hth; try discriminate Hs. destruct (legal nslots o); [|discriminate Hs].
    injection Hs as <- <-. intros t' g Hg. simh Hg. specialize (HV t' g Hg). sim.
    destruct (Nat.eq_dec t' t) as [->|Hne]; upds; [rewrite Hth in HV; destruct HV|exact HV].
  - destruct (th st t) eqn:Hth; try discriminate Hs.
    all: leaves Hs.
    all: intros t' gq Hg; destruct (Nat.eq_dec t' t) as [->|Hne]; [|dg; simh Hg; sim; apply HV; exact Hg].
    all: dg; simh Hg; sim; cbn [in_acq guard_of].
    all: try (specialize (HV t gq Hg); rewrite Hth in HV; cbn [in_acq guard_of] in HV; first [exact HV | congruence | (destruct HV; fail)]; fail).
    all: try (match type of Hg with context [upd _ ?g _ ?x] =>
           destruct (Nat.eq_dec gq g) as [->|?]; upds_in Hg; prjh Hg; try discriminate Hg; try reflexivity;
           specialize (HV t gq Hg); rewrite Hth in HV; cbn [in_acq guard_of] in HV; first [exact HV | congruence | (destruct HV; fail)] end; fail).
Qed.

Lemma InvV_init ncells : InvV (init ncells).
Proof. intros t g H. cbn in H. discriminate. Qed.
End V.

Section P.
Variable nslots : nat.

Ltac sim := unfold reset_guard, set_gd; prj; upds; prj.
Ltac simh H := unfold reset_guard, set_gd in H; prjh H; upds_in H; prjh H.

(** a dereferenced node is alive: it is held by a guard at rest, or it was just read from a cell *)
Lemma uaf_guard st t g n :
  InvN st -> InvV nslots st -> InvP st -> ptr (gd (tl st t) g) = Some n -> ~ in_acq nslots (th st t) g -> dead st n = false.
Proof.
  intros HN HV HP Hp Hna. apply (valid_alive st t g n HN HP). split; [exact Hp|].
  destruct (gv (gd (tl st t) g)) eqn:E; [reflexivity|]. exfalso. apply Hna. apply HV. exact E.
Qed.

Lemma uaf_pub st c n : InvN st -> cells st c = Some n -> dead st n = false.
Proof.
  intros HN Hc. unfold dead. rewrite (n_free st HN). unfold gone. pose proof (n_cell st HN c n Hc) as Hl.
  assert (Hw : g_where st n = PNone) by (apply (n_none st HN); intros u; congruence). rewrite Hw, Hl. reflexivity.
Qed.

Lemma is_prot_In prot n : In (Some n) prot -> is_prot prot n = true.
Proof.
  intros H. unfold is_prot. apply existsb_exists. exists (Some n). split; [exact H|apply Nat.eqb_refl].
Qed.

(** the end of a scan: the unprotected nodes of the retire list and of the adopted list are freed *)
Lemma InvP_reclaim st st' t s :
  InvG nslots st -> InvN st -> InvP st -> th st t = S7 s ->
  (forall u g, gd (tl st' u) g = gd (tl st u) g) -> (forall u, rcd (tl st' u) = rcd (tl st u)) ->
  (forall n, g_life st' n = g_life st n) ->
  (forall n, g_where st' n = PFreed -> g_where st n = PFreed \/ (In n (rl (tl st t) ++ s_ad s) /\ is_prot (s_prot s) n = false)) ->
  g_uaf st' = g_uaf st -> (forall b i n, covered (th st' t) b i n) ->
  (forall u, u <> t -> rl (tl st' u) = rl (tl st u) /\ th st' u = th st u) ->
  InvP st'.
Proof.
  intros HG HN [I1 I2 I3 I4] Hth Hgd Hr Hl Hw Hu Hcv Ho.
  assert (Hval : forall u g n, validated st' u g n -> validated st u g n).
  { intros u g n [H1 H2]. rewrite Hgd in H1, H2. split; assumption. }
  constructor.
  - intros u g n H. rewrite Hl. apply (I1 u g n (Hval u g n H)).
  - intros u g n b i s0 H Hb Hi Hin. destruct (Nat.eq_dec s0 t) as [->|Hne]; [apply Hcv|].
    destruct (Ho s0 Hne) as [H1 H2]. rewrite H1, H2 in Hin. rewrite H2. rewrite Hr in Hb. rewrite Hgd in Hi.
    apply (I2 u g n b i s0 (Hval u g n H) Hb Hi Hin).
  - intros u g n H Hc. pose proof (Hval u g n H) as Hv. destruct (Hw n Hc) as [Hc'|[Hin Hnp]]; [apply (I3 u g n Hv Hc')|].
    destruct Hv as [Hp Hgv].
    destruct (hp (gd (tl st u) g)) as [i|] eqn:Ei; [|exfalso; apply (g_ptr nslots st u (HG u) g n Hp); exact Ei].
    destruct (rcd (tl st u)) as [b|] eqn:Eb; [|exfalso; apply (g_lt nslots st u (HG u) g i Ei); exact Eb].
    assert (Hcov : covered (th st t) b i n).
    { apply (I2 u g n b i t (conj Hp Hgv) Eb Ei). rewrite Hth. cbn [ad_of]. exact Hin. }
    rewrite Hth in Hcov. cbn [covered] in Hcov. rewrite (is_prot_In _ _ Hcov) in Hnp. discriminate.
  - rewrite Hu. exact I4.
Qed.

(** the scan reads slot [i'] of block [r] *)
Lemma cov_S6 st t g n b i s r rest i' :
  GT nslots st t -> validated st t g n -> rcd (tl st t) = Some b -> hp (gd (tl st t) g) = Some i ->
  covered (S6 s r rest i') b i n ->
  In (Some n) (match hz st r i' with VObj x => s_prot s ++ [x] | VLink _ => s_prot s end) \/ (b = r /\ S i' <= i) \/ In b rest.
Proof.
  intros HG [Hp Hv] Hb Hi Hc. cbn [covered] in Hc. destruct Hc as [Hc|[[-> Hle]|Hc]].
  - left. destruct (hz st r i'); [exact Hc|apply in_app_iff; left; exact Hc].
  - destruct (Nat.eq_dec i' i) as [->|Hne]; [|right; left; split; [reflexivity|lia]].
    left. rewrite (g_val nslots st t HG r g i n Hb Hi Hp Hv). apply in_app_iff. right. left. reflexivity.
  - right. right. exact Hc.
Qed.

(** validated guards of the new state were validated before (same control block, same slot) *)
Ltac vold t :=
  let t' := fresh "t'" in let g' := fresh "g'" in let n' := fresh "n'" in let Hv := fresh "Hv" in
  intros t' g' n' Hv; unfold validated in *; destruct (Nat.eq_dec t' t) as [->|?];
  [ simh Hv; sim;
    try (match type of Hv with context [upd _ ?g _ ?x] =>
           destruct (Nat.eq_dec x g) as [->|?]; [upds_in Hv; prjh Hv; upds; prj|upds_in Hv; upds] end);
    first [ (left; split; [exact Hv|split; reflexivity]) | (destruct Hv; discriminate) | idtac ]
  | simh Hv; sim; left; split; [exact Hv|split; reflexivity] ].

Ltac eqs := repeat (unfold upd; match goal with |- context [Nat.eqb ?a ?b] => destruct (Nat.eqb_spec a b); subst end).
Ltac lifeg := let n := fresh "n" in let Hg := fresh "Hg" in
  intros n Hg; sim; first [exact Hg | (revert Hg; eqs; intros Hg; first [exact Hg | (repeat split; intros; discriminate)])].
Ltac lifeg2 st HN := let n := fresh "n" in let Hg := fresh "Hg" in
  intros n Hg; sim; revert Hg; eqs; intros Hg;
  first [ exact Hg | (repeat split; intros; discriminate)
        | (exfalso; destruct Hg as (Hg1 & Hg2 & Hg3); first [ (apply Hg1; apply (n_lt st HN); lia) | (eapply Hg2; eassumption) ]) ].
Ltac uafg st t HN HV HP Hth := let Hu := fresh "Hu" in
  intros Hu; sim; unfold dead; sim; rewrite Hu; cbn [orb];
  first [ reflexivity
        | (eapply uaf_guard; [exact HN|exact HV|exact HP|eassumption|rewrite Hth; cbn [in_acq guard_of]; first [tauto|congruence|lia]])
        | (eapply uaf_pub; [exact HN|apply oeqb_eq; eassumption]) ].
Ltac whereg := let n := fresh "n" in let Hn := fresh "Hn" in
  intros n Hn; sim;
  first [ exact Hn
        | (revert Hn; eqs; intros Hn; first [exact Hn | discriminate])
        | (match goal with |- context [mem ?x ?l] => destruct (mem x l); [discriminate|exact Hn] end) ].

Ltac cov t Hth :=
  let s := fresh "s" in let n := fresh "n" in let Hin := fresh "Hin" in
  intros s n Hin; destruct (Nat.eq_dec s t) as [->|?];
  [ simh Hin; sim; rewrite ?Hth in *; cbn [ad_of covered s_ad s_prot] in *;
    first [ (left; intros; exact I) | (right; split; [exact Hin|intros; tauto]) | idtac ]
  | simh Hin; sim; right; split; [exact Hin|intros; assumption] ].

(** the scanning thread moves inside the walk: what has to be shown for its own lists *)
Ltac covS t Hth :=
  let s0 := fresh "s0" in let n' := fresh "n'" in let Hin := fresh "Hin" in
  intros s0 n' Hin; destruct (Nat.eq_dec s0 t) as [->|?]; [|simh Hin; sim; right; split; [exact Hin|intros; assumption]];
  simh Hin; sim; rewrite Hth in *; cbn [ad_of s_ad] in *; right; split; [exact Hin|];
  let t0 := fresh "t0" in let g0 := fresh "g0" in let b0 := fresh "b0" in let i0 := fresh "i0" in
  intros t0 g0 b0 i0 Hv0 Hb0 Hi0 Hcov.

Lemma InvP_step st a st' es :
  InvO st -> InvG nslots st -> InvN st -> InvV nslots st -> InvP st -> step nslots st a = Some (st', es) -> InvP st'.
Proof.
  intros HO HG HN HV HP Hs. destruct a as [t o|t]; cbn [step] in Hs.
  - destruct (th st t) eqn:Hth; try discriminate Hs. destruct (legal nslots o); [|discriminate Hs].
    injection Hs as <- <-. apply (InvP_gen st); [exact HN|exact HP|vold t|lifeg|whereg|sim; tauto|cov t Hth].
  - pose proof (HG t) as HGt. pose proof (g_pc nslots st t HGt) as Hpc. pose proof (n_pc st HN t) as Hpn.
    destruct (th st t) eqn:Hth; try discriminate Hs.
    all: leaves Hs.
    all: cbn [pcG pcN ctx_ok guard_of] in Hpc, Hpn.
    all: try (apply (InvP_gen st); [exact HN|exact HP|vold t|lifeg|whereg|sim; tauto|cov t Hth]; fail).
    (* the end of a scan *)
    all: try (match goal with Hth : th _ _ = S7 ?s |- _ =>
      apply (InvP_reclaim st _ t s HG HN HP Hth);
        [ intros u g; sim; destruct (Nat.eq_dec u t) as [->|?]; upds; reflexivity
        | intros u; sim; destruct (Nat.eq_dec u t) as [->|?]; upds; reflexivity
        | intros; sim; reflexivity
        | let nq := fresh "nq" in intros nq; sim;
          match goal with |- context [mem nq ?k] => destruct (mem nq k); [discriminate|] end;
          match goal with |- context [mem nq ?f] => destruct (mem nq f) eqn:Ef; [|intros Hw; left; exact Hw] end;
          intros _; right; apply mem_In, filter_In in Ef; destruct Ef as [Ef1 Ef2]; apply negb_true_iff in Ef2; split; assumption
        | sim; reflexivity
        | intros; sim; cbn [covered]; exact I
        | intros u Hu; sim; upds; split; reflexivity ] end; fail).
    (* the walk of a scan *)
    all: try (match goal with Hth : th _ _ = S4 _ |- _ => idtac | Hth : th _ _ = S5 _ _ _ |- _ => idtac end;
      apply (InvP_gen st); [exact HN|exact HP|vold t|lifeg|whereg|sim; tauto|];
      covS t Hth;
      pose proof (O_rcd st HO t0 b0 Hb0) as (Ho1 & Ho2 & Ho3);
      cbn [covered s_prot In] in *;
      repeat match goal with E : blist _ = _ |- _ => rewrite E in Ho2; cbn [In] in Ho2 end;
      repeat match goal with E : (est _ _ =? 2) = false |- _ => apply Nat.eqb_neq in E end;
      first [ tauto | (intuition (subst; try lia; try congruence)) ]; fail).
    all: try (match goal with Hth : th _ _ = S6 ?s ?r ?rest ?i |- _ =>
      apply (InvP_gen st); [exact HN|exact HP|vold t|lifeg|whereg|sim; tauto|];
      covS t Hth;
      pose proof (cov_S6 st t0 g0 n' b0 i0 s r rest i (HG t0) Hv0 Hb0 Hi0 Hcov) as H6;
      pose proof (g_lt nslots st t0 (HG t0) g0 i0 Hi0) as [Hlt _];
      match goal with E : hz _ r i = _ |- _ => rewrite E in H6 end;
      cbn [covered s_prot In] in *;
      repeat match goal with E : (_ <? 2) = false |- _ => apply Nat.ltb_ge in E end;
      first [ exact H6 | tauto | (intuition (subst; try lia; try congruence)) ] end; fail).
    all: unfold g0 in *; sim; unfold deref_g; prj; upds; prj.
    all: dg; (apply (InvP_gen st); [exact HN|exact HP|try (vold t; fail)|try (lifeg2 st HN; fail)|try (whereg; fail)|try (sim; tauto); try (uafg st t HN HV HP Hth; fail)|try (cov t Hth; fail)]).
    (* the validated guards of the stepping thread, by hand *)
    all: intros tq gq nq Hv; unfold validated in *; destruct (Nat.eq_dec tq t) as [->|?];
      [|simh Hv; sim; left; split; [exact Hv|split; reflexivity]]; simh Hv; sim.
    all: try (exfalso; apply (g_ptr nslots st t HGt gq nq); [apply Hv|first [apply Hpc | (destruct Hpc as [_ Hn]; apply Hn)]]; fail).
    all: match type of Hv with context [upd _ ?g _ ?x] => destruct (Nat.eq_dec gq g) as [->|?]; upds_in Hv; prjh Hv; upds; prj end.
    all: try (left; split; [exact Hv|split; reflexivity]).
    all: try (exfalso; destruct Hv as [Hv1 _]; destruct Hpc as [_ Hpc2]; exact (g_ptr nslots st t HGt _ _ Hv1 Hpc2)).
    all: destruct Hv as [Hv _]; cbn [ptr] in Hv; injection Hv as <-; right; exists c; apply (n_cell st HN); apply oeqb_eq; exact E.
Qed.

Lemma InvP_init ncells : InvP (init ncells).
Proof.
  constructor; unfold validated; cbn; intros; try reflexivity; destruct H; discriminate.
Qed.
End P.

(** * The invariant holds in every reachable state *)
Section Main.
Variables (ncells nslots : nat).

Record Inv (st : state) : Prop := mkInv {
  inv_O : InvO st; inv_G : InvG nslots st; inv_N : InvN st; inv_V : InvV nslots st; inv_P : InvP st }.

Theorem hp_inv st : reach (init ncells) (step nslots) st -> Inv st.
Proof.
  apply inv_rule.
  - constructor; [apply InvO_init|apply InvG_init|apply InvN_init|apply InvV_init|apply InvP_init].
  - intros s a s' es [HO HG HN HV HP] Hs. constructor.
    + apply (InvO_step nslots s a s' es HO Hs).
    + apply (InvG_step nslots s a s' es HO HG Hs).
    + apply (InvN_step nslots s a s' es HG HN Hs).
    + apply (InvV_step nslots s a s' es HV Hs).
    + apply (InvP_step nslots s a s' es HO HG HN HV HP Hs).
Qed.

(** * C01: no object is destroyed while a guard_ptr protects it.
    For every reachable state (any number of threads, any programs of the client operations, any schedule):
    a node held by a validated guard (the guard's this->ptr after the validating re-load of acquire succeeded,
    until the guard is reset or re-acquired) has not been freed, it sits in the hazard pointer slot of the guard,
    and no dereference ever hit a destroyed node ([g_uaf] records every dereference the client makes: read, hold,
    deref and the [g->id] of repl/clear). *)
Theorem hp_safe st :
  reach (init ncells) (step nslots) st ->
  (forall t g n, validated st t g n ->
     g_nfree st n = 0 /\ g_where st n <> PFreed /\
     exists b i, rcd (tl st t) = Some b /\ hp (gd (tl st t) g) = Some i /\ hz st b i = VObj (Some n))
  /\ g_uaf st = false.
Proof.
  intros Hr. destruct (hp_inv st Hr) as [HO HG HN HV HP]. split; [|apply (p_uaf st HP)].
  intros t g n Hv. split.
  - pose proof (valid_alive st t g n HN HP Hv) as Hd. unfold dead in Hd. apply negb_false_iff, Nat.eqb_eq in Hd. exact Hd.
  - split; [apply (p_nf st HP t g n Hv)|]. destruct Hv as [Hp Hgv].
    destruct (hp (gd (tl st t) g)) as [i|] eqn:Ei; [|exfalso; apply (g_ptr nslots st t (HG t) g n Hp); exact Ei].
    destruct (rcd (tl st t)) as [b|] eqn:Eb; [|exfalso; apply (g_lt nslots st t (HG t) g i Ei); exact Eb].
    exists b, i. split; [reflexivity|]. split; [reflexivity|]. apply (g_val nslots st t (HG t) b g i n Eb Ei Hp Hgv).
Qed.

(** * C02: a retired node is in exactly one place, and it is freed at most once and only after it was retired *)
Definition retired (st : state) (n : nat) : Prop := exists u, g_life st n = LRet u.

(** node [n] is at place [p] *)
Definition at_place (st : state) (n : nat) (p : place) : Prop :=
  match p with
  | PList t => In n (rl (tl st t))               (* the retire list of thread t *)
  | PAband => In n (aband st)                    (* abandoned_retired_nodes *)
  | PFlight t => In n (ad_of (th st t))          (* adopted by the scan thread t is running *)
  | PFreed => g_nfree st n = 1                   (* destroyed *)
  | PNone => False
  end.

Theorem hp_exactly_once st :
  reach (init ncells) (step nslots) st ->
  forall n,
    g_nfree st n <= 1 /\
    (g_nfree st n = 1 -> retired st n \/ g_life st n = LDropped) /\
    (g_life st n = LDropped -> ~ retired st n /\ forall p, ~ at_place st n p \/ p = PFreed) /\
    (retired st n -> at_place st n (g_where st n) /\ forall p, at_place st n p -> p = g_where st n) /\
    (forall t, NoDup (rl (tl st t))) /\ NoDup (aband st) /\ (forall t, NoDup (ad_of (th st t))).
Proof.
  intros Hr n. destruct (hp_inv st Hr) as [HO HG HN HV HP].
  pose proof (n_free st HN n) as Hf. unfold gone in Hf.
  assert (Hnone : ~ retired st n -> g_where st n = PNone).
  { intros H. apply (n_none st HN). intros u Hu. apply H. exists u. exact Hu. }
  assert (Hat : forall p, p <> PFreed -> at_place st n p -> g_where st n = p).
  { intros [|t| |t|] Hp H; cbn [at_place] in H; try contradiction.
    - apply (n_list st HN). exact H.
    - apply (n_aband st HN). exact H.
    - apply (n_flight st HN). exact H. }
  split; [destruct (g_where st n), (g_life st n); lia|].
  split.
  { intros H1. destruct (g_life st n) eqn:El; try (right; reflexivity); try (left; exists t; exact El);
      exfalso; (assert (Hw : g_where st n = PNone) by (apply Hnone; intros [u Hu]; rewrite El in Hu; discriminate Hu)); rewrite Hw in Hf; lia. }
  split.
  { intros Hd. split; [intros [u Hu]; congruence|]. intros p. destruct p; try (right; reflexivity); left; intros H;
      (assert (Hw : g_where st n = PNone) by (apply Hnone; intros [u Hu]; congruence));
      try (apply Hat in H; [congruence|discriminate]). exact H. }
  split.
  { intros [u Hu]. assert (Hw : g_where st n <> PNone) by (intros Hc; apply (proj1 (n_none st HN n) Hc u); exact Hu).
    split.
    - destruct (g_where st n) eqn:Ew; cbn [at_place]; try congruence.
      + apply (n_list st HN). exact Ew.
      + apply (n_aband st HN). exact Ew.
      + apply (n_flight st HN). exact Ew.
    - intros p H. destruct p; cbn [at_place] in H; try contradiction;
        try (symmetry; apply Hat; [discriminate|exact H]).
      rewrite Hu in Hf. destruct (g_where st n); try reflexivity; lia. }
  split; [apply (n_list_nd st HN)|]. split; [apply (n_aband_nd st HN)|apply (n_flight_nd st HN)].
Qed.
End Main.

(** * Examples (cells = 2, slots = 3; heap blocks: 0, 1 the initial nodes, 2 the control block of thread 1, 3 the control
      block of thread 2, 4 the node thread 2 installs, ...) *)
Definition ops (t : nat) (o : op) (k : nat) : list action := Start t o :: repeat (Step t) k.
Definition final (acts : list action) : state := fst (fst (run (step 3) (init 2) acts)).

Lemma final_reach acts : reach (init 2) (step 3) (final acts).
Proof. apply run_reach. Qed.

(** thread 1 holds node 0 in its guard 0; thread 2 replaces the node in cell 0, retires node 0 and is inside its scan
    (about to read the state of control block 2, the one of thread 1) *)
Definition ex_a1 := ops 1 (OHold 0 0) 40 ++ Start 2 (ORepl 0) :: repeat (Step 2) 26.
Example ex_scan_running :
  let st := final ex_a1 in
  validated st 1 0 0 /\ th st 1 = Idle /\ rl (tl st 2) = [0] /\ cells st 0 = Some 4 /\
  th st 2 = S5 (mkScan SRepl 6 (Some 5) [] []) 2 [].
Proof. vm_compute. repeat split; reflexivity. Qed.

(** the scan ends while the guard still protects node 0: the node survives in the retire list of thread 2,
    thread 1 dereferences it *)
Definition ex_a2 := ex_a1 ++ ops 1 (ODeref 0) 1 ++ repeat (Step 2) 40.
Example ex_node_survives :
  let st := final ex_a2 in
  validated st 1 0 0 /\ th st 1 = Idle /\ th st 2 = Idle /\
  g_nfree st 0 = 0 /\ g_where st 0 = PList 2 /\ rl (tl st 2) = [0] /\ g_uaf st = false.
Proof. vm_compute. repeat split; reflexivity. Qed.

(** hp_safe applies to this state: the node in the guard is alive and sits in slot 0 of control block 2 *)
Example ex_safe_instance :
  g_nfree (final ex_a2) 0 = 0 /\ hz (final ex_a2) 2 0 = VObj (Some 0).
Proof.
  destruct (hp_safe 2 3 (final ex_a2) (final_reach ex_a2)) as [H _].
  assert (Hv : validated (final ex_a2) 1 0 0) by (vm_compute; split; reflexivity).
  destruct (H 1 0 0 Hv) as (H1 & _ & b & i & Hb & Hi & Hz). split; [exact H1|].
  vm_compute in Hb, Hi. injection Hb as <-. injection Hi as <-. exact Hz.
Qed.

(** after the drop the next scan of thread 2 frees node 0 (and node 4, which it retires now): each exactly once *)
Definition ex_a3 := ex_a2 ++ ops 1 (ODrop 0) 40 ++ ops 2 (ORepl 0) 40.
Example ex_freed_after_drop :
  let st := final ex_a3 in
  th st 1 = Idle /\ th st 2 = Idle /\ ptr (gd (tl st 1) 0) = None /\
  g_nfree st 0 = 1 /\ g_where st 0 = PFreed /\ g_nfree st 4 = 1 /\ rl (tl st 2) = [] /\ g_uaf st = false.
Proof. vm_compute. repeat split; reflexivity. Qed.

(** thread exit: thread 2 exits while node 0 (in its retire list) is still protected by thread 1: the node is handed
    over to abandoned_retired_nodes and the control block 3 is released *)
Definition ex_b1 := ops 1 (OHold 0 0) 40 ++ ops 2 (ORepl 0) 40 ++ ops 2 OExit 40.
Example ex_abandoned :
  let st := final ex_b1 in
  th st 2 = Done /\ g_where st 0 = PAband /\ aband st = [0] /\ rl (tl st 2) = [] /\ est st 3 = 0 /\ g_nfree st 0 = 0.
Proof. vm_compute. repeat split; reflexivity. Qed.

(** thread 3 adopts control block 3, retires node 1 and adopts the abandoned node 0 in its scan (in flight) ... *)
Definition ex_b2 := ex_b1 ++ Start 3 (ORepl 1) :: repeat (Step 3) 20.
Example ex_adopted :
  let st := final ex_b2 in
  rcd (tl st 3) = Some 3 /\ g_where st 0 = PFlight 3 /\ aband st = [] /\ ad_of (th st 3) = [0] /\ rl (tl st 3) = [1].
Proof. vm_compute. repeat split; reflexivity. Qed.

(** ... node 0 is still protected by thread 1: it moves to the retire list of thread 3; node 1 is freed *)
Definition ex_b3 := ex_b2 ++ repeat (Step 3) 40.
Example ex_adopted_kept :
  let st := final ex_b3 in
  th st 3 = Idle /\ g_where st 0 = PList 3 /\ rl (tl st 3) = [0] /\ g_nfree st 0 = 0 /\ g_where st 1 = PFreed /\ g_nfree st 1 = 1.
Proof. vm_compute. repeat split; reflexivity. Qed.

(** after the drop the next scan of thread 3 destroys node 0: exactly once, by another thread than the retiring one *)
Definition ex_b4 := ex_b3 ++ ops 1 (ODrop 0) 40 ++ ops 3 (ORepl 1) 40.
Example ex_handed_over_freed :
  let st := final ex_b4 in
  th st 3 = Idle /\ g_where st 0 = PFreed /\ g_nfree st 0 = 1 /\ g_life st 0 = LRet 2 /\ rl (tl st 3) = [] /\ g_uaf st = false.
Proof. vm_compute. repeat split; reflexivity. Qed.
