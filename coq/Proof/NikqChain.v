(** nikolaev_queue model, node chain layer: the list of linked nodes [q_nodes] (never reordered, only extended by the
    link CAS), next pointers = consecutive elements, retired nodes = the prefix before the head (each node retired at
    most once), tail is a linked node, a non-null next is final and implies that the node's allocated ring is
    finalized; nodes under construction / being destroyed are private to one thread, not linked, and a node under
    construction is exactly [used_init v] until the link CAS. *)
From Coq Require Import NArith List Bool Lia PeanoNat.
From XV Require Import Base.Word Conc.Lts Conc.Ev gen.ScqGen Model.NikbDefs Model.NikqDefs.
From XV Require Import Proof.NikbArith Proof.NikbBase Proof.NikqBase.
Import ListNotations.
Local Open Scope N_scope.

(** consecutive elements are linked, the last element has no successor *)
Fixpoint linked (nx : N -> N) (l : list N) : Prop :=
  match l with
  | [] => True
  | a :: r => match r with [] => nx a = 0 | b :: _ => nx a = b /\ linked nx r end
  end.

Lemma linked_mid nx l1 a b l2 : linked nx (l1 ++ a :: b :: l2) -> nx a = b.
Proof.
  induction l1 as [|c l1 IH]; cbn [app linked]; [tauto|].
  destruct (l1 ++ a :: b :: l2) eqn:E; [destruct l1; discriminate|]. intros [_ H]. apply IH. exact H.
Qed.

Lemma linked_last nx l a : linked nx (l ++ [a]) -> nx a = 0.
Proof.
  induction l as [|c l IH]; cbn [app linked]; [tauto|].
  destruct (l ++ [a]) eqn:E; [destruct l; discriminate|]. intros [_ H]. apply IH. exact H.
Qed.

Lemma linked_ext nx nx' l : (forall a, In a l -> nx' a = nx a) -> linked nx l -> linked nx' l.
Proof.
  induction l as [|a r IH]; [auto|]. intros He. cbn [linked]. destruct r as [|b r'].
  - rewrite He by (left; reflexivity). auto.
  - intros [H1 H2]. split; [rewrite He by (left; reflexivity); exact H1|].
    apply IH; [intros c Hc; apply He; right; exact Hc|exact H2].
Qed.

Lemma linked_snoc nx l a m : NoDup (l ++ [a]) -> ~ In m (l ++ [a]) -> nx m = 0 -> linked nx (l ++ [a]) ->
  linked (setf nx a m) ((l ++ [a]) ++ [m]).
Proof.
  intros Hnd Hm Hz. revert Hnd Hm. induction l as [|c l IH]; intros Hnd Hm Hl.
  - cbn [app linked] in *. split; [apply setf_same|]. rewrite setf_other; [exact Hz|]. intros ->. apply Hm. left. reflexivity.
  - cbn [app] in *. inversion Hnd as [|x y Hx Hy]; subst.
    assert (IH' := IH Hy (fun Hi => Hm (or_intror Hi))).
    destruct (l ++ [a]) as [|b r] eqn:E; [destruct l; discriminate|].
    cbn [linked] in Hl. destruct Hl as [H1 H2]. specialize (IH' H2).
    cbn [app linked] in *. split; [|exact IH'].
    rewrite setf_other; [exact H1|]. intros ->. apply Hx. rewrite <- E. apply in_or_app. right. left. reflexivity.
Qed.

(** the successor of an element with a non-null next *)
Lemma linked_succ nx l a : linked nx l -> In a l -> nx a <> 0 -> exists l1 l2, l = l1 ++ a :: nx a :: l2.
Proof.
  induction l as [|c r IH]; [intros _ []|]. cbn [linked]. destruct r as [|b r'].
  - intros H [->|[]] Hn. contradiction.
  - intros [H1 H2] [->|Hi] Hn.
    + exists [], r'. rewrite H1. reflexivity.
    + destruct (IH H2 Hi Hn) as (l1 & l2 & E). exists (c :: l1), l2. rewrite E. reflexivity.
Qed.

Lemma nodup_snoc (l : list N) m : NoDup l -> ~ In m l -> NoDup (l ++ [m]).
Proof.
  induction l as [|a l IH]; cbn [app]; intros Hnd Hni; [constructor; [intros []|constructor]|].
  inversion Hnd; subst. constructor.
  - intros Hi. apply in_app_or in Hi. destruct Hi as [Hi|[->|[]]]; [contradiction|apply Hni; left; reflexivity].
  - apply IH; [assumption|intros Hi; apply Hni; right; exact Hi].
Qed.

Definition refs (p : opc) : list N :=
  match p with
  | P2 _ n | P2a _ n | PIn _ n | PRe _ n | PFin _ n | PCa _ n _ _ | PCf _ n _ _ | PLink _ n _ => [n]
  | P2b _ n nx => [n; nx]
  | PSw _ n m => [n; m]
  | QIn1 n _ | Q2 n | Q3 n | QIn2 n _ | Q4 n => [n]
  | Q5 n nx => [n; nx]
  | _ => []
  end.
Definition priv (p : opc) : option N :=
  match p with
  | PCa _ _ m _ | PCf _ _ m _ | PLink _ _ m | PSt _ m _ | PDel _ m _ => Some m
  | _ => None
  end.

Section Chain.
  Variable cap R : N.
  Notation qstep := (qstep cap R).

  (** program points that have seen a non-null next / carry the next they have read *)
  Definition T5 (s : qstate) (p : opc) : Prop :=
    match p with
    | P2a _ n | Q3 n | QIn2 n _ | Q4 n => nxt s n <> 0
    | P2b _ n nx | Q5 n nx => nxt s n = nx /\ nx <> 0
    | PCa v n m _ | PCf v n m _ | PLink v n m => nd s m = used_init cap v /\ fin s n = true /\ fin s m = false
    | PRe _ n => fin s n = true
    | _ => True
    end.

  Record CI (s : qstate) : Prop := mkCI {
    c_nd : NoDup (q_nodes s);
    c_lt : forall n, In n (q_nodes s) -> 0 < n < nalloc s;
    c_split : exists rest, q_nodes s = q_retired s ++ qhead s :: rest;
    c_tail : In (qtail s) (q_nodes s);
    c_link : linked (nxt s) (q_nodes s);
    c_nx : forall n, nxt s n <> 0 -> In n (q_nodes s) /\ fin s n = true;
    c_refs : forall t n, In n (refs (oth s t)) -> In n (q_nodes s);
    c_priv : forall t m, priv (oth s t) = Some m ->
               ~ In m (q_nodes s) /\ 0 < m < nalloc s /\ nxt s m = 0 /\ forall u, priv (oth s u) = Some m -> u = t;
    c_fresh : forall m, nalloc s <= m -> fin s m = false /\ nd s m = init cap;
    c_t5 : forall t, T5 s (oth s t) }.

  Lemma CI_init : CI (qinit cap).
  Proof.
    constructor; cbn [qinit q_nodes q_retired qhead qtail nxt nalloc oth refs priv fin nd].
    - constructor; [intros []|constructor].
    - intros n [<-|[]]. lia.
    - exists []. reflexivity.
    - left. reflexivity.
    - reflexivity.
    - intros n H. contradiction.
    - intros t n [].
    - intros t m H. discriminate.
    - split; reflexivity.
    - intros t. exact I.
  Qed.

  Definition same_chain (s s' : qstate) : Prop :=
    qhead s' = qhead s /\ qtail s' = qtail s /\ nxt s' = nxt s /\ fin s' = fin s /\ q_nodes s' = q_nodes s /\ q_retired s' = q_retired s.

  Lemma same_chain_refl s : same_chain s s.
  Proof. repeat split. Qed.
  Ltac sc := unfold same_chain; qsimg; repeat split.

  Lemma CI_frame s s' t p :
    CI s ->
    qhead s' = qhead s -> nxt s' = nxt s -> q_nodes s' = q_nodes s -> q_retired s' = q_retired s ->
    In (qtail s') (q_nodes s) ->
    (forall x, fin s' x = fin s x \/ (fin s' x = true /\ In x (q_nodes s))) ->
    nalloc s <= nalloc s' ->
    (forall u, u <> t -> oth s' u = oth s u) -> oth s' t = p ->
    (forall m, nd s' m = nd s m \/ In m (q_nodes s) \/ priv (oth s t) = Some m \/ (m = nalloc s /\ nalloc s < nalloc s')) ->
    (forall n, In n (refs p) -> In n (q_nodes s)) ->
    (forall m, priv p = Some m -> ~ In m (q_nodes s) /\ 0 < m < nalloc s' /\ nxt s m = 0 /\ forall u, u <> t -> priv (oth s u) <> Some m) ->
    T5 s' p -> CI s'.
  Proof.
    intros [a1 a2 a3 a4 a5 a6 a7 a8 af a9] E1 E3 E5 E6 Htl Hfin Hna Ho Hp Hnd0 Hr Hv H5.
    assert (Hnd : forall m u, u <> t -> priv (oth s u) = Some m -> nd s' m = nd s m).
    { intros m u Hne Hx. destruct (a8 u m Hx) as (V1 & V2 & V3 & V4). destruct (Hnd0 m) as [E|[E|[E|[E _]]]]; [exact E| | |lia].
      - exfalso. apply V1. exact E.
      - exfalso. apply Hne. symmetry. apply V4. exact E. }
    assert (Hfr : forall m, nalloc s' <= m -> nd s' m = nd s m).
    { intros m Hm. destruct (Hnd0 m) as [E|[E|[E|[E E']]]]; [exact E| | |lia].
      - pose proof (a2 m E). lia.
      - destruct (a8 t m E) as (_ & V2 & _). lia. }
    assert (Hfm : forall x, fin s x = true -> fin s' x = true) by (intros x Hx; destruct (Hfin x) as [->|[-> _]]; [exact Hx|reflexivity]).
    assert (Hfp : forall x, ~ In x (q_nodes s) -> fin s' x = fin s x) by (intros x Hx; destruct (Hfin x) as [->|[_ Hi]]; [reflexivity|contradiction]).
    constructor; rewrite ?E1, ?E3, ?E5, ?E6; try assumption.
    - intros n Hn. specialize (a2 n Hn). lia.
    - intros n Hn. destruct (a6 n Hn) as [A B]. split; [exact A|apply Hfm; exact B].
    - intros u n. destruct (Nat.eq_dec u t) as [->|Hne]; [rewrite Hp; apply Hr|rewrite (Ho u Hne); apply a7].
    - intros u m. destruct (Nat.eq_dec u t) as [->|Hne].
      + rewrite Hp. intros Hx. destruct (Hv m Hx) as (V1 & V2 & V3 & V4). ssplit; try assumption; try lia.
        intros w. destruct (Nat.eq_dec w t) as [->|Hnw]; [reflexivity|]. rewrite (Ho w Hnw). intros Hy. exfalso. apply (V4 w Hnw Hy).
      + rewrite (Ho u Hne). intros Hx. destruct (a8 u m Hx) as (V1 & V2 & V3 & V4). ssplit; try assumption; try lia.
        intros w. destruct (Nat.eq_dec w t) as [->|Hnw]; [|rewrite (Ho w Hnw); apply V4].
        rewrite Hp. intros Hy. exfalso. destruct (Hv m Hy) as (_ & _ & _ & W). apply (W u Hne Hx).
    - intros m Hm. rewrite (Hfr m Hm). rewrite Hfp; [apply af; lia|]. intros Hi. specialize (a2 m Hi). lia.
    - intros u. destruct (Nat.eq_dec u t) as [->|Hne]; [rewrite Hp; exact H5|]. rewrite (Ho u Hne).
      specialize (a9 u). destruct (oth s u) eqn:Eu; cbn [T5] in *; rewrite ?E3; try exact a9.
      + apply Hfm. exact a9.
      + destruct a9 as (A & B & C). destruct (a8 u m ltac:(rewrite Eu; reflexivity)) as (V1 & _).
        rewrite (Hnd _ u Hne) by (rewrite Eu; reflexivity). ssplit; [exact A|apply Hfm; exact B|rewrite (Hfp _ V1); exact C].
      + destruct a9 as (A & B & C). destruct (a8 u m ltac:(rewrite Eu; reflexivity)) as (V1 & _).
        rewrite (Hnd _ u Hne) by (rewrite Eu; reflexivity). ssplit; [exact A|apply Hfm; exact B|rewrite (Hfp _ V1); exact C].
      + destruct a9 as (A & B & C). destruct (a8 u m ltac:(rewrite Eu; reflexivity)) as (V1 & _).
        rewrite (Hnd _ u Hne) by (rewrite Eu; reflexivity). ssplit; [exact A|apply Hfm; exact B|rewrite (Hfp _ V1); exact C].
  Qed.

  (** the phases leave the chain fields alone *)
  Lemma same_chain_pub st s1 t n sg : same_chain st s1 -> same_chain st (pub_ghost cap st s1 t n sg).
  Proof. intros H. unfold pub_ghost. destruct (th sg t); try exact H. destruct q; try exact H. destruct (_ =? _); exact H. Qed.
  Lemma same_chain_take st s1 t n sg : same_chain st s1 -> same_chain st (take_ghost cap st s1 t n sg).
  Proof. intros H. unfold take_ghost. destruct (th sg t); try exact H. destruct q; exact H. Qed.
  Lemma nalloc_pub st s1 t n sg : nalloc (pub_ghost cap st s1 t n sg) = nalloc s1.
  Proof. unfold pub_ghost. destruct (th sg t); try reflexivity. destruct q; try reflexivity. destruct (_ =? _); reflexivity. Qed.
  Lemma nalloc_take st s1 t n sg : nalloc (take_ghost cap st s1 t n sg) = nalloc s1.
  Proof. unfold take_ghost. destruct (th sg t); try reflexivity. destruct q; reflexivity. Qed.

  Lemma push_in_ch st t v n s' es : push_in cap R st t v n = Some (s', es) ->
    same_chain st s' /\ nalloc s' = nalloc st /\
    exists sg' p, nd s' = setf (nd st) n sg' /\ oth s' = upd (oth st) t p /\
                  (p = PIn v n \/ p = PRe v n \/ p = OIdle \/ p = PFin v n).
  Proof.
    unfold push_in. intros H.
    destruct (th (nd st n) t) as [|o|q x|q x|q x hd att|q x hd e|q x hd att e|q x hd att e enew|q x hd|q x|q x tl hd|q x tl|q x
                          |q x idx gk|q x idx gk tl|q x idx gk tl e|q x idx gk tl e|q x idx gk|q x idx gk] eqn:Ep.
    14: destruct q; [destruct (fin st n);
          [destruct (fin_enq cap R (nd st n) t x idx gk) as [[sg' es0]|] eqn:Ef; [|discriminate]
          |destruct (NikbDefs.step cap R (nd st n) (Step t)) as [[sg' es0]|] eqn:Es; [|discriminate]];
           inversion H; subst; clear H; qsim; (ssplit; [sc|reflexivity|]); exists sg'; eexists; ssplit; try reflexivity; tauto|].
    all: destruct (NikbDefs.step cap R (nd st n) (Step t)) as [[sg' es0]|] eqn:Es; [|discriminate].
    all: cbv zeta in H.
    all: assert (Hn := nd_pub_ghost cap st (w_nd st n sg') t n (nd st n)); assert (Ho := oth_pub_ghost cap st (w_nd st n sg') t n (nd st n)).
    all: assert (Hc := same_chain_pub st (w_nd st n sg') t n (nd st n) ltac:(sc)); assert (Ha := nalloc_pub st (w_nd st n sg') t n (nd st n)).
    all: revert Hn Ho Hc Ha H; generalize (pub_ghost cap st (w_nd st n sg') t n (nd st n)); intros s1 Hn Ho Hc Ha H; qsim.
    all: destruct (th sg' t) eqn:Et.
    all: try (inversion H; subst; clear H; qsim; (ssplit; [exact Hc|exact Ha|]); exists sg'; eexists; (ssplit; [exact Hn|rewrite Ho; reflexivity|tauto])).
    all: break H; inversion H; subst; clear H; qsim; (ssplit; [exact Hc|exact Ha|]); exists sg'; eexists; (ssplit; [exact Hn|rewrite Ho; reflexivity|tauto]).
  Qed.

  Lemma push_in_re_fin st t v n s' es : push_in cap R st t v n = Some (s', es) -> oth s' t = PRe v n -> fin st n = true.
  Proof.
    unfold push_in. intros H Hp.
    destruct (th (nd st n) t) as [|o|q x|q x|q x hd att|q x hd e|q x hd att e|q x hd att e enew|q x hd|q x|q x tl hd|q x tl|q x
                          |q x idx gk|q x idx gk tl|q x idx gk tl e|q x idx gk tl e|q x idx gk|q x idx gk] eqn:Ep.
    14: destruct q; [destruct (fin st n) eqn:Ef; [reflexivity|];
           destruct (NikbDefs.step cap R (nd st n) (Step t)) as [[sg' es0]|] eqn:Es; [|discriminate];
           inversion H; subst; clear H; qsim; rewrite upd_same in Hp; discriminate|].
    all: destruct (NikbDefs.step cap R (nd st n) (Step t)) as [[sg' es0]|] eqn:Es; [|discriminate].
    all: cbv zeta in H.
    all: assert (Ho := oth_pub_ghost cap st (w_nd st n sg') t n (nd st n)).
    all: revert Ho H; generalize (pub_ghost cap st (w_nd st n sg') t n (nd st n)); intros s1 Ho H; qsim.
    all: destruct (th sg' t) eqn:Et.
    all: try (inversion H; subst; clear H; qsim; rewrite upd_same in Hp; discriminate).
    all: break H; inversion H; subst; clear H; qsim; rewrite upd_same in Hp; discriminate.
  Qed.

  Lemma new_node_ch s t v n e s' es : new_node cap s t v n e = Some (s', es) ->
    same_chain s s' /\ nalloc s' = nalloc s + 3 /\ nd s' = setf (nd s) (nalloc s) (used_init cap v) /\ oth s' = upd (oth s) t (PCa v n (nalloc s) 0).
  Proof. unfold new_node. intros H; inversion H; subst; clear H. qsim. ssplit; try reflexivity. sc. Qed.

  Lemma push_re_ch st t v n s' es : push_re cap R st t v n = Some (s', es) ->
    same_chain st s' /\
    exists sg', (nalloc s' = nalloc st /\ nd s' = setf (nd st) n sg' /\ oth s' = upd (oth st) t (PRe v n)) \/
                (nalloc s' = nalloc st + 3 /\ nd s' = setf (setf (nd st) n sg') (nalloc st) (used_init cap v) /\
                 oth s' = upd (oth st) t (PCa v n (nalloc st) 0)).
  Proof.
    unfold push_re. intros H.
    destruct (NikbDefs.step cap R (nd st n) (Step t)) as [[sg' es0]|] eqn:Es; [|discriminate].
    destruct (th sg' t) eqn:Et; try (inversion H; subst; clear H; qsim; split; [sc|]; exists sg'; left; ssplit; reflexivity).
    destruct (new_node_ch _ _ _ _ _ _ _ H) as (A & B & C & D). qsim. split; [exact A|]. exists sg'. right. ssplit; assumption.
  Qed.

  Lemma steal_ch st t v m lb s' es : steal_phase cap R st t v m lb = Some (s', es) ->
    same_chain st s' /\ nalloc s' = nalloc st /\
    exists sg' p, nd s' = setf (nd st) m sg' /\ oth s' = upd (oth st) t p /\ ((exists lb', p = PSt v m lb') \/ (exists x, p = PDel x m false) \/ p = OStuck).
  Proof.
    unfold steal_phase. intros H.
    destruct (istep cap R (nd st m) (fin st m) lb t) as [[[sg' es0] lb']|] eqn:Es; [|discriminate].
    break H; inversion H; subst; clear H; qsim; (ssplit; [sc|reflexivity|]); eexists; eexists; (ssplit; [reflexivity|reflexivity|]); eauto.
  Qed.

  Lemma del_ch st t v m lb s' es : del_phase cap R st t v m lb = Some (s', es) ->
    same_chain st s' /\ nalloc s' = nalloc st /\
    exists sg' p, nd s' = setf (nd st) m sg' /\ oth s' = upd (oth st) t p /\ ((exists lb', p = PDel v m lb') \/ p = OStuck \/ p = P1 v).
  Proof.
    unfold del_phase. intros H.
    destruct (istep cap R (nd st m) (fin st m) lb t) as [[[sg' es0] lb']|] eqn:Es; [|discriminate].
    break H; inversion H; subst; clear H; qsim; (ssplit; [sc|reflexivity|]); eexists; eexists; (ssplit; [reflexivity|reflexivity|]); eauto.
  Qed.

  Lemma pop_ch st t n lb again failed s' es : pop_phase cap R st t n lb again failed = Some (s', es) ->
    same_chain st s' /\ nalloc s' = nalloc st /\
    exists sg' p, nd s' = setf (nd st) n sg' /\ oth s' = upd (oth st) t p /\ ((exists lb', p = again lb') \/ p = OIdle \/ p = failed).
  Proof.
    unfold pop_phase. intros H.
    destruct (istep cap R (nd st n) (fin st n) lb t) as [[[sg' es0] lb']|] eqn:Es; [|discriminate].
    cbv zeta in H.
    assert (Hn := nd_take_ghost cap st (w_nd st n sg') t n (nd st n)); assert (Ho := oth_take_ghost cap st (w_nd st n sg') t n (nd st n)).
    assert (Hc := same_chain_take st (w_nd st n sg') t n (nd st n) ltac:(sc)); assert (Ha := nalloc_take st (w_nd st n sg') t n (nd st n)).
    revert Hn Ho Hc Ha H. generalize (take_ghost cap st (w_nd st n sg') t n (nd st n)). intros s2 Hn Ho Hc Ha H. qsim.
    destruct (th sg' t) eqn:Et.
    all: try (inversion H; subst; clear H; qsim; (ssplit; [exact Hc|exact Ha|]); exists sg'; eexists; (ssplit; [exact Hn|rewrite Ho; reflexivity|eauto])).
    all: break H; inversion H; subst; clear H; qsim; (ssplit; [exact Hc|exact Ha|]); exists sg'; eexists; (ssplit; [exact Hn|rewrite Ho; reflexivity|eauto]).
  Qed.

  Lemma nodup_split_eq (l : list N) : NoDup l -> forall a1 b1 a2 b2 x, l = a1 ++ x :: b1 -> l = a2 ++ x :: b2 -> a1 = a2 /\ b1 = b2.
  Proof.
    intros Hnd a1. revert l Hnd. induction a1 as [|c a1 IH]; intros l Hnd b1 a2 b2 x E1 E2.
    - destruct a2 as [|d a2]; cbn [app] in *.
      + rewrite E1 in E2. inversion E2. auto.
      + exfalso. rewrite E1 in E2. inversion E2; subst. inversion Hnd as [|? ? Hx _]; subst. apply Hx. apply in_or_app. right. left. reflexivity.
    - destruct a2 as [|d a2]; cbn [app] in *.
      + exfalso. rewrite E2 in E1. inversion E1; subst. inversion Hnd as [|? ? Hx _]; subst. apply Hx. apply in_or_app. right. left. reflexivity.
      + rewrite E1 in E2. inversion E2; subst. inversion Hnd as [|? ? _ Hy]; subst.
        destruct (IH _ Hy b1 a2 b2 x eq_refl H1) as [-> ->]. auto.
  Qed.

  Lemma ci_head_in s : CI s -> In (qhead s) (q_nodes s).
  Proof. intros H. destruct (c_split s H) as [rest E]. rewrite E. apply in_or_app. right. left. reflexivity. Qed.

  Lemma ci_nalloc_pos s : CI s -> 0 < nalloc s.
  Proof. intros H. pose proof (c_lt s H _ (ci_head_in s H)). lia. Qed.

  Lemma ci_fresh_nxt s m : CI s -> nalloc s <= m -> nxt s m = 0.
  Proof.
    intros H Hm. destruct (N.eq_dec (nxt s m) 0) as [E|E]; [exact E|]. destruct (c_nx s H m E) as [Hi _].
    pose proof (c_lt s H m Hi). lia.
  Qed.

  Lemma ci_succ_in s n : CI s -> In n (q_nodes s) -> nxt s n <> 0 -> In (nxt s n) (q_nodes s).
  Proof.
    intros H Hi Hn. destruct (linked_succ _ _ _ (c_link s H) Hi Hn) as (l1 & l2 & E). rewrite E.
    apply in_or_app. right. right. left. reflexivity.
  Qed.

  (** a linked node without successor is the last one *)
  Lemma ci_last s n : CI s -> In n (q_nodes s) -> nxt s n = 0 -> exists l, q_nodes s = l ++ [n].
  Proof.
    intros H Hi Hz. apply in_split in Hi. destruct Hi as (l1 & l2 & E). destruct l2 as [|b l2]; [exists l1; exact E|exfalso].
    pose proof (c_link s H) as Hl. rewrite E in Hl. apply linked_mid in Hl.
    assert (Hb : In b (q_nodes s)) by (rewrite E; apply in_or_app; right; right; left; reflexivity).
    pose proof (c_lt s H b Hb). lia.
  Qed.

  Lemma priv_not_ref s t u m n : CI s -> priv (oth s u) = Some m -> In n (refs (oth s t)) -> m <> n.
  Proof. intros Hc Hx Hr ->. destruct (c_priv s Hc u _ Hx) as (V1 & _). apply V1. apply (c_refs s Hc t). exact Hr. Qed.
  Lemma priv_distinct s t u m : CI s -> u <> t -> priv (oth s u) = Some m -> priv (oth s t) = Some m -> False.
  Proof. intros Hc Hne Hx Hy. destruct (c_priv s Hc u _ Hx) as (_ & _ & _ & V4). apply Hne. symmetry. apply V4. exact Hy. Qed.
  Lemma priv_lt s u m : CI s -> priv (oth s u) = Some m -> m < nalloc s.
  Proof. intros Hc Hx. destruct (c_priv s Hc u _ Hx) as (_ & V2 & _). lia. Qed.

  Ltac nd_cases Eo Hrf Hc :=
    let m := fresh "m" in intros m; qsimg; try (left; reflexivity);
    repeat match goal with |- context [setf _ ?n0 _ m] =>
      destruct (N.eq_dec m n0) as [->|?];
      [first [ (right; left; first [apply Hrf; cbn [In]; tauto | apply ci_head_in; exact Hc]) | (right; right; left; rewrite Eo; reflexivity) | (right; right; right; split; [reflexivity|lia]) ]
      |rewrite (setf_other _ n0 _ m) by assumption] end;
    try (left; reflexivity).

  Lemma CI_step s a s' es : CI s -> qstep s a = Some (s', es) -> CI s'.
  Proof.
    intros Hc H. unfold NikqDefs.qstep in H. destruct a as [t o|t].
    - destruct (oth s t) eqn:Eo; try discriminate. inversion H; subst; clear H.
      eapply (CI_frame s _ t (OBegin o) Hc); qsimg; try apply upd_same; try reflexivity; try (intros; apply upd_other; assumption);
        try (apply (c_tail s Hc)); try (intros; left; reflexivity); try lia; try (intros; discriminate); try (intros ? Hf; destruct Hf; fail); exact I.
    - pose proof (c_refs s Hc t) as Hrf. pose proof (c_priv s Hc t) as Hpv. pose proof (c_t5 s Hc t) as Ht5.
      destruct (oth s t) as [|[v|tp]| |v|v n|v n|v n nx|v n|v n|v n|v n m0 i|v n m0 i|v n m0|v n m0|v m0 lb|v m0 lb| |n lb|n|n|n lb|n|n nx] eqn:Eo;
        try discriminate; cbn [refs] in Hrf; cbn [priv] in Hpv; cbn [T5] in Ht5.
      + (* OBegin push *) inversion H; subst; clear H.
        eapply (CI_frame s _ t _ Hc); qsimg; try apply upd_same; try reflexivity; try (intros; apply upd_other; assumption);
        try (apply (c_tail s Hc)); try (intros; left; reflexivity); try lia; try (intros; discriminate); try (intros ? Hf; destruct Hf; fail); exact I.
      + (* OBegin pop *) inversion H; subst; clear H.
        eapply (CI_frame s _ t _ Hc); qsimg; try apply upd_same; try reflexivity; try (intros; apply upd_other; assumption);
        try (apply (c_tail s Hc)); try (intros; left; reflexivity); try lia; try (intros; discriminate); try (intros ? Hf; destruct Hf; fail); exact I.
      + (* P1 *) inversion H; subst; clear H.
        eapply (CI_frame s _ t _ Hc); qsimg; try apply upd_same; try reflexivity; try (intros; apply upd_other; assumption);
        try (apply (c_tail s Hc)); try (intros; left; reflexivity); try lia; try (intros; discriminate); try exact I.
        intros n [<-|[]]. apply (c_tail s Hc).
      + (* P2 *) destruct (N.eqb_spec (nxt s n) 0) as [Hz|Hz]; inversion H; subst; clear H.
        * eapply (CI_frame s _ t _ Hc); qsimg; try apply upd_same; try reflexivity; try (intros; apply upd_other; assumption);
          try (apply (c_tail s Hc)); try (intros; left; reflexivity); try lia; try (intros; discriminate); try exact I.
          -- nd_cases Eo Hrf Hc.
          -- intros x [<-|[]]. apply Hrf. left. reflexivity.
        * eapply (CI_frame s _ t _ Hc); qsimg; try apply upd_same; try reflexivity; try (intros; apply upd_other; assumption);
          try (apply (c_tail s Hc)); try (intros; left; reflexivity); try lia; try (intros; discriminate); try exact Hz.
          intros x [<-|[]]. apply Hrf. left. reflexivity.
      + (* P2a *) inversion H; subst; clear H.
        eapply (CI_frame s _ t _ Hc); qsimg; try apply upd_same; try reflexivity; try (intros; apply upd_other; assumption);
          try (apply (c_tail s Hc)); try (intros; left; reflexivity); try lia; try (intros; discriminate).
        * intros x [<-|[<-|[]]]; [apply Hrf; left; reflexivity|]. apply ci_succ_in; [exact Hc|apply Hrf; left; reflexivity|exact Ht5].
        * cbn [T5]. split; [reflexivity|exact Ht5].
      + (* P2b *) destruct (qtail s =? n); inversion H; subst; clear H;
        (eapply (CI_frame s _ t _ Hc); qsimg; try apply upd_same; try reflexivity; try (intros; apply upd_other; assumption);
          try (apply (c_tail s Hc)); try (intros; left; reflexivity); try lia; try (intros; discriminate); try (intros ? Hf; destruct Hf; fail); try exact I).
        apply Hrf. right. left. reflexivity.
      + (* PIn *) destruct (push_in_ch _ _ _ _ _ _ H) as ((E1 & E2 & E3 & E4 & E5 & E6) & Ha & sg' & p & Hn & Ho & Hp).
        assert (Hre := push_in_re_fin _ _ _ _ _ _ H).
        eapply (CI_frame s s' t p Hc); try assumption; try (rewrite E2; apply (c_tail s Hc)); try (rewrite E4; intros; left; reflexivity); try lia.
        * intros u Hne. rewrite Ho. apply upd_other. exact Hne.
        * rewrite Ho. apply upd_same.
        * rewrite Hn. nd_cases Eo Hrf Hc.
        * destruct Hp as [->|[->|[->| ->]]]; cbn [refs]; try (intros ? Hf; destruct Hf; fail); intros x [<-|[]]; apply Hrf; left; reflexivity.
        * destruct Hp as [->|[->|[->| ->]]]; intros; discriminate.
        * destruct Hp as [->|[->|[->| ->]]]; cbn [T5]; try exact I. rewrite E4. apply Hre. rewrite Ho. apply upd_same.
      + (* PRe *) destruct (push_re_ch _ _ _ _ _ _ H) as ((E1 & E2 & E3 & E4 & E5 & E6) & sg' & [(Ha & Hn & Ho)|(Ha & Hn & Ho)]).
        * eapply (CI_frame s s' t (PRe v n) Hc); try assumption; try (rewrite E2; apply (c_tail s Hc)); try (rewrite E4; intros; left; reflexivity); try lia.
          -- intros u Hne. rewrite Ho. apply upd_other. exact Hne.
          -- rewrite Ho. apply upd_same.
          -- rewrite Hn. nd_cases Eo Hrf Hc.
          -- intros; discriminate.
          -- cbn [T5]. rewrite E4. exact Ht5.
        * assert (Hpos := ci_nalloc_pos s Hc).
          eapply (CI_frame s s' t (PCa v n (nalloc s) 0) Hc); try assumption; try (rewrite E2; apply (c_tail s Hc)); try (rewrite E4; intros; left; reflexivity); try lia.
          -- intros u Hne. rewrite Ho. apply upd_other. exact Hne.
          -- rewrite Ho. apply upd_same.
          -- rewrite Hn. nd_cases Eo Hrf Hc.
          -- cbn [priv]. intros m Hm. inversion Hm; subst m. ssplit; try lia.
             ++ intros Hi. pose proof (c_lt s Hc _ Hi). lia.
             ++ apply ci_fresh_nxt; [exact Hc|lia].
             ++ intros u Hne Hx. destruct (c_priv s Hc u _ Hx) as (_ & V2 & _). lia.
          -- cbn [T5]. rewrite Hn, E4, setf_same. ssplit; [reflexivity|exact Ht5|apply (c_fresh s Hc); lia].
      + (* PFin *) destruct (new_node_ch _ _ _ _ _ _ _ H) as ((E1 & E2 & E3 & E4 & E5 & E6) & Ha & Hn & Ho). qsim.
        assert (Hpos := ci_nalloc_pos s Hc). assert (Hin : In n (q_nodes s)) by (apply Hrf; left; reflexivity).
        eapply (CI_frame s s' t (PCa v n (nalloc s) 0) Hc); try assumption; try (rewrite E2; apply (c_tail s Hc)); try lia.
        * intros x. rewrite E4. unfold setf. destruct (N.eqb_spec x n) as [->|]; [right; split; [reflexivity|exact Hin]|left; reflexivity].
        * intros u Hne. rewrite Ho. apply upd_other. exact Hne.
        * rewrite Ho. apply upd_same.
        * rewrite Hn. nd_cases Eo Hrf Hc.
        * cbn [priv]. intros m Hm. inversion Hm; subst m. ssplit; try lia.
          -- intros Hi. pose proof (c_lt s Hc _ Hi). lia.
          -- apply ci_fresh_nxt; [exact Hc|lia].
          -- intros u Hne Hx. destruct (c_priv s Hc u _ Hx) as (_ & V2 & _). lia.
        * cbn [T5]. rewrite Hn, E4, setf_same. ssplit; [reflexivity|apply setf_same|].
          rewrite setf_other; [apply (c_fresh s Hc); lia|]. intros E. pose proof (c_lt s Hc n Hin). lia.
      + (* PCa *) destruct (Hpv m0 eq_refl) as (V1 & V2 & V3 & V4).
        destruct (i + 1 <? 2 * cap); inversion H; subst; clear H;
        (eapply (CI_frame s _ t _ Hc); qsimg; try apply upd_same; try reflexivity; try (intros; apply upd_other; assumption);
          try (apply (c_tail s Hc)); try (intros; left; reflexivity); try lia; try exact Ht5; try exact Hrf).
        all: cbn [priv]; intros m Hm; inversion Hm; subst m; ssplit; try assumption; try lia;
          intros u Hne Hx; apply Hne; apply V4; exact Hx.
      + (* PCf *) destruct (Hpv m0 eq_refl) as (V1 & V2 & V3 & V4).
        destruct (i + 1 <? 2 * cap); inversion H; subst; clear H;
        (eapply (CI_frame s _ t _ Hc); qsimg; try apply upd_same; try reflexivity; try (intros; apply upd_other; assumption);
          try (apply (c_tail s Hc)); try (intros; left; reflexivity); try lia; try exact Ht5; try exact Hrf).
        all: cbn [priv]; intros m Hm; inversion Hm; subst m; ssplit; try assumption; try lia;
          intros u Hne Hx; apply Hne; apply V4; exact Hx.
      + (* PLink *) destruct (Hpv m0 eq_refl) as (V1 & V2 & V3 & V4). destruct Ht5 as (T1 & T2 & T3).
        assert (Hin : In n (q_nodes s)) by (apply Hrf; left; reflexivity).
        destruct (N.eqb_spec (nxt s n) 0) as [Hz|Hz]; inversion H; subst; clear H.
        * (* linked *)
          destruct (ci_last s n Hc Hin Hz) as [l El].
          pose proof Hc as [a1 a2 a3 a4 a5 a6 a7 a8 af a9].
          assert (Hnm : n <> m0) by (intros ->; contradiction).
          constructor; qsimg.
          -- apply nodup_snoc; assumption.
          -- intros x Hx. apply in_app_or in Hx. destruct Hx as [Hx|[<-|[]]]; [apply a2; exact Hx|exact V2].
          -- destruct a3 as [rest E]. exists (rest ++ [m0]). rewrite E. rewrite <- app_assoc. reflexivity.
          -- apply in_or_app. left. exact a4.
          -- rewrite El. apply linked_snoc; rewrite <- ?El; assumption.
          -- intros x. unfold setf. destruct (N.eqb_spec x n) as [->|Hne].
             ++ intros _. split; [apply in_or_app; left; exact Hin|exact T2].
             ++ intros Hx. destruct (a6 x Hx) as [A B]. split; [apply in_or_app; left; exact A|exact B].
          -- intros u x. destruct (Nat.eq_dec u t) as [->|Hne].
             ++ rewrite upd_same. cbn [refs]. intros [<-|[<-|[]]]; apply in_or_app; [left; exact Hin|right; left; reflexivity].
             ++ rewrite upd_other by exact Hne. intros Hx. apply in_or_app. left. apply (a7 u x Hx).
          -- intros u m. destruct (Nat.eq_dec u t) as [->|Hne]; [rewrite upd_same; discriminate|]. rewrite upd_other by exact Hne.
             intros Hx. destruct (a8 u m Hx) as (W1 & W2 & W3 & W4).
             assert (Hmm : m <> m0) by (intros ->; apply Hne; apply V4; exact Hx).
             ssplit; try assumption; try lia.
             ++ intros Hi. apply in_app_or in Hi. destruct Hi as [Hi|[Hi|[]]]; [contradiction|congruence].
             ++ rewrite setf_other; [exact W3|]. intros ->. contradiction.
             ++ intros w. destruct (Nat.eq_dec w t) as [->|Hnw]; [rewrite upd_same; discriminate|]. rewrite upd_other by exact Hnw. apply W4.
          -- exact af.
          -- intros u. destruct (Nat.eq_dec u t) as [->|Hne]; [rewrite upd_same; exact I|]. rewrite upd_other by exact Hne.
             specialize (a9 u). destruct (oth s u) eqn:Eu; cbn [T5] in *; qsimg; try exact a9.
             all: try (rewrite setf_other; [exact a9|]; intros ->; apply a9; exact Hz).
             all: try (destruct a9 as [A B]; rewrite setf_other; [split; assumption|]; intros ->; rewrite Hz in A; subst; apply B; reflexivity).
        * (* link lost: steal_init_value *)
          eapply (CI_frame s _ t _ Hc); qsimg; try apply upd_same; try reflexivity; try (intros; apply upd_other; assumption);
            try (apply (c_tail s Hc)); try (intros; left; reflexivity); try lia; try exact I; try (intros ? Hf; destruct Hf; fail).
          -- nd_cases Eo Hrf Hc.
          -- cbn [priv]; intros m Hm; inversion Hm; subst m; ssplit; try assumption; try lia.
             intros u Hne Hx; apply Hne; apply V4; exact Hx.
      + (* PSw *) destruct (qtail s =? n); inversion H; subst; clear H;
        (eapply (CI_frame s _ t _ Hc); qsimg; try apply upd_same; try reflexivity; try (intros; apply upd_other; assumption);
          try (apply (c_tail s Hc)); try (intros; left; reflexivity); try lia; try (intros; discriminate); try (intros ? Hf; destruct Hf; fail); try exact I).
        apply Hrf. right. left. reflexivity.
      + (* PSt *) destruct (Hpv m0 eq_refl) as (V1 & V2 & V3 & V4).
        destruct (steal_ch _ _ _ _ _ _ _ H) as ((E1 & E2 & E3 & E4 & E5 & E6) & Ha & sg' & p & Hn & Ho & Hp).
        eapply (CI_frame s s' t p Hc); try assumption; try (rewrite E2; apply (c_tail s Hc)); try (rewrite E4; intros; left; reflexivity); try lia.
        * intros u Hne. rewrite Ho. apply upd_other. exact Hne.
        * rewrite Ho. apply upd_same.
        * rewrite Hn. nd_cases Eo Hrf Hc.
        * destruct Hp as [[lb' ->]|[[x ->]| ->]]; intros ? Hf; destruct Hf.
        * destruct Hp as [[lb' ->]|[[x ->]| ->]]; cbn [priv]; intros m Hm; inversion Hm; subst m; ssplit; try assumption; try lia;
          intros u Hne Hx; apply Hne; apply V4; exact Hx.
        * destruct Hp as [[lb' ->]|[[x ->]| ->]]; exact I.
      + (* PDel *) destruct (Hpv m0 eq_refl) as (V1 & V2 & V3 & V4).
        destruct (del_ch _ _ _ _ _ _ _ H) as ((E1 & E2 & E3 & E4 & E5 & E6) & Ha & sg' & p & Hn & Ho & Hp).
        eapply (CI_frame s s' t p Hc); try assumption; try (rewrite E2; apply (c_tail s Hc)); try (rewrite E4; intros; left; reflexivity); try lia.
        * intros u Hne. rewrite Ho. apply upd_other. exact Hne.
        * rewrite Ho. apply upd_same.
        * rewrite Hn. nd_cases Eo Hrf Hc.
        * destruct Hp as [[lb' ->]|[->| ->]]; intros ? Hf; destruct Hf.
        * destruct Hp as [[lb' ->]|[->| ->]]; cbn [priv]; intros m Hm; inversion Hm; subst m; ssplit; try assumption; try lia;
          intros u Hne Hx; apply Hne; apply V4; exact Hx.
        * destruct Hp as [[lb' ->]|[->| ->]]; exact I.
      + (* Q1 *) inversion H; subst; clear H.
        eapply (CI_frame s _ t _ Hc); qsimg; try apply upd_same; try reflexivity; try (intros; apply upd_other; assumption);
          try (apply (c_tail s Hc)); try (intros; left; reflexivity); try lia; try (intros; discriminate); try exact I.
        * nd_cases Eo Hrf Hc.
        * intros x [<-|[]]. apply ci_head_in. exact Hc.
      + (* QIn1 *) destruct (pop_ch _ _ _ _ _ _ _ _ H) as ((E1 & E2 & E3 & E4 & E5 & E6) & Ha & sg' & p & Hn & Ho & Hp).
        eapply (CI_frame s s' t p Hc); try assumption; try (rewrite E2; apply (c_tail s Hc)); try (rewrite E4; intros; left; reflexivity); try lia.
        * intros u Hne. rewrite Ho. apply upd_other. exact Hne.
        * rewrite Ho. apply upd_same.
        * rewrite Hn. nd_cases Eo Hrf Hc.
        * destruct Hp as [[lb' ->]|[->| ->]]; cbn [refs]; try (intros ? Hf; destruct Hf; fail); exact Hrf.
        * destruct Hp as [[lb' ->]|[->| ->]]; intros; discriminate.
        * destruct Hp as [[lb' ->]|[->| ->]]; exact I.
      + (* Q2 *) destruct (N.eqb_spec (nxt s n) 0) as [Hz|Hz]; inversion H; subst; clear H;
        (eapply (CI_frame s _ t _ Hc); qsimg; try apply upd_same; try reflexivity; try (intros; apply upd_other; assumption);
          try (apply (c_tail s Hc)); try (intros; left; reflexivity); try lia; try (intros; discriminate); try (intros ? Hf; destruct Hf; fail); try exact I; try exact Hz; try exact Hrf).
      + (* Q3 *) inversion H; subst; clear H.
        eapply (CI_frame s _ t _ Hc); qsimg; try apply upd_same; try reflexivity; try (intros; apply upd_other; assumption);
          try (apply (c_tail s Hc)); try (intros; left; reflexivity); try lia; try (intros; discriminate); try exact Ht5; try exact Hrf.
        nd_cases Eo Hrf Hc.
      + (* QIn2 *) destruct (pop_ch _ _ _ _ _ _ _ _ H) as ((E1 & E2 & E3 & E4 & E5 & E6) & Ha & sg' & p & Hn & Ho & Hp).
        eapply (CI_frame s s' t p Hc); try assumption; try (rewrite E2; apply (c_tail s Hc)); try (rewrite E4; intros; left; reflexivity); try lia.
        * intros u Hne. rewrite Ho. apply upd_other. exact Hne.
        * rewrite Ho. apply upd_same.
        * rewrite Hn. nd_cases Eo Hrf Hc.
        * destruct Hp as [[lb' ->]|[->| ->]]; cbn [refs]; try (intros ? Hf; destruct Hf; fail); exact Hrf.
        * destruct Hp as [[lb' ->]|[->| ->]]; intros; discriminate.
        * destruct Hp as [[lb' ->]|[->| ->]]; cbn [T5]; try exact I; rewrite E3; exact Ht5.
      + (* Q4 *) inversion H; subst; clear H.
        eapply (CI_frame s _ t _ Hc); qsimg; try apply upd_same; try reflexivity; try (intros; apply upd_other; assumption);
          try (apply (c_tail s Hc)); try (intros; left; reflexivity); try lia; try (intros; discriminate).
        * intros x [<-|[<-|[]]]; [apply Hrf; left; reflexivity|]. apply ci_succ_in; [exact Hc|apply Hrf; left; reflexivity|exact Ht5].
        * cbn [T5]. split; [reflexivity|exact Ht5].
      + (* Q5 *) destruct Ht5 as [T1 T2]. assert (Hin : In n (q_nodes s)) by (apply Hrf; left; reflexivity).
        destruct (N.eqb_spec (qhead s) n) as [Hh|Hh]; inversion H; subst; clear H.
        * pose proof Hc as [a1 a2 a3 a4 a5 a6 a7 a8 af a9].
          assert (Hn0 : nxt s (qhead s) <> 0) by exact T2.
          destruct (linked_succ _ _ _ a5 Hin Hn0) as (l1 & l2 & El). destruct a3 as [rest Er].
          destruct (nodup_split_eq _ a1 _ _ _ _ _ El Er) as [-> <-].
          constructor; qsimg; try assumption.
          -- exists l2. rewrite Er. rewrite <- app_assoc. reflexivity.
          -- intros u x. destruct (Nat.eq_dec u t) as [->|Hne]; [rewrite upd_same; intros []|rewrite upd_other by exact Hne; apply a7].
          -- intros u m. destruct (Nat.eq_dec u t) as [->|Hne]; [rewrite upd_same; discriminate|]. rewrite upd_other by exact Hne.
             intros Hx. destruct (a8 u m Hx) as (W1 & W2 & W3 & W4). ssplit; try assumption; try lia.
             intros w. destruct (Nat.eq_dec w t) as [->|Hnw]; [rewrite upd_same; discriminate|]. rewrite upd_other by exact Hnw. apply W4.
          -- intros u. destruct (Nat.eq_dec u t) as [->|Hne]; [rewrite upd_same; exact I|]. rewrite upd_other by exact Hne. apply a9.
        * eapply (CI_frame s _ t _ Hc); qsimg; try apply upd_same; try reflexivity; try (intros; apply upd_other; assumption);
            try (apply (c_tail s Hc)); try (intros; left; reflexivity); try lia; try (intros; discriminate); try (intros ? Hf; destruct Hf; fail); exact I.
  Qed.

  Theorem CI_reach : forall s, reach (qinit cap) qstep s -> CI s.
  Proof. apply inv_rule; [apply CI_init|intros; eapply CI_step; eauto]. Qed.
End Chain.
