(** kirsch_kfifo_queue (C06, unbounded), invariant layer 2 (ownership of the values): every stored pointer is
    either committed and not yet popped, or the pending insertion of exactly one thread inside committed();
    committed values that were not popped are in exactly one slot; pushers own distinct tokens.  One lemma
    per shared effect of a step (allocation, insertion, take-back, commit, take by a pop).
    No axioms, no admits. *)
From Coq Require Import NArith List Bool Lia PeanoNat ZifyBool ZifyNat ZifyN.
From XV Require Import Base.Word Conc.Lts Conc.Ev Model.KfqDefs.
From XV Require Import Proof.KfqWf.
Import ListNotations.
Local Open Scope N_scope.

Definition cblock (c : cont) : option N := match c with KPush b => Some b | KPop _ _ _ _ => None end.
Definition pblock (p : pc) : option N :=
  match p with
  | P1 b | PF b _ _ _ | P2 b _ _ _ | P2n b _ | P3 b _ _ _
  | C1 b _ _ _ | C2 b _ _ _ | C3 b _ _ _ | C4 b _ _ _ | C5 b _ _ _ _ | C7 b _ _ _ | C9 b _ _ _ => Some b
  | A1 c _ | A2 c _ _ | A3 c _ _ | A4 c _ _ _ | A5 c _ _ => cblock c
  | _ => None
  end.
(** (pointer, segment, slot, tag) of the pending insertion *)
Definition cinfo (p : pc) : option (N * N * N * N) :=
  match p with
  | C1 b tl j tg | C2 b tl j tg | C3 b tl j tg | C4 b tl j tg | C5 b tl j tg _ | C7 b tl j tg | C9 b tl j tg => Some (b, fst tl, j, tg)
  | _ => None
  end.

Lemma cinfo_pblock p b x j tg : cinfo p = Some (b, x, j, tg) -> pblock p = Some b.
Proof. destruct p; cbn; intros H; inversion H; reflexivity. Qed.
Lemma pblock_kpc c : pblock (kpc c) = cblock c.
Proof. destruct c; reflexivity. Qed.
Lemma cinfo_kpc c : cinfo (kpc c) = None.
Proof. destruct c; reflexivity. Qed.

Lemma mem_spec b l : mem b l = true <-> In b l.
Proof.
  unfold mem. rewrite existsb_exists. split.
  - intros (x & Hin & He). apply N.eqb_eq in He. subst. exact Hin.
  - intros H. exists b. split; [exact H|apply N.eqb_refl].
Qed.
Lemma commit_in b l x : In x (commit b l) <-> In x l \/ x = b.
Proof.
  unfold commit. destruct (mem b l) eqn:E.
  - apply mem_spec in E. split; [auto|intros [H| ->]; assumption].
  - rewrite in_app_iff. cbn. intuition.
Qed.
Lemma commit_old b l : In b l -> commit b l = l.
Proof. intros H. unfold commit. apply mem_spec in H. rewrite H. reflexivity. Qed.
Lemma commit_new b l : ~ In b l -> commit b l = l ++ [b].
Proof. intros H. unfold commit. destruct (mem b l) eqn:E; [apply mem_spec in E; contradiction|reflexivity]. Qed.
Lemma NoDup_snoc (l : list N) n : NoDup l -> ~ In n l -> NoDup (l ++ [n]).
Proof.
  induction l as [|a l IH]; cbn; intros Hnd Hni; [constructor; [intros []|constructor]|].
  inversion Hnd; subst. constructor.
  - rewrite in_app_iff. cbn. intuition.
  - apply IH; [assumption|intuition].
Qed.
Lemma commit_nodup b l : NoDup l -> NoDup (commit b l).
Proof. intros H. unfold commit. destruct (mem b l) eqn:E; [exact H|]. apply NoDup_snoc; [exact H|]. intros Hin. apply mem_spec in Hin. congruence. Qed.

Lemma setf2_cases {X} (f : N -> N -> X) s i v s' j :
  (s' = s /\ j = i /\ setf2 f s i v s' j = v) \/ ((s' <> s \/ j <> i) /\ setf2 f s i v s' j = f s' j).
Proof.
  unfold setf2, setf. destruct (N.eqb_spec s' s) as [->|H1]; [|right; auto].
  destruct (N.eqb_spec j i) as [->|H2]; [left; auto|right; auto].
Qed.

(** thread invariant as a function of the abstract view (cinfo, pblock) *)
Definition T2' (st : state) (ci : option (N * N * N * N)) (pb : option N) : Prop :=
  match ci with
  | Some (b, x, j, tg) => (slot st x j = (b, tg) /\ ~ In b (g_in st)) \/ (In b (g_in st) /\ In b (g_out st))
  | None => match pb with
            | Some b => ~ In b (g_in st) /\ forall x j, fst (slot st x j) <> b
            | None => True
            end
  end.
Definition T2 (st : state) (p : pc) : Prop := T2' st (cinfo p) (pblock p).

Record Inv2 (st : state) : Prop := {
  i_nalloc : 2 <= nalloc st;
  i_in_lt : forall b, In b (g_in st) -> 2 <= b < nalloc st;
  i_nd_in : NoDup (g_in st);
  i_nd_out : NoDup (g_out st);
  i_incl : incl (g_out st) (g_in st);
  i_slot : forall x j b tg, slot st x j = (b, tg) -> b <> 0 ->
           (In b (g_in st) /\ ~ In b (g_out st)) \/ (~ In b (g_in st) /\ exists t, cinfo (th st t) = Some (b, x, j, tg));
  i_pres : forall b, In b (g_in st) -> ~ In b (g_out st) -> exists x j, fst (slot st x j) = b;
  i_uniq : forall x j x' j', fst (slot st x j) = fst (slot st x' j') -> fst (slot st x j) <> 0 -> x = x' /\ j = j';
  i_own_lt : forall t b, pblock (th st t) = Some b -> 2 <= b < nalloc st;
  i_own_u : forall t t' b, pblock (th st t) = Some b -> pblock (th st t') = Some b -> t = t';
  i_th : forall t, T2 st (th st t);
  i_ok_in : forall b, In b (g_ok st) -> In b (g_in st);
  i_in_ok : forall b, In b (g_in st) -> In b (g_ok st) \/ exists t x j tg, cinfo (th st t) = Some (b, x, j, tg) }.

Lemma Inv2_init : Inv2 init.
Proof.
  constructor; cbn [init g_in g_out g_ok slot th nalloc].
  - lia.
  - intros b [].
  - constructor.
  - constructor.
  - intros b [].
  - intros x j b tg H. inversion H. congruence.
  - intros b [].
  - intros x j x' j' _ H. cbn in H. congruence.
  - intros t b H. discriminate.
  - intros t t' b H. discriminate.
  - intros t. exact I.
  - intros b [].
  - intros b [].
Qed.

(** the invariant sees the thread map only through [cinfo] and [pblock] *)
Lemma Inv2_ext s s' :
  Inv2 s -> slot s' = slot s -> g_in s' = g_in s -> g_out s' = g_out s -> g_ok s' = g_ok s -> nalloc s <= nalloc s' ->
  (forall t, cinfo (th s' t) = cinfo (th s t)) -> (forall t, pblock (th s' t) = pblock (th s t)) -> Inv2 s'.
Proof.
  intros I E1 E2 E3 E4 E5 Ec Ep. destruct I.
  constructor; rewrite ?E1, ?E2, ?E3, ?E4; try assumption.
  - lia.
  - intros b Hb. specialize (i_in_lt0 b Hb). lia.
  - intros x j b tg H Hb. destruct (i_slot0 x j b tg H Hb) as [A|[A [t B]]]; [left; exact A|right]. split; [exact A|]. exists t. rewrite Ec. exact B.
  - intros t b. rewrite Ep. intros H. specialize (i_own_lt0 t b H). lia.
  - intros t t' b. rewrite !Ep. apply i_own_u0.
  - intros t. unfold T2. rewrite Ec, Ep. unfold T2'. rewrite E1, E2, E3. apply (i_th0 t).
  - intros b Hb. destruct (i_in_ok0 b Hb) as [A|(t & x & j & tg & A)]; [left; exact A|right]. exists t, x, j, tg. rewrite Ec. exact A.
Qed.

Lemma upd_view {X} (f : pc -> X) s t p' : f p' = f (th s t) -> forall t0, f (upd (th s) t p' t0) = f (th s t0).
Proof. intros H t0. unfold upd. destruct (Nat.eqb_spec t0 t); [subst; exact H|reflexivity]. Qed.

Lemma Inv2_frame s s' t p' :
  Inv2 s -> slot s' = slot s -> g_in s' = g_in s -> g_out s' = g_out s -> g_ok s' = g_ok s -> nalloc s <= nalloc s' ->
  th s' = upd (th s) t p' -> cinfo p' = cinfo (th s t) -> pblock p' = pblock (th s t) -> Inv2 s'.
Proof.
  intros I E1 E2 E3 E4 E5 Et Hc Hp. apply (Inv2_ext s s' I E1 E2 E3 E4 E5); intros t0; rewrite Et; apply upd_view; assumption.
Qed.

Lemma in_slot_known s : Inv2 s -> forall x j, fst (slot s x j) <> 0 -> 2 <= fst (slot s x j) < nalloc s.
Proof.
  intros I x j Hnz. destruct (slot s x j) as [b tg] eqn:E. cbn [fst] in *.
  destruct (i_slot s I x j b tg E Hnz) as [[A _]|[_ [t A]]].
  - apply (i_in_lt s I b A).
  - apply (i_own_lt s I t b). eapply cinfo_pblock; eauto.
Qed.

(** allocation of a token: [Begin (OPush v)] -> [P1 b] *)
Lemma Inv2_alloc s s' t :
  Inv2 s -> pblock (th s t) = None -> cinfo (th s t) = None ->
  slot s' = slot s -> g_in s' = g_in s -> g_out s' = g_out s -> g_ok s' = g_ok s -> nalloc s' = nalloc s + 1 ->
  th s' = upd (th s) t (P1 (nalloc s)) -> Inv2 s'.
Proof.
  intros I Hp Hc E1 E2 E3 E4 E5 Et.
  assert (Hc0 : forall t0, t0 <> t -> th s' t0 = th s t0) by (intros; rewrite Et; apply upd_other; assumption).
  assert (Hme : th s' t = P1 (nalloc s)) by (rewrite Et; apply upd_same).
  pose proof (i_nalloc s I) as Hna.
  constructor; rewrite ?E1, ?E2, ?E3, ?E4, ?E5.
  - lia.
  - intros b Hb. pose proof (i_in_lt s I b Hb). lia.
  - apply I. - apply I. - apply I.
  - intros x j b tg H Hb. destruct (i_slot s I x j b tg H Hb) as [A|[A [t0 B]]]; [left; exact A|right]. split; [exact A|].
    exists t0. destruct (Nat.eq_dec t0 t) as [->|Hne]; [congruence|]. rewrite Hc0 by exact Hne. exact B.
  - apply I. - apply I.
  - intros t0 b. destruct (Nat.eq_dec t0 t) as [->|Hne].
    + rewrite Hme. cbn. intros H; inversion H; subst. lia.
    + rewrite Hc0 by exact Hne. intros H. pose proof (i_own_lt s I t0 b H). lia.
  - intros t0 t1 b. destruct (Nat.eq_dec t0 t) as [->|Hn0]; destruct (Nat.eq_dec t1 t) as [->|Hn1]; try reflexivity;
      rewrite ?Hme, ?Hc0 by assumption; cbn [pblock]; intros A B.
    + inversion A; subst. pose proof (i_own_lt s I t1 _ B). lia.
    + inversion B; subst. pose proof (i_own_lt s I t0 _ A). lia.
    + eapply (i_own_u s I); eauto.
  - intros t0. destruct (Nat.eq_dec t0 t) as [->|Hne].
    + rewrite Hme. unfold T2, T2'. cbn [cinfo pblock]. rewrite E1, E2. split.
      * intros Hin. pose proof (i_in_lt s I _ Hin). lia.
      * intros x j Hj. assert (Hnz : fst (slot s x j) <> 0) by lia.
        pose proof (in_slot_known s I x j Hnz). lia.
    + rewrite Hc0 by exact Hne. pose proof (i_th s I t0) as H. unfold T2, T2' in *. rewrite E1, E2, E3. exact H.
  - apply I.
  - intros b Hb. destruct (i_in_ok s I b Hb) as [A|(t0 & x & j & tg & A)]; [left; exact A|right]. exists t0, x, j, tg.
    destruct (Nat.eq_dec t0 t) as [->|Hne]; [congruence|]. rewrite Hc0 by exact Hne. exact A.
Qed.

Lemma own_ne s t t0 b b0 : Inv2 s -> t0 <> t -> pblock (th s t) = Some b -> pblock (th s t0) = Some b0 -> b0 <> b.
Proof. intros I Hne A B ->. apply Hne. eapply (i_own_u s I); eauto. Qed.

Lemma popped_not_in_slot s b x j tg : Inv2 s -> b <> 0 -> In b (g_out s) -> slot s x j <> (b, tg).
Proof.
  intros I Hb Ho E. destruct (i_slot s I x j b tg E Hb) as [[_ A]|[A _]]; [contradiction|].
  apply A. apply (i_incl s I). exact Ho.
Qed.

(** insertion CAS: [P3] -> [C1] *)
Lemma Inv2_ins s s' t b x j otag tg' p' :
  Inv2 s -> pblock (th s t) = Some b -> cinfo (th s t) = None -> slot s x j = (0, otag) ->
  slot s' = setf2 (slot s) x j (b, tg') -> g_in s' = g_in s -> g_out s' = g_out s -> g_ok s' = g_ok s -> nalloc s' = nalloc s ->
  th s' = upd (th s) t p' -> cinfo p' = Some (b, x, j, tg') -> Inv2 s'.
Proof.
  intros I Hp Hc Hsl E1 E2 E3 E4 E5 Et Hc'.
  assert (Hp' : pblock p' = Some b) by (eapply cinfo_pblock; eauto).
  assert (Hc0 : forall t0, t0 <> t -> th s' t0 = th s t0) by (intros; rewrite Et; apply upd_other; assumption).
  assert (Hme : th s' t = p') by (rewrite Et; apply upd_same).
  assert (Hpb : forall t0, pblock (th s' t0) = pblock (th s t0)) by (intros t0; rewrite Et; apply upd_view; congruence).
  pose proof (i_th s I t) as Ht. unfold T2, T2' in Ht. rewrite Hc, Hp in Ht. destruct Ht as [Hnin Hnsl].
  pose proof (i_own_lt s I t b Hp) as Hb2.
  constructor; rewrite ?E2, ?E3, ?E4, ?E5; try apply I.
  - intros x0 j0 b0 tg0. rewrite E1. destruct (setf2_cases (slot s) x j (b, tg') x0 j0) as [(-> & -> & Q)|(Hn & Q)]; rewrite Q.
    + intros H _. injection H as <- <-. right. split; [exact Hnin|]. exists t. rewrite Hme. exact Hc'.
    + intros H Hb0. destruct (i_slot s I x0 j0 b0 tg0 H Hb0) as [A|[A [t0 B]]]; [left; exact A|right]. split; [exact A|].
      exists t0. destruct (Nat.eq_dec t0 t) as [->|Hne]; [congruence|]. rewrite Hc0 by exact Hne. exact B.
  - intros b0 A B. destruct (i_pres s I b0 A B) as (x0 & j0 & Hj0). exists x0, j0. rewrite E1.
    destruct (setf2_cases (slot s) x j (b, tg') x0 j0) as [(-> & -> & Q)|(Hn & Q)]; rewrite Q; [|exact Hj0].
    rewrite Hsl in Hj0. cbn in Hj0. pose proof (i_in_lt s I b0 A). lia.
  - intros x1 j1 x2 j2. rewrite E1.
    destruct (setf2_cases (slot s) x j (b, tg') x1 j1) as [(-> & -> & Q1)|(H1 & Q1)]; rewrite Q1;
      destruct (setf2_cases (slot s) x j (b, tg') x2 j2) as [(-> & -> & Q2)|(H2 & Q2)]; rewrite Q2; cbn [fst]; try (split; reflexivity).
    + intros H _. exfalso. apply (Hnsl x2 j2). congruence.
    + intros H _. exfalso. apply (Hnsl x1 j1). congruence.
    + apply (i_uniq s I).
  - intros t0 b0. rewrite Hpb. apply (i_own_lt s I).
  - intros t0 t1 b0. rewrite !Hpb. apply (i_own_u s I).
  - intros t0. destruct (Nat.eq_dec t0 t) as [->|Hne].
    + rewrite Hme. unfold T2, T2'. rewrite Hc'. left. rewrite E1, E2, setf2_same. split; [reflexivity|exact Hnin].
    + rewrite Hc0 by exact Hne. pose proof (i_th s I t0) as H. unfold T2, T2' in *.
      destruct (cinfo (th s t0)) as [[[[b0 x0] j0] tg0]|] eqn:Ec.
      * rewrite E1, E2, E3. destruct H as [[A B]|A]; [left|right; exact A]. split; [|exact B].
        pose proof (i_own_lt s I t0 b0 (cinfo_pblock _ _ _ _ _ Ec)).
        destruct (setf2_cases (slot s) x j (b, tg') x0 j0) as [(-> & -> & Q)|(Hn & Q)]; rewrite Q; [|exact A].
        rewrite Hsl in A. inversion A. lia.
      * destruct (pblock (th s t0)) as [b0|] eqn:Eb; [|exact Logic.I]. rewrite E1, E2. destruct H as [A B]. split; [exact A|].
        intros x1 j1. destruct (setf2_cases (slot s) x j (b, tg') x1 j1) as [(-> & -> & Q)|(Hn & Q)]; rewrite Q; [|apply B]. cbn [fst].
        intros ->. eapply (own_ne s t t0); eauto.
  - intros b0 Hb0. destruct (i_in_ok s I b0 Hb0) as [A|(t0 & x0 & j0 & tg0 & A)]; [left; exact A|right]. exists t0, x0, j0, tg0.
    destruct (Nat.eq_dec t0 t) as [->|Hne]; [congruence|]. rewrite Hc0 by exact Hne. exact A.
Qed.

(** [committed] returns true because the value is no longer in its slot: a pop took it *)
Lemma Inv2_retok_popped s s' t b x j tg :
  Inv2 s -> cinfo (th s t) = Some (b, x, j, tg) -> In b (g_in s) -> In b (g_out s) ->
  slot s' = slot s -> g_in s' = g_in s -> g_out s' = g_out s -> g_ok s' = g_ok s ++ [b] -> nalloc s' = nalloc s ->
  th s' = upd (th s) t Idle -> Inv2 s'.
Proof.
  intros I Hc Hin Hout E1 E2 E3 E4 E5 Et.
  assert (Hc0 : forall t0, t0 <> t -> th s' t0 = th s t0) by (intros; rewrite Et; apply upd_other; assumption).
  assert (Hme : th s' t = Idle) by (rewrite Et; apply upd_same).
  constructor; rewrite ?E1, ?E2, ?E3, ?E4, ?E5; try apply I.
  - intros x0 j0 b0 tg0 H Hb0. destruct (i_slot s I x0 j0 b0 tg0 H Hb0) as [A|[A [t0 B]]]; [left; exact A|right]. split; [exact A|].
    exists t0. destruct (Nat.eq_dec t0 t) as [->|Hne]; [|rewrite Hc0 by exact Hne; exact B].
    rewrite Hc in B. inversion B; subst. contradiction.
  - intros t0 b0. destruct (Nat.eq_dec t0 t) as [->|Hne]; [rewrite Hme; discriminate|rewrite Hc0 by exact Hne; apply (i_own_lt s I)].
  - intros t0 t1 b0. destruct (Nat.eq_dec t0 t) as [->|Hn0]; [rewrite Hme; discriminate|].
    destruct (Nat.eq_dec t1 t) as [->|Hn1]; [rewrite Hme; discriminate|]. rewrite !Hc0 by assumption. apply (i_own_u s I).
  - intros t0. destruct (Nat.eq_dec t0 t) as [->|Hne]; [rewrite Hme; exact Logic.I|].
    rewrite Hc0 by exact Hne. pose proof (i_th s I t0) as H. unfold T2, T2' in *. rewrite E1, E2, E3. exact H.
  - intros b0. rewrite in_app_iff. cbn. intros [A|[<-|[]]]; [apply (i_ok_in s I); exact A|exact Hin].
  - intros b0 Hb0. rewrite in_app_iff. destruct (i_in_ok s I b0 Hb0) as [A|(t0 & x0 & j0 & tg0 & A)]; [left; left; exact A|].
    destruct (Nat.eq_dec t0 t) as [->|Hne].
    + rewrite Hc in A. inversion A; subst. left. right. left. reflexivity.
    + right. exists t0, x0, j0, tg0. rewrite Hc0 by exact Hne. exact A.
Qed.

(** [committed] answers true: the value is committed, unless a pop was faster *)
Lemma Inv2_commit s s' t b x j tg :
  Inv2 s -> cinfo (th s t) = Some (b, x, j, tg) ->
  slot s' = slot s -> g_in s' = commit b (g_in s) -> g_out s' = g_out s -> g_ok s' = g_ok s ++ [b] -> nalloc s' = nalloc s ->
  th s' = upd (th s) t Idle -> Inv2 s'.
Proof.
  intros I Hc E1 E2 E3 E4 E5 Et.
  pose proof (i_own_lt s I t b (cinfo_pblock _ _ _ _ _ Hc)) as Hb2.
  pose proof (i_th s I t) as Ht. unfold T2, T2' in Ht. rewrite Hc in Ht. destruct Ht as [[Hsl Hnin]|[Hin Hout]].
  2:{ rewrite commit_old in E2 by exact Hin. eapply (Inv2_retok_popped s s' t b x j tg); eauto. }
  rewrite commit_new in E2 by exact Hnin.
  assert (Hc0 : forall t0, t0 <> t -> th s' t0 = th s t0) by (intros; rewrite Et; apply upd_other; assumption).
  assert (Hme : th s' t = Idle) by (rewrite Et; apply upd_same).
  assert (Hnout : ~ In b (g_out s)) by (intros H; apply Hnin; apply (i_incl s I); exact H).
  constructor; rewrite ?E1, ?E2, ?E3, ?E4, ?E5; try apply I.
  - intros b0. rewrite in_app_iff. cbn. intros [A|[<-|[]]]; [apply (i_in_lt s I); exact A|exact Hb2].
  - apply NoDup_snoc; [apply I|exact Hnin].
  - apply incl_appl. apply I.
  - intros x0 j0 b0 tg0 H Hb0. rewrite in_app_iff. destruct (N.eq_dec b0 b) as [->|Hnb].
    + left. split; [right; left; reflexivity|exact Hnout].
    + destruct (i_slot s I x0 j0 b0 tg0 H Hb0) as [[A B]|[A [t0 B]]]; [left; split; [left; exact A|exact B]|right].
      split; [cbn; intuition|]. exists t0. destruct (Nat.eq_dec t0 t) as [->|Hne]; [|rewrite Hc0 by exact Hne; exact B].
      rewrite Hc in B. inversion B; subst. contradiction.
  - intros b0. rewrite in_app_iff. cbn. intros [A|[<-|[]]] B; [apply (i_pres s I); assumption|].
    exists x, j. rewrite Hsl. reflexivity.
  - intros t0 b0. destruct (Nat.eq_dec t0 t) as [->|Hne]; [rewrite Hme; discriminate|rewrite Hc0 by exact Hne; apply (i_own_lt s I)].
  - intros t0 t1 b0. destruct (Nat.eq_dec t0 t) as [->|Hn0]; [rewrite Hme; discriminate|].
    destruct (Nat.eq_dec t1 t) as [->|Hn1]; [rewrite Hme; discriminate|]. rewrite !Hc0 by assumption. apply (i_own_u s I).
  - intros t0. destruct (Nat.eq_dec t0 t) as [->|Hne]; [rewrite Hme; exact Logic.I|].
    rewrite Hc0 by exact Hne. pose proof (i_th s I t0) as H. unfold T2, T2' in *.
    destruct (cinfo (th s t0)) as [[[[b0 x0] j0] tg0]|] eqn:Ec.
    + assert (b0 <> b) by (eapply (own_ne s t t0); eauto using cinfo_pblock).
      rewrite E1, E2, E3. rewrite in_app_iff. cbn. destruct H as [[A B]|[A B]]; [left; split; [exact A|intuition]|right; auto].
    + destruct (pblock (th s t0)) as [b0|] eqn:Eb; [|exact Logic.I].
      assert (b0 <> b) by (eapply (own_ne s t t0); eauto using cinfo_pblock).
      rewrite E1, E2. rewrite in_app_iff. cbn. destruct H as [A B]. split; [intuition|exact B].
  - intros b0. rewrite !in_app_iff. cbn. intros [A|[<-|[]]]; [left; apply (i_ok_in s I); exact A|right; left; reflexivity].
  - intros b0. rewrite !in_app_iff. cbn. intros [Hb0|[<-|[]]]; [|left; right; left; reflexivity].
    destruct (i_in_ok s I b0 Hb0) as [A|(t0 & x0 & j0 & tg0 & A)]; [left; left; exact A|].
    destruct (Nat.eq_dec t0 t) as [->|Hne].
    + rewrite Hc in A. inversion A; subst. left. right. left. reflexivity.
    + right. exists t0, x0, j0, tg0. rewrite Hc0 by exact Hne. exact A.
Qed.

Lemma uniq_setf_null s x j tg' : Inv2 s ->
  forall x1 j1 x2 j2, fst (setf2 (slot s) x j (0, tg') x1 j1) = fst (setf2 (slot s) x j (0, tg') x2 j2) ->
    fst (setf2 (slot s) x j (0, tg') x1 j1) <> 0 -> x1 = x2 /\ j1 = j2.
Proof.
  intros I x1 j1 x2 j2.
  destruct (setf2_cases (slot s) x j (0, tg') x1 j1) as [(-> & -> & Q1)|(H1 & Q1)]; rewrite Q1;
    destruct (setf2_cases (slot s) x j (0, tg') x2 j2) as [(-> & -> & Q2)|(H2 & Q2)]; rewrite Q2; cbn [fst]; try (split; reflexivity); try congruence.
  apply (i_uniq s I).
Qed.

(** take-back CAS: [C9] -> [P1] *)
Lemma Inv2_back s s' t b x j tg tg' p' :
  Inv2 s -> cinfo (th s t) = Some (b, x, j, tg) -> slot s x j = (b, tg) ->
  slot s' = setf2 (slot s) x j (0, tg') -> g_in s' = g_in s -> g_out s' = g_out s -> g_ok s' = g_ok s -> nalloc s' = nalloc s ->
  th s' = upd (th s) t p' -> pblock p' = Some b -> cinfo p' = None -> Inv2 s'.
Proof.
  intros I Hc Hsl E1 E2 E3 E4 E5 Et Hp' Hc'.
  pose proof (cinfo_pblock _ _ _ _ _ Hc) as Hp.
  pose proof (i_own_lt s I t b Hp) as Hb2.
  assert (Hc0 : forall t0, t0 <> t -> th s' t0 = th s t0) by (intros; rewrite Et; apply upd_other; assumption).
  assert (Hme : th s' t = p') by (rewrite Et; apply upd_same).
  assert (Hpb : forall t0, pblock (th s' t0) = pblock (th s t0)) by (intros t0; rewrite Et; apply upd_view; congruence).
  pose proof (i_th s I t) as Ht. unfold T2, T2' in Ht. rewrite Hc in Ht. destruct Ht as [[_ Hnin]|[Hin Hout]].
  2:{ exfalso. eapply (popped_not_in_slot s b x j tg); eauto. lia. }
  constructor; rewrite ?E2, ?E3, ?E4, ?E5; try apply I.
  - intros x0 j0 b0 tg0. rewrite E1. destruct (setf2_cases (slot s) x j (0, tg') x0 j0) as [(-> & -> & Q)|(Hn & Q)]; rewrite Q.
    + intros H Hb0. inversion H; subst. congruence.
    + intros H Hb0. destruct (i_slot s I x0 j0 b0 tg0 H Hb0) as [A|[A [t0 B]]]; [left; exact A|right]. split; [exact A|].
      exists t0. destruct (Nat.eq_dec t0 t) as [->|Hne]; [|rewrite Hc0 by exact Hne; exact B].
      rewrite Hc in B. inversion B; subst. destruct Hn; congruence.
  - intros b0 A B. destruct (i_pres s I b0 A B) as (x0 & j0 & Hj0). exists x0, j0. rewrite E1.
    destruct (setf2_cases (slot s) x j (0, tg') x0 j0) as [(-> & -> & Q)|(Hn & Q)]; rewrite Q; [|exact Hj0].
    rewrite Hsl in Hj0. cbn in Hj0. subst. contradiction.
  - rewrite E1. apply uniq_setf_null. exact I.
  - intros t0 b0. rewrite Hpb. apply (i_own_lt s I).
  - intros t0 t1 b0. rewrite !Hpb. apply (i_own_u s I).
  - intros t0. destruct (Nat.eq_dec t0 t) as [->|Hne].
    + rewrite Hme. unfold T2, T2'. rewrite Hc', Hp'. rewrite E1, E2. split; [exact Hnin|].
      intros x1 j1. destruct (setf2_cases (slot s) x j (0, tg') x1 j1) as [(-> & -> & Q)|(Hn & Q)]; rewrite Q; cbn [fst]; [lia|].
      intros H. destruct (i_uniq s I x1 j1 x j) as [-> ->]; [rewrite Hsl; exact H|rewrite H; lia|]. destruct Hn; congruence.
    + rewrite Hc0 by exact Hne. pose proof (i_th s I t0) as H. unfold T2, T2' in *.
      destruct (cinfo (th s t0)) as [[[[b0 x0] j0] tg0]|] eqn:Ec.
      * rewrite E1, E2, E3. destruct H as [[A B]|A]; [left|right; exact A]. split; [|exact B].
        destruct (setf2_cases (slot s) x j (0, tg') x0 j0) as [(-> & -> & Q)|(Hn & Q)]; rewrite Q; [|exact A].
        rewrite Hsl in A. inversion A; subst. exfalso.
        eapply (own_ne s t t0); eauto using cinfo_pblock.
      * destruct (pblock (th s t0)) as [b0|] eqn:Eb; [|exact Logic.I]. rewrite E1, E2. destruct H as [A B]. split; [exact A|].
        intros x1 j1. destruct (setf2_cases (slot s) x j (0, tg') x1 j1) as [(-> & -> & Q)|(Hn & Q)]; rewrite Q; [|apply B]. cbn [fst].
        pose proof (i_own_lt s I t0 b0 Eb). lia.
  - intros b0 Hb0. destruct (i_in_ok s I b0 Hb0) as [A|(t0 & x0 & j0 & tg0 & A)]; [left; exact A|right].
    destruct (Nat.eq_dec t0 t) as [->|Hne].
    + rewrite Hc in A. inversion A; subst. contradiction.
    + exists t0, x0, j0, tg0. rewrite Hc0 by exact Hne. exact A.
Qed.

(** a pop takes the value of slot (x, j) *)
Lemma Inv2_take s s' t p x j tg tg' :
  Inv2 s -> cinfo (th s t) = None -> pblock (th s t) = None -> slot s x j = (p, tg) -> p <> 0 ->
  slot s' = setf2 (slot s) x j (0, tg') -> g_in s' = commit p (g_in s) -> g_out s' = g_out s ++ [p] -> g_ok s' = g_ok s -> nalloc s' = nalloc s ->
  th s' = upd (th s) t Idle -> Inv2 s'.
Proof.
  intros I Hc Hpb0 Hsl Hp E1 E2 E3 E4 E5 Et.
  assert (Hc0 : forall t0, t0 <> t -> th s' t0 = th s t0) by (intros; rewrite Et; apply upd_other; assumption).
  assert (Hme : th s' t = Idle) by (rewrite Et; apply upd_same).
  assert (Hp2 : 2 <= p < nalloc s) by (pose proof (in_slot_known s I x j) as H; rewrite Hsl in H; apply H; exact Hp).
  assert (Hnout : ~ In p (g_out s)).
  { destruct (i_slot s I x j p tg Hsl Hp) as [[_ A]|[A _]]; [exact A|]. intros H. apply A. apply (i_incl s I). exact H. }
  assert (Hother : forall x0 j0, (x0 <> x \/ j0 <> j) -> fst (slot s x0 j0) <> p).
  { intros x0 j0 Hn H. destruct (i_uniq s I x0 j0 x j) as [-> ->]; [rewrite Hsl; exact H|rewrite H; exact Hp|]. destruct Hn; congruence. }
  constructor; rewrite ?E2, ?E3, ?E4, ?E5; try apply I.
  - intros b0. rewrite commit_in. intros [A| ->]; [apply (i_in_lt s I); exact A|exact Hp2].
  - apply commit_nodup. apply I.
  - apply NoDup_snoc; [apply I|exact Hnout].
  - intros y. rewrite in_app_iff, commit_in. cbn. intros [A|[<-|[]]]; [left; apply (i_incl s I); exact A|right; reflexivity].
  - intros x0 j0 b0 tg0. rewrite E1. destruct (setf2_cases (slot s) x j (0, tg') x0 j0) as [(-> & -> & Q)|(Hn & Q)]; rewrite Q.
    + intros H Hb0. inversion H; subst. congruence.
    + intros H Hb0. assert (Hbp : b0 <> p) by (intros ->; apply (Hother x0 j0 Hn); rewrite H; reflexivity).
      rewrite commit_in, in_app_iff. cbn.
      destruct (i_slot s I x0 j0 b0 tg0 H Hb0) as [[A B]|[A [t0 B]]]; [left; split; [left; exact A|intuition]|right].
      split; [intuition|]. exists t0. destruct (Nat.eq_dec t0 t) as [->|Hne]; [congruence|rewrite Hc0 by exact Hne; exact B].
  - intros b0. rewrite commit_in, in_app_iff. cbn. intros A B.
    assert (Hbp : b0 <> p) by (intros ->; apply B; right; left; reflexivity).
    destruct A as [A|A]; [|contradiction]. destruct (i_pres s I b0 A ltac:(intuition)) as (x0 & j0 & Hj0).
    exists x0, j0. rewrite E1. destruct (setf2_cases (slot s) x j (0, tg') x0 j0) as [(-> & -> & Q)|(Hn & Q)]; rewrite Q; [|exact Hj0].
    rewrite Hsl in Hj0. cbn in Hj0. congruence.
  - rewrite E1. apply uniq_setf_null. exact I.
  - intros t0 b0. destruct (Nat.eq_dec t0 t) as [->|Hne]; [rewrite Hme; discriminate|rewrite Hc0 by exact Hne; apply (i_own_lt s I)].
  - intros t0 t1 b0. destruct (Nat.eq_dec t0 t) as [->|Hn0]; [rewrite Hme; discriminate|].
    destruct (Nat.eq_dec t1 t) as [->|Hn1]; [rewrite Hme; discriminate|]. rewrite !Hc0 by assumption. apply (i_own_u s I).
  - intros t0. destruct (Nat.eq_dec t0 t) as [->|Hne]; [rewrite Hme; exact Logic.I|].
    rewrite Hc0 by exact Hne. pose proof (i_th s I t0) as H. unfold T2, T2' in *.
    destruct (cinfo (th s t0)) as [[[[b0 x0] j0] tg0]|] eqn:Ec.
    + rewrite E1, E2, E3. rewrite commit_in, in_app_iff. cbn. destruct H as [[A B]|[A B]]; [|right; auto].
      destruct (setf2_cases (slot s) x j (0, tg') x0 j0) as [(-> & -> & Q)|(Hn & Q)]; rewrite Q.
      * rewrite Hsl in A. inversion A; subst. right. auto.
      * left. split; [exact A|]. intros [C| ->]; [contradiction|].
        apply (Hother x0 j0 Hn). rewrite A. reflexivity.
    + destruct (pblock (th s t0)) as [b0|] eqn:Eb; [|exact Logic.I]. rewrite E1, E2. rewrite commit_in. destruct H as [A B]. split.
      * intros [C| ->]; [contradiction|]. apply (B x j). rewrite Hsl. reflexivity.
      * intros x1 j1. destruct (setf2_cases (slot s) x j (0, tg') x1 j1) as [(-> & -> & Q)|(Hn & Q)]; rewrite Q; [|apply B]. cbn [fst].
        pose proof (i_own_lt s I t0 b0 Eb). lia.
  - intros b0 A. rewrite commit_in. left. apply (i_ok_in s I). exact A.
  - intros b0. rewrite commit_in. intros [Hb0| ->].
    + destruct (i_in_ok s I b0 Hb0) as [A|(t0 & x0 & j0 & tg0 & A)]; [left; exact A|right]. exists t0, x0, j0, tg0.
      destruct (Nat.eq_dec t0 t) as [->|Hne]; [congruence|]. rewrite Hc0 by exact Hne. exact A.
    + destruct (i_slot s I x j p tg Hsl Hp) as [[A _]|[_ [t0 B]]].
      * destruct (i_in_ok s I p A) as [C|(t0 & x0 & j0 & tg0 & C)]; [left; exact C|right]. exists t0, x0, j0, tg0.
        destruct (Nat.eq_dec t0 t) as [->|Hne]; [congruence|]. rewrite Hc0 by exact Hne. exact C.
      * right. exists t0, x, j, tg. destruct (Nat.eq_dec t0 t) as [->|Hne]; [congruence|]. rewrite Hc0 by exact Hne. exact B.
Qed.

Set Default Proof Using "All".
Section L2.
  Variable k : N.
  Hypothesis Hk : 1 <= k.
  Notation step := (step k).

  Ltac frame Iv E :=
    eapply (Inv2_frame _ _ _ _ Iv); sim; try reflexivity; try lia;
    rewrite E; cbn [cinfo pblock cblock]; rewrite ?pblock_kpc, ?cinfo_kpc; reflexivity.

  Lemma Inv2_step s a s' es : InvA k s -> Inv2 s -> step s a = Some (s', es) -> Inv2 s'.
  Proof.
    intros IA Iv Hst. unfold KfqDefs.step in Hst.
    destruct a as [t o|t r].
    - destruct (th s t) eqn:E; try discriminate. inversion Hst; subst; clear Hst. frame Iv E.
    - pose proof (a_th k s IA t) as Hme.
      destruct (th s t) eqn:E; try discriminate; try (match goal with o : op |- _ => destruct o end);
        cbn [TA] in Hme; brk Hst; inversion Hst; subst; clear Hst.
      all: try (frame Iv E).
      + eapply (Inv2_alloc _ _ t Iv); sim; try reflexivity; rewrite E; reflexivity.
      + eapply (Inv2_ins _ _ t b (fst tl) j otag (otag + 1) _ Iv); sim; try reflexivity; try (rewrite E; reflexivity); assumption.
      + eapply (Inv2_commit _ _ t b (fst tl) j tg Iv); sim; try reflexivity; rewrite E; reflexivity.
      + eapply (Inv2_commit _ _ t b (fst tl) j tg Iv); sim; try reflexivity; rewrite E; reflexivity.
      + eapply (Inv2_commit _ _ t b (fst tl) j tg Iv); sim; try reflexivity; rewrite E; reflexivity.
      + eapply (Inv2_back _ _ t b (fst tl) j tg (tg + 1) _ Iv); sim; try reflexivity; try (rewrite E; reflexivity); assumption.
      + eapply (Inv2_commit _ _ t b (fst tl) j tg Iv); sim; try reflexivity; rewrite E; reflexivity.
      + eapply (Inv2_take _ _ t p (fst hd) j tg (tg + 1) Iv); sim; try reflexivity; try (rewrite E; reflexivity); try assumption. apply Hme.
  Qed.

  Theorem Inv2_reach st : reach init step st -> Inv2 st.
  Proof.
    apply (inv_rule_aux _ _ _ init step (InvA k) Inv2).
    - apply InvA_reach; assumption.
    - exact Inv2_init.
    - intros s a s' es J _ Iv Hst. eapply Inv2_step; eauto.
  Qed.
End L2.
