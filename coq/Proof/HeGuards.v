(** Layer G: the hazard era slots of a thread: guards, reference counts, free list, the last_hazard_era cache.
    [GS] = what holds of the thread's control block and guards at every program point (the slot accounting of the
    sequential model Model/HeSlotsDefs.v, restated on the step-level model: guard_cnt = number of guards on the slot, a
    slot on the free list is not referenced, a referenced slot publishes an era, the cache points to a referenced slot
    whose era is not older than last_era); [GT] adds what depends on the program point. *)
From Coq Require Import NArith List Bool Arith Lia PeanoNat.
From XV Require Import Conc.Lts Conc.Ev Model.HeDefs Proof.HeBase.
Import ListNotations.

Fixpoint chain (f : nat -> slotv) (l : list nat) : Prop :=
  match l with [] => True | i :: l' => f i = VLink (hd_opt l') /\ chain f l' end.

Lemma chain_ext f f' l : (forall i, In i l -> f' i = f i) -> chain f l -> chain f' l.
Proof.
  induction l as [|i l IH]; intros He H; [exact I|]. destruct H as [H1 H2]. split.
  - rewrite He; [exact H1|left; reflexivity].
  - apply IH; [|exact H2]. intros j Hj. apply He. right. exact Hj.
Qed.

Definition is_tmp (k : ctx) : bool := match k with KHold _ _ => false | _ => true end.
Definition uses_tmp (p : pc) : bool :=
  match p with
  | G0 k | Q1 k _ | Q2 k _ _ | W0 k _ | W1 k _ _ _ | W2 k _ _ _ | A1 k _ _ | A2 k _ _ | A3 k _ _ _ | I0 k _ | I1 k _ _ | I2 k _
  | H1 k _ | E1 k _ _ | E2 k _ _ | U1 k _ | U2 k _ | QR k => is_tmp k
  | C1 _ _ | R1 _ _ | R2 _ | RR _ => true
  | _ => false
  end.

(** number of elements of [l] satisfying [f] *)
Definition cntf (f : nat -> bool) (l : list nat) : nat := length (filter f l).

Lemma cntf_ext f f' l : (forall j, In j l -> f' j = f j) -> cntf f' l = cntf f l.
Proof.
  unfold cntf. induction l as [|a l IH]; intros H; [reflexivity|]. cbn [filter].
  rewrite (H a (or_introl eq_refl)). assert (IH' := IH (fun j Hj => H j (or_intror Hj))).
  destruct (f a); cbn [length]; lia.
Qed.

Lemma cntf_upd f f' l g :
  NoDup l -> In g l -> (forall j, j <> g -> f' j = f j) ->
  cntf f' l + (if f g then 1 else 0) = cntf f l + (if f' g then 1 else 0).
Proof.
  unfold cntf. induction l as [|a l IH]; intros Hnd Hin Ho; [destruct Hin|].
  apply NoDup_cons_iff in Hnd. destruct Hnd as [Hna Hnd]. cbn [filter].
  destruct (Nat.eq_dec a g) as [->|Hne].
  - assert (He : filter f' l = filter f l).
    { apply filter_ext_in. intros j Hj. apply Ho. intros ->. contradiction. }
    rewrite He. destruct (f g), (f' g); cbn [length]; lia.
  - destruct Hin as [Hc|Hin]; [contradiction|]. rewrite (Ho a Hne). specialize (IH Hnd Hin Ho).
    destruct (f a); cbn [length]; lia.
Qed.

Lemma cntf_zero f l : (forall j, In j l -> f j = false) -> cntf f l = 0.
Proof.
  unfold cntf. induction l as [|a l IH]; intros H; [reflexivity|]. cbn [filter].
  rewrite (H a (or_introl eq_refl)). apply IH. intros j Hj. apply H. right. exact Hj.
Qed.

Lemma cntf_pos f l g : In g l -> f g = true -> 1 <= cntf f l.
Proof.
  unfold cntf. induction l as [|a l IH]; intros Hin Hf; [destruct Hin|]. cbn [filter].
  destruct Hin as [->|Hin]; [rewrite Hf; cbn [length]; lia|]. specialize (IH Hin Hf). destruct (f a); cbn [length]; lia.
Qed.

Lemma cntf_two f l g g' : NoDup l -> In g l -> In g' l -> g <> g' -> f g = true -> f g' = true -> 2 <= cntf f l.
Proof.
  unfold cntf. induction l as [|a l IH]; intros Hnd Hin Hin' Hne Hf Hf'; [destruct Hin|].
  apply NoDup_cons_iff in Hnd. destruct Hnd as [Hna Hnd]. cbn [filter].
  destruct Hin as [->|Hin].
  - destruct Hin' as [Hc|Hin']; [congruence|]. rewrite Hf. cbn [length]. pose proof (cntf_pos f l g' Hin' Hf'). unfold cntf in *. lia.
  - destruct Hin' as [->|Hin'].
    + rewrite Hf'. cbn [length]. pose proof (cntf_pos f l g Hin Hf). unfold cntf in *. lia.
    + specialize (IH Hnd Hin Hin' Hne Hf Hf'). destruct (f a); cbn [length]; lia.
Qed.

Lemma cntf_one_inv f l g : NoDup l -> In g l -> f g = true -> cntf f l = 1 -> forall g', In g' l -> f g' = true -> g' = g.
Proof.
  intros Hnd Hin Hf H1 g' Hin' Hf'. destruct (Nat.eq_dec g' g) as [->|Hne]; [reflexivity|].
  pose proof (cntf_two f l g g' Hnd Hin Hin' (fun H => Hne (eq_sym H)) Hf Hf'). lia.
Qed.

Lemma cntf_pos_inv f l : 1 <= cntf f l -> exists g, In g l /\ f g = true.
Proof.
  unfold cntf. induction l as [|a l IH]; cbn [filter length]; intros H; [lia|].
  destruct (f a) eqn:E; [exists a; split; [left; reflexivity|exact E]|].
  destruct (IH H) as (g & H1 & H2). exists g. split; [right; exact H1|exact H2].
Qed.

Section G.
Variable nslots : nat.

Definition ctx_ok (k : ctx) : Prop := match k with KHold _ g => g < nslots | _ => True end.
Definition sk_exit (k : sctx) : Prop := match k with SExit => True | SRepl => False end.

Definition init_link (j : nat) : slotv := VLink (if j <? 2 then Some (S j) else None).

(** guard [g] refers to slot [i] *)
Definition on (x : tls) (i g : nat) : bool := oeqb (he (gd x g)) (Some i).
(** the number of guards of the thread that refer to slot [i] *)
Definition ng (x : tls) (i : nat) : nat := cntf (on x i) (seq 0 (S nslots)).

Lemma on_true x i g : on x i g = true <-> he (gd x g) = Some i.
Proof. unfold on. apply oeqb_eq. Qed.
Lemma on_false x i g : on x i g = false <-> he (gd x g) <> Some i.
Proof. rewrite <- on_true. destruct (on x i g); split; intros; congruence. Qed.

Lemma in_guards g : In g (seq 0 (S nslots)) <-> g <= nslots.
Proof. rewrite in_seq. lia. Qed.

(** ** the part of the invariant that does not depend on the program point *)
Record GS (st : state) (t : nat) : Prop := mkGS {
  g_clk : 1 <= clock st;
  g_lt : forall g i, he (gd (tl st t) g) = Some i -> i < 3 /\ rcd (tl st t) <> None;
  g_hi : forall g, nslots < g -> he (gd (tl st t) g) = None;
  g_hint : hint (tl st t) = hd_opt (fl (tl st t));
  g_fl : NoDup (fl (tl st t)) /\ forall i, In i (fl (tl st t)) -> i < 3;
  g_chain : forall b, rcd (tl st t) = Some b -> chain (hz st b) (fl (tl st t));
  g_nofl : rcd (tl st t) = None -> fl (tl st t) = [];
  g_cnt : forall b i, rcd (tl st t) = Some b -> i < 3 -> cnt st b i = ng (tl st t) i;
  g_flc : forall b i, rcd (tl st t) = Some b -> In i (fl (tl st t)) -> cnt st b i = 0;
  g_era : forall b i, rcd (tl st t) = Some b -> i < 3 -> 1 <= cnt st b i -> exists e, hz st b i = VEra e;
  g_le : forall b i e, rcd (tl st t) = Some b -> hz st b i = VEra e -> e <= clock st;
  g_last : forall b l, rcd (tl st t) = Some b -> lhe st b = Some l ->
           l < 3 /\ 1 <= cnt st b l /\ lera st b <= era_of (hz st b l);
  g_ptr : forall g n, ptr (gd (tl st t) g) = Some n -> he (gd (tl st t) g) <> None }.

(** the guard an acquire is working on *)
Definition acq_of (p : pc) : option ctx :=
  match p with
  | G0 k | Q1 k _ | Q2 k _ _ | W0 k _ | W1 k _ _ _ | W2 k _ _ _ | A1 k _ _ | A2 k _ _ | A3 k _ _ _ | I0 k _ | I1 k _ _ | I2 k _
  | H1 k _ | E1 k _ _ | E2 k _ _ | U1 k _ | U2 k _ | QR k => Some k
  | _ => None
  end.
Definition in_acq (p : pc) (g : nat) : Prop := match acq_of p with Some k => g = guard_of nslots k | None => False end.

(** the guard's slot is referenced by this guard only *)
Definition sole (st : state) (x : tls) (g : nat) : Prop :=
  forall b i, rcd x = Some b -> he (gd x g) = Some i -> cnt st b i = 1.

(** what the program point of thread t says about its guards and slots *)
Definition pcG (st : state) (x : tls) (p : pc) : Prop :=
  let none := forall g, he (gd x g) = None in
  match p with
  | Begin (OHold _ g) | Begin (ODeref g) | Begin (ODrop g) => g < nslots
  | D1 g => g < nslots /\ he (gd x g) <> None /\ sole st x g
  | G0 k => ctx_ok k /\ he (gd x (guard_of nslots k)) <> None
  | Q1 k prev | Q2 k prev _ =>
    ctx_ok k /\ prev <= clock st /\
    (forall b i, rcd x = Some b -> he (gd x (guard_of nslots k)) = Some i -> hz st b i = VEra prev) /\
    (he (gd x (guard_of nslots k)) = None -> prev = 0)
  | W0 k e | W1 k e _ _ | W2 k e _ _ | A1 k e _ | A2 k e _ | A3 k e _ _ => ctx_ok k /\ e <= clock st /\ none
  | I0 k e => ctx_ok k /\ e <= clock st /\ none /\ fl x = []
  | I1 k e i => ctx_ok k /\ e <= clock st /\ none /\ fl x = [] /\ i < 3 /\ forall b j, rcd x = Some b -> j < i -> hz st b j = init_link j
  | I2 k e => ctx_ok k /\ e <= clock st /\ none
  | H1 k e => ctx_ok k /\ e <= clock st /\ he (gd x (guard_of nslots k)) = None /\ ptr (gd x (guard_of nslots k)) = None
  | E1 k e i => ctx_ok k /\ e <= clock st /\ he (gd x (guard_of nslots k)) = None /\ ptr (gd x (guard_of nslots k)) = None /\
                i < 3 /\ ~ In i (fl x) /\ (forall b, rcd x = Some b -> cnt st b i = 0) /\ rcd x <> None
  | E2 k e i => ctx_ok k /\ e <= clock st /\ he (gd x (guard_of nslots k)) = None /\ ptr (gd x (guard_of nslots k)) = None /\
                i < 3 /\ ~ In i (fl x) /\ (forall b, rcd x = Some b -> cnt st b i = 0 /\ hz st b i = VEra e) /\ rcd x <> None
  | U1 k e => ctx_ok k /\ e <= clock st /\ he (gd x (guard_of nslots k)) <> None /\ sole st x (guard_of nslots k) /\
              (forall b i, rcd x = Some b -> he (gd x (guard_of nslots k)) = Some i -> era_of (hz st b i) <= e)
  | U2 k e => ctx_ok k /\ e <= clock st /\ he (gd x (guard_of nslots k)) <> None /\
              (forall b i, rcd x = Some b -> he (gd x (guard_of nslots k)) = Some i -> hz st b i = VEra e)
  | QR k => ctx_ok k /\ he (gd x (guard_of nslots k)) <> None /\ sole st x (guard_of nslots k)
  | R2 _ | RR _ => he (gd x nslots) <> None /\ sole st x nslots
  | X0 g => g < nslots /\ he (gd x g) <> None /\ sole st x g /\ forall j, j < g -> he (gd x j) = None
  | S0 k => sk_exit k -> none
  | S1 s | S2 s | S3 s | S4 s | S5 s _ _ | S6 s _ _ _ | S7 s => sk_exit (s_k s) -> none
  | X2 | X3 _ | X4 | X5 | Done => none
  | _ => True
  end.

Record GT (st : state) (t : nat) : Prop := mkGT {
  g_s : GS st t;
  g_tmp : uses_tmp (th st t) = false -> he (gd (tl st t) nslots) = None;
  g_rest : forall g, ~ in_acq (th st t) g -> he (gd (tl st t) g) <> None -> ptr (gd (tl st t) g) <> None;
  g_pc : pcG st (tl st t) (th st t) }.

Definition InvG (st : state) : Prop := forall t, GT st t.

(** a thread without a control block has no hazard era *)
Lemma no_rcd_no_he st t : GS st t -> rcd (tl st t) = None -> forall g, he (gd (tl st t) g) = None.
Proof.
  intros HG Hr g. destruct (he (gd (tl st t) g)) eqn:E; [|reflexivity].
  destruct (g_lt st t HG g n E) as [_ H]. contradiction.
Qed.

Lemma he_le st t g i : GS st t -> he (gd (tl st t) g) = Some i -> g <= nslots.
Proof.
  intros HG H. destruct (Nat.le_gt_cases g nslots) as [Hl|Hl]; [exact Hl|]. rewrite (g_hi st t HG g Hl) in H. discriminate.
Qed.

(** a guard on slot i: the reference count is positive; two guards: at least 2 *)
Lemma on_cnt st t b g i : GS st t -> rcd (tl st t) = Some b -> he (gd (tl st t) g) = Some i -> 1 <= cnt st b i.
Proof.
  intros HG Hb Hg. destruct (g_lt st t HG g i Hg) as [Hi _]. rewrite (g_cnt st t HG b i Hb Hi).
  apply (cntf_pos _ _ g); [apply in_guards; apply (he_le st t g i HG Hg)|apply on_true; exact Hg].
Qed.

Lemma sole_inj st t b g g' i :
  GS st t -> rcd (tl st t) = Some b -> he (gd (tl st t) g) = Some i -> cnt st b i = 1 -> he (gd (tl st t) g') = Some i -> g' = g.
Proof.
  intros HG Hb Hg Hc Hg'. destruct (g_lt st t HG g i Hg) as [Hi _]. rewrite (g_cnt st t HG b i Hb Hi) in Hc.
  apply (cntf_one_inv (on (tl st t) i) (seq 0 (S nslots)) g); try assumption.
  - apply seq_NoDup.
  - apply in_guards. apply (he_le st t g i HG Hg).
  - apply on_true. exact Hg.
  - apply in_guards. apply (he_le st t g' i HG Hg').
  - apply on_true. exact Hg'.
Qed.

Lemma ng_zero x i : (forall g, he (gd x g) = None) -> ng x i = 0.
Proof. intros H. apply cntf_zero. intros j _. apply on_false. rewrite H. discriminate. Qed.

(** no guard refers to a slot: no reference counts, the cache is empty *)
Lemma none_cnt st t b : GS st t -> rcd (tl st t) = Some b -> (forall g, he (gd (tl st t) g) = None) ->
  (forall i, i < 3 -> cnt st b i = 0) /\ lhe st b = None.
Proof.
  intros HG Hb Hn. assert (Hc : forall i, i < 3 -> cnt st b i = 0).
  { intros i Hi. rewrite (g_cnt st t HG b i Hb Hi). apply ng_zero. exact Hn. }
  split; [exact Hc|]. destruct (lhe st b) as [l|] eqn:E; [|reflexivity].
  destruct (g_last st t HG b l Hb E) as (H1 & H2 & _). rewrite (Hc l H1) in H2. lia.
Qed.

(** how [ng] changes when guard [g] is replaced *)
Lemma ng_upd x x' g v i :
  g <= nslots -> (forall g', gd x' g' = upd (gd x) g v g') ->
  ng x' i + (if on x i g then 1 else 0) = ng x i + (if oeqb (he v) (Some i) then 1 else 0).
Proof.
  intros Hg Hx. unfold ng.
  pose proof (cntf_upd (on x i) (on x' i) (seq 0 (S nslots)) g (seq_NoDup _ _) (proj2 (in_guards g) Hg)) as H.
  assert (Ho : forall j, j <> g -> on x' i j = on x i j).
  { intros j Hne. unfold on. rewrite Hx. upds. reflexivity. }
  specialize (H Ho). assert (Hv : on x' i g = oeqb (he v) (Some i)) by (unfold on; rewrite Hx; upds; reflexivity).
  rewrite Hv in H. exact H.
Qed.

Lemma ng_same x x' i : (forall g, he (gd x' g) = he (gd x g)) -> ng x' i = ng x i.
Proof. intros H. apply cntf_ext. intros j _. unfold on. rewrite H. reflexivity. Qed.

(** ** frame: what [GS] of thread t looks at is unchanged (the clock may advance) *)
Lemma GS_ext st st' t :
  clock st <= clock st' ->
  rcd (tl st' t) = rcd (tl st t) -> hint (tl st' t) = hint (tl st t) -> fl (tl st' t) = fl (tl st t) ->
  (forall g, gd (tl st' t) g = gd (tl st t) g) ->
  (forall b i, rcd (tl st t) = Some b -> hz st' b i = hz st b i /\ cnt st' b i = cnt st b i) ->
  (forall b, rcd (tl st t) = Some b -> lhe st' b = lhe st b /\ lera st' b = lera st b) ->
  GS st t -> GS st' t.
Proof.
  intros Hc Hr Hh Hf Hg Hz Hl [I0 I1 I2 I3 I4 I5 I6 I7 I8 I9 I10 I11 I12].
  assert (Hng : forall i, ng (tl st' t) i = ng (tl st t) i) by (intros i; apply ng_same; intros g; rewrite Hg; reflexivity).
  constructor; rewrite ?Hr, ?Hh, ?Hf; try assumption.
  - lia.
  - intros g i. rewrite Hg. apply I1.
  - intros g. rewrite Hg. apply I2.
  - intros b Hb. apply (chain_ext (hz st b)); [intros i _; apply (Hz b i Hb)|apply I5; exact Hb].
  - intros b i Hb Hi. rewrite Hng. destruct (Hz b i Hb) as [_ ->]. apply I7; assumption.
  - intros b i Hb Hi. destruct (Hz b i Hb) as [_ ->]. apply I8; assumption.
  - intros b i Hb Hi. destruct (Hz b i Hb) as [-> ->]. apply I9; assumption.
  - intros b i e Hb. destruct (Hz b i Hb) as [-> _]. intros H. pose proof (I10 b i e Hb H). lia.
  - intros b l Hb. destruct (Hl b Hb) as [-> ->]. intros H. destruct (Hz b l Hb) as [-> ->]. apply I11; assumption.
  - intros g n. rewrite Hg. apply I12.
Qed.

(** ** release_guard of a guard whose slot is shared: the reference count drops, the guard is emptied *)
Lemma GS_unshare st t b i g :
  GS st t -> rcd (tl st t) = Some b -> he (gd (tl st t) g) = Some i -> cnt st b i <> 1 -> GS (unshare st t b i g) t.
Proof.
  intros HG Hb Hg Hc. pose proof HG as [I0 I1 I2 I3 I4 I5 I6 I7 I8 I9 I10 I11 I12].
  pose proof (he_le st t g i HG Hg) as Hle. destruct (I1 g i Hg) as [Hi _].
  pose proof (on_cnt st t b g i HG Hb Hg) as Hpos.
  assert (Hgd : forall g', g' <> g -> gd (tl (unshare st t b i g) t) g' = gd (tl st t) g') by (intros g' Hne; unfold unshare; prj; upds; prj; upds; reflexivity).
  assert (Hgg : gd (tl (unshare st t b i g) t) g = g0) by (unfold unshare; prj; upds; prj; upds; reflexivity).
  assert (Hni : ~ In i (fl (tl st t))) by (intros Hin; rewrite (I8 b i Hb Hin) in Hpos; lia).
  constructor; unfold unshare in *; prj; upds; prj.
  - exact I0.
  - intros g' j H. destruct (Nat.eq_dec g' g) as [->|Hne]; upds_in H; [discriminate|apply (I1 g' j H)].
  - intros g' H. destruct (Nat.eq_dec g' g) as [->|Hne]; upds; [reflexivity|apply I2; exact H].
  - exact I3.
  - exact I4.
  - exact I5.
  - exact I6.
  - intros b' j Hb' Hj. rewrite Hb in Hb'. injection Hb' as <-. rewrite upd2_same_block.
    match goal with |- context [ng ?x' j] => pose proof (ng_upd (tl st t) x' g g0 j Hle (fun _ => eq_refl)) as Hn end. cbn [g0 he oeqb] in Hn.
    destruct (Nat.eqb_spec j i) as [->|Hne].
    + assert (Ho : on (tl st t) i g = true) by (apply on_true; exact Hg). rewrite Ho in Hn. rewrite (I7 b i Hb Hi). unfold g0 in *. lia.
    + assert (Ho : on (tl st t) j g = false) by (apply on_false; rewrite Hg; congruence). rewrite Ho in Hn. rewrite (I7 b j Hb Hj). unfold g0 in *. lia.
  - intros b' j Hb' Hj. rewrite Hb in Hb'. injection Hb' as <-. rewrite upd2_same_block.
    destruct (Nat.eqb_spec j i) as [->|Hne]; [contradiction|apply (I8 b j Hb Hj)].
  - intros b' j Hb' Hj. rewrite Hb in Hb'. injection Hb' as <-. rewrite upd2_same_block.
    destruct (Nat.eqb_spec j i) as [->|Hne]; intros H; apply (I9 b _ Hb Hj); lia.
  - exact I10.
  - intros b' l Hb' Hl. rewrite Hb in Hb'. injection Hb' as <-. destruct (I11 b l Hb Hl) as (H1 & H2 & H3).
    split; [exact H1|]. split; [|exact H3]. rewrite upd2_same_block. destruct (Nat.eqb_spec l i) as [->|Hne]; lia.
  - intros g' n H. destruct (Nat.eq_dec g' g) as [->|Hne]; upds_in H; [discriminate|]. upds. apply (I12 g' n H).
Qed.

(** ** release_hazard_era of the last guard on the slot: the slot goes back to the free list *)
Lemma GS_reset st t b i g :
  GS st t -> rcd (tl st t) = Some b -> he (gd (tl st t) g) = Some i -> cnt st b i = 1 -> GS (reset_guard st t b i g) t.
Proof.
  intros HG Hb Hg Hc. pose proof HG as [I0 I1 I2 I3 I4 I5 I6 I7 I8 I9 I10 I11 I12].
  pose proof (he_le st t g i HG Hg) as Hle. destruct (I1 g i Hg) as [Hi _].
  destruct I4 as [Hnd Hfl].
  assert (Hni : ~ In i (fl (tl st t))) by (intros Hin; rewrite (I8 b i Hb Hin) in Hc; lia).
  constructor; unfold reset_guard in *; prj; upds; prj.
  - exact I0.
  - intros g' j H. destruct (Nat.eq_dec g' g) as [->|Hne]; upds_in H; [discriminate|]. apply (I1 g' j H).
  - intros g' H. destruct (Nat.eq_dec g' g) as [->|Hne]; upds; [reflexivity|apply I2; exact H].
  - reflexivity.
  - split; [constructor; assumption|]. intros j [<-|Hj]; [exact Hi|apply Hfl; exact Hj].
  - intros b' Hb'. rewrite Hb in Hb'. injection Hb' as <-. cbn [chain]. split.
    + rewrite upd2_same, I3. reflexivity.
    + apply (chain_ext (hz st b)); [|apply I5; exact Hb]. intros j Hj. rewrite upd2_same_block.
      destruct (Nat.eqb_spec j i) as [->|_]; [contradiction|reflexivity].
  - intros H. congruence.
  - intros b' j Hb' Hj. rewrite Hb in Hb'. injection Hb' as <-. rewrite upd2_same_block.
    match goal with |- context [ng ?x' j] => pose proof (ng_upd (tl st t) x' g g0 j Hle (fun _ => eq_refl)) as Hn end. cbn [g0 he oeqb] in Hn.
    destruct (Nat.eqb_spec j i) as [->|Hne].
    + assert (Ho : on (tl st t) i g = true) by (apply on_true; exact Hg). rewrite Ho in Hn. rewrite (I7 b i Hb Hi) in Hc. unfold g0 in *. lia.
    + assert (Ho : on (tl st t) j g = false) by (apply on_false; rewrite Hg; congruence). rewrite Ho in Hn. rewrite (I7 b j Hb Hj). unfold g0 in *. lia.
  - intros b' j Hb' Hj. rewrite Hb in Hb'. injection Hb' as <-. rewrite upd2_same_block.
    destruct (Nat.eqb_spec j i) as [->|Hne]; [reflexivity|]. destruct Hj as [Hj|Hj]; [congruence|apply (I8 b j Hb Hj)].
  - intros b' j Hb' Hj. rewrite Hb in Hb'. injection Hb' as <-. rewrite !upd2_same_block.
    destruct (Nat.eqb_spec j i) as [->|Hne]; [lia|apply (I9 b j Hb Hj)].
  - intros b' j e Hb'. rewrite Hb in Hb'. injection Hb' as <-. rewrite upd2_same_block. destruct (Nat.eqb_spec j i) as [->|Hne]; [discriminate|apply (I10 b j e Hb)].
  - intros b' l Hb'. rewrite Hb in Hb'. injection Hb' as <-. upds. destruct (oeqb (lhe st b) (Some i)) eqn:E; [discriminate|]. intros Hl.
    assert (Hli : l <> i) by (intros ->; rewrite Hl in E; cbn in E; rewrite Nat.eqb_refl in E; discriminate).
    destruct (I11 b l Hb Hl) as (H1 & H2 & H3). rewrite !upd2_same_block.
    destruct (Nat.eqb_spec l i) as [->|_]; [contradiction|]. tauto.
  - intros g' n H. destruct (Nat.eq_dec g' g) as [->|Hne]; upds_in H; [discriminate|]. upds. apply (I12 g' n H).
Qed.

(** ** alloc_hazard_era, cache hit: the guard shares the cached slot *)
Lemma GS_share st t b l g v :
  GS st t -> rcd (tl st t) = Some b -> lhe st b = Some l -> he (gd (tl st t) g) = None -> g <= nslots ->
  he v = Some l -> ptr v = ptr (gd (tl st t) g) ->
  GS (set_gd t g v (w_cnt (upd2 (cnt st) b l (S (cnt st b l))) st)) t.
Proof.
  intros HG Hb Hl Hg Hle Hv1 Hv2. pose proof HG as [I0 I1 I2 I3 I4 I5 I6 I7 I8 I9 I10 I11 I12].
  destruct (I11 b l Hb Hl) as (Hl3 & Hpos & Hera).
  assert (Hpg : ptr (gd (tl st t) g) = None).
  { destruct (ptr (gd (tl st t) g)) eqn:E; [|reflexivity]. exfalso. apply (I12 g n E). exact Hg. }
  constructor; unfold set_gd; prj; upds; prj.
  - exact I0.
  - intros g' j H. destruct (Nat.eq_dec g' g) as [->|Hne]; upds_in H; [|apply (I1 g' j H)].
    rewrite Hv1 in H. injection H as <-. split; [exact Hl3|congruence].
  - intros g' H. assert (g' <> g) by lia. upds. apply I2. exact H.
  - exact I3.
  - exact I4.
  - exact I5.
  - exact I6.
  - intros b' j Hb' Hj. rewrite Hb in Hb'. injection Hb' as <-. rewrite upd2_same_block.
    match goal with |- context [ng ?x' j] => pose proof (ng_upd (tl st t) x' g v j Hle (fun _ => eq_refl)) as Hn end. rewrite Hv1 in Hn. cbn [oeqb] in Hn.
    assert (Ho : on (tl st t) j g = false) by (apply on_false; rewrite Hg; discriminate). rewrite Ho in Hn.
    rewrite (Nat.eqb_sym l j) in Hn. destruct (Nat.eqb_spec j l) as [->|Hne]; [rewrite (I7 b l Hb Hl3)|rewrite (I7 b j Hb Hj)]; lia.
  - intros b' j Hb' Hj. rewrite Hb in Hb'. injection Hb' as <-. rewrite upd2_same_block.
    destruct (Nat.eqb_spec j l) as [->|Hne]; [rewrite (I8 b l Hb Hj) in Hpos; lia|apply (I8 b j Hb Hj)].
  - intros b' j Hb' Hj. rewrite Hb in Hb'. injection Hb' as <-. rewrite upd2_same_block.
    destruct (Nat.eqb_spec j l) as [->|Hne]; intros H; apply (I9 b _ Hb Hj); lia.
  - exact I10.
  - intros b' l' Hb' Hl'. rewrite Hb in Hb'. injection Hb' as <-. destruct (I11 b l' Hb Hl') as (H1 & H2 & H3).
    split; [exact H1|]. split; [|exact H3]. rewrite upd2_same_block. destruct (Nat.eqb_spec l' l) as [->|Hne]; lia.
  - intros g' n H. destruct (Nat.eq_dec g' g) as [->|Hne]; upds_in H; upds; [congruence|apply (I12 g' n H)].
Qed.

(** ** alloc_hazard_era: the first slot of the free list is taken (it is in flight until add_guard) *)
Lemma GS_take st t b i :
  GS st t -> rcd (tl st t) = Some b -> hint (tl st t) = Some i ->
  GS (set_tl t (wt_hint (link_of (hz st b i)) (wt_fl (List.tl (fl (tl st t))) (tl st t))) st) t /\
  i < 3 /\ ~ In i (List.tl (fl (tl st t))) /\ cnt st b i = 0.
Proof.
  intros HG Hb Hh. pose proof HG as [I0 I1 I2 I3 I4 I5 I6 I7 I8 I9 I10 I11 I12].
  destruct (fl (tl st t)) as [|i' fl'] eqn:Efl; [rewrite Hh in I3; discriminate|].
  rewrite Hh in I3. cbn in I3. injection I3 as <-.
  destruct I4 as [Hnd Hfl]. apply NoDup_cons_iff in Hnd. destruct Hnd as [Hni Hnd'].
  specialize (I5 b Hb). cbn [chain] in I5. destruct I5 as [Hc1 Hc2].
  cbn [List.tl]. split; [|split; [apply Hfl; left; reflexivity|split; [exact Hni|apply (I8 b i Hb); left; reflexivity]]].
  constructor; prj; upds; prj; try assumption.
  - rewrite Hc1. reflexivity.
  - split; [exact Hnd'|]. intros j Hj. apply Hfl. right. exact Hj.
  - intros b' Hb'. rewrite Hb in Hb'. injection Hb' as <-. exact Hc2.
  - intros H. congruence.
  - intros b' j Hb' Hj. apply (I8 b' j Hb'). right. exact Hj.
Qed.

(** ** set_era on a slot in flight (no guard, not on the free list) *)
Lemma GS_storeE st t b i e :
  GS st t -> rcd (tl st t) = Some b -> i < 3 -> ~ In i (fl (tl st t)) -> cnt st b i = 0 -> e <= clock st ->
  GS (w_hz (upd2 (hz st) b i (VEra e)) st) t.
Proof.
  intros HG Hb Hi Hni Hc He. pose proof HG as [I0 I1 I2 I3 I4 I5 I6 I7 I8 I9 I10 I11 I12].
  constructor; prj; try assumption.
  - intros b' Hb'. rewrite Hb in Hb'. injection Hb' as <-. apply (chain_ext (hz st b)); [|apply I5; exact Hb].
    intros j Hj. rewrite upd2_same_block. destruct (Nat.eqb_spec j i) as [->|_]; [contradiction|reflexivity].
  - intros b' j Hb' Hj. rewrite Hb in Hb'. injection Hb' as <-. rewrite upd2_same_block.
    destruct (Nat.eqb_spec j i) as [->|_]; [intros _; eexists; reflexivity|apply (I9 b j Hb Hj)].
  - intros b' j e' Hb'. rewrite Hb in Hb'. injection Hb' as <-. rewrite upd2_same_block.
    destruct (Nat.eqb_spec j i) as [->|_]; [intros H; injection H as <-; exact He|apply (I10 b j e' Hb)].
  - intros b' l Hb' Hl. rewrite Hb in Hb'. injection Hb' as <-. destruct (I11 b l Hb Hl) as (H1 & H2 & H3).
    rewrite upd2_same_block. destruct (Nat.eqb_spec l i) as [->|_]; [lia|tauto].
Qed.

(** ** add_guard; last_hazard_era = result; last_era = era; he = result *)
Lemma GS_commit st t b i e g v :
  GS st t -> rcd (tl st t) = Some b -> i < 3 -> ~ In i (fl (tl st t)) -> cnt st b i = 0 -> hz st b i = VEra e ->
  he (gd (tl st t) g) = None -> g <= nslots -> he v = Some i -> ptr v = ptr (gd (tl st t) g) ->
  GS (set_gd t g v (w_cnt (upd2 (cnt st) b i (S (cnt st b i))) (w_lhe (upd (lhe st) b (Some i)) (w_lera (upd (lera st) b e) st)))) t.
Proof.
  intros HG Hb Hi Hni Hc Hz Hg Hle Hv1 Hv2. pose proof HG as [I0 I1 I2 I3 I4 I5 I6 I7 I8 I9 I10 I11 I12].
  assert (Hpg : ptr (gd (tl st t) g) = None).
  { destruct (ptr (gd (tl st t) g)) eqn:E; [|reflexivity]. exfalso. apply (I12 g n E). exact Hg. }
  constructor; unfold set_gd; prj; upds; prj.
  - exact I0.
  - intros g' j H. destruct (Nat.eq_dec g' g) as [->|Hne]; upds_in H; [|apply (I1 g' j H)].
    rewrite Hv1 in H. injection H as <-. split; [exact Hi|congruence].
  - intros g' H. assert (g' <> g) by lia. upds. apply I2. exact H.
  - exact I3.
  - exact I4.
  - exact I5.
  - exact I6.
  - intros b' j Hb' Hj. rewrite Hb in Hb'. injection Hb' as <-. rewrite upd2_same_block.
    match goal with |- context [ng ?x' j] => pose proof (ng_upd (tl st t) x' g v j Hle (fun _ => eq_refl)) as Hn end. rewrite Hv1 in Hn. cbn [oeqb] in Hn.
    assert (Ho : on (tl st t) j g = false) by (apply on_false; rewrite Hg; discriminate). rewrite Ho in Hn.
    rewrite (Nat.eqb_sym i j) in Hn. destruct (Nat.eqb_spec j i) as [->|Hne]; [rewrite (I7 b i Hb Hi)|rewrite (I7 b j Hb Hj)]; lia.
  - intros b' j Hb' Hj. rewrite Hb in Hb'. injection Hb' as <-. rewrite upd2_same_block.
    destruct (Nat.eqb_spec j i) as [->|Hne]; [contradiction|apply (I8 b j Hb Hj)].
  - intros b' j Hb' Hj. rewrite Hb in Hb'. injection Hb' as <-. rewrite upd2_same_block.
    destruct (Nat.eqb_spec j i) as [->|Hne]; [intros _; eexists; exact Hz|apply (I9 b j Hb Hj)].
  - exact I10.
  - intros b' l Hb' Hl. rewrite Hb in Hb'. injection Hb' as <-. upds_in Hl. injection Hl as <-. upds.
    split; [exact Hi|]. rewrite upd2_same. split; [lia|]. rewrite Hz. cbn. lia.
  - intros g' n H. destruct (Nat.eq_dec g' g) as [->|Hne]; upds_in H; upds; [congruence|apply (I12 g' n H)].
Qed.

(** ** set_era on the guard's own slot (referenced by this guard only); this->ptr is not protected any more *)
Lemma GS_storeU st t b i e g v :
  GS st t -> rcd (tl st t) = Some b -> he (gd (tl st t) g) = Some i -> e <= clock st -> era_of (hz st b i) <= e ->
  he v = Some i -> ptr v = ptr (gd (tl st t) g) ->
  GS (set_gd t g v (w_hz (upd2 (hz st) b i (VEra e)) st)) t.
Proof.
  intros HG Hb Hg He Hold Hv1 Hv2. pose proof HG as [I0 I1 I2 I3 I4 I5 I6 I7 I8 I9 I10 I11 I12].
  pose proof (he_le st t g i HG Hg) as Hle. destruct (I1 g i Hg) as [Hi _].
  pose proof (on_cnt st t b g i HG Hb Hg) as Hpos.
  assert (Hni : ~ In i (fl (tl st t))) by (intros Hin; rewrite (I8 b i Hb Hin) in Hpos; lia).
  assert (Hhe : forall g', he (upd (gd (tl st t)) g v g') = he (gd (tl st t) g')).
  { intros g'. destruct (Nat.eq_dec g' g) as [->|Hne]; upds; congruence. }
  constructor; unfold set_gd; prj; upds; prj; try assumption.
  - intros g' j. rewrite Hhe. apply I1.
  - intros g'. rewrite Hhe. apply I2.
  - intros b' Hb'. rewrite Hb in Hb'. injection Hb' as <-. apply (chain_ext (hz st b)); [|apply I5; exact Hb].
    intros j Hj. rewrite upd2_same_block. destruct (Nat.eqb_spec j i) as [->|_]; [contradiction|reflexivity].
  - intros b' j Hb' Hj. rewrite (I7 b' j Hb' Hj). symmetry. apply ng_same. intros g'. prj. apply Hhe.
  - intros b' j Hb' Hj. rewrite Hb in Hb'. injection Hb' as <-. rewrite upd2_same_block.
    destruct (Nat.eqb_spec j i) as [->|_]; [intros _; eexists; reflexivity|apply (I9 b j Hb Hj)].
  - intros b' j e' Hb'. rewrite Hb in Hb'. injection Hb' as <-. rewrite upd2_same_block.
    destruct (Nat.eqb_spec j i) as [->|_]; [intros H; injection H as <-; exact He|apply (I10 b j e' Hb)].
  - intros b' l Hb' Hl. rewrite Hb in Hb'. injection Hb' as <-. destruct (I11 b l Hb Hl) as (H1 & H2 & H3).
    rewrite upd2_same_block. destruct (Nat.eqb_spec l i) as [->|_]; [cbn [era_of]; split; [exact H1|split; [exact H2|lia]]|tauto].
  - intros g' n. rewrite Hhe. destruct (Nat.eq_dec g' g) as [->|Hne]; upds; [intros _; congruence|apply I12].
Qed.

(** ** the guard's pointer changes, its hazard era stays *)
Lemma GS_setptr st t g v :
  GS st t -> he v = he (gd (tl st t) g) -> (ptr v <> None -> he v <> None) -> GS (set_gd t g v st) t.
Proof.
  intros HG Hv1 Hv2. pose proof HG as [I0 I1 I2 I3 I4 I5 I6 I7 I8 I9 I10 I11 I12].
  assert (Hhe : forall g', he (upd (gd (tl st t)) g v g') = he (gd (tl st t) g')).
  { intros g'. destruct (Nat.eq_dec g' g) as [->|Hne]; upds; congruence. }
  constructor; unfold set_gd; prj; upds; prj; try assumption.
  - intros g' j. rewrite Hhe. apply I1.
  - intros g'. rewrite Hhe. apply I2.
  - intros b' j Hb' Hj. rewrite (I7 b' j Hb' Hj). symmetry. apply ng_same. intros g'. prj. apply Hhe.
  - intros g' n. rewrite Hhe. destruct (Nat.eq_dec g' g) as [->|Hne]; upds; [|apply I12].
    intros H. rewrite <- Hv1. apply Hv2. congruence.
Qed.

(** ** no guard owns a hazard era and the free list is empty: the slots may change (adoption, initialize) *)
Lemma GS_fresh st st' t :
  GS st t -> (forall g, he (gd (tl st t) g) = None) -> clock st <= clock st' ->
  fl (tl st' t) = [] -> hint (tl st' t) = None ->
  (forall g, gd (tl st' t) g = gd (tl st t) g) ->
  (forall b, rcd (tl st' t) = Some b -> (forall i, i < 3 -> cnt st' b i = 0) /\ lhe st' b = None /\ forall i e, hz st' b i = VEra e -> e <= clock st') ->
  GS st' t.
Proof.
  intros [I0 I1 I2 I3 I4 I5 I6 I7 I8 I9 I10 I11 I12] Hn Hck Hf Hh Hgd Hb.
  assert (Hn' : forall g, he (gd (tl st' t) g) = None) by (intros g; rewrite Hgd; apply Hn).
  constructor; rewrite ?Hf, ?Hh; try reflexivity.
  - lia.
  - intros g i H. rewrite Hn' in H. discriminate.
  - intros; apply Hn'.
  - split; [constructor|]. intros i [].
  - intros b i Hb' Hi. destruct (Hb b Hb') as (H1 & _ & _). rewrite (H1 i Hi). symmetry. apply ng_zero. exact Hn'.
  - intros b i _ [].
  - intros b i Hb' Hi H. destruct (Hb b Hb') as (H1 & _ & _). rewrite (H1 i Hi) in H. lia.
  - intros b i e Hb'. destruct (Hb b Hb') as (_ & _ & H3). apply H3.
  - intros b l Hb' Hl. destruct (Hb b Hb') as (_ & H2 & _). congruence.
  - intros g n H. rewrite Hgd in H. exfalso. apply (I12 g n H). apply Hn.
Qed.

(** ** the last store of initialize: the free list is 0 -> 1 -> 2 *)
Lemma GS_initialized st st' t b :
  GS st t -> (forall g, he (gd (tl st t) g) = None) -> clock st <= clock st' ->
  rcd (tl st' t) = Some b -> fl (tl st' t) = [0; 1; 2] -> hint (tl st' t) = Some 0 ->
  (forall g, gd (tl st' t) g = gd (tl st t) g) ->
  (forall j, j < 3 -> hz st' b j = init_link j) ->
  (forall i, i < 3 -> cnt st' b i = 0) -> lhe st' b = None ->
  (forall i e, hz st' b i = VEra e -> e <= clock st') ->
  GS st' t.
Proof.
  intros [I0 I1 I2 I3 I4 I5 I6 I7 I8 I9 I10 I11 I12] Hn Hck Hr Hf Hh Hgd Hhz Hc Hl Hle.
  assert (Hn' : forall g, he (gd (tl st' t) g) = None) by (intros g; rewrite Hgd; apply Hn).
  constructor; rewrite ?Hf, ?Hh, ?Hr; try reflexivity.
  - lia.
  - intros g i H. rewrite Hn' in H. discriminate.
  - intros; apply Hn'.
  - split; [repeat constructor; cbn [In]; lia|]. intros i Hi. cbn [In] in Hi. lia.
  - intros b' Hb'. injection Hb' as <-. cbn [chain hd_opt]. rewrite !Hhz by lia. cbn. tauto.
  - intros; discriminate.
  - intros b' i Hb' Hi. injection Hb' as <-. rewrite (Hc i Hi). symmetry. apply ng_zero. exact Hn'.
  - intros b' i Hb' Hi. injection Hb' as <-. apply Hc. cbn [In] in Hi. lia.
  - intros b' i Hb' Hi H. injection Hb' as <-. rewrite (Hc i Hi) in H. lia.
  - intros b' i e Hb'. injection Hb' as <-. apply Hle.
  - intros b' l Hb'. injection Hb' as <-. congruence.
  - intros g n H. rewrite Hgd in H. exfalso. apply (I12 g n H). apply Hn.
Qed.

(** ** guards released by exit_guards *)
Lemma GS_ush st st1 t : ush t st st1 -> GS st t -> GS st1 t.
Proof.
  induction 1 as [st|st b i g st2 Hb Hg Hc _ IH]; intros HG; [exact HG|].
  apply IH. apply GS_unshare; assumption.
Qed.

(** ** frames for the program point part *)
Lemma sole_ext st st' x x' g :
  rcd x' = rcd x -> he (gd x' g) = he (gd x g) -> (forall b i, rcd x = Some b -> cnt st' b i = cnt st b i) ->
  sole st x g -> sole st' x' g.
Proof. intros Hr Hg Hc H b i Hb Hi. rewrite Hr in Hb. rewrite Hg in Hi. rewrite (Hc b i Hb). apply (H b i Hb Hi). Qed.

Lemma pcG_ext st st' x x' p :
  clock st <= clock st' ->
  rcd x' = rcd x -> fl x' = fl x -> (forall g, gd x' g = gd x g) ->
  (forall b i, rcd x = Some b -> hz st' b i = hz st b i /\ cnt st' b i = cnt st b i) ->
  pcG st x p -> pcG st' x' p.
Proof.
  intros Hc Hr Hf Hg Hz H.
  assert (Hs : forall g, sole st x g -> sole st' x' g).
  { intros g. apply sole_ext; [exact Hr|rewrite Hg; reflexivity|intros b i Hb; apply (Hz b i Hb)]. }
  destruct p; try (match goal with o : op |- _ => destruct o end);
    cbn [pcG] in *; rewrite ?Hr, ?Hf; repeat setoid_rewrite Hg; try assumption.
  all: try (intuition (auto; try lia); fail).
  - destruct H as (H1 & H2 & H3 & H4). repeat split; try assumption; try lia. intros bb ii Hb Hi. destruct (Hz bb ii Hb) as [-> _]. apply H3; assumption.
  - destruct H as (H1 & H2 & H3 & H4). repeat split; try assumption; try lia. intros bb ii Hb Hi. destruct (Hz bb ii Hb) as [-> _]. apply H3; assumption.
  - destruct H as (H1 & H2 & H3 & H4 & H5 & H6). repeat split; try assumption; try lia. intros bb jj Hb Hj. destruct (Hz bb jj Hb) as [-> _]. apply H6; assumption.
  - destruct H as (H1 & H2 & H3 & H4 & H5 & H6 & H7 & H8). repeat split; try assumption; try lia. intros bb Hb. destruct (Hz bb i Hb) as [_ ->]. apply H7; assumption.
  - destruct H as (H1 & H2 & H3 & H4 & H5 & H6 & H7 & H8). repeat split; try assumption; try lia.
    all: match goal with Hb : rcd _ = Some ?b |- _ => destruct (Hz b i Hb) as [E1' E2']; rewrite ?E1', ?E2'; apply H7; exact Hb end.
  - destruct H as (H1 & H2 & H3 & H4 & H5). repeat split; try assumption; try lia; [apply Hs; exact H4|]. intros bb ii Hb Hi. destruct (Hz bb ii Hb) as [-> _]. apply H5; assumption.
  - destruct H as (H1 & H2 & H3 & H4). repeat split; try assumption; try lia. intros bb ii Hb Hi. destruct (Hz bb ii Hb) as [-> _]. apply H4; assumption.
Qed.

(** a control block that is not the control block of a thread (free, or new and not yet linked) has no references
    and an empty cache *)
Definition InvF (st : state) : Prop :=
  forall b, (forall t, rcd (tl st t) <> Some b) ->
    (forall i, i < 3 -> cnt st b i = 0) /\ lhe st b = None /\ forall i e, hz st b i = VEra e -> e <= clock st.

(** ** a step of another thread *)
Lemma GT_frame st st' t :
  clock st <= clock st' -> tl st' t = tl st t -> th st' t = th st t ->
  (forall b i, rcd (tl st t) = Some b -> hz st' b i = hz st b i /\ cnt st' b i = cnt st b i) ->
  (forall b, rcd (tl st t) = Some b -> lhe st' b = lhe st b /\ lera st' b = lera st b) ->
  GT st t -> GT st' t.
Proof.
  intros Hc Htl Hth Hz Hl [I1 I2 I3 I4].
  constructor; rewrite ?Htl, ?Hth; try assumption.
  - apply (GS_ext st); try (rewrite Htl; reflexivity); try assumption.
  - apply (pcG_ext st st' (tl st t)); try reflexivity; assumption.
Qed.

Lemma upd2_other st t t' b {X} (f : nat -> nat -> X) i v :
  InvO st -> t' <> t -> rcd (tl st t) = Some b ->
  forall b' j, rcd (tl st t') = Some b' -> upd2 f b i v b' j = f b' j.
Proof.
  intros HO Hne Hb b' j Hb'. apply upd2_other_block. intros ->. apply Hne. apply (own_inj st t' t b HO Hb' Hb).
Qed.

Lemma upd_other_blk st t t' b {X} (f : nat -> X) v :
  InvO st -> t' <> t -> rcd (tl st t) = Some b ->
  forall b', rcd (tl st t') = Some b' -> upd f b v b' = f b'.
Proof.
  intros HO Hne Hb b' Hb'. apply upd_other. intros ->. apply Hne. apply (own_inj st t' t b HO Hb' Hb).
Qed.

Lemma GS_setpc st t p : GS st t -> GS (set_pc t p st) t.
Proof. intros H. apply (GS_ext st); prj; try reflexivity; try lia; try exact H; intros; split; reflexivity. Qed.

Lemma all_none st t :
  GT st t -> uses_tmp (th st t) = false -> (forall j, j < nslots -> he (gd (tl st t) j) = None) ->
  forall g, he (gd (tl st t) g) = None.
Proof.
  intros HG Ht H g. destruct (Nat.lt_trichotomy g nslots) as [Hl|[->|Hl]];
    [apply H; exact Hl|apply (g_tmp st t HG Ht)|apply (g_hi st t (g_s st t HG) g Hl)].
Qed.



Lemma GT_ush_other st st1 t t' : ush t st st1 -> InvO st -> t' <> t -> GT st t' -> GT st1 t'.
Proof.
  intros Hu HO Hne HG. pose proof (ush_same _ _ _ Hu) as HS.
  apply (GT_frame st).
  - rewrite (sb_clock _ _ _ HS). lia.
  - apply (sb_tl _ _ _ HS). exact Hne.
  - rewrite (sb_th _ _ _ HS). reflexivity.
  - intros b i Hb. rewrite (sb_hz _ _ _ HS). split; [reflexivity|]. apply (sb_cnt _ _ _ HS).
    intros Hc. apply Hne. apply (own_inj st t' t b HO Hb Hc).
  - intros b Hb. rewrite (sb_lhe _ _ _ HS), (sb_lera _ _ _ HS). split; reflexivity.
  - exact HG.
Qed.

Lemma InvO_reset st t b i g : InvO st -> InvO (reset_guard st t b i g).
Proof.
  intros HO. apply (InvO_frame st); unfold reset_guard; prj; try reflexivity; try tauto; try lia.
  all: try (intros u; destruct (Nat.eq_dec u t) as [->|Hne]; upds; reflexivity).
  all: try (intros u Hw; destruct (th st u); exact Hw).
Qed.

Lemma GT_reset_other st t t' b i g :
  InvO st -> t' <> t -> rcd (tl st t) = Some b -> GT st t' -> GT (reset_guard st t b i g) t'.
Proof.
  intros HO Hne Hb HG. apply (GT_frame st); unfold reset_guard; prj; upds; try reflexivity; try lia; try exact HG.
  - intros b' j Hb'. assert (b' <> b) by (intros ->; apply Hne; apply (own_inj st t' t b HO Hb' Hb)).
    rewrite !upd2_other_block by assumption. split; reflexivity.
  - intros b' Hb'. assert (b' <> b) by (intros ->; apply Hne; apply (own_inj st t' t b HO Hb' Hb)). upds. split; reflexivity.
Qed.

(** wrappers that [GS] does not look at *)
Ltac strip s :=
  lazymatch s with
  | w_nalloc _ ?s' => strip s' | w_nextid _ ?s' => strip s' | w_nid _ ?s' => strip s' | w_g_life _ ?s' => strip s'
  | w_g_where _ ?s' => strip s' | w_g_nfree _ ?s' => strip s' | w_g_uaf _ ?s' => strip s' | w_cells _ ?s' => strip s'
  | w_est _ ?s' => strip s' | w_blist _ ?s' => strip s' | w_g_owner _ ?s' => strip s' | w_aband _ ?s' => strip s'
  | w_nact _ ?s' => strip s' | w_ce _ ?s' => strip s' | w_re _ ?s' => strip s' | w_clock _ ?s' => strip s'
  | deref _ ?s' => strip s' | set_pc _ _ ?s' => strip s' | free_all _ ?s' => strip s' | move_all _ _ ?s' => strip s'
  | _ => s
  end.

Lemma GS_strip st st' t :
  clock st <= clock st' -> tl st' = tl st -> hz st' = hz st -> cnt st' = cnt st -> lhe st' = lhe st -> lera st' = lera st ->
  GS st t -> GS st' t.
Proof.
  intros Hc Ht Hz Hn Hl He. apply GS_ext; rewrite ?Ht, ?Hz, ?Hn, ?Hl, ?He; try reflexivity; try assumption; intros; split; reflexivity.
Qed.

Lemma guard_le k : ctx_ok k -> guard_of nslots k <= nslots.
Proof. destruct k; cbn [guard_of ctx_ok]; lia. Qed.

Ltac gs_side :=
  unfold unshare, reset_guard, set_gd, g0; repeat (progress (prj; upds));
  first [ reflexivity | eassumption | (apply Nat.eqb_neq; eassumption) | (apply Nat.eqb_eq; eassumption)
        | (apply guard_le; eassumption) | lia | congruence | (intros; congruence) | tauto
        | (match goal with H : _ |- _ => apply H; eassumption end)
        | (match goal with H : forall b, _ -> _ /\ _ |- _ => edestruct H as [? ?]; [eassumption|eassumption] end)
        | (intros _ Hc; match goal with H : he _ = None -> ?prev = 0, Heq : (clock _ =? ?prev) = true, HS : GS _ _ |- _ =>
             apply Nat.eqb_eq in Heq; pose proof (g_clk _ _ HS); specialize (H Hc); lia end) ].

Ltac gs HS :=
  lazymatch goal with
  | |- GS ?s _ =>
    let s' := strip s in
    first [ exact HS
          | (tryif constr_eq s s' then fail else (apply (GS_strip s'); [prj; lia|reflexivity|reflexivity|reflexivity|reflexivity|reflexivity|gs HS]))
          | (lazymatch goal with
             | |- GS (unshare ?s0 ?t ?b ?i ?g) _ => apply (GS_unshare s0 t b i g); [gs HS|gs_side|gs_side|gs_side]
             | |- GS (reset_guard ?s0 ?t ?b ?i ?g) _ => apply (GS_reset s0 t b i g); [gs HS|gs_side|gs_side|gs_side]
             | |- GS (set_gd ?t ?g ?v (w_cnt (upd2 _ ?b ?i (S _)) (w_lhe _ (w_lera (upd _ _ ?e) ?s0)))) _ =>
               apply (GS_commit s0 t b i e g v); [gs HS|gs_side|gs_side|gs_side|gs_side|gs_side|gs_side|gs_side|gs_side|gs_side]
             | |- GS (set_gd ?t ?g ?v (w_cnt (upd2 _ ?b ?l (S _)) ?s0)) _ =>
               apply (GS_share s0 t b l g v); [gs HS|gs_side|gs_side|gs_side|gs_side|gs_side|gs_side]
             | |- GS (set_gd ?t ?g ?v (w_hz (upd2 _ ?b ?i (VEra ?e)) ?s0)) _ =>
               apply (GS_storeU s0 t b i e g v); [gs HS|gs_side|gs_side|gs_side|gs_side|gs_side|gs_side]
             | |- GS (set_gd ?t ?g ?v ?s0) _ => apply (GS_setptr s0 t g v); [gs HS|gs_side|gs_side]
             | |- GS (w_hz (upd2 _ ?b ?i (VEra ?e)) ?s0) _ => apply (GS_storeE s0 _ b i e); [gs HS|gs_side|gs_side|gs_side|gs_side|gs_side]
             | |- GS (set_tl ?t (wt_rl _ _) ?s0) _ =>
               apply (GS_ext s0); [prj; lia|gs_side|gs_side|gs_side|intros; gs_side|intros; split; gs_side|intros; split; gs_side|gs HS]
             | |- GS ?st1 _ => match goal with Hu : ush _ ?s0 st1 |- _ => apply (GS_ush s0 st1 _ Hu); gs HS end
             end) ]
  end.

Lemma ush_he st st1 t g : ush t st st1 -> he (gd (tl st t) g) = None -> he (gd (tl st1 t) g) = None.
Proof. intros Hu H. destruct (sb_gd _ _ _ (ush_same _ _ _ Hu) g) as [->|[-> _]]; [exact H|reflexivity]. Qed.

Lemma ush_keep st st1 t g : ush t st st1 -> he (gd (tl st1 t) g) <> None -> gd (tl st1 t) g = gd (tl st t) g.
Proof. intros Hu H. destruct (sb_gd _ _ _ (ush_same _ _ _ Hu) g) as [E|[E _]]; [exact E|rewrite E in H; cbn in H; congruence]. Qed.

Lemma cache_era st t b l :
  GS st t -> rcd (tl st t) = Some b -> lhe st b = Some l -> lera st b = clock st -> hz st b l = VEra (clock st).
Proof.
  intros HS Hb Hl He. destruct (g_last st t HS b l Hb Hl) as (H1 & H2 & H3).
  destruct (g_era st t HS b l Hb H1 H2) as [e Hz]. pose proof (g_le st t HS b l e Hb Hz). rewrite Hz in *. cbn [era_of] in H3.
  f_equal. lia.
Qed.

Lemma slot_era st t b g i :
  GS st t -> rcd (tl st t) = Some b -> he (gd (tl st t) g) = Some i -> exists e, hz st b i = VEra e /\ e <= clock st.
Proof.
  intros HS Hb Hg. destruct (g_lt st t HS g i Hg) as [Hi _].
  destruct (g_era st t HS b i Hb Hi (on_cnt st t b g i HS Hb Hg)) as [e Hz]. exists e. split; [exact Hz|apply (g_le st t HS b i e Hb Hz)].
Qed.

Lemma ush_none s0 st1 t lo :
  ush t s0 st1 -> (forall j, lo <= j < nslots -> he (gd (tl st1 t) j) = None) ->
  (forall j, j < lo \/ nslots <= j -> he (gd (tl s0 t) j) = None) -> forall g, he (gd (tl st1 t) g) = None.
Proof.
  intros Hu H1 H2 g. destruct (Nat.lt_ge_cases g lo); [apply (ush_he _ _ _ _ Hu); apply H2; lia|].
  destruct (Nat.lt_ge_cases g nslots); [apply H1; lia|apply (ush_he _ _ _ _ Hu); apply H2; lia].
Qed.

Lemma none_high st t : GS st t -> he (gd (tl st t) nslots) = None -> forall j, nslots <= j -> he (gd (tl st t) j) = None.
Proof.
  intros HS H j Hj. destruct (Nat.eq_dec j nslots) as [->|Hne]; [exact H|apply (g_hi st t HS); lia].
Qed.

Ltac clean_hyps :=
  repeat match goal with
  | E : _ = _ |- _ => progress (unfold set_gd, unshare, reset_guard, g0 in E; prjh E; upds_in E; prjh E)
  end.

Lemma InvG_step st a st' es : InvO st -> InvG st -> InvF st -> step nslots st a = Some (st', es) -> InvG st'.
Proof.
  intros HO HG HF Hs. destruct a as [t o|t]; cbn [step] in Hs.
  - destruct (th st t) eqn:Hth; try discriminate Hs. destruct (legal nslots o) eqn:Hl; [|discriminate Hs].
    injection Hs as <- <-. intros t'. destruct (Nat.eq_dec t' t) as [->|Hne].
    + pose proof (HG t) as [I1 I2 I3 I4]. constructor; prj; upds.
      * apply GS_setpc. exact I1.
      * intros _. apply I2. rewrite Hth. reflexivity.
      * intros g _. apply I3. rewrite Hth. unfold in_acq. cbn. tauto.
      * destruct o; cbn [pcG legal] in *; try exact I; apply Nat.ltb_lt; exact Hl.
    + apply (GT_frame st); prj; upds; try reflexivity; try lia; try (intros; split; reflexivity). apply HG.
  - pose proof (HG t) as HGt. destruct (th st t) eqn:Hth; try discriminate Hs.
    all: leaves Hs.
    all: clean_hyps; try discriminate.
    all: intros t'; destruct (Nat.eq_dec t' t) as [->|Hne];
      [|first [ (apply (GT_frame st); dg; unfold reset_guard, unshare, set_gd; prj; upds; prj; try reflexivity; try lia; try apply HG;
              intros; split;
              repeat first [ reflexivity
                           | match goal with |- context [upd2 ?f ?b ?i ?v ?b' ?j] =>
                               rewrite (upd2_other_block f b i v b' j) by (intros ->; apply Hne; eapply (own_inj st); eassumption) end
                           | match goal with |- context [upd ?f ?b ?v ?b'] =>
                               rewrite (upd_other f b v b') by (intros ->; apply Hne; eapply (own_inj st); eassumption) end ]; fail)
        | (match goal with Hu : ush _ ?s0 ?st1 |- GT (set_pc _ _ ?st1) ?u =>
           assert (HO0 : InvO s0) by (first [exact HO | (apply InvO_reset; exact HO)]);
           assert (HG0 : GT s0 u) by (first [apply HG | (apply GT_reset_other; [exact HO|exact Hne|eassumption|apply HG])]);
           apply (GT_frame st1); prj; upds; try reflexivity; try lia; try (intros; split; reflexivity);
           apply (GT_ush_other s0 st1 _ u Hu HO0 Hne HG0) end; fail) ]].
    all: dg.
    all: pose proof (g_s _ _ HGt) as HS; pose proof (g_tmp _ _ HGt) as Htmp; pose proof (g_rest _ _ HGt) as Hrest; pose proof (g_pc _ _ HGt) as Hpc;
         rewrite Hth in Htmp, Hrest, Hpc; cbn [pcG uses_tmp is_tmp ctx_ok guard_of sk_exit s_k] in Htmp, Hrest, Hpc.
    all: repeat match goal with H : _ /\ _ |- _ => destruct H end.
    all: constructor; [try (gs HS; fail)|..].
    (* the remaining GS goals *)
    all: try (match goal with |- GS (set_pc _ (I0 _ _) _) _ =>
           assert (Hr : rcd (tl st t) = None) by (apply (O_seek st HO); rewrite Hth; reflexivity);
           pose proof (g_nofl _ _ HS Hr) as Hf; pose proof (g_hint _ _ HS) as Hh; rewrite Hf in Hh;
           apply (GS_fresh st); prj; upds; prj; try assumption; try reflexivity; try lia;
           intros bb Hbb; injection Hbb as <-; apply HF; intros u Hu;
           first [ (destruct (O_rcd st HO u _ Hu) as (_ & _ & Hc); apply Hc; apply Nat.eqb_eq; assumption)
                 | (destruct (O_rcd st HO u _ Hu) as (_ & Hc & _); destruct (O_pend st HO t _) as (_ & Hc' & _); [rewrite Hth; reflexivity|contradiction]) ] end; fail).
    all: try (match goal with |- GS (set_pc _ (I1 _ _ _) (w_hz _ _)) _ =>
           pose proof (g_hint _ _ HS) as Hh;
           match goal with Hn : forall g, he _ = None, Hb : rcd (tl _ _) = Some ?b, Hf : fl (tl _ _) = [] |- _ =>
             rewrite Hf in Hh; destruct (none_cnt st t b HS Hb Hn) as [Hc Hl];
             apply (GS_fresh st); prj; upds; prj; try assumption; try reflexivity; try lia;
             intros bb Hbb; rewrite Hb in Hbb; injection Hbb as <-; split; [exact Hc|]; split; [exact Hl|];
             intros ii ee; rewrite upd2_same_block; destruct (Nat.eqb_spec ii i); [discriminate|apply (g_le st t HS b ii ee Hb)]
           end end; fail).
    all: try (match goal with |- GS (set_pc _ (I2 _ _) _) _ =>
           match goal with Hn : forall g, he _ = None, Hb : rcd (tl _ _) = Some ?b, Hz : forall b j, _ -> j < _ -> _ |- _ =>
             destruct (none_cnt st t b HS Hb Hn) as [Hc Hl]; assert (i = 2) by lia; subst i;
             apply (GS_initialized st _ t b); prj; upds; prj; try assumption; try reflexivity; try lia;
             [ intros j Hj; rewrite upd2_same_block; destruct (Nat.eqb_spec j 2) as [->|Hne]; [reflexivity|apply Hz; [exact Hb|lia]]
             | intros ii ee; rewrite upd2_same_block; destruct (Nat.eqb_spec ii 2); [discriminate|apply (g_le st t HS b ii ee Hb)] ]
           end end; fail).
    all: try (match goal with |- GS (set_pc _ (E1 _ _ _) _) _ =>
           match goal with Hb : rcd (tl _ _) = Some ?b, Hh : hint (tl _ _) = Some ?i |- _ =>
             apply GS_setpc; apply (GS_take st t b i HS Hb Hh) end end; fail).
    all: try (match goal with |- GS (set_pc _ Done (set_tl _ (mkTl None None [] _ _) _)) _ =>
           apply (GS_fresh st); prj; upds; prj; try assumption; try reflexivity; try lia; intros; discriminate end; fail).
    (* tmp *)
    all: try (match goal with |- uses_tmp _ = false -> _ => idtac end;
              unfold unshare, reset_guard, set_gd, g0; repeat (progress (prj; upds)); cbn [uses_tmp is_tmp]; intros Hk;
              first [ discriminate | reflexivity | (apply Htmp; first [reflexivity|exact Hk])
                    | (match goal with Hc : ctx_ok ?k |- _ => destruct k; cbn [is_tmp guard_of ctx_ok] in *; try discriminate; upds; apply Htmp; first [reflexivity|exact Hk] end)
                    | (match goal with Hu : ush _ _ _ |- _ => apply (ush_he _ _ _ _ Hu); unfold reset_guard; repeat (progress (prj; upds));
                         first [reflexivity | (apply Htmp; reflexivity)] end) ]; fail).
    (* rest *)
    all: try (match goal with |- forall g, ~ in_acq _ g -> _ => idtac end;
              intros gq Hn Hh;
              try (match goal with Hu : ush _ _ _ |- _ =>
                     repeat (progress (prjh Hh; upds_in Hh)); repeat (progress (prj; upds));
                     let Hk := fresh "Hk" in pose proof (ush_keep _ _ _ gq Hu Hh) as Hk; rewrite Hk in Hh |- * end);
              unfold unshare, reset_guard, set_gd, g0 in Hn, Hh |- *; repeat (progress (prj; upds)); repeat (progress (prjh Hh; upds_in Hh)); prjh Hn; upds_in Hn;
              unfold in_acq in *; cbn [acq_of] in *;
              first [ (apply Hrest; [exact Hn|exact Hh])
                    | (apply Hrest; [tauto|exact Hh])
                    | (exfalso; apply Hh; match goal with H : forall g, he _ = None |- _ => apply H end)
                    | (match type of Hrest with forall g, ~ g = ?gi -> _ =>
                         destruct (Nat.eq_dec gq gi) as [->|Hneq]; [congruence|apply Hrest; [exact Hneq|exact Hh]] end)
                    | (match type of Hh with context [upd (gd (tl _ _)) ?gi ?v gq] =>
                         destruct (Nat.eq_dec gq gi) as [->|Hneq]; upds_in Hh; upds; prjh Hh; prj;
                         [first [discriminate | congruence | tauto]
                         |apply Hrest; [first [exact Hn | tauto | congruence]|exact Hh]] end) ]; fail).
    (* pc *)
    all: try (match goal with |- pcG _ _ _ => idtac end;
              unfold unshare, reset_guard, set_gd, g0; repeat (progress (prj; upds)); cbn [pcG ctx_ok sk_exit s_k guard_of];
              first [ exact I | assumption | tauto | (intros; discriminate)
                    | (repeat split; first [assumption | lia | (intros; discriminate) | (intros; congruence) | tauto]) ]; fail).
    (* tmp, the remaining cases *)
    all: try (match goal with |- uses_tmp _ = false -> _ => idtac end;
              unfold unshare, reset_guard, set_gd, g0; repeat (progress (prj; upds)); cbn [uses_tmp is_tmp]; intros Hk;
              first [ assumption
                    | solve [match goal with H : forall g, he _ = None |- _ => apply H end]
                    | (exfalso; match goal with H : he _ = None -> ?prev = 0, Heq : (clock _ =? ?prev) = true, E : he _ = None |- _ =>
                         apply Nat.eqb_eq in Heq; pose proof (g_clk _ _ HS); specialize (H E); lia end)
                    | (exfalso; eapply (g_ptr _ _ HS); eassumption)
                    | (match goal with Hc : ctx_ok ?k |- _ => destruct k; cbn [is_tmp guard_of ctx_ok] in *; upds;
                         first [assumption | reflexivity | (apply Htmp; reflexivity)] end) ]; fail).
    (* pc: the remaining cases *)
    all: try (match goal with |- pcG _ _ _ => idtac end;
              unfold unshare, reset_guard, set_gd, g0; repeat (progress (prj; upds)); cbn [pcG ctx_ok sk_exit s_k guard_of];
              unfold sole; repeat (progress (prj; upds))).
    all: try (match goal with E : (cnt _ _ _ =? 1) = true |- _ => apply Nat.eqb_eq in E end).
    all: try (match goal with E : (_ <? _) = true |- _ => apply Nat.ltb_lt in E end).
    all: try (match goal with E : (_ <? _) = false |- _ => apply Nat.ltb_ge in E end).
    all: try (match goal with E : (clock _ =? _) = false |- _ => apply Nat.eqb_neq in E end).
    all: try (match goal with E : (lera _ _ =? _) = true |- _ => apply Nat.eqb_eq in E end).
    all: try (repeat split; try assumption; try lia; try congruence; intros; congruence).
    (* Begin OExit: thread_end *)
    + split; [lia|]. split; [congruence|]. split.
      * intros bb ii Hb Hi. rewrite Hg2 in Hb. rewrite Hg3 in Hi. injection Hb as <-. injection Hi as <-. exact Hg4.
      * intros j Hj. apply Hg5. lia.
    + apply (ush_none st st1 t 0 Hu); [intros j Hj; apply Hg1; lia|]. intros j [Hj|Hj]; [lia|].
      apply (none_high st t HS); [apply Htmp; reflexivity|exact Hj].
    + apply (ush_none st st1 t 0 Hu); [intros j Hj; apply Hg1; lia|]. intros j [Hj|Hj]; [lia|].
      apply (none_high st t HS); [apply Htmp; reflexivity|exact Hj].
    + intros _. apply (ush_none st st1 t 0 Hu); [intros j Hj; apply Hg1; lia|]. intros j [Hj|Hj]; [lia|].
      apply (none_high st t HS); [apply Htmp; reflexivity|exact Hj].
    (* G0 *)
    + destruct (slot_era st t n _ n0 HS E E0) as (e0 & Hz & Hle). rewrite Hz. cbn [era_of].
      split; [assumption|]. split; [exact Hle|]. split; [|congruence].
      intros bb ii Hb Hi. rewrite E in Hb. injection Hb as <-. rewrite E0 in Hi. injection Hi as <-. exact Hz.
    (* Q2 -> U1 *)
    + split; [assumption|]. split; [lia|]. split; [congruence|]. split.
      * intros bb ii Hb Hi. rewrite E1 in Hb. injection Hb as <-. rewrite E0 in Hi. injection Hi as <-. exact E2.
      * intros bb ii Hb Hi. match goal with Hz : forall b i, _ -> _ -> hz st b i = VEra prev |- _ => rewrite (Hz bb ii Hb Hi) end. cbn [era_of]. assumption.
    (* Q2: cache hit *)
    + split; [assumption|]. split; [lia|]. split; [|discriminate]. intros bb ii Hb Hi. rewrite E3 in Hb. injection Hb as <-. injection Hi as <-.
      apply (cache_era st t n1 n2 HS E3 E4 E5).
    + split; [assumption|]. split; [lia|]. split; [|discriminate]. intros bb ii Hb Hi. rewrite E1 in Hb. injection Hb as <-. injection Hi as <-.
      apply (cache_era st t n n0 HS E1 E2 E3).
    (* Q2 -> H1 *)
    + split; [assumption|]. split; [lia|]. split; [exact E0|].
      destruct (ptr (gd (tl st t) (guard_of nslots k))) eqn:Ep; [|reflexivity]. exfalso. apply (g_ptr st t HS _ _ Ep). exact E0.
    + split; [assumption|]. split; [lia|]. split; [exact E0|].
      destruct (ptr (gd (tl st t) (guard_of nslots k))) eqn:Ep; [|reflexivity]. exfalso. apply (g_ptr st t HS _ _ Ep). exact E0.
    (* Q2 -> W0 *)
    + split; [assumption|]. split; [lia|]. apply (no_rcd_no_he st t HS E1).
    (* W2 / A3 -> I0 *)
    + assert (Hr : rcd (tl st t) = None) by (apply (O_seek st HO); rewrite Hth; reflexivity).
      repeat split; try assumption. apply (g_nofl st t HS Hr).
    + assert (Hr : rcd (tl st t) = None) by (apply (O_seek st HO); rewrite Hth; reflexivity).
      pose proof (g_nofl _ _ HS Hr) as Hf. pose proof (g_hint _ _ HS) as Hh. rewrite Hf in Hh.
      apply (GS_fresh st); prj; upds; prj; try assumption; try reflexivity; try lia.
      intros bb Hbb. injection Hbb as <-. apply HF. intros u Hu.
      destruct (O_rcd st HO u _ Hu) as (_ & Hc & _). destruct (O_pend st HO t b) as (_ & Hc' & _); [rewrite Hth; reflexivity|contradiction].
    + assert (Hr : rcd (tl st t) = None) by (apply (O_seek st HO); rewrite Hth; reflexivity).
      repeat split; try assumption. apply (g_nofl st t HS Hr).
    (* I1 *)
    + repeat split; try assumption; try lia. intros bb jj Hb Hj. rewrite E in Hb. injection Hb as <-. rewrite upd2_same_block.
      destruct (Nat.eqb_spec jj i) as [->|Hne]; [unfold init_link; replace (i <? 2) with true by (symmetry; apply Nat.ltb_lt; exact E0); reflexivity|].
      match goal with Hz : forall b j, _ -> j < i -> _ |- _ => apply Hz; [exact E|lia] end.
    + match goal with Hn : forall g, he _ = None, Hz : forall b j, _ -> j < i -> _ |- _ =>
        destruct (none_cnt st t n HS E Hn) as [Hc Hl]; assert (i = 2) by lia; subst i;
        apply (GS_initialized st _ t n); prj; upds; prj; try assumption; try reflexivity; try lia;
        [ intros j Hj; rewrite upd2_same_block; destruct (Nat.eqb_spec j 2) as [->|Hne]; [reflexivity|apply Hz; [exact E|lia]]
        | intros ii ee; rewrite upd2_same_block; destruct (Nat.eqb_spec ii 2); [discriminate|apply (g_le st t HS n ii ee E)] ] end.
    (* I2 *)
    + exfalso. match goal with Hn : forall g, he _ = None |- _ => destruct (none_cnt st t n0 HS E0 Hn) as [_ Hl] end. congruence.
    + exfalso. match goal with Hn : forall g, he _ = None |- _ => destruct (none_cnt st t n0 HS E0 Hn) as [_ Hl] end. congruence.
    + match goal with Hn : forall g, he _ = None |- _ =>
        split; [assumption|]; split; [assumption|]; split; [apply Hn|];
        destruct (ptr (gd (tl st t) (guard_of nslots k))) eqn:Ep; [|reflexivity]; exfalso; apply (g_ptr st t HS _ _ Ep); apply Hn end.
    (* H1 -> E1 *)
    + destruct (GS_take st t n n0 HS E E0) as (_ & Hi & Hni & Hc). repeat split; try assumption; try congruence.
      all: match goal with Hb : rcd _ = Some ?b |- cnt _ ?b _ = 0 => rewrite E in Hb; injection Hb as <-; exact Hc end.
    (* E1 -> E2 *)
    + repeat split; try assumption; try congruence.
      all: match goal with Hb : rcd _ = Some ?b |- _ => first [ (match goal with Hc : forall b, _ -> cnt _ b _ = 0 |- _ => apply Hc; exact Hb end)
                | (rewrite E in Hb; injection Hb as <-; apply upd2_same) ] end.
    (* E2 -> Q1 *)
    + split; [assumption|]. split; [assumption|]. split; [|discriminate]. intros bb ii Hb Hi. injection Hi as <-.
      match goal with Hc : forall b, _ -> _ /\ _ |- _ => apply (Hc bb Hb) end.
    (* U1 -> U2 *)
    + split; [assumption|]. split; [assumption|]. split; [discriminate|]. intros bb ii Hb Hi. rewrite E in Hb. injection Hb as <-. injection Hi as <-. apply upd2_same.
    (* S7, ~thread_data *)
    + apply Hpc. rewrite E. exact I.
    + apply Hpc. rewrite E. exact I.
    + apply Hpc. rewrite E. exact I.
    + apply Hpc. rewrite E. exact I.
    + apply Hpc. rewrite E. exact I.
    + apply Hpc. rewrite E. exact I.
    (* X0 *)
    + match goal with Hn : forall j, j < g -> he _ = None |- _ =>
        split; [lia|]; split; [congruence|]; split;
        [ intros bb ii Hb Hi; rewrite Hg2 in Hb; rewrite Hg3 in Hi; injection Hb as <-; injection Hi as <-; exact Hg4
        | intros j Hj; destruct (Nat.lt_ge_cases j (S g)) as [Hl|Hl]; [|apply Hg5; lia];
          apply (ush_he _ _ _ _ Hu); unfold reset_guard; repeat (progress (prj; upds));
          destruct (Nat.eq_dec j g) as [->|Hne]; upds; [reflexivity|apply Hn; lia] ] end.
    + match goal with Hn : forall j, j < g -> he _ = None |- _ =>
        apply (ush_none (reset_guard st t n n0 g) st1 t (S g) Hu); [intros j Hj; apply Hg1; lia|];
        intros j Hj; unfold reset_guard; repeat (progress (prj; upds));
        destruct (Nat.eq_dec j g) as [->|Hne]; upds; [reflexivity|];
        destruct Hj as [Hj|Hj]; [apply Hn; lia|apply (none_high st t HS); [apply Htmp; reflexivity|exact Hj]] end.
    + match goal with Hn : forall j, j < g -> he _ = None |- _ =>
        apply (ush_none (reset_guard st t n n0 g) st1 t (S g) Hu); [intros j Hj; apply Hg1; lia|];
        intros j Hj; unfold reset_guard; repeat (progress (prj; upds));
        destruct (Nat.eq_dec j g) as [->|Hne]; upds; [reflexivity|];
        destruct Hj as [Hj|Hj]; [apply Hn; lia|apply (none_high st t HS); [apply Htmp; reflexivity|exact Hj]] end.
    + intros _. match goal with Hn : forall j, j < g -> he _ = None |- _ =>
        apply (ush_none (reset_guard st t n n0 g) st1 t (S g) Hu); [intros j Hj; apply Hg1; lia|];
        intros j Hj; unfold reset_guard; repeat (progress (prj; upds));
        destruct (Nat.eq_dec j g) as [->|Hne]; upds; [reflexivity|];
        destruct Hj as [Hj|Hj]; [apply Hn; lia|apply (none_high st t HS); [apply Htmp; reflexivity|exact Hj]] end.
Qed.

(** ** control blocks that belong to no thread's thread_data *)
Lemma InvF_frame st st' :
  (forall u, rcd (tl st' u) = rcd (tl st u)) -> clock st <= clock st' ->
  (forall b, (forall u, rcd (tl st u) <> Some b) -> (forall i, cnt st' b i = cnt st b i) /\ lhe st' b = lhe st b /\ (forall i, hz st' b i = hz st b i)) ->
  InvF st -> InvF st'.
Proof.
  intros Hr Hc Hb HF b Hn. assert (Hn' : forall u, rcd (tl st u) <> Some b) by (intros u; rewrite <- Hr; apply Hn).
  destruct (Hb b Hn') as (H1 & H2 & H3). destruct (HF b Hn') as (F1 & F2 & F3).
  split; [intros i Hi; rewrite H1; apply F1; exact Hi|]. split; [rewrite H2; exact F2|].
  intros i e. rewrite H3. intros H. pose proof (F3 i e H). lia.
Qed.

Lemma InvF_ush st st1 t : ush t st st1 -> InvF st -> InvF st1.
Proof.
  intros Hu HF. pose proof (ush_same _ _ _ Hu) as HS. apply (InvF_frame st).
  - intros u. destruct (Nat.eq_dec u t) as [->|Hne]; [apply (sb_rcd _ _ _ HS)|rewrite (sb_tl _ _ _ HS u Hne); reflexivity].
  - rewrite (sb_clock _ _ _ HS). lia.
  - intros b Hb. rewrite (sb_lhe _ _ _ HS), (sb_hz _ _ _ HS). split; [|split; reflexivity]. intros i. apply (sb_cnt _ _ _ HS). apply Hb.
  - exact HF.
Qed.

Lemma InvF_step st a st' es : InvO st -> InvG st -> InvF st -> step nslots st a = Some (st', es) -> InvF st'.
Proof.
  intros HO HG HF Hs. destruct a as [t o|t]; cbn [step] in Hs.
  - destruct (th st t) eqn:Hth; try discriminate Hs. destruct (legal nslots o) eqn:Hl; [|discriminate Hs].
    injection Hs as <- <-. apply (InvF_frame st); prj; try reflexivity; try lia; try exact HF. intros; repeat split; reflexivity.
  - pose proof (HG t) as HGt. destruct (th st t) eqn:Hth; try discriminate Hs.
    all: leaves Hs.
    all: clean_hyps; try discriminate.
    all: try (match goal with Hu : ush _ ?s0 ?st1 |- InvF (set_pc _ _ ?st1) =>
           apply (InvF_frame st1); [prj; reflexivity|prj; lia|intros; prj; repeat split; reflexivity|];
           apply (InvF_ush s0 st1 _ Hu) end).
    all: dg.
    all: try (apply (InvF_frame st); unfold unshare, reset_guard, set_gd; repeat (progress (prj; upds)); try lia; try exact HF;
              [ intros u; destruct (Nat.eq_dec u t) as [->|Hne]; upds; prj; reflexivity
              | intros bb Hbb; repeat split; intros;
                repeat first [ reflexivity
                             | match goal with |- context [upd2 ?f ?b ?i ?v bb ?j] =>
                                 rewrite (upd2_other_block f b i v bb j) by (intros ->; eapply Hbb; eassumption) end
                             | match goal with |- context [upd ?f ?b ?v bb] =>
                                 rewrite (upd_other f b v bb) by (intros ->; eapply Hbb; eassumption) end ] ]; fail).
    + intros bb Hbb. assert (Hn : forall u, rcd (tl st u) <> Some bb).
      { intros u Hu. destruct (Nat.eq_dec u t) as [->|Hne]; [|apply (Hbb u); prj; upds; exact Hu].
        rewrite (O_seek st HO t) in Hu by (rewrite Hth; reflexivity). discriminate. }
      exact (HF bb Hn).
    + intros bb Hbb. assert (Hn : forall u, rcd (tl st u) <> Some bb).
      { intros u Hu. destruct (Nat.eq_dec u t) as [->|Hne]; [|apply (Hbb u); prj; upds; exact Hu].
        rewrite (O_seek st HO t) in Hu by (rewrite Hth; reflexivity). discriminate. }
      exact (HF bb Hn).
    + intros bb Hbb. destruct (Nat.eq_dec bb n) as [->|Hne].
      * pose proof (g_pc _ _ HGt) as Hpc. rewrite Hth in Hpc. cbn [pcG] in Hpc.
        destruct (none_cnt st t n (g_s _ _ HGt) E Hpc) as [Hc Hl]. prj. split; [exact Hc|]. split; [exact Hl|].
        intros i e. apply (g_le st t (g_s _ _ HGt) n i e E).
      * assert (Hn : forall u, rcd (tl st u) <> Some bb).
        { intros u Hu. destruct (Nat.eq_dec u t) as [->|Hnu]; [congruence|apply (Hbb u); prj; upds; exact Hu]. }
        exact (HF bb Hn).
Qed.


Lemma InvG_init ncells : InvG (init ncells).
Proof.
  intros t. constructor; [constructor|..]; cbn; intros; try discriminate; try reflexivity; try exact I; try lia.
  - split; [constructor|]. intros i [].
  - congruence.
Qed.

Lemma InvF_init ncells : InvF (init ncells).
Proof. intros b _. cbn. split; [reflexivity|]. split; [reflexivity|]. intros i e H. injection H as <-. lia. Qed.

(** the three layers so far, together *)
Lemma InvOGF_step st a st' es :
  InvO st /\ InvG st /\ InvF st -> step nslots st a = Some (st', es) -> InvO st' /\ InvG st' /\ InvF st'.
Proof.
  intros (HO & HG & HF) Hs. split; [apply (InvO_step nslots st a st' es HO Hs)|].
  split; [apply (InvG_step st a st' es HO HG HF Hs)|apply (InvF_step st a st' es HO HG HF Hs)].
Qed.

(** a guard that refers to a slot: the control block is active *)
Lemma guard_active st t b g i :
  InvO st -> GT st t -> rcd (tl st t) = Some b -> he (gd (tl st t) g) = Some i -> est st b = 2.
Proof.
  intros HO HG Hb Hg. destruct (Nat.eq_dec (est st b) 2) as [He|He]; [exact He|]. exfalso.
  pose proof (O_act st HO t b Hb He) as Hi. pose proof (g_pc st t HG) as Hpc.
  destruct (th st t); cbn [inI] in Hi; try discriminate Hi; cbn [pcG] in Hpc.
  - destruct Hpc as (_ & _ & Hn & _). rewrite Hn in Hg. discriminate.
  - destruct Hpc as (_ & _ & Hn & _). rewrite Hn in Hg. discriminate.
  - destruct Hpc as (_ & _ & Hn). rewrite Hn in Hg. discriminate.
Qed.
End G.
