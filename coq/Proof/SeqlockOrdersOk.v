(** The memory orders GENERATED from xenium/seqlock.hpp (gen/SeqlockOrders.v) satisfy the side conditions of the
    weak-memory atomicity theorems; the theorems instantiated with them. *)
From Coq Require Import Arith NArith List Bool.
From XV Require Import WM.View WM.SeqlockWM WM.SeqlockWMProof gen.SeqlockOrders.
From XV Require WM.SeqlockWMSlots WM.SeqlockWMSlotsProof.

Lemma gen_orders_ok : orders_ok gen_orders = true.
Proof. reflexivity. Qed.

Lemma gen_orders_ok_slots : SeqlockWMSlots.orders_ok_slots gen_orders = true.
Proof. reflexivity. Qed.

Definition source_weak_atomic W (HW : 1 <= W) := seqlock_weak_atomic W gen_orders HW gen_orders_ok.
Definition source_weak_atomic_slots K W (HK : 1 <= K) (HW : 1 <= W) :=
  SeqlockWMSlotsProof.seqlock_slots_weak_atomic K W gen_orders HK HW gen_orders_ok_slots.
