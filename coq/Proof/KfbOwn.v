(** kirsch_bounded_kfifo_queue (C06), invariant layer 2 (ownership): every stored pointer is either committed and
    not yet popped, or the pending insertion of exactly one thread inside committed(); committed values that
    were not popped are in exactly one slot; pushers own distinct tokens.  One lemma per shared effect of a
    step (allocation, insertion, take-back, commit, take by a pop, return).  No axioms, no admits. *)
From Coq Require Import NArith List Bool Lia PeanoNat.
From XV Require Import Base.Word Conc.Lts Conc.Ev Model.KfbDefs.
From XV Require Import Proof.KfbArith Proof.KfbWf.
Import ListNotations.
Local Open Scope N_scope.

Definition pblock (p : pc) : option N :=
  match p with
  | P1 b | P2 b _ | PF b _ _ _ _ | P3 b _ _ _ | P3n b _ _ | P4 b _ _ _ | PQ b _ _ | PS b _ _ _ | PHC b _ _ | PH b _ _ | PT b _
  | C1 b _ _ _ | C2 b _ _ _ | C3 b _ _ _ _ | C4 b _ _ _ _ _ | C5 b _ _ _ _ | C6 b _ _ => Some b
  | _ => None
  end.
Definition cinfo (p : pc) : option (N * N * N) :=
  match p with
  | C1 b _ j tg | C2 b _ j tg | C3 b _ j tg _ | C4 b _ j tg _ _ | C5 b _ j tg _ | C6 b j tg => Some (b, j, tg)
  | _ => None
  end.

Lemma cinfo_pblock p b j tg : cinfo p = Some (b, j, tg) -> pblock p = Some b.
Proof. destruct p; cbn; intros H; inversion H; reflexivity. Qed.

Lemma mem_spec b l : mem b l = true <-> In b l.
Proof.
  unfold mem. rewrite existsb_exists. split.
  - intros (x & Hin & He). apply N.eqb_eq in He. subst. exact Hin.
  - intros H. exists b. split; [exact H|apply N.eqb_refl].
Qed.
Lemma commit_in b l x : In x (commit b l) <-> In x l \/ x = b.
Proof.
  unfold commit. destruct (mem b l) eqn:E.
  - apply mem_spec in E. split; [auto|intros [H| ->]; assumption].
  - rewrite in_app_iff. cbn. intuition.
Qed.
Lemma commit_old b l : In b l -> commit b l = l.
Proof. intros H. unfold commit. apply mem_spec in H. rewrite H. reflexivity. Qed.
Lemma commit_new b l : ~ In b l -> commit b l = l ++ [b].
Proof. intros H. unfold commit. destruct (mem b l) eqn:E; [apply mem_spec in E; contradiction|reflexivity]. Qed.
Lemma NoDup_snoc (l : list N) n : NoDup l -> ~ In n l -> NoDup (l ++ [n]).
Proof.
  induction l as [|a l IH]; cbn; intros Hnd Hni; [constructor; [intros []|constructor]|].
  inversion Hnd; subst. constructor.
  - rewrite in_app_iff. cbn. intuition.
  - apply IH; [assumption|intuition].
Qed.
Lemma commit_nodup b l : NoDup l -> NoDup (commit b l).
Proof. intros H. unfold commit. destruct (mem b l) eqn:E; [exact H|]. apply NoDup_snoc; [exact H|]. intros Hin. apply mem_spec in Hin. congruence. Qed.

(** thread invariant as a function of the abstract view (cinfo, pblock) *)
Definition T2' (st : state) (ci : option (N * N * N)) (pb : option N) : Prop :=
  match ci with
  | Some (b, j, tg) => (slot st j = (b, tg) /\ ~ In b (g_in st)) \/ (In b (g_in st) /\ In b (g_out st))
  | None => match pb with
            | Some b => ~ In b (g_in st) /\ forall j, fst (slot st j) <> b
            | None => True
            end
  end.
Definition T2 (st : state) (p : pc) : Prop := T2' st (cinfo p) (pblock p).

Record Inv2 (st : state) : Prop := {
  i_nalloc : 2 <= nalloc st;
  i_in_lt : forall b, In b (g_in st) -> 2 <= b < nalloc st;
  i_nd_in : NoDup (g_in st);
  i_nd_out : NoDup (g_out st);
  i_incl : incl (g_out st) (g_in st);
  i_slot : forall j b tg, slot st j = (b, tg) -> b <> 0 ->
           (In b (g_in st) /\ ~ In b (g_out st)) \/ (~ In b (g_in st) /\ exists t, cinfo (th st t) = Some (b, j, tg));
  i_pres : forall b, In b (g_in st) -> ~ In b (g_out st) -> exists j, fst (slot st j) = b;
  i_uniq : forall j j', fst (slot st j) = fst (slot st j') -> fst (slot st j) <> 0 -> j = j';
  i_own_lt : forall t b, pblock (th st t) = Some b -> 2 <= b < nalloc st;
  i_own_u : forall t t' b, pblock (th st t) = Some b -> pblock (th st t') = Some b -> t = t';
  i_th : forall t, T2 st (th st t);
  i_ok_in : forall b, In b (g_ok st) -> In b (g_in st);
  i_in_ok : forall b, In b (g_in st) -> In b (g_ok st) \/ exists t j tg, cinfo (th st t) = Some (b, j, tg) }.

Lemma Inv2_init : Inv2 init.
Proof.
  constructor; cbn [init g_in g_out g_ok slot th nalloc].
  - lia.
  - intros b [].
  - constructor.
  - constructor.
  - intros b [].
  - intros j b tg H. inversion H. congruence.
  - intros b [].
  - intros j j' _ H. cbn in H. congruence.
  - intros t b H. discriminate.
  - intros t t' b H. discriminate.
  - intros t. exact I.
  - intros b [].
  - intros b [].
Qed.

(** the invariant sees the thread map only through [cinfo] and [pblock] *)
Lemma Inv2_ext s s' :
  Inv2 s -> slot s' = slot s -> g_in s' = g_in s -> g_out s' = g_out s -> g_ok s' = g_ok s -> nalloc s' = nalloc s ->
  (forall t, cinfo (th s' t) = cinfo (th s t)) -> (forall t, pblock (th s' t) = pblock (th s t)) -> Inv2 s'.
Proof.
  intros I E1 E2 E3 E4 E5 Ec Ep. destruct I.
  constructor; rewrite ?E1, ?E2, ?E3, ?E4, ?E5; try assumption.
  - intros j b tg H Hb. destruct (i_slot0 j b tg H Hb) as [A|[A [t B]]]; [left; exact A|right]. split; [exact A|]. exists t. rewrite Ec. exact B.
  - intros t b. rewrite Ep. apply i_own_lt0.
  - intros t t' b. rewrite !Ep. apply i_own_u0.
  - intros t. unfold T2. rewrite Ec, Ep. unfold T2'. rewrite E1, E2, E3. apply (i_th0 t).
  - intros b Hb. destruct (i_in_ok0 b Hb) as [A|(t & j & tg & A)]; [left; exact A|right]. exists t, j, tg. rewrite Ec. exact A.
Qed.

Lemma upd_view {X} (f : pc -> X) s t p' : f p' = f (th s t) -> forall t0, f (upd (th s) t p' t0) = f (th s t0).
Proof. intros H t0. unfold upd. destruct (Nat.eqb_spec t0 t); [subst; exact H|reflexivity]. Qed.

Lemma Inv2_frame s s' t p' :
  Inv2 s -> slot s' = slot s -> g_in s' = g_in s -> g_out s' = g_out s -> g_ok s' = g_ok s -> nalloc s' = nalloc s ->
  th s' = upd (th s) t p' -> cinfo p' = cinfo (th s t) -> pblock p' = pblock (th s t) -> Inv2 s'.
Proof.
  intros I E1 E2 E3 E4 E5 Et Hc Hp. apply (Inv2_ext s s' I E1 E2 E3 E4 E5); intros t0; rewrite Et; apply upd_view; assumption.
Qed.

Lemma in_slot_known s : Inv2 s -> forall j, fst (slot s j) <> 0 -> 2 <= fst (slot s j) < nalloc s.
Proof.
  intros I j Hnz. destruct (slot s j) as [b tg] eqn:E. cbn [fst] in *.
  destruct (i_slot s I j b tg E Hnz) as [[A _]|[_ [t A]]].
  - apply (i_in_lt s I b A).
  - apply (i_own_lt s I t b). eapply cinfo_pblock; eauto.
Qed.

(** allocation of a token: [Begin (OPush v)] -> [P1 b] *)
Lemma Inv2_alloc s s' t :
  Inv2 s -> pblock (th s t) = None -> cinfo (th s t) = None ->
  slot s' = slot s -> g_in s' = g_in s -> g_out s' = g_out s -> g_ok s' = g_ok s -> nalloc s' = nalloc s + 1 ->
  th s' = upd (th s) t (P1 (nalloc s)) -> Inv2 s'.
Proof.
  intros I Hp Hc E1 E2 E3 E4 E5 Et.
  assert (Hc0 : forall t0, t0 <> t -> th s' t0 = th s t0) by (intros; rewrite Et; apply upd_other; assumption).
  assert (Hme : th s' t = P1 (nalloc s)) by (rewrite Et; apply upd_same).
  pose proof (i_nalloc s I) as Hna.
  constructor; rewrite ?E1, ?E2, ?E3, ?E4, ?E5.
  - lia.
  - intros b Hb. pose proof (i_in_lt s I b Hb). lia.
  - apply I. - apply I. - apply I.
  - intros j b tg H Hb. destruct (i_slot s I j b tg H Hb) as [A|[A [t0 B]]]; [left; exact A|right]. split; [exact A|].
    exists t0. destruct (Nat.eq_dec t0 t) as [->|Hne]; [congruence|]. rewrite Hc0 by exact Hne. exact B.
  - apply I. - apply I.
  - intros t0 b. destruct (Nat.eq_dec t0 t) as [->|Hne].
    + rewrite Hme. cbn. intros H; inversion H; subst. lia.
    + rewrite Hc0 by exact Hne. intros H. pose proof (i_own_lt s I t0 b H). lia.
  - intros t0 t1 b. destruct (Nat.eq_dec t0 t) as [->|Hn0]; destruct (Nat.eq_dec t1 t) as [->|Hn1]; try reflexivity;
      rewrite ?Hme, ?Hc0 by assumption; cbn [pblock]; intros A B.
    + inversion A; subst. pose proof (i_own_lt s I t1 _ B). lia.
    + inversion B; subst. pose proof (i_own_lt s I t0 _ A). lia.
    + eapply (i_own_u s I); eauto.
  - intros t0. destruct (Nat.eq_dec t0 t) as [->|Hne].
    + rewrite Hme. unfold T2, T2'. cbn [cinfo pblock]. rewrite E1, E2. split.
      * intros Hin. pose proof (i_in_lt s I _ Hin). lia.
      * intros j Hj. assert (Hnz : fst (slot s j) <> 0) by (pose proof (i_own_lt s I); lia).
        pose proof (in_slot_known s I j Hnz). lia.
    + rewrite Hc0 by exact Hne. pose proof (i_th s I t0) as H. unfold T2, T2' in *. rewrite E1, E2, E3. exact H.
  - apply I.
  - intros b Hb. destruct (i_in_ok s I b Hb) as [A|(t0 & j & tg & A)]; [left; exact A|right]. exists t0, j, tg.
    destruct (Nat.eq_dec t0 t) as [->|Hne]; [congruence|]. rewrite Hc0 by exact Hne. exact A.
Qed.

Lemma own_ne s t t0 b b0 : Inv2 s -> t0 <> t -> pblock (th s t) = Some b -> pblock (th s t0) = Some b0 -> b0 <> b.
Proof. intros I Hne A B ->. apply Hne. eapply (i_own_u s I); eauto. Qed.

Lemma popped_not_in_slot s b j tg : Inv2 s -> b <> 0 -> In b (g_out s) -> slot s j <> (b, tg).
Proof.
  intros I Hb Ho E. destruct (i_slot s I j b tg E Hb) as [[_ A]|[A _]]; [contradiction|].
  apply A. apply (i_incl s I). exact Ho.
Qed.


(** insertion CAS: [P4] -> [C1] *)
Lemma Inv2_ins s s' t b j otag tg' p' :
  Inv2 s -> pblock (th s t) = Some b -> cinfo (th s t) = None -> slot s j = (0, otag) ->
  slot s' = setf (slot s) j (b, tg') -> g_in s' = g_in s -> g_out s' = g_out s -> g_ok s' = g_ok s -> nalloc s' = nalloc s ->
  th s' = upd (th s) t p' -> cinfo p' = Some (b, j, tg') -> Inv2 s'.
Proof.
  intros I Hp Hc Hsl E1 E2 E3 E4 E5 Et Hc'.
  assert (Hp' : pblock p' = Some b) by (eapply cinfo_pblock; eauto).
  assert (Hc0 : forall t0, t0 <> t -> th s' t0 = th s t0) by (intros; rewrite Et; apply upd_other; assumption).
  assert (Hme : th s' t = p') by (rewrite Et; apply upd_same).
  assert (Hpb : forall t0, pblock (th s' t0) = pblock (th s t0)) by (intros t0; rewrite Et; apply upd_view; congruence).
  pose proof (i_th s I t) as Ht. unfold T2, T2' in Ht. rewrite Hc, Hp in Ht. destruct Ht as [Hnin Hnsl].
  pose proof (i_own_lt s I t b Hp) as Hb2.
  constructor; rewrite ?E2, ?E3, ?E4, ?E5; try apply I.
  - intros j0 b0 tg0. rewrite E1. unfold setf. destruct (N.eqb_spec j0 j) as [->|Hn].
    + intros H _. injection H as <- <-. right. split; [exact Hnin|]. exists t. rewrite Hme. exact Hc'.
    + intros H Hb0. destruct (i_slot s I j0 b0 tg0 H Hb0) as [A|[A [t0 B]]]; [left; exact A|right]. split; [exact A|].
      exists t0. destruct (Nat.eq_dec t0 t) as [->|Hne]; [congruence|]. rewrite Hc0 by exact Hne. exact B.
  - intros b0 A B. destruct (i_pres s I b0 A B) as [j0 Hj0]. exists j0. rewrite E1. unfold setf.
    destruct (N.eqb_spec j0 j) as [->|Hn]; [|exact Hj0]. rewrite Hsl in Hj0. cbn in Hj0. pose proof (i_in_lt s I b0 A). lia.
  - intros j1 j2. rewrite E1. unfold setf. destruct (N.eqb_spec j1 j) as [->|H1]; destruct (N.eqb_spec j2 j) as [->|H2]; cbn [fst]; try reflexivity.
    + intros H _. exfalso. apply (Hnsl j2). congruence.
    + intros H _. exfalso. apply (Hnsl j1). congruence.
    + apply (i_uniq s I).
  - intros t0 b0. rewrite Hpb. apply (i_own_lt s I).
  - intros t0 t1 b0. rewrite !Hpb. apply (i_own_u s I).
  - intros t0. destruct (Nat.eq_dec t0 t) as [->|Hne].
    + rewrite Hme. unfold T2, T2'. rewrite Hc'. left. rewrite E1, E2, setf_same. split; [reflexivity|exact Hnin].
    + rewrite Hc0 by exact Hne. pose proof (i_th s I t0) as H. unfold T2, T2' in *.
      destruct (cinfo (th s t0)) as [[[b0 j0] tg0]|] eqn:Ec.
      * rewrite E1, E2, E3. destruct H as [[A B]|A]; [left|right; exact A]. split; [|exact B].
        pose proof (i_own_lt s I t0 b0 (cinfo_pblock _ _ _ _ Ec)).
        rewrite setf_other; [exact A|]. intros ->. rewrite Hsl in A. inversion A. lia.
      * destruct (pblock (th s t0)) as [b0|] eqn:Eb; [|exact Logic.I]. rewrite E1, E2. destruct H as [A B]. split; [exact A|].
        intros j1. unfold setf. destruct (N.eqb_spec j1 j) as [->|Hn]; [|apply B]. cbn [fst].
        intros ->. eapply (own_ne s t t0); eauto.
  - intros b0 Hb0. destruct (i_in_ok s I b0 Hb0) as [A|(t0 & j0 & tg0 & A)]; [left; exact A|right]. exists t0, j0, tg0.
    destruct (Nat.eq_dec t0 t) as [->|Hne]; [congruence|]. rewrite Hc0 by exact Hne. exact A.
Qed.

(** a thread that holds no inserted value becomes idle (push returns full, pop returns) *)
Lemma Inv2_release s s' t :
  Inv2 s -> cinfo (th s t) = None ->
  slot s' = slot s -> g_in s' = g_in s -> g_out s' = g_out s -> g_ok s' = g_ok s -> nalloc s' = nalloc s ->
  th s' = upd (th s) t Idle -> Inv2 s'.
Proof.
  intros I Hc E1 E2 E3 E4 E5 Et.
  assert (Hc0 : forall t0, t0 <> t -> th s' t0 = th s t0) by (intros; rewrite Et; apply upd_other; assumption).
  assert (Hme : th s' t = Idle) by (rewrite Et; apply upd_same).
  constructor; rewrite ?E1, ?E2, ?E3, ?E4, ?E5; try apply I.
  - intros j0 b0 tg0 H Hb0. destruct (i_slot s I j0 b0 tg0 H Hb0) as [A|[A [t0 B]]]; [left; exact A|right]. split; [exact A|].
    exists t0. destruct (Nat.eq_dec t0 t) as [->|Hne]; [congruence|]. rewrite Hc0 by exact Hne. exact B.
  - intros t0 b0. destruct (Nat.eq_dec t0 t) as [->|Hne]; [rewrite Hme; discriminate|rewrite Hc0 by exact Hne; apply (i_own_lt s I)].
  - intros t0 t1 b0. destruct (Nat.eq_dec t0 t) as [->|Hn0]; [rewrite Hme; discriminate|].
    destruct (Nat.eq_dec t1 t) as [->|Hn1]; [rewrite Hme; discriminate|]. rewrite !Hc0 by assumption. apply (i_own_u s I).
  - intros t0. destruct (Nat.eq_dec t0 t) as [->|Hne]; [rewrite Hme; exact Logic.I|].
    rewrite Hc0 by exact Hne. pose proof (i_th s I t0) as H. unfold T2, T2' in *. rewrite E1, E2, E3. exact H.
  - intros b0 Hb0. destruct (i_in_ok s I b0 Hb0) as [A|(t0 & j0 & tg0 & A)]; [left; exact A|right]. exists t0, j0, tg0.
    destruct (Nat.eq_dec t0 t) as [->|Hne]; [congruence|]. rewrite Hc0 by exact Hne. exact A.
Qed.

(** [committed] returns true because the value is no longer in its slot: a pop took it *)
Lemma Inv2_retok_popped s s' t b j tg :
  Inv2 s -> cinfo (th s t) = Some (b, j, tg) -> slot s j <> (b, tg) ->
  slot s' = slot s -> g_in s' = g_in s -> g_out s' = g_out s -> g_ok s' = g_ok s ++ [b] -> nalloc s' = nalloc s ->
  th s' = upd (th s) t Idle -> Inv2 s'.
Proof.
  intros I Hc Hsl E1 E2 E3 E4 E5 Et.
  assert (Hc0 : forall t0, t0 <> t -> th s' t0 = th s t0) by (intros; rewrite Et; apply upd_other; assumption).
  assert (Hme : th s' t = Idle) by (rewrite Et; apply upd_same).
  pose proof (i_th s I t) as Ht. unfold T2, T2' in Ht. rewrite Hc in Ht. destruct Ht as [[A _]|[Hin Hout]]; [contradiction|].
  constructor; rewrite ?E1, ?E2, ?E3, ?E4, ?E5; try apply I.
  - intros j0 b0 tg0 H Hb0. destruct (i_slot s I j0 b0 tg0 H Hb0) as [A|[A [t0 B]]]; [left; exact A|right]. split; [exact A|].
    exists t0. destruct (Nat.eq_dec t0 t) as [->|Hne]; [|rewrite Hc0 by exact Hne; exact B].
    rewrite Hc in B. inversion B; subst. contradiction.
  - intros t0 b0. destruct (Nat.eq_dec t0 t) as [->|Hne]; [rewrite Hme; discriminate|rewrite Hc0 by exact Hne; apply (i_own_lt s I)].
  - intros t0 t1 b0. destruct (Nat.eq_dec t0 t) as [->|Hn0]; [rewrite Hme; discriminate|].
    destruct (Nat.eq_dec t1 t) as [->|Hn1]; [rewrite Hme; discriminate|]. rewrite !Hc0 by assumption. apply (i_own_u s I).
  - intros t0. destruct (Nat.eq_dec t0 t) as [->|Hne]; [rewrite Hme; exact Logic.I|].
    rewrite Hc0 by exact Hne. pose proof (i_th s I t0) as H. unfold T2, T2' in *. rewrite E1, E2, E3. exact H.
  - intros b0. rewrite in_app_iff. cbn. intros [A|[<-|[]]]; [apply (i_ok_in s I); exact A|exact Hin].
  - intros b0 Hb0. rewrite in_app_iff. destruct (i_in_ok s I b0 Hb0) as [A|(t0 & j0 & tg0 & A)]; [left; left; exact A|].
    destruct (Nat.eq_dec t0 t) as [->|Hne].
    + rewrite Hc in A. inversion A; subst. left. right. left. reflexivity.
    + right. exists t0, j0, tg0. rewrite Hc0 by exact Hne. exact A.
Qed.

(** [committed] decides true (valid region or successful head tag bump): the value is committed, unless a pop was faster *)
Lemma Inv2_commit s s' t b j tg :
  Inv2 s -> cinfo (th s t) = Some (b, j, tg) ->
  slot s' = slot s -> g_in s' = commit b (g_in s) -> g_out s' = g_out s -> g_ok s' = g_ok s ++ [b] -> nalloc s' = nalloc s ->
  th s' = upd (th s) t Idle -> Inv2 s'.
Proof.
  intros I Hc E1 E2 E3 E4 E5 Et.
  pose proof (i_own_lt s I t b (cinfo_pblock _ _ _ _ Hc)) as Hb2.
  pose proof (i_th s I t) as Ht. unfold T2, T2' in Ht. rewrite Hc in Ht. destruct Ht as [[Hsl Hnin]|[Hin Hout]].
  2:{ rewrite commit_old in E2 by exact Hin. eapply (Inv2_retok_popped s s' t b j tg); eauto.
      apply popped_not_in_slot; [exact I|lia|exact Hout]. }
  rewrite commit_new in E2 by exact Hnin.
  assert (Hc0 : forall t0, t0 <> t -> th s' t0 = th s t0) by (intros; rewrite Et; apply upd_other; assumption).
  assert (Hme : th s' t = Idle) by (rewrite Et; apply upd_same).
  assert (Hnout : ~ In b (g_out s)) by (intros H; apply Hnin; apply (i_incl s I); exact H).
  constructor; rewrite ?E1, ?E2, ?E3, ?E4, ?E5; try apply I.
  - intros b0. rewrite in_app_iff. cbn. intros [A|[<-|[]]]; [apply (i_in_lt s I); exact A|exact Hb2].
  - apply NoDup_snoc; [apply I|exact Hnin].
  - apply incl_appl. apply I.
  - intros j0 b0 tg0 H Hb0. rewrite in_app_iff. destruct (N.eq_dec b0 b) as [->|Hnb].
    + left. split; [right; left; reflexivity|exact Hnout].
    + destruct (i_slot s I j0 b0 tg0 H Hb0) as [[A B]|[A [t0 B]]]; [left; split; [left; exact A|exact B]|right].
      split; [cbn; intuition|]. exists t0. destruct (Nat.eq_dec t0 t) as [->|Hne]; [|rewrite Hc0 by exact Hne; exact B].
      rewrite Hc in B. inversion B; subst. contradiction.
  - intros b0. rewrite in_app_iff. cbn. intros [A|[<-|[]]] B; [apply (i_pres s I); assumption|].
    exists j. rewrite Hsl. reflexivity.
  - intros t0 b0. destruct (Nat.eq_dec t0 t) as [->|Hne]; [rewrite Hme; discriminate|rewrite Hc0 by exact Hne; apply (i_own_lt s I)].
  - intros t0 t1 b0. destruct (Nat.eq_dec t0 t) as [->|Hn0]; [rewrite Hme; discriminate|].
    destruct (Nat.eq_dec t1 t) as [->|Hn1]; [rewrite Hme; discriminate|]. rewrite !Hc0 by assumption. apply (i_own_u s I).
  - intros t0. destruct (Nat.eq_dec t0 t) as [->|Hne]; [rewrite Hme; exact Logic.I|].
    rewrite Hc0 by exact Hne. pose proof (i_th s I t0) as H. unfold T2, T2' in *.
    destruct (cinfo (th s t0)) as [[[b0 j0] tg0]|] eqn:Ec.
    + assert (b0 <> b) by (eapply (own_ne s t t0); eauto using cinfo_pblock).
      rewrite E1, E2, E3. rewrite in_app_iff. cbn. destruct H as [[A B]|[A B]]; [left; split; [exact A|intuition]|right; auto].
    + destruct (pblock (th s t0)) as [b0|] eqn:Eb; [|exact Logic.I].
      assert (b0 <> b) by (eapply (own_ne s t t0); eauto using cinfo_pblock).
      rewrite E1, E2. rewrite in_app_iff. cbn. destruct H as [A B]. split; [intuition|exact B].
  - intros b0. rewrite !in_app_iff. cbn. intros [A|[<-|[]]]; [left; apply (i_ok_in s I); exact A|right; left; reflexivity].
  - intros b0. rewrite !in_app_iff. cbn. intros [Hb0|[<-|[]]]; [|left; right; left; reflexivity].
    destruct (i_in_ok s I b0 Hb0) as [A|(t0 & j0 & tg0 & A)]; [left; left; exact A|].
    destruct (Nat.eq_dec t0 t) as [->|Hne].
    + rewrite Hc in A. inversion A; subst. left. right. left. reflexivity.
    + right. exists t0, j0, tg0. rewrite Hc0 by exact Hne. exact A.
Qed.

Lemma uniq_setf_null s j tg' : Inv2 s ->
  forall j1 j2, fst (setf (slot s) j (0, tg') j1) = fst (setf (slot s) j (0, tg') j2) -> fst (setf (slot s) j (0, tg') j1) <> 0 -> j1 = j2.
Proof.
  intros I j1 j2. unfold setf. destruct (N.eqb_spec j1 j) as [->|H1]; destruct (N.eqb_spec j2 j) as [->|H2]; cbn [fst]; try reflexivity; try congruence.
  apply (i_uniq s I).
Qed.

(** take-back CAS: [C6] -> [P1] *)
Lemma Inv2_back s s' t b j tg tg' p' :
  Inv2 s -> cinfo (th s t) = Some (b, j, tg) -> slot s j = (b, tg) ->
  slot s' = setf (slot s) j (0, tg') -> g_in s' = g_in s -> g_out s' = g_out s -> g_ok s' = g_ok s -> nalloc s' = nalloc s ->
  th s' = upd (th s) t p' -> pblock p' = Some b -> cinfo p' = None -> Inv2 s'.
Proof.
  intros I Hc Hsl E1 E2 E3 E4 E5 Et Hp' Hc'.
  pose proof (cinfo_pblock _ _ _ _ Hc) as Hp.
  pose proof (i_own_lt s I t b Hp) as Hb2.
  assert (Hc0 : forall t0, t0 <> t -> th s' t0 = th s t0) by (intros; rewrite Et; apply upd_other; assumption).
  assert (Hme : th s' t = p') by (rewrite Et; apply upd_same).
  assert (Hpb : forall t0, pblock (th s' t0) = pblock (th s t0)) by (intros t0; rewrite Et; apply upd_view; congruence).
  pose proof (i_th s I t) as Ht. unfold T2, T2' in Ht. rewrite Hc in Ht. destruct Ht as [[_ Hnin]|[Hin Hout]].
  2:{ exfalso. eapply (popped_not_in_slot s b j tg); eauto. lia. }
  constructor; rewrite ?E2, ?E3, ?E4, ?E5; try apply I.
  - intros j0 b0 tg0. rewrite E1. unfold setf. destruct (N.eqb_spec j0 j) as [->|Hn].
    + intros H Hb0. inversion H; subst. congruence.
    + intros H Hb0. destruct (i_slot s I j0 b0 tg0 H Hb0) as [A|[A [t0 B]]]; [left; exact A|right]. split; [exact A|].
      exists t0. destruct (Nat.eq_dec t0 t) as [->|Hne]; [|rewrite Hc0 by exact Hne; exact B].
      rewrite Hc in B. inversion B; subst. contradiction.
  - intros b0 A B. destruct (i_pres s I b0 A B) as [j0 Hj0]. exists j0. rewrite E1. rewrite setf_other; [exact Hj0|].
    intros ->. rewrite Hsl in Hj0. cbn in Hj0. subst. contradiction.
  - rewrite E1. apply uniq_setf_null. exact I.
  - intros t0 b0. rewrite Hpb. apply (i_own_lt s I).
  - intros t0 t1 b0. rewrite !Hpb. apply (i_own_u s I).
  - intros t0. destruct (Nat.eq_dec t0 t) as [->|Hne].
    + rewrite Hme. unfold T2, T2'. rewrite Hc', Hp'. rewrite E1, E2. split; [exact Hnin|].
      intros j1. unfold setf. destruct (N.eqb_spec j1 j) as [->|Hn]; cbn [fst]; [lia|].
      intros H. apply Hn. apply (i_uniq s I); [rewrite Hsl; exact H|rewrite H; lia].
    + rewrite Hc0 by exact Hne. pose proof (i_th s I t0) as H. unfold T2, T2' in *.
      destruct (cinfo (th s t0)) as [[[b0 j0] tg0]|] eqn:Ec.
      * rewrite E1, E2, E3. destruct H as [[A B]|A]; [left|right; exact A]. split; [|exact B].
        rewrite setf_other; [exact A|]. intros ->. rewrite Hsl in A. inversion A; subst.
        eapply (own_ne s t t0); eauto using cinfo_pblock.
      * destruct (pblock (th s t0)) as [b0|] eqn:Eb; [|exact Logic.I]. rewrite E1, E2. destruct H as [A B]. split; [exact A|].
        intros j1. unfold setf. destruct (N.eqb_spec j1 j) as [->|Hn]; [|apply B]. cbn [fst].
        pose proof (i_own_lt s I t0 b0 Eb). lia.
  - intros b0 Hb0. destruct (i_in_ok s I b0 Hb0) as [A|(t0 & j0 & tg0 & A)]; [left; exact A|right].
    destruct (Nat.eq_dec t0 t) as [->|Hne].
    + rewrite Hc in A. inversion A; subst. contradiction.
    + exists t0, j0, tg0. rewrite Hc0 by exact Hne. exact A.
Qed.

(** a pop takes the value of slot j *)
Lemma Inv2_take s s' t p j tg tg' :
  Inv2 s -> cinfo (th s t) = None -> slot s j = (p, tg) -> p <> 0 ->
  slot s' = setf (slot s) j (0, tg') -> g_in s' = commit p (g_in s) -> g_out s' = g_out s ++ [p] -> g_ok s' = g_ok s -> nalloc s' = nalloc s ->
  th s' = upd (th s) t Idle -> Inv2 s'.
Proof.
  intros I Hc Hsl Hp E1 E2 E3 E4 E5 Et.
  assert (Hc0 : forall t0, t0 <> t -> th s' t0 = th s t0) by (intros; rewrite Et; apply upd_other; assumption).
  assert (Hme : th s' t = Idle) by (rewrite Et; apply upd_same).
  assert (Hp2 : 2 <= p < nalloc s) by (pose proof (in_slot_known s I j) as H; rewrite Hsl in H; apply H; exact Hp).
  assert (Hnout : ~ In p (g_out s)).
  { destruct (i_slot s I j p tg Hsl Hp) as [[_ A]|[A _]]; [exact A|]. intros H. apply A. apply (i_incl s I). exact H. }
  assert (Hother : forall j0, j0 <> j -> fst (slot s j0) <> p).
  { intros j0 Hn H. apply Hn. apply (i_uniq s I); [rewrite Hsl; exact H|rewrite H; exact Hp]. }
  constructor; rewrite ?E2, ?E3, ?E4, ?E5; try apply I.
  - intros b0. rewrite commit_in. intros [A| ->]; [apply (i_in_lt s I); exact A|exact Hp2].
  - apply commit_nodup. apply I.
  - apply NoDup_snoc; [apply I|exact Hnout].
  - intros x. rewrite in_app_iff, commit_in. cbn. intros [A|[<-|[]]]; [left; apply (i_incl s I); exact A|right; reflexivity].
  - intros j0 b0 tg0. rewrite E1. unfold setf. destruct (N.eqb_spec j0 j) as [->|Hn].
    + intros H Hb0. inversion H; subst. congruence.
    + intros H Hb0. assert (Hbp : b0 <> p) by (intros ->; apply (Hother j0 Hn); rewrite H; reflexivity).
      rewrite commit_in, in_app_iff. cbn.
      destruct (i_slot s I j0 b0 tg0 H Hb0) as [[A B]|[A [t0 B]]]; [left; split; [left; exact A|intuition]|right].
      split; [intuition|]. exists t0. destruct (Nat.eq_dec t0 t) as [->|Hne]; [congruence|rewrite Hc0 by exact Hne; exact B].
  - intros b0. rewrite commit_in, in_app_iff. cbn. intros A B.
    assert (Hbp : b0 <> p) by (intros ->; apply B; right; left; reflexivity).
    destruct A as [A|A]; [|contradiction]. destruct (i_pres s I b0 A ltac:(intuition)) as [j0 Hj0].
    exists j0. rewrite E1. rewrite setf_other; [exact Hj0|]. intros ->. rewrite Hsl in Hj0. cbn in Hj0. congruence.
  - rewrite E1. apply uniq_setf_null. exact I.
  - intros t0 b0. destruct (Nat.eq_dec t0 t) as [->|Hne]; [rewrite Hme; discriminate|rewrite Hc0 by exact Hne; apply (i_own_lt s I)].
  - intros t0 t1 b0. destruct (Nat.eq_dec t0 t) as [->|Hn0]; [rewrite Hme; discriminate|].
    destruct (Nat.eq_dec t1 t) as [->|Hn1]; [rewrite Hme; discriminate|]. rewrite !Hc0 by assumption. apply (i_own_u s I).
  - intros t0. destruct (Nat.eq_dec t0 t) as [->|Hne]; [rewrite Hme; exact Logic.I|].
    rewrite Hc0 by exact Hne. pose proof (i_th s I t0) as H. unfold T2, T2' in *.
    destruct (cinfo (th s t0)) as [[[b0 j0] tg0]|] eqn:Ec.
    + rewrite E1, E2, E3. rewrite commit_in, in_app_iff. cbn. destruct H as [[A B]|[A B]]; [|right; auto].
      destruct (N.eq_dec j0 j) as [->|Hn].
      * rewrite Hsl in A. inversion A; subst. right. auto.
      * left. rewrite setf_other by exact Hn. split; [exact A|]. intros [C| ->]; [contradiction|].
        apply (Hother j0 Hn). rewrite A. reflexivity.
    + destruct (pblock (th s t0)) as [b0|] eqn:Eb; [|exact Logic.I]. rewrite E1, E2. rewrite commit_in. destruct H as [A B]. split.
      * intros [C| ->]; [contradiction|]. apply (B j). rewrite Hsl. reflexivity.
      * intros j1. unfold setf. destruct (N.eqb_spec j1 j) as [->|Hn]; [|apply B]. cbn [fst].
        pose proof (i_own_lt s I t0 b0 Eb). lia.
  - intros b0 A. rewrite commit_in. left. apply (i_ok_in s I). exact A.
  - intros b0. rewrite commit_in. intros [Hb0| ->].
    + destruct (i_in_ok s I b0 Hb0) as [A|(t0 & j0 & tg0 & A)]; [left; exact A|right]. exists t0, j0, tg0.
      destruct (Nat.eq_dec t0 t) as [->|Hne]; [congruence|]. rewrite Hc0 by exact Hne. exact A.
    + destruct (i_slot s I j p tg Hsl Hp) as [[A _]|[_ [t0 B]]].
      * destruct (i_in_ok s I p A) as [C|(t0 & j0 & tg0 & C)]; [left; exact C|right]. exists t0, j0, tg0.
        destruct (Nat.eq_dec t0 t) as [->|Hne]; [congruence|]. rewrite Hc0 by exact Hne. exact C.
      * right. exists t0, j, tg. destruct (Nat.eq_dec t0 t) as [->|Hne]; [congruence|]. rewrite Hc0 by exact Hne. exact B.
Qed.

Set Default Proof Using "All".
Section L2.
  Variables k segs : N.
  Hypothesis Hk : 1 <= k.
  Hypothesis Hs : 1 <= segs.
  Notation step := (step k segs).

  Ltac frame Iv E := eapply (Inv2_frame _ _ _ _ Iv); sim; try reflexivity; rewrite E; reflexivity.

  Lemma Inv2_step s a s' es : Inv1 k segs s -> Inv2 s -> step s a = Some (s', es) -> Inv2 s'.
  Proof.
    intros (_ & _ & _ & Hall) Iv Hst. unfold KfbDefs.step in Hst.
    destruct a as [t o|t r].
    - destruct (th s t) eqn:E; try discriminate. inversion Hst; subst; clear Hst. frame Iv E.
    - pose proof (Hall t) as Hme.
      destruct (th s t) as [|[v|]|b|b tl|b tl hd ri i|b tl j otag|b tl hd|b tl j otag|b tl hd|b tl hd i|b tl hd|b tl hd|b tl
                            |b tl j tg|b tl j tg|b tl j tg hc|b tl j tg hc tc|b tl j tg hc|b j tg
                            | |hd|hd tl ri i|hd tl j p tg|hd tl|hd tl j p tg|hd j p tg|hd tl|hd] eqn:E;
        try discriminate; cbn [T1] in Hme; brk Hst; inversion Hst; subst; clear Hst.
      all: try (frame Iv E).
      + eapply (Inv2_alloc _ _ t Iv); sim; try reflexivity; rewrite E; reflexivity.
      + eapply (Inv2_ins _ _ t b j otag (otag + 1) _ Iv); sim; try reflexivity; try (rewrite E; reflexivity); assumption.
      + eapply (Inv2_release _ _ t Iv); sim; try reflexivity; rewrite E; reflexivity.
      + eapply (Inv2_retok_popped _ _ t b j tg Iv); sim; try reflexivity; try (rewrite E; reflexivity); assumption.
      + eapply (Inv2_commit _ _ t b j tg Iv); sim; try reflexivity; rewrite E; reflexivity.
      + eapply (Inv2_commit _ _ t b j tg Iv); sim; try reflexivity; rewrite E; reflexivity.
      + eapply (Inv2_back _ _ t b j tg (tg + 1) _ Iv); sim; try reflexivity; try (rewrite E; reflexivity); assumption.
      + eapply (Inv2_retok_popped _ _ t b j tg Iv); sim; try reflexivity; try (rewrite E; reflexivity); assumption.
      + eapply (Inv2_take _ _ t p j tg (tg + 1) Iv); sim; try reflexivity; try (rewrite E; reflexivity); try assumption. apply Hme.
  Qed.

  Theorem Inv2_reach st : reach init step st -> Inv2 st.
  Proof.
    apply (inv_rule_aux _ _ _ init step (Inv1 k segs) Inv2).
    - apply Inv1_reach; assumption.
    - exact Inv2_init.
    - intros s a s' es J _ Iv Hst. eapply Inv2_step; eauto.
  Qed.
End L2.
