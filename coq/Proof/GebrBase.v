(** Structural invariants of the generalised epoch based reclamation model (Model/GebrDefs.v), for every configuration:
    the frame of a step, the thread-local shape of every program point ([tshape]: which program points own a control
    block, nested_critical_entries = number of non-empty guards of the thread, region_entries = nested_critical_entries
    + the region_guard, the ghost [sync]), exclusive ownership of thread control blocks and what the critical-region flag
    is known to be ([O0]).  Used by Proof/GebrInv.v.  No axioms. *)
From Coq Require Import NArith List Bool Arith Lia PeanoNat.
From XV Require Import Conc.Lts Conc.Ev Model.GebrDefs.
Import ListNotations.
Local Open Scope N_scope.

(** * Function updates *)
Lemma updN_same {X} (f : N -> X) i v : updN f i v i = v.
Proof. unfold updN. rewrite N.eqb_refl. reflexivity. Qed.
Lemma updN_other {X} (f : N -> X) i v j : j <> i -> updN f i v j = f j.
Proof. unfold updN. intros H. destruct (N.eqb_spec j i); [contradiction|reflexivity]. Qed.
Lemma updN_cases {X} (f : N -> X) i v j : (j = i /\ updN f i v j = v) \/ (j <> i /\ updN f i v j = f j).
Proof. destruct (N.eq_dec j i) as [->|H]; [left; split; [reflexivity|apply updN_same] | right; split; [exact H|apply updN_other; exact H]]. Qed.
Lemma upd_cases {X} (f : nat -> X) i v j : (j = i /\ upd f i v j = v) \/ (j <> i /\ upd f i v j = f j).
Proof. destruct (Nat.eq_dec j i) as [->|H]; [left; split; [reflexivity|apply upd_same] | right; split; [exact H|apply upd_other; exact H]]. Qed.

Ltac prj := cbn [gep blist bstate bflag blocal orph cells nalloc nextid nid th tl g_owner g_life g_where g_nfree g_uaf
                 w_gep w_blist w_bstate w_bflag w_blocal w_orph w_cells w_nalloc w_nextid w_nid w_th w_tl w_g_owner w_g_life w_g_where w_g_nfree w_g_uaf
                 set_pc set_tl free_all move_all deref
                 cb nest rent rg ces lidx rl gs sit tinit sync
                 wt_cb wt_nest wt_rent wt_rg wt_ces wt_lidx wt_rl wt_gs wt_sit wt_tinit wt_sync tl0 enter_tls leave_tls leave_rg_tls].
Ltac prj_in H := cbn [gep blist bstate bflag blocal orph cells nalloc nextid nid th tl g_owner g_life g_where g_nfree g_uaf
                 w_gep w_blist w_bstate w_bflag w_blocal w_orph w_cells w_nalloc w_nextid w_nid w_th w_tl w_g_owner w_g_life w_g_where w_g_nfree w_g_uaf
                 set_pc set_tl free_all move_all deref
                 cb nest rent rg ces lidx rl gs sit tinit sync
                 wt_cb wt_nest wt_rent wt_rg wt_ces wt_lidx wt_rl wt_gs wt_sit wt_tinit wt_sync tl0 enter_tls leave_tls leave_rg_tls] in H.

Lemma oeqb_eq a b : oeqb a b = true <-> a = b.
Proof.
  destruct a as [x|], b as [y|]; cbn; split; intros H; try congruence; try discriminate.
  - apply N.eqb_eq in H. congruence.
  - inversion H. apply N.eqb_refl.
Qed.

Lemma memN_In n l : memN n l = true <-> In n l.
Proof.
  unfold memN. rewrite existsb_exists. split.
  - intros (x & Hx & E). apply N.eqb_eq in E. subst. exact Hx.
  - intros H. exists n. split; [exact H|apply N.eqb_refl].
Qed.
Lemma memN_false n l : memN n l = false <-> ~ In n l.
Proof. rewrite <- memN_In. destruct (memN n l); split; intros; congruence. Qed.

(** * Case analysis of one step *)

(** every way [step] can succeed yields one goal with the successor state in constructor form *)
Ltac inv_some H := injection H as <- <-.

Ltac step_split H :=
  repeat match type of H with
  | None = Some _ => discriminate H
  | context [match ?x with _ => _ end] =>
      let E := fresh "E" in destruct x eqn:E
  | Some _ = Some _ => inv_some H
  end.

Ltac unfold_step H :=
  unfold step, leave, leave_rg, enter, region_entered, crit_enter, ab_from, do_cont, to_cas, finish, walk, scan_pass in H.

Definition touched (s : state) (t : nat) (b : N) : Prop :=
  cb (tl s t) = Some b \/ b = nalloc s \/ (exists k rest, th s t = C3 k b rest /\ bstate s b = 0) \/ (exists k, th s t = C4 k b).

Ltac split_updN_goal :=
  repeat match goal with
  | |- context [updN ?f ?i ?v ?i] => rewrite (updN_same f i v)
  | H : ?j <> ?i |- context [updN ?f ?i ?v ?j] => rewrite (updN_other f i v j H)
  | |- context [updN ?f ?i ?v ?j] => destruct (N.eq_dec j i); [subst j|]
  end.

Lemma is_nil_true l : is_nil l = true -> l = [].
Proof. destruct l; [reflexivity|discriminate]. Qed.
Lemma is_nil_false l : is_nil l = false -> l <> [].
Proof. destruct l; [discriminate|intros _ ?; discriminate]. Qed.
Lemma negb_eqb_true a b : negb (a =? b) = true -> a <> b.
Proof. destruct (N.eqb_spec a b); [discriminate|auto]. Qed.
Lemma negb_eqb_false a b : negb (a =? b) = false -> a = b.
Proof. destruct (N.eqb_spec a b); [auto|discriminate]. Qed.
Lemma oeqb_false a b : oeqb a b = false -> a <> b.
Proof. intros H E. apply oeqb_eq in E. congruence. Qed.

(* turn the boolean equations produced by the case analysis into propositions *)
Ltac bool_eqs :=
  repeat match goal with
  | H : negb (_ =? _) = true |- _ => apply negb_eqb_true in H
  | H : negb (_ =? _) = false |- _ => apply negb_eqb_false in H
  | H : (_ =? _) = true |- _ => apply N.eqb_eq in H
  | H : (_ =? _) = false |- _ => apply N.eqb_neq in H
  | H : (_ =? _)%nat = true |- _ => apply Nat.eqb_eq in H
  | H : (_ =? _)%nat = false |- _ => apply Nat.eqb_neq in H
  | H : (_ <? _)%nat = true |- _ => apply Nat.ltb_lt in H
  | H : (_ <? _)%nat = false |- _ => apply Nat.ltb_ge in H
  | H : oeqb _ _ = true |- _ => apply oeqb_eq in H
  | H : oeqb _ _ = false |- _ => apply oeqb_false in H
  | H : is_nil _ = true |- _ => apply is_nil_true in H
  | H : is_nil _ = false |- _ => apply is_nil_false in H
  end.

Lemma step_frame cfg ns s t s' es : step cfg ns s (Step t) = Some (s', es) ->
  (forall u, u <> t -> th s' u = th s u /\ tl s' u = tl s u) /\
  (forall b, ~ touched s t b -> bstate s' b = bstate s b /\ bflag s' b = bflag s b /\ blocal s' b = blocal s b /\ g_owner s' b = g_owner s b) /\
  (blist s' = blist s \/ exists k b h, th s t = C6 k b h /\ blist s' = b :: blist s) /\
  nalloc s <= nalloc s' /\ gep s <= gep s'.
Proof.
  intros H. unfold_step H. cbv zeta in H. step_split H.
  all: bool_eqs; prj.
  all: (split; [intros u Hu; rewrite ?upd_other by exact Hu; split; reflexivity|]).
  all: (split; [intros bb Hb; unfold touched in Hb|]).
  all: try solve [repeat split; reflexivity].
  all: try solve [repeat split; split_updN_goal; try reflexivity; exfalso; apply Hb; eauto 6].
  all: try solve [split; [left; congruence|split; lia]].
  all: try solve [split; [right; eauto|split; lia]].
  all: try solve [repeat split; split_updN_goal; try reflexivity; exfalso; apply Hb; right; right; left; eauto].
Qed.

(** * Program points *)
Definition in_enter (p : pc) : bool :=
  match p with
  | E0 _ | E1 _ | E2 _ | E3 _ | E4 _ _ | S1 _ _ | S2 _ _ _ | S3 _ _ _ | G1 _ _ | G2 _ _ | G3 _ _ | G4 _ _
  | G5 _ _ _ | G6 _ _ _ | G7 _ _ _ _ | U1 _ _ | U2 _ _ _ | U3 _ => true
  | _ => false
  end.
Definition in_cphase (p : pc) : bool :=
  match p with T0 _ | C1 _ | C2 _ _ _ | C3 _ _ _ | C4 _ _ | C5 _ _ | C6 _ _ _ | C7 _ | C8 _ _ | C9 _ => true | _ => false end.
Definition in_xphase (p : pc) : bool := match p with X1 _ | X2 _ _ | X3 => true | _ => false end.
Definition in_lv (p : pc) : bool := match p with LV _ | B1 _ _ | B2 _ _ _ => true | _ => false end.
Definition in_gphase (p : pc) : bool := match p with G1 _ _ | G2 _ _ | G3 _ _ | G4 _ _ | G5 _ _ _ => true | _ => false end.
Definition in_c16 (p : pc) : bool := match p with C1 _ | C2 _ _ _ | C3 _ _ _ | C4 _ _ | C5 _ _ | C6 _ _ _ => true | _ => false end.
Definition pre_sync (p : pc) : bool := match p with E0 _ | E1 _ | E2 _ | E3 _ | E4 _ _ | U1 _ _ | U2 _ _ _ => true | _ => false end.
Definition cblk (p : pc) : option N := match p with C4 _ b | C5 _ b | C6 _ b _ => Some b | _ => None end.
Definition kacq (k : ctx) : bool := match k with KAcq _ => true | KEnter _ => false end.
Definition tmp (p : pc) (x : tls) : nat :=
  match p with
  | E1 k | E2 k => if kacq k then 1 else 0
  | A2 (KHold _ s) => if is_some (gs x s) then 0 else 1
  | A2 _ => 1
  | R3 _ (Some _) _ => 1
  | _ => if in_enter p then 1 else 0
  end%nat.
Definition needs_cb (p : pc) : bool :=
  in_enter p || in_xphase p || in_lv p ||
  match p with C7 _ | C8 _ _ | C9 _ | A2 _ | R3 _ (Some _) _ => true | _ => false end.
Definition no_cb (p : pc) : bool := match p with T0 _ | C1 _ | C2 _ _ _ | C3 _ _ _ | C4 _ _ | C5 _ _ | C6 _ _ _ => true | _ => false end.
Definition ctx_of (p : pc) : option ctx :=
  match p with
  | T0 k | C1 k | C2 k _ _ | C3 k _ _ | C4 k _ | C5 k _ | C6 k _ _ | C7 k | C8 k _ | C9 k | E1 k | E2 k => Some k
  | A1 a | E0 a | E3 a | E4 a _ | S1 a _ | S2 a _ _ | S3 a _ _ | G1 a _ | G2 a _ | G3 a _ | G4 a _ | G5 a _ _ | G6 a _ _ | G7 a _ _ _
  | U1 a _ | U2 a _ _ | U3 a | A2 a => Some (KAcq a)
  | _ => None
  end.
Definition slot_of (p : pc) : option nat :=
  match p with
  | Begin (OHold _ s) | Begin (ODrop s) | Begin (ODeref s) => Some s
  | _ => match ctx_of p with Some (KAcq (KHold _ s)) => Some s | _ => None end
  end.
Definition walk_of (p : pc) : list N := match p with C2 _ r rest | C3 _ r rest => r :: rest | _ => [] end.

(** number of non-empty guards among the slots 0..n-1 *)
Fixpoint cnt_held (g : nat -> option N) (n : nat) : nat :=
  match n with O => O | S m => ((if is_some (g m) then 1 else 0) + cnt_held g m)%nat end.

Lemma cnt_held_none n : cnt_held (fun _ => None) n = O.
Proof. induction n; cbn; [reflexivity|exact IHn]. Qed.
Lemma cnt_upd_hi g s v n : (n <= s)%nat -> cnt_held (upd g s v) n = cnt_held g n.
Proof.
  induction n as [|n IH]; intros H; cbn [cnt_held]; [reflexivity|].
  rewrite IH by lia. rewrite upd_other by lia. reflexivity.
Qed.
Lemma cnt_upd_some_none g s x n : g s = Some x -> (s < n)%nat -> cnt_held g n = S (cnt_held (upd g s None) n).
Proof.
  intros Hg. induction n as [|n IH]; intros H; [lia|]. cbn [cnt_held].
  destruct (Nat.eq_dec s n) as [->|Hne].
  - rewrite upd_same, Hg. cbn [is_some]. rewrite cnt_upd_hi by lia. reflexivity.
  - rewrite (upd_other _ _ _ n) by congruence. rewrite IH by lia. lia.
Qed.
Lemma cnt_upd_none_some g s x n : g s = None -> (s < n)%nat -> cnt_held (upd g s (Some x)) n = S (cnt_held g n).
Proof.
  intros Hg. induction n as [|n IH]; intros H; [lia|]. cbn [cnt_held].
  destruct (Nat.eq_dec s n) as [->|Hne].
  - rewrite upd_same, Hg. cbn [is_some]. rewrite cnt_upd_hi by lia. reflexivity.
  - rewrite (upd_other _ _ _ n) by congruence. rewrite IH by lia. lia.
Qed.
Lemma cnt_upd_same_kind g s v n : is_some (g s) = is_some v -> cnt_held (upd g s v) n = cnt_held g n.
Proof.
  intros Hg. induction n as [|n IH]; [reflexivity|]. cbn [cnt_held]. rewrite IH.
  destruct (Nat.eq_dec n s) as [->|Hne]; [rewrite upd_same, Hg; reflexivity|rewrite upd_other by exact Hne; reflexivity].
Qed.
Lemma cnt_zero_all g n : cnt_held g n = O -> forall s, (s < n)%nat -> g s = None.
Proof.
  induction n as [|n IH]; intros H s Hs; [lia|]. cbn [cnt_held] in H.
  destruct (g n) eqn:En; cbn [is_some] in H; [lia|].
  destruct (Nat.eq_dec s n) as [->|Hne]; [exact En|apply IH; lia].
Qed.
Lemma cnt_pos g n s x : g s = Some x -> (s < n)%nat -> (1 <= cnt_held g n)%nat.
Proof. intros Hg Hs. rewrite (cnt_upd_some_none g s x n Hg Hs). lia. Qed.

(** ** the program points the configuration-dependent selectors can yield *)
Lemma xnext_cases r i : xnext r i = X1 0 \/ xnext r i = X1 1 \/ xnext r i = X1 2 \/ xnext r i = X3.
Proof. unfold xnext. repeat match goal with |- context [if ?c then _ else _] => destruct c end; auto. Qed.
Lemma crit_pc_cases cfg a n :
  (crit_pc cfg a n = A2 a /\ n <> 1%nat) \/
  (n = 1%nat /\ ((crit_pc cfg a n = E1 (KAcq a) /\ rext cfg = RNone) \/ (crit_pc cfg a n = E3 a /\ rext cfg = REager) \/
                 (crit_pc cfg a n = E0 a /\ rext cfg = RLazy))).
Proof.
  unfold crit_pc. destruct (Nat.eqb_spec n 1) as [->|Hn]; [right; split; [reflexivity|]|left; split; [reflexivity|exact Hn]].
  destruct (rext cfg); auto.
Qed.
Lemma iter_next_cases n a e i : iter_next n a e i = S2 a e i \/ iter_next n a e i = A2 a.
Proof. unfold iter_next. destruct (Nat.ltb i n); auto. Qed.
Lemma scan_start_cases cfg a e :
  (scan_start cfg a e = S1 a e /\ scan_is_n cfg = false) \/
  (scan_is_n cfg = true /\ ((exists i, scan_start cfg a e = S2 a e i) \/ scan_start cfg a e = A2 a)).
Proof.
  unfold scan_start, scan_is_n. destruct (scan_strat cfg) as [|n]; [left; split; reflexivity|right; split; [reflexivity|]].
  destruct (iter_next_cases n a e 0) as [->| ->]; eauto.
Qed.
Lemma pass_pc_cases cfg a e i rest :
  (pass_pc cfg a e i rest = G1 a e /\ rest = []) \/
  (rest <> [] /\ ((exists i', pass_pc cfg a e i rest = S2 a e i') \/ pass_pc cfg a e i rest = A2 a)).
Proof.
  unfold pass_pc. destruct rest as [|p r]; [left; split; reflexivity|right; split; [discriminate|]]. cbn [is_nil].
  destruct (scan_strat cfg) as [|n]; [eauto|]. destruct (iter_next_cases n a e (S i)) as [->| ->]; eauto.
Qed.
Lemma scan_block_cases cfg a e i : (exists i', scan_block cfg a e i = S2 a e i') \/ scan_block cfg a e i = A2 a.
Proof.
  unfold scan_block. destruct (scan_strat cfg) as [|n]; [auto|]. destruct (iter_next_cases n a e (S i)) as [->| ->]; eauto.
Qed.
Lemma u2_pc_cases cfg a : (u2_pc cfg a = U3 a /\ scan_is_n cfg = true) \/ (u2_pc cfg a = A2 a /\ scan_is_n cfg = false).
Proof. unfold u2_pc. destruct (scan_is_n cfg); auto. Qed.

(** replace every selector by the program points it can yield *)
Ltac xn :=
  repeat match goal with
  | |- context [xnext ?r ?i] => let Ex := fresh "Ex" in destruct (xnext_cases r i) as [Ex|[Ex|[Ex|Ex]]]; rewrite Ex in *; clear Ex
  | H : context [xnext ?r ?i] |- _ => let Ex := fresh "Ex" in destruct (xnext_cases r i) as [Ex|[Ex|[Ex|Ex]]]; rewrite Ex in *; clear Ex
  end.
Ltac sel_crit c a n :=
  let Ex := fresh "Ex" in let Hn := fresh "Hn" in let Er := fresh "Er" in
  destruct (crit_pc_cases c a n) as [[Ex Hn]|[Hn [[Ex Er]|[[Ex Er]|[Ex Er]]]]]; rewrite Ex in *; clear Ex.
Ltac sel_start c a e :=
  let Ex := fresh "Ex" in let Hs := fresh "Hsn" in
  destruct (scan_start_cases c a e) as [[Ex Hs]|[Hs [[? Ex]|Ex]]]; rewrite Ex in *; clear Ex.
Ltac sel_pass c a e i r :=
  let Ex := fresh "Ex" in let Hr := fresh "Hr" in
  destruct (pass_pc_cases c a e i r) as [[Ex Hr]|[Hr [[? Ex]|Ex]]]; rewrite Ex in *; clear Ex.
Ltac sel_block c a e i :=
  let Ex := fresh "Ex" in destruct (scan_block_cases c a e i) as [[? Ex]|Ex]; rewrite Ex in *; clear Ex.
Ltac sel_u2 c a :=
  let Ex := fresh "Ex" in let Hs := fresh "Hs" in destruct (u2_pc_cases c a) as [[Ex Hs]|[Ex Hs]]; rewrite Ex in *; clear Ex.
Ltac sel :=
  xn;
  repeat match goal with
  | |- context [crit_pc ?c ?a ?n] => sel_crit c a n
  | H : context [crit_pc ?c ?a ?n] |- _ => sel_crit c a n
  | |- context [scan_start ?c ?a ?e] => sel_start c a e
  | H : context [scan_start ?c ?a ?e] |- _ => sel_start c a e
  | |- context [pass_pc ?c ?a ?e ?i ?r] => sel_pass c a e i r
  | H : context [pass_pc ?c ?a ?e ?i ?r] |- _ => sel_pass c a e i r
  | |- context [scan_block ?c ?a ?e ?i] => sel_block c a e i
  | H : context [scan_block ?c ?a ?e ?i] |- _ => sel_block c a e i
  | |- context [u2_pc ?c ?a] => sel_u2 c a
  | H : context [u2_pc ?c ?a] |- _ => sel_u2 c a
  end.

(** ** the counters *)
Definition rent_exp (cfg : config) (n : nat) (o : option N) : nat :=
  match rext cfg with RNone => O | _ => (n + (if is_some o then 1 else 0))%nat end.

Lemma rent_inc_exp cfg k n o : (kacq k = false -> o = None) ->
  rent_inc cfg (rent_exp cfg n o) = rent_exp cfg (nest_of k n) (rg_of k o).
Proof.
  intros H. unfold rent_inc, rent_exp. destruct (rext cfg); [reflexivity| |];
  (destruct k; cbn [nest_of rg_of kacq] in *; [reflexivity|rewrite (H eq_refl); cbn; lia]).
Qed.
Lemma rent_dec_exp cfg n o : (1 <= n)%nat -> rent_dec cfg (rent_exp cfg n o) = rent_exp cfg (pred n) o.
Proof. intros H. unfold rent_dec, rent_exp. destruct (rext cfg); [reflexivity|lia|lia]. Qed.
Lemma rent_dec_exp_rg cfg n r : rent_dec cfg (rent_exp cfg n (Some r)) = rent_exp cfg n None.
Proof. unfold rent_dec, rent_exp. destruct (rext cfg); cbn; [reflexivity|lia|lia]. Qed.
Lemma rent_exp_0 cfg : rent_exp cfg 0 None = O.
Proof. unfold rent_exp. destruct (rext cfg); reflexivity. Qed.
Lemma leave_last_true cfg x : leave_last cfg x = true -> rent x = rent_exp cfg (nest x) (rg x) -> (1 <= nest x)%nat ->
  pred (nest x) = O /\ rent_dec cfg (rent x) = O.
Proof.
  unfold leave_last, rent_exp, rent_dec. intros H E Hn. destruct (rext cfg); apply Nat.eqb_eq in H.
  - split; [exact H|exact E].
  - split; [destruct (rg x); cbn in E; lia|exact H].
  - split; [destruct (rg x); cbn in E; lia|exact H].
Qed.
Lemma leave_rg_last_true cfg x r : leave_rg_last cfg x = true -> rent x = rent_exp cfg (nest x) (Some r) ->
  nest x = O /\ rent_dec cfg (rent x) = O.
Proof.
  unfold leave_rg_last, rent_exp, rent_dec. intros H E. destruct (rext cfg); [discriminate| |]; apply Nat.eqb_eq in H; cbn in E; split; lia.
Qed.
Lemma eager_first_true cfg x : eager_first cfg x = true -> rent x = rent_exp cfg (nest x) (rg x) ->
  rext cfg = REager /\ rent x = O /\ nest x = O /\ rg x = None.
Proof.
  unfold eager_first, rent_exp. destruct (rext cfg); try discriminate. intros H E. apply Nat.eqb_eq in H.
  destruct (rg x); cbn in E; repeat split; try reflexivity; lia.
Qed.
Lemma needs_init_eq cfg x : needs_init cfg x = scan_is_n cfg && negb (tinit x).
Proof. reflexivity. Qed.
Lemma inside_false cfg x : inside cfg x = false -> rent x = rent_exp cfg (nest x) (rg x) -> nest x = O /\ rent x = O.
Proof.
  unfold inside, rent_exp. intros H E. destruct (rext cfg); apply negb_false_iff, Nat.eqb_eq in H.
  - split; [exact H|exact E].
  - split; [destruct (rg x); cbn in E; lia|exact H].
  - split; [destruct (rg x); cbn in E; lia|exact H].
Qed.
