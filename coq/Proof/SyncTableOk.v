(** The synchronisation contract annotated in the xenium headers ("(n) - this release-store
    synchronizes-with the acquire-load (m)") checked against the memory orders written in the code.
    [sites] is GENERATED from /repo on every run (tools/synctable.py); the check is a computation. *)
From Coq Require Import NArith List Bool.
From XV Require Import gen.SyncTable.
Import ListNotations.
Local Open Scope N_scope.

Definition relc (o : N) : bool := (o =? 3) || (o =? 4) || (o =? 5).
Definition acqc (o : N) : bool := (o =? 1) || (o =? 2) || (o =? 4) || (o =? 5).

(** the order written at an annotated statement is at least as strong as the annotation demands
    (stronger is fine; an order passed in by the caller is resolved at its call sites; for a
    conditional order both alternatives are listed; an "acquire-reload" is the failure order of a CAS) *)
Definition site_ok (s : site) : bool :=
  let c := s_claim s in
  if c =? 0 then true
  else if c =? 3 then relc (s_succ s) || (s_cond s && existsb relc (s_orders s))
  else if c =? 2 then acqc (s_succ s) || s_param s || (s_reload s && acqc (s_fail s)) || (s_cond s && existsb acqc (s_orders s))
  else if c =? 5 then (s_succ s =? 5)
  else if c =? 4 then (relc (s_succ s) && acqc (s_succ s)) || (existsb relc (s_orders s) && existsb acqc (s_orders s))
  else false.

(** under the TSan build variant (TSAN_MEMORY_ORDER) the substituted order must be at least as strong *)
Definition tsan_ok (s : site) : bool :=
  if s_tsan s =? 9 then true
  else if s_claim s =? 3 then relc (s_tsan s)
  else if s_claim s =? 2 then acqc (s_tsan s)
  else if s_claim s =? 5 then (s_tsan s =? 5)
  else true.

Definition find_site (f n : N) : option site :=
  find (fun t => (s_file t =? f) && (s_num t =? n)) sites.

Definition dual (t : site) : bool := existsb relc (s_orders t) && existsb acqc (s_orders t).

(** a declared pair is release-class -> acquire-class or seq_cst <-> seq_cst, and its target exists *)
Definition complementary (a b : N) : bool :=
  ((a =? 3) && ((b =? 2) || (b =? 4) || (b =? 5))) ||
  ((a =? 2) && ((b =? 3) || (b =? 4) || (b =? 5))) ||
  ((a =? 5) && negb (b =? 0)) || (a =? 4) || (a =? 0) || (b =? 0).

Definition pair_ok (s : site) (tgt : N * N) : bool :=
  match find_site (s_file s) (fst tgt) with
  | Some t => complementary (s_claim s) (s_claim t) || dual t || dual s
  | None => false
  end.

(** textual deviations of the pinned tree (an annotation that refers to a number that does not exist in
    its file); committed and justified in DESIGN.md, so that the unchanged tree is quiet *)
Definition exception (s : site) (tgt : N * N) : bool :=
  (* impl/vyukov_hash_map.hpp (24) refers to (8), a number that is not used in that file *)
  (s_num s =? 24) && (fst tgt =? 8) && (match find_site (s_file s) 8 with None => true | Some _ => false end).

Definition pairs_ok (s : site) : bool := forallb (fun tg => pair_ok s tg || exception s tg) (s_targets s).

Definition table_ok : bool := forallb (fun s => site_ok s && tsan_ok s && pairs_ok s) sites.

Definition bad_sites : list (N * N * N) :=
  map (fun s => (s_file s, s_num s, s_line s)) (filter (fun s => negb (site_ok s && tsan_ok s && pairs_ok s)) sites).

Theorem sync_table_ok : table_ok = true.
Proof. vm_compute. reflexivity. Qed.

Theorem sync_table_nonempty : (200 <=? N.of_nat (length sites)) = true.
Proof. vm_compute. reflexivity. Qed.
